import UtilModel.RefCount.Model
import UtilModel.Core.Monitor
/-!
# refcount: the properties C08 and C09 as executable monitors over observable histories

Each property is the conjunction (`ObsMonitor.rcBoth`) of small clause monitors that mention only
API-level events: invocations and responses of `AddRef` / `Release` / `SetContext` / `ClearContext`,
entries and returns of the resolver, entries of reference callbacks and release functions (with what
they were given / what they saw in the target container), `released()` invocations, context
cancellations, the target probe and the quiescence points.

Values: resolver entry `k` returns the value `k+1` or the empty value `0` (harness discipline), so a
value names the entry that produced it.
-/
namespace UtilModel

/-- conjunction of two monitors -/
def ObsMonitor.rcBoth {ο μ ν : Type} (a : ObsMonitor ο μ) (b : ObsMonitor ο ν) : ObsMonitor ο (μ × ν) where
  init := (a.init, b.init)
  step := fun m o =>
    match a.step m.1 o, b.step m.2 o with
    | some x, some y => some (x, y)
    | _, _ => none

theorem ObsMonitor.rcBoth_run {ο μ ν : Type} (a : ObsMonitor ο μ) (b : ObsMonitor ο ν) (m : μ × ν)
    (h : List ο) :
    ((a.rcBoth b).run m h).isSome = ((a.run m.1 h).isSome && (b.run m.2 h).isSome) := by
  induction h generalizing m with
  | nil => simp [ObsMonitor.run]
  | cons o os ih =>
    simp only [ObsMonitor.run]
    have hp : (a.rcBoth b).step m o = match a.step m.1 o, b.step m.2 o with
      | some x, some y => some (x, y)
      | _, _ => none := rfl
    rw [hp]
    cases ha : a.step m.1 o with
    | none => simp
    | some x =>
      cases hb : b.step m.2 o with
      | none => simp
      | some y => simpa using ih (x, y)

/-- the conjunction accepts a history iff both monitors do -/
theorem ObsMonitor.rcBoth_accepts {ο μ ν : Type} (a : ObsMonitor ο μ) (b : ObsMonitor ο ν) (h : List ο) :
    (a.rcBoth b).accepts h = (a.accepts h && b.accepts h) := by
  simp only [ObsMonitor.accepts]
  exact ObsMonitor.rcBoth_run a b (a.init, b.init) h

namespace RefCount

/-! ## C08 -/

/-- **C08 clause 1 (at most once).** A release function runs only after its resolver entry returned
it, and at most once. State: entries that returned a release function not yet called. -/
def monOnce : ObsMonitor Obs (List Nat) where
  init := []
  step := fun m o =>
    match o with
    | .cboutResolver k _ true _ => some (k :: m)
    | .cbinRel k _ => if m.contains k then some (m.erase k) else none
    | _ => some m

structure HiddenSt where
  /-- resolver entry whose result the last notification of every recording reference delivered
  (`none` after "gone"). A `resolved = true` notification always delivers the result of the latest
  resolver return (one resolver at a time; a result is stored before the next entry starts), so the
  entry is known even when the value is the zero value of `T`. -/
  last : List (Nat × Option Nat) := []
  latest : Option Nat := none   -- latest resolver entry that returned
  relInv : List Nat := []       -- references whose Release has been invoked
  inval : List Nat := []        -- entries whose released() callback has been called
deriving Repr

def setLast (l : List (Nat × Option Nat)) (r : Nat) (v : Option Nat) : List (Nat × Option Nat) :=
  (r, v) :: l.filter (·.1 != r)

/-- **C08 clause 4 (released only after hidden).** When the release function of entry `k` runs, the
target container does not hold `k`'s value and no reference that is still held was last given `k`'s
result (whatever the value, the zero value of `T` included); and at a quiescence point no held
reference is still given the result of an entry whose `released()` was called. -/
def monHidden : ObsMonitor Obs HiddenSt where
  init := {}
  step := fun m o =>
    match o with
    | .cboutResolver k _ _ _ => some { m with latest := some k }
    | .cbinRefcb r res _ _ => some { m with last := setLast m.last r (if res then m.latest else none) }
    | .invRelease _ r => some { m with relInv := r :: m.relInv }
    | .envReleased k => some { m with inval := k :: m.inval }
    | .cbinRel k seen =>
      if seen = k + 1 then none
      else if m.last.any (fun p => p.2 == some k && !m.relInv.contains p.1) then none
      else some m
    | .quiesce _ =>
      if m.last.any (fun p => !m.relInv.contains p.1 && (match p.2 with
          | some k => m.inval.contains k
          | none => false)) then none
      else some m
    | _ => some m

structure HeldSt where
  told : List (Nat × Nat) := []   -- (reference, entry) pairs ever delivered with resolved = true
  latest : Option Nat := none
  relInv : List Nat := []
  inval : List Nat := []          -- entries whose released() callback has been called
  ctxCalls : List Nat := []       -- SetContext / ClearContext calls in flight
deriving Repr

/-- **C08 clause 2 (not while held).** The release function of entry `k` does not run while a
reference that was given `k`'s result is still held (its `Release` not yet invoked), unless the value
was invalidated: `released()` of `k` was called, or a context change is in progress. -/
def monHeld : ObsMonitor Obs HeldSt where
  init := {}
  step := fun m o =>
    match o with
    | .cboutResolver k _ _ _ => some { m with latest := some k }
    | .cbinRefcb r true _ _ =>
      match m.latest with
      | some k => some { m with told := (r, k) :: m.told }
      | none => none     -- a result was delivered although no resolver has returned
    | .invRelease _ r => some { m with relInv := r :: m.relInv }
    | .envReleased k => some { m with inval := k :: m.inval }
    | .invSetCtx a _ _ => some { m with ctxCalls := a :: m.ctxCalls }
    | .retSetCtx a _ => some { m with ctxCalls := m.ctxCalls.erase a }
    | .cbinRel k _ =>
      if m.inval.contains k || !m.ctxCalls.isEmpty then some m
      else if m.told.any (fun p => p.2 = k && !m.relInv.contains p.1) then none
      else some m
    | _ => some m

structure EvSt where
  keep : Bool := false
  unrel : List (Nat × Nat) := []  -- (entry, err) that returned a release function not yet called
  latest : Option Nat := none     -- latest entry that returned
  added : List Nat := []          -- references whose AddRef returned
  relInv : List Nat := []
  ctxCalls : List Nat := []
  ctx : Option Nat := none        -- the container context when it is known (no overlapping SetContext)
  inval : List Nat := []          -- entries whose released() was called, or that had returned when a
                                  -- SetContext reported a context change
  returned : List Nat := []       -- entries that have returned
  ctxSnap : List (Nat × List Nat) := []   -- per SetContext call in flight: the entries that had returned when it was invoked
  hooks : Bool := false           -- a consumer-owned reference (composition stub `invHook`) was taken: its
                                  -- release is not observable here, so it counts as possibly held
deriving Repr

/-- **C08 clause 3 (no leak).** At a quiescence point every release function that was returned and
not yet called belongs to the latest resolver result; that result was not invalidated (`released()`
called, or a SetContext invoked after it returned reported a change); it is kept only if a reference is held or
(keep-unreferenced and no error), and the context is set. (`invHook` never occurs in a history of this
component's harness; it is the model's composition stub for consumer-owned references, whose release
is not observable at this level, so after one the 'a reference is held' condition is not evaluated.) -/
def monEventually : ObsMonitor Obs EvSt where
  init := {}
  step := fun m o =>
    match o with
    | .cfg keep ctx _ => some { m with keep := keep, ctx := some ctx }
    | .cboutResolver k _ hasRel err =>
      some { m with latest := some k, returned := k :: m.returned
                    unrel := if hasRel then (k, err) :: m.unrel else m.unrel }
    | .cbinRel k _ => some { m with unrel := m.unrel.filter (·.1 != k) }
    | .retAddRef a => some { m with added := a :: m.added }
    | .invRelease _ r => some { m with relInv := r :: m.relInv }
    | .envReleased k => some { m with inval := k :: m.inval }
    | .invSetCtx a c _ =>
      some { m with ctxCalls := a :: m.ctxCalls, ctx := if m.ctxCalls.isEmpty then some c else none
                    ctxSnap := (a, m.returned) :: m.ctxSnap }
    | .retSetCtx a upd =>
      let snap := ((m.ctxSnap.find? (·.1 == a)).map (·.2)).getD []
      some { m with ctxCalls := m.ctxCalls.erase a
                    inval := if upd == some true then snap ++ m.inval else m.inval }
    | .invHook _ => some { m with hooks := true }
    | .quiesce _ =>
      let held := m.added.filter (fun r => !m.relInv.contains r)
      if m.unrel.all (fun p => some p.1 == m.latest && !m.inval.contains p.1 &&
            (!held.isEmpty || m.hooks || (m.keep && p.2 == 0)) && m.ctx != some 0) then some m else none
    | _ => some m

abbrev monC08 := (monOnce.rcBoth monHidden).rcBoth (monHeld.rcBoth monEventually)

/-! ## C09 -/

/-- **C09 (one resolver at a time).** Resolver entries and returns alternate. -/
def monOneResolver : ObsMonitor Obs (Option Nat) where
  init := none
  step := fun m o =>
    match o with
    | .cbinResolver k => if m.isNone then some (some k) else none
    | .cboutResolver k _ _ _ => if m = some k then some none else none
    | _ => some m

/-- **C09 (no panic, no deadlock).** No API call panics; at a quiescence point no `AddRef`,
`Release`, `SetContext`, `ClearContext` call is still pending. State: ids of those calls. -/
def monNoPanic : ObsMonitor Obs (List Nat) where
  init := []
  step := fun m o =>
    match o with
    | .invAddRef a _ | .invRelease a _ | .invSetCtx a _ _ => some (a :: m)
    | .retPanic _ => none
    | .quiesce B => if B.any m.contains then none else some m
    | _ => some m

structure ProgSt where
  tgt : Bool := true                       -- `target` container given
  tgtE : Bool := true                      -- `targetErr` container given
  ctx : Option Nat := none
  ctxCalls : List Nat := []
  dead : List Nat := []
  added : List (Nat × Bool) := []          -- (reference, recording?) whose AddRef returned
  relInv : List Nat := []
  last : List (Nat × Bool × Nat × Nat) := []   -- last notification per recording reference
  running : Option Nat := none
  latest : Option (Nat × Nat) := none      -- (value, error) of the latest resolver return
  released : List Nat := []                -- entries whose released() has been called
  latestK : Option Nat := none
  kinds : List (Nat × Bool) := []
  withRel : List Nat := []                 -- entries that returned a release function
  relSeen : List Nat := []                 -- entries whose release function has run
deriving Repr

def lastOf (l : List (Nat × Bool × Nat × Nat)) (r : Nat) : Option (Bool × Nat × Nat) :=
  (l.find? (·.1 == r)).map (·.2)

/-- the progress obligation is in force: the context is known to be set and live, a reference is
held, and no resolver call is running -/
def progActive (m : ProgSt) : Bool :=
  let held := m.added.filter (fun p => !m.relInv.contains p.1)
  let live := match m.ctx with
    | some c => c != 0 && !m.dead.contains c
    | none => false
  live && !held.isEmpty && m.running.isNone

/-- **C09 (progress, delivery, restart).** At a quiescence point at which the context is known to be
set and live and a reference is held: a resolver call is running, or the latest result has been
delivered to the target containers (checked on the `probe` line, which the harness writes right
before the quiescence line) and to every held recording reference (late ones included); an entry
whose `released()` was called is not the delivered one, and its release function (if it returned
one) has run. -/
def monProgress : ObsMonitor Obs ProgSt where
  init := {}
  step := fun m o =>
    match o with
    | .cfg _ ctx tgt => some { m with ctx := some ctx, tgt := cfgTgt tgt, tgtE := cfgTgtE tgt }
    | .invAddRef a k => some { m with kinds := (a, k == .rcd) :: m.kinds }
    | .retAddRef a =>
      some { m with added := (a, (m.kinds.find? (·.1 == a)).map (·.2) == some true) :: m.added }
    | .invRelease _ r => some { m with relInv := r :: m.relInv }
    | .invSetCtx a c _ =>
      some { m with ctx := if m.ctxCalls.isEmpty then some c else none, ctxCalls := a :: m.ctxCalls }
    | .retSetCtx a _ => some { m with ctxCalls := m.ctxCalls.erase a }
    | .envCancelCtx c => some { m with dead := c :: m.dead }
    | .envReleased k => some { m with released := k :: m.released }
    | .cbinResolver k => some { m with running := some k }
    | .cboutResolver k v h e =>
      some { m with running := none, latest := some (v, e), latestK := some k
                    withRel := if h then k :: m.withRel else m.withRel }
    | .cbinRel k _ => some { m with relSeen := k :: m.relSeen }
    | .cbinRefcb r res v e => some { m with last := (r, res, v, e) :: m.last.filter (·.1 != r) }
    | .probe pv pe =>
      -- the harness reads both target containers at the quiescence point, right before it logs it
      if progActive m then
        match m.latest with
        | some (v, e) =>
          -- each container that was given is checked on its own (either may be nil)
          if (!m.tgt || pv == (if e = 0 then v else 0)) && (!m.tgtE || pe == e) then some m else none
        | none => none
      else some m
    | .quiesce _ =>
      -- released_restarts: calling released() makes the value be dropped (by the next quiescence point)
      if m.released.any (fun k => m.withRel.contains k && !m.relSeen.contains k) then none else
      if progActive m then
        match m.latest, m.latestK with
        | some (v, e), some k =>
          let held := m.added.filter (fun p => !m.relInv.contains p.1)
          let okRefs := held.all fun p => !p.2 || lastOf m.last p.1 == some (true, v, e)
          if okRefs && !m.released.contains k then some m else none
        | _, _ => none
      else some m
    | _ => some m

abbrev monC09 := (monOneResolver.rcBoth monNoPanic).rcBoth monProgress

end RefCount
end UtilModel
