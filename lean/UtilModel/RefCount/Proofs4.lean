import UtilModel.RefCount.Proofs3
/-!
# refcount: the critical sections of AddRef / removeRef / SetContext / resolve preserve the invariant
-/
set_option linter.unusedSimpArgs false
set_option linter.unusedVariables false
namespace UtilModel.RefCount
open UtilModel

/-- `removeRef` after one live reference has been taken out of the table -/
theorem inv_remove (s : St) (th' : List TS) (o : Owner) (hi : Inv s)
    (ht : ∀ (a : Nat) (k : CbKind) (pc : Pc) (f sf : Bool) (t : Option Nat),
      th'[a]? = some (.ref k pc true f sf t) → k ≠ .nil → t = s.cur)
    (hl : th'.countP TS.isLive + 1 = liveRefs s) :
    Inv (afterRemove { s with th := th', owner := o }) := by
  obtain ⟨hc, hv⟩ := hi
  have hcf : s.cfgd = true := by
    cases hcf : s.cfgd
    · have := (hc.pre hcf).1; simp [liveRefs, this] at hl
    · rfl
  have hc1 : Core { s with th := th', owner := o } := by
    have := core_upd s th' o s.ctx hc hcf ht; exact this
  have hlr : liveRefs { s with th := th', owner := o } = th'.countP TS.isLive := rfl
  unfold afterRemove
  split
  · rename_i h0
    split
    · exact ⟨shutdown_core _ hc1, shutdown_live _ hc1 (Or.inl h0)⟩
    · rename_i hk
      simp at hk
      obtain ⟨hkeep, hres, hverr⟩ := hk
      refine ⟨hc1, ⟨?_, ?_, ?_⟩⟩
      · intro i c hcall hn
        obtain ⟨f1, f2, f3, f4, f5, f6⟩ := hv.fresh i c hcall hn
        refine ⟨f1, f2, f3, f4, ?_, f6⟩
        intro hfin
        -- the stored call is the current one, so it is finished
        have hcur : s.cur.isSome = true := by rw [← hc.resCur]; exact hres
        cases hcs : s.cur with
        | none => simp [hcs] at hcur
        | some j =>
          obtain ⟨x, _, g1, g2, _, g4, _⟩ := hc.curSome j hcs
          have := fresh_unique s hc i j c x hcall g1 hn g2
          subst this; rw [hcall] at g1; cases g1
          rw [g4] at hfin; cases hfin
      · intro _ h2; rw [hlr] at h2; omega
      · intro _; exact ⟨Or.inr ⟨hkeep, hverr⟩, (hv.kept hres).2⟩
  · rename_i h0
    have hpos : 0 < th'.countP TS.isLive := Nat.pos_of_ne_zero h0
    refine ⟨hc1, ⟨?_, ?_, ?_⟩⟩
    · intro i c hcall hn
      obtain ⟨f1, f2, f3, f4, f5, f6⟩ := hv.fresh i c hcall hn
      exact ⟨f1, f2, f3, f4, fun _ => hpos, f6⟩
    · intro h1 _; exact hv.prog h1 (by omega)
    · intro h1; exact ⟨Or.inl hpos, (hv.kept h1).2⟩


theorem step_inv_release (s s' : St) (e : Ev) (hi : Inv s) (hs : step s e = some s')
    (he : match e with
      | .relCS _ | .selfRelCS _ => True
      | _ => False) : Inv s' := by
  cases e <;> simp at he
  case relCS b =>
    simp only [step] at hs; split at hs <;> try simp at hs
    rename_i r hb
    split at hs <;> try simp at hs
    case h_2 =>
      obtain ⟨_, rfl⟩ := hs
      exact inv_th_set s b _ (.rel r .done) (.thr b) hi hb rfl (by intro _ _ _ _ _ he; cases he)
    rename_i k pc flag self told hr
    obtain ⟨_, rfl⟩ := hs
    have hne : r ≠ b := by intro e; subst e; rw [hb] at hr; cases hr
    refine inv_remove s _ (.thr b) hi ?_ ?_
    · intro a k2 pc2 f sf t ha hk
      rcases getElem?_set_cases _ b a _ _ ha with ⟨_, hx⟩ | ⟨_, hx⟩
      · cases hx
      · rcases getElem?_set_cases _ r a _ _ hx with ⟨_, hy⟩ | ⟨_, hy⟩
        · cases hy
        · exact hi.core.told a k2 pc2 f sf t hy hk
    · have h1 := countP_set TS.isLive s.th r _ (.ref k pc false flag self told) hr
      have hb' : (s.th.set r (.ref k pc false flag self told))[b]? = some (.rel r .cs) := by
        rw [getElem?_set_ne' _ _ _ _ hne]; exact hb
      have h2 := countP_set TS.isLive _ b _ (.rel r .done) hb'
      simp [TS.isLive] at h1 h2
      simp [liveRefs]; omega
  case selfRelCS a =>
    simp only [step] at hs; split at hs <;> try simp at hs
    rename_i pc flag told ha
    obtain ⟨_, rfl⟩ := hs
    refine inv_remove s _ (.self a) hi ?_ ?_
    · intro a2 k2 pc2 f sf t h2 hk
      rcases getElem?_set_cases _ a a2 _ _ h2 with ⟨_, hx⟩ | ⟨_, hx⟩
      · cases hx
      · exact hi.core.told a2 k2 pc2 f sf t hx hk
    · have h1 := countP_set TS.isLive s.th a _ (.ref .hook pc false flag false told) ha
      simp [TS.isLive] at h1
      simp [liveRefs]; omega


theorem step_inv_setctx (s s' : St) (a : Nat) (hi : Inv s) (hs : step s (.setCtxCS a) = some s') : Inv s' := by
  simp only [step] at hs; split at hs <;> try simp at hs
  rename_i c clear u ha
  have hcf := cfgd_of_th s hi.core a _ ha
  split at hs <;> simp at hs <;> obtain ⟨_, rfl⟩ := hs
  · exact inv_th_set s a _ (.ctx c clear .done false) (.thr a) hi ha rfl (by intro _ _ _ _ _ he; cases he)
  · refine startResolve_inv _ ?_
    have := core_upd s (s.th.set a (.ctx c clear .done true)) (.thr a) c hi.core hcf ?_
    · exact this
    · intro a2 k2 pc2 f sf t h2 hk
      rcases getElem?_set_cases _ a a2 _ _ h2 with ⟨_, hx⟩ | ⟨_, hx⟩
      · cases hx
      · exact hi.core.told a2 k2 pc2 f sf t hx hk

/-- the invariant when a reference has been added and nothing else changed -/
theorem inv_added (s : St) (th' : List TS) (o : Owner) (hi : Inv s)
    (ht : ∀ (a : Nat) (k : CbKind) (pc : Pc) (f sf : Bool) (t : Option Nat),
      th'[a]? = some (.ref k pc true f sf t) → k ≠ .nil → t = s.cur)
    (hl : th'.countP TS.isLive = liveRefs s + 1) (hcf : s.cfgd = true)
    (hp : s.resolved = true ∨ 0 < liveRefs s) :
    Inv { s with th := th', owner := o } := by
  obtain ⟨hc, hv⟩ := hi
  have hc1 : Core { s with th := th', owner := o } := core_upd s th' o s.ctx hc hcf ht
  refine ⟨hc1, ⟨?_, ?_, ?_⟩⟩
  · intro i c hcall hn
    obtain ⟨f1, f2, f3, f4, f5, f6⟩ := hv.fresh i c hcall hn
    exact ⟨f1, f2, f3, f4, fun _ => by simp [liveRefs, hl], f6⟩
  · intro h1 _
    rcases hp with hp | hp
    · exact Or.inl hp
    · exact hv.prog h1 hp
  · intro h1; exact ⟨Or.inl (by simp [liveRefs, hl]), (hv.kept h1).2⟩

theorem step_inv_addref (s s' : St) (a : Nat) (hi : Inv s) (hs : step s (.addRefCS a) = some s') : Inv s' := by
  simp only [step] at hs; split at hs <;> try simp at hs
  rename_i k ha
  have hcf := cfgd_of_th s hi.core a _ ha
  obtain ⟨_, hs⟩ := hs
  have hcount : (s.th.set a (.ref k .done true false false none)).countP TS.isLive = liveRefs s + 1 := by
    have h1 := countP_set TS.isLive s.th a _ (.ref k .done true false false none) ha
    simp [TS.isLive] at h1
    simp [liveRefs]; omega
  have hold : ∀ (a2 : Nat) (k2 : CbKind) (pc2 : Pc) (f sf : Bool) (t told : Option Nat),
      (s.th.set a (.ref k .done true false false told))[a2]? = some (.ref k2 pc2 true f sf t) → k2 ≠ .nil →
      (a2 = a ∧ k2 = k ∧ t = told) ∨ t = s.cur := by
    intro a2 k2 pc2 f sf t told h2 hk
    rcases getElem?_set_cases _ a a2 _ _ h2 with ⟨h3, hx⟩ | ⟨_, hx⟩
    · cases hx; exact Or.inl ⟨h3, rfl, rfl⟩
    · exact Or.inr (hi.core.told a2 k2 pc2 f sf t hx hk)
  split at hs
  · -- first reference of an unresolved container: start resolving
    rename_i h1
    simp at hs; subst hs
    have hnr : s.resolved = false := by simpa using h1.2
    refine startResolve_inv _ ?_
    have := core_upd s (s.th.set a (.ref k .done true false false none)) (.thr a) s.ctx hi.core hcf ?_
    · exact this
    · intro a2 k2 pc2 f sf t h2 hk
      rcases hold a2 k2 pc2 f sf t none h2 hk with ⟨_, _, h3⟩ | h3
      · rw [h3]; exact (cur_none_of_unresolved s hi.core hnr).symm
      · exact h3
  · rename_i h1
    split at hs
    · -- resolved: deliver the current result to the late reference
      rename_i h2
      simp at hs; subst hs
      have hkn : (k == CbKind.nil) = false := by simpa using h2.2
      simp only [hkn, Bool.or_false]
      have hlen := lt_of_getElem? ha
      have h3 := inv_added s (s.th.set a (.ref k .done true false false s.cur)) (.thr a) hi ?_ ?_ hcf (Or.inl (by simpa using h2.1))
      · have h4 := inv_misc _ h3 (.thr a) s.ninv s.relRuns
          (addBatch s.pend [.refcb a (k == .rcd) true s.value s.verr]) (addBatch_ne _ _ hi.core.pendNE)
        simpa [List.set_set] using h4
      · intro a2 k2 pc2 f sf t h5 hk
        rcases hold a2 k2 pc2 f sf t s.cur h5 hk with ⟨_, _, h6⟩ | h6
        · exact h6
        · exact h6
      · have h1 := countP_set TS.isLive s.th a _ (.ref k .done true false false s.cur) ha
        simp [TS.isLive] at h1
        simp [liveRefs]; omega
    · rename_i h2
      simp at hs; subst hs
      simp at h1 h2
      refine inv_added s _ (.thr a) hi ?_ hcount hcf ?_
      · intro a2 k2 pc2 f sf t h5 hk
        rcases hold a2 k2 pc2 f sf t none h5 hk with ⟨_, hk2, h6⟩ | h6
        · subst hk2
          cases hres : s.resolved
          · rw [h6]; exact (cur_none_of_unresolved s hi.core hres).symm
          · exact absurd (h2 hres) hk
        · exact h6
      · cases hres : s.resolved
        · right
          rcases Nat.eq_zero_or_pos (liveRefs s) with h0 | h0
          · have := h1 (by show List.countP TS.isLive _ = 1; rw [hcount, h0])
            rw [hres] at this; cases this
          · exact h0
        · exact Or.inl rfl


/-- final section of `resolve`, stale nonce: the result is released at once, nothing is stored -/
theorem inv_store_stale (s : St) (i : Nat) (c : Call) (val err : Nat) (hasRel : Bool) (o : Owner)
    (p : List (List CbItem)) (hi : Inv s) (h : s.calls[i]? = some c) (hnf : c.fin = false)
    (hst : c.ci.st = .returned) (hr : c.res = some (val, hasRel, err)) (hn : c.nonce ≠ s.nonce)
    (hp : ∀ b ∈ p, b ≠ []) :
    Inv { setCall s i { c with fin := true, released := hasRel } with owner := o, pend := p } := by
  obtain ⟨hc, hv⟩ := hi
  have hlt := lt_of_getElem? h
  generalize hc' : ({ c with fin := true, released := hasRel } : Call) = c'
  have e1 : c'.nonce = c.nonce := by rw [← hc']
  have hself : ({ setCall s i c' with owner := o, pend := p } : St).calls[i]? = some c' := by simp [setCall, hlt]
  have hother : ∀ (j : Nat), j ≠ i → ({ setCall s i c' with owner := o, pend := p } : St).calls[j]? = s.calls[j]? := by
    intro j hj; simp [setCall, List.getElem?_set, Ne.symm hj]
  have hget : ∀ (j : Nat) (x : Call), ({ setCall s i c' with owner := o, pend := p } : St).calls[j]? = some x →
      (j = i ∧ x = c') ∨ (j ≠ i ∧ s.calls[j]? = some x) := by
    intro j x hx; exact getElem?_set_cases s.calls i j c' x hx
  have hnonce : ∀ (j : Nat) (x : Call), ({ setCall s i c' with owner := o, pend := p } : St).calls[j]? = some x →
      ∃ y, s.calls[j]? = some y ∧ y.nonce = x.nonce ∧ y.ci = x.ci ∧ y.root = x.root := by
    intro j x hx
    rcases hget j x hx with ⟨hj, hx⟩ | ⟨_, hx⟩
    · exact ⟨c, hj ▸ h, by rw [hx, ← hc'], by rw [hx, ← hc'], by rw [hx, ← hc']⟩
    · exact ⟨x, hx, rfl, rfl, rfl⟩
  have hcurne : s.cur ≠ some i := by
    intro hcur
    obtain ⟨x, _, g1, g2, _⟩ := hc.curSome i hcur
    rw [h] at g1; cases g1; exact hn g2
  refine ⟨⟨?_, ?_, ?_, ?_, ?_, hc.resCur, ?_, hc.curNone, hc.tgtVal, hc.tgtErr, ?_, ?_, ?_, ?_, ?_, hc.told, ?_,
    hc.panicF, hp, ?_, ?_⟩, ⟨?_, ?_, hv.kept⟩⟩
  · intro hcf; have := (hc.pre hcf).2; simp [this] at h
  · refine chain_of_pointwise s _ hc.chain rfl (by simp [setCall]) ?_
    intro j x hx
    obtain ⟨y, hy, _, hci, _⟩ := hnonce j x hx
    exact ⟨y, hy, by rw [hci], by rw [hci]⟩
  · intro j x hx
    obtain ⟨y, hy, hn', _⟩ := hnonce j x hx
    rw [← hn']; exact hc.nonceLe j y hy
  · intro j k cj ck hj hk hjk
    obtain ⟨y1, hy1, hn1, _⟩ := hnonce j cj hj
    obtain ⟨y2, hy2, hn2, _⟩ := hnonce k ck hk
    rw [← hn1, ← hn2]; exact hc.nonceLt j k y1 y2 hy1 hy2 hjk
  · intro l; simp [setCall]; exact hc.lastCh l
  · intro j hj
    obtain ⟨x, hh, g1, g2, g3, g4, g5, g6, g7⟩ := hc.curSome j hj
    have hji : j ≠ i := by intro e; subst e; exact hcurne hj
    exact ⟨x, hh, by rw [hother j hji]; exact g1, g2, g3, g4, g5, g6, g7⟩
  · intro j x hx hrel
    rcases hget j x hx with ⟨hj, hx⟩ | ⟨_, hx⟩
    · rw [hx, ← hc'] at hrel ⊢
      simp at hrel ⊢; subst hrel; exact ⟨val, err, hr⟩
    · exact hc.relFin j x hx hrel
  · intro j x hx hs
    rcases hget j x hx with ⟨hj, hx⟩ | ⟨_, hx⟩
    · rw [hx, ← hc'] at hs ⊢
      have := (hc.storedFin i c h hs).1; rw [hnf] at this; cases this
    · exact hc.storedFin j x hx hs
  · intro j x v e hx hf hres hnr
    rcases hget j x hx with ⟨hj, hx⟩ | ⟨_, hx⟩
    · rw [hx, ← hc'] at hres hnr
      simp [hr] at hres hnr
      rw [hres.2.1] at hnr; cases hnr
    · exact hc.noLeak j x v e hx hf hres hnr
  · intro j x hx
    rcases hget j x hx with ⟨_, hx⟩ | ⟨_, hx⟩
    · rw [hx, ← hc']; simp [hst]
    · exact hc.finSt j x hx
  · intro j x hx
    rcases hget j x hx with ⟨_, hx⟩ | ⟨_, hx⟩
    · rw [hx, ← hc']; simp [hst]
    · exact hc.resSt j x hx
  · intro j hj
    obtain ⟨x, g1, g2⟩ := hc.rcFresh j hj
    by_cases hji : j = i
    · rw [hji] at g1 ⊢; rw [h] at g1; cases g1
      exact ⟨c', hself, by rw [e1]; exact g2⟩
    · exact ⟨x, by rw [hother j hji]; exact g1, g2⟩
  · intro j x hx hd
    obtain ⟨y, hy, _, hci, hroot⟩ := hnonce j x hx
    rw [← hci]; rw [← hroot] at hd; exact hc.deadC j y hy hd
  · intro j x hx hd
    rcases hget j x hx with ⟨_, hx⟩ | ⟨_, hx⟩
    · rw [hx, ← hc'] at hd; simp [hst, hr] at hd
    · exact hc.drainC j x hx hd
  · intro j x hx hn'
    rcases hget j x hx with ⟨hj, hx⟩ | ⟨_, hx⟩
    · rw [hx, e1] at hn'; exact absurd hn' hn
    · exact hv.fresh j x hx hn'
  · intro h1 h2
    rcases hv.prog h1 h2 with hres | ⟨j, x, hx, hn'⟩
    · exact Or.inl hres
    · right
      have hji : j ≠ i := by intro e; subst e; rw [h] at hx; cases hx; exact hn hn'
      exact ⟨j, x, by rw [hother j hji]; exact hx, hn'⟩


/-- the state after the final section of `resolve` with the current nonce (462-477) -/
def storedSt (s : St) (i : Nat) (c : Call) (val err : Nat) (hasRel : Bool) (p : List (List CbItem)) : St :=
  { setCall s i { c with fin := true, stored := true } with
      owner := .call i
      resolved := true, value := val, verr := err
      rel := if hasRel then some i else none
      cur := some i
      targetErr := if s.tgtE then err else s.targetErr
      target := if err = 0 ∧ s.tgt then val else s.target
      th := tellAll s.th (some i)
      pend := p }

theorem inv_store_fresh (s : St) (i : Nat) (c : Call) (val err : Nat) (hasRel : Bool)
    (p : List (List CbItem)) (hi : Inv s) (h : s.calls[i]? = some c) (hnf : c.fin = false)
    (hst : c.ci.st = .returned) (hr : c.res = some (val, hasRel, err)) (hn : c.nonce = s.nonce)
    (hp : ∀ b ∈ p, b ≠ []) : Inv (storedSt s i c val err hasRel p) := by
  obtain ⟨hc, hv⟩ := hi
  have hlt := lt_of_getElem? h
  obtain ⟨f1, f2, f3, f4, f5, f6⟩ := hv.fresh i c h hn
  have hlive := f5 hnf
  have hnr : s.resolved = false := by
    cases hres : s.resolved
    · rfl
    · have hcur : s.cur.isSome = true := by rw [← hc.resCur]; exact hres
      cases hcs : s.cur with
      | none => simp [hcs] at hcur
      | some j =>
        obtain ⟨x, _, g1, g2, _, g4, _⟩ := hc.curSome j hcs
        have := fresh_unique s hc i j c x h g1 hn g2
        subst this; rw [h] at g1; cases g1
        rw [g4] at hnf; cases hnf
  have hcur := cur_none_of_unresolved s hc hnr
  obtain ⟨hrel0, hval0, herr0⟩ := hc.curNone hcur
  have htv := hc.tgtVal; have hte := hc.tgtErr
  simp [hval0, herr0] at htv hte
  have hcrel : c.released = false := by
    cases hcr : c.released
    · rfl
    · have := (hc.relFin i c h hcr).1; rw [hnf] at this; cases this
  have hcf := cfgd_of_call s hc i c h
  generalize hc' : ({ c with fin := true, stored := true } : Call) = c'
  have e1 : c'.nonce = c.nonce := by rw [← hc']
  unfold storedSt
  rw [hc']
  have hget : ∀ (j : Nat) (x : Call), (s.calls.set i c')[j]? = some x →
      (j = i ∧ x = c') ∨ (j ≠ i ∧ s.calls[j]? = some x) := by
    intro j x hx; exact getElem?_set_cases s.calls i j c' x hx
  have hself : (s.calls.set i c')[i]? = some c' := by simp [hlt]
  have hother : ∀ (j : Nat), j ≠ i → (s.calls.set i c')[j]? = s.calls[j]? := by
    intro j hj; simp [List.getElem?_set, Ne.symm hj]
  have hnonce : ∀ (j : Nat) (x : Call), (s.calls.set i c')[j]? = some x →
      ∃ y, s.calls[j]? = some y ∧ y.nonce = x.nonce ∧ y.ci = x.ci ∧ y.root = x.root := by
    intro j x hx
    rcases hget j x hx with ⟨hj, hx⟩ | ⟨_, hx⟩
    · exact ⟨c, hj ▸ h, by rw [hx, ← hc'], by rw [hx, ← hc'], by rw [hx, ← hc']⟩
    · exact ⟨x, hx, rfl, rfl, rfl⟩
  refine ⟨⟨?_, ?_, ?_, ?_, ?_, ?_, ?_, ?_, ?_, ?_, ?_, ?_, ?_, ?_, ?_, ?_, ?_, hc.panicF, hp, ?_, ?_⟩, ⟨?_, ?_, ?_⟩⟩
  · intro h0; simp [setCall, hcf] at h0
  · refine chain_of_pointwise s _ hc.chain rfl (by simp [setCall]) ?_
    intro j x hx
    obtain ⟨y, hy, _, hci, _⟩ := hnonce j x hx
    exact ⟨y, hy, by rw [hci], by rw [hci]⟩
  · intro j x hx
    obtain ⟨y, hy, hn', _⟩ := hnonce j x hx
    rw [← hn']; exact hc.nonceLe j y hy
  · intro j k cj ck hj hk hjk
    obtain ⟨y1, hy1, hn1, _⟩ := hnonce j cj hj
    obtain ⟨y2, hy2, hn2, _⟩ := hnonce k ck hk
    rw [← hn1, ← hn2]; exact hc.nonceLt j k y1 y2 hy1 hy2 hjk
  · intro l; simp [setCall]; exact hc.lastCh l
  · rfl
  · intro j hj
    simp [setCall] at hj; subst hj
    refine ⟨c', hasRel, hself, by rw [e1]; exact hn, by rw [← hc'], by rw [← hc'], ?_, rfl, ?_⟩
    · rw [← hc']; exact hr
    · intro _; rw [← hc']; exact hcrel
  · intro h0; simp [setCall] at h0
  · simp only [setCall]; by_cases ht : s.tgt = true <;> by_cases he : err = 0 <;> simp [ht, he, htv]
  · simp only [setCall]; by_cases ht : s.tgtE = true <;> simp [ht, hte]
  · intro j x hx hrel
    rcases hget j x hx with ⟨hj, hx⟩ | ⟨_, hx⟩
    · rw [hx, ← hc'] at hrel; simp [hcrel] at hrel
    · exact hc.relFin j x hx hrel
  · intro j x hx hs
    rcases hget j x hx with ⟨hj, hx⟩ | ⟨_, hx⟩
    · rw [hx, ← hc']; simp [hr]
    · exact hc.storedFin j x hx hs
  · intro j x v e hx hf hres hnrel
    rcases hget j x hx with ⟨hj, hx⟩ | ⟨_, hx⟩
    · rw [hx, ← hc'] at hres
      simp [hr] at hres
      simp [setCall, hres.2.1, hj]
    · have := hc.noLeak j x v e hx hf hres hnrel
      rw [hrel0] at this; cases this
  · intro j x hx
    rcases hget j x hx with ⟨_, hx⟩ | ⟨_, hx⟩
    · rw [hx, ← hc']; simp [hst]
    · exact hc.finSt j x hx
  · intro j x hx
    rcases hget j x hx with ⟨_, hx⟩ | ⟨_, hx⟩
    · rw [hx, ← hc']; simp [hst]
    · exact hc.resSt j x hx
  · intro a k pc f sf t ha hk
    exact tellAll_told _ _ a k pc f sf t ha hk
  · intro j hj
    obtain ⟨x, g1, g2⟩ := hc.rcFresh j hj
    by_cases hji : j = i
    · rw [hji] at g1 ⊢; rw [h] at g1; cases g1
      exact ⟨c', hself, by rw [e1]; exact g2⟩
    · exact ⟨x, by simp only [setCall]; rw [hother j hji]; exact g1, g2⟩
  · intro j x hx hd
    obtain ⟨y, hy, _, hci, hroot⟩ := hnonce j x hx
    rw [← hci]; rw [← hroot] at hd; exact hc.deadC j y hy hd
  · intro j x hx hd
    rcases hget j x hx with ⟨_, hx⟩ | ⟨_, hx⟩
    · rw [hx, ← hc'] at hd; simp [hst, hr] at hd
    · exact hc.drainC j x hx hd
  · intro j x hx hn'
    rcases hget j x hx with ⟨hj, hx⟩ | ⟨hj, hx⟩
    · rw [hx, hj]
      refine ⟨by rw [← hc']; exact f1, f2, f3, by rw [← hc']; exact f4, ?_, fun _ _ => rfl⟩
      intro h0; rw [← hc'] at h0; simp at h0
    · have := fresh_unique s hc i j c x h hx hn hn'
      exact absurd this.symm hj
  · intro _ _; exact Or.inl rfl
  · intro _
    refine ⟨Or.inl ?_, f2⟩
    have : liveRefs s = (tellAll s.th (some i)).countP TS.isLive := (tellAll_live _ _).symm
    rw [this] at hlive; exact hlive


theorem step_inv_store (s s' : St) (i : Nat) (hi : Inv s) (hs : step s (.store i) = some s') : Inv s' := by
  simp only [step] at hs; split at hs <;> try simp at hs
  rename_i c h
  split at hs <;> try simp at hs
  rename_i val hasRel err hr
  obtain ⟨⟨hst, hnf, _⟩, hs⟩ := hs
  split at hs
  · rename_i hn
    simp at hs; subst hs
    exact inv_store_fresh s i c val err hasRel _ hi h hnf hst hr hn (addBatch_ne _ _ hi.core.pendNE)
  · rename_i hn
    split at hs <;> simp at hs <;> subst hs
    · rename_i hrel; subst hrel
      exact inv_store_stale s i c val err true (.call i) _ hi h hnf hst hr hn (addBatch_ne _ _ hi.core.pendNE)
    · rename_i hrel
      have hrel : hasRel = false := by simpa using hrel
      subst hrel
      have hcr : c.released = false := by
        cases hcr : c.released
        · rfl
        · have := (hi.core.relFin i c h hcr).1; rw [hnf] at this; cases this
      have := inv_store_stale s i c val err false (.call i) s.pend hi h hnf hst hr hn hi.core.pendNE
      rw [← hcr] at this
      exact this

/-- **every step of the model preserves the invariant** -/
theorem step_inv (s : St) (e : Ev) (s' : St) (hi : Inv s) (hs : step s e = some s') : Inv s' := by
  cases e with
  | cfg k c t => exact step_inv_misc s s' _ hi hs trivial
  | invAddRef a k => exact step_inv_threads s s' _ hi hs trivial
  | addRefCS a => exact step_inv_addref s s' a hi hs
  | retAddRef a => exact step_inv_threads s s' _ hi hs trivial
  | invRelease b r => exact step_inv_threads s s' _ hi hs trivial
  | relSwap b => exact step_inv_threads s s' _ hi hs trivial
  | relCS b => exact step_inv_release s s' _ hi hs trivial
  | retRelease b => exact step_inv_threads s s' _ hi hs trivial
  | invSetCtx a c cl => exact step_inv_threads s s' _ hi hs trivial
  | setCtxCS a => exact step_inv_setctx s s' a hi hs
  | retSetCtx a u => exact step_inv_threads s s' _ hi hs trivial
  | envCancelCtx c => exact step_inv_misc s s' _ hi hs trivial
  | envReleased k => exact step_inv_misc s s' _ hi hs trivial
  | relRun j => exact step_inv_misc s s' _ hi hs trivial
  | enter i k => exact step_inv_calls s s' _ hi hs trivial
  | giveUp i => exact step_inv_calls s s' _ hi hs trivial
  | drained i => exact step_inv_calls s s' _ hi hs trivial
  | leave i k v h e => exact step_inv_calls s s' _ hi hs trivial
  | store i => exact step_inv_store s s' i hi hs
  | done i => exact step_inv_calls s s' _ hi hs trivial
  | cb it => exact step_inv_misc s s' _ hi hs trivial
  | invHook a => exact step_inv_threads s s' _ hi hs trivial
  | selfRelSwap a => exact step_inv_threads s s' _ hi hs trivial
  | selfRelCS a => exact step_inv_release s s' _ hi hs trivial
  | probe v e => exact step_inv_misc s s' _ hi hs trivial
  | quiesce B => exact step_inv_misc s s' _ hi hs trivial

theorem reachable_inv (es : List Ev) (s : St) (h : model.run model.init es = some s) : Inv s :=
  model.run_invariant Inv (fun s e s' hi hs => step_inv s e s' hi hs) _ _ es init_inv h

end UtilModel.RefCount
