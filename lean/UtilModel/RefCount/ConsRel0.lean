import UtilModel.RefCount.ConsBase
/-!
# refcount consumers: the base-side relation between the composed model and the bookkeeping of `monC10`
-/
set_option linter.unusedSimpArgs false
set_option linter.unusedVariables false
namespace UtilModel.RefCount.Cons
open UtilModel UtilModel.RefCount

theorem bInv_congr (b : St) (m m' : C10St) (h : BInv b m) (e1 : m'.inval = m.inval)
    (e2 : m'.ctxCalls = m.ctxCalls) (e3 : m'.anyCtx = m.anyCtx) (e4 : m'.resVals = m.resVals)
    (e5 : m'.zeroEntries = m.zeroEntries) (e6 : m'.relSeen = m.relSeen) : BInv b m' :=
  { inv := h.inv, idx := h.idx, thi := h.thi, pend := h.pend, acct := h.acct, val := h.val, rlast := h.rlast
    runs := by rw [e1]; exact h.runs
    ctx := by rw [e2]; exact h.ctx
    just := by rw [e1, e2]; exact h.just
    inval := by rw [e1]; exact h.inval
    res := by rw [e4]; exact h.res
    zero := by rw [e5]; exact h.zero
    item := by
      intro r vis res v e hm
      obtain ⟨g1, g2⟩ := h.item r vis res v e hm
      exact ⟨g1, fun hr => by rw [e1, e3]; exact g2 hr⟩
    seen := by rw [e6]; exact h.seen
    any := by rw [e3]; exact h.any }

/-- observations that are not base observations leave the base-related fields alone -/
theorem trk_fields (m : C10St) (o : CObs) (hnb : ∀ bo, o ≠ .base bo) :
    (trk m o).inval = m.inval ∧ (trk m o).ctxCalls = m.ctxCalls ∧ (trk m o).anyCtx = m.anyCtx ∧
    (trk m o).resVals = m.resVals ∧ (trk m o).zeroEntries = m.zeroEntries ∧ (trk m o).relSeen = m.relSeen := by
  cases o with
  | base bo => exact absurd rfl (hnb bo)
  | inv a op => simp [trk]
  | cbin a i v => simp [trk]
  | cbout a i r => simp [trk]
  | ret a v e =>
    simp only [trk]
    split
    · simp
    · split <;> simp
    · simp
  | cancelCall a => simp [trk]
  | cbinReleased a => simp [trk]
  | probeCtx a i c => simp [trk]
  | probeProm a h v e => simp [trk]

theorem bInv_trk (b : St) (m : C10St) (o : CObs) (h : BInv b m) (hnb : ∀ bo, o ≠ .base bo) : BInv b (trk m o) := by
  obtain ⟨e1, e2, e3, e4, e5, e6⟩ := trk_fields m o hnb
  exact bInv_congr b m _ h e1 e2 e3 e4 e5 e6

/-- the bookkeeping follows a base event as `BDelta` requires -/
theorem bdelta_trk_none (be : Ev) (m : C10St) (h : Ev.obs be = none) : BDelta be m m := by
  refine bdelta_refl be m ?_ ?_ ?_ <;> (intros; intro he; subst he; simp [Ev.obs] at h)

theorem bdelta_trk_some (be : Ev) (m : C10St) (o : Obs) (h : Ev.obs be = some o) : BDelta be m (trk m (.base o)) := by
  have refl' : (∀ k, be ≠ .envReleased k) → (∀ a c cl, be ≠ .invSetCtx a c cl) → (∀ j k v h e, be ≠ .leave j k v h e) →
      (∀ a u, be ≠ .retSetCtx a u) → (∀ i k seen, be ≠ .cb (.rel i k seen)) → (∀ b r, be ≠ .invRelease b r) →
      trk m (.base o) = m → BDelta be m (trk m (.base o)) := by
    intro h1 h2 h3 _ _ _ he; rw [he]; exact bdelta_refl be m h1 h2 h3
  cases be with
  | leave j k v hh e =>
    simp [Ev.obs] at h; subst h
    refine ⟨fun _ h => h, (by intro k' he; cases he), fun _ h => Or.inl h, fun _ h _ => h,
      (by intro a c cl he; cases he), fun h => h, (by intro a c cl he; cases he),
      fun p hp => List.mem_cons_of_mem _ hp, ?_, ?_, ?_, fun _ h => Or.inl h⟩
    · intro j' k' v' h' e' he; cases he; exact List.mem_cons_self
    · intro k' hk'; simp only [trk]; split
      · exact List.mem_cons_of_mem _ hk'
      · exact hk'
    · intro j' k' h' he; cases he; simp [trk]
  | envReleased k =>
    simp [Ev.obs] at h; subst h
    refine ⟨fun _ h => List.mem_cons_of_mem _ h, (by intro k' he; cases he; exact List.mem_cons_self), ?_,
      fun _ h _ => h, (by intro a c cl he; cases he), fun h => h, (by intro a c cl he; cases he),
      fun _ h => h, (by intro j k' v h' e he; cases he), fun _ h => h, (by intro j k' h' he; cases he),
      fun _ h => Or.inl h⟩
    intro k' hk'
    simp only [trk, List.mem_cons] at hk'
    rcases hk' with rfl | hk'
    · exact Or.inr rfl
    · exact Or.inl hk'
  | invSetCtx a c cl =>
    simp [Ev.obs] at h; subst h
    exact ⟨fun _ h => h, (by intro k' he; cases he), fun _ h => Or.inl h,
      fun _ h _ => List.mem_cons_of_mem _ h, (by intro a' c' cl' he; cases he; exact List.mem_cons_self),
      fun _ => rfl, fun _ _ _ _ => rfl,
      fun _ h => h, (by intro j k' v h' e he; cases he), fun _ h => h, (by intro j k' h' he; cases he),
      fun _ h => Or.inl h⟩
  | retSetCtx a u =>
    simp [Ev.obs] at h; subst h
    refine ⟨fun _ h => h, (by intro k' he; cases he), fun _ h => Or.inl h, ?_,
      (by intro a' c' cl' he; cases he), fun h => h, (by intro a c cl he; cases he),
      fun _ h => h, (by intro j k' v h' e he; cases he), fun _ h => h, (by intro j k' h' he; cases he),
      fun _ h => Or.inl h⟩
    intro a' ha' hne
    have : a' ≠ a := by intro e0; subst e0; exact hne u rfl
    exact (List.mem_erase_of_ne this).mpr ha'
  | cb it =>
    cases it with
    | rel i k seen =>
      simp [Ev.obs] at h; subst h
      refine ⟨fun _ h => h, (by intro k' he; cases he), fun _ h => Or.inl h, fun _ h _ => h,
        (by intro a c cl he; cases he), fun h => h, (by intro a c cl he; cases he),
        fun _ h => h, (by intro j k' v h' e he; cases he), fun _ h => h, (by intro j k' h' he; cases he), ?_⟩
      intro k' hk'
      simp only [trk, List.mem_cons] at hk'
      rcases hk' with rfl | hk'
      · exact Or.inr ⟨i, seen, rfl⟩
      · exact Or.inl hk'
    | refcb r vis res v er =>
      cases vis with
      | false => simp [Ev.obs] at h
      | true =>
        simp [Ev.obs] at h; subst h
        exact bdelta_refl _ m (by simp) (by simp) (by simp)
  | invRelease b r =>
    simp [Ev.obs] at h; subst h
    exact ⟨fun _ h => h, (by intro k' he; cases he), fun _ h => Or.inl h, fun _ h _ => h,
      (by intro a c cl he; cases he), fun h => h, (by intro a c cl he; cases he),
      fun _ h => h, (by intro j k' v h' e he; cases he), fun _ h => h, (by intro j k' h' he; cases he),
      fun _ h => Or.inl h⟩
  | cfg kp c t => simp [Ev.obs] at h; subst h; exact bdelta_refl _ m (by simp) (by simp) (by simp)
  | invAddRef a kd => simp [Ev.obs] at h; subst h; exact bdelta_refl _ m (by simp) (by simp) (by simp)
  | addRefCS a => simp [Ev.obs] at h
  | retAddRef a => simp [Ev.obs] at h; subst h; exact bdelta_refl _ m (by simp) (by simp) (by simp)
  | relSwap b => simp [Ev.obs] at h
  | relCS b => simp [Ev.obs] at h
  | retRelease b => simp [Ev.obs] at h; subst h; exact bdelta_refl _ m (by simp) (by simp) (by simp)
  | setCtxCS a => simp [Ev.obs] at h
  | envCancelCtx c => simp [Ev.obs] at h; subst h; exact bdelta_refl _ m (by simp) (by simp) (by simp)
  | relRun r => simp [Ev.obs] at h
  | enter i k => simp [Ev.obs] at h; subst h; exact bdelta_refl _ m (by simp) (by simp) (by simp)
  | giveUp i => simp [Ev.obs] at h
  | drained i => simp [Ev.obs] at h
  | store i => simp [Ev.obs] at h
  | done i => simp [Ev.obs] at h
  | invHook a => simp [Ev.obs] at h; subst h; exact bdelta_refl _ m (by simp) (by simp) (by simp)
  | selfRelSwap a => simp [Ev.obs] at h
  | selfRelCS a => simp [Ev.obs] at h
  | probe v er => simp [Ev.obs] at h; subst h; exact bdelta_refl _ m (by simp) (by simp) (by simp)
  | quiesce B => simp [Ev.obs] at h; subst h; exact bdelta_refl _ m (by simp) (by simp) (by simp)

/-- the state of the bookkeeping after event `e` -/
def after (m : C10St) (e : CEv) : C10St :=
  match CEv.obs e with
  | none => m
  | some o => trk m o

def R0 (s : CSt) (m : C10St) : Prop := CAlign s ∧ BInv s.b m

theorem r0_step (s : CSt) (e : CEv) (s' : CSt) (m : C10St) (h : R0 s m) (hs : cstep s e = some s') :
    R0 s' (after m e) := by
  obtain ⟨hal, hb⟩ := h
  refine ⟨calign_step s s' e hal hs, ?_⟩
  rcases cstep_base s s' e hs with ⟨be, he, hst, _, n1, n2, n3, n4⟩ | ⟨a0, op, he, hst, _⟩ |
      ⟨a0, hst, hobs, _⟩ | ⟨hbb, _, n1, n2⟩ | ⟨a0, v, x, k, pc, live, flag, self, told, c0, he, hc0, hth0, hbb, _⟩
  · subst he
    unfold after
    show BInv s'.b (match (Ev.obs be).map CObs.base with | none => m | some o => trk m o)
    cases hob : Ev.obs be with
    | none => exact bInv_step s.b s'.b be m m hb hst (bdelta_trk_none be m hob)
    | some o => exact bInv_step s.b s'.b be m _ hb hst (bdelta_trk_some be m o hob)
  · subst he
    have h1 := bInv_step s.b s'.b _ m m hb hst (bdelta_refl _ m (by simp) (by simp) (by simp))
    show BInv s'.b (trk m (.inv a0 op))
    exact bInv_trk s'.b m _ h1 (by simp)
  · unfold after; rw [hobs]
    exact bInv_step s.b s'.b _ m m hb hst (bdelta_refl _ m (by simp) (by simp) (by simp))
  · have h1 : BInv s'.b m := by rw [hbb]; exact hb
    unfold after
    cases hob : CEv.obs e with
    | none => exact h1
    | some o =>
      cases o with
      | base bo =>
        -- only `probe` and `quiesce` are base observations of events that are not base events
        cases e with
        | base be => exact absurd rfl (n1 be)
        | probe v x => simp [CEv.obs] at hob; subst hob; exact h1
        | quiesce B => simp [CEv.obs] at hob; subst hob; exact h1
        | inv a op => simp [CEv.obs] at hob
        | snap a => simp [CEv.obs] at hob
        | watch a => simp [CEv.obs] at hob
        | cbin a i v => simp [CEv.obs] at hob
        | cbout a i r => simp [CEv.obs] at hob
        | check a => simp [CEv.obs] at hob
        | recheck a => simp [CEv.obs] at hob
        | waitCancel a => simp [CEv.obs] at hob
        | await a => simp [CEv.obs] at hob
        | awaitCancel a => simp [CEv.obs] at hob
        | ret a v x => simp [CEv.obs] at hob
        | envCancelCall a => simp [CEv.obs] at hob
        | goRel a => simp [CEv.obs] at hob
        | goCb a => simp [CEv.obs] at hob
        | probeCtx a i c => simp [CEv.obs] at hob
        | probeProm a h v x => simp [CEv.obs] at hob
      | inv a op => exact bInv_trk _ m _ h1 (by simp)
      | cbin a i v => exact bInv_trk _ m _ h1 (by simp)
      | cbout a i r => exact bInv_trk _ m _ h1 (by simp)
      | ret a v e => exact bInv_trk _ m _ h1 (by simp)
      | cancelCall a => exact bInv_trk _ m _ h1 (by simp)
      | cbinReleased a => exact bInv_trk _ m _ h1 (by simp)
      | probeCtx a i c => exact bInv_trk _ m _ h1 (by simp)
      | probeProm a h v x => exact bInv_trk _ m _ h1 (by simp)
  · subst he
    obtain ⟨pc1, l, f, sf, t, ht⟩ := hal.2 a0 c0 hc0
    rw [hth0] at ht; cases ht
    have h1 : BInv s'.b m := by rw [hbb]; exact bInv_keep s.b m a0 pc live flag self told hb hth0
    show BInv s'.b (trk m (.ret a0 v x))
    exact bInv_trk _ m _ h1 (by simp)

/-- a clause monitor accepts every trace of the composed model if its check passes on every step from
related states, the relation being kept along the bookkeeping -/
theorem clause_sim (chk : C10St → CObs → Bool) (R : CSt → C10St → Prop) (h0 : R {} {})
    (hstep : ∀ s e s' m, R s m → cstep s e = some s' → R s' (after m e))
    (hchk : ∀ s e s' m o, R s m → cstep s e = some s' → CEv.obs e = some o → chk m o = true)
    (es : List CEv) (s : CSt) (h : cmodel.run cmodel.init es = some s) :
    (clause chk).accepts (es.filterMap cmodel.obs) = true :=
  monitor_accepts_of_simulation cmodel (clause chk) R h0
    (fun s e s' ms hR hs => by
      have h1 := hstep s e s' ms hR hs
      have h2 := hchk s e s' ms
      have hobs : cmodel.obs e = CEv.obs e := rfl
      rw [hobs]
      unfold after at h1
      generalize CEv.obs e = o at h1 h2 ⊢
      cases o with
      | none => exact h1
      | some o =>
        refine ⟨trk ms o, ?_, h1⟩
        show (if chk ms o then some (trk ms o) else none) = some (trk ms o)
        rw [h2 o hR hs rfl]; rfl) es s h

end UtilModel.RefCount.Cons
