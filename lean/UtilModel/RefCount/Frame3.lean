import UtilModel.RefCount.Frame2
import UtilModel.RefCount.ObsOnce
/-!
# refcount: frame lemma for the callback entries a critical section owes (`pend`)
-/
set_option linter.unusedSimpArgs false
set_option linter.unusedVariables false
namespace UtilModel.RefCount
open UtilModel

theorem mem_cbItems (th : List TS) (res : Bool) (v e : Nat) (it : CbItem) (h : it ∈ cbItems th res v e) :
    ∃ a k pc f sf t, th[a]? = some (.ref k pc true f sf t) ∧ k ≠ .nil ∧ it = .refcb a (k == .rcd) res v e := by
  simp only [cbItems, List.mem_filterMap] at h
  obtain ⟨a, _, ha⟩ := h
  split at ha
  · rename_i k pc f sf t hth
    split at ha <;> simp at ha
    rename_i hk
    exact ⟨a, k, pc, f, sf, t, hth, hk, ha.symm⟩
  · simp at ha

theorem mem_flatten_addBatch (p : List (List CbItem)) (b : List CbItem) (it : CbItem)
    (h : it ∈ (addBatch p b).flatten) : it ∈ p.flatten ∨ it ∈ b := by
  simp only [List.mem_flatten] at h ⊢
  obtain ⟨x, hx, hm⟩ := h
  rcases mem_addBatch p b x hx with h1 | ⟨h1, _⟩
  · exact Or.inl ⟨x, h1, hm⟩
  · exact Or.inr (h1 ▸ hm)

/-- a callback entry created by a critical section -/
inductive NewItem (s s' : St) : CbItem → Prop where
  /-- delivery of the stored result to a live reference with a callback -/
  | deliver (r : Nat) (k : CbKind) (pc : Pc) (f sf : Bool) (t : Option Nat) (i : Nat)
      (hth : s'.th[r]? = some (.ref k pc true f sf t)) (hk : k ≠ .nil) (hcur : s'.cur = some i) :
      NewItem s s' (.refcb r (k == .rcd) true s'.value s'.verr)
  /-- "gone" to a reference that was live when the value was dropped -/
  | gone (r : Nat) (k : CbKind) (pc : Pc) (f sf : Bool) (t : Option Nat)
      (hth : s'.th[r]? = some (.ref k pc true f sf t)) (hk : k ≠ .nil) (hcur : s'.cur = none)
      (hres : s.resolved = true) :
      NewItem s s' (.refcb r (k == .rcd) false 0 0)
  /-- call of a release function -/
  | rel (i k seen : Nat) (h0 : released s i = false) (h1 : released s' i = true) (hseen : seen = s'.target) :
      NewItem s s' (.rel i k seen)

theorem newItem_deliver (s s' : St) (r : Nat) (vis : Bool) (v er : Nat)
    (h : NewItem s s' (.refcb r vis true v er)) :
    ∃ k pc f sf t i, s'.th[r]? = some (.ref k pc true f sf t) ∧ k ≠ .nil ∧ (k == .rcd) = vis ∧
      s'.cur = some i ∧ v = s'.value ∧ er = s'.verr := by
  generalize hit : CbItem.refcb r vis true v er = it at h
  cases h with
  | deliver r0 k pc f sf t i hth hk hcur =>
    simp at hit; obtain ⟨rfl, rfl, rfl, rfl⟩ := hit
    exact ⟨k, pc, f, sf, t, i, hth, hk, rfl, hcur, rfl, rfl⟩
  | gone r0 k pc f sf t hth hk hcur hres => simp at hit
  | rel i k seen h0 h1 hseen => cases hit

theorem newItem_gone (s s' : St) (r : Nat) (vis : Bool) (v er : Nat)
    (h : NewItem s s' (.refcb r vis false v er)) :
    ∃ k pc f sf t, s'.th[r]? = some (.ref k pc true f sf t) ∧ k ≠ .nil ∧ (k == .rcd) = vis ∧
      s'.cur = none ∧ s.resolved = true ∧ v = 0 ∧ er = 0 := by
  generalize hit : CbItem.refcb r vis false v er = it at h
  cases h with
  | deliver r0 k pc f sf t i hth hk hcur => simp at hit
  | gone r0 k pc f sf t hth hk hcur hres =>
    simp at hit; obtain ⟨rfl, rfl, rfl, rfl⟩ := hit
    exact ⟨k, pc, f, sf, t, hth, hk, rfl, hcur, hres, rfl, rfl⟩
  | rel i k seen h0 h1 hseen => cases hit

theorem newItem_rel (s s' : St) (i k seen : Nat) (h : NewItem s s' (.rel i k seen)) :
    released s i = false ∧ released s' i = true ∧ seen = s'.target := by
  generalize hit : CbItem.rel i k seen = it at h
  cases h with
  | deliver r0 k0 pc f sf t i0 hth hk hcur => cases hit
  | gone r0 k0 pc f sf t hth hk hcur hres => cases hit
  | rel i0 k0 seen0 h0 h1 hseen => cases hit; exact ⟨h0, h1, hseen⟩

theorem shutdown_items (s0 : St) (hrel : RelOk s0) (it : CbItem) (h : it ∈ (shutdown s0).pend.flatten) :
    it ∈ s0.pend.flatten ∨
    (s0.resolved = true ∧ ∃ a k pc f sf t, s0.th[a]? = some (.ref k pc true f sf t) ∧ k ≠ .nil ∧
      it = .refcb a (k == .rcd) false 0 0) ∨
    (∃ i, it = .rel i (invOf s0.calls i) (shutdown s0).target ∧ s0.rel = some i) := by
  rw [shutdown_pend] at h
  rcases mem_flatten_addBatch _ _ it h with h1 | h1
  · split at h1
    · rename_i hres
      rcases mem_flatten_addBatch _ _ it h1 with h2 | h2
      · exact Or.inl h2
      · exact Or.inr (Or.inl ⟨hres, mem_cbItems _ _ _ _ it h2⟩)
    · exact Or.inl h1
  · cases hr : s0.rel with
    | none => simp [hr] at h1
    | some j =>
      simp only [hr, List.mem_singleton] at h1
      exact Or.inr (Or.inr ⟨j, h1, rfl⟩)


theorem newItem_congr (s a b : St) (it : CbItem) (h : NewItem s a it) (h1 : b.th = a.th) (h2 : b.cur = a.cur)
    (h3 : b.value = a.value) (h4 : b.verr = a.verr) (h5 : ∀ i, released b i = released a i)
    (h6 : b.target = a.target) : NewItem s b it := by
  cases h with
  | deliver r k pc f sf t i hth hk hcur =>
    rw [← h3, ← h4]; exact .deliver r k pc f sf t i (by rw [h1]; exact hth) hk (by rw [h2]; exact hcur)
  | gone r k pc f sf t hth hk hcur hres =>
    exact .gone r k pc f sf t (by rw [h1]; exact hth) hk (by rw [h2]; exact hcur) hres
  | rel i k seen h0 hr hseen => exact .rel i k seen h0 (by rw [h5]; exact hr) (by rw [h6]; exact hseen)

/-- the entries owed after `shutdown` -/
theorem items_shutdown (s s1 : St) (hc : Core s) (e1 : s1.calls = s.calls) (e2 : s1.rel = s.rel)
    (e3 : s1.resolved = s.resolved) (e4 : s1.pend = s.pend) (it : CbItem)
    (h : it ∈ (shutdown s1).pend.flatten) : it ∈ s.pend.flatten ∨ NewItem s (shutdown s1) it := by
  have hrel : RelOk s1 := by
    intro i hr; rw [e2] at hr; rw [e1]; exact relOk_of_core s hc i hr
  rcases shutdown_items s1 hrel it h with h1 | ⟨hres, a, k, pc, f, sf, t, hth, hk, rfl⟩ | ⟨i, rfl, hr⟩
  · left; rw [← e4]; exact h1
  · right
    refine .gone a k pc f sf none ?_ hk (by rw [shutdown_cur, hres]; rfl) (by rw [← e3]; exact hres)
    rw [shutdown_th, hres]; simp only [if_true]
    rw [tellAll_get, hth]; simp [tell1, hk]
  · right
    obtain ⟨c, g1, g2⟩ := hrel i hr
    refine .rel i _ _ ?_ ?_ rfl
    · unfold released; rw [← e1, g1]; exact g2
    · rw [shutdown_released s1 hrel, hr]; simp

theorem items_startResolve (s s1 : St) (hc : Core s) (e1 : s1.calls = s.calls) (e2 : s1.rel = s.rel)
    (e3 : s1.resolved = s.resolved) (e4 : s1.pend = s.pend) (it : CbItem)
    (h : it ∈ (startResolve s1).pend.flatten) : it ∈ s.pend.flatten ∨ NewItem s (startResolve s1) it := by
  obtain ⟨f1, _, f3, f4, _⟩ := startResolve_fields s1
  rw [f1] at h
  rcases items_shutdown s s1 hc e1 e2 e3 e4 it h with h1 | h1
  · exact Or.inl h1
  · right
    refine newItem_congr s _ _ it h1 f4 f3 ?_ ?_ (fun i => released_startResolve s1 i) (startResolve_fields s1).2.1
    · rw [startResolve_eq]; split <;> simp [spawned]
    · rw [startResolve_eq]; split <;> simp [spawned]

theorem items_afterRemove (s s1 : St) (hc : Core s) (e1 : s1.calls = s.calls) (e2 : s1.rel = s.rel)
    (e3 : s1.resolved = s.resolved) (e4 : s1.pend = s.pend) (it : CbItem)
    (h : it ∈ (afterRemove s1).pend.flatten) : it ∈ s.pend.flatten ∨ NewItem s (afterRemove s1) it := by
  unfold afterRemove at h ⊢
  split
  · split
    · rename_i h1 h2; rw [if_pos h1, if_pos h2] at h
      exact items_shutdown s s1 hc e1 e2 e3 e4 it h
    · rename_i h1 h2; rw [if_pos h1, if_neg h2] at h
      left; rw [← e4]; exact h
  · rename_i h1; rw [if_neg h1] at h
    left; rw [← e4]; exact h


/-- **frame for owed callback entries**: an entry of `pend` after a step was there before, or was
created by this step's critical section as `NewItem` describes -/
theorem items_frame (s s' : St) (e : Ev) (hi : Inv s) (hs : step s e = some s') (it : CbItem)
    (h : it ∈ s'.pend.flatten) : it ∈ s.pend.flatten ∨ NewItem s s' it := by
  by_cases hl : isLock e = false
  · exact Or.inl ((nonlock_frame s s' e hs hl).2.2 it h)
  · have hl : isLock e = true := by simpa using hl
    have hc := hi.core
    cases e with
    | addRefCS a =>
      simp only [step] at hs; split at hs <;> try simp at hs
      rename_i k ha
      obtain ⟨_, hs⟩ := hs
      split at hs
      · simp at hs; subst hs
        refine items_startResolve s _ hc ?_ ?_ ?_ ?_ it h <;> rfl
      · split at hs <;> simp at hs <;> subst hs
        · rename_i hcond
          have h' : it ∈ (addBatch s.pend [CbItem.refcb a (k == CbKind.rcd) true s.value s.verr]).flatten := h
          rcases mem_flatten_addBatch _ _ it h' with h1 | h1
          · exact Or.inl h1
          · right
            simp at h1; subst h1
            have hcur : s.cur.isSome = true := by rw [← hc.resCur]; exact hcond.1
            obtain ⟨i, hcs⟩ := Option.isSome_iff_exists.mp hcur
            have hlt := lt_of_getElem? ha
            exact .deliver a k .done false false s.cur i (by simp [hlt]) hcond.2 hcs
        · exact Or.inl h
    | relCS b =>
      simp only [step] at hs; split at hs <;> try simp at hs
      split at hs <;> try simp at hs
      case h_2 => obtain ⟨_, rfl⟩ := hs; exact Or.inl h
      obtain ⟨_, rfl⟩ := hs
      refine items_afterRemove s _ hc ?_ ?_ ?_ ?_ it h <;> rfl
    | selfRelCS a =>
      simp only [step] at hs; split at hs <;> try simp at hs
      obtain ⟨_, rfl⟩ := hs
      refine items_afterRemove s _ hc ?_ ?_ ?_ ?_ it h <;> rfl
    | setCtxCS a =>
      simp only [step] at hs; split at hs <;> try simp at hs
      split at hs <;> simp at hs <;> obtain ⟨_, rfl⟩ := hs
      · exact Or.inl h
      · refine items_startResolve s _ hc ?_ ?_ ?_ ?_ it h <;> rfl
    | relRun r =>
      simp only [step] at hs; split at hs <;> try simp at hs
      split at hs <;> try simp at hs
      split at hs <;> simp at hs <;> obtain ⟨_, rfl⟩ := hs
      · refine items_startResolve s _ hc ?_ ?_ ?_ ?_ it h <;> rfl
      · exact Or.inl h
    | store i =>
      simp only [step] at hs; split at hs <;> try simp at hs
      rename_i c hcall
      split at hs <;> try simp at hs
      rename_i val hasRel err hres
      obtain ⟨⟨_, hnf, _⟩, hs⟩ := hs
      have hcr : c.released = false := by
        cases hcr : c.released
        · rfl
        · have := (hc.relFin i c hcall hcr).1; rw [hnf] at this; cases this
      split at hs
      · simp at hs; subst hs
        have h' : it ∈ (addBatch s.pend (cbItems s.th true val err)).flatten := h
        rcases mem_flatten_addBatch _ _ it h' with h1 | h1
        · exact Or.inl h1
        · right
          obtain ⟨a, k, pc, f, sf, t, hth, hk, rfl⟩ := mem_cbItems _ _ _ _ it h1
          refine .deliver a k pc f sf (some i) i ?_ hk rfl
          show (tellAll s.th (some i))[a]? = _
          rw [tellAll_get, hth]; simp [tell1, hk]
      · split at hs <;> simp at hs <;> subst hs
        · have h' : it ∈ (addBatch s.pend [CbItem.rel i (c.inv.getD 0) s.target]).flatten := h
          rcases mem_flatten_addBatch _ _ it h' with h1 | h1
          · exact Or.inl h1
          · right
            simp at h1; subst h1
            refine .rel i _ _ (by simp [released, hcall, hcr]) ?_ rfl
            simp [released, setCall, lt_of_getElem? hcall]
        · exact Or.inl h
    | _ => simp [isLock] at hl

end UtilModel.RefCount
