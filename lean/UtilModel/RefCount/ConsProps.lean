import UtilModel.RefCount.ConsProofs
import UtilModel.RefCount.ConsTrans
import UtilModel.RefCount.ConsMonitors
/-!
# refcount consumers — property theorems C10 (statements a reader audits)

All theorems are about every event list of the composed model `cmodel` (RefCount + any number of
`Access` / `Wait` / `Resolve` / `ResolveWithReleased` calls, every interleaving of their atomic steps
with every base event).
-/
set_option linter.unusedSimpArgs false
set_option linter.unusedVariables false
namespace UtilModel.RefCount.Cons
open UtilModel UtilModel.RefCount

/-! ## Access -/

/-- **C10 `access_value_current` (1).** The snapshot section hands the callback exactly the value the
reference callback last delivered (`cv`), and only if that notification said "resolved, no error". -/
theorem access_snapshot (s s' : CSt) (a : Nat) (c c' : Con) (hc : getCon s a = some c)
    (hs : cstep s (.snap a) = some s') (hc' : getCon s' a = some c') (v n ch : Nat)
    (hpc : c'.pc = .calling v n ch) :
    v = c.cv ∧ n = c.cnonce + 1 ∧ c.cres = true ∧ c.ce = 0 ∧ c'.cnonce = n := by
  simp only [cstep, hc] at hs
  split at hs <;> try simp at hs
  have hlt := getCon_lt s a c hc
  split at hs
  · split at hs <;> simp at hs <;> subst hs
    · rename_i hce hres
      rw [getCon_setCon] at hc'
      simp [hlt] at hc'; subst hc'
      simp at hpc
      exact ⟨hpc.1.symm, hpc.2.1.symm, hres, hce, hpc.2.1⟩
    · rw [getCon_setCon] at hc'
      simp [hlt] at hc'; subst hc'
      simp at hpc
  · unfold exitRel at hs
    split at hs <;> simp at hs
    subst hs
    rw [getCon_setCon] at hc'
    have : a < ({ s with b := _ } : CSt).ct.length := hlt
    simp [hlt] at hc'; subst hc'
    simp at hpc

/-- **C10 `access_value_current` (2).** While the callback is about to be entered or is running with
value `v`, either `v` is still what the reference callback last delivered (resolved, no error), or a
later notification has changed it — and then the snapshot's wait channel is closed. The callback is
entered (`cbin a m v`) only with the snapshot value. -/
theorem access_value_current (es : List CEv) (s : CSt) (h : cmodel.run cmodel.init es = some s)
    (a : Nat) (c : Con) (hc : getCon s a = some c) (v n ch : Nat)
    (hpc : c.pc = .calling v n ch ∨ ∃ m, c.pc = .incb m v n ch) :
    (c.cnonce = n ∧ c.cres = true ∧ c.cv = v ∧ c.ce = 0 ∧ c.bc.closed ch = false) ∨
    (c.cnonce ≠ n ∧ c.bc.closed ch = true) := by
  have hok := (creachable_inv es s h).cons a c hc
  unfold ConOk at hok
  rcases hpc with hpc | ⟨m, hpc⟩ <;> rw [hpc] at hok <;> simp only at hok <;>
    obtain ⟨_, ⟨_, _, hcl⟩, hval⟩ := hok
  all_goals
    by_cases hn : c.cnonce = n
    · left
      obtain ⟨h1, h2, h3⟩ := hval hn
      refine ⟨hn, h1, h2, h3, ?_⟩
      cases hcc : c.bc.closed ch
      · rfl
      · exact absurd hn (hcl.mp hcc)
    · right; exact ⟨hn, hcl.mpr hn⟩

/-- **C10 `access_cancel` (enabled).** If a notification changed the snapshot after the snapshot
section, the watcher's `cbCancel()` is enabled (until it has fired) — before the callback is entered
as well as while it runs. -/
theorem access_cancel_enabled (es : List CEv) (s : CSt) (h : cmodel.run cmodel.init es = some s)
    (a : Nat) (c : Con) (hc : getCon s a = some c) (v n ch : Nat)
    (hpc : c.pc = .calling v n ch ∨ ∃ m, c.pc = .incb m v n ch) (hn : c.cnonce ≠ n)
    (hw : c.wcancel = false) :
    ∃ s', cstep s (.watch a) = some s' ∧ ∃ c', getCon s' a = some c' ∧ c'.wcancel = true ∧ c'.pc = c.pc := by
  have hcl : c.bc.closed ch = true := by
    rcases access_value_current es s h a c hc v n ch hpc with ⟨h1, _⟩ | ⟨_, h2⟩
    · exact absurd h1 hn
    · exact h2
  have hlt := getCon_lt s a c hc
  rcases hpc with hpc | ⟨m, hpc⟩
  · refine ⟨setCon s a { c with wcancel := true }, by simp [cstep, hc, hpc, hcl, hw],
      { c with wcancel := true }, ?_, rfl, rfl⟩
    rw [getCon_setCon]; simp [hlt]
  · refine ⟨setCon s a { c with wcancel := true }, by simp [cstep, hc, hpc, hcl, hw],
      { c with wcancel := true }, ?_, rfl, rfl⟩
    rw [getCon_setCon]; simp [hlt]

/-- **C10 `access_cancel` (promptly = by the next quiescence).** At a quiescent point, the context of
a running callback whose value was invalidated after the snapshot section is cancelled. -/
theorem access_cancel_quiescent (es : List CEv) (s : CSt) (h : cmodel.run cmodel.init es = some s)
    (hq : cquiescent s = true) (a : Nat) (c : Con) (hc : getCon s a = some c) (m v n ch : Nat)
    (hpc : c.pc = .incb m v n ch) (hn : c.cnonce ≠ n) : c.wcancel = true := by
  have hcl : c.bc.closed ch = true := by
    rcases access_value_current es s h a c hc v n ch (Or.inr ⟨m, hpc⟩) with ⟨h1, _⟩ | ⟨_, h2⟩
    · exact absurd h1 hn
    · exact h2
  unfold cquiescent at hq
  simp only [Bool.and_eq_true, List.all_eq_true] at hq
  have hmem : some c ∈ s.ct := by
    unfold getCon at hc
    cases hx : s.ct[a]? with
    | none => simp [hx] at hc
    | some y => simp [hx] at hc; rw [hc] at hx; exact List.mem_of_getElem? hx
  have := hq.2 (some c) hmem
  simp [Con.quiet, hpc, hcl] at this
  exact this.1

/-- **C10 `access_cancel` (no stale result, re-invocation).** After the callback returned, if the
snapshot was changed in the meantime, the nonce re-check does not let Access return that invocation's
result: Access goes back to the top of its loop (its wait channel is already closed), takes a new
snapshot and — if a value is resolved — calls the callback again with the replacement. -/
theorem access_reinvoke (es : List CEv) (s : CSt) (h : cmodel.run cmodel.init es = some s)
    (a : Nat) (c : Con) (hc : getCon s a = some c) (r n ch : Nat)
    (hpc : c.pc = .recheck r n ch) (hn : c.cnonce ≠ n) :
    ∃ s1 c1, cstep s (.recheck a) = some s1 ∧ getCon s1 a = some c1 ∧ c1.pc = .waiting n ch ∧
      canLook c1 = true ∧ c1.cv = c.cv ∧ c1.cres = c.cres ∧ c1.ce = c.ce ∧
      (unlockedFor s1.b (.thr a) = true → c1.ce = 0 → c1.cres = true →
        ∃ s2 c2, cstep s1 (.snap a) = some s2 ∧ getCon s2 a = some c2 ∧
          c2.pc = .calling c.cv (c.cnonce + 1) c.bc.getWaitCh.2) := by
  have hok := (creachable_inv es s h).cons a c hc
  unfold ConOk SnapOk at hok
  rw [hpc] at hok
  have hcl : c.bc.closed ch = true := hok.2.2.2.mpr hn
  have hlt := getCon_lt s a c hc
  have hg : getCon (setCon s a { c with pc := .waiting n ch }) a = some { c with pc := .waiting n ch } := by
    rw [getCon_setCon]; simp [hlt]
  refine ⟨setCon s a { c with pc := .waiting n ch }, _, by simp [cstep, hc, hpc, hn], hg, rfl,
    by simp [canLook, hcl], rfl, rfl, rfl, ?_⟩
  intro hu hce hres
  simp only at hce hres
  refine ⟨setCon (setCon s a { c with pc := .waiting n ch }) a
      { c with pc := .calling c.cv (c.cnonce + 1) c.bc.getWaitCh.2, cnonce := c.cnonce + 1,
               bc := c.bc.getWaitCh.1, wcancel := false },
    { c with pc := .calling c.cv (c.cnonce + 1) c.bc.getWaitCh.2, cnonce := c.cnonce + 1,
             bc := c.bc.getWaitCh.1, wcancel := false }, ?_, ?_, rfl⟩
  · have hcan : canLook { c with pc := CPc.waiting n ch } = true := by simp [canLook, hcl]
    have hu' : unlockedFor (setCon s a { c with pc := CPc.waiting n ch }).b (Owner.thr a) = true := hu
    have hce' : ({ c with pc := CPc.waiting n ch } : Con).ce = 0 := hce
    have hres' : ({ c with pc := CPc.waiting n ch } : Con).cres = true := hres
    simp only [cstep, hg, hcan, hu', and_self, if_true, hce', hres', ne_eq, not_true_eq_false, if_false]
    rw [if_neg (by simp [hce]), if_pos hres]
  · rw [getCon_setCon]; simp [setCon, hlt]


/-- a property of single consumer entries that every local transition preserves holds in every
reachable state -/
theorem cons_local_inv (P : Con → Prop) (hinit : ∀ op, P { op := op })
    (hstep : ∀ (s : CSt) (e : CEv) (a : Nat) (c c' : Con), Trans s e a c c' → P c → P c')
    (es : List CEv) (s : CSt) (h : cmodel.run cmodel.init es = some s) (a : Nat) (c : Con)
    (hc : getCon s a = some c) : P c := by
  have := cmodel.run_invariant (fun s => ∀ (a : Nat) (c : Con), getCon s a = some c → P c)
    (fun s e s' hi hs => by
      intro a c' hc'
      rcases (cstep_frame s s' e hs).1 a c' hc' with h | ⟨c, h1, h2⟩ | ⟨_, _, op, _, h3⟩
      · exact hi a c' h
      · exact hstep s e a c c' h2 (hi a c h1)
      · rw [h3]; exact hinit op)
    cmodel.init s es (by intro a c h; simp [cmodel, getCon] at h) h
  exact this a c hc

/-- which program counters belong to which kind of call -/
def OpOk (c : Con) : Prop :=
  (c.op = .access → c.pc ≠ .awaiting ∧ ∀ v e, c.pc ≠ .exitKeep v e) ∧
  (c.op ≠ .access → c.pc = .start ∨ c.pc = .awaiting ∨ (∃ v e, c.pc = .exitWait v e) ∨
    (∃ v e, c.pc = .exitKeep v e) ∨ c.pc = .returned)

theorem opOk (es : List CEv) (s : CSt) (h : cmodel.run cmodel.init es = some s) (a : Nat) (c : Con)
    (hc : getCon s a = some c) : OpOk c := by
  refine cons_local_inv OpOk ?_ ?_ es s h a c hc
  · intro op; exact ⟨fun _ => ⟨by simp, by simp⟩, fun _ => Or.inl rfl⟩
  · intro s e a c c' ht hp
    obtain ⟨h1, h2⟩ := hp
    cases ht with
    | hook a c res v er => rw [OpOk, hook_pc, hook_op]; exact ⟨h1, h2⟩
    | started a c h =>
      by_cases hop : c.op = .access
      · exact ⟨fun _ => by simp [hop], fun hn => absurd hop hn⟩
      · exact ⟨fun ha => absurd ha hop, fun _ => by simp [hop]⟩
    | watch a c => exact ⟨h1, h2⟩
    | cancel a c => exact ⟨h1, h2⟩
    | goRel a c h => exact ⟨h1, h2⟩
    | goCb a c h => exact ⟨h1, h2⟩
    | snapErr a c h he =>
      refine ⟨fun _ => by simp, fun hn => ?_⟩
      simp only [snapped] at hn ⊢; exact Or.inr (Or.inr (Or.inl ⟨_, _, rfl⟩))
    | snapCall a c h he hr =>
      refine ⟨fun _ => by simp, fun hn => ?_⟩
      simp only [snapped] at hn
      rcases h2 hn with h | h | ⟨_, _, h⟩ | ⟨_, _, h⟩ | h <;> simp [canLook, h] at *
    | snapWait a c h he hr =>
      refine ⟨fun _ => by simp, fun hn => ?_⟩
      simp only [snapped] at hn
      rcases h2 hn with h | h | ⟨_, _, h⟩ | ⟨_, _, h⟩ | h <;> simp [canLook, h] at *
    | cbin a m v n ch c h hm =>
      refine ⟨fun _ => by simp, fun hn => ?_⟩
      rcases h2 hn with h' | h' | ⟨_, _, h'⟩ | ⟨_, _, h'⟩ | h' <;> simp [h'] at h
    | cbout a m r v n ch c h =>
      refine ⟨fun _ => by simp, fun hn => ?_⟩
      rcases h2 hn with h' | h' | ⟨_, _, h'⟩ | ⟨_, _, h'⟩ | h' <;> simp [h'] at h
    | checkCancel a r n ch c h hc => exact ⟨fun _ => by simp, fun _ => Or.inr (Or.inr (Or.inl ⟨_, _, rfl⟩))⟩
    | checkGo a r n ch c h hc =>
      refine ⟨fun _ => by simp, fun hn => ?_⟩
      rcases h2 hn with h' | h' | ⟨_, _, h'⟩ | ⟨_, _, h'⟩ | h' <;> simp [h'] at h
    | recheckSame a r n ch c h hn => exact ⟨fun _ => by simp, fun _ => Or.inr (Or.inr (Or.inl ⟨_, _, rfl⟩))⟩
    | recheckDiff a r n ch c h hn =>
      refine ⟨fun _ => by simp, fun hn' => ?_⟩
      rcases h2 hn' with h' | h' | ⟨_, _, h'⟩ | ⟨_, _, h'⟩ | h' <;> simp [h'] at h
    | waitCancel a n ch c h hc => exact ⟨fun _ => by simp, fun _ => Or.inr (Or.inr (Or.inl ⟨_, _, rfl⟩))⟩
    | awaitErr a v e c h hp he => exact ⟨fun _ => by simp, fun _ => Or.inr (Or.inr (Or.inl ⟨_, _, rfl⟩))⟩
    | awaitOk a v c h hp =>
      refine ⟨fun ha => ?_, fun _ => Or.inr (Or.inr (Or.inr (Or.inl ⟨_, _, rfl⟩)))⟩
      exact absurd h (h1 ha).1
    | awaitCancel a c h hc => exact ⟨fun _ => by simp, fun _ => Or.inr (Or.inr (Or.inl ⟨_, _, rfl⟩))⟩
    | retWait a v e c h => exact ⟨fun _ => by simp, fun _ => Or.inr (Or.inr (Or.inr (Or.inr rfl)))⟩
    | retKeep a v e c h => exact ⟨fun _ => by simp, fun _ => Or.inr (Or.inr (Or.inr (Or.inr rfl)))⟩


/-- **C10 `access_result`.** The events that make an `Access` call return, and with what: the
snapshot section when the reference callback last delivered an error (that resolver error is
returned as such); the `ctx.Err()` check after the callback or the final `select` when the caller's
context is cancelled (`Canceled`); the nonce re-check when the nonce is still the snapshot's — then,
and only then, the callback's own result `r` of that invocation is returned. No other event makes
Access return. -/
theorem access_result (es : List CEv) (s : CSt) (h : cmodel.run cmodel.init es = some s)
    (e : CEv) (s' : CSt) (hs : cstep s e = some s') (a : Nat) (c c' : Con)
    (hc : getCon s a = some c) (hc' : getCon s' a = some c') (hop : c.op = .access)
    (hne : ∀ v x, c.pc ≠ .exitWait v x) (v x : Nat) (hx : c'.pc = .exitWait v x) :
    v = 0 ∧
    ((e = .snap a ∧ x = c.ce ∧ c.ce ≠ 0) ∨
     (x = 9 ∧ c.cancelled = true ∧ (e = .check a ∨ e = .waitCancel a)) ∨
     (e = .recheck a ∧ ∃ n ch, c.pc = .recheck x n ch ∧ c.cnonce = n)) := by
  have hok := opOk es s h a c hc
  rcases (cstep_frame s s' e hs).1 a c' hc' with h1 | ⟨c0, h1, ht⟩ | ⟨h1, _⟩
  · rw [hc] at h1; cases h1; exact absurd hx (hne v x)
  · rw [hc] at h1; cases h1
    cases ht with
    | hook a c res v er => rw [hook_pc] at hx; exact absurd hx (hne _ _)
    | started a c h => simp at hx; split at hx <;> cases hx
    | watch a c => exact absurd hx (hne _ _)
    | cancel a c => exact absurd hx (hne _ _)
    | goRel a c h => exact absurd hx (hne _ _)
    | goCb a c h => exact absurd hx (hne _ _)
    | snapErr a c h he => simp [snapped] at hx; exact ⟨hx.1.symm, Or.inl ⟨rfl, hx.2.symm, he⟩⟩
    | snapCall a c h he hr => simp at hx
    | snapWait a c h he hr => simp at hx
    | cbin a m v n ch c h hm => simp at hx
    | cbout a m r v n ch c h => simp at hx
    | checkCancel a r n ch c h hcn => simp at hx; exact ⟨hx.1.symm, Or.inr (Or.inl ⟨hx.2.symm, hcn, Or.inl rfl⟩)⟩
    | checkGo a r n ch c h hcn => simp at hx
    | recheckSame a r n ch c h hn =>
      simp at hx; obtain ⟨rfl, rfl⟩ := hx
      exact ⟨rfl, Or.inr (Or.inr ⟨rfl, n, ch, h, hn⟩)⟩
    | recheckDiff a r n ch c h hn => simp at hx
    | waitCancel a n ch c h hcn => simp at hx; exact ⟨hx.1.symm, Or.inr (Or.inl ⟨hx.2.symm, hcn, Or.inr rfl⟩)⟩
    | awaitErr a v e c h hp he => exact absurd h (hok.1 hop).1
    | awaitOk a v c h hp => simp at hx
    | awaitCancel a c h hcn => exact absurd h (hok.1 hop).1
    | retWait a v e c h => simp at hx
    | retKeep a v e c h => simp at hx
  · rw [hc] at h1; cases h1

/-! ## ResolveWithReleased: the `released` callback -/

/-- number of calls of the `released` callback of call `a` in an event list -/
def releasedCalls (es : List CEv) (a : Nat) : Nat :=
  (es.map fun e => if e = CEv.goCb a then 1 else 0).sum

def goBudget (s : CSt) (a : Nat) : Nat :=
  match getCon s a with
  | some c => if c.go = .done then 0 else 1
  | none => 1

theorem hook_go (c : Con) (nonce : Nat) (res : Bool) (v er : Nat) :
    (hook c nonce res v er).go = c.go ∨ (c.go = .none ∧ (hook c nonce res v er).go = .rel) := by
  unfold hook
  cases c.op <;> simp <;> (repeat' split) <;> simp_all

/-- once the release goroutine has finished, no transition starts it again -/
theorem trans_go_done (s : CSt) (e : CEv) (a : Nat) (c c' : Con) (ht : Trans s e a c c') (hd : c.go = .done) :
    c'.go = .done := by
  cases ht with
  | hook a c res v er =>
    rcases hook_go c s.b.nonce res v er with h | ⟨h, _⟩
    · rw [h]; exact hd
    · rw [hd] at h; cases h
  | goRel a c h => rw [hd] at h; cases h
  | goCb a c h => rfl
  | _ => exact hd

theorem goBudget_step (s s' : CSt) (e : CEv) (a : Nat) (hs : cstep s e = some s') :
    goBudget s' a + (if e = CEv.goCb a then 1 else 0) ≤ goBudget s a := by
  by_cases he : e = CEv.goCb a
  · subst he
    simp only [cstep] at hs
    cases hc : getCon s a with
    | none => simp [hc] at hs
    | some c =>
      simp only [hc] at hs
      split at hs <;> simp at hs
      rename_i hcond
      subst hs
      have hlt := getCon_lt s a c hc
      simp [goBudget, hc, getCon_setCon, hlt, hcond.1]
  · simp only [he, if_false, Nat.add_zero]
    obtain ⟨hf, hp⟩ := cstep_frame s s' e hs
    unfold goBudget
    cases hc : getCon s a with
    | none => simp only; split <;> (try split) <;> omega
    | some c =>
      obtain ⟨c', hc'⟩ := hp a c hc
      rw [hc']
      simp only
      rcases hf a c' hc' with h1 | ⟨c0, h1, ht⟩ | ⟨h1, _⟩
      · rw [hc] at h1; cases h1; exact Nat.le_refl _
      · rw [hc] at h1; cases h1
        by_cases hd : c.go = .done
        · simp [hd, trans_go_done s e a c c' ht hd]
        · simp only [hd, if_false]; split <;> omega
      · rw [hc] at h1; cases h1

theorem goBudget_run (s s' : CSt) (es : List CEv) (a : Nat) (hr : cmodel.run s es = some s') :
    releasedCalls es a + goBudget s' a ≤ goBudget s a := by
  induction es generalizing s with
  | nil => simp [OLTS.run] at hr; subst hr; simp [releasedCalls]
  | cons e es ih =>
    simp only [OLTS.run] at hr
    cases hst : cmodel.step s e with
    | none => simp [hst] at hr
    | some s1 =>
      simp [hst] at hr
      have h1 := goBudget_step s s1 e a hst
      have h2 := ih s1 hr
      simp only [releasedCalls, List.map_cons, List.sum_cons] at h2 ⊢
      omega

/-- **C10 `released_once` (at most once).** For every event list, the `released` callback handed to
`ResolveWithReleased` / `WaitWithReleased` is called at most once. -/
theorem released_once (es : List CEv) (s : CSt) (h : cmodel.run cmodel.init es = some s) (a : Nat) :
    releasedCalls es a ≤ 1 := by
  have := goBudget_run cmodel.init s es a h
  have h0 : goBudget cmodel.init a = 1 := by simp [goBudget, cmodel, getCon]
  omega

/-- **C10 `released_once` (exactly when).** The release goroutine (which releases the reference and
calls `released`) is started by exactly one kind of event: a notification of the call's own
reference that arrives after the call has seen its first result (`wres`) and that says "no longer
resolved" or carries a different generation — i.e. the value it returned was invalidated. It then
runs to the callback: each of its steps is its own, enabled once the mutex is free, and at a
quiescent point it has finished (`Con.quiet`). -/
theorem released_fires_iff (s s' : CSt) (e : CEv) (hs : cstep s e = some s') (a : Nat) (c c' : Con)
    (hc : getCon s a = some c) (hc' : getCon s' a = some c') (h0 : c.go = .none) (h1 : c'.go ≠ .none) :
    ∃ res v er, e = .base (.cb (.refcb a false res v er)) ∧ (∃ cb, c.op = .rwr cb) ∧ c.wres = true ∧
      (res = false ∨ s.b.nonce ≠ c.wnonce) ∧ c'.go = .rel := by
  rcases (cstep_frame s s' e hs).1 a c' hc' with h2 | ⟨c0, h2, ht⟩ | ⟨h2, _⟩
  · rw [hc] at h2; cases h2; exact absurd h0 h1
  · rw [hc] at h2; cases h2
    cases ht with
    | hook a c res v er =>
      refine ⟨res, v, er, rfl, ?_⟩
      have hgo : (hook c s.b.nonce res v er).go = .rel := by
        rcases hook_go c s.b.nonce res v er with h | ⟨_, h⟩
        · rw [h] at h1; exact absurd h0 h1
        · exact h
      refine ⟨?_, ?_, ?_, hgo⟩
      all_goals
        unfold hook at hgo
        cases hop : c.op with
        | access => rw [hop] at hgo; simp only at hgo; split at hgo <;> (rw [h0] at hgo; cases hgo)
        | wait => rw [hop] at hgo; simp only at hgo; rw [h0] at hgo; cases hgo
        | resolve => rw [hop] at hgo; simp only at hgo; rw [h0] at hgo; cases hgo
        | promise => rw [hop] at hgo; simp only at hgo; rw [h0] at hgo; cases hgo
        | rwr cb =>
          rw [hop] at hgo; simp only at hgo
          by_cases hw : c.wres = true
          · rw [if_pos hw] at hgo
            by_cases hcond : (!res) = true ∨ s.b.nonce ≠ c.wnonce
            · first
              | exact ⟨cb, rfl⟩
              | exact hw
              | (rcases hcond with h | h
                 · left; simpa using h
                 · right; exact h)
            · rw [if_neg hcond, h0] at hgo; cases hgo
          · rw [if_neg hw] at hgo
            split at hgo <;> (try simp only at hgo) <;> (rw [h0] at hgo; cases hgo)
    | goRel a c h => rw [h0] at h; cases h
    | goCb a c h => rw [h0] at h; cases h
    | _ => exact absurd h0 h1
  · rw [hc] at h2; cases h2


/-! ## Wait / Resolve / ResolveWithReleased: the held reference keeps the value alive -/

/-- a step of the composed model in which a release function gets called is a base event -/
theorem cstep_flip_base (s s' : CSt) (e : CEv) (hi : CInv s) (hs : cstep s e = some s') (i : Nat)
    (h0 : released s.b i = false) (h1 : released s'.b i = true) :
    ∃ be, e = .base be ∧ step s.b be = some s'.b := by
  have noflip : ∀ (be : Ev) (b' : St), step s.b be = some b' → (be = .invHook 0 ∨ True) →
      (∀ a, be ≠ .setCtxCS a) → (∀ j, be ≠ .relRun j) → (∀ b, be ≠ .relCS b) → (∀ b, be ≠ .selfRelCS b) →
      (be ≠ .store i) → released b' i = true → False := by
    intro be b' hst _ n1 n2 n3 n4 n5 hr
    rcases flip_cases s.b b' be i hi.base hst h0 hr with ⟨_, s1, hk, _⟩ | ⟨he, _⟩
    · cases hk with
      | ctxChange a he _ _ => exact n1 a he
      | releasedCb j he _ _ => exact n2 j he
      | lastRef b he _ _ => rcases he with he | he; exact n3 b he; exact n4 b he
    · exact n5 he
  have exitNo : ∀ (a : Nat) (c : Con) (v x : Nat), exitRel s a c v x = some s' → False := by
    intro a c v x hx
    unfold exitRel at hx
    cases hst : step s.b (.selfRelSwap a) with
    | none => simp [hst] at hx
    | some b' =>
      simp [hst] at hx; subst hx
      exact noflip _ b' hst (Or.inr trivial) (by simp) (by simp) (by simp) (by simp) (by simp) h1
  have same : ∀ (s2 : CSt), s' = s2 → s2.b.calls = s.b.calls → False := by
    intro s2 h2 h3
    rw [h2] at h1
    have : released s2.b i = released s.b i := by unfold released; rw [h3]
    rw [this, h0] at h1; cases h1
  cases e with
  | base be =>
    refine ⟨be, rfl, ?_⟩
    cases be with
    | invHook a => simp [cstep] at hs
    | selfRelSwap a => simp [cstep] at hs
    | probe v e => simp [cstep] at hs
    | quiesce B => simp [cstep] at hs
    | addRefCS a =>
      simp only [cstep] at hs
      cases hst : step s.b (.addRefCS a) with
      | none => simp [hst] at hs
      | some b' =>
        simp only [hst] at hs
        cases hc : getCon s a with
        | none => simp [hc] at hs; subst hs; rfl
        | some c => simp only [hc] at hs; split at hs <;> simp at hs; subst hs; rfl
    | cb it =>
      cases it with
      | rel j k seen =>
        simp only [cstep] at hs
        cases hst : step s.b (.cb (.rel j k seen)) with
        | none => simp [hst] at hs
        | some b' => simp [hst] at hs; subst hs; rfl
      | refcb a vis res v er =>
        cases vis with
        | true =>
          simp only [cstep] at hs
          cases hst : step s.b (.cb (.refcb a true res v er)) with
          | none => simp [hst] at hs
          | some b' => simp [hst] at hs; subst hs; rfl
        | false =>
          simp only [cstep] at hs
          cases hst : step s.b (.cb (.refcb a false res v er)) with
          | none => simp [hst] at hs
          | some b' =>
            simp only [hst] at hs
            cases hc : getCon s a with
            | none => simp [hc] at hs; subst hs; rfl
            | some c => simp [hc] at hs; subst hs; rfl
    | _ =>
      simp only [cstep] at hs
      split at hs <;> simp at hs
      subst hs
      rename_i b' hst
      exact hst
  | inv a op =>
    exfalso
    simp only [cstep] at hs
    cases hst : step s.b (.invHook a) with
    | none => simp [hst] at hs
    | some b' =>
      simp [hst] at hs; subst hs
      exact noflip _ b' hst (Or.inr trivial) (by simp) (by simp) (by simp) (by simp) (by simp) h1
  | goRel a =>
    exfalso
    simp only [cstep] at hs
    cases hc : getCon s a with
    | none => simp [hc] at hs
    | some c =>
      simp only [hc] at hs
      split at hs <;> try simp at hs
      cases hst : step s.b (.selfRelSwap a) with
      | none => simp [hst] at hs
      | some b' =>
        simp [hst] at hs; subst hs
        exact noflip _ b' hst (Or.inr trivial) (by simp) (by simp) (by simp) (by simp) (by simp) h1
  | snap a =>
    exfalso
    simp only [cstep] at hs
    cases hc : getCon s a with
    | none => simp [hc] at hs
    | some c =>
      simp only [hc] at hs
      split at hs <;> try simp at hs
      split at hs
      · split at hs <;> simp at hs <;> exact same _ hs.symm rfl
      · exact exitNo _ _ _ _ hs
  | watch a =>
    exfalso
    simp only [cstep] at hs
    cases hc : getCon s a with
    | none => simp [hc] at hs
    | some c =>
      simp only [hc] at hs
      split at hs <;> try simp at hs
      all_goals exact same _ hs.2.symm rfl
  | cbin a m v =>
    exfalso
    simp only [cstep] at hs
    cases hc : getCon s a with
    | none => simp [hc] at hs
    | some c =>
      simp only [hc] at hs
      split at hs <;> try simp at hs
      exact same _ hs.2.symm rfl
  | cbout a m r =>
    exfalso
    simp only [cstep] at hs
    cases hc : getCon s a with
    | none => simp [hc] at hs
    | some c =>
      simp only [hc] at hs
      split at hs <;> try simp at hs
      exact same _ hs.2.symm rfl
  | check a =>
    exfalso
    simp only [cstep] at hs
    cases hc : getCon s a with
    | none => simp [hc] at hs
    | some c =>
      simp only [hc] at hs
      split at hs <;> try simp at hs
      split at hs
      · exact exitNo _ _ _ _ hs
      · simp at hs; exact same _ hs.symm rfl
  | recheck a =>
    exfalso
    simp only [cstep] at hs
    cases hc : getCon s a with
    | none => simp [hc] at hs
    | some c =>
      simp only [hc] at hs
      split at hs <;> try simp at hs
      split at hs
      · exact exitNo _ _ _ _ hs
      · simp at hs; exact same _ hs.symm rfl
  | waitCancel a =>
    exfalso
    simp only [cstep] at hs
    cases hc : getCon s a with
    | none => simp [hc] at hs
    | some c =>
      simp only [hc] at hs
      split at hs <;> try simp at hs
      exact exitNo _ _ _ _ hs.2
  | await a =>
    exfalso
    simp only [cstep] at hs
    cases hc : getCon s a with
    | none => simp [hc] at hs
    | some c =>
      simp only [hc] at hs
      split at hs <;> try simp at hs
      split at hs <;> try simp at hs
      split at hs
      · simp at hs; exact same _ hs.symm rfl
      · exact exitNo _ _ _ _ hs
  | awaitCancel a =>
    exfalso
    simp only [cstep] at hs
    cases hc : getCon s a with
    | none => simp [hc] at hs
    | some c =>
      simp only [hc] at hs
      split at hs <;> try simp at hs
      exact exitNo _ _ _ _ hs
  | ret a v e =>
    exfalso
    simp only [cstep] at hs
    cases hc : getCon s a with
    | none => simp [hc] at hs
    | some c =>
      simp only [hc] at hs
      split at hs <;> try simp at hs
      · exact same _ hs.2.symm rfl
      · obtain ⟨_, hs⟩ := hs
        split at hs <;> simp at hs
        exact same _ hs.symm rfl
  | envCancelCall a =>
    exfalso
    simp only [cstep] at hs
    cases hc : getCon s a with
    | none => simp [hc] at hs
    | some c => simp [hc] at hs; exact same _ hs.symm rfl
  | goCb a =>
    exfalso
    simp only [cstep] at hs
    cases hc : getCon s a with
    | none => simp [hc] at hs
    | some c =>
      simp only [hc] at hs
      split at hs <;> simp at hs
      exact same _ hs.symm rfl
  | probeCtx a m cc =>
    exfalso
    simp only [cstep] at hs
    cases hc : getCon s a with
    | none => simp [hc] at hs
    | some c =>
      simp only [hc] at hs
      split at hs <;> try simp at hs
      exact same _ hs.2.symm rfl
  | probeProm a h v e => exact (same _ (probeProm_step s s' a h v e hs).1 rfl).elim
  | probe v e =>
    exfalso
    simp only [cstep] at hs; split at hs <;> simp at hs; exact same _ hs.symm rfl
  | quiesce B =>
    exfalso
    simp only [cstep] at hs; split at hs <;> simp at hs; exact same _ hs.symm rfl


/-- **C10 `wait_keeps_alive`.** (Corollary of C08 `rel_not_while_held` in the composed model.) If in
some step the release function of resolver call `i` gets called while a reference `a` — in
particular the one held by a `Wait` / `Resolve` / `ResolveWithReleased` caller — is still a member of
the reference set afterwards, then the step is a context change, or the `released()` section of `i`
itself, or the final section of `i` when it was superseded before it returned (then `i` was never
stored nor given to any reference). So a value returned by `Wait` / `Resolve` /
`ResolveWithReleased` is not released before the caller releases the returned reference, unless it
was invalidated. -/
theorem wait_keeps_alive (es : List CEv) (s : CSt) (h : cmodel.run cmodel.init es = some s)
    (e : CEv) (s' : CSt) (hs : cstep s e = some s') (i : Nat)
    (h0 : released s.b i = false) (h1 : released s'.b i = true)
    (a : Nat) (t : TS) (ha : s'.b.th[a]? = some t) (hlive : t.isLive = true) :
    (∃ x, e = .base (.setCtxCS x) ∧ s'.b.ctx ≠ s.b.ctx) ∨
    (∃ j, e = .base (.relRun j) ∧ s.b.relRuns[j]? = some i) ∨
    (e = .base (.store i) ∧ ∃ c, s.b.calls[i]? = some c ∧ c.stored = false ∧ c.nonce ≠ s.b.nonce ∧
      ∀ (r : Nat) (k : CbKind) (pc : Pc) (f sf : Bool) (told : Option Nat),
        s.b.th[r]? = some (.ref k pc true f sf told) → k ≠ .nil → told ≠ some i) := by
  have hi := creachable_inv es s h
  obtain ⟨be, he, hst⟩ := cstep_flip_base s s' e hi hs i h0 h1
  subst he
  rcases rel_not_while_held_inv s.b hi.base be s'.b hst i h0 h1 with ⟨x, h2, h3⟩ | ⟨j, h2, h3⟩ | ⟨_, h3⟩ | ⟨h2, h3⟩
  · left; exact ⟨x, by rw [h2], h3⟩
  · right; left; exact ⟨j, by rw [h2], h3⟩
  · exfalso
    have := countP_pos_of_getElem? TS.isLive s'.b.th a t ha hlive
    unfold liveRefs at h3; omega
  · right; right; exact ⟨by rw [h2], h3⟩


/-! ## the model does something: Access invalidated during its callback, re-invoked with the replacement -/

def exAccess : List CEv := [.base (.cfg false 1 1), .inv 0 .access, .base (.addRefCS 0), .base (.enter 0 0),
  .base (.leave 0 0 1 true 0), .base (.store 0), .base (.cb (.refcb 0 false true 1 0)), .base (.done 0),
  .snap 0, .cbin 0 0 1,
  .base (.envReleased 0), .base (.relRun 0), .base (.cb (.refcb 0 false false 0 0)), .watch 0,
  .base (.cb (.rel 0 0 0)), .base (.enter 1 1), .probe 0 0, .probeCtx 0 0 true, .quiesce [0],
  .cbout 0 0 0, .check 0, .recheck 0,
  .base (.leave 1 1 2 true 0), .base (.store 1), .base (.cb (.refcb 0 false true 2 0)), .base (.done 1),
  .snap 0, .cbin 0 1 2, .cbout 0 1 5, .check 0, .recheck 0, .base (.selfRelCS 0), .base (.cb (.rel 1 1 0)),
  .ret 0 0 5, .probe 0 0, .quiesce []]

example : (cmodel.run cmodel.init exAccess).isSome = true := by decide

end UtilModel.RefCount.Cons
