import UtilModel.RefCount.ConsProofs
import UtilModel.RefCount.ConsMonitors
/-!
# refcount consumers — property theorems C10 (statements a reader audits)

All theorems are about every event list of the composed model `cmodel` (RefCount + any number of
`Access` / `Wait` / `Resolve` / `ResolveWithReleased` calls, every interleaving of their atomic steps
with every base event).
-/
set_option linter.unusedSimpArgs false
set_option linter.unusedVariables false
namespace UtilModel.RefCount.Cons
open UtilModel UtilModel.RefCount

/-! ## Access -/

/-- **C10 `access_value_current` (1).** The snapshot section hands the callback exactly the value the
reference callback last delivered (`cv`), and only if that notification said "resolved, no error". -/
theorem access_snapshot (s s' : CSt) (a : Nat) (c c' : Con) (hc : getCon s a = some c)
    (hs : cstep s (.snap a) = some s') (hc' : getCon s' a = some c') (v n ch : Nat)
    (hpc : c'.pc = .calling v n ch) :
    v = c.cv ∧ n = c.cnonce + 1 ∧ c.cres = true ∧ c.ce = 0 ∧ c'.cnonce = n := by
  simp only [cstep, hc] at hs
  split at hs <;> try simp at hs
  have hlt := getCon_lt s a c hc
  split at hs
  · split at hs <;> simp at hs <;> subst hs
    · rename_i hce hres
      rw [getCon_setCon] at hc'
      simp [hlt] at hc'; subst hc'
      simp at hpc
      exact ⟨hpc.1.symm, hpc.2.1.symm, hres, hce, hpc.2.1⟩
    · rw [getCon_setCon] at hc'
      simp [hlt] at hc'; subst hc'
      simp at hpc
  · unfold exitRel at hs
    split at hs <;> simp at hs
    subst hs
    rw [getCon_setCon] at hc'
    have : a < ({ s with b := _ } : CSt).ct.length := hlt
    simp [hlt] at hc'; subst hc'
    simp at hpc

/-- **C10 `access_value_current` (2).** While the callback is about to be entered or is running with
value `v`, either `v` is still what the reference callback last delivered (resolved, no error), or a
later notification has changed it — and then the snapshot's wait channel is closed. The callback is
entered (`cbin a m v`) only with the snapshot value. -/
theorem access_value_current (es : List CEv) (s : CSt) (h : cmodel.run cmodel.init es = some s)
    (a : Nat) (c : Con) (hc : getCon s a = some c) (v n ch : Nat)
    (hpc : c.pc = .calling v n ch ∨ ∃ m, c.pc = .incb m v n ch) :
    (c.cnonce = n ∧ c.cres = true ∧ c.cv = v ∧ c.ce = 0 ∧ c.bc.closed ch = false) ∨
    (c.cnonce ≠ n ∧ c.bc.closed ch = true) := by
  have hok := (creachable_inv es s h).cons a c hc
  unfold ConOk at hok
  rcases hpc with hpc | ⟨m, hpc⟩ <;> rw [hpc] at hok <;> simp only at hok <;>
    obtain ⟨_, ⟨_, _, hcl⟩, hval⟩ := hok
  all_goals
    by_cases hn : c.cnonce = n
    · left
      obtain ⟨h1, h2, h3⟩ := hval hn
      refine ⟨hn, h1, h2, h3, ?_⟩
      cases hcc : c.bc.closed ch
      · rfl
      · exact absurd hn (hcl.mp hcc)
    · right; exact ⟨hn, hcl.mpr hn⟩

/-- **C10 `access_cancel` (enabled).** If a notification changed the snapshot after the snapshot
section, the watcher's `cbCancel()` is enabled (until it has fired) — before the callback is entered
as well as while it runs. -/
theorem access_cancel_enabled (es : List CEv) (s : CSt) (h : cmodel.run cmodel.init es = some s)
    (a : Nat) (c : Con) (hc : getCon s a = some c) (v n ch : Nat)
    (hpc : c.pc = .calling v n ch ∨ ∃ m, c.pc = .incb m v n ch) (hn : c.cnonce ≠ n)
    (hw : c.wcancel = false) :
    ∃ s', cstep s (.watch a) = some s' ∧ ∃ c', getCon s' a = some c' ∧ c'.wcancel = true ∧ c'.pc = c.pc := by
  have hcl : c.bc.closed ch = true := by
    rcases access_value_current es s h a c hc v n ch hpc with ⟨h1, _⟩ | ⟨_, h2⟩
    · exact absurd h1 hn
    · exact h2
  have hlt := getCon_lt s a c hc
  rcases hpc with hpc | ⟨m, hpc⟩
  · refine ⟨setCon s a { c with wcancel := true }, by simp [cstep, hc, hpc, hcl, hw],
      { c with wcancel := true }, ?_, rfl, rfl⟩
    rw [getCon_setCon]; simp [hlt]
  · refine ⟨setCon s a { c with wcancel := true }, by simp [cstep, hc, hpc, hcl, hw],
      { c with wcancel := true }, ?_, rfl, rfl⟩
    rw [getCon_setCon]; simp [hlt]

/-- **C10 `access_cancel` (promptly = by the next quiescence).** At a quiescent point, the context of
a running callback whose value was invalidated after the snapshot section is cancelled. -/
theorem access_cancel_quiescent (es : List CEv) (s : CSt) (h : cmodel.run cmodel.init es = some s)
    (hq : cquiescent s = true) (a : Nat) (c : Con) (hc : getCon s a = some c) (m v n ch : Nat)
    (hpc : c.pc = .incb m v n ch) (hn : c.cnonce ≠ n) : c.wcancel = true := by
  have hcl : c.bc.closed ch = true := by
    rcases access_value_current es s h a c hc v n ch (Or.inr ⟨m, hpc⟩) with ⟨h1, _⟩ | ⟨_, h2⟩
    · exact absurd h1 hn
    · exact h2
  unfold cquiescent at hq
  simp only [Bool.and_eq_true, List.all_eq_true] at hq
  have hmem : some c ∈ s.ct := by
    unfold getCon at hc
    cases hx : s.ct[a]? with
    | none => simp [hx] at hc
    | some y => simp [hx] at hc; rw [hc] at hx; exact List.mem_of_getElem? hx
  have := hq.2 (some c) hmem
  simp [Con.quiet, hpc, hcl] at this
  exact this.1

/-- **C10 `access_cancel` (no stale result, re-invocation).** After the callback returned, if the
snapshot was changed in the meantime, the nonce re-check does not let Access return that invocation's
result: Access goes back to the top of its loop (its wait channel is already closed), takes a new
snapshot and — if a value is resolved — calls the callback again with the replacement. -/
theorem access_reinvoke (es : List CEv) (s : CSt) (h : cmodel.run cmodel.init es = some s)
    (a : Nat) (c : Con) (hc : getCon s a = some c) (r n ch : Nat)
    (hpc : c.pc = .recheck r n ch) (hn : c.cnonce ≠ n) :
    ∃ s1 c1, cstep s (.recheck a) = some s1 ∧ getCon s1 a = some c1 ∧ c1.pc = .waiting n ch ∧
      canLook c1 = true ∧ c1.cv = c.cv ∧ c1.cres = c.cres ∧ c1.ce = c.ce ∧
      (unlockedFor s1.b (.thr a) = true → c1.ce = 0 → c1.cres = true →
        ∃ s2 c2, cstep s1 (.snap a) = some s2 ∧ getCon s2 a = some c2 ∧
          c2.pc = .calling c.cv (c.cnonce + 1) c.bc.getWaitCh.2) := by
  have hok := (creachable_inv es s h).cons a c hc
  unfold ConOk SnapOk at hok
  rw [hpc] at hok
  have hcl : c.bc.closed ch = true := hok.2.2.2.mpr hn
  have hlt := getCon_lt s a c hc
  have hg : getCon (setCon s a { c with pc := .waiting n ch }) a = some { c with pc := .waiting n ch } := by
    rw [getCon_setCon]; simp [hlt]
  refine ⟨setCon s a { c with pc := .waiting n ch }, _, by simp [cstep, hc, hpc, hn], hg, rfl,
    by simp [canLook, hcl], rfl, rfl, rfl, ?_⟩
  intro hu hce hres
  simp only at hce hres
  refine ⟨setCon (setCon s a { c with pc := .waiting n ch }) a
      { c with pc := .calling c.cv (c.cnonce + 1) c.bc.getWaitCh.2, cnonce := c.cnonce + 1,
               bc := c.bc.getWaitCh.1, wcancel := false },
    { c with pc := .calling c.cv (c.cnonce + 1) c.bc.getWaitCh.2, cnonce := c.cnonce + 1,
             bc := c.bc.getWaitCh.1, wcancel := false }, ?_, ?_, rfl⟩
  · have hcan : canLook { c with pc := CPc.waiting n ch } = true := by simp [canLook, hcl]
    have hu' : unlockedFor (setCon s a { c with pc := CPc.waiting n ch }).b (Owner.thr a) = true := hu
    have hce' : ({ c with pc := CPc.waiting n ch } : Con).ce = 0 := hce
    have hres' : ({ c with pc := CPc.waiting n ch } : Con).cres = true := hres
    simp only [cstep, hg, hcan, hu', and_self, if_true, hce', hres', ne_eq, not_true_eq_false, if_false]
    rw [if_neg (by simp [hce]), if_pos hres]
  · rw [getCon_setCon]; simp [setCon, hlt]

end UtilModel.RefCount.Cons
