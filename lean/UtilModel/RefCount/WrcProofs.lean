import UtilModel.RefCount.Wrc
import UtilModel.Core.LTSHash
import UtilModel.Core.LTSComplete
/-!
# `WaitRefCountContainer`: every observable trace of the model is accepted by `monWrc`

The simulation relation keeps, per call, what the monitor has recorded (`MW`) in step with the
model's call entry (`W`): the current contents of both containers are among the recorded ones while
the call is pending; a decided result and a buffered error are justified by recorded contents; a
parked look whose generation is current looked at the current (empty) content; and *the helper does
not lose the error*: once it has ended, the error is in the channel, or the caller has taken a
result, or the context was cancelled.
-/
set_option linter.unusedSimpArgs false
set_option linter.unusedVariables false
namespace UtilModel.RefCount.Wrc
open UtilModel

theorem get_set_eq {α : Type} (l : List α) (a : Nat) (x y : α) (h : l[a]? = some y) : (l.set a x)[a]? = some x := by
  have hlt : a < l.length := by
    cases Nat.lt_or_ge a l.length with
    | inl h1 => exact h1
    | inr h1 => rw [List.getElem?_eq_none h1] at h; cases h
  simp [List.getElem?_set, hlt]

theorem get_set_ne {α : Type} (l : List α) (a b : Nat) (x : α) (h : a ≠ b) : (l.set a x)[b]? = l[b]? := by
  simp [List.getElem?_set, h]

theorem lt_of_get {α : Type} (l : List α) (a : Nat) (y : α) (h : l[a]? = some y) : a < l.length := by
  cases Nat.lt_or_ge a l.length with
  | inl h1 => exact h1
  | inr h1 => rw [List.getElem?_eq_none h1] at h; cases h

structure WOk (tgt terr tgen egen : Nat) (hasE : Bool) (w : W) (mw : MW) : Prop where
  canc : mw.cancelled = w.cancelled
  retd : mw.returned = true ↔ w.pc = .returned
  curT : tgt ≠ 0 → w.pc ≠ .returned → tgt ∈ mw.seenT
  curE : terr ≠ 0 → w.pc ≠ .returned → terr ∈ mw.seenE
  exit : ∀ v e, w.pc = .exit v e →
    (e = 0 ∧ v ≠ 0 ∧ v ∈ mw.seenT) ∨ (e ≠ 0 ∧ v = 0 ∧ (e ∈ mw.seenE ∨ (e = 9 ∧ w.cancelled = true)))
  buf : w.pc ≠ .returned → w.buf ≠ 0 → w.buf ∈ mw.seenE
  parkT : ∀ g, w.pc = .parked g → g ≤ tgen ∧ (g = tgen → tgt = 0)
  parkE : ∀ g, w.h = .parked g → g ≤ egen ∧ (g = egen → terr = 0)
  done : w.h = .done → w.buf ≠ 0 ∨ w.cancelled = true ∨ (∃ v e, w.pc = .exit v e) ∨ w.pc = .returned
  helper : hasE = true → w.h ≠ .none

structure R (s : St) (m : MSt) : Prop where
  hasE : m.hasE = s.hasE
  tgt : m.tgt = s.tgt
  terr : m.terr = s.terr
  locked : m.locked = s.locked
  len : m.ws.length = s.ws.length
  pre : s.cfgd = false → s.ws = []
  ws : ∀ (a : Nat) (w : W) (mw : MW), s.ws[a]? = some w → m.ws[a]? = some mw → WOk s.tgt s.terr s.tgen s.egen s.hasE w mw

theorem r_init : R model.init monWrc.init := by
  refine ⟨rfl, rfl, rfl, rfl, rfl, fun _ => rfl, ?_⟩
  intro a w mw h; simp [model] at h

/-- an internal step of call `a` that leaves the monitor alone -/
theorem r_internal (s : St) (m : MSt) (a : Nat) (w w' : W) (h : R s m) (hw : s.ws[a]? = some w)
    (hok : ∀ mw, WOk s.tgt s.terr s.tgen s.egen s.hasE w mw → WOk s.tgt s.terr s.tgen s.egen s.hasE w' mw) :
    R (setW s a w') m := by
  refine ⟨h.hasE, h.tgt, h.terr, h.locked, by simp [setW, h.len], ?_, ?_⟩
  · intro hc
    have := h.pre hc; rw [this] at hw; simp at hw
  · intro b x mw hx hm
    by_cases hab : a = b
    · subst hab
      have : (s.ws.set a w')[a]? = some w' := get_set_eq s.ws a w' w hw
      simp only [setW] at hx; rw [this] at hx; cases hx
      exact hok mw (h.ws a w mw hw hm)
    · simp only [setW] at hx; rw [get_set_ne s.ws a b w' hab] at hx
      exact h.ws b x mw hx hm

theorem mw_of (s : St) (m : MSt) (a : Nat) (w : W) (h : R s m) (hw : s.ws[a]? = some w) :
    ∃ mw, m.ws[a]? = some mw := by
  have hlt : a < m.ws.length := by rw [h.len]; exact lt_of_get s.ws a w hw
  exact ⟨m.ws[a], List.getElem?_eq_getElem hlt⟩

theorem quiesce_ok (s : St) (m : MSt) (h : R s m) (hq : quiescent s = true) :
    (pendingIds s).all (pendOk m) = true := by
  rw [List.all_eq_true]
  intro a ha
  unfold pendOk
  unfold pendingIds at ha
  rw [List.mem_filter] at ha
  obtain ⟨_, ha⟩ := ha
  cases hw : s.ws[a]? with
  | none => simp [hw] at ha
  | some w =>
    simp only [hw] at ha
    obtain ⟨mw, hm⟩ := mw_of s m a w h hw
    rw [hm]
    simp only
    have ok := h.ws a w mw hw hm
    have hqw : W.quiet s w = true := by
      unfold quiescent at hq
      simp only [Bool.and_eq_true, List.all_eq_true] at hq
      exact hq.2 w (List.mem_of_getElem? hw)
    rw [h.locked, h.tgt, h.terr, h.hasE, ok.canc]
    cases hcn : w.cancelled with
    | true => simp
    | false =>
      cases hl : s.locked with
      | true => simp
      | false =>
        unfold W.quiet at hqw
        simp only [Bool.and_eq_true] at hqw
        obtain ⟨q1, q2⟩ := hqw
        cases hpc : w.pc with
        | look => rw [hpc, hl] at q1; cases q1
        | exit v e => rw [hpc] at q1; cases q1
        | returned => rw [hpc] at ha; simp at ha
        | parked g =>
          rw [hpc] at q1
          simp only [Bool.and_eq_true, beq_iff_eq, Bool.not_eq_true'] at q1
          obtain ⟨⟨hg, _⟩, hb⟩ := q1
          have ht : s.tgt = 0 := (ok.parkT g hpc).2 hg
          have he : s.hasE = true → s.terr = 0 := by
            intro hE
            cases hh : w.h with
            | none => exact absurd hh (ok.helper hE)
            | look => rw [hh] at q2; cases q2
            | parked g2 =>
              rw [hh] at q2
              simp only [Bool.and_eq_true, beq_iff_eq] at q2
              exact (ok.parkE g2 hh).2 q2.1
            | done =>
              rcases ok.done hh with d | d | ⟨v, e, d⟩ | d
              · exact absurd hb d
              · rw [hcn] at d; cases d
              · rw [hpc] at d; cases d
              · rw [hpc] at d; cases d
          cases hE : s.hasE with
          | false => simp [ht]
          | true => simp [ht, he hE]

theorem sim_step (s : St) (e : Ev) (s' : St) (m : MSt) (h : R s m) (hs : step s e = some s') :
    match model.obs e with
    | none => R s' m
    | some o => ∃ m', monWrc.step m o = some m' ∧ R s' m' := by
  cases e with
  | cfg hE =>
    simp only [step] at hs
    split at hs <;> simp at hs
    rename_i hc
    subst hs
    refine ⟨{ m with hasE := hE }, rfl, ⟨rfl, h.tgt, h.terr, h.locked, h.len, by simp, ?_⟩⟩
    intro a w mw hw
    have := h.pre (by simpa using hc)
    simp only at hw; rw [this] at hw; simp at hw
  | setT v =>
    simp only [step] at hs
    split at hs <;> simp at hs
    rename_i hc
    subst hs
    refine ⟨_, rfl, ⟨h.hasE, rfl, h.terr, h.locked, by simp [h.len], ?_, ?_⟩⟩
    · intro hcf; simp at hcf; rw [hcf] at hc; simp at hc
    · intro a w mw hw hm
      simp only at hw
      obtain ⟨mw0, hm0⟩ := mw_of s m a w h hw
      have ok := h.ws a w mw0 hw hm0
      simp only [List.getElem?_map, hm0, Option.map_some] at hm
      have hmw := Option.some.inj hm
      by_cases hcond : v ≠ 0 ∧ (!mw0.returned) = true
      · rw [if_pos hcond] at hmw; subst hmw
        exact ⟨ok.canc, ok.retd, fun _ _ => List.mem_cons_self, ok.curE,
          (fun v' e' hx => by
            rcases ok.exit v' e' hx with ⟨g1, g2, g3⟩ | g
            · exact Or.inl ⟨g1, g2, List.mem_cons_of_mem _ g3⟩
            · exact Or.inr g),
          ok.buf,
          (fun g hp => ⟨Nat.le_succ_of_le (ok.parkT g hp).1, fun hg => absurd hg (by have := (ok.parkT g hp).1; show g ≠ s.tgen + 1; omega)⟩),
          ok.parkE, ok.done, ok.helper⟩
      · rw [if_neg hcond] at hmw; subst hmw
        refine ⟨ok.canc, ok.retd, ?_, ok.curE, ok.exit, ok.buf,
          (fun g hp => ⟨Nat.le_succ_of_le (ok.parkT g hp).1, fun hg => absurd hg (by have := (ok.parkT g hp).1; show g ≠ s.tgen + 1; omega)⟩),
          ok.parkE, ok.done, ok.helper⟩
        intro hv hnr
        exfalso; apply hcond
        refine ⟨hv, ?_⟩
        cases hr : mw0.returned
        · rfl
        · exact absurd (ok.retd.mp hr) hnr
  | setE x =>
    simp only [step] at hs
    split at hs <;> simp at hs
    rename_i hc
    subst hs
    refine ⟨_, rfl, ⟨h.hasE, h.tgt, rfl, h.locked, by simp [h.len], ?_, ?_⟩⟩
    · intro hcf; simp at hcf; rw [hcf] at hc; simp at hc
    · intro a w mw hw hm
      simp only at hw
      obtain ⟨mw0, hm0⟩ := mw_of s m a w h hw
      have ok := h.ws a w mw0 hw hm0
      simp only [List.getElem?_map, hm0, Option.map_some] at hm
      have hmw := Option.some.inj hm
      by_cases hcond : x ≠ 0 ∧ (!mw0.returned) = true
      · rw [if_pos hcond] at hmw; subst hmw
        exact ⟨ok.canc, ok.retd, ok.curT, fun _ _ => List.mem_cons_self,
          (fun v' e' hx => by
            rcases ok.exit v' e' hx with g | ⟨g1, g2, g3 | g3⟩
            · exact Or.inl g
            · exact Or.inr ⟨g1, g2, Or.inl (List.mem_cons_of_mem _ g3)⟩
            · exact Or.inr ⟨g1, g2, Or.inr g3⟩),
          (fun h1 h2 => List.mem_cons_of_mem _ (ok.buf h1 h2)),
          ok.parkT,
          (fun g hp => ⟨Nat.le_succ_of_le (ok.parkE g hp).1, fun hg => absurd hg (by have := (ok.parkE g hp).1; show g ≠ s.egen + 1; omega)⟩),
          ok.done, ok.helper⟩
      · rw [if_neg hcond] at hmw; subst hmw
        refine ⟨ok.canc, ok.retd, ok.curT, ?_, ok.exit, ok.buf, ok.parkT,
          (fun g hp => ⟨Nat.le_succ_of_le (ok.parkE g hp).1, fun hg => absurd hg (by have := (ok.parkE g hp).1; show g ≠ s.egen + 1; omega)⟩),
          ok.done, ok.helper⟩
        intro hv hnr
        exfalso; apply hcond
        refine ⟨hv, ?_⟩
        cases hr : mw0.returned
        · rfl
        · exact absurd (ok.retd.mp hr) hnr
  | lock =>
    simp only [step] at hs
    split at hs <;> simp at hs
    rename_i hc
    subst hs
    refine ⟨_, rfl, ⟨h.hasE, h.tgt, h.terr, rfl, h.len, ?_, h.ws⟩⟩
    intro hcf; simp at hcf; rw [hcf] at hc; simp at hc
  | unlock =>
    simp only [step] at hs
    split at hs <;> simp at hs
    subst hs
    exact ⟨_, rfl, ⟨h.hasE, h.tgt, h.terr, rfl, h.len, h.pre, h.ws⟩⟩
  | inv a =>
    simp only [step] at hs
    split at hs <;> simp at hs
    rename_i hc
    subst hs
    have ha : a = m.ws.length := by rw [h.len]; exact hc.2
    refine ⟨{ m with ws := m.ws ++ [{ seenT := if m.tgt ≠ 0 then [m.tgt] else []
                                      seenE := if m.terr ≠ 0 then [m.terr] else [] }] },
      by simp only [monWrc, Ev.obs, model]; rw [if_pos ha], ⟨h.hasE, h.tgt, h.terr, h.locked, by simp [h.len], ?_, ?_⟩⟩
    · intro hcf; simp at hcf; rw [hcf] at hc; simp at hc
    · intro b w mw hw hm
      simp only at hw hm
      by_cases hb : b < s.ws.length
      · rw [List.getElem?_append_left hb] at hw
        rw [List.getElem?_append_left (by rw [h.len]; exact hb)] at hm
        exact h.ws b w mw hw hm
      · have hb' : s.ws.length ≤ b := Nat.le_of_not_lt hb
        rw [List.getElem?_append_right hb'] at hw
        rw [List.getElem?_append_right (by rw [h.len]; exact hb')] at hm
        have h0 : b - s.ws.length = 0 := by
          cases hx : b - s.ws.length with
          | zero => rfl
          | succ n => rw [hx] at hw; simp at hw
        rw [h0] at hw; rw [h.len, h0] at hm
        simp at hw hm
        subst hw; subst hm
        refine ⟨rfl, by simp, ?_, ?_, by simp, by simp, by simp, ?_, ?_, ?_⟩
        · intro ht _; rw [h.tgt]; simp [ht]
        · intro ht _; rw [h.terr]; simp [ht]
        · intro g hg; cases hE : s.hasE <;> simp [hE] at hg
        · intro hd; cases hE : s.hasE <;> simp [hE] at hd
        · intro hE; have hE' : s.hasE = true := hE; simp [hE']
  | mlook a =>
    simp only [step] at hs
    cases hw : s.ws[a]? with
    | none => simp [hw] at hs
    | some w =>
      simp only [hw] at hs
      split at hs <;> simp at hs
      rename_i hc
      subst hs
      refine r_internal s m a w _ h hw ?_
      intro mw ok
      by_cases ht : s.tgt ≠ 0
      · rw [if_neg ht]
        refine ⟨ok.canc, ?_, fun h1 _ => ok.curT h1 (by rw [hc.1]; simp), fun h1 _ => ok.curE h1 (by rw [hc.1]; simp),
          ?_, fun _ => ok.buf (by rw [hc.1]; simp), by simp, ok.parkE, ?_, ok.helper⟩
        · constructor
          · intro hr; have := ok.retd.mp hr; rw [hc.1] at this; cases this
          · intro hr; simp at hr
        · intro v e hx
          simp at hx
          obtain ⟨rfl, rfl⟩ := hx
          exact Or.inl ⟨rfl, ht, ok.curT ht (by rw [hc.1]; simp)⟩
        · intro hd
          rcases ok.done hd with d | d | ⟨v, e, d⟩ | d
          · exact Or.inl d
          · exact Or.inr (Or.inl d)
          · rw [hc.1] at d; cases d
          · rw [hc.1] at d; cases d
      · have ht0 : s.tgt = 0 := by simpa using ht
        rw [if_pos ht0]
        refine ⟨ok.canc, ?_, fun h1 _ => ok.curT h1 (by rw [hc.1]; simp), fun h1 _ => ok.curE h1 (by rw [hc.1]; simp),
          by simp, fun _ => ok.buf (by rw [hc.1]; simp), ?_, ok.parkE, ?_, ok.helper⟩
        · constructor
          · intro hr; have := ok.retd.mp hr; rw [hc.1] at this; cases this
          · intro hr; simp at hr
        · intro g hg; simp at hg; subst hg; exact ⟨Nat.le_refl _, fun _ => ht0⟩
        · intro hd
          rcases ok.done hd with d | d | ⟨v, e, d⟩ | d
          · exact Or.inl d
          · exact Or.inr (Or.inl d)
          · rw [hc.1] at d; cases d
          · rw [hc.1] at d; cases d
  | mwake a =>
    simp only [step] at hs
    cases hw : s.ws[a]? with
    | none => simp [hw] at hs
    | some w =>
      simp only [hw] at hs
      split at hs <;> try simp at hs
      rename_i g hpc
      obtain ⟨hg, rfl⟩ := hs
      refine r_internal s m a w _ h hw ?_
      intro mw ok
      refine ⟨ok.canc, ?_, fun h1 _ => ok.curT h1 (by rw [hpc]; simp), fun h1 _ => ok.curE h1 (by rw [hpc]; simp),
        by simp, fun _ => ok.buf (by rw [hpc]; simp), by simp, ok.parkE, ?_, ok.helper⟩
      · constructor
        · intro hr; have := ok.retd.mp hr; rw [hpc] at this; cases this
        · intro hr; simp at hr
      · intro hd
        rcases ok.done hd with d | d | ⟨v, e, d⟩ | d
        · exact Or.inl d
        · exact Or.inr (Or.inl d)
        · rw [hpc] at d; cases d
        · rw [hpc] at d; cases d
  | mcancel a =>
    simp only [step] at hs
    cases hw : s.ws[a]? with
    | none => simp [hw] at hs
    | some w =>
      simp only [hw] at hs
      split at hs <;> try simp at hs
      rename_i g hpc
      obtain ⟨hcn, rfl⟩ := hs
      refine r_internal s m a w _ h hw ?_
      intro mw ok
      refine ⟨ok.canc, ?_, fun h1 _ => ok.curT h1 (by rw [hpc]; simp), fun h1 _ => ok.curE h1 (by rw [hpc]; simp),
        ?_, fun _ => ok.buf (by rw [hpc]; simp), by simp, ok.parkE, fun _ => Or.inr (Or.inr (Or.inl ⟨0, 9, rfl⟩)), ok.helper⟩
      · constructor
        · intro hr; have := ok.retd.mp hr; rw [hpc] at this; cases this
        · intro hr; simp at hr
      · intro v e hx
        simp at hx
        obtain ⟨rfl, rfl⟩ := hx
        exact Or.inr ⟨by simp, rfl, Or.inr ⟨rfl, hcn⟩⟩
  | merr a =>
    simp only [step] at hs
    cases hw : s.ws[a]? with
    | none => simp [hw] at hs
    | some w =>
      simp only [hw] at hs
      split at hs <;> try simp at hs
      rename_i g hpc
      obtain ⟨hb, rfl⟩ := hs
      refine r_internal s m a w _ h hw ?_
      intro mw ok
      refine ⟨ok.canc, ?_, fun h1 _ => ok.curT h1 (by rw [hpc]; simp), fun h1 _ => ok.curE h1 (by rw [hpc]; simp),
        ?_, by simp, by simp, ok.parkE, fun _ => Or.inr (Or.inr (Or.inl ⟨0, w.buf, rfl⟩)), ok.helper⟩
      · constructor
        · intro hr; have := ok.retd.mp hr; rw [hpc] at this; cases this
        · intro hr; simp at hr
      · intro v e hx
        simp at hx
        obtain ⟨rfl, rfl⟩ := hx
        exact Or.inr ⟨hb, rfl, Or.inl (ok.buf (by rw [hpc]; simp) hb)⟩
  | hlook a =>
    simp only [step] at hs
    cases hw : s.ws[a]? with
    | none => simp [hw] at hs
    | some w =>
      simp only [hw] at hs
      split at hs <;> simp at hs
      rename_i hh
      subst hs
      refine r_internal s m a w _ h hw ?_
      intro mw ok
      by_cases ht : s.terr ≠ 0
      · rw [if_neg ht]
        exact ⟨ok.canc, ok.retd, ok.curT, ok.curE, ok.exit, fun h1 _ => ok.curE ht h1, ok.parkT, by simp,
          fun _ => Or.inl ht, by simp⟩
      · have ht0 : s.terr = 0 := by simpa using ht
        rw [if_pos ht0]
        refine ⟨ok.canc, ok.retd, ok.curT, ok.curE, ok.exit, ok.buf, ok.parkT, ?_, by simp, by simp⟩
        intro g hg; simp at hg; subst hg; exact ⟨Nat.le_refl _, fun _ => ht0⟩
  | hwake a =>
    simp only [step] at hs
    cases hw : s.ws[a]? with
    | none => simp [hw] at hs
    | some w =>
      simp only [hw] at hs
      split at hs <;> try simp at hs
      rename_i g hh
      obtain ⟨hg, rfl⟩ := hs
      refine r_internal s m a w _ h hw ?_
      intro mw ok
      exact ⟨ok.canc, ok.retd, ok.curT, ok.curE, ok.exit, ok.buf, ok.parkT, by simp, by simp, by simp⟩
  | hcancel a =>
    simp only [step] at hs
    cases hw : s.ws[a]? with
    | none => simp [hw] at hs
    | some w =>
      simp only [hw] at hs
      split at hs <;> try simp at hs
      rename_i g hh
      obtain ⟨hcn, rfl⟩ := hs
      refine r_internal s m a w _ h hw ?_
      intro mw ok
      exact ⟨ok.canc, ok.retd, ok.curT, ok.curE, ok.exit, ok.buf, ok.parkT, by simp,
        fun _ => Or.inr (Or.inl hcn), by simp⟩
  | ret a v x =>
    simp only [step] at hs
    cases hw : s.ws[a]? with
    | none => simp [hw] at hs
    | some w =>
      simp only [hw] at hs
      split at hs <;> simp at hs
      rename_i hpc
      subst hs
      obtain ⟨mw, hm⟩ := mw_of s m a w h hw
      have ok := h.ws a w mw hw hm
      have hnr : mw.returned = false := by
        cases hr : mw.returned
        · rfl
        · have := ok.retd.mp hr; rw [hpc] at this; cases this
      have hcond : (!mw.returned) = true ∧
          ((x = 0 ∧ v ≠ 0 ∧ v ∈ mw.seenT) ∨ (x ≠ 0 ∧ v = 0 ∧ (x ∈ mw.seenE ∨ (x = 9 ∧ mw.cancelled = true)))) := by
        refine ⟨by simp [hnr], ?_⟩
        rw [ok.canc]; exact ok.exit v x hpc
      refine ⟨{ m with ws := m.ws.set a { mw with returned := true } }, ?_, ?_⟩
      · simp only [monWrc, Ev.obs, model, hm]
        rw [if_pos hcond]
      · refine ⟨h.hasE, h.tgt, h.terr, h.locked, by simp [setW, h.len], ?_, ?_⟩
        · intro hc; have := h.pre hc; rw [this] at hw; simp at hw
        · intro b w2 mw2 hw2 hm2
          by_cases hab : a = b
          · subst hab
            simp only [setW] at hw2
            rw [get_set_eq s.ws a _ w hw] at hw2
            rw [get_set_eq m.ws a _ mw hm] at hm2
            cases hw2; cases hm2
            exact ⟨ok.canc, by simp, by simp, by simp, by simp, by simp, by simp, ok.parkE,
              fun _ => Or.inr (Or.inr (Or.inr rfl)), ok.helper⟩
          · simp only [setW] at hw2
            rw [get_set_ne s.ws a b _ hab] at hw2
            rw [get_set_ne m.ws a b _ hab] at hm2
            exact h.ws b w2 mw2 hw2 hm2
  | cancel a =>
    simp only [step] at hs
    cases hw : s.ws[a]? with
    | none => simp [hw] at hs
    | some w =>
      simp only [hw] at hs
      have hs' := Option.some.inj hs
      subst hs'
      obtain ⟨mw, hm⟩ := mw_of s m a w h hw
      have ok := h.ws a w mw hw hm
      refine ⟨{ m with ws := m.ws.set a { mw with cancelled := true } }, by simp [monWrc, Ev.obs, model, hm], ?_⟩
      refine ⟨h.hasE, h.tgt, h.terr, h.locked, by simp [setW, h.len], ?_, ?_⟩
      · intro hc; have := h.pre hc; rw [this] at hw; simp at hw
      · intro b w2 mw2 hw2 hm2
        by_cases hab : a = b
        · subst hab
          simp only [setW] at hw2
          rw [get_set_eq s.ws a _ w hw] at hw2
          rw [get_set_eq m.ws a _ mw hm] at hm2
          cases hw2; cases hm2
          refine ⟨rfl, ok.retd, ok.curT, ok.curE, ?_, ok.buf, ok.parkT, ok.parkE, ?_, ok.helper⟩
          · intro v e hx
            rcases ok.exit v e hx with g | ⟨g1, g2, g3 | g3⟩
            · exact Or.inl g
            · exact Or.inr ⟨g1, g2, Or.inl g3⟩
            · exact Or.inr ⟨g1, g2, Or.inr ⟨g3.1, rfl⟩⟩
          · intro _; exact Or.inr (Or.inl rfl)
        · simp only [setW] at hw2
          rw [get_set_ne s.ws a b _ hab] at hw2
          rw [get_set_ne m.ws a b _ hab] at hm2
          exact h.ws b w2 mw2 hw2 hm2
  | quiesce B =>
    simp only [step] at hs
    split at hs <;> simp at hs
    rename_i hc
    subst hs
    refine ⟨m, ?_, h⟩
    simp only [monWrc, Ev.obs, model]
    rw [hc.2]
    rw [if_pos (quiesce_ok s m h hc.1)]

/-- **C10, `WaitRefCountContainer` (observable form).** Every observable trace of the model is
accepted by `monWrc`; in particular a call that is still pending at a quiescence point although its
context is alive has nothing to return: `target` is empty and `targetErr` is nil (or the harness
holds the lock of `target`) — an error that reached `targetErr` is never lost. -/
theorem wrc_obs (es : List Ev) (s : St) (h : model.run model.init es = some s) :
    monWrc.accepts (es.filterMap model.obs) = true :=
  monitor_accepts_of_simulation model monWrc R r_init
    (fun s e s' ms hR hs => by
      have h := sim_step s e s' ms hR hs
      generalize model.obs e = o at h ⊢
      cases o <;> exact h) es s h

end UtilModel.RefCount.Wrc

/-! ## transfer, and completeness of the candidate lists -/
namespace UtilModel
open RefCount.Wrc

/-- a history of the implementation that the driver accepts satisfies the monitor -/
theorem C10_accepted_wrc (cap fuel : Nat) (h : List RefCount.Wrc.Obs)
    (ha : RefCount.Wrc.model.acceptsH cap fuel h = true) : RefCount.Wrc.monWrc.accepts h = true :=
  acceptedH_satisfies RefCount.Wrc.model (fun h => RefCount.Wrc.monWrc.accepts h = true)
    RefCount.Wrc.wrc_obs cap fuel h ha

theorem RefCount.Wrc.cands_complete (s s' : St) (e : Ev) (hs : step s e = some s') (ho : e.obs = none) :
    e ∈ RefCount.Wrc.model.cands s := by
  show e ∈ RefCount.Wrc.cands s
  unfold RefCount.Wrc.cands
  cases e <;> simp [Ev.obs] at ho <;> simp only [step] at hs
  all_goals
    rename_i a
    cases hw : s.ws[a]? with
    | none => simp [hw] at hs
    | some w =>
      have hlt := lt_of_get s.ws a w hw
      simp only [List.mem_flatMap, List.mem_range]
      exact ⟨a, hlt, by simp⟩

theorem RefCount.Wrc.obs_evs (s : St) (e : Ev) (o : Obs) (h : e.obs = some o) : e ∈ evsOf s o := by
  cases e <;> simp [Ev.obs] at h <;> subst h <;> simp [evsOf]

theorem complete_wrc : RefCount.Wrc.model.Complete :=
  ⟨fun s e s' hs ho => RefCount.Wrc.cands_complete s s' e hs ho,
   fun s e _ o _ ho => RefCount.Wrc.obs_evs s e o ho⟩

/-- **A REJECT of the `refcount-wrc` correspondence is about the model.** -/
theorem reject_sound_wrc (cap fuel : Nat) (h : List RefCount.Wrc.Obs) (i : Nat)
    (hfail : (RefCount.Wrc.model.accRunH cap fuel [RefCount.Wrc.model.init] h 0 false 1).failedAt = some i)
    (htr : (RefCount.Wrc.model.accRunH cap fuel [RefCount.Wrc.model.init] h 0 false 1).truncated = false) :
    ¬ ∃ es s, RefCount.Wrc.model.run RefCount.Wrc.model.init es = some s ∧
      es.filterMap RefCount.Wrc.model.obs = h :=
  rejectH_sound RefCount.Wrc.model complete_wrc cap fuel h i hfail htr

end UtilModel
