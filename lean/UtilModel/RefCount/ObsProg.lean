import UtilModel.RefCount.ObsEv
import UtilModel.RefCount.ObsC09
import UtilModel.RefCount.Frame5
import UtilModel.RefCount.ObsNoPanic
/-!
# refcount: every observable trace of the model is accepted by `monProgress`
-/
set_option linter.unusedSimpArgs false
set_option linter.unusedVariables false
namespace UtilModel.RefCount
open UtilModel

/-! ## at a quiescence point with no call inside the resolver every resolver call has ended -/

theorem all_closed_of_quiescent (s : St) (hi : Inv s) (hq : quiescent s = true)
    (hnr : ∀ (i : Nat) (c : Call), s.calls[i]? = some c → c.ci.st ≠ .running) :
    ∀ (i : Nat) (c : Call), s.calls[i]? = some c → c.ci.st = .closed := by
  have hcalls : ∀ c ∈ s.calls, Call.quiet s c = true := by
    unfold quiescent at hq
    simp only [Bool.and_eq_true] at hq
    exact List.all_eq_true.mp hq.2
  intro i
  induction i using Nat.strongRecOn with
  | _ i ih =>
    intro c hc
    have hqc := hcalls c (List.mem_of_getElem? hc)
    have hpc : predClosed s c = true := by
      unfold predClosed
      cases hp : c.ci.pred with
      | none => rfl
      | some p =>
        have hlt := hi.core.chain.predLt i c.ci p (chain_get s i c hc) hp
        have hpl : p < s.calls.length := Nat.lt_trans hlt (lt_of_getElem? hc)
        have hx : s.calls[p]? = some s.calls[p] := List.getElem?_eq_getElem hpl
        simp only [hx]
        have := ih p hlt _ hx
        simp [this]
    cases hst : c.ci.st with
    | waiting => simp [Call.quiet, hst, hpc] at hqc
    | draining => simp [Call.quiet, hst, hpc] at hqc
    | running => exact absurd hst (hnr i c hc)
    | returned => simp [Call.quiet, hst] at hqc
    | closed => rfl

theorem progress_of_inv (s : St) (hi : Inv s)
    (hctx : s.ctx ≠ 0) (hlive : s.dead.contains s.ctx = false) (hrefs : 0 < liveRefs s) :
    Resolving s ∨ Delivered s := by
  have hdel : s.resolved = true → Delivered s := by
    intro hres
    have hcur : s.cur.isSome = true := by rw [← hi.core.resCur]; exact hres
    cases hcs : s.cur with
    | none => simp [hcs] at hcur
    | some j =>
      obtain ⟨c, hh, g1, g2, _, _, g5, _⟩ := hi.core.curSome j hcs
      exact ⟨hres, ⟨j, c, hh, hcs, g1, g2, g5⟩, hi.core.tgtVal, hi.core.tgtErr,
        fun a k pc f sf t ha hk => by rw [hi.core.told a k pc f sf t ha hk, hcs]⟩
  rcases hi.live.prog hctx hrefs with hres | ⟨i, c, hc, hn⟩
  · exact Or.inr (hdel hres)
  · obtain ⟨f1, f2, f3, f4, f5, f6⟩ := hi.live.fresh i c hc hn
    have hnc : c.ci.cancelled = false := by
      cases hcc : c.ci.cancelled
      · rfl
      · have := f4 hcc; rw [hlive] at this; cases this
    cases hfin : c.fin
    · left
      refine ⟨i, c, hc, hn, hfin, hnc, ?_⟩
      have hst := hi.core.finSt i c hc
      cases hs : c.ci.st with
      | waiting => exact Or.inl rfl
      | running => exact Or.inr (Or.inl rfl)
      | returned => exact Or.inr (Or.inr rfl)
      | draining => have := hi.core.drainC i c hc (Or.inl hs); rw [hnc] at this; cases this
      | closed => have := hst.2 hs; rw [hfin] at this; cases this
    · right
      cases hres : c.res with
      | none => have := hi.core.drainC i c hc (Or.inr ⟨hfin, hres⟩); rw [hnc] at this; cases this
      | some r =>
        have hcur := f6 hfin (by simp [hres])
        exact hdel (by rw [hi.core.resCur, hcur]; rfl)

/-- at a quiescence point with context set and live, a reference held and no resolver call running,
the latest result has been delivered -/
theorem delivered_of_quiescent (s : St) (hi : Inv s) (hq : quiescent s = true)
    (hnr : ∀ (i : Nat) (c : Call), s.calls[i]? = some c → c.ci.st ≠ .running)
    (hctx : s.ctx ≠ 0) (hlive : s.dead.contains s.ctx = false) (hrefs : 0 < liveRefs s) : Delivered s := by
  rcases progress_of_inv s hi hctx hlive hrefs with ⟨i, c, hc, _, hfin, _, _⟩ | h
  · have hcl := all_closed_of_quiescent s hi hq hnr i c hc
    have := (hi.core.finSt i c hc).2 hcl
    rw [hfin] at this; cases this
  · exact h

/-! ## kinds of the references, references whose `AddRef` returned -/

def KindsOk (s : St) (kd : List (Nat × Bool)) : Prop :=
  ∀ (a : Nat) (k : CbKind) (pc : Pc) (l f sf : Bool) (t : Option Nat), s.th[a]? = some (TS.ref k pc l f sf t) →
    k ≠ .hook → (kd.find? (·.1 == a)).map (·.2) = some (k == .rcd)

theorem kindsOk_step (s s' : St) (e : Ev) (kd kd' : List (Nat × Bool)) (h : KindsOk s kd) (hs : step s e = some s')
    (hk : (kd' = kd ∧ ∀ a k, e ≠ .invAddRef a k) ∨ ∃ a k, e = .invAddRef a k ∧ kd' = (a, k == .rcd) :: kd) :
    KindsOk s' kd' := by
  obtain ⟨f1, _⟩ := th_frame s s' e hs
  intro a k pc l f sf t ha hkh
  rcases f1 a _ ha with ⟨x, hx0, hst⟩ | ⟨hnone, hnw⟩
  · have hsame : (kd'.find? (·.1 == a)).map (·.2) = (kd.find? (·.1 == a)).map (·.2) := by
      rcases hk with ⟨rfl, _⟩ | ⟨a0, k0, he, rfl⟩
      · rfl
      · subst he
        have : a0 ≠ a := by
          intro e0; subst e0
          simp only [step] at hs; split at hs <;> simp at hs
          rename_i hg
          have := lt_of_getElem? hx0
          omega
        simp [List.find?_cons, this]
    rw [hsame]
    cases x with
    | rel r0 pc0 => simp [ThStep] at hst
    | ctx c0 cl0 pc0 u0 => simp [ThStep] at hst
    | ref k0 pc0 l0 f0 sf0 t0 =>
      obtain ⟨hkk, _⟩ := hst
      subst hkk
      exact h a k pc0 l0 f0 sf0 t0 hx0 hkh
  · rcases hnw with ⟨k0, he, hne, hx'⟩ | ⟨he, hx'⟩ | ⟨r0, _, hx'⟩ | ⟨c1, cl1, _, hx'⟩
    · cases hx'
      rcases hk with ⟨_, hno⟩ | ⟨a0, k1, he2, rfl⟩
      · exact absurd he (hno a k)
      · rw [he] at he2; cases he2
        simp [List.find?_cons]
    · cases hx'; exact absurd rfl hkh
    · cases hx'
    · cases hx'

def AddedConv (s : St) (ad : List (Nat × Bool)) : Prop :=
  ∀ (r : Nat) (b : Bool), (r, b) ∈ ad → ∃ (k : CbKind) (l f sf : Bool) (t : Option Nat),
    s.th[r]? = some (TS.ref k .retd l f sf t) ∧ b = (k == .rcd)

theorem retd_persist (s s' : St) (e : Ev) (hs : step s e = some s') (r : Nat) (k : CbKind)
    (l f sf : Bool) (t : Option Nat) (h : s.th[r]? = some (TS.ref k .retd l f sf t)) :
    ∃ l' f' sf' t', s'.th[r]? = some (TS.ref k .retd l' f' sf' t') := by
  obtain ⟨f1, f2⟩ := th_frame s s' e hs
  obtain ⟨x', hx'⟩ := f2 r _ h
  rcases f1 r x' hx' with ⟨x, hx, hst⟩ | ⟨hn, _⟩
  · rw [h] at hx; cases hx
    cases x' with
    | rel r0 pc0 => simp [ThStep] at hst
    | ctx c0 cl0 pc0 u0 => simp [ThStep] at hst
    | ref k0 pc0 l0 f0 sf0 t0 =>
      obtain ⟨hkk, hpc, _⟩ := hst
      subst hkk
      rcases hpc with hp | ⟨hp, _⟩ | ⟨hp, _⟩
      · subst hp; exact ⟨_, _, _, _, hx'⟩
      · cases hp
      · cases hp
  · rw [h] at hn; cases hn

theorem addedConv_step (s s' : St) (e : Ev) (ad ad' : List (Nat × Bool)) (h : AddedConv s ad)
    (hs : step s e = some s')
    (hsub : ∀ r b, (r, b) ∈ ad' → (r, b) ∈ ad ∨ (e = .retAddRef r ∧ ∀ k pc l f sf t,
      s.th[r]? = some (TS.ref k pc l f sf t) → b = (k == .rcd))) : AddedConv s' ad' := by
  intro r b hrb
  rcases hsub r b hrb with h0 | ⟨he, hb⟩
  · obtain ⟨k, l, f, sf, t, hth, hbk⟩ := h r b h0
    obtain ⟨l', f', sf', t', hth'⟩ := retd_persist s s' e hs r k l f sf t hth
    exact ⟨k, l', f', sf', t', hth', hbk⟩
  · subst he
    have hs0 := hs
    simp only [step] at hs0; split at hs0 <;> try simp at hs0
    rename_i k l f sf t ha
    obtain ⟨_, rfl⟩ := hs0
    exact ⟨k, l, f, sf, t, by simp [lt_of_getElem? ha], hb k _ l f sf t ha⟩

/-! ## the monitor's latest result -/

def LatVal (s : St) (lt : Option (Nat × Nat)) (ltk : Option Nat) : Prop :=
  ∀ k, ltk = some k → ∃ (v e i : Nat) (c : Call) (h : Bool),
    lt = some (v, e) ∧ s.calls[i]? = some c ∧ c.inv = some k ∧ c.res = some (v, h, e)

theorem latVal_other (s s' : St) (e : Ev) (lt : Option (Nat × Nat)) (ltk : Option Nat) (hi : Inv s) (hx : Idx s)
    (h : LatVal s lt ltk) (hs : step s e = some s') : LatVal s' lt ltk := by
  intro k hk
  obtain ⟨v, er, i, c, hh, hlt, hc, hck, hr⟩ := h k hk
  obtain ⟨c', hc', g1, g2⟩ := call_persist s s' e hi hx hs i c hc
  exact ⟨v, er, i, c', hh, hlt, hc', g1 k hck, by rw [g2 (by simp [hr]), hr]⟩

theorem latVal_leave (s s' : St) (j k v : Nat) (hh : Bool) (er : Nat)
    (hs : step s (.leave j k v hh er) = some s') : LatVal s' (some (v, er)) (some k) := by
  intro k' hk'; cases hk'
  simp only [step] at hs; split at hs <;> try simp at hs
  rename_i c hc
  obtain ⟨⟨_, hck, _⟩, rfl⟩ := hs
  exact ⟨v, er, j, { c with ci := { c.ci with st := .returned }, res := some (v, hh, er) }, hh, rfl,
    by simp [setCall, lt_of_getElem? hc], hck, rfl⟩

/-! ## notifications to recording references -/

theorem lastOf_cons_self (l : List (Nat × Bool × Nat × Nat)) (r : Nat) (x : Bool × Nat × Nat) :
    lastOf ((r, x) :: l) r = some x := by
  simp [lastOf, List.find?_cons]

theorem lastOf_filter_ne (l : List (Nat × Bool × Nat × Nat)) (r r0 : Nat) (hne : r0 ≠ r) :
    lastOf (l.filter (·.1 != r0)) r = lastOf l r := by
  induction l with
  | nil => rfl
  | cons y ys ih =>
    simp only [List.filter_cons]
    by_cases hy : y.1 = r0
    · have : (y.1 != r0) = false := by simp [hy]
      simp only [this]
      have hyr : (y.1 == r) = false := by rw [hy]; simpa using hne
      simp only [lastOf, List.find?_cons, hyr] at ih ⊢
      simpa using ih
    · have : (y.1 != r0) = true := by simpa using hy
      simp only [this, if_true]
      simp only [lastOf, List.find?_cons] at ih ⊢
      cases hyr : (y.1 == r)
      · simpa using ih
      · rfl

theorem lastOf_cons_filter_ne (l : List (Nat × Bool × Nat × Nat)) (r r0 : Nat) (x : Bool × Nat × Nat)
    (hne : r0 ≠ r) : lastOf ((r0, x) :: l.filter (·.1 != r0)) r = lastOf l r := by
  have h1 : lastOf ((r0, x) :: l.filter (·.1 != r0)) r = lastOf (l.filter (·.1 != r0)) r := by
    have : (r0 == r) = false := by simpa using hne
    simp [lastOf, List.find?_cons, this]
  rw [h1]; exact lastOf_filter_ne l r r0 hne

theorem mem_after_erase (b : List CbItem) (rest : List (List CbItem)) (it x : CbItem)
    (hx : x ∈ (b :: rest).flatten) (hne : x ≠ it) :
    x ∈ (if (b.erase it).isEmpty then rest else b.erase it :: rest).flatten := by
  simp only [List.flatten_cons, List.mem_append] at hx
  split
  · rename_i hemp
    rcases hx with hx | hx
    · have hm := (List.mem_erase_of_ne hne).mpr hx
      rw [List.isEmpty_iff] at hemp; rw [hemp] at hm; cases hm
    · exact hx
  · simp only [List.flatten_cons, List.mem_append]
    rcases hx with hx | hx
    · exact Or.inl ((List.mem_erase_of_ne hne).mpr hx)
    · exact Or.inr hx

/-- the stored value is that of the current call, so it does not change while the current call stays -/
theorem value_eq (s s' : St) (e : Ev) (hi : Inv s) (hi' : Inv s') (hx : Idx s) (hs : step s e = some s') (i : Nat)
    (hc : s.cur = some i) (hc' : s'.cur = some i) : s'.value = s.value ∧ s'.verr = s.verr := by
  obtain ⟨c, h, g1, _, _, _, g5, _⟩ := hi.core.curSome i hc
  obtain ⟨c', h', k1, _, _, _, k5, _⟩ := hi'.core.curSome i hc'
  obtain ⟨c'', hc'', _, g2⟩ := call_persist s s' e hi hx hs i c g1
  rw [k1] at hc''; cases hc''
  rw [g2 (by simp [g5]), g5] at k5
  simp at k5
  exact ⟨k5.1.symm, k5.2.2.symm⟩

/-- a live recording reference of `s'` that was given call `i` was live in `s`, unless its `AddRef`
section has just run -/
theorem rcd_back (s s' : St) (e : Ev) (hi : Inv s) (hs : step s e = some s') (r : Nat) (pc : Pc) (f sf : Bool)
    (t : Option Nat) (hth : s'.th[r]? = some (TS.ref .rcd pc true f sf t)) :
    (∃ pc0 f0 sf0, s.th[r]? = some (TS.ref .rcd pc0 true f0 sf0 s.cur)) ∨ e = .addRefCS r := by
  obtain ⟨f1, _⟩ := th_frame s s' e hs
  rcases f1 r _ hth with ⟨x, hx0, hst⟩ | ⟨_, hnw⟩
  · cases x with
    | rel r0 pc0 => simp [ThStep] at hst
    | ctx c0 cl0 pc0 u0 => simp [ThStep] at hst
    | ref k0 pc0 l0 f0 sf0 t0 =>
      obtain ⟨hkk, _, hl, _⟩ := hst
      subst hkk
      rcases hl with hl | ⟨_, _, he⟩ | ⟨_, hl, _⟩
      · subst hl
        have := hi.core.told r .rcd pc0 f0 sf0 t0 hx0 (by simp)
        subst this
        exact Or.inl ⟨pc0, f0, sf0, hx0⟩
      · exact Or.inr he
      · cases hl
  · rcases hnw with ⟨k0, _, _, hx'⟩ | ⟨_, hx'⟩ | ⟨r0, _, hx'⟩ | ⟨c1, cl1, _, hx'⟩ <;> cases hx'

def DelOk (s : St) : Prop :=
  ∀ (r : Nat) (res : Bool) (v e : Nat), CbItem.refcb r true res v e ∈ s.pend.flatten →
    ∀ (pc : Pc) (f sf : Bool) (i : Nat), s.th[r]? = some (TS.ref .rcd pc true f sf (some i)) →
      res = true ∧ v = s.value ∧ e = s.verr

theorem delOk_step (s s' : St) (e : Ev) (hi : Inv s) (hi' : Inv s') (hx : Idx s) (h : DelOk s)
    (hs : step s e = some s') : DelOk s' := by
  intro r res v er hmem pc f sf i hth
  have hcur' : s'.cur = some i := (hi'.core.told r .rcd pc f sf (some i) hth (by simp)).symm
  rcases items_frame s s' e hi hs _ hmem with hold | hnew
  · have hl : isLock e = false := by
      cases hl : isLock e
      · rfl
      · have := lock_free s s' e hs hl; rw [this] at hold; simp at hold
    have hcur : s.cur = some i := by rw [← (nonlock_frame s s' e hs hl).2.1]; exact hcur'
    rcases rcd_back s s' e hi hs r pc f sf _ hth with ⟨pc0, f0, sf0, hth0⟩ | he
    · rw [hcur] at hth0
      obtain ⟨g1, g2, g3⟩ := h r res v er hold pc0 f0 sf0 i hth0
      obtain ⟨v1, v2⟩ := value_eq s s' e hi hi' hx hs i hcur hcur'
      exact ⟨g1, by rw [v1]; exact g2, by rw [v2]; exact g3⟩
    · subst he; simp [isLock] at hl
  · cases res with
    | true =>
      obtain ⟨k, pc1, f1, sf1, t1, i1, _, _, _, _, hv, he⟩ := newItem_deliver s s' r true v er hnew
      exact ⟨rfl, hv, he⟩
    | false =>
      obtain ⟨k, pc1, f1, sf1, t1, _, _, _, hcn, _⟩ := newItem_gone s s' r true v er hnew
      rw [hcn] at hcur'; cases hcur'

def LastOk (s : St) (last : List (Nat × Bool × Nat × Nat)) : Prop :=
  ∀ (r : Nat) (pc : Pc) (f sf : Bool) (i : Nat), s.th[r]? = some (TS.ref .rcd pc true f sf (some i)) →
    (∀ res v e, CbItem.refcb r true res v e ∉ s.pend.flatten) → lastOf last r = some (true, s.value, s.verr)

theorem lastOk_step (s s' : St) (e : Ev) (last last' : List (Nat × Bool × Nat × Nat))
    (hi : Inv s) (hi' : Inv s') (hx : Idx s) (hd : DelOk s) (h : LastOk s last) (hs : step s e = some s')
    (hk : (last' = last ∧ ∀ r res v er, e ≠ .cb (.refcb r true res v er)) ∨
      ∃ r0 res0 v0 e0, e = .cb (.refcb r0 true res0 v0 e0) ∧ last' = (r0, res0, v0, e0) :: last.filter (·.1 != r0)) :
    LastOk s' last' := by
  intro r pc f sf i hth hno
  have hcur' : s'.cur = some i := (hi'.core.told r .rcd pc f sf (some i) hth (by simp)).symm
  by_cases hl : isLock e = false
  · have hcur : s.cur = some i := by rw [← (nonlock_frame s s' e hs hl).2.1]; exact hcur'
    rcases rcd_back s s' e hi hs r pc f sf _ hth with ⟨pc0, f0, sf0, hth0⟩ | he
    case inr => subst he; simp [isLock] at hl
    rw [hcur] at hth0
    obtain ⟨v1, v2⟩ := value_eq s s' e hi hi' hx hs i hcur hcur'
    rcases hk with ⟨rfl, hncb⟩ | ⟨r0, res0, v0, e0, he, rfl⟩
    · have hno0 : ∀ res v er, CbItem.refcb r true res v er ∉ s.pend.flatten := by
        intro res v er hin
        rcases pend_nonlock s s' e hs hl with hp | ⟨it, b, rest, he, hpe, hit, hp'⟩
        · exact hno res v er (by rw [hp]; exact hin)
        · apply hno res v er
          rw [hp']
          refine mem_after_erase b rest it _ (by rw [← hpe]; exact hin) ?_
          intro e0; subst e0; exact hncb r res v er he
      rw [v1, v2]; exact h r pc0 f0 sf0 i hth0 hno0
    · subst he
      have hs0 := hs
      simp only [step] at hs0; split at hs0 <;> try simp at hs0
      rename_i b rest hpe
      obtain ⟨hit, _⟩ := hs0
      have hmem : CbItem.refcb r0 true res0 v0 e0 ∈ s.pend.flatten := by rw [hpe]; simp; exact Or.inl hit
      have hkeep : ∀ x, x ∈ s.pend.flatten → x ≠ CbItem.refcb r0 true res0 v0 e0 → x ∈ s'.pend.flatten := by
        intro x hxin hxne
        rcases pend_nonlock s s' _ hs hl with hp | ⟨it, b2, rest2, he, hpe2, hit2, hp'⟩
        · rw [hp]; exact hxin
        · cases he
          rw [hp']
          exact mem_after_erase b2 rest2 _ x (by rw [← hpe2]; exact hxin) hxne
      by_cases hr : r0 = r
      · subst hr
        obtain ⟨g1, g2, g3⟩ := hd r0 res0 v0 e0 hmem pc0 f0 sf0 i hth0
        rw [lastOf_cons_self, g1, g2, g3, v1, v2]
      · rw [lastOf_cons_filter_ne _ _ _ _ hr, v1, v2]
        have hno0 : ∀ res v er, CbItem.refcb r true res v er ∉ s.pend.flatten := by
          intro res v er hin
          apply hno res v er
          refine hkeep _ hin ?_
          intro e1; simp at e1; exact hr e1.1.symm
        exact h r pc0 f0 sf0 i hth0 hno0
  · have hl' : isLock e = true := by simpa using hl
    have hpe := lock_free s s' e hs hl'
    have hlast : last' = last := by
      rcases hk with ⟨h0, _⟩ | ⟨r0, res0, v0, e0, he, _⟩
      · exact h0
      · subst he; simp [isLock] at hl'
    subst hlast
    by_cases hsc : s.cur = some i
    · obtain ⟨v1, v2⟩ := value_eq s s' e hi hi' hx hs i hsc hcur'
      rcases rcd_back s s' e hi hs r pc f sf _ hth with ⟨pc0, f0, sf0, hth0⟩ | he
      · rw [hsc] at hth0
        rw [v1, v2]
        exact h r pc0 f0 sf0 i hth0 (by intro res v er hin; rw [hpe] at hin; simp at hin)
      · -- the `AddRef` section of `r` itself: the stored value is delivered to it at once
        exfalso
        subst he
        have hres : s.resolved = true := by rw [hi.core.resCur, hsc]; rfl
        have hs0 := hs
        simp only [step] at hs0; split at hs0 <;> try simp at hs0
        rename_i k ha
        obtain ⟨_, hs0⟩ := hs0
        split at hs0
        · rename_i hc; simp [hres] at hc
        · split at hs0
          · simp at hs0; subst hs0
            have hlt := lt_of_getElem? ha
            simp [hlt] at hth
            obtain ⟨rfl, _⟩ := hth
            exact hno true s.value s.verr (by simp [hpe, addBatch])
          · rename_i hc
            simp at hs0; subst hs0
            have hlt := lt_of_getElem? ha
            simp [hlt] at hth
    · rcases cur_frame s s' e hs i hcur' with h0 | ⟨he, _⟩
      · exact absurd h0 hsc
      · exfalso
        subst he
        have hs0 := hs
        simp only [step] at hs0; split at hs0 <;> try simp at hs0
        rename_i c hc
        split at hs0 <;> try simp at hs0
        rename_i val hasRel err hres
        obtain ⟨_, hs0⟩ := hs0
        split at hs0
        · simp at hs0; subst hs0
          have hin := mem_cbItems_of_tellAll s.th (some i) r .rcd pc f sf (some i) true val err hth (by simp)
          exact hno true val err (by
            show _ ∈ (addBatch s.pend _).flatten
            rw [hpe]
            have hne : (cbItems s.th true val err).isEmpty = false := by
              cases hemp : (cbItems s.th true val err).isEmpty
              · rfl
              · rw [List.isEmpty_iff] at hemp; rw [hemp] at hin; cases hin
            simp [addBatch, hne]; exact hin)
        · split at hs0 <;> simp at hs0 <;> subst hs0 <;> exact hsc hcur'

/-! ## the simulation -/

def WRel (wr rs mo : List Nat) : Prop := ∀ k ∈ wr, k ∈ rs ∨ k ∈ mo

def TgtOk (s : St) (t tE : Bool) : Prop := s.cfgd = true → t = s.tgt ∧ tE = s.tgtE

theorem tgtOk_step (s s' : St) (e : Ev) (t tE t' tE' : Bool) (h : TgtOk s t tE) (hs : step s e = some s')
    (hk : (∃ k c t0, e = .cfg k c t0 ∧ t' = cfgTgt t0 ∧ tE' = cfgTgtE t0) ∨
      ((∀ k c t0, e ≠ .cfg k c t0) ∧ t' = t ∧ tE' = tE)) : TgtOk s' t' tE' := by
  obtain ⟨_, _, m3, m4⟩ := misc_frame s s' e hs
  intro hc
  rcases hk with ⟨k, c, t0, he, rfl, rfl⟩ | ⟨hne, rfl, rfl⟩
  · exact ⟨(m4 k c t0 he).1.symm, (m4 k c t0 he).2.symm⟩
  · rw [(m3 hne).1, (m3 hne).2]
    rcases cfg_frame s s' e hs with ⟨k, c, t0, he, _⟩ | ⟨g1, _⟩
    · exact absurd he (hne k c t0)
    · exact h (by rw [← g1]; exact hc)

theorem c09_other (s s' : St) (e : Ev) (mr : Option Nat) (hR : RelC09 s mr) (hs : step s e = some s')
    (h1 : ∀ j k, e ≠ .enter j k) (h2 : ∀ j k v hh er, e ≠ .leave j k v hh er) : RelC09 s' mr := by
  have h := c09_sim_step s e s' mr hR hs
  cases e with
  | enter j k => exact absurd rfl (h1 j k)
  | leave j k v hh er => exact absurd rfl (h2 j k v hh er)
  | cb it =>
    cases it with
    | rel i k seen => obtain ⟨m', hm', hR'⟩ := h; cases hm'; exact hR'
    | refcb r vis res v er =>
      cases vis with
      | false => exact h
      | true => obtain ⟨m', hm', hR'⟩ := h; cases hm'; exact hR'
  | cfg kp c t => obtain ⟨m', hm', hR'⟩ := h; cases hm'; exact hR'
  | invAddRef a kd => obtain ⟨m', hm', hR'⟩ := h; cases hm'; exact hR'
  | addRefCS a => exact h
  | retAddRef a => obtain ⟨m', hm', hR'⟩ := h; cases hm'; exact hR'
  | invRelease b r => obtain ⟨m', hm', hR'⟩ := h; cases hm'; exact hR'
  | relSwap b => exact h
  | relCS b => exact h
  | retRelease b => obtain ⟨m', hm', hR'⟩ := h; cases hm'; exact hR'
  | invSetCtx a c cl => obtain ⟨m', hm', hR'⟩ := h; cases hm'; exact hR'
  | setCtxCS a => exact h
  | retSetCtx a u => obtain ⟨m', hm', hR'⟩ := h; cases hm'; exact hR'
  | envCancelCtx c => obtain ⟨m', hm', hR'⟩ := h; cases hm'; exact hR'
  | envReleased k => obtain ⟨m', hm', hR'⟩ := h; cases hm'; exact hR'
  | relRun r => exact h
  | giveUp i => exact h
  | drained i => exact h
  | store i => exact h
  | done i => exact h
  | invHook a => obtain ⟨m', hm', hR'⟩ := h; cases hm'; exact hR'
  | selfRelSwap a => exact h
  | selfRelCS a => exact h
  | probe v er => obtain ⟨m', hm', hR'⟩ := h; cases hm'; exact hR'
  | quiesce B => obtain ⟨m', hm', hR'⟩ := h; cases hm'; exact hR'

def RelProg (s : St) (m : ProgSt) : Prop :=
  Inv s ∧ Idx s ∧ ThInv s.th ∧ RelTh s.th ∧ RunInvOk s ∧ DelOk s ∧
  (∃ mo, RelOnce s mo ∧ WRel m.withRel m.relSeen mo) ∧
  InvalOk s m.released ∧ CtxVal s m.ctx ∧ CtxOk s m.ctxCalls ∧ m.dead = s.dead ∧ TgtOk s m.tgt m.tgtE ∧
  KindsOk s m.kinds ∧ AddedConv s m.added ∧ RelInvOk s m.relInv ∧ RelC09 s m.running ∧
  LatestOk s m.latestK ∧ LatVal s m.latest m.latestK ∧ LastOk s m.last

theorem liveRefs_of (s : St) (r : Nat) (k : CbKind) (pc : Pc) (f sf : Bool) (t : Option Nat)
    (h : s.th[r]? = some (TS.ref k pc true f sf t)) : 0 < liveRefs s := by
  unfold liveRefs
  rw [List.countP_pos_iff]
  exact ⟨_, List.mem_of_getElem? h, by simp [TS.isLive]⟩

/-- what holds at a quiescence point where the progress obligation is in force -/
theorem prog_active_facts (s : St) (m : ProgSt) (hR : RelProg s m) (hq : quiescent s = true)
    (hact : progActive m = true) :
    ∃ v e k, m.latest = some (v, e) ∧ m.latestK = some k ∧ v = s.value ∧ e = s.verr ∧ Delivered s ∧
      m.released.contains k = false ∧ (s.cfgd = true) ∧ (m.tgt = s.tgt ∧ m.tgtE = s.tgtE) ∧
      (∀ p ∈ m.added.filter (fun p => !m.relInv.contains p.1), p.2 = true →
        lastOf m.last p.1 = some (true, v, e)) := by
  obtain ⟨hi, hx, ht, hrt, hrun, hdel, _, hinval, hctx, _, hdead, htgt, _, hadd, hrel, hc09, hlat, hlv, hlast⟩ := hR
  obtain ⟨hpe, hrr, _⟩ := quiescent_settled s hi hq
  have hcfgd : s.cfgd = true := by
    unfold quiescent at hq; simp only [Bool.and_eq_true] at hq; exact hq.1.1.1.1
  unfold progActive at hact
  simp only [Bool.and_eq_true] at hact
  obtain ⟨⟨hlive, hheld⟩, hnone⟩ := hact
  -- the context
  have hctx2 : s.ctx ≠ 0 ∧ s.dead.contains s.ctx = false := by
    cases hmc : m.ctx with
    | none => simp [hmc] at hlive
    | some c =>
      simp [hmc] at hlive
      have hsc : s.ctx = c := by
        rcases (hctx c hmc).1 with h0 | ⟨a, cl, u, ha⟩
        · exact h0
        · have := quiet_of_quiescent s hq a _ ha; simp [TS.quiet] at this
      rw [hsc, ← hdead]
      exact ⟨hlive.1, by simpa using hlive.2⟩
  -- a held reference is live
  have live_of : ∀ p ∈ m.added.filter (fun p => !m.relInv.contains p.1),
      ∃ kd f sf t, s.th[p.1]? = some (TS.ref kd .retd true f sf t) ∧ p.2 = (kd == .rcd) := by
    intro p hp
    simp only [List.mem_filter] at hp
    obtain ⟨hpa, hpr⟩ := hp
    obtain ⟨kd, l, f, sf, t, hth, hb⟩ := hadd p.1 p.2 hpa
    have hl : l = true := by
      cases l
      · exfalso
        have hkh : kd ≠ .hook := by intro e0; subst e0; exact hrt.hook p.1 _ _ _ _ _ hth rfl
        have := hrel.2 p.1 kd .retd f sf t hth (by simp) hkh
        simp at hpr; exact hpr this
      · rfl
    subst hl
    exact ⟨kd, f, sf, t, hth, hb⟩
  have hrefs : 0 < liveRefs s := by
    cases hl : m.added.filter (fun p => !m.relInv.contains p.1) with
    | nil => rw [hl] at hheld; simp at hheld
    | cons p ps =>
      obtain ⟨kd, f, sf, t, hth, _⟩ := live_of p (by rw [hl]; exact List.mem_cons_self)
      exact liveRefs_of s p.1 kd .retd f sf t hth
  -- no call is inside the resolver
  have hnr : ∀ (i : Nat) (c : Call), s.calls[i]? = some c → c.ci.st ≠ .running := by
    intro i c hc hst
    have hinv := hrun i c hc hst
    obtain ⟨k, hk⟩ := Option.isSome_iff_exists.mp hinv
    have := hc09.2.1 i k ⟨c, hc, hst, hk⟩
    rw [this] at hnone; simp at hnone
  have hD := delivered_of_quiescent s hi hq hnr hctx2.1 hctx2.2 hrefs
  obtain ⟨hres, ⟨i, c, hh, hcur, hc, hn, hcres⟩, _, _, htold⟩ := hD
  have hlk := hlat.2 i c hcur hc
  have hinv := hx.res i c hc (by rw [hcres]; rfl)
  obtain ⟨k, hk⟩ := Option.isSome_iff_exists.mp hinv
  rw [hk] at hlk
  obtain ⟨v, e, i', c', h', hml, hc', hck', hr'⟩ := hlv k hlk
  have : i' = i := hx.inj i' i c' c k hc' hc hck' hk
  subst this
  rw [hc] at hc'; cases hc'
  rw [hcres] at hr'; simp at hr'
  obtain ⟨rfl, _, rfl⟩ := hr'
  refine ⟨s.value, s.verr, k, hml, hlk, rfl, rfl, ⟨hres, ⟨i', c, hh, hcur, hc, hn, hcres⟩, hi.core.tgtVal, hi.core.tgtErr, htold⟩,
    ?_, hcfgd, htgt hcfgd, ?_⟩
  · cases hcon : m.released.contains k
    · rfl
    · exfalso
      have hmem : k ∈ m.released := by simpa using hcon
      rcases (hinval k hmem).2 i' c hc hk with h1 | h1
      · rw [hrr] at h1; cases h1
      · omega
  · intro p hp hb
    obtain ⟨kd, f, sf, t, hth, hbk⟩ := live_of p hp
    have hkd : kd = .rcd := by rw [hb] at hbk; simpa using hbk.symm
    subst hkd
    have ht0 := htold p.1 .rcd .retd f sf t hth (by simp)
    rw [hcur] at ht0; subst ht0
    exact hlast p.1 .retd f sf i' hth (by intro res v er hin; rw [hpe] at hin; simp at hin)

theorem prog_quiesce_ok (s : St) (m : ProgSt) (B : List Nat) (hR : RelProg s m) (hq : quiescent s = true) :
    monProgress.step m (.quiesce B) = some m := by
  have hR0 := hR
  obtain ⟨hi, hx, _, _, _, _, ⟨mo, hRO, hwr⟩, hinval, _⟩ := hR
  obtain ⟨hpe, hrr, hfin⟩ := quiescent_settled s hi hq
  have hq1 : (m.released.any (fun k => m.withRel.contains k && !m.relSeen.contains k)) = false := by
    cases hany : m.released.any (fun k => m.withRel.contains k && !m.relSeen.contains k)
    · rfl
    · exfalso
      rw [List.any_eq_true] at hany
      obtain ⟨k, hkr, hk2⟩ := hany
      simp only [Bool.and_eq_true] at hk2
      have hkw : k ∈ m.withRel := by simpa using hk2.1
      have hks : k ∉ m.relSeen := by simpa using hk2.2
      rcases hwr k hkw with h0 | h0
      · exact hks h0
      · obtain ⟨i, c, v, e0, hc, hck, hres, hacc⟩ := (hRO.2.2.2.2.2 k).1 h0
        rw [hpe] at hacc
        have hnr : c.released = false := by
          cases hr : c.released
          · rfl
          · simp [relItems, released, hc, hr, b2n] at hacc
        have hf := hfin i c hc (by simp [hres])
        have hrel := hi.core.noLeak i c v e0 hc hf hres hnr
        obtain ⟨c3, g1, _, _, _, hcur⟩ := rel_is_cur s hi.core i hrel
        obtain ⟨c4, hh, k1, k2, _⟩ := hi.core.curSome i hcur
        rw [hc] at k1; cases k1
        rcases (hinval k hkr).2 i c hc hck with h1 | h1
        · rw [hrr] at h1; cases h1
        · omega
  simp only [monProgress, hq1, Bool.false_eq_true, if_false]
  by_cases hact : progActive m = true
  · obtain ⟨v, e, k, hml, hlk, _, _, _, hnrel, _, _, hrefs⟩ := prog_active_facts s m hR0 hq hact
    have hall : ((m.added.filter (fun p => !m.relInv.contains p.1)).all
        fun p => !p.2 || lastOf m.last p.1 == some (true, v, e)) = true := by
      rw [List.all_eq_true]
      intro p hp
      cases hb : p.2
      · rfl
      · have := hrefs p hp hb
        simp [this]
    have hcond : (((m.added.filter (fun p => !m.relInv.contains p.1)).all
        fun p => !p.2 || lastOf m.last p.1 == some (true, v, e)) && !m.released.contains k) = true := by
      rw [hall, hnrel]; rfl
    rw [if_pos hact, hml, hlk]
    exact if_pos hcond
  · rw [if_neg hact]

theorem prog_probe_ok (s : St) (m : ProgSt) (pv pe : Nat) (hR : RelProg s m) (hq : quiescent s = true)
    (hv : pv = s.target) (he : pe = s.targetErr) : monProgress.step m (.probe pv pe) = some m := by
  simp only [monProgress]
  by_cases hact : progActive m = true
  · obtain ⟨v, e, k, hml, hlk, hv', he', hD, _, _, htg, _⟩ := prog_active_facts s m hR hq hact
    obtain ⟨_, _, h3, h4, _⟩ := hD
    subst hv'; subst he'
    rw [if_pos hact, hml]
    simp only
    have : ((!m.tgt || pv == (if s.verr = 0 then s.value else 0)) && (!m.tgtE || pe == s.verr)) = true := by
      rw [htg.1, htg.2, hv, he, h3, h4]
      cases htt : s.tgt <;> cases hte : s.tgtE <;> by_cases hz : s.verr = 0 <;> simp [hz]
    rw [if_pos this]
  · rw [if_neg hact]

theorem prog_sim_step (s : St) (e : Ev) (s' : St) (m : ProgSt) (hR : RelProg s m) (hs : step s e = some s') :
    match Ev.obs e with
    | none => RelProg s' m
    | some o => ∃ m', monProgress.step m o = some m' ∧ RelProg s' m' := by
  have hR0 := hR
  obtain ⟨hi, hx, ht, hrt, hrun, hdel, ⟨mo, hRO, hwr⟩, hinval, hctx, hcc, hdead, htgt, hkinds, hadd, hrel, hc09,
    hlat, hlv, hlast⟩ := hR
  have hi' := step_inv s e s' hi hs
  have hx' := idx_step s s' e hx hs
  have ht' := step_thinv s s' e ht hs
  have hrt' := step_relTh s s' e ht hrt hs
  have hrun' := runInvOk_step s s' e hrun hs
  have hdel' := delOk_step s s' e hi hi' hx hdel hs
  obtain ⟨md1, md2, _, _⟩ := misc_frame s s' e hs
  have c_once : (∀ j k v er, e ≠ .leave j k v true er) → (∀ i k seen, e ≠ .cb (.rel i k seen)) →
      ∃ mo', RelOnce s' mo' ∧ WRel m.withRel m.relSeen mo' :=
    fun h1 h2 => ⟨mo, once_other s s' e mo hRO hs h1 h2, hwr⟩
  have c_inval : InvalOk s' m.released := invalOk_step s s' e _ _ hi hx hinval hs (fun _ h => Or.inl h)
  have c_ctx : (∀ k c t, e ≠ .cfg k c t) → (∀ a c cl, e ≠ .invSetCtx a c cl) → CtxVal s' m.ctx :=
    fun h1 h2 => ctxVal_other s s' e _ hctx hs h1 h2
  have c_cc : (∀ a c cl, e ≠ .invSetCtx a c cl) → CtxOk s' m.ctxCalls :=
    fun h1 => ctxOk_step s s' e _ _ hcc hs (fun _ h _ => h) (fun a c cl he => absurd he (h1 a c cl))
  have c_dead : (∀ c, e ≠ .envCancelCtx c) → m.dead = s'.dead := fun h1 => by rw [md1 h1]; exact hdead
  have c_tgt : (∀ k c t, e ≠ .cfg k c t) → TgtOk s' m.tgt m.tgtE :=
    fun h1 => tgtOk_step s s' e _ _ _ _ htgt hs (Or.inr ⟨h1, rfl, rfl⟩)
  have c_kinds : (∀ a k, e ≠ .invAddRef a k) → KindsOk s' m.kinds :=
    fun h1 => kindsOk_step s s' e _ _ hkinds hs (Or.inl ⟨rfl, h1⟩)
  have c_add : AddedConv s' m.added := addedConv_step s s' e _ _ hadd hs (fun _ _ h => Or.inl h)
  have c_rel : (∀ b r, e ≠ .invRelease b r) → RelInvOk s' m.relInv :=
    fun h1 => relInvOk_step s s' e _ _ hrel hs (fun _ h => h) (fun b r he => absurd he (h1 b r))
  have c_c09 : (∀ j k, e ≠ .enter j k) → (∀ j k v hh er, e ≠ .leave j k v hh er) → RelC09 s' m.running :=
    fun h1 h2 => c09_other s s' e _ hc09 hs h1 h2
  have c_lat : (∀ j k v hh er, e ≠ .leave j k v hh er) → LatestOk s' m.latestK :=
    fun h1 => latest_other s s' e hi _ hlat hs h1
  have c_lv : LatVal s' m.latest m.latestK := latVal_other s s' e _ _ hi hx hlv hs
  have c_last : (∀ r res v er, e ≠ .cb (.refcb r true res v er)) → LastOk s' m.last :=
    fun h1 => lastOk_step s s' e _ _ hi hi' hx hdel hlast hs (Or.inl ⟨rfl, h1⟩)
  have same : (∀ j k v hh er, e ≠ .leave j k v hh er) → (∀ i k seen, e ≠ .cb (.rel i k seen)) →
      (∀ a c cl, e ≠ .invSetCtx a c cl) → (∀ k c t, e ≠ .cfg k c t) → (∀ c, e ≠ .envCancelCtx c) →
      (∀ a k, e ≠ .invAddRef a k) → (∀ b r, e ≠ .invRelease b r) → (∀ j k, e ≠ .enter j k) →
      (∀ r res v er, e ≠ .cb (.refcb r true res v er)) → RelProg s' m := by
    intro n1 n2 n3 n4 n5 n6 n7 n8 n9
    exact ⟨hi', hx', ht', hrt', hrun', hdel', c_once (fun j k v er => n1 j k v true er) n2, c_inval, c_ctx n4 n3,
      c_cc n3, c_dead n5, c_tgt n4, c_kinds n6, c_add, c_rel n7, c_c09 n8 n1, c_lat n1, c_lv, c_last n9⟩
  cases e with
  | leave j k v hh er =>
    refine ⟨{ m with running := none, latest := some (v, er), latestK := some k
                     withRel := if hh then k :: m.withRel else m.withRel }, by simp [Ev.obs, monProgress], ?_⟩
    have h1 := once_sim_step s _ s' mo hRO hs
    have h2 := c09_sim_step s _ s' m.running hc09 hs
    refine ⟨hi', hx', ht', hrt', hrun', hdel', ?_, c_inval, c_ctx (by simp) (by simp), c_cc (by simp),
      c_dead (by simp), c_tgt (by simp), c_kinds (by simp), c_add, c_rel (by simp), ?_,
      latest_leave s s' hi m.latestK j k v hh er hs, latVal_leave s s' j k v hh er hs, c_last (by simp)⟩
    · cases hh with
      | false =>
        obtain ⟨m', hm', hR'⟩ := h1; cases hm'
        exact ⟨mo, hR', hwr⟩
      | true =>
        obtain ⟨m', hm', hR'⟩ := h1; cases hm'
        refine ⟨k :: mo, hR', ?_⟩
        intro k' hk'
        simp only [if_true, List.mem_cons] at hk'
        rcases hk' with rfl | hk'
        · exact Or.inr List.mem_cons_self
        · rcases hwr k' hk' with h0 | h0
          · exact Or.inl h0
          · exact Or.inr (List.mem_cons_of_mem _ h0)
    · obtain ⟨m', hm', hR'⟩ := h2
      have hm2 : (if m.running = some k then some none else none) = some m' := hm'
      split at hm2 <;> cases hm2
      exact hR'
  | enter j k =>
    refine ⟨{ m with running := some k }, by simp [Ev.obs, monProgress], ?_⟩
    have h2 := c09_sim_step s _ s' m.running hc09 hs
    obtain ⟨m', hm', hR'⟩ := h2
    have hm2 : (if m.running.isNone then some (some k) else none) = some m' := hm'
    split at hm2 <;> cases hm2
    exact ⟨hi', hx', ht', hrt', hrun', hdel', c_once (by simp) (by simp), c_inval, c_ctx (by simp) (by simp),
      c_cc (by simp), c_dead (by simp), c_tgt (by simp), c_kinds (by simp), c_add, c_rel (by simp), hR',
      c_lat (by simp), c_lv, c_last (by simp)⟩
  | cb it =>
    cases it with
    | rel i k seen =>
      refine ⟨{ m with relSeen := k :: m.relSeen }, by simp [Ev.obs, monProgress], ?_⟩
      have h1 := once_sim_step s _ s' mo hRO hs
      obtain ⟨m', hm', hR'⟩ := h1
      have hm2 : (if mo.contains k then some (mo.erase k) else none) = some m' := hm'
      split at hm2 <;> try cases hm2
      refine ⟨hi', hx', ht', hrt', hrun', hdel', ⟨mo.erase k, hR', ?_⟩, c_inval, c_ctx (by simp) (by simp),
        c_cc (by simp), c_dead (by simp), c_tgt (by simp), c_kinds (by simp), c_add, c_rel (by simp),
        c_c09 (by simp) (by simp), c_lat (by simp), c_lv, c_last (by simp)⟩
      intro k' hk'
      by_cases hkk : k' = k
      · subst hkk; exact Or.inl List.mem_cons_self
      · rcases hwr k' hk' with h0 | h0
        · exact Or.inl (List.mem_cons_of_mem _ h0)
        · exact Or.inr ((List.mem_erase_of_ne hkk).mpr h0)
    | refcb r vis res v er =>
      cases vis with
      | false => exact same (by simp) (by simp) (by simp) (by simp) (by simp) (by simp) (by simp) (by simp) (by simp)
      | true =>
        refine ⟨{ m with last := (r, res, v, er) :: m.last.filter (·.1 != r) }, by simp [Ev.obs, monProgress], ?_⟩
        exact ⟨hi', hx', ht', hrt', hrun', hdel', c_once (by simp) (by simp), c_inval, c_ctx (by simp) (by simp),
          c_cc (by simp), c_dead (by simp), c_tgt (by simp), c_kinds (by simp), c_add, c_rel (by simp),
          c_c09 (by simp) (by simp), c_lat (by simp), c_lv,
          lastOk_step s s' _ _ _ hi hi' hx hdel hlast hs (Or.inr ⟨r, res, v, er, rfl, rfl⟩)⟩
  | cfg kp c t =>
    refine ⟨{ m with ctx := some c, tgt := cfgTgt t, tgtE := cfgTgtE t }, by simp [Ev.obs, monProgress], ?_⟩
    exact ⟨hi', hx', ht', hrt', hrun', hdel', c_once (by simp) (by simp), c_inval, ctxVal_cfg s s' hi kp c t hs,
      c_cc (by simp), c_dead (by simp), tgtOk_step s s' _ _ _ _ _ htgt hs (Or.inl ⟨kp, c, t, rfl, rfl, rfl⟩),
      c_kinds (by simp), c_add, c_rel (by simp), c_c09 (by simp) (by simp), c_lat (by simp), c_lv, c_last (by simp)⟩
  | invAddRef a kd =>
    refine ⟨{ m with kinds := (a, kd == .rcd) :: m.kinds }, by simp [Ev.obs, monProgress], ?_⟩
    exact ⟨hi', hx', ht', hrt', hrun', hdel', c_once (by simp) (by simp), c_inval, c_ctx (by simp) (by simp),
      c_cc (by simp), c_dead (by simp), c_tgt (by simp),
      kindsOk_step s s' _ _ _ hkinds hs (Or.inr ⟨a, kd, rfl, rfl⟩), c_add, c_rel (by simp),
      c_c09 (by simp) (by simp), c_lat (by simp), c_lv, c_last (by simp)⟩
  | retAddRef a =>
    refine ⟨{ m with added := (a, (m.kinds.find? (·.1 == a)).map (·.2) == some true) :: m.added },
      by simp [Ev.obs, monProgress], ?_⟩
    refine ⟨hi', hx', ht', hrt', hrun', hdel', c_once (by simp) (by simp), c_inval, c_ctx (by simp) (by simp),
      c_cc (by simp), c_dead (by simp), c_tgt (by simp), c_kinds (by simp), ?_, c_rel (by simp),
      c_c09 (by simp) (by simp), c_lat (by simp), c_lv, c_last (by simp)⟩
    refine addedConv_step s s' _ _ _ hadd hs ?_
    intro r b hrb
    simp only [List.mem_cons] at hrb
    rcases hrb with hrb | hrb
    · cases hrb
      right
      refine ⟨rfl, ?_⟩
      intro k pc l f sf t hth
      have hs0 := hs
      simp only [step] at hs0; split at hs0 <;> try simp at hs0
      rename_i k0 l0 f0 sf0 t0 ha
      rw [ha] at hth; cases hth
      rw [hkinds a k _ l f sf t ha hs0.1.1]
      cases k <;> simp
    · exact Or.inl hrb
  | invRelease b r =>
    refine ⟨{ m with relInv := r :: m.relInv }, by simp [Ev.obs, monProgress], ?_⟩
    exact ⟨hi', hx', ht', hrt', hrun', hdel', c_once (by simp) (by simp), c_inval, c_ctx (by simp) (by simp),
      c_cc (by simp), c_dead (by simp), c_tgt (by simp), c_kinds (by simp), c_add,
      relInvOk_step s s' _ _ _ hrel hs (fun _ h => List.mem_cons_of_mem _ h)
        (by intro b' r' he; cases he; exact List.mem_cons_self),
      c_c09 (by simp) (by simp), c_lat (by simp), c_lv, c_last (by simp)⟩
  | invSetCtx a c cl =>
    refine ⟨{ m with ctx := if m.ctxCalls.isEmpty then some c else none, ctxCalls := a :: m.ctxCalls },
      by simp [Ev.obs, monProgress], ?_⟩
    exact ⟨hi', hx', ht', hrt', hrun', hdel', c_once (by simp) (by simp), c_inval, ctxVal_inv s s' _ hcc a c cl hs,
      ctxOk_step s s' _ _ _ hcc hs (fun _ h _ => List.mem_cons_of_mem _ h)
        (by intro a' c' cl' he; cases he; exact List.mem_cons_self),
      c_dead (by simp), c_tgt (by simp), c_kinds (by simp), c_add, c_rel (by simp),
      c_c09 (by simp) (by simp), c_lat (by simp), c_lv, c_last (by simp)⟩
  | retSetCtx a u =>
    refine ⟨{ m with ctxCalls := m.ctxCalls.erase a }, by simp [Ev.obs, monProgress], ?_⟩
    exact ⟨hi', hx', ht', hrt', hrun', hdel', c_once (by simp) (by simp), c_inval, c_ctx (by simp) (by simp),
      ctxOk_step s s' _ _ _ hcc hs (by
        intro a' h hne
        have : a' ≠ a := by intro e; subst e; exact hne u rfl
        exact (List.mem_erase_of_ne this).mpr h) (by intro a' c' cl' he; cases he),
      c_dead (by simp), c_tgt (by simp), c_kinds (by simp), c_add, c_rel (by simp),
      c_c09 (by simp) (by simp), c_lat (by simp), c_lv, c_last (by simp)⟩
  | envCancelCtx c =>
    refine ⟨{ m with dead := c :: m.dead }, by simp [Ev.obs, monProgress], ?_⟩
    exact ⟨hi', hx', ht', hrt', hrun', hdel', c_once (by simp) (by simp), c_inval, c_ctx (by simp) (by simp),
      c_cc (by simp), by rw [md2 c rfl, ← hdead], c_tgt (by simp), c_kinds (by simp), c_add, c_rel (by simp),
      c_c09 (by simp) (by simp), c_lat (by simp), c_lv, c_last (by simp)⟩
  | envReleased k =>
    refine ⟨{ m with released := k :: m.released }, by simp [Ev.obs, monProgress], ?_⟩
    exact ⟨hi', hx', ht', hrt', hrun', hdel', c_once (by simp) (by simp),
      invalOk_step s s' _ _ _ hi hx hinval hs (by
        intro k' hk'
        simp only [List.mem_cons] at hk'
        rcases hk' with rfl | hk'
        · exact Or.inr rfl
        · exact Or.inl hk'),
      c_ctx (by simp) (by simp), c_cc (by simp), c_dead (by simp), c_tgt (by simp), c_kinds (by simp), c_add,
      c_rel (by simp), c_c09 (by simp) (by simp), c_lat (by simp), c_lv, c_last (by simp)⟩
  | probe v er =>
    have hs0 := hs
    simp only [step] at hs0; split at hs0 <;> simp at hs0
    rename_i hq
    exact ⟨m, by simpa [Ev.obs] using prog_probe_ok s m v er hR0 hq.1 hq.2.1 hq.2.2,
      same (by simp) (by simp) (by simp) (by simp) (by simp) (by simp) (by simp) (by simp) (by simp)⟩
  | quiesce B =>
    have hs0 := hs
    simp only [step] at hs0; split at hs0 <;> simp at hs0
    rename_i hq
    exact ⟨m, by simpa [Ev.obs] using prog_quiesce_ok s m B hR0 hq.1,
      same (by simp) (by simp) (by simp) (by simp) (by simp) (by simp) (by simp) (by simp) (by simp)⟩
  | invHook a => exact ⟨m, rfl, same (by simp) (by simp) (by simp) (by simp) (by simp) (by simp) (by simp) (by simp) (by simp)⟩
  | retRelease b => exact ⟨m, rfl, same (by simp) (by simp) (by simp) (by simp) (by simp) (by simp) (by simp) (by simp) (by simp)⟩
  | addRefCS a => exact same (by simp) (by simp) (by simp) (by simp) (by simp) (by simp) (by simp) (by simp) (by simp)
  | relSwap b => exact same (by simp) (by simp) (by simp) (by simp) (by simp) (by simp) (by simp) (by simp) (by simp)
  | relCS b => exact same (by simp) (by simp) (by simp) (by simp) (by simp) (by simp) (by simp) (by simp) (by simp)
  | setCtxCS a => exact same (by simp) (by simp) (by simp) (by simp) (by simp) (by simp) (by simp) (by simp) (by simp)
  | relRun r => exact same (by simp) (by simp) (by simp) (by simp) (by simp) (by simp) (by simp) (by simp) (by simp)
  | giveUp i => exact same (by simp) (by simp) (by simp) (by simp) (by simp) (by simp) (by simp) (by simp) (by simp)
  | drained i => exact same (by simp) (by simp) (by simp) (by simp) (by simp) (by simp) (by simp) (by simp) (by simp)
  | store i => exact same (by simp) (by simp) (by simp) (by simp) (by simp) (by simp) (by simp) (by simp) (by simp)
  | done i => exact same (by simp) (by simp) (by simp) (by simp) (by simp) (by simp) (by simp) (by simp) (by simp)
  | selfRelSwap a => exact same (by simp) (by simp) (by simp) (by simp) (by simp) (by simp) (by simp) (by simp) (by simp)
  | selfRelCS a => exact same (by simp) (by simp) (by simp) (by simp) (by simp) (by simp) (by simp) (by simp) (by simp)

/-- **C09 (observable form, `monProgress`).** Every observable trace of the model is accepted by
`monProgress`: at every quiescence point at which the context is known to be set and live, a
reference is held and no resolver call is running, the latest resolver result has been delivered to
the target containers and to every held recording reference, it is not a result whose `released()`
was called, and every entry whose `released()` was called and that returned a release function has
had it called. -/
theorem progress_obs (es : List Ev) (s : St) (h : model.run model.init es = some s) :
    monProgress.accepts (es.filterMap model.obs) = true :=
  monitor_accepts_of_simulation model monProgress RelProg
    ⟨init_inv, idx_init, thinv_nil, relTh_nil,
      by intro i c hc; simp [model] at hc,
      by intro r res v e hm; simp [model] at hm,
      ⟨[], ⟨init_inv, idx_init, by intro i k ⟨b, hb, _⟩; simp [model] at hb,
        by intro i; simp [model, relItems, released, b2n], List.nodup_nil,
        by
          intro k
          constructor
          · intro hk; cases hk
          · intro ⟨i, c, v, e, hc, _⟩; simp [model] at hc⟩,
        by intro k hk; simp [monProgress] at hk⟩,
      by intro k hk; simp [monProgress] at hk,
      by intro c hc; simp [monProgress] at hc,
      by intro a c cl pc u ha; simp [model] at ha,
      rfl,
      by intro hc; simp [model] at hc,
      by intro a k pc l f sf t ha; simp [model] at ha,
      by intro r b hrb; simp [monProgress] at hrb,
      ⟨by intro b r pc hb; simp [model] at hb, by intro r k pc f sf t hr; simp [model] at hr⟩,
      ⟨init_inv, by intro j k ⟨c, hc, _⟩; simp [model] at hc, by intro k hk; simp [monProgress] at hk⟩,
      ⟨by intro i c hc; simp [model] at hc, by intro i c hc; simp [model] at hc⟩,
      by intro k hk; simp [monProgress] at hk,
      by intro r pc f sf i hth; simp [model] at hth⟩
    (fun s e s' ms hR hs => by
      have h := prog_sim_step s e s' ms hR hs
      cases e with
      | cb it =>
        cases it with
        | refcb r vis res v er => cases vis <;> exact h
        | rel i k seen => exact h
      | _ => exact h) es s h

/-- **C09 (observable form, whole monitor).** Every observable trace of the model is accepted by `monC09`. -/
theorem c09_obs (es : List Ev) (s : St) (h : model.run model.init es = some s) :
    monC09.accepts (es.filterMap model.obs) = true := by
  simp only [ObsMonitor.rcBoth_accepts, one_resolver_obs es s h, no_panic_obs es s h, progress_obs es s h,
    Bool.and_self]

end UtilModel.RefCount
