import UtilModel.RefCount.Props
/-!
# refcount: C09 "one resolver at a time" in observable form — every trace of the model is accepted
by the monitor `monOneResolver` (resolver entries and returns alternate)
-/
set_option linter.unusedSimpArgs false
set_option linter.unusedVariables false
namespace UtilModel.RefCount
open UtilModel

/-- call `j` is inside the resolver function, as its entry number `k` -/
def RunningInv (s : St) (j k : Nat) : Prop :=
  ∃ c, s.calls[j]? = some c ∧ c.ci.st = .running ∧ c.inv = some k

theorem running_of_pointwise (s s' : St)
    (h : ∀ (j : Nat) (c' : Call), s'.calls[j]? = some c' →
      (∃ c, s.calls[j]? = some c ∧ c.ci.st = c'.ci.st ∧ c.inv = c'.inv) ∨ c'.ci.st ≠ .running)
    (j k : Nat) (hr : RunningInv s' j k) : RunningInv s j k := by
  obtain ⟨c', h1, h2, h3⟩ := hr
  rcases h j c' h1 with ⟨c, g1, g2, g3⟩ | g
  · exact ⟨c, g1, by rw [g2]; exact h2, by rw [g3]; exact h3⟩
  · exact absurd h2 g

theorem shutdown_running (s : St) (j k : Nat) : RunningInv (shutdown s) j k ↔ RunningInv s j k := by
  unfold RunningInv
  rw [shutdown_calls]
  cases s.calls[j]? with
  | none => simp
  | some c => simp [updCall]

theorem spawned_running (s1 : St) (j k : Nat) : RunningInv (spawned s1) j k ↔ RunningInv s1 j k := by
  unfold RunningInv
  constructor
  · rintro ⟨c, h1, h2, h3⟩
    rcases spawned_call s1 j c h1 with ⟨_, h⟩ | ⟨_, h⟩
    · exact ⟨c, h, h2, h3⟩
    · rw [h] at h2; simp [newCall] at h2
  · rintro ⟨c, h1, h2, h3⟩
    refine ⟨c, ?_, h2, h3⟩
    simp only [spawned]
    rw [List.getElem?_append_left (lt_of_getElem? h1)]; exact h1

theorem startResolve_running (s : St) (j k : Nat) : RunningInv (startResolve s) j k ↔ RunningInv s j k := by
  rw [startResolve_eq]; split
  · exact shutdown_running s j k
  · rw [spawned_running, shutdown_running]

theorem afterRemove_running (s : St) (j k : Nat) : RunningInv (afterRemove s) j k ↔ RunningInv s j k := by
  unfold afterRemove
  split
  · split
    · exact shutdown_running s j k
    · rfl
  · rfl

/-- replacing call `i` by a call that is not running, when it was not running before -/
theorem setCall_running (s : St) (i : Nat) (c c' : Call) (h : s.calls[i]? = some c)
    (h1 : c.ci.st ≠ .running) (h2 : c'.ci.st ≠ .running) (j k : Nat) :
    RunningInv (setCall s i c') j k ↔ RunningInv s j k := by
  unfold RunningInv setCall
  simp only [List.getElem?_set]
  by_cases hij : i = j
  · subst hij
    rw [h]
    simp [lt_of_getElem? h]
    constructor
    · rintro ⟨g, _⟩; exact absurd g h2
    · rintro ⟨g, _⟩; exact absurd g h1
  · simp [hij]


/-- every event other than the entry / return of the resolver leaves "who is inside the resolver" alone -/
theorem running_frame (s s' : St) (e : Ev) (hi : Inv s) (hs : step s e = some s')
    (hne : match e with
      | .enter _ _ | .leave _ _ _ _ _ => False
      | _ => True) (j k : Nat) : RunningInv s' j k ↔ RunningInv s j k := by
  cases e with
  | enter i k' => simp at hne
  | leave i k' v hr er => simp at hne
  | cfg kp c t => simp only [step] at hs; split at hs <;> simp at hs; subst hs; rfl
  | invAddRef a kd => simp only [step] at hs; split at hs <;> simp at hs; subst hs; rfl
  | invHook a => simp only [step] at hs; split at hs <;> simp at hs; subst hs; rfl
  | retAddRef a =>
    simp only [step] at hs; split at hs <;> try simp at hs
    obtain ⟨_, rfl⟩ := hs; rfl
  | invRelease b r =>
    simp only [step] at hs; split at hs <;> try simp at hs
    split at hs <;> try simp at hs
    subst hs; rfl
  | relSwap b =>
    simp only [step] at hs; split at hs <;> try simp at hs
    split at hs <;> simp at hs <;> subst hs <;> rfl
  | retRelease b =>
    simp only [step] at hs; split at hs <;> try simp at hs
    obtain ⟨_, rfl⟩ := hs; rfl
  | selfRelSwap a =>
    simp only [step] at hs; split at hs <;> try simp at hs
    obtain ⟨_, hs⟩ := hs
    split at hs <;> simp at hs <;> subst hs <;> rfl
  | invSetCtx a c cl => simp only [step] at hs; split at hs <;> simp at hs; subst hs; rfl
  | retSetCtx a u =>
    simp only [step] at hs; split at hs <;> try simp at hs
    obtain ⟨_, rfl⟩ := hs; rfl
  | envCancelCtx c =>
    simp only [step] at hs; split at hs <;> simp at hs; subst hs
    unfold RunningInv
    simp only [List.getElem?_map]
    cases s.calls[j]? with
    | none => simp
    | some x => simp; split <;> simp
  | envReleased k' => simp only [step] at hs; split at hs <;> simp at hs; subst hs; rfl
  | quiesce B => simp only [step] at hs; split at hs <;> simp at hs; subst hs; rfl
  | probe v er => simp only [step] at hs; split at hs <;> simp at hs; subst hs; rfl
  | cb it =>
    simp only [step] at hs; split at hs <;> try simp at hs
    obtain ⟨_, rfl⟩ := hs; rfl
  | giveUp i =>
    simp only [step] at hs; split at hs <;> try simp at hs
    rename_i c h
    obtain ⟨⟨hw, _⟩, rfl⟩ := hs
    exact setCall_running s i c _ h (by simp [hw]) (by simp) j k
  | drained i =>
    simp only [step] at hs; split at hs <;> try simp at hs
    rename_i c h
    obtain ⟨⟨hw, _⟩, rfl⟩ := hs
    exact setCall_running s i c _ h (by simp [hw]) (by simp) j k
  | done i =>
    simp only [step] at hs; split at hs <;> try simp at hs
    rename_i c h
    obtain ⟨⟨hw, _⟩, rfl⟩ := hs
    exact setCall_running s i c _ h (by simp [hw]) (by simp) j k
  | store i =>
    simp only [step] at hs; split at hs <;> try simp at hs
    rename_i c h
    split at hs <;> try simp at hs
    obtain ⟨⟨hst, _, _⟩, hs⟩ := hs
    split at hs
    · simp at hs; subst hs
      exact setCall_running s i c { c with fin := true, stored := true } h (by simp [hst]) (by simp [hst]) j k
    · split at hs <;> simp at hs <;> subst hs
      · exact setCall_running s i c { c with fin := true, released := true } h (by simp [hst]) (by simp [hst]) j k
      · exact setCall_running s i c { c with fin := true } h (by simp [hst]) (by simp [hst]) j k
  | addRefCS a =>
    simp only [step] at hs; split at hs <;> try simp at hs
    obtain ⟨_, hs⟩ := hs
    split at hs
    · simp at hs; subst hs; exact startResolve_running _ j k
    · split at hs <;> simp at hs <;> subst hs <;> rfl
  | relCS b =>
    simp only [step] at hs; split at hs <;> try simp at hs
    split at hs <;> try simp at hs
    case h_2 => obtain ⟨_, rfl⟩ := hs; rfl
    obtain ⟨_, rfl⟩ := hs
    exact afterRemove_running _ j k
  | selfRelCS a =>
    simp only [step] at hs; split at hs <;> try simp at hs
    obtain ⟨_, rfl⟩ := hs
    exact afterRemove_running _ j k
  | setCtxCS a =>
    simp only [step] at hs; split at hs <;> try simp at hs
    split at hs <;> simp at hs <;> obtain ⟨_, rfl⟩ := hs
    · rfl
    · exact startResolve_running _ j k
  | relRun r =>
    simp only [step] at hs; split at hs <;> try simp at hs
    split at hs <;> try simp at hs
    split at hs <;> simp at hs <;> obtain ⟨_, rfl⟩ := hs
    · exact startResolve_running _ j k
    · rfl

/-- simulation relation between model states and the monitor state (the entry that is running) -/
def RelC09 (s : St) (m : Option Nat) : Prop :=
  Inv s ∧ (∀ j k, RunningInv s j k → m = some k) ∧ (∀ k, m = some k → ∃ j, RunningInv s j k)

theorem c09_sim_step (s : St) (e : Ev) (s' : St) (m : Option Nat) (hR : RelC09 s m) (hs : step s e = some s') :
    match Ev.obs e with
    | none => RelC09 s' m
    | some o => ∃ m', monOneResolver.step m o = some m' ∧ RelC09 s' m' := by
  obtain ⟨hi, h1, h2⟩ := hR
  have hi' := step_inv s e s' hi hs
  have one' := fun (a b : Nat) (x y : Call) (hx : s'.calls[a]? = some x) (hy : s'.calls[b]? = some y)
      (rx : x.ci.st = .running) (ry : y.ci.st = .running) =>
    Chain.one_running (chainSlot s') hi'.core.chain a b x.ci y.ci (chain_get s' a x hx) (chain_get s' b y hy) rx ry
  have one := fun (a b : Nat) (x y : Call) (hx : s.calls[a]? = some x) (hy : s.calls[b]? = some y)
      (rx : x.ci.st = .running) (ry : y.ci.st = .running) =>
    Chain.one_running (chainSlot s) hi.core.chain a b x.ci y.ci (chain_get s a x hx) (chain_get s b y hy) rx ry
  have other : (match e with
      | .enter _ _ | .leave _ _ _ _ _ => False
      | _ => True) → RelC09 s' m := by
    intro hne
    have hf := running_frame s s' e hi hs hne
    refine ⟨hi', fun j k hr => h1 j k ((hf j k).mp hr), fun k hm => ?_⟩
    obtain ⟨j, hr⟩ := h2 k hm; exact ⟨j, (hf j k).mpr hr⟩
  cases e with
  | enter i k =>
    have hs0 := hs
    simp only [step] at hs; split at hs <;> try simp at hs
    rename_i c hc
    obtain ⟨⟨hw, _, hk⟩, rfl⟩ := hs
    have hlt := lt_of_getElem? hc
    have hself : (setCall s i { c with ci := { c.ci with st := .running }, inv := some k }).calls[i]? =
        some { c with ci := { c.ci with st := .running }, inv := some k } := by simp [setCall, hlt]
    have hmn : m = none := by
      cases hm : m with
      | none => rfl
      | some k0 =>
        exfalso
        obtain ⟨j, x, hx, hxr, _⟩ := h2 k0 hm
        have hji : j ≠ i := by intro e; subst e; rw [hc] at hx; cases hx; rw [hw] at hxr; cases hxr
        have hx' : (setCall s i { c with ci := { c.ci with st := .running }, inv := some k }).calls[j]? = some x := by
          simp [setCall, List.getElem?_set, Ne.symm hji]; exact hx
        exact hji (one' j i x _ hx' hself hxr rfl)
    refine ⟨some k, by simp [Ev.obs, monOneResolver, hmn], hi', ?_, ?_⟩
    · intro j k' ⟨x, hx, hxr, hxi⟩
      have := one' j i x _ hx hself hxr rfl
      subst this
      rw [hself] at hx; cases hx
      simpa using hxi
    · intro k' hk'; cases hk'
      exact ⟨i, _, hself, rfl, rfl⟩
  | leave i k v hr er =>
    simp only [step] at hs; split at hs <;> try simp at hs
    rename_i c hc
    obtain ⟨⟨hw, hk, _⟩, rfl⟩ := hs
    have hm : m = some k := h1 i k ⟨c, hc, hw, hk⟩
    refine ⟨none, by simp [Ev.obs, monOneResolver, hm], hi', ?_, by intro k' h; cases h⟩
    intro j k' ⟨x, hx, hxr, _⟩
    exfalso
    have hlt := lt_of_getElem? hc
    by_cases hji : j = i
    · subst hji
      simp [setCall, hlt] at hx
      rw [← hx] at hxr; simp at hxr
    · have hx0 : s.calls[j]? = some x := by
        simp [setCall, List.getElem?_set, Ne.symm hji] at hx; exact hx
      exact hji (one j i x c hx0 hc hxr hw)
  | cfg kp c t => exact ⟨m, rfl, other trivial⟩
  | invAddRef a kd => exact ⟨m, rfl, other trivial⟩
  | addRefCS a => exact other trivial
  | retAddRef a => exact ⟨m, rfl, other trivial⟩
  | invRelease b r => exact ⟨m, rfl, other trivial⟩
  | relSwap b => exact other trivial
  | relCS b => exact other trivial
  | retRelease b => exact ⟨m, rfl, other trivial⟩
  | invSetCtx a c cl => exact ⟨m, rfl, other trivial⟩
  | setCtxCS a => exact other trivial
  | retSetCtx a u => exact ⟨m, rfl, other trivial⟩
  | envCancelCtx c => exact ⟨m, rfl, other trivial⟩
  | envReleased k => exact ⟨m, rfl, other trivial⟩
  | relRun r => exact other trivial
  | giveUp i => exact other trivial
  | drained i => exact other trivial
  | store i => exact other trivial
  | done i => exact other trivial
  | cb it =>
    cases it with
    | refcb r vis res v er =>
      cases vis
      · exact other trivial
      · exact ⟨m, rfl, other trivial⟩
    | rel i k seen => exact ⟨m, rfl, other trivial⟩
  | invHook a => exact ⟨m, rfl, other trivial⟩
  | selfRelSwap a => exact other trivial
  | selfRelCS a => exact other trivial
  | probe v er => exact ⟨m, rfl, other trivial⟩
  | quiesce B => exact ⟨m, rfl, other trivial⟩

/-- **C09 (observable form) `one_resolver_obs`.** Every observable trace of the RefCount model is
accepted by `monOneResolver`: entries and returns of the resolver function alternate — the resolver
is never running in two calls at once, for every event list. -/
theorem one_resolver_obs (es : List Ev) (s : St) (h : model.run model.init es = some s) :
    monOneResolver.accepts (es.filterMap model.obs) = true :=
  monitor_accepts_of_simulation model monOneResolver RelC09
    ⟨init_inv, by intro j k ⟨c, hc, _⟩; simp [model] at hc, by intro k hk; simp [monOneResolver] at hk⟩
    (fun s e s' ms hR hs => by
      have h := c09_sim_step s e s' ms hR hs
      cases e with
      | cb it =>
        cases it with
        | refcb r vis res v er => cases vis <;> exact h
        | rel i k seen => exact h
      | _ => exact h) es s h

end UtilModel.RefCount
