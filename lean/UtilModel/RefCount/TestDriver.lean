import UtilModel.Core.Driver
import UtilModel.RefCount.Model
import UtilModel.RefCount.Monitors
/-! Development driver for this component only:
`lake env lean --run UtilModel/RefCount/TestDriver.lean refcount < hist` -/
open UtilModel

def main (args : List String) : IO UInt32 :=
  driverMain [
    mkEntry "refcount" RefCount.model RefCount.Obs.parse
      [MonEntry.ofMonitor "C08" RefCount.monC08, MonEntry.ofMonitor "C09" RefCount.monC09]
  ] args
