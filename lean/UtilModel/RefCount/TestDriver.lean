import UtilModel.Core.Driver
import UtilModel.RefCount.Model
/-! Development driver for this component only:
`lake env lean --run UtilModel/RefCount/TestDriver.lean refcount < hist` -/
open UtilModel

def main (args : List String) : IO UInt32 :=
  driverMain [
    mkEntry "refcount" RefCount.model RefCount.Obs.parse []
  ] args
