import UtilModel.Core.Driver
import UtilModel.Core.DriverH
import UtilModel.RefCount.Model
import UtilModel.RefCount.Monitors
import UtilModel.RefCount.Consumers
import UtilModel.RefCount.ConsMonitors
/-! Development driver for this component only:
`lake env lean --run UtilModel/RefCount/TestDriver.lean refcount < hist` -/
open UtilModel

def main (args : List String) : IO UInt32 :=
  driverMain [
    mkEntryH "refcount" RefCount.model RefCount.Obs.parse
      [MonEntry.ofMonitor "C08" RefCount.monC08, MonEntry.ofMonitor "C09" RefCount.monC09],
    mkEntryH "refcount-consumers" RefCount.Cons.cmodel RefCount.Cons.CObs.parse
      [MonEntry.ofMonitor "C10" RefCount.Cons.monC10, MonEntry.ofMonitor "C08c" RefCount.Cons.monC08c,
       MonEntry.ofMonitor "C09c" RefCount.Cons.monC09c] (cap := 40000)
  ] args
