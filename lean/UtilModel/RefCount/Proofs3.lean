import UtilModel.RefCount.Proofs2
/-!
# refcount: every step preserves the invariant
-/
set_option linter.unusedSimpArgs false
set_option linter.unusedVariables false
namespace UtilModel.RefCount
open UtilModel

theorem liveRefs_set (s : St) (a : Nat) (old new : TS) (h : s.th[a]? = some old)
    (hl : new.isLive = old.isLive) : (s.th.set a new).countP TS.isLive = s.th.countP TS.isLive := by
  have := countP_set TS.isLive s.th a old new h
  rw [hl] at this; omega

/-- replacing a thread entry without touching its liveness (and keeping `told` right) -/
theorem inv_th_set (s : St) (a : Nat) (old new : TS) (o : Owner) (hi : Inv s) (h : s.th[a]? = some old)
    (hl : new.isLive = old.isLive)
    (ht : ∀ k pc f sf t, new = .ref k pc true f sf t → k ≠ .nil → t = s.cur) :
    Inv { s with th := s.th.set a new, owner := o } := by
  obtain ⟨hc, hv⟩ := hi
  have hlive : liveRefs { s with th := s.th.set a new, owner := o } = liveRefs s := liveRefs_set s a old new h hl
  refine ⟨⟨?_, hc.chain, hc.nonceLe, hc.nonceLt, hc.lastCh, hc.resCur, hc.curSome, hc.curNone, hc.tgtVal, hc.tgtErr,
    hc.relFin, hc.storedFin, hc.noLeak, hc.finSt, hc.resSt, ?_, hc.rcFresh, hc.panicF, hc.pendNE, hc.deadC, hc.drainC⟩,
    ⟨?_, ?_, ?_⟩⟩
  · intro hcf
    have := (hc.pre hcf).1
    simp [this] at h
  · intro b k pc f sf t hb hk
    rcases getElem?_set_cases s.th a b new _ hb with ⟨_, hx⟩ | ⟨_, hx⟩
    · exact ht k pc f sf t hx.symm hk
    · exact hc.told b k pc f sf t hx hk
  · intro i c hcall hn
    have := hv.fresh i c hcall hn
    rw [hlive]; exact this
  · intro h1 h2; rw [hlive] at h2; exact hv.prog h1 h2
  · intro h1; rw [hlive]; exact hv.kept h1

theorem inv_th_append (s : St) (new : TS) (hi : Inv s) (hcf : s.cfgd = true) (hl : new.isLive = false) :
    Inv { s with th := s.th ++ [new] } := by
  obtain ⟨hc, hv⟩ := hi
  have hlive : liveRefs { s with th := s.th ++ [new] } = liveRefs s := by
    simp [liveRefs, List.countP_append, hl]
  refine ⟨⟨?_, hc.chain, hc.nonceLe, hc.nonceLt, hc.lastCh, hc.resCur, hc.curSome, hc.curNone, hc.tgtVal, hc.tgtErr,
    hc.relFin, hc.storedFin, hc.noLeak, hc.finSt, hc.resSt, ?_, hc.rcFresh, hc.panicF, hc.pendNE, hc.deadC, hc.drainC⟩,
    ⟨?_, ?_, ?_⟩⟩
  · intro h; simp [hcf] at h
  · intro b k pc f sf t hb hk
    rcases getElem?_snoc_cases _ _ _ _ hb with ⟨_, hx⟩ | ⟨_, hx⟩
    · exact hc.told b k pc f sf t hx hk
    · rw [← hx] at hl; simp [TS.isLive] at hl
  · intro i c hcall hn
    have := hv.fresh i c hcall hn
    rw [hlive]; exact this
  · intro h1 h2; rw [hlive] at h2; exact hv.prog h1 h2
  · intro h1; rw [hlive]; exact hv.kept h1

/-- changes that the invariant does not look at -/
theorem inv_misc (s : St) (hi : Inv s) (o : Owner) (n : Nat) (rr : List Nat) (p : List (List CbItem))
    (hp : ∀ b ∈ p, b ≠ []) : Inv { s with owner := o, ninv := n, relRuns := rr, pend := p } := by
  obtain ⟨hc, hv⟩ := hi
  exact ⟨⟨hc.pre, hc.chain, hc.nonceLe, hc.nonceLt, hc.lastCh, hc.resCur, hc.curSome, hc.curNone, hc.tgtVal, hc.tgtErr,
    hc.relFin, hc.storedFin, hc.noLeak, hc.finSt, hc.resSt, hc.told, hc.rcFresh, hc.panicF, hp, hc.deadC, hc.drainC⟩,
    ⟨hv.fresh, hv.prog, hv.kept⟩⟩

/-- a reference entry changes only its program counter / once-flag / self flag -/
theorem inv_ref_upd (s : St) (a : Nat) (k : CbKind) (pc pc' : Pc) (live f f' sf sf' : Bool) (told : Option Nat)
    (o : Owner) (hi : Inv s) (h : s.th[a]? = some (.ref k pc live f sf told)) :
    Inv { s with th := s.th.set a (.ref k pc' live f' sf' told), owner := o } := by
  refine inv_th_set s a _ _ o hi h rfl ?_
  intro k2 pc2 f2 sf2 t he hk
  cases he
  exact hi.core.told a k pc _ _ _ h hk

theorem inv_owner (s : St) (hi : Inv s) (o : Owner) : Inv { s with owner := o } :=
  inv_misc s hi o s.ninv s.relRuns s.pend hi.core.pendNE

theorem step_inv_threads (s s' : St) (e : Ev) (hi : Inv s) (hs : step s e = some s')
    (he : match e with
      | .invAddRef _ _ | .invHook _ | .retAddRef _ | .invRelease _ _ | .relSwap _ | .retRelease _
      | .selfRelSwap _ | .invSetCtx _ _ _ | .retSetCtx _ _ => True
      | _ => False) : Inv s' := by
  cases e <;> simp at he
  case invAddRef a k =>
    simp only [step] at hs; split at hs <;> simp at hs; subst hs
    rename_i h; exact inv_th_append s _ hi h.1 rfl
  case invHook a =>
    simp only [step] at hs; split at hs <;> simp at hs; subst hs
    rename_i h; exact inv_th_append s _ hi h.1 rfl
  case retAddRef a =>
    simp only [step] at hs; split at hs <;> try simp at hs
    rename_i k live flag self told h
    obtain ⟨_, rfl⟩ := hs
    exact inv_ref_upd s a k _ _ live _ _ _ _ told s.owner hi h
  case invRelease b r =>
    simp only [step] at hs; split at hs <;> try simp at hs
    split at hs <;> try simp at hs
    subst hs
    rename_i h
    have hcf : s.cfgd = true := by
      cases hcf : s.cfgd
      · have := (hi.core.pre hcf).1; simp [this] at h
      · rfl
    exact inv_th_append s _ hi hcf rfl
  case relSwap b =>
    simp only [step] at hs; split at hs <;> try simp at hs
    rename_i r hb
    split at hs <;> simp at hs <;> subst hs
    · rename_i k pc live self told hr
      have h1 := inv_ref_upd s r k pc pc live false true self self told s.owner hi hr
      have hne : r ≠ b := by intro e; subst e; rw [hb] at hr; cases hr
      have hb' : (s.th.set r (.ref k pc live true self told))[b]? = some (.rel r .inv) := by
        rw [getElem?_set_ne' _ _ _ _ hne]; exact hb
      exact inv_th_set _ b _ (.rel r .cs) s.owner h1 hb' rfl (by intro _ _ _ _ _ he; cases he)
    · exact inv_th_set s b _ (.rel r .done) s.owner hi hb rfl (by intro _ _ _ _ _ he; cases he)
  case retRelease b =>
    simp only [step] at hs; split at hs <;> try simp at hs
    rename_i r hb
    obtain ⟨_, rfl⟩ := hs
    exact inv_th_set s b _ (.rel r .retd) s.owner hi hb rfl (by intro _ _ _ _ _ he; cases he)
  case selfRelSwap a =>
    simp only [step] at hs; split at hs <;> try simp at hs
    rename_i pc live flag self told h
    obtain ⟨_, hs⟩ := hs
    split at hs <;> simp at hs <;> subst hs
    · exact hi
    · have := inv_ref_upd s a .hook pc pc live flag true self true told s.owner hi h
      exact this
  case invSetCtx a c cl =>
    simp only [step] at hs; split at hs <;> simp at hs; subst hs
    rename_i h; exact inv_th_append s _ hi h.1 rfl
  case retSetCtx a u =>
    simp only [step] at hs; split at hs <;> try simp at hs
    rename_i c cl u2 h
    obtain ⟨_, rfl⟩ := hs
    exact inv_th_set s a _ (.ctx c cl .retd u2) s.owner hi h rfl (by intro _ _ _ _ _ he; cases he)


/-! ## resolver-call events -/

theorem predClosed_eq (s : St) (c : Call) : Chain.predClosed (chainSlot s) c.ci = predClosed s c := by
  unfold Chain.predClosed predClosed Chain.isClosed
  cases c.ci.pred with
  | none => rfl
  | some p =>
    simp only [chainSlot_get]
    cases s.calls[p]? <;> simp

theorem chainSlot_setCall (s : St) (i : Nat) (c c' : Call) (h : s.calls[i]? = some c) (st : Chain.IS)
    (hc' : c'.ci = { c.ci with st := st }) :
    chainSlot (setCall s i c') = Chain.setSt (chainSlot s) i c.ci st := by
  simp [chainSlot, setCall, Chain.setSt, List.map_set, hc']

theorem chain_get (s : St) (i : Nat) (c : Call) (h : s.calls[i]? = some c) :
    (chainSlot s).insts[i]? = some c.ci := by
  simp [chainSlot_get, h]

/-- a resolver call moves on; the shared variables stay as they are -/
theorem inv_setCall (s : St) (i : Nat) (c c' : Call) (n : Nat) (hi : Inv s) (h : s.calls[i]? = some c)
    (hch : Chain.Inv (chainSlot (setCall s i c')))
    (e1 : c'.nonce = c.nonce) (e2 : c'.root = c.root) (e3 : c'.ci.cancelled = c.ci.cancelled)
    (e4 : c'.released = c.released) (e5 : c'.stored = c.stored)
    (e6 : c.fin = true → c'.fin = true) (e7 : c.res.isSome ∨ c.fin = true → c'.res = c.res)
    (hfin : (c'.fin = true → c'.ci.st = .returned ∨ c'.ci.st = .closed) ∧ (c'.ci.st = .closed → c'.fin = true))
    (hres : c'.res.isSome → c'.ci.st = .returned ∨ c'.ci.st = .closed)
    (hnl : c'.fin = true → c.fin = false → c'.res = none)
    (hdr : (c'.ci.st = .draining ∨ (c'.fin = true ∧ c'.res = none)) → c'.ci.cancelled = true) :
    Inv { setCall s i c' with ninv := n } := by
  obtain ⟨hc, hv⟩ := hi
  have hlt := lt_of_getElem? h
  have hself : ({ setCall s i c' with ninv := n } : St).calls[i]? = some c' := by simp [setCall, hlt]
  have hother : ∀ (j : Nat), j ≠ i → ({ setCall s i c' with ninv := n } : St).calls[j]? = s.calls[j]? := by
    intro j hj; simp [setCall, List.getElem?_set, Ne.symm hj]
  have hget : ∀ (j : Nat) (x : Call), ({ setCall s i c' with ninv := n } : St).calls[j]? = some x →
      (j = i ∧ x = c') ∨ (j ≠ i ∧ s.calls[j]? = some x) := by
    intro j x hx; exact getElem?_set_cases s.calls i j c' x hx
  have hnonce : ∀ (j : Nat) (x : Call), ({ setCall s i c' with ninv := n } : St).calls[j]? = some x →
      ∃ y, s.calls[j]? = some y ∧ y.nonce = x.nonce := by
    intro j x hx
    rcases hget j x hx with ⟨hj, hx⟩ | ⟨_, hx⟩
    · exact ⟨c, hj ▸ h, hx ▸ e1.symm⟩
    · exact ⟨x, hx, rfl⟩
  refine ⟨⟨?_, hch, ?_, ?_, ?_, hc.resCur, ?_, hc.curNone, hc.tgtVal, hc.tgtErr, ?_, ?_, ?_, ?_, ?_, hc.told, ?_,
    hc.panicF, hc.pendNE, ?_, ?_⟩, ⟨?_, ?_, hv.kept⟩⟩
  · intro hcf
    have := (hc.pre hcf).2; simp [this] at h
  · intro j x hx
    obtain ⟨y, hy, hn⟩ := hnonce j x hx
    rw [← hn]; exact hc.nonceLe j y hy
  · intro j k cj ck hj hk hjk
    obtain ⟨y1, hy1, hn1⟩ := hnonce j cj hj
    obtain ⟨y2, hy2, hn2⟩ := hnonce k ck hk
    rw [← hn1, ← hn2]; exact hc.nonceLt j k y1 y2 hy1 hy2 hjk
  · intro l; simp [setCall]; exact hc.lastCh l
  · intro j hj
    obtain ⟨x, hh, g1, g2, g3, g4, g5, g6, g7⟩ := hc.curSome j hj
    by_cases hji : j = i
    · rw [hji] at g1 ⊢
      rw [h] at g1; cases g1
      refine ⟨c', hh, hself, by rw [e1]; exact g2, by rw [e5]; exact g3, e6 g4, ?_, hji ▸ g6, ?_⟩
      · rw [e7 (Or.inr g4)]; exact g5
      · rw [e4]; exact g7
    · exact ⟨x, hh, by rw [hother j hji]; exact g1, g2, g3, g4, g5, g6, g7⟩
  · intro j x hx hr
    rcases hget j x hx with ⟨hj, hx⟩ | ⟨_, hx⟩
    · rw [hx, e4] at hr; rw [hx]
      obtain ⟨f1, v, e, f2⟩ := hc.relFin i c h hr
      exact ⟨e6 f1, v, e, by rw [e7 (Or.inr f1)]; exact f2⟩
    · exact hc.relFin j x hx hr
  · intro j x hx hr
    rcases hget j x hx with ⟨hj, hx⟩ | ⟨_, hx⟩
    · rw [hx, e5] at hr; rw [hx]
      obtain ⟨f1, f2⟩ := hc.storedFin i c h hr
      exact ⟨e6 f1, by rw [e7 (Or.inr f1)]; exact f2⟩
    · exact hc.storedFin j x hx hr
  · intro j x v e hx hf hr hnr
    rcases hget j x hx with ⟨hj, hx⟩ | ⟨_, hx⟩
    · rw [hx] at hf hr hnr; rw [hj]
      cases hcf : c.fin
      · have := hnl hf hcf; simp [this] at hr
      · rw [e7 (Or.inr hcf)] at hr
        exact hc.noLeak i c v e h hcf hr (by rw [← e4]; exact hnr)
    · exact hc.noLeak j x v e hx hf hr hnr
  · intro j x hx
    rcases hget j x hx with ⟨_, hx⟩ | ⟨_, hx⟩
    · rw [hx]; exact hfin
    · exact hc.finSt j x hx
  · intro j x hx
    rcases hget j x hx with ⟨_, hx⟩ | ⟨_, hx⟩
    · rw [hx]; exact hres
    · exact hc.resSt j x hx
  · intro j hj
    obtain ⟨x, g1, g2⟩ := hc.rcFresh j hj
    by_cases hji : j = i
    · rw [hji] at g1 ⊢; rw [h] at g1; cases g1
      exact ⟨c', hself, by rw [e1]; exact g2⟩
    · exact ⟨x, by rw [hother j hji]; exact g1, g2⟩
  · intro j x hx hd
    rcases hget j x hx with ⟨_, hx⟩ | ⟨_, hx⟩
    · rw [hx] at hd ⊢; rw [e3]; rw [e2] at hd; exact hc.deadC i c h hd
    · exact hc.deadC j x hx hd
  · intro j x hx hd
    rcases hget j x hx with ⟨_, hx⟩ | ⟨_, hx⟩
    · rw [hx] at hd ⊢; exact hdr hd
    · exact hc.drainC j x hx hd
  · intro j x hx hn
    rcases hget j x hx with ⟨hj, hx⟩ | ⟨_, hx⟩
    · rw [hx] at hn ⊢; rw [hj]
      obtain ⟨f1, f2, f3, f4, f5, f6⟩ := hv.fresh i c h (by rw [← e1]; exact hn)
      refine ⟨by rw [e2]; exact f1, f2, f3, by rw [e3]; exact f4, ?_, ?_⟩
      · intro hf
        cases hcf : c.fin
        · exact f5 hcf
        · rw [e6 hcf] at hf; cases hf
      · intro hf hr
        cases hcf : c.fin
        · rw [hnl hf hcf] at hr; simp at hr
        · rw [e7 (Or.inr hcf)] at hr; exact f6 hcf hr
    · exact hv.fresh j x hx hn
  · intro h1 h2
    rcases hv.prog h1 h2 with hr | ⟨j, x, hx, hn⟩
    · exact Or.inl hr
    · right
      by_cases hji : j = i
      · rw [hji, h] at hx; cases hx
        exact ⟨i, c', hself, by rw [e1]; exact hn⟩
      · exact ⟨j, x, by rw [hother j hji]; exact hx, hn⟩


theorem chain_step_set (s : St) (i : Nat) (c c' : Call) (st : Chain.IS) (ev : Chain.Ev)
    (hc : Chain.Inv (chainSlot s)) (h : s.calls[i]? = some c) (hc' : c'.ci = { c.ci with st := st })
    (hstep : Chain.step (chainSlot s) ev = some (Chain.setSt (chainSlot s) i c.ci st)) :
    Chain.Inv (chainSlot (setCall s i c')) := by
  rw [chainSlot_setCall s i c c' h st hc']
  exact Chain.step_inv _ _ ev hc hstep

theorem step_inv_calls (s s' : St) (e : Ev) (hi : Inv s) (hs : step s e = some s')
    (he : match e with
      | .enter _ _ | .giveUp _ | .drained _ | .leave _ _ _ _ _ | .done _ => True
      | _ => False) : Inv s' := by
  cases e <;> simp at he
  case enter i k =>
    simp only [step] at hs; split at hs <;> try simp at hs
    rename_i c h
    obtain ⟨⟨hw, hp, hk⟩, rfl⟩ := hs
    have hf := hi.core.finSt i c h
    have hr := hi.core.resSt i c h
    have hnf : c.fin = false := by
      cases hcf : c.fin
      · rfl
      · have := hf.1 hcf; simp [hw] at this
    have hrn : c.res = none := by
      cases hcr : c.res with
      | none => rfl
      | some r => have := hr (by simp [hcr]); simp [hw] at this
    refine inv_setCall s i c _ _ hi h ?_ rfl rfl rfl rfl rfl (by simp) (by simp) ?_ ?_ ?_ ?_
    · refine chain_step_set s i c _ .running (.proceed i) hi.core.chain h rfl ?_
      simp [Chain.step, chain_get s i c h, hw, predClosed_eq, hp]
    · simp [hnf]
    · simp [hrn]
    · simp [hnf]
    · simp [hnf]
  case giveUp i =>
    simp only [step] at hs; split at hs <;> try simp at hs
    rename_i c h
    obtain ⟨⟨hw, hcn, hp⟩, rfl⟩ := hs
    have hf := hi.core.finSt i c h
    have hr := hi.core.resSt i c h
    have hnf : c.fin = false := by
      cases hcf : c.fin
      · rfl
      · have := hf.1 hcf; simp [hw] at this
    have hrn : c.res = none := by
      cases hcr : c.res with
      | none => rfl
      | some r => have := hr (by simp [hcr]); simp [hw] at this
    have := inv_setCall s i c { c with ci := { c.ci with st := .draining } } s.ninv hi h ?_ rfl rfl rfl rfl rfl
      (by simp) (by simp) ?_ ?_ ?_ ?_
    · exact this
    · refine chain_step_set s i c _ .draining (.giveUp i) hi.core.chain h rfl ?_
      simp [Chain.step, chain_get s i c h, hw, hcn]
    · simp [hnf]
    · simp [hrn]
    · simp [hnf]
    · simp [hcn]
  case drained i =>
    simp only [step] at hs; split at hs <;> try simp at hs
    rename_i c h
    obtain ⟨⟨hw, hp⟩, rfl⟩ := hs
    have hf := hi.core.finSt i c h
    have hr := hi.core.resSt i c h
    have hrn : c.res = none := by
      cases hcr : c.res with
      | none => rfl
      | some r => have := hr (by simp [hcr]); simp [hw] at this
    have := inv_setCall s i c { c with ci := { c.ci with st := .returned }, fin := true } s.ninv hi h ?_ rfl rfl rfl rfl rfl
      (by simp) (by simp) ?_ ?_ ?_ ?_
    · exact this
    · refine chain_step_set s i c _ .returned (.drained i) hi.core.chain h rfl ?_
      simp [Chain.step, chain_get s i c h, hw, predClosed_eq, hp]
    · simp
    · simp
    · simp; intro _; exact hrn
    · intro _; exact hi.core.drainC i c h (Or.inl hw)
  case leave i k val hasRel err =>
    simp only [step] at hs; split at hs <;> try simp at hs
    rename_i c h
    obtain ⟨⟨hw, hk, hv⟩, rfl⟩ := hs
    have hf := hi.core.finSt i c h
    have hr := hi.core.resSt i c h
    have hnf : c.fin = false := by
      cases hcf : c.fin
      · rfl
      · have := hf.1 hcf; simp [hw] at this
    have hrn : c.res = none := by
      cases hcr : c.res with
      | none => rfl
      | some r => have := hr (by simp [hcr]); simp [hw] at this
    have := inv_setCall s i c { c with ci := { c.ci with st := .returned }, res := some (val, hasRel, err) } s.ninv hi h ?_
      rfl rfl rfl rfl rfl (by simp) (by simp [hrn, hnf]) ?_ ?_ ?_ ?_
    · exact this
    · refine chain_step_set s i c _ .returned (.ret i) hi.core.chain h rfl ?_
      simp [Chain.step, chain_get s i c h, hw]
    · simp
    · simp
    · simp [hnf]
    · simp [hnf]
  case done i =>
    simp only [step] at hs; split at hs <;> try simp at hs
    rename_i c h
    obtain ⟨⟨hw, hfin, _⟩, rfl⟩ := hs
    have := inv_setCall s i c { c with ci := { c.ci with st := .closed } } s.ninv hi h ?_
      rfl rfl rfl rfl rfl (by simp) (by simp) ?_ ?_ ?_ ?_
    · exact this
    · refine chain_step_set s i c _ .closed (.close i) hi.core.chain h rfl ?_
      simp [Chain.step, chain_get s i c h, hw]
    · simp [hfin]
    · simp
    · simp [hfin]
    · simp; intro _ hrn; exact hi.core.drainC i c h (Or.inr ⟨hfin, hrn⟩)


/-! ## critical sections -/

/-- the context-free part survives any change of the thread table that keeps `told` right, of the
context and of the owner -/
theorem core_upd (s : St) (th' : List TS) (o : Owner) (c : Nat) (hc : Core s) (hcf : s.cfgd = true)
    (ht : ∀ (a : Nat) (k : CbKind) (pc : Pc) (f sf : Bool) (t : Option Nat),
      th'[a]? = some (.ref k pc true f sf t) → k ≠ .nil → t = s.cur) :
    Core { s with th := th', owner := o, ctx := c } :=
  ⟨by intro h; simp [hcf] at h, hc.chain, hc.nonceLe, hc.nonceLt, hc.lastCh, hc.resCur, hc.curSome, hc.curNone,
   hc.tgtVal, hc.tgtErr, hc.relFin, hc.storedFin, hc.noLeak, hc.finSt, hc.resSt, ht, hc.rcFresh, hc.panicF,
   hc.pendNE, hc.deadC, hc.drainC⟩

theorem cfgd_of_th (s : St) (hc : Core s) (a : Nat) (x : TS) (h : s.th[a]? = some x) : s.cfgd = true := by
  cases hcf : s.cfgd
  · have := (hc.pre hcf).1; simp [this] at h
  · rfl

theorem cfgd_of_call (s : St) (hc : Core s) (i : Nat) (x : Call) (h : s.calls[i]? = some x) : s.cfgd = true := by
  cases hcf : s.cfgd
  · have := (hc.pre hcf).2; simp [this] at h
  · rfl

/-- the call whose nonce is current is unique -/
theorem fresh_unique (s : St) (hc : Core s) (i j : Nat) (ci cj : Call) (hi : s.calls[i]? = some ci)
    (hj : s.calls[j]? = some cj) (h1 : ci.nonce = s.nonce) (h2 : cj.nonce = s.nonce) : i = j := by
  rcases Nat.lt_trichotomy i j with h | h | h
  · have := hc.nonceLt i j ci cj hi hj h; omega
  · exact h
  · have := hc.nonceLt j i cj ci hj hi h; omega

theorem step_inv_misc (s s' : St) (e : Ev) (hi : Inv s) (hs : step s e = some s')
    (he : match e with
      | .cfg _ _ _ | .envCancelCtx _ | .envReleased _ | .relRun _ | .cb _ | .quiesce _ | .probe _ _ => True
      | _ => False) : Inv s' := by
  cases e <;> simp at he
  case cfg keep ctx tgt =>
    simp only [step] at hs; split at hs <;> simp at hs; subst hs
    rename_i hcf
    have hcf : s.cfgd = false := by simpa using hcf
    obtain ⟨hc, hv⟩ := hi
    obtain ⟨hth, hcalls⟩ := hc.pre hcf
    have hcur : s.cur = none := by
      cases hcur : s.cur with
      | none => rfl
      | some i => obtain ⟨c, _, h, _⟩ := hc.curSome i hcur; simp [hcalls] at h
    have hres : s.resolved = false := by rw [hc.resCur, hcur]; rfl
    obtain ⟨h1, h2, h3⟩ := hc.curNone hcur
    refine ⟨⟨by simp, hc.chain, hc.nonceLe, hc.nonceLt, hc.lastCh, hc.resCur, hc.curSome, hc.curNone, ?_, ?_,
      hc.relFin, hc.storedFin, hc.noLeak, hc.finSt, hc.resSt, hc.told, hc.rcFresh, hc.panicF, hc.pendNE, hc.deadC, hc.drainC⟩,
      ⟨?_, ?_, ?_⟩⟩
    · have := hc.tgtVal; simp [h2] at this ⊢; exact this
    · have := hc.tgtErr; simp [h3] at this ⊢; exact this
    · intro i c h; simp [hcalls] at h
    · intro _ h; simp [liveRefs, hth] at h
    · intro h; simp [hres] at h
  case envCancelCtx c =>
    simp only [step] at hs; split at hs <;> simp at hs; subst hs
    rename_i hc0
    obtain ⟨hc, hv⟩ := hi
    have hget : ∀ (j : Nat) (x : Call),
        (s.calls.map fun x => if x.root = c then { x with ci := { x.ci with cancelled := true } } else x)[j]? = some x →
        ∃ y, s.calls[j]? = some y ∧ x = (if y.root = c then { y with ci := { y.ci with cancelled := true } } else y) := by
      intro j x hx
      simp at hx
      obtain ⟨y, hy, hxy⟩ := hx
      exact ⟨y, hy, hxy.symm⟩
    have hsame : ∀ (y : Call), let x := (if y.root = c then { y with ci := { y.ci with cancelled := true } } else y)
        x.nonce = y.nonce ∧ x.root = y.root ∧ x.ci.pred = y.ci.pred ∧ x.ci.st = y.ci.st ∧ x.fin = y.fin ∧
        x.res = y.res ∧ x.released = y.released ∧ x.stored = y.stored ∧
        (y.ci.cancelled = true → x.ci.cancelled = true) ∧ (x.ci.cancelled = true → y.ci.cancelled = true ∨ y.root = c) := by
      intro y; simp only; split <;> simp_all
    refine ⟨⟨?_, ?_, ?_, ?_, ?_, hc.resCur, ?_, hc.curNone, hc.tgtVal, hc.tgtErr, ?_, ?_, ?_, ?_, ?_, hc.told, ?_,
      hc.panicF, hc.pendNE, ?_, ?_⟩, ⟨?_, ?_, hv.kept⟩⟩
    · intro h; have := hc.pre h; simp [this]
    · refine chain_of_pointwise s _ hc.chain rfl (by simp) ?_
      intro j x hx
      obtain ⟨y, hy, rfl⟩ := hget j x hx
      have := hsame y
      exact ⟨y, hy, this.2.2.1.symm, this.2.2.2.1.symm⟩
    · intro j x hx
      obtain ⟨y, hy, rfl⟩ := hget j x hx
      rw [(hsame y).1]; exact hc.nonceLe j y hy
    · intro j k cj ck hj hk hjk
      obtain ⟨y1, hy1, rfl⟩ := hget j cj hj
      obtain ⟨y2, hy2, rfl⟩ := hget k ck hk
      rw [(hsame y1).1, (hsame y2).1]; exact hc.nonceLt j k y1 y2 hy1 hy2 hjk
    · intro l; simp; exact hc.lastCh l
    · intro j hj
      obtain ⟨x, hh, g1, g2, g3, g4, g5, g6, g7⟩ := hc.curSome j hj
      have := hsame x
      refine ⟨_, hh, by simp [g1]; rfl, ?_, ?_, ?_, ?_, g6, ?_⟩
      · rw [this.1]; exact g2
      · rw [this.2.2.2.2.2.2.2.1]; exact g3
      · rw [this.2.2.2.2.1]; exact g4
      · rw [this.2.2.2.2.2.1]; exact g5
      · rw [this.2.2.2.2.2.2.1]; exact g7
    · intro j x hx hr
      obtain ⟨y, hy, rfl⟩ := hget j x hx
      have := hsame y
      rw [this.2.2.2.2.2.2.1] at hr; rw [this.2.2.2.2.1, this.2.2.2.2.2.1]; exact hc.relFin j y hy hr
    · intro j x hx hr
      obtain ⟨y, hy, rfl⟩ := hget j x hx
      have := hsame y
      rw [this.2.2.2.2.2.2.2.1] at hr; rw [this.2.2.2.2.1, this.2.2.2.2.2.1]; exact hc.storedFin j y hy hr
    · intro j x v e hx hf hr hnr
      obtain ⟨y, hy, rfl⟩ := hget j x hx
      have := hsame y
      rw [this.2.2.2.2.1] at hf; rw [this.2.2.2.2.2.1] at hr; rw [this.2.2.2.2.2.2.1] at hnr
      exact hc.noLeak j y v e hy hf hr hnr
    · intro j x hx
      obtain ⟨y, hy, rfl⟩ := hget j x hx
      have := hsame y
      rw [this.2.2.2.2.1, this.2.2.2.1]; exact hc.finSt j y hy
    · intro j x hx
      obtain ⟨y, hy, rfl⟩ := hget j x hx
      have := hsame y
      rw [this.2.2.2.2.2.1, this.2.2.2.1]; exact hc.resSt j y hy
    · intro j hj
      obtain ⟨x, g1, g2⟩ := hc.rcFresh j hj
      exact ⟨_, by simp [g1]; rfl, by rw [(hsame x).1]; exact g2⟩
    · intro j x hx hd
      obtain ⟨y, hy, rfl⟩ := hget j x hx
      have := hsame y
      rw [this.2.1] at hd
      simp at hd
      rcases hd with hd | hd
      · simp [hd]
      · exact this.2.2.2.2.2.2.2.2.1 (hc.deadC j y hy (by simpa using hd))
    · intro j x hx hd
      obtain ⟨y, hy, rfl⟩ := hget j x hx
      have := hsame y
      rw [this.2.2.2.1, this.2.2.2.2.1, this.2.2.2.2.2.1] at hd
      exact this.2.2.2.2.2.2.2.2.1 (hc.drainC j y hy hd)
    · intro j x hx hn
      obtain ⟨y, hy, rfl⟩ := hget j x hx
      have hy' := hsame y
      rw [hy'.1] at hn
      obtain ⟨f1, f2, f3, f4, f5, f6⟩ := hv.fresh j y hy hn
      refine ⟨by rw [hy'.2.1]; exact f1, f2, f3, ?_, ?_, ?_⟩
      · intro hcn
        rcases hy'.2.2.2.2.2.2.2.2.2 hcn with h1 | h1
        · have := f4 h1; simp at this ⊢; exact Or.inr this
        · simp; left; rw [← f1, h1]
      · rw [hy'.2.2.2.2.1]; exact f5
      · rw [hy'.2.2.2.2.1, hy'.2.2.2.2.2.1]; exact f6
    · intro h1 h2
      rcases hv.prog h1 h2 with hr | ⟨j, x, hx, hn⟩
      · exact Or.inl hr
      · exact Or.inr ⟨j, _, by simp [hx]; rfl, by rw [(hsame x).1]; exact hn⟩
  case envReleased k =>
    simp only [step] at hs; split at hs <;> simp at hs; subst hs
    exact inv_misc s hi s.owner s.ninv _ s.pend hi.core.pendNE
  case relRun j =>
    simp only [step] at hs; split at hs <;> try simp at hs
    split at hs <;> try simp at hs
    split at hs <;> simp at hs <;> obtain ⟨_, rfl⟩ := hs
    · exact startResolve_inv _ (inv_misc s hi .other s.ninv _ s.pend hi.core.pendNE).core
    · exact inv_misc s hi .other s.ninv _ s.pend hi.core.pendNE
  case cb it =>
    simp only [step] at hs; split at hs <;> try simp at hs
    rename_i b rest hp
    obtain ⟨_, rfl⟩ := hs
    refine inv_misc s hi s.owner s.ninv s.relRuns _ ?_
    intro x hx
    have hne := hi.core.pendNE
    rw [hp] at hne
    split at hx
    · exact hne x (by simp [hx])
    · rename_i hb
      simp at hx
      rcases hx with hx | hx
      · rw [hx]; intro e
        exact hb (List.erase_eq_nil_iff.mp e)
      · exact hne x (by simp [hx])
  case quiesce B =>
    simp only [step] at hs; split at hs <;> simp at hs; subst hs; exact hi
  case probe v e =>
    simp only [step] at hs; split at hs <;> simp at hs; subst hs; exact hi

end UtilModel.RefCount
