import UtilModel.RefCount.Frame5
/-!
# refcount: the `self` mark of a reference entry changes only by its own `selfRelSwap` / `selfRelCS`
-/
set_option linter.unusedSimpArgs false
set_option linter.unusedVariables false
namespace UtilModel.RefCount
open UtilModel

def SelfSame (th th' : List TS) : Prop :=
  ∀ (a : Nat) (k : CbKind) (pc : Pc) (l f sf : Bool) (t : Option Nat), th[a]? = some (TS.ref k pc l f sf t) →
    ∃ pc' l' f' t', th'[a]? = some (TS.ref k pc' l' f' sf t')

theorem selfSame_refl (th : List TS) : SelfSame th th := fun a k pc l f sf t h => ⟨pc, l, f, t, h⟩

theorem selfSame_trans (t1 t2 t3 : List TS) (h1 : SelfSame t1 t2) (h2 : SelfSame t2 t3) : SelfSame t1 t3 := by
  intro a k pc l f sf t h
  obtain ⟨pc', l', f', t', h'⟩ := h1 a k pc l f sf t h
  exact h2 a k pc' l' f' sf t' h'

theorem selfSame_tellAll (th : List TS) (t0 : Option Nat) : SelfSame th (tellAll th t0) := by
  intro a k pc l f sf t h
  rw [tellAll_get, h]
  cases l
  · exact ⟨pc, false, f, t, by simp [tell1]⟩
  · by_cases hk : k = .nil
    · exact ⟨pc, true, f, t, by simp [tell1, hk]⟩
    · exact ⟨pc, true, f, t0, by simp [tell1, hk]⟩

theorem selfSame_append (th : List TS) (x : TS) : SelfSame th (th ++ [x]) :=
  fun a k pc l f sf t h => ⟨pc, l, f, t, getElem?_snoc_left _ _ _ _ h⟩

theorem selfSame_set_other (th : List TS) (r : Nat) (new : TS)
    (h : ∀ k pc l f sf t, th[r]? ≠ some (TS.ref k pc l f sf t)) : SelfSame th (th.set r new) := by
  intro a k pc l f sf t ha
  have : r ≠ a := by intro e; subst e; exact h k pc l f sf t ha
  exact ⟨pc, l, f, t, by rw [getElem?_set_ne' _ _ _ _ this]; exact ha⟩

theorem selfSame_set_ref (th : List TS) (a : Nat) (k : CbKind) (pc pc' : Pc) (l l' f f' sf : Bool) (t t' : Option Nat)
    (h : th[a]? = some (TS.ref k pc l f sf t)) : SelfSame th (th.set a (TS.ref k pc' l' f' sf t')) := by
  intro b k2 pc2 l2 f2 sf2 t2 hb
  by_cases hab : a = b
  · subst hab
    rw [h] at hb; cases hb
    exact ⟨pc', l', f', t', by simp [lt_of_getElem? h]⟩
  · exact ⟨pc2, l2, f2, t2, by rw [getElem?_set_ne' _ _ _ _ hab]; exact hb⟩

theorem selfSame_shutdown (s0 : St) : SelfSame s0.th (shutdown s0).th := by
  rw [shutdown_th]; split
  · exact selfSame_tellAll _ _
  · exact selfSame_refl _

theorem selfSame_startResolve (s0 : St) : SelfSame s0.th (startResolve s0).th := by
  rw [startResolve_th]; exact selfSame_shutdown s0

theorem selfSame_afterRemove (s0 : St) : SelfSame s0.th (afterRemove s0).th := by
  unfold afterRemove
  split
  · split
    · exact selfSame_shutdown s0
    · exact selfSame_refl _
  · exact selfSame_refl _

theorem self_frame (s s' : St) (e : Ev) (hs : step s e = some s') (a : Nat) (k : CbKind) (pc : Pc) (l f sf : Bool)
    (t : Option Nat) (h : s.th[a]? = some (TS.ref k pc l f sf t)) (h1 : e ≠ .selfRelSwap a) (h2 : e ≠ .selfRelCS a) :
    ∃ pc' l' f' t', s'.th[a]? = some (TS.ref k pc' l' f' sf t') := by
  have nr_rel : ∀ (r r2 : Nat) (p : RelPc), s.th[r]? = some (TS.rel r2 p) →
      ∀ k pc l f sf t, s.th[r]? ≠ some (TS.ref k pc l f sf t) := by
    intro r r2 p hr k pc l f sf t e0; rw [hr] at e0; cases e0
  have nr_ctx : ∀ (r c : Nat) (cl : Bool) (p : Pc) (u : Bool), s.th[r]? = some (TS.ctx c cl p u) →
      ∀ k pc l f sf t, s.th[r]? ≠ some (TS.ref k pc l f sf t) := by
    intro r c cl p u hr k pc l f sf t e0; rw [hr] at e0; cases e0
  by_cases hsw : ∃ a0, e = .selfRelSwap a0
  · obtain ⟨a0, rfl⟩ := hsw
    have hne : a0 ≠ a := by intro e0; subst e0; exact h1 rfl
    simp only [step] at hs; split at hs <;> try simp at hs
    obtain ⟨_, hs⟩ := hs
    split at hs <;> simp at hs <;> subst hs
    · exact ⟨pc, l, f, t, h⟩
    · exact ⟨pc, l, f, t, by rw [getElem?_set_ne' _ _ _ _ hne]; exact h⟩
  by_cases hcs : ∃ a0, e = .selfRelCS a0
  · obtain ⟨a0, rfl⟩ := hcs
    have hne : a0 ≠ a := by intro e0; subst e0; exact h2 rfl
    simp only [step] at hs; split at hs <;> try simp at hs
    rename_i pc0 flag0 told0 ha0
    obtain ⟨_, rfl⟩ := hs
    exact selfSame_afterRemove { s with th := s.th.set a0 (.ref .hook pc0 false flag0 false told0), owner := .self a0 }
      a k pc l f sf t (by show (s.th.set a0 _)[a]? = _; rw [getElem?_set_ne' _ _ _ _ hne]; exact h)
  suffices hsame : SelfSame s.th s'.th from hsame a k pc l f sf t h
  cases e with
  | selfRelSwap a0 => exact absurd ⟨a0, rfl⟩ hsw
  | selfRelCS a0 => exact absurd ⟨a0, rfl⟩ hcs
  | cfg kp c t => simp only [step] at hs; split at hs <;> simp at hs; subst hs; exact selfSame_refl _
  | envCancelCtx c => simp only [step] at hs; split at hs <;> simp at hs; subst hs; exact selfSame_refl _
  | envReleased k => simp only [step] at hs; split at hs <;> simp at hs; subst hs; exact selfSame_refl _
  | quiesce B => simp only [step] at hs; split at hs <;> simp at hs; subst hs; exact selfSame_refl _
  | probe v er => simp only [step] at hs; split at hs <;> simp at hs; subst hs; exact selfSame_refl _
  | cb it =>
    simp only [step] at hs; split at hs <;> try simp at hs
    obtain ⟨_, rfl⟩ := hs; exact selfSame_refl _
  | enter i k =>
    simp only [step] at hs; split at hs <;> try simp at hs
    obtain ⟨_, rfl⟩ := hs; exact selfSame_refl _
  | giveUp i =>
    simp only [step] at hs; split at hs <;> try simp at hs
    obtain ⟨_, rfl⟩ := hs; exact selfSame_refl _
  | drained i =>
    simp only [step] at hs; split at hs <;> try simp at hs
    obtain ⟨_, rfl⟩ := hs; exact selfSame_refl _
  | leave i k v hr er =>
    simp only [step] at hs; split at hs <;> try simp at hs
    obtain ⟨_, rfl⟩ := hs; exact selfSame_refl _
  | done i =>
    simp only [step] at hs; split at hs <;> try simp at hs
    obtain ⟨_, rfl⟩ := hs; exact selfSame_refl _
  | store i =>
    simp only [step] at hs; split at hs <;> try simp at hs
    split at hs <;> try simp at hs
    obtain ⟨_, hs⟩ := hs
    split at hs
    · simp at hs; subst hs; exact selfSame_tellAll _ _
    · split at hs <;> simp at hs <;> subst hs <;> exact selfSame_refl _
  | relRun r =>
    simp only [step] at hs; split at hs <;> try simp at hs
    split at hs <;> try simp at hs
    split at hs <;> simp at hs <;> obtain ⟨_, rfl⟩ := hs
    · exact selfSame_startResolve { s with relRuns := s.relRuns.eraseIdx r, owner := .other }
    · exact selfSame_refl _
  | invAddRef a k => simp only [step] at hs; split at hs <;> simp at hs; subst hs; exact selfSame_append _ _
  | invHook a => simp only [step] at hs; split at hs <;> simp at hs; subst hs; exact selfSame_append _ _
  | invRelease b r =>
    simp only [step] at hs; split at hs <;> try simp at hs
    split at hs <;> try simp at hs
    subst hs; exact selfSame_append _ _
  | invSetCtx a c cl => simp only [step] at hs; split at hs <;> simp at hs; subst hs; exact selfSame_append _ _
  | retAddRef a =>
    simp only [step] at hs; split at hs <;> try simp at hs
    rename_i k l f sf t ha
    obtain ⟨_, rfl⟩ := hs
    exact selfSame_set_ref _ _ _ _ _ _ _ _ _ _ _ _ ha
  | retRelease b =>
    simp only [step] at hs; split at hs <;> try simp at hs
    rename_i r hb
    obtain ⟨_, rfl⟩ := hs
    exact selfSame_set_other _ _ _ (nr_rel _ _ _ hb)
  | retSetCtx a0 u0 =>
    simp only [step] at hs; split at hs <;> try simp at hs
    rename_i c0 cl0 u2 ha
    obtain ⟨_, rfl⟩ := hs
    exact selfSame_set_other _ _ _ (nr_ctx _ _ _ _ _ ha)
  | relSwap b =>
    simp only [step] at hs; split at hs <;> try simp at hs
    rename_i r hb
    split at hs <;> simp at hs <;> subst hs
    · rename_i k pc l sf t hr
      have hne' : r ≠ b := by intro e; subst e; rw [hb] at hr; cases hr
      refine selfSame_trans _ _ _ (selfSame_set_ref _ r _ _ _ _ _ _ _ _ _ _ hr) (selfSame_set_other _ b _ ?_)
      intro k pc l f sf t e
      rw [getElem?_set_ne' _ _ _ _ hne', hb] at e; cases e
    · exact selfSame_set_other _ _ _ (nr_rel _ _ _ hb)
  | setCtxCS a0 =>
    simp only [step] at hs; split at hs <;> try simp at hs
    rename_i c0 cl0 u0 ha0
    split at hs <;> simp at hs <;> obtain ⟨_, rfl⟩ := hs
    · exact selfSame_set_other _ _ _ (nr_ctx _ _ _ _ _ ha0)
    · exact selfSame_trans _ _ _ (selfSame_set_other _ a0 _ (nr_ctx _ _ _ _ _ ha0))
        (selfSame_startResolve { s with ctx := c0, th := s.th.set a0 (.ctx c0 cl0 .done true), owner := .thr a0 })
  | addRefCS a =>
    simp only [step] at hs; split at hs <;> try simp at hs
    rename_i k ha
    obtain ⟨_, hs⟩ := hs
    have h1 : ∀ t, SelfSame s.th (s.th.set a (TS.ref k .done true false false t)) := fun t =>
      selfSame_set_ref _ _ _ _ _ _ _ _ _ _ _ _ ha
    split at hs
    · simp at hs; subst hs
      exact selfSame_trans _ _ _ (h1 none)
        (selfSame_startResolve { s with th := s.th.set a (.ref k .done true false false none), owner := .thr a })
    · split at hs <;> simp at hs <;> subst hs
      · simp only [List.set_set]; exact h1 s.cur
      · exact h1 none
  | relCS b =>
    simp only [step] at hs; split at hs <;> try simp at hs
    rename_i r hb
    split at hs <;> try simp at hs
    case h_2 =>
      obtain ⟨_, rfl⟩ := hs
      exact selfSame_set_other _ _ _ (nr_rel _ _ _ hb)
    rename_i k pc flag self told hr
    obtain ⟨_, rfl⟩ := hs
    have hne' : r ≠ b := by intro e; subst e; rw [hb] at hr; cases hr
    have h2 : SelfSame s.th ((s.th.set r (TS.ref k pc false flag self told)).set b (TS.rel r .done)) := by
      refine selfSame_trans _ _ _ (selfSame_set_ref _ r _ _ _ _ _ _ _ _ _ _ hr) (selfSame_set_other _ b _ ?_)
      intro k pc l f sf t e
      rw [getElem?_set_ne' _ _ _ _ hne', hb] at e; cases e
    exact selfSame_trans _ _ _ h2
      (selfSame_afterRemove { s with th := (s.th.set r (.ref k pc false flag self told)).set b (.rel r .done), owner := .thr b })

end UtilModel.RefCount
