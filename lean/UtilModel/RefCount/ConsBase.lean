import UtilModel.RefCount.ConsLift
import UtilModel.RefCount.ObsProg
/-!
# refcount consumers: base-model invariants tied to the state of `monC10`, along steps of the composed model
-/
set_option linter.unusedSimpArgs false
set_option linter.unusedVariables false
namespace UtilModel.RefCount
open UtilModel

/-- the current value is dropped only by a context change, a `released()` section, or the release of
the last reference -/
theorem drop_cases (s s' : St) (e : Ev) (hi : Inv s) (hs : step s e = some s') (i : Nat)
    (hc : s.cur = some i) (hc' : s'.cur = none) :
    (∃ a, e = .setCtxCS a) ∨ (∃ j, e = .relRun j) ∨
    ((∃ b, e = .relCS b ∨ e = .selfRelCS b) ∧ liveRefs s' = 0) := by
  have hres : s.resolved = true := by rw [hi.core.resCur, hc]; rfl
  have hl : isLock e = true := by
    cases hl : isLock e
    · have := (nonlock_frame s s' e hs hl).2.1; rw [hc, hc'] at this; cases this
    · rfl
  have after : ∀ s0 : St, s0.cur = some i → (afterRemove s0).cur = none → liveRefs (afterRemove s0) = 0 := by
    intro s0 h0 h1
    have key : liveRefs s0 = 0 ∧ afterRemove s0 = shutdown s0 := by
      unfold afterRemove at h1 ⊢
      split at h1
      · rename_i hz
        split at h1
        · rename_i hn; exact ⟨hz, by rw [if_pos hz, if_pos hn]⟩
        · rw [h0] at h1; cases h1
      · rw [h0] at h1; cases h1
    rw [key.2]; simp [key.1]
  cases e with
  | setCtxCS a => exact Or.inl ⟨a, rfl⟩
  | relRun j => exact Or.inr (Or.inl ⟨j, rfl⟩)
  | relCS b =>
    refine Or.inr (Or.inr ⟨⟨b, Or.inl rfl⟩, ?_⟩)
    simp only [step] at hs; split at hs <;> try simp at hs
    split at hs <;> try simp at hs
    case h_2 => obtain ⟨_, rfl⟩ := hs; simp at hc'; rw [hc] at hc'; cases hc'
    obtain ⟨_, rfl⟩ := hs
    exact after _ hc hc'
  | selfRelCS a =>
    refine Or.inr (Or.inr ⟨⟨a, Or.inr rfl⟩, ?_⟩)
    simp only [step] at hs; split at hs <;> try simp at hs
    obtain ⟨_, rfl⟩ := hs
    exact after _ hc hc'
  | addRefCS a =>
    exfalso
    simp only [step] at hs; split at hs <;> try simp at hs
    obtain ⟨_, hs⟩ := hs
    split at hs
    · rename_i hcnd; simp [hres] at hcnd
    · split at hs <;> simp at hs <;> subst hs <;> (simp at hc'; rw [hc] at hc'; cases hc')
  | store j =>
    exfalso
    simp only [step] at hs; split at hs <;> try simp at hs
    split at hs <;> try simp at hs
    obtain ⟨_, hs⟩ := hs
    split at hs
    · simp at hs; subst hs; simp [setCall] at hc'
    · split at hs <;> simp at hs <;> subst hs <;> (simp [setCall] at hc'; rw [hc] at hc'; cases hc')
  | _ => simp [isLock] at hl

namespace Cons

/-! ## the clauses -/

def ResOk (b : St) (rv : List (Nat × Nat)) : Prop :=
  ∀ (i : Nat) (c : Call) (v : Nat) (h : Bool) (e : Nat), b.calls[i]? = some c → c.res = some (v, h, e) → (v, e) ∈ rv

def ZeroOk (b : St) (ze : List Nat) : Prop :=
  ∀ (i : Nat) (c : Call) (h : Bool) (k : Nat), b.calls[i]? = some c → c.res = some (0, h, 0) → c.inv = some k → k ∈ ze

def ItemOk (b : St) (m : C10St) : Prop :=
  ∀ (r : Nat) (vis res : Bool) (v e : Nat), CbItem.refcb r vis res v e ∈ b.pend.flatten →
    (res = true → ∃ (i : Nat) (c : Call) (h : Bool), b.cur = some i ∧ b.calls[i]? = some c ∧ c.res = some (v, h, e)) ∧
    (res = false → b.cur = none ∧ v = 0 ∧ e = 0 ∧ (m.inval ≠ [] ∨ m.anyCtx = true))

def RelSeenOk (b : St) (rs : List Nat) : Prop :=
  ∀ k ∈ rs, ∃ (i : Nat) (c : Call), b.calls[i]? = some c ∧ c.inv = some k ∧ c.released = true

def CtxAny (b : St) (ac : Bool) : Prop :=
  ∀ (a c : Nat) (cl : Bool) (pc : Pc) (u : Bool), b.th[a]? = some (TS.ctx c cl pc u) → ac = true

structure BInv (b : St) (m : C10St) : Prop where
  inv : Inv b
  idx : Idx b
  thi : ThInv b.th
  pend : PendOk b
  acct : AcctOk b
  val : ValOk b
  rlast : RelLast b.pend
  runs : RunsOk b m.inval
  ctx : CtxOk b m.ctxCalls
  just : JOk b m.inval m.ctxCalls
  inval : InvalOk b m.inval
  res : ResOk b m.resVals
  zero : ZeroOk b m.zeroEntries
  item : ItemOk b m
  seen : RelSeenOk b m.relSeen
  any : CtxAny b m.anyCtx

/-- how the monitor fields that concern the base model move along base event `be` -/
structure BDelta (be : Ev) (m m' : C10St) : Prop where
  inval_sub : ∀ k, k ∈ m.inval → k ∈ m'.inval
  inval_new : ∀ k, be = .envReleased k → k ∈ m'.inval
  inval_back : ∀ k, k ∈ m'.inval → k ∈ m.inval ∨ be = .envReleased k
  cc_sub : ∀ a, a ∈ m.ctxCalls → (∀ r, be ≠ .retSetCtx a r) → a ∈ m'.ctxCalls
  cc_new : ∀ a c cl, be = .invSetCtx a c cl → a ∈ m'.ctxCalls
  any_sub : m.anyCtx = true → m'.anyCtx = true
  any_new : ∀ a c cl, be = .invSetCtx a c cl → m'.anyCtx = true
  res_sub : ∀ p, p ∈ m.resVals → p ∈ m'.resVals
  res_new : ∀ j k v h e, be = .leave j k v h e → (v, e) ∈ m'.resVals
  zero_sub : ∀ k, k ∈ m.zeroEntries → k ∈ m'.zeroEntries
  zero_new : ∀ j k h, be = .leave j k 0 h 0 → k ∈ m'.zeroEntries
  seen_back : ∀ k, k ∈ m'.relSeen → k ∈ m.relSeen ∨ ∃ i seen, be = .cb (.rel i k seen)

theorem bdelta_refl (be : Ev) (m : C10St) (h1 : ∀ k, be ≠ .envReleased k) (h2 : ∀ a c cl, be ≠ .invSetCtx a c cl)
    (h3 : ∀ j k v h e, be ≠ .leave j k v h e) : BDelta be m m :=
  ⟨fun _ h => h, fun k he => absurd he (h1 k), fun _ h => Or.inl h, fun _ h _ => h,
    fun a c cl he => absurd he (h2 a c cl), fun h => h, fun a c cl he => absurd he (h2 a c cl),
    fun _ h => h, fun j k v h e he => absurd he (h3 j k v h e), fun _ h => h,
    fun j k h he => absurd he (h3 j k 0 h 0), fun _ h => Or.inl h⟩

theorem resOk_step (b b' : St) (be : Ev) (rv rv' : List (Nat × Nat)) (h : ResOk b rv) (hs : step b be = some b')
    (hsub : ∀ p, p ∈ rv → p ∈ rv') (hnew : ∀ j k v h e, be = .leave j k v h e → (v, e) ∈ rv') : ResOk b' rv' := by
  obtain ⟨f1, _, _⟩ := calls_frame b b' be hs
  intro i c' v hh e hc' hr
  rcases f1 i c' hc' with ⟨c, hc, hstep⟩ | ⟨_, _, hnr, _⟩
  · rcases hstep.2.1 with hsame | ⟨_, k, v2, h2, e2, he, _, hres, _⟩
    · exact hsub _ (h i c v hh e hc (by rw [← hsame]; exact hr))
    · rw [hr] at hres; cases hres
      exact hnew i k v hh e he
  · rw [hnr] at hr; cases hr

theorem zeroOk_step (b b' : St) (be : Ev) (ze ze' : List Nat) (hi : Inv b) (h : ZeroOk b ze) (hs : step b be = some b')
    (hsub : ∀ k, k ∈ ze → k ∈ ze') (hnew : ∀ j k h, be = .leave j k 0 h 0 → k ∈ ze') : ZeroOk b' ze' := by
  obtain ⟨f1, _, _⟩ := calls_frame b b' be hs
  intro i c' hh k hc' hr hk
  rcases f1 i c' hc' with ⟨c, hc, hstep⟩ | ⟨_, _, hnr, _⟩
  · rcases hstep.2.1 with hsame | ⟨hrun, k2, v2, h2, e2, he, hck, hres, _⟩
    · have hinv : c.inv = some k := by
        rcases hstep.1 with h1 | ⟨hw, _, _⟩
        · rw [← h1]; exact hk
        · -- the call was waiting, so it had no result
          exfalso
          have : c.res = some (0, hh, 0) := by rw [← hsame]; exact hr
          have hst := hi.core.resSt i c hc (by simp [this])
          rw [hw] at hst; rcases hst with h0 | h0 <;> cases h0
      exact hsub k (h i c hh k hc (by rw [← hsame]; exact hr) hinv)
    · rw [hr] at hres; cases hres
      have hinv : c'.inv = c.inv := by
        rcases hstep.1 with h1 | ⟨hw, _, _⟩
        · exact h1
        · rw [hw] at hrun; cases hrun
      rw [hinv, hck] at hk; cases hk
      exact hnew i k hh he
  · rw [hnr] at hr; cases hr

theorem ctxAny_step (b b' : St) (be : Ev) (ac ac' : Bool) (h : CtxAny b ac) (hs : step b be = some b')
    (hsub : ac = true → ac' = true) (hnew : ∀ a c cl, be = .invSetCtx a c cl → ac' = true) : CtxAny b' ac' := by
  obtain ⟨f1, _⟩ := th_frame b b' be hs
  intro a c cl pc u ha
  rcases f1 a _ ha with ⟨x, hx0, hst⟩ | ⟨_, hnw⟩
  · cases x with
    | ref k0 pc0 l0 f0 sf0 t0 => simp [ThStep] at hst
    | rel r0 pc0 => simp [ThStep] at hst
    | ctx c0 cl0 pc0 u0 => exact hsub (h a c0 cl0 pc0 u0 hx0)
  · rcases hnw with ⟨k0, _, _, hx'⟩ | ⟨_, hx'⟩ | ⟨r, _, hx'⟩ | ⟨c1, cl1, he, hx'⟩
    · cases hx'
    · cases hx'
    · cases hx'
    · exact hnew a c1 cl1 he

theorem relSeenOk_step (b b' : St) (be : Ev) (rs rs' : List Nat) (hi : Inv b) (hp : PendOk b) (ha : AcctOk b)
    (h : RelSeenOk b rs) (hs : step b be = some b')
    (hback : ∀ k, k ∈ rs' → k ∈ rs ∨ ∃ i seen, be = .cb (.rel i k seen)) : RelSeenOk b' rs' := by
  obtain ⟨f1, f2, _⟩ := calls_frame b b' be hs
  have persist : ∀ (i : Nat) (c : Call) (k : Nat), b.calls[i]? = some c → c.inv = some k → c.released = true →
      ∃ c', b'.calls[i]? = some c' ∧ c'.inv = some k ∧ c'.released = true := by
    intro i c k hc hk hr
    obtain ⟨c', hc'⟩ := f2 i c hc
    rcases f1 i c' hc' with ⟨c0, hc0, hstep⟩ | ⟨hn, _⟩
    · rw [hc] at hc0; cases hc0
      refine ⟨c', hc', ?_, hstep.2.2.1 hr⟩
      rcases hstep.1 with h1 | ⟨hw, _, _⟩
      · rw [h1]; exact hk
      · exfalso
        obtain ⟨_, v, e, hres⟩ := hi.core.relFin i c hc hr
        have hst := hi.core.resSt i c hc (by simp [hres])
        rw [hw] at hst; rcases hst with h0 | h0 <;> cases h0
    · rw [hc] at hn; cases hn
  intro k hk
  rcases hback k hk with h0 | ⟨i, seen, rfl⟩
  · obtain ⟨i, c, hc, hck, hr⟩ := h k h0
    obtain ⟨c', hc', g1, g2⟩ := persist i c k hc hck hr
    exact ⟨i, c', hc', g1, g2⟩
  · have hs0 := hs
    simp only [step] at hs0; split at hs0 <;> try simp at hs0
    rename_i bt rest hpe
    have hin : relIn b.pend i k := ⟨bt, by rw [hpe]; simp, seen, hs0.1⟩
    obtain ⟨c, hc, hck⟩ := hp i k hin
    have hone : 0 < relItems b.pend i := by
      rw [hpe, relItems_cons]
      have : 0 < bt.countP (CbItem.isRel i) := by
        rw [List.countP_pos_iff]; exact ⟨_, hs0.1, by simp [CbItem.isRel]⟩
      omega
    have hrel : c.released = true := by
      have := ha i
      cases hr : released b i
      · rw [hr] at this; simp [b2n] at this; omega
      · simpa [released, hc] using hr
    obtain ⟨c', hc', g1, g2⟩ := persist i c k hc hck hrel
    exact ⟨i, c', hc', g1, g2⟩

theorem itemOk_step (b b' : St) (be : Ev) (m m' : C10St) (hi : Inv b) (hi' : Inv b') (hx : Idx b)
    (hruns : RunsOk b m.inval) (hany : CtxAny b m.anyCtx) (h : ItemOk b m) (hs : step b be = some b')
    (hw : (m.inval ≠ [] ∨ m.anyCtx = true) → (m'.inval ≠ [] ∨ m'.anyCtx = true)) : ItemOk b' m' := by
  intro r vis res v e hmem
  rcases items_frame b b' be hi hs _ hmem with hold | hnew
  · have hl : isLock be = false := by
      cases hl : isLock be
      · rfl
      · have := lock_free b b' be hs hl; rw [this] at hold; simp at hold
    have hcur := (nonlock_frame b b' be hs hl).2.1
    obtain ⟨g1, g2⟩ := h r vis res v e hold
    refine ⟨?_, ?_⟩
    · intro hr
      obtain ⟨i, c, hh, hc0, hc, hres⟩ := g1 hr
      obtain ⟨c', hc', _, k2⟩ := call_persist b b' be hi hx hs i c hc
      exact ⟨i, c', hh, by rw [hcur]; exact hc0, hc', by rw [k2 (by simp [hres]), hres]⟩
    · intro hr
      obtain ⟨k1, k2, k3, k4⟩ := g2 hr
      exact ⟨by rw [hcur]; exact k1, k2, k3, hw k4⟩
  · cases res with
    | true =>
      refine ⟨fun _ => ?_, (fun h0 => by cases h0)⟩
      obtain ⟨k, pc1, f1, sf1, t1, i1, _, _, _, hcur, hv, he⟩ := newItem_deliver b b' r vis v e hnew
      obtain ⟨c, hh, k1, _, _, _, k5, _⟩ := hi'.core.curSome i1 hcur
      exact ⟨i1, c, hh, hcur, k1, by rw [hv, he]; exact k5⟩
    | false =>
      refine ⟨(fun h0 => by cases h0), fun _ => ?_⟩
      obtain ⟨k, pc1, f1, sf1, t1, hth, _, _, hcn, hres, hv, he⟩ := newItem_gone b b' r vis v e hnew
      refine ⟨hcn, hv, he, hw ?_⟩
      have hcs : b.cur.isSome = true := by rw [← hi.core.resCur]; exact hres
      obtain ⟨i0, hi0⟩ := Option.isSome_iff_exists.mp hcs
      rcases drop_cases b b' be hi hs i0 hi0 hcn with ⟨a, rfl⟩ | ⟨j, rfl⟩ | ⟨_, hz⟩
      · obtain ⟨_, ⟨c, cl, u0, g2⟩, _⟩ := setCtx_facts b b' a hs
        exact Or.inr (hany a c cl .inv u0 g2)
      · left
        have hs0 := hs
        simp only [step] at hs0; split at hs0 <;> try simp at hs0
        rename_i i1 hj
        obtain ⟨c, k0, _, _, hm⟩ := hruns i1 (List.mem_of_getElem? hj)
        intro hnil; rw [hnil] at hm; cases hm
      · exfalso
        have := liveRefs_of b' r k pc1 f1 sf1 t1 hth
        omega

theorem bInv_step (b b' : St) (be : Ev) (m m' : C10St) (h : BInv b m) (hs : step b be = some b')
    (d : BDelta be m m') : BInv b' m' := by
  have hi' := step_inv b be b' h.inv hs
  have hx' := idx_step b b' be h.idx hs
  have hp' := pendOk_step b b' be h.inv h.idx h.pend hs
  exact
    { inv := hi'
      idx := hx'
      thi := step_thinv b b' be h.thi hs
      pend := hp'
      acct := acctOk_step b b' be h.inv h.acct hs
      val := valOk_step b b' be h.inv h.idx h.val hs
      rlast := relLast_step b b' be h.rlast hs
      runs := runsOk_step b b' be _ _ h.inv h.idx h.runs hs d.inval_sub d.inval_new
      ctx := ctxOk_step b b' be _ _ h.ctx hs d.cc_sub d.cc_new
      just := jOk_step b b' be _ _ _ _ h.inv h.idx hp' h.runs h.ctx h.just hs d.inval_sub d.cc_sub
      inval := invalOk_step b b' be _ _ h.inv h.idx h.inval hs d.inval_back
      res := resOk_step b b' be _ _ h.res hs d.res_sub d.res_new
      zero := zeroOk_step b b' be _ _ h.inv h.zero hs d.zero_sub d.zero_new
      item := itemOk_step b b' be m m' h.inv hi' h.idx h.runs h.any h.item hs (by
        intro hw
        rcases hw with hw | hw
        · left
          intro hnil
          cases hl : m.inval with
          | nil => exact hw hl
          | cons k ks =>
            have := d.inval_sub k (by rw [hl]; exact List.mem_cons_self)
            rw [hnil] at this; cases this
        · exact Or.inr (d.any_sub hw))
      seen := relSeenOk_step b b' be _ _ h.inv h.pend h.acct h.seen hs d.seen_back
      any := ctxAny_step b b' be _ _ h.any hs d.any_sub d.any_new }

/-- marking a `hook` thread entry as returned keeps the base-side invariants -/
theorem bInv_keep (b : St) (m : C10St) (a : Nat) (pc : Pc) (live flag self : Bool) (told : Option Nat)
    (h : BInv b m) (hth : b.th[a]? = some (TS.ref .hook pc live flag self told)) :
    BInv { b with th := b.th.set a (TS.ref .hook .retd live flag self told) } m := by
  have other : ∀ (r : Nat) (x : TS), r ≠ a → b.th[r]? = some x →
      (b.th.set a (TS.ref .hook .retd live flag self told))[r]? = some x := by
    intro r x hr hx; rw [getElem?_set_ne' _ _ _ _ (Ne.symm hr)]; exact hx
  have back : ∀ (r : Nat) (x : TS), (b.th.set a (TS.ref .hook .retd live flag self told))[r]? = some x →
      (r = a ∧ x = TS.ref .hook .retd live flag self told) ∨ (r ≠ a ∧ b.th[r]? = some x) :=
    fun r x hx => getElem?_set_cases b.th a r _ x hx
  exact
    { inv := inv_ref_upd b a .hook pc .retd live flag flag self self told b.owner h.inv hth
      idx := ⟨h.idx.lt, h.idx.inj, h.idx.wait, h.idx.res⟩
      thi := thinv_set _ h.thi a _ _ hth (by intro _ _ _ _ _ he; cases he) (by intro _ _ he; cases he)
        (by intro _ _ _ _ _ he; cases he; exact ⟨_, _, _, _, rfl⟩)
      pend := h.pend
      acct := h.acct
      val := h.val
      rlast := h.rlast
      runs := h.runs
      ctx := by
        intro a' c cl pc' u ha' hpc
        rcases back a' _ ha' with ⟨_, he⟩ | ⟨_, h0⟩
        · cases he
        · exact h.ctx a' c cl pc' u h0 hpc
      just := by
        intro i k seen hmem
        rcases h.just i k seen hmem with h0 | ⟨a', ho, ha', c, cl, u, hth'⟩ | h0 | h0
        · exact Or.inl h0
        · refine Or.inr (Or.inl ⟨a', ho, ha', c, cl, u, ?_⟩)
          have hne : a' ≠ a := by intro e; subst e; rw [hth] at hth'; cases hth'
          exact other a' _ hne hth'
        · refine Or.inr (Or.inr (Or.inl ?_))
          intro r x hx
          rcases back r x hx with ⟨hra, he⟩ | ⟨_, h1⟩
          · subst hra; subst he
            have := h0 r _ hth
            simpa [TS.isLive] using this
          · exact h0 r x h1
        · exact Or.inr (Or.inr (Or.inr h0))
      inval := h.inval
      res := h.res
      zero := h.zero
      item := h.item
      seen := h.seen
      any := by
        intro a' c cl pc' u ha'
        rcases back a' _ ha' with ⟨_, he⟩ | ⟨_, h0⟩
        · cases he
        · exact h.any a' c cl pc' u h0 }

end Cons
end UtilModel.RefCount
