import UtilModel.Conc.Model
/-!
# conc — the inductive invariant, part 1: jobs, workers, queue, counters (for every event list)
-/
namespace UtilModel.Conc
open UtilModel

/-- worker goroutines counted by `running` -/
def WSt.live : WSt → Bool
  | .retired => false
  | _ => true

def WSt.isHasJob : WSt → Bool
  | .hasJob _ => true
  | _ => false

def WSt.isInJob : WSt → Bool
  | .inJob _ => true
  | _ => false

def Job.isAssigned (jb : Job) : Bool := jb.st == .assigned
def Job.isActive (jb : Job) : Bool := jb.st == .active

/-- the job has been entered (a nil job: skipped) or is being executed -/
def Job.started (jb : Job) : Prop := jb.st = .active ∨ jb.st = .finished

/-- invariant over jobs, workers, queue and counters -/
structure JInv (s : St) : Prop where
  bcwf : s.bc.WF
  bccur : s.bc.cur ≠ none
  qlen : s.qsize = (s.queue.length : Nat)
  run : s.running = (s.ws.countP WSt.live : Nat)
  lim : 0 < s.limit → s.running ≤ s.limit
  /-- a non-empty queue means all permitted workers are busy -/
  full : s.queue ≠ [] → 0 < s.limit ∧ s.running = s.limit
  nseq : s.nseq = s.nasg + s.queue.length
  /-- the queue holds exactly the enqueued, not yet assigned jobs, in enqueue order -/
  qjobs : ∀ (k j : Nat), s.queue[k]? = some j →
            ∃ jb : Job, s.jobs[j]? = some jb ∧ jb.st = .queued ∧ jb.seq = some (s.nasg + k)
  seqs : ∀ (j : Nat) (jb : Job), s.jobs[j]? = some jb →
            (jb.st = .fresh ↔ jb.seq = none) ∧
            ∀ q : Nat, jb.seq = some q → q < s.nseq ∧ (jb.st = .queued ↔ s.nasg ≤ q)
  seqinj : ∀ (j j' : Nat) (jb jb' : Job) (q : Nat), s.jobs[j]? = some jb → s.jobs[j']? = some jb' →
            jb.seq = some q → jb'.seq = some q → j = j'
  cntA : s.jobs.countP Job.isAssigned = s.ws.countP WSt.isHasJob
  cntR : s.jobs.countP Job.isActive = s.ws.countP WSt.isInJob
  hasJ : ∀ (w j : Nat), s.ws[w]? = some (.hasJob j) → ∃ jb : Job, s.jobs[j]? = some jb ∧ jb.st = .assigned
  inJ : ∀ (w j : Nat), s.ws[w]? = some (.inJob j) →
            ∃ jb : Job, s.jobs[j]? = some jb ∧ jb.st = .active ∧ jb.isNil = false
  starts : ∀ (j : Nat) (jb : Job), s.jobs[j]? = some jb →
            jb.starts = if (jb.st = .active ∨ jb.st = .finished) ∧ jb.isNil = false then 1 else 0
  /-- limit 1: every job assigned before the latest one has been started -/
  l1 : s.limit = 1 → ∀ (j : Nat) (jb : Job) (q : Nat), s.jobs[j]? = some jb → jb.seq = some q →
            q + 1 < s.nasg → jb.started

theorem jinv_init : JInv ({} : St) := by
  refine ⟨?_, ?_, ?_, ?_, ?_, ?_, ?_, ?_, ?_, ?_, ?_, ?_, ?_, ?_, ?_, ?_⟩ <;> simp [Bcast.WF]

/-- events that touch only call states, contexts, mail -/
theorem jinv_th (s : St) (th : List TS) (cx : List Nat) (mail : List (Nat × Msg)) (h : JInv s) :
    JInv { s with th := th, cx := cx, mail := mail } :=
  ⟨h.bcwf, h.bccur, h.qlen, h.run, h.lim, h.full, h.nseq, h.qjobs, h.seqs, h.seqinj, h.cntA, h.cntR,
   h.hasJ, h.inJ, h.starts, h.l1⟩

theorem getWaitCh_cur (b : Bcast) (h : b.cur ≠ none) : b.getWaitCh.1 = b := by
  unfold Bcast.getWaitCh
  cases hc : b.cur with
  | none => exact absurd hc h
  | some c => rfl

theorem bcast_wf (b : Bcast) : (bcast b).WF ∧ (bcast b).cur ≠ none ∧ b.next ≤ (bcast b).next ∧
    (∀ c, c < b.next → (bcast b).closed c = true) := by
  obtain ⟨b1, b2, b3, b4, _⟩ := Bcast.broadcast_spec b
  obtain ⟨g1, g2, g3, g4, g5, g6, g7⟩ := Bcast.getWaitCh_spec b.broadcast b3
  refine ⟨g7, by unfold bcast; rw [g1]; simp, by unfold bcast; omega, ?_⟩
  intro c hc
  unfold bcast
  have hcl := b4 c hc
  rw [g4 c (g6 c hcl)]; exact hcl

/-- a sample section (`getWaitCh`) and call-state changes -/
theorem jinv_th_get (s : St) (th : List TS) (h : JInv s) :
    JInv { s with bc := s.bc.getWaitCh.1, th := th } := by
  have := getWaitCh_cur s.bc h.bccur
  exact ⟨by simp only [this]; exact h.bcwf, by simp only [this]; exact h.bccur, h.qlen, h.run, h.lim, h.full,
   h.nseq, h.qjobs, h.seqs, h.seqinj, h.cntA, h.cntR, h.hasJ, h.inJ, h.starts, h.l1⟩

end UtilModel.Conc
