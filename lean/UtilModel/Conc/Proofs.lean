import UtilModel.Conc.Model
/-!
# conc — the inductive invariant, part 1: jobs, workers, queue, counters (for every event list)
-/
namespace UtilModel.Conc
open UtilModel

/-- worker goroutines counted by `running` -/
def WSt.live : WSt → Bool
  | .retired => false
  | _ => true

def WSt.isHasJob : WSt → Bool
  | .hasJob _ => true
  | _ => false

def WSt.isInJob : WSt → Bool
  | .inJob _ => true
  | _ => false

/-- the job a worker holds -/
def WSt.job : WSt → Option Nat
  | .hasJob j | .inJob j => some j
  | _ => none

def Job.isAssigned (jb : Job) : Bool := jb.st == .assigned
def Job.isActive (jb : Job) : Bool := jb.st == .active

/-- the job has been entered (a nil job: skipped) or is being executed -/
def Job.started (jb : Job) : Prop := jb.st = .active ∨ jb.st = .finished

/-- invariant over jobs, workers, queue and counters (all clauses that also hold in the middle of
the constructor) -/
structure JInv0 (s : St) : Prop where
  bcwf : s.bc.WF
  bccur : s.bc.cur ≠ none
  qlen : s.qsize = (s.queue.length : Nat)
  run : s.running = (s.ws.countP WSt.live : Nat)
  lim : 0 < s.limit → s.running ≤ s.limit
  nseq : s.nseq = s.nasg + s.queue.length
  /-- the queue holds exactly the enqueued, not yet assigned jobs, in enqueue order -/
  qjobs : ∀ (k j : Nat), s.queue[k]? = some j →
            ∃ jb : Job, s.jobs[j]? = some jb ∧ jb.st = .queued ∧ jb.seq = some (s.nasg + k)
  seqs : ∀ (j : Nat) (jb : Job), s.jobs[j]? = some jb →
            (jb.st = .fresh ↔ jb.seq = none) ∧
            ∀ q : Nat, jb.seq = some q → q < s.nseq ∧ (jb.st = .queued ↔ s.nasg ≤ q)
  seqinj : ∀ (j j' : Nat) (jb jb' : Job) (q : Nat), s.jobs[j]? = some jb → s.jobs[j']? = some jb' →
            jb.seq = some q → jb'.seq = some q → j = j'
  cntA : s.jobs.countP Job.isAssigned = s.ws.countP WSt.isHasJob
  cntR : s.jobs.countP Job.isActive = s.ws.countP WSt.isInJob
  hasJ : ∀ (w j : Nat), s.ws[w]? = some (.hasJob j) → ∃ jb : Job, s.jobs[j]? = some jb ∧ jb.st = .assigned
  inJ : ∀ (w j : Nat), s.ws[w]? = some (.inJob j) →
            ∃ jb : Job, s.jobs[j]? = some jb ∧ jb.st = .active ∧ jb.isNil = false
  /-- no two workers hold the same job -/
  uniq : ∀ (w w' j : Nat) (x x' : WSt), s.ws[w]? = some x → s.ws[w']? = some x' → x.job = some j →
            x'.job = some j → w = w'
  starts : ∀ (j : Nat) (jb : Job), s.jobs[j]? = some jb →
            jb.starts = if (jb.st = .active ∨ jb.st = .finished) ∧ jb.isNil = false then 1 else 0
  /-- limit 1: every job assigned before the latest one has been started -/
  l1 : s.limit = 1 → ∀ (j : Nat) (jb : Job) (q : Nat), s.jobs[j]? = some jb → jb.seq = some q →
            q + 1 < s.nasg → jb.started

structure JInv (s : St) : Prop extends JInv0 s where
  /-- a non-empty queue means all permitted workers are busy -/
  full : s.queue ≠ [] → 0 < s.limit ∧ s.running = s.limit

theorem jinv_init : JInv ({} : St) := by
  refine ⟨⟨?_, ?_, ?_, ?_, ?_, ?_, ?_, ?_, ?_, ?_, ?_, ?_, ?_, ?_, ?_, ?_⟩, ?_⟩ <;> simp [Bcast.WF]

/-- events that touch only call states, contexts, mail -/
theorem jinv_th (s : St) (th : List TS) (cx : List Nat) (mail : List (Nat × Msg)) (h : JInv s) :
    JInv { s with th := th, cx := cx, mail := mail } :=
  ⟨⟨h.bcwf, h.bccur, h.qlen, h.run, h.lim, h.nseq, h.qjobs, h.seqs, h.seqinj, h.cntA, h.cntR,
   h.hasJ, h.inJ, h.uniq, h.starts, h.l1⟩, h.full⟩

theorem getWaitCh_cur (b : Bcast) (h : b.cur ≠ none) : b.getWaitCh.1 = b := by
  unfold Bcast.getWaitCh
  cases hc : b.cur with
  | none => exact absurd hc h
  | some c => rfl

theorem bcast_wf (b : Bcast) : (bcast b).WF ∧ (bcast b).cur ≠ none ∧ b.next ≤ (bcast b).next ∧
    (∀ c, c < b.next → (bcast b).closed c = true) := by
  obtain ⟨b1, b2, b3, b4, _⟩ := Bcast.broadcast_spec b
  obtain ⟨g1, g2, g3, g4, g5, g6, g7⟩ := Bcast.getWaitCh_spec b.broadcast b3
  refine ⟨g7, by unfold bcast; rw [g1]; simp, by unfold bcast; omega, ?_⟩
  intro c hc
  unfold bcast
  have hcl := b4 c hc
  rw [g4 c (g6 c hcl)]; exact hcl

/-- a sample section (`getWaitCh`) and call-state changes -/
theorem jinv_th_get (s : St) (th : List TS) (h : JInv s) :
    JInv { s with bc := s.bc.getWaitCh.1, th := th } := by
  have := getWaitCh_cur s.bc h.bccur
  exact ⟨⟨by simp only [this]; exact h.bcwf, by simp only [this]; exact h.bccur, h.qlen, h.run, h.lim,
   h.nseq, h.qjobs, h.seqs, h.seqinj, h.cntA, h.cntR, h.hasJ, h.inJ, h.uniq, h.starts, h.l1⟩, h.full⟩


theorem setJob_eq {jobs : List Job} {j : Nat} {jb : Job} (h : jobs[j]? = some jb) (st : JS) (sq : Option Nat) :
    setJob jobs j st sq = jobs.set j { jb with st := st, seq := sq } := by simp [setJob, h]

theorem setJobSt_eq {jobs : List Job} {j : Nat} {jb : Job} (h : jobs[j]? = some jb) (st : JS) :
    setJobSt jobs j st = jobs.set j { jb with st := st } := by simp [setJobSt, h]

theorem startJob_eq {jobs : List Job} {j : Nat} {jb : Job} (h : jobs[j]? = some jb) :
    startJob jobs j = jobs.set j { jb with st := .active, starts := jb.starts + 1 } := by simp [startJob, h]

/-- a fresh job is appended to the queue (`Push`) -/
theorem jinv0_enq (s : St) (j : Nat) (jb : Job) (h : JInv0 s) (hj : s.jobs[j]? = some jb) (hf : jb.st = .fresh) :
    JInv0 { s with qsize := s.qsize + 1, queue := s.queue ++ [j],
                   jobs := setJob s.jobs j .queued (some s.nseq), nseq := s.nseq + 1 } := by
  rw [setJob_eq hj]
  have hsq : jb.seq = none := ((h.seqs j jb hj).1).mp hf
  have hne : ∀ (u : Nat) (x : Job), s.jobs[u]? = some x → x.st ≠ .fresh → u ≠ j := by
    intro u x hx hxs e; subst e; rw [hj] at hx; cases hx; exact hxs hf
  refine ⟨h.bcwf, h.bccur, ?_, h.run, h.lim, ?_, ?_, ?_, ?_, ?_, ?_, ?_, ?_, h.uniq, ?_, ?_⟩
  · simp only [List.length_append, List.length_singleton]; have := h.qlen; omega
  · simp only [List.length_append, List.length_singleton]; have := h.nseq; omega
  · intro k j0 hk
    rcases getElem?_snoc_cases _ _ _ _ hk with ⟨_, hk'⟩ | ⟨hk', rfl⟩
    · obtain ⟨x, hx, hxs, hxq⟩ := h.qjobs k j0 hk'
      have := hne j0 x hx (by rw [hxs]; simp)
      exact ⟨x, by rw [getElem?_set_ne' _ _ _ _ (fun e => this e.symm)]; exact hx, hxs, hxq⟩
    · refine ⟨_, getElem?_set_self' _ _ _ _ hj, rfl, ?_⟩
      simp only; rw [hk', h.nseq]
  · intro u x hx
    rcases getElem?_set_cases _ _ _ _ _ hx with ⟨_, rfl⟩ | ⟨_, hx'⟩
    · simp only
      refine ⟨by simp, ?_⟩
      intro q hq; cases hq
      have := h.nseq
      exact ⟨by omega, by simp; omega⟩
    · obtain ⟨a, b⟩ := h.seqs u x hx'
      refine ⟨a, fun q hq => ?_⟩
      have := b q hq
      dsimp only
      exact ⟨by omega, this.2⟩
  · intro u u' x x' q hx hx' hq hq'
    rcases getElem?_set_cases _ _ _ _ _ hx with ⟨e1, rfl⟩ | ⟨_, h1⟩ <;>
      rcases getElem?_set_cases _ _ _ _ _ hx' with ⟨e2, rfl⟩ | ⟨_, h2⟩
    · rw [e1, e2]
    · simp only at hq; cases hq
      have := ((h.seqs u' x' h2).2 _ hq').1; omega
    · simp only at hq'; cases hq'
      have := ((h.seqs u x h1).2 _ hq).1; omega
    · exact h.seqinj u u' x x' q h1 h2 hq hq'
  · have c := countP_set Job.isAssigned s.jobs j jb { jb with st := .queued, seq := some s.nseq } hj
    simp only [Job.isAssigned, hf] at c
    have := h.cntA
    simp only at c ⊢
    simp at c
    omega
  · have c := countP_set Job.isActive s.jobs j jb { jb with st := .queued, seq := some s.nseq } hj
    simp only [Job.isActive, hf] at c
    have := h.cntR
    simp only at c ⊢
    simp at c
    omega
  · intro w j0 hw
    obtain ⟨x, hx, hxs⟩ := h.hasJ w j0 hw
    have := hne j0 x hx (by rw [hxs]; simp)
    exact ⟨x, by rw [getElem?_set_ne' _ _ _ _ (fun e => this e.symm)]; exact hx, hxs⟩
  · intro w j0 hw
    obtain ⟨x, hx, hxs⟩ := h.inJ w j0 hw
    have := hne j0 x hx (by rw [hxs.1]; simp)
    exact ⟨x, by rw [getElem?_set_ne' _ _ _ _ (fun e => this e.symm)]; exact hx, hxs⟩
  · intro u x hx
    rcases getElem?_set_cases _ _ _ _ _ hx with ⟨_, rfl⟩ | ⟨_, hx'⟩
    · have := h.starts j jb hj
      simp [hf] at this
      simp [this]
    · exact h.starts u x hx'
  · intro hl u x q hx hq hlt
    rcases getElem?_set_cases _ _ _ _ _ hx with ⟨_, rfl⟩ | ⟨_, hx'⟩
    · simp only at hq; cases hq
      have := h.nseq; dsimp only at hlt; omega
    · exact h.l1 hl u x q hx' hq hlt


theorem no_assigned (s : St) (h : JInv0 s) (hz : s.ws.countP WSt.isHasJob = 0) :
    ∀ (u : Nat) (x : Job), s.jobs[u]? = some x → x.st ≠ .assigned := by
  intro u x hx hs
  have := h.cntA
  rw [hz, List.countP_eq_zero] at this
  have := this x (List.mem_of_getElem? hx)
  simp [Job.isAssigned, hs] at this

theorem started_of_lt (s : St) (h : JInv0 s)
    (hna : ∀ (u : Nat) (x : Job), s.jobs[u]? = some x → x.st ≠ .assigned)
    (u : Nat) (x : Job) (q : Nat) (hx : s.jobs[u]? = some x) (hq : x.seq = some q) (hlt : q < s.nasg) :
    x.started := by
  obtain ⟨a, b⟩ := h.seqs u x hx
  have b' := (b q hq).2
  have h1 : x.st ≠ .fresh := by intro e; have := a.mp e; rw [hq] at this; cases this
  have h2 : x.st ≠ .queued := by intro e; have := b'.mp e; omega
  have h3 := hna u x hx
  unfold Job.started
  cases hs : x.st <;> simp_all

theorem holder_state (s : St) (h : JInv0 s) (w j : Nat) (x : WSt) (hw : s.ws[w]? = some x)
    (hj : x.job = some j) : ∃ jb : Job, s.jobs[j]? = some jb ∧ (jb.st = .assigned ∨ jb.st = .active) := by
  cases x with
  | hasJob j0 =>
    simp [WSt.job] at hj; subst hj
    obtain ⟨jb, h1, h2⟩ := h.hasJ w j0 hw; exact ⟨jb, h1, Or.inl h2⟩
  | inJob j0 =>
    simp [WSt.job] at hj; subst hj
    obtain ⟨jb, h1, h2, _⟩ := h.inJ w j0 hw; exact ⟨jb, h1, Or.inr h2⟩
  | afterJob => simp [WSt.job] at hj
  | retired => simp [WSt.job] at hj

theorem hasJob_zero_of_room (s : St) (h : JInv0 s) (hl : s.limit = 1) (hr : hasRoom s = true) :
    s.ws.countP WSt.isHasJob = 0 := by
  simp [hasRoom, hl] at hr
  have hrun := h.run
  have h0 : s.ws.countP WSt.live = 0 := by omega
  rw [List.countP_eq_zero] at h0 ⊢
  intro x hx hh
  have := h0 x hx
  cases x <;> simp [WSt.live, WSt.isHasJob] at this hh

/-- a fresh job is started directly (`Enqueue` with room): new worker goroutine -/
theorem jinv0_assignNew (s : St) (j : Nat) (jb : Job) (h : JInv0 s) (hj : s.jobs[j]? = some jb)
    (hf : jb.st = .fresh) (hq : s.queue = []) (hr : hasRoom s = true) :
    JInv0 { s with running := s.running + 1, ws := s.ws ++ [.hasJob j],
                   jobs := setJob s.jobs j .assigned (some s.nseq), nseq := s.nseq + 1, nasg := s.nasg + 1 } := by
  rw [setJob_eq hj]
  have hne : ∀ (u : Nat) (x : Job), s.jobs[u]? = some x → x.st ≠ .fresh → u ≠ j := by
    intro u x hx hxs e; subst e; rw [hj] at hx; cases hx; exact hxs hf
  have hns : s.nseq = s.nasg := by have := h.nseq; rw [hq] at this; simpa using this
  refine ⟨h.bcwf, h.bccur, h.qlen, ?_, ?_, ?_, ?_, ?_, ?_, ?_, ?_, ?_, ?_, ?_, ?_, ?_⟩
  · have := h.run; simp [List.countP_append, WSt.live]; omega
  · intro hl; simp [hasRoom] at hr; dsimp only at hl ⊢; omega
  · dsimp only; rw [hq]; simp; omega
  · intro k j0 hk; rw [hq] at hk; simp at hk
  · intro u x hx
    rcases getElem?_set_cases _ _ _ _ _ hx with ⟨_, rfl⟩ | ⟨_, hx'⟩
    · refine ⟨by simp, ?_⟩
      intro q hq'; cases hq'
      dsimp only
      exact ⟨by omega, by simp; omega⟩
    · obtain ⟨a, b⟩ := h.seqs u x hx'
      refine ⟨a, fun q hq' => ?_⟩
      have := b q hq'
      dsimp only
      refine ⟨by omega, ?_⟩
      rw [this.2]; constructor <;> intro <;> omega
  · intro u u' x x' q hx hx' hq1 hq2
    rcases getElem?_set_cases _ _ _ _ _ hx with ⟨e1, rfl⟩ | ⟨_, h1⟩ <;>
      rcases getElem?_set_cases _ _ _ _ _ hx' with ⟨e2, rfl⟩ | ⟨_, h2⟩
    · rw [e1, e2]
    · simp only at hq1; cases hq1
      have := ((h.seqs u' x' h2).2 _ hq2).1; omega
    · simp only at hq2; cases hq2
      have := ((h.seqs u x h1).2 _ hq1).1; omega
    · exact h.seqinj u u' x x' q h1 h2 hq1 hq2
  · have c := countP_set Job.isAssigned s.jobs j jb { jb with st := .assigned, seq := some s.nseq } hj
    simp only [Job.isAssigned, hf] at c
    have := h.cntA
    simp [List.countP_append, WSt.isHasJob] at c ⊢
    omega
  · have c := countP_set Job.isActive s.jobs j jb { jb with st := .assigned, seq := some s.nseq } hj
    simp only [Job.isActive, hf] at c
    have := h.cntR
    simp [List.countP_append, WSt.isInJob] at c ⊢
    omega
  · intro w j0 hw
    rcases getElem?_snoc_cases _ _ _ _ hw with ⟨_, hw'⟩ | ⟨_, e⟩
    · obtain ⟨x, hx, hxs⟩ := h.hasJ w j0 hw'
      have := hne j0 x hx (by rw [hxs]; simp)
      exact ⟨x, by rw [getElem?_set_ne' _ _ _ _ (fun e => this e.symm)]; exact hx, hxs⟩
    · cases e; exact ⟨_, getElem?_set_self' _ _ _ _ hj, rfl⟩
  · intro w j0 hw
    rcases getElem?_snoc_cases _ _ _ _ hw with ⟨_, hw'⟩ | ⟨_, e⟩
    · obtain ⟨x, hx, hxs⟩ := h.inJ w j0 hw'
      have := hne j0 x hx (by rw [hxs.1]; simp)
      exact ⟨x, by rw [getElem?_set_ne' _ _ _ _ (fun e => this e.symm)]; exact hx, hxs⟩
    · cases e
  · intro w w' j0 x x' hw hw' hx hx'
    rcases getElem?_snoc_cases _ _ _ _ hw with ⟨_, h1⟩ | ⟨e1, rfl⟩ <;>
      rcases getElem?_snoc_cases _ _ _ _ hw' with ⟨_, h2⟩ | ⟨e2, rfl⟩
    · exact h.uniq w w' j0 x x' h1 h2 hx hx'
    · simp [WSt.job] at hx'; subst hx'
      obtain ⟨y, hy, hys⟩ := holder_state s h w j x h1 hx
      rw [hj] at hy; cases hy; rw [hf] at hys; simp at hys
    · simp [WSt.job] at hx; subst hx
      obtain ⟨y, hy, hys⟩ := holder_state s h w' j x' h2 hx'
      rw [hj] at hy; cases hy; rw [hf] at hys; simp at hys
    · omega
  · intro u x hx
    rcases getElem?_set_cases _ _ _ _ _ hx with ⟨_, rfl⟩ | ⟨_, hx'⟩
    · have := h.starts j jb hj
      simp [hf] at this
      simp [this]
    · exact h.starts u x hx'
  · intro hl u x q hx hq' hlt
    dsimp only at hlt hl
    have hna := no_assigned s h (hasJob_zero_of_room s h hl hr)
    rcases getElem?_set_cases _ _ _ _ _ hx with ⟨_, rfl⟩ | ⟨_, hx'⟩
    · simp only at hq'; cases hq'; omega
    · exact started_of_lt s h hna u x q hx' hq' (by omega)


/-- facts about the head of the queue -/
theorem queue_head (s : St) (h : JInv0 s) (j : Nat) (rest : List Nat) (hq : s.queue = j :: rest) :
    ∃ jb : Job, s.jobs[j]? = some jb ∧ jb.st = .queued ∧ jb.seq = some s.nasg := by
  obtain ⟨jb, h1, h2, h3⟩ := h.qjobs 0 j (by rw [hq]; rfl)
  exact ⟨jb, h1, h2, by simpa using h3⟩

/-- job-table clauses shared by the two pop operations: job `j` (head of the queue) becomes assigned -/
theorem pop_jobs (s : St) (h : JInv0 s) (j : Nat) (rest : List Nat) (jb : Job) (hq : s.queue = j :: rest)
    (hj : s.jobs[j]? = some jb) (hst : jb.st = .queued) (hsq : jb.seq = some s.nasg) :
    let jobs' := s.jobs.set j { jb with st := .assigned }
    (s.nseq = s.nasg + 1 + rest.length) ∧
    (∀ (k j0 : Nat), rest[k]? = some j0 →
        ∃ x : Job, jobs'[j0]? = some x ∧ x.st = .queued ∧ x.seq = some (s.nasg + 1 + k)) ∧
    (∀ (u : Nat) (x : Job), jobs'[u]? = some x →
        (x.st = .fresh ↔ x.seq = none) ∧
        ∀ q : Nat, x.seq = some q → q < s.nseq ∧ (x.st = .queued ↔ s.nasg + 1 ≤ q)) ∧
    (∀ (u u' : Nat) (x x' : Job) (q : Nat), jobs'[u]? = some x → jobs'[u']? = some x' →
        x.seq = some q → x'.seq = some q → u = u') ∧
    (jobs'.countP Job.isAssigned = s.jobs.countP Job.isAssigned + 1) ∧
    (jobs'.countP Job.isActive = s.jobs.countP Job.isActive) ∧
    (∀ (u : Nat) (x : Job), jobs'[u]? = some x →
        x.starts = if (x.st = .active ∨ x.st = .finished) ∧ x.isNil = false then 1 else 0) := by
  intro jobs'
  have hseqj : ∀ (u : Nat) (x : Job), s.jobs[u]? = some x → x.seq = some s.nasg → u = j :=
    fun u x hx hxq => h.seqinj u j x jb s.nasg hx hj hxq hsq
  refine ⟨?_, ?_, ?_, ?_, ?_, ?_, ?_⟩
  · have := h.nseq; rw [hq] at this; simp at this; omega
  · intro k j0 hk
    obtain ⟨x, hx, hxs, hxq⟩ := h.qjobs (k+1) j0 (by rw [hq]; simpa using hk)
    have hne : j ≠ j0 := by
      intro e; subst e; rw [hj] at hx; cases hx; rw [hsq] at hxq; simp at hxq
    exact ⟨x, by simp only [jobs']; rw [getElem?_set_ne' _ _ _ _ hne]; exact hx, hxs, by rw [hxq]; congr 1; omega⟩
  · intro u x hx
    rcases getElem?_set_cases _ _ _ _ _ hx with ⟨_, rfl⟩ | ⟨hne, hx'⟩
    · refine ⟨by simp [hsq], ?_⟩
      intro q hq'
      simp only [hsq] at hq'; cases hq'
      have := ((h.seqs j jb hj).2 _ hsq).1
      exact ⟨this, by simp⟩
    · obtain ⟨a, b⟩ := h.seqs u x hx'
      refine ⟨a, fun q hq' => ?_⟩
      have hb := b q hq'
      refine ⟨hb.1, ?_⟩
      rw [hb.2]
      have : q ≠ s.nasg := by intro e; subst e; exact hne (hseqj u x hx' hq')
      constructor <;> intro <;> omega
  · intro u u' x x' q hx hx' hq1 hq2
    rcases getElem?_set_cases _ _ _ _ _ hx with ⟨e1, rfl⟩ | ⟨n1, h1⟩ <;>
      rcases getElem?_set_cases _ _ _ _ _ hx' with ⟨e2, rfl⟩ | ⟨n2, h2⟩
    · rw [e1, e2]
    · simp only [hsq] at hq1; cases hq1; exact absurd (hseqj u' x' h2 hq2) n2
    · simp only [hsq] at hq2; cases hq2; exact absurd (hseqj u x h1 hq1) n1
    · exact h.seqinj u u' x x' q h1 h2 hq1 hq2
  · have c := countP_set Job.isAssigned s.jobs j jb { jb with st := .assigned } hj
    simp only [Job.isAssigned, hst] at c
    simp at c; simp only [jobs']; omega
  · have c := countP_set Job.isActive s.jobs j jb { jb with st := .assigned } hj
    simp only [Job.isActive, hst] at c
    simp at c; simp only [jobs']; omega
  · intro u x hx
    rcases getElem?_set_cases _ _ _ _ _ hx with ⟨_, rfl⟩ | ⟨_, hx'⟩
    · have := h.starts j jb hj
      simp [hst] at this
      simp [this]
    · exact h.starts u x hx'


/-- `updateLocked` pops a job for a new worker goroutine -/
theorem jinv0_popNew (s : St) (j : Nat) (rest : List Nat) (h : JInv0 s) (hq : s.queue = j :: rest)
    (hr : hasRoom s = true) :
    JInv0 { s with queue := rest, qsize := s.qsize - 1, running := s.running + 1,
                   ws := s.ws ++ [.hasJob j], jobs := setJobSt s.jobs j .assigned, nasg := s.nasg + 1 } := by
  obtain ⟨jb, hj, hst, hsq⟩ := queue_head s h j rest hq
  rw [setJobSt_eq hj]
  obtain ⟨p1, p2, p3, p4, p5, p6, p7⟩ := pop_jobs s h j rest jb hq hj hst hsq
  have hne : ∀ (u : Nat) (x : Job), s.jobs[u]? = some x → x.st ≠ .queued → u ≠ j := by
    intro u x hx hxs e; subst e; rw [hj] at hx; cases hx; exact hxs hst
  refine ⟨h.bcwf, h.bccur, ?_, ?_, ?_, ?_, ?_, p3, p4, ?_, ?_, ?_, ?_, ?_, p7, ?_⟩
  · have := h.qlen; rw [hq] at this; simp at this; dsimp only; omega
  · have := h.run; simp [List.countP_append, WSt.live]; omega
  · intro hl; simp [hasRoom] at hr; dsimp only at hl ⊢; omega
  · dsimp only; omega
  · intro k j0 hk
    obtain ⟨x, a, b, c⟩ := p2 k j0 hk
    exact ⟨x, a, b, by rw [c]⟩
  · have := h.cntA; simp [List.countP_append, WSt.isHasJob]; omega
  · have := h.cntR; simp [List.countP_append, WSt.isInJob]; omega
  · intro w j0 hw
    rcases getElem?_snoc_cases _ _ _ _ hw with ⟨_, hw'⟩ | ⟨_, e⟩
    · obtain ⟨x, hx, hxs⟩ := h.hasJ w j0 hw'
      have := hne j0 x hx (by rw [hxs]; simp)
      exact ⟨x, by rw [getElem?_set_ne' _ _ _ _ (fun e => this e.symm)]; exact hx, hxs⟩
    · cases e; exact ⟨_, getElem?_set_self' _ _ _ _ hj, rfl⟩
  · intro w j0 hw
    rcases getElem?_snoc_cases _ _ _ _ hw with ⟨_, hw'⟩ | ⟨_, e⟩
    · obtain ⟨x, hx, hxs⟩ := h.inJ w j0 hw'
      have := hne j0 x hx (by rw [hxs.1]; simp)
      exact ⟨x, by rw [getElem?_set_ne' _ _ _ _ (fun e => this e.symm)]; exact hx, hxs⟩
    · cases e
  · intro w w' j0 x x' hw hw' hx hx'
    rcases getElem?_snoc_cases _ _ _ _ hw with ⟨_, h1⟩ | ⟨e1, rfl⟩ <;>
      rcases getElem?_snoc_cases _ _ _ _ hw' with ⟨_, h2⟩ | ⟨e2, rfl⟩
    · exact h.uniq w w' j0 x x' h1 h2 hx hx'
    · simp [WSt.job] at hx'; subst hx'
      obtain ⟨y, hy, hys⟩ := holder_state s h w j x h1 hx
      rw [hj] at hy; cases hy; rw [hst] at hys; simp at hys
    · simp [WSt.job] at hx; subst hx
      obtain ⟨y, hy, hys⟩ := holder_state s h w' j x' h2 hx'
      rw [hj] at hy; cases hy; rw [hst] at hys; simp at hys
    · omega
  · intro hl u x q hx hq' hlt
    dsimp only at hlt hl
    have hna := no_assigned s h (hasJob_zero_of_room s h hl hr)
    rcases getElem?_set_cases _ _ _ _ _ hx with ⟨_, rfl⟩ | ⟨_, hx'⟩
    · simp only [hsq] at hq'; cases hq'; omega
    · exact started_of_lt s h hna u x q hx' hq' (by omega)

theorem set_live_count (ws : List WSt) (w : Nat) (a b : WSt) (ha : ws[w]? = some a)
    (p : WSt → Bool) : (ws.set w b).countP p + (if p a then 1 else 0) = ws.countP p + (if p b then 1 else 0) :=
  countP_set p ws w a b ha

/-- limit 1 and worker `w` is past its job: no other worker holds a job -/
theorem hasJob_zero_of_after (s : St) (h : JInv0 s) (hl : s.limit = 1) (w : Nat)
    (hw : s.ws[w]? = some .afterJob) : s.ws.countP WSt.isHasJob = 0 := by
  have hrun := h.run
  have hlim := h.lim (by omega)
  rw [List.countP_eq_zero]
  intro x hx hh
  obtain ⟨w', hw'⟩ := List.getElem?_of_mem hx
  have hne : w ≠ w' := by intro e; subst e; rw [hw] at hw'; cases hw'; simp [WSt.isHasJob] at hh
  have := countP_ge_two WSt.live s.ws w w' _ _ hne hw hw' rfl (by cases x <;> simp [WSt.live, WSt.isHasJob] at hh ⊢)
  omega

/-- a worker that finished a job pops the next one -/
theorem jinv0_popTo (s : St) (w j : Nat) (rest : List Nat) (h : JInv0 s) (hq : s.queue = j :: rest)
    (hw : s.ws[w]? = some .afterJob) :
    JInv0 { s with queue := rest, qsize := s.qsize - 1, ws := s.ws.set w (.hasJob j),
                   jobs := setJobSt s.jobs j .assigned, nasg := s.nasg + 1 } := by
  obtain ⟨jb, hj, hst, hsq⟩ := queue_head s h j rest hq
  rw [setJobSt_eq hj]
  obtain ⟨p1, p2, p3, p4, p5, p6, p7⟩ := pop_jobs s h j rest jb hq hj hst hsq
  have hne : ∀ (u : Nat) (x : Job), s.jobs[u]? = some x → x.st ≠ .queued → u ≠ j := by
    intro u x hx hxs e; subst e; rw [hj] at hx; cases hx; exact hxs hst
  refine ⟨h.bcwf, h.bccur, ?_, ?_, h.lim, ?_, ?_, p3, p4, ?_, ?_, ?_, ?_, ?_, p7, ?_⟩
  · have := h.qlen; rw [hq] at this; simp at this; dsimp only; omega
  · have c := countP_set WSt.live s.ws w _ (.hasJob j) hw
    have := h.run; simp [WSt.live] at c; dsimp only; omega
  · dsimp only; omega
  · intro k j0 hk
    obtain ⟨x, a, b, c⟩ := p2 k j0 hk
    exact ⟨x, a, b, by rw [c]⟩
  · have c := countP_set WSt.isHasJob s.ws w _ (.hasJob j) hw
    have := h.cntA; simp [WSt.isHasJob] at c; dsimp only; omega
  · have c := countP_set WSt.isInJob s.ws w _ (.hasJob j) hw
    have := h.cntR; simp [WSt.isInJob] at c; dsimp only; omega
  · intro w' j0 hw'
    rcases getElem?_set_cases _ _ _ _ _ hw' with ⟨_, e⟩ | ⟨_, hw''⟩
    · cases e; exact ⟨_, getElem?_set_self' _ _ _ _ hj, rfl⟩
    · obtain ⟨x, hx, hxs⟩ := h.hasJ w' j0 hw''
      have := hne j0 x hx (by rw [hxs]; simp)
      exact ⟨x, by rw [getElem?_set_ne' _ _ _ _ (fun e => this e.symm)]; exact hx, hxs⟩
  · intro w' j0 hw'
    rcases getElem?_set_cases _ _ _ _ _ hw' with ⟨_, e⟩ | ⟨_, hw''⟩
    · cases e
    · obtain ⟨x, hx, hxs⟩ := h.inJ w' j0 hw''
      have := hne j0 x hx (by rw [hxs.1]; simp)
      exact ⟨x, by rw [getElem?_set_ne' _ _ _ _ (fun e => this e.symm)]; exact hx, hxs⟩
  · intro w1 w2 j0 x x' hw1 hw2 hx hx'
    rcases getElem?_set_cases _ _ _ _ _ hw1 with ⟨e1, rfl⟩ | ⟨_, h1⟩ <;>
      rcases getElem?_set_cases _ _ _ _ _ hw2 with ⟨e2, rfl⟩ | ⟨_, h2⟩
    · rw [e1, e2]
    · simp [WSt.job] at hx; subst hx
      obtain ⟨y, hy, hys⟩ := holder_state s h w2 j x' h2 hx'
      rw [hj] at hy; cases hy; rw [hst] at hys; simp at hys
    · simp [WSt.job] at hx'; subst hx'
      obtain ⟨y, hy, hys⟩ := holder_state s h w1 j x h1 hx
      rw [hj] at hy; cases hy; rw [hst] at hys; simp at hys
    · exact h.uniq w1 w2 j0 x x' h1 h2 hx hx'
  · intro hl u x q hx hq' hlt
    dsimp only at hlt hl
    have hna := no_assigned s h (hasJob_zero_of_after s h hl w hw)
    rcases getElem?_set_cases _ _ _ _ _ hx with ⟨_, rfl⟩ | ⟨_, hx'⟩
    · simp only [hsq] at hq'; cases hq'; omega
    · exact started_of_lt s h hna u x q hx' hq' (by omega)


/-- job-table clauses when a held job moves on (assigned → active / finished, active → finished) -/
theorem work_jobs (s : St) (h : JInv0 s) (j : Nat) (jb : Job) (st' : JS) (n : Nat)
    (hj : s.jobs[j]? = some jb) (hold : jb.st = .assigned ∨ jb.st = .active)
    (hnew : st' = .active ∨ st' = .finished) :
    let jobs' := s.jobs.set j { jb with st := st', starts := n }
    (∀ (k j0 : Nat), s.queue[k]? = some j0 →
        ∃ x : Job, jobs'[j0]? = some x ∧ x.st = .queued ∧ x.seq = some (s.nasg + k)) ∧
    (∀ (u : Nat) (x : Job), jobs'[u]? = some x →
        (x.st = .fresh ↔ x.seq = none) ∧
        ∀ q : Nat, x.seq = some q → q < s.nseq ∧ (x.st = .queued ↔ s.nasg ≤ q)) ∧
    (∀ (u u' : Nat) (x x' : Job) (q : Nat), jobs'[u]? = some x → jobs'[u']? = some x' →
        x.seq = some q → x'.seq = some q → u = u') ∧
    (s.limit = 1 → ∀ (u : Nat) (x : Job) (q : Nat), jobs'[u]? = some x → x.seq = some q →
        q + 1 < s.nasg → x.started) := by
  intro jobs'
  have hnf : jb.st ≠ .fresh := by rcases hold with e | e <;> rw [e] <;> simp
  have hnq : jb.st ≠ .queued := by rcases hold with e | e <;> rw [e] <;> simp
  have hnf' : st' ≠ .fresh := by rcases hnew with e | e <;> rw [e] <;> simp
  have hnq' : st' ≠ .queued := by rcases hnew with e | e <;> rw [e] <;> simp
  refine ⟨?_, ?_, ?_, ?_⟩
  · intro k j0 hk
    obtain ⟨x, hx, hxs, hxq⟩ := h.qjobs k j0 hk
    have hne : j ≠ j0 := by intro e; subst e; rw [hj] at hx; cases hx; exact hnq hxs
    exact ⟨x, by simp only [jobs']; rw [getElem?_set_ne' _ _ _ _ hne]; exact hx, hxs, hxq⟩
  · intro u x hx
    rcases getElem?_set_cases _ _ _ _ _ hx with ⟨_, rfl⟩ | ⟨_, hx'⟩
    · obtain ⟨a, b⟩ := h.seqs j jb hj
      refine ⟨?_, ?_⟩
      · simp only
        constructor
        · intro e; exact absurd e hnf'
        · intro e; exact absurd (a.mpr e) hnf
      · intro q hq
        have := b q hq
        refine ⟨this.1, ?_⟩
        simp only
        constructor
        · intro e; exact absurd e hnq'
        · intro e; exact absurd (this.2.mpr e) hnq
    · exact h.seqs u x hx'
  · intro u u' x x' q hx hx' hq1 hq2
    have f : ∀ (v : Nat) (y : Job), jobs'[v]? = some y → ∃ y0 : Job, s.jobs[v]? = some y0 ∧ y0.seq = y.seq := by
      intro v y hy
      rcases getElem?_set_cases _ _ _ _ _ hy with ⟨e, rfl⟩ | ⟨_, hy'⟩
      · exact ⟨jb, by rw [e]; exact hj, rfl⟩
      · exact ⟨y, hy', rfl⟩
    obtain ⟨y, hy, ey⟩ := f u x hx
    obtain ⟨y', hy', ey'⟩ := f u' x' hx'
    exact h.seqinj u u' y y' q hy hy' (by rw [ey]; exact hq1) (by rw [ey']; exact hq2)
  · intro hl u x q hx hq hlt
    rcases getElem?_set_cases _ _ _ _ _ hx with ⟨_, rfl⟩ | ⟨_, hx'⟩
    · exact hnew
    · exact h.l1 hl u x q hx' hq hlt

/-- the worker enters its (non-nil) job -/
theorem jinv0_jobIn (s : St) (w j : Nat) (jb : Job) (h : JInv0 s) (hw : s.ws[w]? = some (.hasJob j))
    (hj : s.jobs[j]? = some jb) (hnil : jb.isNil = false) :
    JInv0 { s with ws := s.ws.set w (.inJob j), jobs := startJob s.jobs j } := by
  rw [startJob_eq hj]
  obtain ⟨jb0, hj0, hst⟩ := h.hasJ w j hw
  rw [hj] at hj0; cases hj0
  obtain ⟨p1, p2, p3, p4⟩ := work_jobs s h j jb .active (jb.starts + 1) hj (Or.inl hst) (Or.inl rfl)
  refine ⟨h.bcwf, h.bccur, h.qlen, ?_, h.lim, h.nseq, p1, p2, p3, ?_, ?_, ?_, ?_, ?_, ?_, p4⟩
  · have c := countP_set WSt.live s.ws w _ (.inJob j) hw
    have := h.run; simp [WSt.live] at c; dsimp only; omega
  · have c := countP_set WSt.isHasJob s.ws w _ (.inJob j) hw
    have c2 := countP_set Job.isAssigned s.jobs j jb { jb with st := .active, starts := jb.starts + 1 } hj
    have := h.cntA; simp [WSt.isHasJob, Job.isAssigned, hst] at c c2; dsimp only; omega
  · have c := countP_set WSt.isInJob s.ws w _ (.inJob j) hw
    have c2 := countP_set Job.isActive s.jobs j jb { jb with st := .active, starts := jb.starts + 1 } hj
    have := h.cntR; simp [WSt.isInJob, Job.isActive, hst] at c c2; dsimp only; omega
  · intro w' j0 hw'
    rcases getElem?_set_cases _ _ _ _ _ hw' with ⟨_, e⟩ | ⟨hne, hw''⟩
    · cases e
    · obtain ⟨x, hx, hxs⟩ := h.hasJ w' j0 hw''
      have : j ≠ j0 := by
        intro e; subst e
        exact hne (h.uniq w' w j _ _ hw'' hw rfl rfl)
      exact ⟨x, by rw [getElem?_set_ne' _ _ _ _ this]; exact hx, hxs⟩
  · intro w' j0 hw'
    rcases getElem?_set_cases _ _ _ _ _ hw' with ⟨_, e⟩ | ⟨hne, hw''⟩
    · cases e; exact ⟨_, getElem?_set_self' _ _ _ _ hj, rfl, hnil⟩
    · obtain ⟨x, hx, hxs⟩ := h.inJ w' j0 hw''
      have : j ≠ j0 := by
        intro e; subst e
        exact hne (h.uniq w' w j _ _ hw'' hw rfl rfl)
      exact ⟨x, by rw [getElem?_set_ne' _ _ _ _ this]; exact hx, hxs⟩
  · intro w1 w2 j0 x x' hw1 hw2 hx hx'
    have f : ∀ (v : Nat) (y : WSt), (s.ws.set w (.inJob j))[v]? = some y → y.job = some j0 →
        ∃ y0 : WSt, s.ws[v]? = some y0 ∧ y0.job = some j0 := by
      intro v y hy hyj
      rcases getElem?_set_cases _ _ _ _ _ hy with ⟨e, rfl⟩ | ⟨_, hy'⟩
      · exact ⟨_, by rw [e]; exact hw, by simpa [WSt.job] using hyj⟩
      · exact ⟨y, hy', hyj⟩
    obtain ⟨y, hy, ey⟩ := f w1 x hw1 hx
    obtain ⟨y', hy', ey'⟩ := f w2 x' hw2 hx'
    exact h.uniq w1 w2 j0 y y' hy hy' ey ey'
  · intro u x hx
    rcases getElem?_set_cases _ _ _ _ _ hx with ⟨_, rfl⟩ | ⟨_, hx'⟩
    · have := h.starts j jb hj
      simp [hst] at this
      simp [this, hnil]
    · exact h.starts u x hx'


/-- the worker is done with job `j`: a nil job skipped (`a = hasJob j`) or a job returned (`a = inJob j`) -/
theorem jinv0_release (s : St) (w j : Nat) (a : WSt) (jb : Job) (h : JInv0 s) (hw : s.ws[w]? = some a)
    (ha : (a = .hasJob j ∧ jb.isNil = true) ∨ a = .inJob j) (hj : s.jobs[j]? = some jb) :
    JInv0 { s with ws := s.ws.set w .afterJob, jobs := setJobSt s.jobs j .finished } := by
  rw [setJobSt_eq hj]
  have haj : a.job = some j := by rcases ha with ⟨e, _⟩ | e <;> rw [e] <;> rfl
  have hst : (jb.st = .assigned ∧ a = .hasJob j ∧ jb.isNil = true) ∨ (jb.st = .active ∧ a = .inJob j ∧ jb.isNil = false) := by
    rcases ha with ⟨e, hn⟩ | e
    · subst e
      obtain ⟨x, hx, hxs⟩ := h.hasJ w j hw
      rw [hj] at hx; cases hx; exact Or.inl ⟨hxs, rfl, hn⟩
    · subst e
      obtain ⟨x, hx, hxs, hn⟩ := h.inJ w j hw
      rw [hj] at hx; cases hx; exact Or.inr ⟨hxs, rfl, hn⟩
  have hold : jb.st = .assigned ∨ jb.st = .active := by rcases hst with h1 | h1; exact Or.inl h1.1; exact Or.inr h1.1
  have hs := h.starts j jb hj
  obtain ⟨p1, p2, p3, p4⟩ := work_jobs s h j jb .finished jb.starts hj hold (Or.inr rfl)
  refine ⟨h.bcwf, h.bccur, h.qlen, ?_, h.lim, h.nseq, p1, p2, p3, ?_, ?_, ?_, ?_, ?_, ?_, p4⟩
  · have c := countP_set WSt.live s.ws w _ .afterJob hw
    have hr := h.run
    have hal : a.live = true := by rcases ha with ⟨e, _⟩ | e <;> rw [e] <;> rfl
    rw [hal] at c; simp [WSt.live] at c; dsimp only; omega
  · have c := countP_set WSt.isHasJob s.ws w _ .afterJob hw
    have c2 := countP_set Job.isAssigned s.jobs j jb { jb with st := .finished, starts := jb.starts } hj
    have := h.cntA
    rcases hst with ⟨e1, e2, _⟩ | ⟨e1, e2, _⟩ <;> subst e2 <;>
      simp [WSt.isHasJob, Job.isAssigned, e1] at c c2 <;> dsimp only <;> omega
  · have c := countP_set WSt.isInJob s.ws w _ .afterJob hw
    have c2 := countP_set Job.isActive s.jobs j jb { jb with st := .finished, starts := jb.starts } hj
    have := h.cntR
    rcases hst with ⟨e1, e2, _⟩ | ⟨e1, e2, _⟩ <;> subst e2 <;>
      simp [WSt.isInJob, Job.isActive, e1] at c c2 <;> dsimp only <;> omega
  · intro w' j0 hw'
    rcases getElem?_set_cases _ _ _ _ _ hw' with ⟨_, e⟩ | ⟨hne, hw''⟩
    · cases e
    · obtain ⟨x, hx, hxs⟩ := h.hasJ w' j0 hw''
      have : j ≠ j0 := by
        intro e; subst e
        exact hne (h.uniq w' w j _ _ hw'' hw rfl haj)
      exact ⟨x, by rw [getElem?_set_ne' _ _ _ _ this]; exact hx, hxs⟩
  · intro w' j0 hw'
    rcases getElem?_set_cases _ _ _ _ _ hw' with ⟨_, e⟩ | ⟨hne, hw''⟩
    · cases e
    · obtain ⟨x, hx, hxs⟩ := h.inJ w' j0 hw''
      have : j ≠ j0 := by
        intro e; subst e
        exact hne (h.uniq w' w j _ _ hw'' hw rfl haj)
      exact ⟨x, by rw [getElem?_set_ne' _ _ _ _ this]; exact hx, hxs⟩
  · intro w1 w2 j0 x x' hw1 hw2 hx hx'
    rcases getElem?_set_cases _ _ _ _ _ hw1 with ⟨_, rfl⟩ | ⟨_, h1⟩
    · simp [WSt.job] at hx
    · rcases getElem?_set_cases _ _ _ _ _ hw2 with ⟨_, rfl⟩ | ⟨_, h2⟩
      · simp [WSt.job] at hx'
      · exact h.uniq w1 w2 j0 x x' h1 h2 hx hx'
  · intro u x hx
    rcases getElem?_set_cases _ _ _ _ _ hx with ⟨_, rfl⟩ | ⟨_, hx'⟩
    · rcases hst with ⟨e1, _, e3⟩ | ⟨e1, _, e3⟩ <;> simp [e1, e3] at hs <;> simp [hs, e3]
    · exact h.starts u x hx'

/-- a worker with nothing left to do retires (`running--`, broadcast) -/
theorem jinv0_retire (s : St) (w : Nat) (h : JInv0 s) (hw : s.ws[w]? = some .afterJob) :
    JInv0 { s with running := s.running - 1, bc := bcast s.bc, ws := s.ws.set w .retired } := by
  obtain ⟨b1, b2, _, _⟩ := bcast_wf s.bc
  refine ⟨b1, b2, h.qlen, ?_, ?_, h.nseq, h.qjobs, h.seqs, h.seqinj, ?_, ?_, ?_, ?_, ?_, h.starts, h.l1⟩
  · have c := countP_set WSt.live s.ws w _ .retired hw
    have := h.run; simp [WSt.live] at c; dsimp only; omega
  · intro hl; have := h.lim hl; dsimp only; omega
  · have c := countP_set WSt.isHasJob s.ws w _ .retired hw
    have := h.cntA; simp [WSt.isHasJob] at c; dsimp only; omega
  · have c := countP_set WSt.isInJob s.ws w _ .retired hw
    have := h.cntR; simp [WSt.isInJob] at c; dsimp only; omega
  · intro w' j0 hw'
    rcases getElem?_set_cases _ _ _ _ _ hw' with ⟨_, e⟩ | ⟨_, hw''⟩
    · cases e
    · exact h.hasJ w' j0 hw''
  · intro w' j0 hw'
    rcases getElem?_set_cases _ _ _ _ _ hw' with ⟨_, e⟩ | ⟨_, hw''⟩
    · cases e
    · exact h.inJ w' j0 hw''
  · intro w1 w2 j0 x x' hw1 hw2 hx hx'
    rcases getElem?_set_cases _ _ _ _ _ hw1 with ⟨_, rfl⟩ | ⟨_, h1⟩
    · simp [WSt.job] at hx
    · rcases getElem?_set_cases _ _ _ _ _ hw2 with ⟨_, rfl⟩ | ⟨_, h2⟩
      · simp [WSt.job] at hx'
      · exact h.uniq w1 w2 j0 x x' h1 h2 hx hx'

/-- an invocation announces new jobs -/
theorem jinv0_announce (s : St) (t : Nat) (js : List (Nat × Bool)) (h : JInv0 s) :
    JInv0 { s with jobs := s.jobs ++ newJobs t js } := by
  have hnew : ∀ (u : Nat) (x : Job), (s.jobs ++ newJobs t js)[u]? = some x →
      s.jobs[u]? = some x ∨ (x.st = .fresh ∧ x.seq = none ∧ x.starts = 0) := by
    intro u x hx
    by_cases hlt : u < s.jobs.length
    · left; rw [List.getElem?_append_left hlt] at hx; exact hx
    · right
      rw [List.getElem?_append_right (by omega)] at hx
      have := List.mem_of_getElem? hx
      simp only [newJobs, List.mem_map] at this
      obtain ⟨p, _, rfl⟩ := this
      exact ⟨rfl, rfl, rfl⟩
  have hold : ∀ (u : Nat) (x : Job), s.jobs[u]? = some x → (s.jobs ++ newJobs t js)[u]? = some x := by
    intro u x hx; rw [List.getElem?_append_left (lt_of_getElem? hx)]; exact hx
  have hcnt : ∀ p : Job → Bool, (∀ x : Job, x.st = .fresh → p x = false) →
      (s.jobs ++ newJobs t js).countP p = s.jobs.countP p := by
    intro p hp
    rw [List.countP_append]
    have : (newJobs t js).countP p = 0 := by
      rw [List.countP_eq_zero]
      intro x hx
      simp only [newJobs, List.mem_map] at hx
      obtain ⟨q, _, rfl⟩ := hx
      simp [hp]
    omega
  refine ⟨h.bcwf, h.bccur, h.qlen, h.run, h.lim, h.nseq, ?_, ?_, ?_, ?_, ?_, ?_, ?_, h.uniq, ?_, ?_⟩
  · intro k j hk
    obtain ⟨x, hx, r⟩ := h.qjobs k j hk
    exact ⟨x, hold j x hx, r⟩
  · intro u x hx
    rcases hnew u x hx with hx' | ⟨a, b, _⟩
    · exact h.seqs u x hx'
    · exact ⟨by simp [a, b], by intro q hq; rw [b] at hq; cases hq⟩
  · intro u u' x x' q hx hx' hq hq'
    rcases hnew u x hx with h1 | ⟨_, b, _⟩
    · rcases hnew u' x' hx' with h2 | ⟨_, b', _⟩
      · exact h.seqinj u u' x x' q h1 h2 hq hq'
      · rw [b'] at hq'; cases hq'
    · rw [b] at hq; cases hq
  · rw [hcnt _ (by intro x hx; simp [Job.isAssigned, hx])]; exact h.cntA
  · rw [hcnt _ (by intro x hx; simp [Job.isActive, hx])]; exact h.cntR
  · intro w j hw
    obtain ⟨x, hx, r⟩ := h.hasJ w j hw
    exact ⟨x, hold j x hx, r⟩
  · intro w j hw
    obtain ⟨x, hx, r⟩ := h.inJ w j hw
    exact ⟨x, hold j x hx, r⟩
  · intro u x hx
    rcases hnew u x hx with hx' | ⟨a, _, c⟩
    · exact h.starts u x hx'
    · simp [a, c]
  · intro hl u x q hx hq hlt
    rcases hnew u x hx with hx' | ⟨_, b, _⟩
    · exact h.l1 hl u x q hx' hq hlt
    · rw [b] at hq; cases hq

end UtilModel.Conc
