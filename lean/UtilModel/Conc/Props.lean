import UtilModel.Conc.Proofs3
import UtilModel.Conc.Sim
import UtilModel.Conc.SimFifo
/-!
# conc.ConcurrentQueue — property C18, for every event list

"A ConcurrentQueue with limit n>0 never has more than n jobs executing at once, runs every enqueued
job exactly once, and with n=1 runs them in enqueue order. The counts returned by Enqueue and reported
to WatchState always satisfy queued>0 only if running equals the limit, and WaitIdle returns nil only
when every job enqueued before it was called has finished."

Every theorem quantifies over all event lists `es` of the model: every limit (unlimited included),
every number of producers, batch split, worker interleaving and job duration (a job ends when the
environment says so: `jobOut` is enabled at any time after `jobIn`).
-/
namespace UtilModel.Conc
open UtilModel

/-- **bounded parallelism.** With limit `n > 0` at most `n` jobs are executing. -/
theorem active_le_limit (es : List Ev) (s : St) (h : model.run model.init es = some s)
    (hl : 0 < s.limit) : (s.jobs.countP Job.isActive : Int) ≤ s.limit := by
  have hi := reachable_inv es s h
  have h1 := hi.cntR
  have h2 := hi.run
  have h3 := hi.lim hl
  have h4 : s.ws.countP WSt.isInJob ≤ s.ws.countP WSt.live :=
    List.countP_mono_left (by intro x _ hx; cases x <;> simp [WSt.isInJob, WSt.live] at hx ⊢)
  omega

/-- **every job at most once; a nil job is never run.** `starts` counts the entries of a job (`cbin j`);
it is 1 exactly for a non-nil job that has been entered, 0 otherwise. -/
theorem each_job_at_most_once (es : List Ev) (s : St) (h : model.run model.init es = some s)
    (j : Nat) (jb : Job) (hj : s.jobs[j]? = some jb) :
    jb.starts ≤ 1 ∧ (jb.starts = 1 ↔ jb.started ∧ jb.isNil = false) := by
  have := (reachable_inv es s h).starts j jb hj
  unfold Job.started
  rw [this]
  by_cases hc : (jb.st = .active ∨ jb.st = .finished) ∧ jb.isNil = false
  · simp [hc]
  · simp [hc]

/-- **every job exactly once (quiescent form).** When nothing moves any more and no job is executing
(the environment has released all of them), every job ever passed to the queue is finished; with
`each_job_at_most_once` every non-nil one has run exactly once. -/
theorem each_job_once (es : List Ev) (s : St) (h : model.run model.init es = some s)
    (hq : quiescent s = true) (hrel : activeJobs s = [])
    (j : Nat) (jb : Job) (hj : s.jobs[j]? = some jb) :
    jb.st = .finished ∧ jb.starts = (if jb.isNil then 0 else 1) :=
  each_job_once_aux s (reachable_inv es s h) hq hrel j jb hj

/-- **work conservation (quiescent form).** When nothing moves any more and a job is still waiting
in the queue, exactly `limit` jobs are executing. -/
theorem quiescent_queue_full (es : List Ev) (s : St) (h : model.run model.init es = some s)
    (hq : quiescent s = true) (hne : s.queue ≠ []) :
    0 < s.limit ∧ (s.jobs.countP Job.isActive : Int) = s.limit :=
  quiescent_queue_full_aux s (reachable_inv es s h) hq hne

/-- **jobs are handed to workers in enqueue order (any limit).** `seq` numbers the jobs in the order
of their enqueue steps; if a job has left the queue, so has every job enqueued before it. -/
theorem fifo_assignment (es : List Ev) (s : St) (h : model.run model.init es = some s)
    (j j' : Nat) (jb jb' : Job) (q q' : Nat) (hj : s.jobs[j]? = some jb) (hj' : s.jobs[j']? = some jb')
    (hq : jb.seq = some q) (hq' : jb'.seq = some q') (hlt : q' < q)
    (hout : jb.st ≠ .queued) : jb'.st ≠ .queued := by
  have hi := reachable_inv es s h
  have a := ((hi.seqs j jb hj).2 q hq).2
  have b := ((hi.seqs j' jb' hj').2 q' hq').2
  intro e
  have := b.mp e
  exact hout (a.mpr (by omega))

/-- **limit 1: enqueue order.** If a job has been started, every job enqueued before it has been
started (a nil job: skipped) as well. -/
theorem fifo_when_one (es : List Ev) (s : St) (h : model.run model.init es = some s)
    (hl : s.limit = 1)
    (j j' : Nat) (jb jb' : Job) (q q' : Nat) (hj : s.jobs[j]? = some jb) (hj' : s.jobs[j']? = some jb')
    (hq : jb.seq = some q) (hq' : jb'.seq = some q') (hlt : q' < q)
    (hst : jb.started) : jb'.started := by
  have hi := reachable_inv es s h
  have a := ((hi.seqs j jb hj).2 q hq).2
  have hnq : ¬ s.nasg ≤ q := by
    intro e
    have := a.mpr e
    rcases hst with e' | e' <;> rw [e'] at this <;> cases this
  exact hi.l1 hl j' jb' q' hj' hq' (by omega)

/-- **queued > 0 only if running = limit (state form).** -/
theorem queued_pos_imp_full_state (es : List Ev) (s : St) (h : model.run model.init es = some s) :
    PairOK s.limit s.qsize s.running :=
  pair_ok_now s (reachable_inv es s h).toJInv

/-- **queued > 0 only if running = limit (every reported pair).** Every pair `(q, r)` that `Enqueue`
is about to return or that is passed to a `WatchState` callback satisfies `0 ≤ q`, `0 ≤ r`,
`r ≤ limit` (if limited) and `q > 0 → limit > 0 ∧ r = limit`. -/
theorem queued_pos_imp_full (es : List Ev) (s : St) (h : model.run model.init es = some s)
    (t : Nat) (q r : Int) (ch : Nat)
    (ht : s.th[t]? = some (.enqDone q r) ∨ s.th[t]? = some (.wsCb q r ch) ∨ s.th[t]? = some (.wsParked q r ch)) :
    PairOK s.limit q r := by
  have hi := reachable_inv es s h
  rcases ht with ht | ht | ht
  · exact hi.th t _ ht
  · exact (hi.th t _ ht).1
  · exact (hi.th t _ ht).1

/-- **WaitIdle returns nil only when everything enqueued before its invocation has finished.** `n0`
is the number of jobs whose enqueue step had run when `WaitIdle` was invoked (`invWI_records`); all
of them (sequence number `< n0`) are finished when `nil` is the result. -/
theorem waitIdle_sound (es : List Ev) (s : St) (h : model.run model.init es = some s)
    (t n0 : Nat) (ht : s.th[t]? = some (.wiDone .nil n0))
    (j : Nat) (jb : Job) (q : Nat) (hj : s.jobs[j]? = some jb) (hq : jb.seq = some q) (hlt : q < n0) :
    jb.st = .finished :=
  ((reachable_inv es s h).th t _ ht).2 rfl j jb q hj hq hlt

/-- the invocation of `WaitIdle` records how many jobs have been enqueued so far -/
theorem invWI_records (s s' : St) (t : Nat) (hs : step s (.invWI t) = some s') :
    s'.th[t]? = some (.wiInv s.nseq) := by
  simp only [step] at hs; split at hs <;> simp at hs; subst hs
  rename_i hc; rw [hc.2]; simp

/-- **no lost wake-up (WaitIdle).** A `WaitIdle` parked on a still-open wait channel sees a busy queue. -/
theorem waitIdle_parked_open (es : List Ev) (s : St) (h : model.run model.init es = some s)
    (t n0 ch : Nat) (ht : s.th[t]? = some (.wiParked n0 ch)) (hopen : s.bc.closed ch = false) :
    ¬ idle s :=
  ((reachable_inv es s h).th t _ ht).2.2 hopen

/-- … so if the queue is idle its own re-check step is enabled and returns nil — no further event of
anybody else is needed. -/
theorem waitIdle_enabled (es : List Ev) (s : St) (h : model.run model.init es = some s)
    (t n0 ch : Nat) (ht : s.th[t]? = some (.wiParked n0 ch)) (hid : idle s) :
    ∃ s', step s (.wiCS t) = some s' ∧ s'.th[t]? = some (.wiDone .nil n0) := by
  have hcl : s.bc.closed ch = true := by
    cases hc : s.bc.closed ch
    · exact absurd hid (waitIdle_parked_open es s h t n0 ch ht hc)
    · rfl
  refine ⟨wiSample s t n0, by simp [step, ht, hcl], ?_⟩
  have : s.running = 0 ∧ s.qsize = 0 := hid
  simp [wiSample, this, lt_of_getElem? ht]

/-- **no lost wake-up (WatchState).** A `WatchState` parked on a still-open wait channel was last told
the current `running`, and a `queued` that is at least the current one (a worker that takes the next
job from the queue decrements `jobQueueSize` without broadcasting — see `watch_stale_queued`). -/
theorem watch_parked_open (es : List Ev) (s : St) (h : model.run model.init es = some s)
    (t : Nat) (q r : Int) (ch : Nat) (ht : s.th[t]? = some (.wsParked q r ch))
    (hopen : s.bc.closed ch = false) : s.running = r ∧ s.qsize ≤ q :=
  ((reachable_inv es s h).th t _ ht).2.2 hopen

/-- the stronger statement "a parked watcher was told the current pair" is false: limit 1, two jobs,
the watcher is told (1,1); job 0 returns and its worker takes job 1 from the queue without a
broadcast; the state is quiescent, the watcher is parked on an open channel, `queued` is 0 -/
theorem watch_stale_queued : ∃ (es : List Ev) (s : St), model.run model.init es = some s ∧
    quiescent s = true ∧ s.th[2]? = some (.wsParked 1 1 1) ∧ s.bc.closed 1 = false ∧ s.qsize = 0 := by
  refine ⟨[.invNew 0 1 [], .retNew 0, .invEnq 1 [(0, false), (1, false)], .enqCS 1, .retEnq 1 1 1,
           .jobIn 0 0, .invWS 2 false, .wsCS 2, .cbWS 2 1 1 .cont, .jobOut 0 0, .popCS 0, .jobIn 0 1], _, rfl, ?_⟩
  decide

/-- **quiescent form for both waiters.** When nothing moves any more, a pending `WaitIdle` sees a job
still executing, and a pending `WatchState` was last told the current number of running jobs. -/
theorem quiescent_waiters (es : List Ev) (s : St) (h : model.run model.init es = some s)
    (hq : quiescent s = true) (t : Nat) :
    (∀ n0 ch : Nat, s.th[t]? = some (.wiParked n0 ch) → activeJobs s ≠ []) ∧
    (∀ (q r : Int) (ch : Nat), s.th[t]? = some (.wsParked q r ch) →
        r = ((activeJobs s).length : Nat) ∧ s.qsize ≤ q) :=
  quiescent_waiters_aux s (reachable_inv es s h) hq t

/-- **C18, observable form.** Every observable trace of the model is accepted by the monitor `monC18`:
bounded parallelism; each job entered at most once and only if enqueued and non-nil; under limit 1
every job enqueued before (an earlier argument of the same call, or a job of a call that had returned
when this job's call was invoked) has been started; the reported-pair condition for every `Enqueue`
result and every `WatchState` callback; `WaitIdle` returning nil only after the jobs of calls that had
returned at its invocation have finished; and at every quiescence point work conservation (hence
every job exactly once after all are released) and no lost wake-up for both waiters — for every limit,
number of producers, batch split, interleaving and job duration. -/
theorem C18_obs (es : List Ev) (s : St) (h : model.run model.init es = some s) :
    monC18.accepts (es.filterMap model.obs) = true :=
  monitor_accepts_of_simulation model (monC18g true) RelFull relFull_init
    (fun s e s' ms hR hs => by
      have h := sim_step_full s e s' ms hR hs
      cases e <;> exact h) es s h

/-- the same for the monitor without its enqueue-order clause (the core simulation `C18_obs` is
built on) -/
theorem C18_obs_core (es : List Ev) (s : St) (h : model.run model.init es = some s) :
    (monC18g false).accepts (es.filterMap model.obs) = true :=
  monitor_accepts_of_simulation model (monC18g false) RelC18 relC18_init
    (fun s e s' ms hR hs => by
      have h := sim_step s e s' ms hR hs
      cases e <;> exact h) es s h

/-! ## the hypotheses are satisfiable; the model does something non-trivial -/

/-- limit 2, three jobs: two start, one is queued; WaitIdle parks; after all are released it returns nil -/
example : ∃ s, model.run model.init
    [.invNew 0 2 [], .retNew 0, .invEnq 1 [(0, false), (1, false), (2, false)], .enqCS 1, .retEnq 1 1 2,
     .jobIn 0 0, .jobIn 1 1, .invWI 2, .wiCS 2, .quiesce [2] [0, 1],
     .jobOut 0 0, .popCS 0, .jobIn 0 2, .jobOut 1 1, .popCS 1, .jobOut 0 2, .popCS 0,
     .wiCS 2, .retWI 2 .nil, .quiesce [] []] = some s ∧ s.running = 0 := by decide

/-- a worker finishes exactly while a producer enqueues: the producer's section first (the job is
queued), then the worker's (it takes the job); the other order starts a new worker -/
example : ∃ s, model.run model.init
    [.invNew 0 1 [(0, false)], .retNew 0, .jobIn 0 0, .jobOut 0 0, .invEnq 1 [(1, false)],
     .enqCS 1, .popCS 0, .retEnq 1 1 1, .jobIn 0 1] = some s ∧ s.ws.length = 1 := by decide

example : ∃ s, model.run model.init
    [.invNew 0 1 [(0, false)], .retNew 0, .jobIn 0 0, .jobOut 0 0, .invEnq 1 [(1, false)],
     .popCS 0, .enqCS 1, .retEnq 1 0 1, .jobIn 1 1] = some s ∧ s.ws.length = 2 := by decide

/-- exceeding the limit is not a behaviour of the model -/
example : model.run model.init
    [.invNew 0 1 [], .retNew 0, .invEnq 1 [(0, false), (1, false)], .enqCS 1, .jobIn 0 0, .jobIn 1 1] = none := by
  decide

end UtilModel.Conc
