import UtilModel.Conc.Scratch3
namespace UtilModel.Conc
open UtilModel

theorem invNew_shape (s : St) (t : Nat) (L : Int) (js : List (Nat × Bool)) (s' : St) (hi : Inv s)
    (hs : step s (.invNew t L js) = some s') :
    s = {} ∧ t = 0 ∧ idsOK js 0 = true ∧ ∃ s3 : St, (s' = s3 ∨ s' = { s3 with bc := bcast s3.bc }) ∧
      s3.created = true ∧ s3.limit = L ∧ s3.th = [.newDone] ∧ s3.cx = [] ∧
      s3.jobs.map jinfo = mkJobs 0 js := by
  simp only [step] at hs
  split at hs
  case isFalse => simp at hs
  rename_i hc
  obtain ⟨hcr, rfl, hids⟩ := hc
  have hs0 := hi.cre hcr
  subst hs0
  refine ⟨rfl, rfl, hids, ?_⟩
  have hids' : js.map (·.1) = List.range' 0 js.length := by simpa [idsOK] using hids
  simp only [Option.some.injEq] at hs
  have h1 : JInv0 { created := true, limit := L, jobs := newJobs 0 js, th := [.newDone] } := jinv0_start L 0 js
  have hfr : ∀ j : Nat, j ∈ js.map (·.1) → ∃ jb : Job,
      ({ created := true, limit := L, jobs := newJobs 0 js, th := [.newDone] } : St).jobs[j]? = some jb ∧ jb.st = .fresh := by
    intro j hj
    rw [hids'] at hj
    obtain ⟨jb, a, b, _⟩ := newJobs_get [] 0 js j (by simpa using hj)
    exact ⟨jb, by simpa using a, b⟩
  have hnd : (js.map (·.1)).Nodup := by rw [hids']; exact List.nodup_range'
  obtain ⟨h2, F2⟩ := fold_push (js.map (·.1)) _ h1 hfr hnd
  have k2 := fold_push_kept (js.map (·.1)) _ h1 hfr hnd
  obtain ⟨_, F3⟩ := update_inv _ _ h2 (Nat.le_refl _)
  have k3 := update_kept ((js.map (·.1)).foldl pushInit
      { created := true, limit := L, jobs := newJobs 0 js, th := [.newDone] }).queue.length _ h2
  have hcx2 := fold_push_cx (js.map (·.1)) { created := true, limit := L, jobs := newJobs 0 js, th := [.newDone] }
  have hcx3 := update_cx ((js.map (·.1)).foldl pushInit
      { created := true, limit := L, jobs := newJobs 0 js, th := [.newDone] }).queue.length
      ((js.map (·.1)).foldl pushInit { created := true, limit := L, jobs := newJobs 0 js, th := [.newDone] })
  have hmap := kept_map (kept_trans k2 k3)
  have hth3 := F3.th; rw [F2.th] at hth3
  have hcr3 := F3.created; rw [F2.created] at hcr3
  have hl3 := F3.limit; rw [F2.limit] at hl3
  rw [hcx2] at hcx3
  simp only [List.nil_append, List.length_nil] at hs
  generalize hg2 : (js.map (·.1)).foldl pushInit
      { created := true, limit := L, jobs := newJobs 0 js, th := [.newDone] } = s2 at *
  generalize hg3 : update s2 s2.queue.length = s3 at *
  refine ⟨s3, ?_, hcr3, hl3, hth3, hcx3, ?_⟩
  · rw [← hs]; split
    · right; rfl
    · left; rfl
  · rw [hmap]; exact newJobs_view 0 js

theorem sim_invNew (s : St) (t : Nat) (L : Int) (js : List (Nat × Bool)) (s' : St) (ms : C18St) (hR : RelC18 s ms)
    (hs : step s (.invNew t L js) = some s') :
    ∃ ms', (monC18g false).step ms (.invNew t L js) = some ms' ∧ RelC18 s' ms' := by
  have hi' := step_inv s _ s' hR.inv hs
  obtain ⟨rfl, rfl, hids, s3, hs3, hcr, hl, hth, hcx, hmap⟩ := invNew_shape s t L js s' hR.inv hs
  have hlim : ms.limit = none := by rw [hR.limit]; rfl
  have hjobs : ms.jobs = [] := by rw [hR.jobs]; rfl
  have hcalls : ms.calls = [] := List.eq_nil_of_length_eq_zero (by rw [hR.clen]; rfl)
  refine ⟨{ limit := some L, jobs := ms.jobs ++ mkJobs 0 js,
            calls := ms.calls ++ [{ kind := .new, jobs := js.map (·.1) }] }, ?_, ?_⟩
  · simp [monC18g, hlim, hcalls, hjobs, hids]
  · have key : s'.created = true ∧ s'.limit = L ∧ s'.th = [.newDone] ∧ s'.cx = [] ∧
        s'.jobs.map jinfo = mkJobs 0 js := by
      rcases hs3 with e | e <;> subst e <;> exact ⟨hcr, hl, hth, hcx, hmap⟩
    obtain ⟨a, b, c, d, e⟩ := key
    refine ⟨hi', by simp [a, b], by simp [hjobs, e], by simp [hcalls, c], ?_, by simp [d]⟩
    intro t' ts c' h1 hc'
    rw [c] at h1
    simp only [hcalls, List.nil_append] at hc'
    cases t' with
    | zero =>
      simp at h1 hc'; subst h1 hc'
      refine ⟨rfl, by simp [d], by simp [TS.wiN0], by simp [TS.isWS], ?_, ?_⟩
      · intro q r ch e; cases e
      · intro n0 e; simp [TS.wiN0] at e
    | succ n => simp at h1

end UtilModel.Conc
