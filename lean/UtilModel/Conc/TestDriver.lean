import UtilModel.Core.DriverH
import UtilModel.Conc.Model
import UtilModel.Conc.Monitors
/-! Development driver for this component only: `lake env lean --run UtilModel/Conc/TestDriver.lean conc < hist` -/
open UtilModel

def main (args : List String) : IO UInt32 :=
  driverMain [
    mkEntryH "conc" Conc.model Conc.Obs.parse [MonEntry.ofMonitor "C18" Conc.monC18] (cap := 20000)
  ] args
