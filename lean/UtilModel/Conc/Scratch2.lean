import UtilModel.Conc.Scratch
namespace UtilModel.Conc
open UtilModel

theorem cx_fresh {s : St} {ms : C18St} (hR : RelC18 s ms) : s.cx.contains s.th.length = false := by
  cases h : s.cx.contains s.th.length
  · rfl
  · have := hR.cxlt _ h; omega

/-- a job the monitor regards as settled (non-nil, its call returned) has had its enqueue step -/
theorem settled_seq {s : St} {ms : C18St} (hR : RelC18 s ms) (p : JM → Bool) (j : Nat)
    (hj : j ∈ ms.settled p) :
    ∃ (jb : Job) (q : Nat), s.jobs[j]? = some jb ∧ jb.seq = some q ∧ q < s.nseq ∧ jb.isNil = false := by
  simp only [C18St.settled, List.mem_filter, List.mem_range] at hj
  obtain ⟨_, hcond⟩ := hj
  rw [hR.jobs] at hcond
  simp only [List.getElem?_map] at hcond
  cases hjb : s.jobs[j]? with
  | none => simp [hjb] at hcond
  | some jb =>
    simp only [hjb, Option.map_some, jinfo, Bool.and_eq_true, Bool.not_eq_true'] at hcond
    obtain ⟨⟨hnil, _⟩, hret⟩ := hcond
    -- the owner call has returned: its state is `finished`
    simp only [C18St.callReturned] at hret
    cases hc : ms.calls[jb.owner]? with
    | none => simp [hc] at hret
    | some c =>
      simp only [hc] at hret
      have hlt : jb.owner < s.th.length := by rw [← hR.clen]; exact lt_of_getElem? hc
      have hts : s.th[jb.owner]? = some s.th[jb.owner] := List.getElem?_eq_getElem hlt
      have hcr := hR.calls jb.owner _ c hts hc
      have hfin : s.th[jb.owner].isFinished = true := by rw [← hcr.ret]; exact hret
      have hnf : jb.st ≠ .fresh := by
        intro hf
        obtain ⟨js, h1, _⟩ := hR.inv.fresh j jb hjb hf
        have heq : s.th[jb.owner] = .enqInv js := by
          have h2 := h1; rw [hts] at h2; exact Option.some.inj h2
        rw [heq] at hfin; simp [TS.isFinished] at hfin
      obtain ⟨a, b⟩ := hR.inv.seqs j jb hjb
      cases hsq : jb.seq with
      | none => exact absurd (a.mpr hsq) hnf
      | some q => exact ⟨jb, q, rfl, hsq, (b q hsq).1, hnil⟩

theorem sim_invWI (s : St) (t : Nat) (s' : St) (ms : C18St) (hR : RelC18 s ms)
    (hs : step s (.invWI t) = some s') :
    ∃ ms', (monC18g false).step ms (.invWI t) = some ms' ∧ RelC18 s' ms' := by
  have hi' := step_inv s _ s' hR.inv hs
  simp only [step] at hs; split at hs <;> simp at hs; subst hs
  rename_i hc
  obtain ⟨hcr, rfl⟩ := hc
  refine ⟨{ ms with calls := ms.calls ++ [{ kind := .wi, snap := ms.settled (· != .finished) }] },
    by simp [monC18g, hR.clen], ?_⟩
  refine rel_append s _ ms _ _ hR hi' (kept_th s _ s.cx s.mail s.bc) rfl rfl rfl rfl rfl ?_
  refine ⟨rfl, (cx_fresh hR).symm, fun _ => rfl, by simp [TS.isWS], ?_, ?_⟩
  · intro q r ch e; cases e
  · intro n0 hn j hj
    simp [TS.wiN0] at hn; subst hn
    have hj' : j ∈ ms.settled (· != .finished) := hj
    exact settled_seq hR _ j hj'

theorem sim_invWS (s : St) (t : Nat) (nilcb : Bool) (s' : St) (ms : C18St) (hR : RelC18 s ms)
    (hs : step s (.invWS t nilcb) = some s') :
    ∃ ms', (monC18g false).step ms (.invWS t nilcb) = some ms' ∧ RelC18 s' ms' := by
  have hi' := step_inv s _ s' hR.inv hs
  simp only [step] at hs; split at hs <;> simp at hs; subst hs
  rename_i hc
  obtain ⟨hcr, rfl⟩ := hc
  refine ⟨{ ms with calls := ms.calls ++ [{ kind := .ws }] }, by simp [monC18g, hR.clen], ?_⟩
  refine rel_append s _ ms _ _ hR hi' (kept_th s _ s.cx s.mail s.bc) rfl rfl rfl rfl rfl ?_
  refine ⟨by cases nilcb <;> rfl, (cx_fresh hR).symm, by cases nilcb <;> simp [TS.wiN0], fun _ => rfl, ?_, ?_⟩
  · intro q r ch e; cases nilcb <;> cases e
  · intro n0 hn; cases nilcb <;> simp [TS.wiN0] at hn

theorem sim_cbWS (s : St) (t : Nat) (q r : Int) (a : Act) (s' : St) (ms : C18St) (hR : RelC18 s ms)
    (hs : step s (.cbWS t q r a) = some s') :
    ∃ ms', (monC18g false).step ms (.cbWS t q r a) = some ms' ∧ RelC18 s' ms' := by
  have hi' := step_inv s _ s' hR.inv hs
  simp only [step] at hs; split at hs <;> simp at hs
  rename_i q' r' ch ha
  obtain ⟨⟨hq, hr⟩, rfl⟩ := hs
  subst hq hr
  obtain ⟨c, hc⟩ := calls_get hR ha
  have hp : PairOK s.limit q r := (hR.inv.th t _ ha).1
  have hcr := hR.calls t _ c ha hc
  refine ⟨ms.setCall t fun c => { c with last := some (q, r) }, ?_, ?_⟩
  · simp [monC18g, limit_some hR ha, pairOK_of _ _ _ hp]
  · rw [setCall_eq hc]
    refine rel_set s _ ms t _ _ hR hi' (kept_th s _ s.cx s.mail s.bc) rfl rfl rfl rfl ?_
    have hk := hcr.kws rfl
    have hret : c.returned = false := by rw [hcr.ret]; rfl
    cases a <;> dsimp only <;> refine ⟨hret, hcr.canc, by simp [TS.wiN0], fun _ => hk, ?_, ?_⟩
    · intro q1 r1 ch1 e; cases e; rfl
    · intro n0 e; simp [TS.wiN0] at e
    · intro q1 r1 ch1 e; cases e
    · intro n0 e; simp [TS.wiN0] at e
    · intro q1 r1 ch1 e; cases e
    · intro n0 e; simp [TS.wiN0] at e

theorem sim_envErr (s : St) (t : Nat) (m : Msg) (s' : St) (ms : C18St) (hR : RelC18 s ms)
    (hs : step s (.envErr t m) = some s') :
    ∃ ms', (monC18g false).step ms (.envErr t m) = some ms' ∧ RelC18 s' ms' := by
  have hi' := step_inv s _ s' hR.inv hs
  simp only [step] at hs; split at hs <;> simp at hs; subst hs
  exact ⟨ms, rfl, rel_internal s _ ms hR hi' (kept_th s s.th s.cx _ s.bc) rfl rfl rfl rfl
    (fun t ts1 h => ⟨ts1, h, tsame_refl _⟩)⟩

theorem sim_envCancel (s : St) (t : Nat) (s' : St) (ms : C18St) (hR : RelC18 s ms)
    (hs : step s (.envCancel t) = some s') :
    ∃ ms', (monC18g false).step ms (.envCancel t) = some ms' ∧ RelC18 s' ms' := by
  have hi' := step_inv s _ s' hR.inv hs
  simp only [step] at hs; split at hs <;> simp at hs; subst hs
  rename_i hlt
  have hts : s.th[t]? = some s.th[t] := List.getElem?_eq_getElem hlt
  obtain ⟨c, hc⟩ := calls_get hR hts
  refine ⟨ms.setCall t fun c => { c with cancelled := true }, rfl, ?_⟩
  rw [setCall_eq hc]
  refine ⟨hi', hR.limit, hR.jobs, by simp [hR.clen], ?_, ?_⟩
  · intro t' ts c' h1 hc'
    simp only at h1 hc'
    rcases getElem?_set_cases _ _ _ _ _ hc' with ⟨e, rfl⟩ | ⟨hne, hc''⟩
    · subst e
      have h0 := hR.calls t' ts c h1 hc
      exact ⟨h0.ret, by simp, h0.kwi, h0.kws, h0.last, h0.snapWI⟩
    · have h0 := hR.calls t' ts c' h1 hc''
      refine ⟨h0.ret, ?_, h0.kwi, h0.kws, h0.last, h0.snapWI⟩
      rw [h0.canc]; simp [List.contains_cons, hne]
  · intro t' ht'
    simp [List.contains_cons] at ht'
    rcases ht' with e | e
    · subst e; exact hlt
    · exact hR.cxlt t' (by simpa using e)

end UtilModel.Conc
