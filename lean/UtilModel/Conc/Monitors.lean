import UtilModel.Conc.Model
import UtilModel.Core.Monitor
/-!
# conc: property C18 as an executable monitor over observable histories

Clauses (the words of C18):
* `cbin j`     `j` was enqueued, is not a nil job and has not been started before        (exactly once, ≤)
               with limit `n > 0` at most `n` jobs are in progress afterwards             (bounded parallelism)
               with limit 1: every job enqueued *before* `j` has been started, where "before" is what
               the history shows: an earlier argument of the same call, or a job of a call that had
               returned when `j`'s call was invoked                                       (enqueue order)
* `ret enqueue q r`, `cb t q r`   `0 ≤ q`, `0 ≤ r`, `r ≤ n` (limit n > 0), and `q > 0` only if `n > 0 ∧ r = n`
* `ret waitidle nil`  every (non-nil) job of a call that had returned when WaitIdle was invoked has finished
* `quiesce B A` `A` are the jobs in progress; `|A| ≤ n`; an enqueued job not started ⇒ `n > 0 ∧ |A| = n`
               (so once all jobs are released every job has run: exactly once, ≥); a pending WaitIdle ⇒
               `A ≠ []` (no lost wake-up); a pending WatchState was last told `running = |A|`; no
               pending call has a cancelled context; only waiters are pending
-/
namespace UtilModel.Conc

inductive JM where
  | unstarted | active | finished
deriving DecidableEq, Repr, Inhabited

structure JInfo where
  call : Nat
  isNil : Bool
  st : JM
deriving DecidableEq, Repr, Inhabited

inductive CK where
  | new | enq | wi | ws
deriving DecidableEq, Repr, Inhabited

structure CInfo where
  kind : CK
  jobs : List Nat := []
  /-- enq: non-nil jobs not yet started of calls that had returned at invocation (must start first
  under limit 1); wi: non-nil unfinished jobs of calls that had returned at invocation -/
  snap : List Nat := []
  returned : Bool := false
  cancelled : Bool := false
  last : Option (Int × Int) := none
deriving DecidableEq, Repr, Inhabited

structure C18St where
  limit : Option Int := none
  jobs : List JInfo := []
  calls : List CInfo := []
deriving DecidableEq, Repr

def C18St.callReturned (ms : C18St) (t : Nat) : Bool :=
  match ms.calls[t]? with
  | some c => c.returned
  | none => false

/-- non-nil jobs in state `p` whose call has returned -/
def C18St.settled (ms : C18St) (p : JM → Bool) : List Nat :=
  (List.range ms.jobs.length).filter fun j => match ms.jobs[j]? with
    | some ji => !ji.isNil && p ji.st && ms.callReturned ji.call
    | none => false

def C18St.activeIds (ms : C18St) : List Nat :=
  (List.range ms.jobs.length).filter fun j => match ms.jobs[j]? with
    | some ji => ji.st == .active
    | none => false

def C18St.started (ms : C18St) (j : Nat) : Bool :=
  match ms.jobs[j]? with
  | some ji => ji.isNil || ji.st != .unstarted
  | none => true

def C18St.isFinished (ms : C18St) (j : Nat) : Bool :=
  match ms.jobs[j]? with
  | some ji => ji.st == .finished
  | none => false

def pairOK (L q r : Int) : Bool :=
  decide (0 ≤ q ∧ 0 ≤ r ∧ (0 < L → r ≤ L) ∧ (0 < q → 0 < L ∧ r = L))

def mkJobs (t : Nat) (js : List (Nat × Bool)) : List JInfo :=
  js.map fun p => { call := t, isNil := p.2, st := .unstarted }

def C18St.setCall (ms : C18St) (t : Nat) (f : CInfo → CInfo) : C18St :=
  match ms.calls[t]? with
  | some c => { ms with calls := ms.calls.set t (f c) }
  | none => ms

/-- the earlier arguments of the same call as `j` -/
def earlierSiblings (c : CInfo) (j : Nat) : List Nat := c.jobs.takeWhile (· != j)

/-- limit 1: everything enqueued before `j` (as far as the history shows) has been started -/
def fifoOK (ms : C18St) (call j : Nat) : Bool :=
  match ms.calls[call]? with
  | some c => c.snap.all ms.started && (earlierSiblings c j).all ms.started
  | none => false

/-- a pending call at a quiescence point: a waiter, not cancelled, with a reason to wait -/
def pendingOK (ms : C18St) (A : List Nat) (t : Nat) : Bool :=
  match ms.calls[t]? with
  | some c => !c.returned && !c.cancelled &&
      (match c.kind with
       | .wi => !A.isEmpty
       | .ws => (match c.last with
                 | some (_, r) => r == (A.length : Int)
                 | none => false)
       | _ => false)
  | none => false

/-- the monitor, with the enqueue-order clause switchable (`fifo = false` is only used as the first
layer of the simulation proof, `C18_obs_core`; the registered monitor is `monC18 = monC18g true`) -/
def monC18g (fifo : Bool) : ObsMonitor Obs C18St where
  init := {}
  step := fun ms o =>
    match o with
    | .invNew t L js =>
      if ms.limit.isNone ∧ t = ms.calls.length ∧ idsOK js ms.jobs.length then
        some { limit := some L, jobs := ms.jobs ++ mkJobs t js,
               calls := ms.calls ++ [{ kind := .new, jobs := js.map (·.1) }] }
      else none
    | .retNew t => some (ms.setCall t fun c => { c with returned := true })
    | .invEnq t js =>
      if ms.limit.isSome ∧ t = ms.calls.length ∧ idsOK js ms.jobs.length then
        some { ms with jobs := ms.jobs ++ mkJobs t js,
                       calls := ms.calls ++ [{ kind := .enq, jobs := js.map (·.1),
                                               snap := ms.settled (· == .unstarted) }] }
      else none
    | .retEnq t q r =>
      match ms.limit with
      | some L => if pairOK L q r then some (ms.setCall t fun c => { c with returned := true }) else none
      | none => none
    | .jobIn j =>
      match ms.limit, ms.jobs[j]? with
      | some L, some ji =>
        if ji.isNil = false ∧ ji.st = .unstarted then
          let ms' := { ms with jobs := ms.jobs.set j { ji with st := .active } }
          if (0 < L → (ms'.activeIds.length : Int) ≤ L) ∧
             (fifo = true → L = 1 → fifoOK ms ji.call j = true)
          then some ms' else none
        else none
      | _, _ => none
    | .jobOut j =>
      match ms.jobs[j]? with
      | some ji => if ji.st = .active then some { ms with jobs := ms.jobs.set j { ji with st := .finished } } else none
      | none => none
    | .invWI t =>
      if t = ms.calls.length then
        some { ms with calls := ms.calls ++ [{ kind := .wi, snap := ms.settled (· != .finished) }] }
      else none
    | .retWI t r =>
      match ms.calls[t]? with
      | some c =>
        if r = .nil → c.snap.all ms.isFinished then some (ms.setCall t fun c => { c with returned := true })
        else none
      | none => none
    | .invWS t _ =>
      if t = ms.calls.length then some { ms with calls := ms.calls ++ [{ kind := .ws }] } else none
    | .cbWS t q r _ =>
      match ms.limit with
      | some L => if pairOK L q r then some (ms.setCall t fun c => { c with last := some (q, r) }) else none
      | none => none
    | .retWS t _ => some (ms.setCall t fun c => { c with returned := true })
    | .envCancel t => some (ms.setCall t fun c => { c with cancelled := true })
    | .envErr _ _ => some ms
    | .quiesce B A =>
      match ms.limit with
      | none => if B = [] ∧ A = [] then some ms else none
      | some L =>
        if A = ms.activeIds ∧
           (0 < L → (A.length : Int) ≤ L) ∧
           ((List.range ms.jobs.length).all ms.started = false → 0 < L ∧ (A.length : Int) = L) ∧
           B.all (pendingOK ms A)
        then some ms else none

/-- property C18 as a monitor -/
def monC18 : ObsMonitor Obs C18St := monC18g true

end UtilModel.Conc
