import UtilModel.Conc.Proofs2
/-!
# conc — consequences of the invariant at quiescence points
-/
namespace UtilModel.Conc
open UtilModel

theorem filter_range_length {α : Type} (l : List α) (p : α → Bool) :
    ((List.range l.length).filter (fun i => match l[i]? with
      | some x => p x
      | none => false)).length = l.countP p := by
  induction l with
  | nil => simp
  | cons x xs ih =>
    rw [List.length_cons, List.range_succ_eq_map, List.filter_cons]
    simp only [List.getElem?_cons_zero, List.filter_map, List.countP_cons]
    have : ((fun i => match (x :: xs)[i]? with
        | some x => p x
        | none => false) ∘ Nat.succ) = (fun i => match xs[i]? with
        | some x => p x
        | none => false) := by
      funext i; simp
    rw [this]
    cases hp : p x <;> simp [ih]

theorem activeJobs_length (s : St) : (activeJobs s).length = s.jobs.countP Job.isActive := by
  unfold activeJobs
  rw [← filter_range_length s.jobs Job.isActive]
  congr 2
  funext i
  cases s.jobs[i]? <;> rfl

theorem quiescent_ws (s : St) (hq : quiescent s = true) (w : Nat) (x : WSt) (hw : s.ws[w]? = some x) :
    (∃ j, x = .inJob j) ∨ x = .retired := by
  simp only [quiescent, Bool.and_eq_true, List.all_eq_true] at hq
  have := hq.2 x (List.mem_of_getElem? hw)
  cases x <;> simp [WSt.quiet] at this ⊢

theorem quiescent_th (s : St) (hq : quiescent s = true) (t : Nat) (ts : TS) (ht : s.th[t]? = some ts) :
    TS.quiet s t ts = true := by
  simp only [quiescent, Bool.and_eq_true, List.all_eq_true] at hq
  have := hq.1 t (by simp [lt_of_getElem? ht])
  simpa [ht] using this

/-- at a quiescence point every live worker is inside a job: `running` = number of executing jobs -/
theorem quiescent_running (s : St) (hi : Inv s) (hq : quiescent s = true) :
    s.running = ((activeJobs s).length : Nat) := by
  rw [activeJobs_length, hi.cntR, hi.run]
  congr 1
  apply List.countP_congr
  intro x hx
  obtain ⟨w, hw⟩ := List.getElem?_of_mem hx
  rcases quiescent_ws s hq w x hw with ⟨j, rfl⟩ | rfl <;> simp [WSt.live, WSt.isInJob]

theorem quiescent_queue_full_aux (s : St) (hi : Inv s) (hq : quiescent s = true) (hne : s.queue ≠ []) :
    0 < s.limit ∧ (s.jobs.countP Job.isActive : Int) = s.limit := by
  obtain ⟨a, b⟩ := hi.full hne
  have := quiescent_running s hi hq
  rw [activeJobs_length] at this
  exact ⟨a, by omega⟩

theorem each_job_once_aux (s : St) (hi : Inv s) (hq : quiescent s = true) (hrel : activeJobs s = [])
    (j : Nat) (jb : Job) (hj : s.jobs[j]? = some jb) :
    jb.st = .finished ∧ jb.starts = (if jb.isNil then 0 else 1) := by
  have hrun := quiescent_running s hi hq
  rw [hrel] at hrun
  have hqe : s.queue = [] := by
    cases hqq : s.queue with
    | nil => rfl
    | cons a l =>
      have := hi.full (by rw [hqq]; simp)
      simp at hrun; omega
  have hid : idle s := ⟨by simpa using hrun, by have := hi.qlen; rw [hqe] at this; simpa using this⟩
  have hnf : jb.st ≠ .fresh := by
    intro hf
    obtain ⟨js, h1, _⟩ := hi.fresh j jb hj hf
    have := quiescent_th s hq _ _ h1
    simp [TS.quiet] at this
  have hfin : jb.st = .finished := by
    cases hsq : jb.seq with
    | none => exact absurd ((hi.seqs j jb hj).1.mpr hsq) hnf
    | some q => exact idle_all_finished s hi.toJInv hid j jb q hj hsq
  refine ⟨hfin, ?_⟩
  have := hi.starts j jb hj
  rw [this, hfin]
  cases jb.isNil <;> simp

theorem quiescent_waiters_aux (s : St) (hi : Inv s) (hq : quiescent s = true) (t : Nat) :
    (∀ n0 ch : Nat, s.th[t]? = some (.wiParked n0 ch) → activeJobs s ≠ []) ∧
    (∀ (q r : Int) (ch : Nat), s.th[t]? = some (.wsParked q r ch) →
        r = ((activeJobs s).length : Nat) ∧ s.qsize ≤ q) := by
  have hrun := quiescent_running s hi hq
  constructor
  · intro n0 ch ht hnil
    have hqt := quiescent_th s hq t _ ht
    simp only [TS.quiet, Bool.and_eq_true, Bool.not_eq_true'] at hqt
    have hni := (hi.th t _ ht).2.2 hqt.1.1
    rw [hnil] at hrun
    apply hni
    refine ⟨by simpa using hrun, ?_⟩
    cases hqq : s.queue with
    | nil => have := hi.qlen; rw [hqq] at this; simpa using this
    | cons a l =>
      have := hi.full (by rw [hqq]; simp)
      simp at hrun; omega
  · intro q r ch ht
    have hqt := quiescent_th s hq t _ ht
    simp only [TS.quiet, Bool.and_eq_true, Bool.not_eq_true'] at hqt
    have := (hi.th t _ ht).2.2 hqt.1
    exact ⟨by omega, this.2⟩

end UtilModel.Conc
