import UtilModel.Core.LTSHash
import UtilModel.Core.LTSComplete
import UtilModel.Conc.Props
/-!
# Conc — end-to-end transfer

If the driver's trace-inclusion decision accepts a history recorded from the Go implementation, the
property monitor accepts that history: composition of the checker's soundness theorem
(`accepts_sound` / `acceptsH_sound`) with this package's observable-form property theorem.
-/
namespace UtilModel

theorem C18_accepted (cap fuel : Nat) (h : List Conc.Obs)
    (ha : Conc.model.acceptsH cap fuel h = true) : Conc.monC18.accepts h = true :=
  acceptedH_satisfies Conc.model (fun h => Conc.monC18.accepts h = true)
    Conc.C18_obs cap fuel h ha

end UtilModel

/-! ## A REJECT is about the model — through the reduced search

`Conc.model.cands` is deliberately **not** complete in the sense of `OLTS.Complete`: when a `WaitIdle`
caller is about to sample a busy queue, or a worker holds a nil job, only that one internal event is
tried (`Conc.eagerEvent`, a partial-order reduction of the search; `not_complete_conc`). The REJECT
verdict is nevertheless a statement about the full model: the checker is exactly the checker of the
model *restricted* to the candidate events (`OLTS.restrict`, `accRunH_restrict`, both generic, from
`Treiber/Transfer.lean`), the restricted model is `Complete` (`complete_conc_reduced`), and every
observable trace of the full model is the trace of a run of the restricted one
(`Conc.reduced_covers_model`, a forward simulation). -/
namespace UtilModel.Conc
open UtilModel

/-- every enabled internal event is one of `allCands` (the unreduced candidate list) -/
theorem allCands_complete (s s' : St) (e : Ev) (hs : step s e = some s') (ho : e.obs = none) :
    e ∈ allCands s := by
  unfold allCands
  cases e <;> simp [Ev.obs] at ho <;> simp only [step] at hs
  all_goals
    split at hs
    all_goals try (simp at hs; done)
    all_goals
      simp only [List.mem_append, List.mem_flatMap, List.mem_range]
      first
        | exact Or.inl ⟨_, lt_of_getElem? (by assumption), by simp⟩
        | exact Or.inr ⟨_, lt_of_getElem? (by assumption), by simp⟩

/-- `evsOf` is complete: a job entry / exit is tried for every worker goroutine -/
theorem evs_complete (s : St) (e : Ev) (s' : St) (o : Obs) (hs : model.step s e = some s')
    (ho : model.obs e = some o) : e ∈ model.evsOf s o := by
  change step s e = some s' at hs
  change e.obs = some o at ho
  show e ∈ evsOf s o
  cases e <;> simp [Ev.obs] at ho <;> subst ho <;> simp [evsOf]
  all_goals
    simp only [step] at hs
    split at hs <;> try simp at hs
    rename_i h
    first
      | exact lt_of_getElem? h
      | (rename_i h2; exact lt_of_getElem? h2)


/-! ### the simulation relation

The restricted run may be *ahead* of the full run by eager events: a `WaitIdle` caller that the full
run still has before its sample section (`wiInv`, or parked on a channel that has been closed since)
is already parked in the restricted run, and a worker that the full run still has in front of a nil
job is already past it. Everything else is equal, except for the ghost fields of the jobs, of which
only `isNil` and "is active" (`Job.view`) are ever read. -/

/-- the state with other call / worker / job tables -/
abbrev St.with3 (s : St) (a : List TS) (b : List WSt) (d : List Job) : St :=
  { s with th := a, ws := b, jobs := d }

/-- what a step can see of a job -/
def Job.view (jb : Job) : Bool × Bool := (jb.isNil, jb.st == .active)

def nilAt (jobs : List Job) (j : Nat) : Bool :=
  match jobs[j]? with
  | some jb => jb.isNil
  | none => false

/-- call states: equal, or the restricted run has already parked the caller -/
def TR (bc : Bcast) (x y : TS) : Prop :=
  x = y ∨ ∃ n0 ch', y = .wiParked n0 ch' ∧
    (x = .wiInv n0 ∨ ∃ ch, x = .wiParked n0 ch ∧ bc.closed ch = true)

/-- worker states: equal, or the restricted run has already skipped the nil job -/
def WR (jobs : List Job) (x y : WSt) : Prop :=
  x = y ∨ ∃ j, x = .hasJob j ∧ y = .afterJob ∧ nilAt jobs j = true

structure RelC (bc : Bcast) (th0 : List TS) (ws0 : List WSt) (jobs0 : List Job)
    (a : List TS) (b : List WSt) (d : List Job) : Prop where
  thlen : a.length = th0.length
  th : ∀ (t : Nat) (x y : TS), th0[t]? = some x → a[t]? = some y → TR bc x y
  wslen : b.length = ws0.length
  ws : ∀ (w : Nat) (x y : WSt), ws0[w]? = some x → b[w]? = some y → WR jobs0 x y
  jobs : d.map Job.view = jobs0.map Job.view

variable {bc bc' : Bcast} {th : List TS} {ws : List WSt} {jobs : List Job} {a : List TS} {b : List WSt}
  {d : List Job}

theorem RelC.refl (bc : Bcast) (th : List TS) (ws : List WSt) (jobs : List Job) :
    RelC bc th ws jobs th ws jobs :=
  ⟨rfl, fun _ x y hx hy => by rw [hx] at hy; cases hy; exact Or.inl rfl, rfl,
   fun _ x y hx hy => by rw [hx] at hy; cases hy; exact Or.inl rfl, rfl⟩

theorem getElem?_of_len {α β : Type} {l : List α} {l' : List β} (hl : l'.length = l.length) {i : Nat} {x : α}
    (h : l[i]? = some x) : ∃ y, l'[i]? = some y := by
  have := lt_of_getElem? h
  exact ⟨l'[i]'(by omega), by simp⟩

theorem set_of_getElem? {α : Type} {l : List α} {i : Nat} {y : α} (hy : l[i]? = some y) :
    l.set i y = l := by
  apply List.ext_getElem?
  intro k
  rw [List.getElem?_set]
  split
  · rename_i hi; subst hi; rw [hy]; simp [lt_of_getElem? hy]
  · rfl

theorem RelC.th_get (h : RelC bc th ws jobs a b d) {t : Nat} {x : TS}
    (hx : th[t]? = some x) : ∃ y, a[t]? = some y ∧ TR bc x y := by
  obtain ⟨y, hy⟩ := getElem?_of_len h.thlen hx
  exact ⟨y, hy, h.th t x y hx hy⟩

theorem RelC.ws_get (h : RelC bc th ws jobs a b d) {w : Nat} {x : WSt}
    (hx : ws[w]? = some x) : ∃ y, b[w]? = some y ∧ WR jobs x y := by
  obtain ⟨y, hy⟩ := getElem?_of_len h.wslen hx
  exact ⟨y, hy, h.ws w x y hx hy⟩

def TS.isWi : TS → Bool
  | .wiInv _ | .wiParked _ _ => true
  | _ => false

theorem TR.eq_of_not_wi {x y : TS} (h : TR bc x y) (hx : x.isWi = false) : y = x := by
  rcases h with rfl | ⟨n0, ch', rfl, rfl | ⟨ch, rfl, _⟩⟩
  · rfl
  · simp [TS.isWi] at hx
  · simp [TS.isWi] at hx

theorem TR.eq_of_open {n0 ch : Nat} {y : TS} (h : TR bc (.wiParked n0 ch) y) (hx : bc.closed ch = false) :
    y = .wiParked n0 ch := by
  rcases h with rfl | ⟨n0', ch', rfl, h | ⟨ch2, h, hc⟩⟩
  · rfl
  · cases h
  · cases h; rw [hx] at hc; cases hc

theorem TR.parked {n0 ch : Nat} {y : TS} (h : TR bc (.wiParked n0 ch) y) : ∃ ch', y = .wiParked n0 ch' := by
  rcases h with rfl | ⟨n0', ch', rfl, h | ⟨ch2, h, hc⟩⟩
  · exact ⟨_, rfl⟩
  · cases h
  · cases h; exact ⟨_, rfl⟩

theorem TR.mono {x y : TS} (h : TR bc x y) (hm : ∀ ch, bc.closed ch = true → bc'.closed ch = true) :
    TR bc' x y := by
  rcases h with rfl | ⟨n0, ch', rfl, rfl | ⟨ch, rfl, hc⟩⟩
  · exact Or.inl rfl
  · exact Or.inr ⟨n0, ch', rfl, Or.inl rfl⟩
  · exact Or.inr ⟨n0, ch', rfl, Or.inr ⟨ch, rfl, hm ch hc⟩⟩

theorem bcast_closed_mono (b : Bcast) (ch : Nat) (h : b.closed ch = true) : (bcast b).closed ch = true := by
  unfold bcast Bcast.broadcast Bcast.getWaitCh Bcast.closed at *
  simp at h ⊢
  omega

theorem WR.eq_of_not_hasJob {x y : WSt} (h : WR jobs x y) (hx : x.isHasJob = false) : y = x := by
  rcases h with rfl | ⟨j, rfl, _, _⟩
  · rfl
  · simp [WSt.isHasJob] at hx

theorem RelC.set_th (h : RelC bc th ws jobs a b d) (t : Nat) (x' y' : TS)
    (hxy : TR bc x' y') : RelC bc (th.set t x') ws jobs (a.set t y') b d := by
  refine ⟨by simp [h.thlen], ?_, h.wslen, h.ws, h.jobs⟩
  intro u x y hx hy
  rcases getElem?_set_cases _ _ _ _ _ hx with ⟨rfl, rfl⟩ | ⟨hne, hx'⟩
  · rcases getElem?_set_cases _ _ _ _ _ hy with ⟨_, rfl⟩ | ⟨hne, _⟩
    · exact hxy
    · exact absurd rfl hne
  · rcases getElem?_set_cases _ _ _ _ _ hy with ⟨e, _⟩ | ⟨_, hy'⟩
    · exact absurd e hne
    · exact h.th u x y hx' hy'

theorem RelC.set_th_same (h : RelC bc th ws jobs a b d) (t : Nat) (z : TS) :
    RelC bc (th.set t z) ws jobs (a.set t z) b d := h.set_th t z z (Or.inl rfl)

/-- only the full run moves a caller (to where the restricted run already is) -/
theorem RelC.set_th_left (h : RelC bc th ws jobs a b d) (t : Nat) (x' y : TS)
    (hy : a[t]? = some y) (hxy : TR bc x' y) : RelC bc (th.set t x') ws jobs a b d := by
  have := h.set_th t x' y hxy
  rwa [set_of_getElem? hy] at this

theorem RelC.push_th (h : RelC bc th ws jobs a b d) (z : TS) :
    RelC bc (th ++ [z]) ws jobs (a ++ [z]) b d := by
  refine ⟨by simp [h.thlen], ?_, h.wslen, h.ws, h.jobs⟩
  intro u x y hx hy
  rcases getElem?_snoc_cases _ _ _ _ hx with ⟨hlt, hx'⟩ | ⟨e, rfl⟩
  · rcases getElem?_snoc_cases _ _ _ _ hy with ⟨_, hy'⟩ | ⟨e, _⟩
    · exact h.th u x y hx' hy'
    · have := h.thlen; omega
  · rcases getElem?_snoc_cases _ _ _ _ hy with ⟨hlt, _⟩ | ⟨_, rfl⟩
    · have := h.thlen; omega
    · exact Or.inl rfl

theorem RelC.mono_bc (h : RelC bc th ws jobs a b d)
    (hm : ∀ ch, bc.closed ch = true → bc'.closed ch = true) : RelC bc' th ws jobs a b d :=
  ⟨h.thlen, fun t x y hx hy => (h.th t x y hx hy).mono hm, h.wslen, h.ws, h.jobs⟩

theorem RelC.set_ws (h : RelC bc th ws jobs a b d) (w : Nat) (x' y' : WSt)
    (hxy : WR jobs x' y') : RelC bc th (ws.set w x') jobs a (b.set w y') d := by
  refine ⟨h.thlen, h.th, by simp [h.wslen], ?_, h.jobs⟩
  intro u x y hx hy
  rcases getElem?_set_cases _ _ _ _ _ hx with ⟨rfl, rfl⟩ | ⟨hne, hx'⟩
  · rcases getElem?_set_cases _ _ _ _ _ hy with ⟨_, rfl⟩ | ⟨hne, _⟩
    · exact hxy
    · exact absurd rfl hne
  · rcases getElem?_set_cases _ _ _ _ _ hy with ⟨e, _⟩ | ⟨_, hy'⟩
    · exact absurd e hne
    · exact h.ws u x y hx' hy'

theorem RelC.set_ws_same (h : RelC bc th ws jobs a b d) (w : Nat) (z : WSt) :
    RelC bc th (ws.set w z) jobs a (b.set w z) d := h.set_ws w z z (Or.inl rfl)

theorem RelC.set_ws_left (h : RelC bc th ws jobs a b d) (w : Nat) (x' y : WSt)
    (hy : b[w]? = some y) (hxy : WR jobs x' y) : RelC bc th (ws.set w x') jobs a b d := by
  have := h.set_ws w x' y hxy
  rwa [set_of_getElem? hy] at this

theorem RelC.push_ws (h : RelC bc th ws jobs a b d) (z : WSt) :
    RelC bc th (ws ++ [z]) jobs a (b ++ [z]) d := by
  refine ⟨h.thlen, h.th, by simp [h.wslen], ?_, h.jobs⟩
  intro u x y hx hy
  rcases getElem?_snoc_cases _ _ _ _ hx with ⟨hlt, hx'⟩ | ⟨e, rfl⟩
  · rcases getElem?_snoc_cases _ _ _ _ hy with ⟨_, hy'⟩ | ⟨e, _⟩
    · exact h.ws u x y hx' hy'
    · have := h.wslen; omega
  · rcases getElem?_snoc_cases _ _ _ _ hy with ⟨hlt, _⟩ | ⟨_, rfl⟩
    · have := h.wslen; omega
    · exact Or.inl rfl

/-- the job tables change in the same way on both sides -/
theorem RelC.set_jobs (h : RelC bc th ws jobs a b d) (jobs' d' : List Job)
    (hv : d'.map Job.view = jobs'.map Job.view)
    (hn : ∀ j, nilAt jobs j = true → nilAt jobs' j = true) : RelC bc th ws jobs' a b d' := by
  refine ⟨h.thlen, h.th, h.wslen, ?_, hv⟩
  intro w x y hx hy
  rcases h.ws w x y hx hy with e | ⟨j, e1, e2, e3⟩
  · exact Or.inl e
  · exact Or.inr ⟨j, e1, e2, hn j e3⟩


/-! ### job-table updates respect the view -/

/-- the common shape of `setJob`, `setJobSt`, `startJob` -/
def modJ (jobs : List Job) (j : Nat) (f : Job → Job) : List Job :=
  match jobs[j]? with
  | some jb => jobs.set j (f jb)
  | none => jobs

theorem setJob_modJ (jobs : List Job) (j : Nat) (st : JS) (sq : Option Nat) :
    setJob jobs j st sq = modJ jobs j (fun jb => { jb with st := st, seq := sq }) := rfl

theorem setJobSt_modJ (jobs : List Job) (j : Nat) (st : JS) :
    setJobSt jobs j st = modJ jobs j (fun jb => { jb with st := st }) := rfl

theorem startJob_modJ (jobs : List Job) (j : Nat) :
    startJob jobs j = modJ jobs j (fun jb => { jb with st := .active, starts := jb.starts + 1 }) := rfl

theorem modJ_getElem? (jobs : List Job) (j : Nat) (f : Job → Job) (i : Nat) :
    (modJ jobs j f)[i]? = if i = j then jobs[j]?.map f else jobs[i]? := by
  unfold modJ
  cases hj : jobs[j]? with
  | none =>
    simp only []
    split
    · rename_i e; subst e; simp [hj]
    · rfl
  | some jb =>
    simp only [List.getElem?_set]
    split
    · rename_i e; subst e; simp [lt_of_getElem? hj]
    · rename_i e; rw [if_neg (fun h => e h.symm)]

theorem view_getElem? {d jobs : List Job} (h : d.map Job.view = jobs.map Job.view) (i : Nat) :
    d[i]?.map Job.view = jobs[i]?.map Job.view := by
  have := congrArg (fun l => l[i]?) h
  simpa [List.getElem?_map] using this

theorem view_modJ {d jobs : List Job} (h : d.map Job.view = jobs.map Job.view) (j : Nat) (f : Job → Job)
    (hf : ∀ x y : Job, x.view = y.view → (f x).view = (f y).view) :
    (modJ d j f).map Job.view = (modJ jobs j f).map Job.view := by
  apply List.ext_getElem?
  intro i
  simp only [List.getElem?_map, modJ_getElem?]
  split
  · have := view_getElem? h j
    cases h1 : d[j]? <;> cases h2 : jobs[j]? <;> simp [h1, h2] at this ⊢
    exact hf _ _ this
  · exact view_getElem? h i

/-- an update that the view does not see -/
theorem view_modJ_same (jobs : List Job) (j : Nat) (f : Job → Job)
    (hf : ∀ jb, jobs[j]? = some jb → (f jb).view = jb.view) :
    (modJ jobs j f).map Job.view = jobs.map Job.view := by
  apply List.ext_getElem?
  intro i
  simp only [List.getElem?_map, modJ_getElem?]
  split
  · rename_i e; subst e
    cases h1 : jobs[i]? with
    | none => rfl
    | some jb => simp [hf jb h1]
  · rfl

theorem nilAt_modJ (jobs : List Job) (j : Nat) (f : Job → Job) (hf : ∀ jb, (f jb).isNil = jb.isNil)
    (i : Nat) : nilAt (modJ jobs j f) i = nilAt jobs i := by
  unfold nilAt
  rw [modJ_getElem?]
  by_cases e : i = j
  · subst e
    rw [if_pos rfl]
    cases jobs[i]? with
    | none => rfl
    | some jb => simp [hf]
  · rw [if_neg e]

theorem nilAt_view {d jobs : List Job} (h : d.map Job.view = jobs.map Job.view) (j : Nat) :
    nilAt d j = nilAt jobs j := by
  have := view_getElem? h j
  unfold nilAt
  cases h1 : d[j]? <;> cases h2 : jobs[j]? <;> simp [h1, h2, Job.view] at this ⊢
  exact this.1

theorem nilAt_append (jobs l : List Job) (j : Nat) (h : nilAt jobs j = true) : nilAt (jobs ++ l) j = true := by
  unfold nilAt at *
  cases h1 : jobs[j]? with
  | none => simp [h1] at h
  | some jb =>
    rw [List.getElem?_append_left (lt_of_getElem? h1), h1]
    simpa [h1] using h

theorem RelC.modJ (h : RelC bc th ws jobs a b d) (j : Nat) (f : Job → Job)
    (hf : ∀ x y : Job, x.view = y.view → (f x).view = (f y).view)
    (hn : ∀ jb, (f jb).isNil = jb.isNil) : RelC bc th ws (modJ jobs j f) a b (modJ d j f) :=
  h.set_jobs _ _ (view_modJ h.jobs j f hf) (fun i hi => by rw [nilAt_modJ jobs j f hn]; exact hi)

theorem RelC.setJob (h : RelC bc th ws jobs a b d) (j : Nat) (st : JS) (sq : Option Nat) :
    RelC bc th ws (setJob jobs j st sq) a b (setJob d j st sq) := by
  rw [setJob_modJ, setJob_modJ]
  exact h.modJ j _ (fun x y hxy => by simp [Job.view] at hxy ⊢; exact hxy.1) (fun _ => rfl)

theorem RelC.setJobSt (h : RelC bc th ws jobs a b d) (j : Nat) (st : JS) :
    RelC bc th ws (setJobSt jobs j st) a b (setJobSt d j st) := by
  rw [setJobSt_modJ, setJobSt_modJ]
  exact h.modJ j _ (fun x y hxy => by simp [Job.view] at hxy ⊢; exact hxy.1) (fun _ => rfl)

theorem RelC.startJob (h : RelC bc th ws jobs a b d) (j : Nat) :
    RelC bc th ws (startJob jobs j) a b (startJob d j) := by
  rw [startJob_modJ, startJob_modJ]
  exact h.modJ j _ (fun x y hxy => by simp [Job.view] at hxy ⊢; exact hxy.1) (fun _ => rfl)

theorem RelC.append_jobs (h : RelC bc th ws jobs a b d) (l : List Job) :
    RelC bc th ws (jobs ++ l) a b (d ++ l) :=
  h.set_jobs _ _ (by simp [h.jobs]) (fun j hj => nilAt_append jobs l j hj)


/-! ### one step of the full model, followed by the restricted one -/

/-- what the sample section of `WaitIdle` writes into the caller's state -/
def wiVal (s : St) (n0 : Nat) : TS :=
  if s.running = 0 ∧ s.qsize = 0 then .wiDone .nil n0 else .wiParked n0 s.bc.getWaitCh.2

theorem wiSample_eq (s : St) (t n0 : Nat) (h : s.bc.cur ≠ none) :
    wiSample s t n0 = { s with th := s.th.set t (wiVal s n0) } := by
  unfold wiSample wiVal
  split
  · rfl
  · rw [getWaitCh_cur s.bc h]

theorem wsSample_eq (s : St) (t : Nat) (h : s.bc.cur ≠ none) :
    wsSample s t = { s with th := s.th.set t (.wsCb s.qsize s.running s.bc.getWaitCh.2) } := by
  unfold wsSample
  rw [getWaitCh_cur s.bc h]

theorem eager_none (c : St) (h : eagerEvent c = none) :
    (∀ t, wiEager c t = false) ∧ (∀ w, nilEager c w = false) := by
  unfold eagerEvent at h
  split at h
  · cases h
  · rename_i h1
    split at h
    · cases h
    · rename_i h2
      rw [List.find?_eq_none] at h1 h2
      constructor
      · intro t
        by_cases ht : t < c.th.length
        · simpa using h1 t (by simpa using ht)
        · unfold wiEager; rw [List.getElem?_eq_none (by omega)]
      · intro w
        by_cases hw : w < c.ws.length
        · simpa using h2 w (by simpa using hw)
        · unfold nilEager; rw [List.getElem?_eq_none (by omega)]

theorem red_step_a (s : St) (a : List TS) (b : List WSt) (d : List Job) (e : Ev) (s' : St)
    (hR : RelC s.bc s.th s.ws s.jobs a b d) (hst : step s e = some s')
    (he : match e with
      | .retNew _ | .invEnq _ _ | .retEnq _ _ _ | .invWI _ | .retWI _ _ | .invWS _ _ | .cbWS _ _ _ _
      | .wsCtx _ | .retWS _ _ | .envCancel _ | .envErr _ _ | .jobOut _ _ => True
      | _ => False) :
    ∃ a' b' d', RelC s'.bc s'.th s'.ws s'.jobs a' b' d' ∧
      step (s.with3 a b d) e = some (s'.with3 a' b' d') := by
  cases e <;> simp only at he <;> simp only [step] at hst
  case retNew t =>
    split at hst
    · rename_i hx
      cases hst
      obtain ⟨y, hy, hxy⟩ := hR.th_get hx
      cases hxy.eq_of_not_wi rfl
      exact ⟨_, b, d, hR.set_th_same t .finished, by simp [step, hy]⟩
    · cases hst
  case invEnq t js =>
    split at hst
    · rename_i hg
      cases hst
      refine ⟨_, b, _, (hR.append_jobs (newJobs t js)).push_th (.enqInv (js.map (·.1))), ?_⟩
      have h1 : d.length = s.jobs.length := by simpa using congrArg List.length hR.jobs
      simp only [step, h1, hR.thlen]
      rw [if_pos hg]
    · cases hst
  case retEnq t q r =>
    split at hst
    · rename_i hx
      split at hst
      · cases hst
        obtain ⟨y, hy, hxy⟩ := hR.th_get hx
        cases hxy.eq_of_not_wi rfl
        exact ⟨_, b, d, hR.set_th_same t .finished, by simp_all [step]⟩
      · cases hst
    · cases hst
  case invWI t =>
    split at hst
    · rename_i hg
      cases hst
      refine ⟨_, b, d, hR.push_th (.wiInv s.nseq), ?_⟩
      simp only [step, hR.thlen]
      rw [if_pos hg]
    · cases hst
  case retWI t r =>
    split at hst
    · rename_i hx
      split at hst
      · cases hst
        obtain ⟨y, hy, hxy⟩ := hR.th_get hx
        cases hxy.eq_of_not_wi rfl
        exact ⟨_, b, d, hR.set_th_same t .finished, by simp_all [step]⟩
      · cases hst
    · cases hst
  case invWS t nilcb =>
    split at hst
    · rename_i hg
      cases hst
      refine ⟨_, b, d, hR.push_th _, ?_⟩
      simp only [step, hR.thlen]
      rw [if_pos hg]
    · cases hst
  case cbWS t q r act =>
    split at hst
    · rename_i hx
      split at hst
      · cases hst
        obtain ⟨y, hy, hxy⟩ := hR.th_get hx
        cases hxy.eq_of_not_wi rfl
        exact ⟨_, b, d, hR.set_th_same t _, by simp_all [step]⟩
      · cases hst
    · cases hst
  case wsCtx t =>
    split at hst
    · rename_i hx
      split at hst
      · cases hst
        obtain ⟨y, hy, hxy⟩ := hR.th_get hx
        cases hxy.eq_of_not_wi rfl
        exact ⟨_, b, d, hR.set_th_same t _, by simp_all [step]⟩
      · cases hst
    · cases hst
  case retWS t r =>
    split at hst
    · rename_i hx
      split at hst
      · cases hst
        obtain ⟨y, hy, hxy⟩ := hR.th_get hx
        cases hxy.eq_of_not_wi rfl
        exact ⟨_, b, d, hR.set_th_same t .finished, by simp_all [step]⟩
      · cases hst
    · cases hst
  case envCancel t =>
    split at hst
    · rename_i hg
      cases hst
      exact ⟨a, b, d, hR, by simp only [step, hR.thlen]; rw [if_pos hg]⟩
    · cases hst
  case envErr t m =>
    split at hst
    · rename_i hg
      cases hst
      exact ⟨a, b, d, hR, by simp only [step, hR.thlen]; rw [if_pos hg]⟩
    · cases hst
  case jobOut w j =>
    split at hst
    · rename_i hx
      split at hst
      · cases hst
        obtain ⟨y, hy, hxy⟩ := hR.ws_get hx
        cases hxy.eq_of_not_hasJob rfl
        exact ⟨a, _, _, (hR.set_ws_same w .afterJob).setJobSt j .finished, by simp_all [step]⟩
      · cases hst
    · cases hst


theorem place_with3 (s : St) (a : List TS) (b : List WSt) (d : List Job) (j : Nat) :
    ∃ b' d', place (s.with3 a b d) j = (place s j).with3 a b' d' ∧
      (RelC s.bc s.th s.ws s.jobs a b d →
        RelC (place s j).bc (place s j).th (place s j).ws (place s j).jobs a b' d') := by
  by_cases h : hasRoom s = true
  · refine ⟨b ++ [.hasJob j], setJob d j .assigned (some s.nseq), ?_, ?_⟩
    · unfold place
      rw [if_pos h, if_pos (show hasRoom (s.with3 a b d) = true from h)]
    · intro hR
      unfold place
      rw [if_pos h]
      exact (hR.push_ws _).setJob j _ _
  · refine ⟨b, setJob d j .queued (some s.nseq), ?_, ?_⟩
    · unfold place
      rw [if_neg h, if_neg (show ¬ hasRoom (s.with3 a b d) = true from h)]
    · intro hR
      unfold place
      rw [if_neg h]
      exact hR.setJob j _ _

theorem fold_place_with3 (a : List TS) (js : List Nat) : ∀ (s : St) (b : List WSt) (d : List Job),
    ∃ b' d', js.foldl place (s.with3 a b d) = (js.foldl place s).with3 a b' d' ∧
      (RelC s.bc s.th s.ws s.jobs a b d →
        RelC (js.foldl place s).bc (js.foldl place s).th (js.foldl place s).ws (js.foldl place s).jobs
          a b' d') := by
  induction js with
  | nil => intro s b d; exact ⟨b, d, rfl, id⟩
  | cons j js ih =>
    intro s b d
    obtain ⟨b1, d1, e1, r1⟩ := place_with3 s a b d j
    obtain ⟨b2, d2, e2, r2⟩ := ih (place s j) b1 d1
    refine ⟨b2, d2, ?_, fun hR => r2 (r1 hR)⟩
    simp only [List.foldl_cons]
    rw [e1, e2]

/-- the conclusion of the step lemmas: the restricted side either stays (the full run catches up with
an eager event) or takes the same event -/
def StepTo (s : St) (a : List TS) (b : List WSt) (d : List Job) (e : Ev) (s' : St) : Prop :=
  ∃ a' b' d', RelC s'.bc s'.th s'.ws s'.jobs a' b' d' ∧
    ((e.obs = none ∧ s'.with3 a' b' d' = s.with3 a b d) ∨
      step (s.with3 a b d) e = some (s'.with3 a' b' d'))

theorem red_invNew (s : St) (a : List TS) (b : List WSt) (d : List Job) (t : Nat) (L : Int)
    (js : List (Nat × Bool)) (s' : St) (hs : Inv s)
    (hR : RelC s.bc s.th s.ws s.jobs a b d) (hst : step s (.invNew t L js) = some s') :
    StepTo s a b d (.invNew t L js) s' := by
  have hcr : s.created = false := by
    simp only [step] at hst
    split at hst
    · rename_i hg; exact hg.1
    · cases hst
  have e0 := hs.cre hcr
  subst e0
  have ha : a = [] := List.eq_nil_of_length_eq_zero (by simpa using hR.thlen)
  have hb : b = [] := List.eq_nil_of_length_eq_zero (by simpa using hR.wslen)
  have hd : d = [] := List.eq_nil_of_length_eq_zero (by simpa using congrArg List.length hR.jobs)
  subst ha hb hd
  exact ⟨s'.th, s'.ws, s'.jobs, RelC.refl _ _ _ _, Or.inr hst⟩

theorem red_enqCS (s : St) (a : List TS) (b : List WSt) (d : List Job) (t : Nat) (s' : St)
    (hR : RelC s.bc s.th s.ws s.jobs a b d) (hst : step s (.enqCS t) = some s') :
    StepTo s a b d (.enqCS t) s' := by
  simp only [step] at hst
  split at hst
  · rename_i js hx
    cases hst
    obtain ⟨y, hy, hxy⟩ := hR.th_get hx
    cases hxy.eq_of_not_wi rfl
    obtain ⟨b', d', e1, r1⟩ := fold_place_with3 a js s b d
    have r2 := r1 hR
    refine ⟨a.set t (.enqDone (js.foldl place s).qsize (js.foldl place s).running), b', d', ?_, Or.inr ?_⟩
    · refine RelC.set_th_same (RelC.mono_bc r2 ?_) t _
      intro ch hch
      dsimp only
      split
      · exact hch
      · exact bcast_closed_mono _ ch hch
    · simp only [step, hy]
      rw [e1]
  · cases hst

theorem red_jobIn (s : St) (a : List TS) (b : List WSt) (d : List Job) (w j : Nat) (s' : St)
    (hR : RelC s.bc s.th s.ws s.jobs a b d) (hst : step s (.jobIn w j) = some s') :
    StepTo s a b d (.jobIn w j) s' := by
  simp only [step] at hst
  split at hst
  · rename_i j' jb hx hj
    split at hst
    · rename_i hg
      cases hst
      obtain ⟨rfl, hnil⟩ := hg
      have hna : nilAt s.jobs j = false := by unfold nilAt; rw [hj]; exact hnil
      obtain ⟨y, hy, hxy⟩ := hR.ws_get hx
      have : y = .hasJob j := by
        rcases hxy with rfl | ⟨j2, e1, _, e3⟩
        · rfl
        · cases e1; rw [hna] at e3; cases e3
      subst this
      have hnd : nilAt d j = false := by rw [nilAt_view hR.jobs]; exact hna
      have hlen : d.length = s.jobs.length := by simpa using congrArg List.length hR.jobs
      obtain ⟨jb', hj'⟩ := getElem?_of_len hlen hj
      have hnil' : jb'.isNil = false := by unfold nilAt at hnd; rw [hj'] at hnd; exact hnd
      exact ⟨a, _, _, (hR.set_ws_same w (.inJob j)).startJob j, Or.inr (by simp [step, hy, hj', hnil'])⟩
    · cases hst
  · cases hst

theorem red_skipNil (s : St) (a : List TS) (b : List WSt) (d : List Job) (w : Nat) (s' : St)
    (hs : Inv s) (hn : eagerEvent (s.with3 a b d) = none)
    (hR : RelC s.bc s.th s.ws s.jobs a b d) (hst : step s (.skipNil w) = some s') :
    StepTo s a b d (.skipNil w) s' := by
  simp only [step] at hst
  split at hst
  · rename_i j hx
    split at hst
    · rename_i jb hj
      split at hst
      · rename_i hnil
        cases hst
        have hna : nilAt s.jobs j = true := by unfold nilAt; rw [hj]; exact hnil
        obtain ⟨y, hy, hxy⟩ := hR.ws_get hx
        have : y = .afterJob := by
          rcases hxy with rfl | ⟨j2, _, e2, _⟩
          · have h1 := (eager_none _ hn).2 w
            have h2 : nilEager (s.with3 a b d) w = nilAt d j := by
              unfold nilEager nilAt
              simp only [hy]
              rfl
            rw [h2, nilAt_view hR.jobs, hna] at h1
            cases h1
          · exact e2
        subst this
        obtain ⟨jb0, hj0, hst0⟩ := hs.hasJ w j hx
        rw [hj] at hj0; cases hj0
        refine ⟨a, b, d, ?_, Or.inl ⟨rfl, rfl⟩⟩
        refine (hR.set_ws_left w .afterJob .afterJob hy (Or.inl rfl)).set_jobs _ d ?_ ?_
        · rw [hR.jobs, setJobSt_modJ, view_modJ_same]
          intro jb1 h1
          rw [hj] at h1; cases h1
          show (jb.isNil, JS.finished == JS.active) = (jb.isNil, jb.st == JS.active)
          rw [hst0]; rfl
        · intro i hi
          show nilAt (setJobSt s.jobs j .finished) i = true
          rw [setJobSt_modJ, nilAt_modJ]
          · exact hi
          · intro _; rfl
      · cases hst
    · cases hst
  · cases hst

theorem red_popCS (s : St) (a : List TS) (b : List WSt) (d : List Job) (w : Nat) (s' : St)
    (hR : RelC s.bc s.th s.ws s.jobs a b d) (hst : step s (.popCS w) = some s') :
    StepTo s a b d (.popCS w) s' := by
  simp only [step] at hst
  split at hst
  · rename_i hx
    obtain ⟨y, hy, hxy⟩ := hR.ws_get hx
    cases hxy.eq_of_not_hasJob rfl
    split at hst
    · rename_i hq
      cases hst
      exact ⟨a, _, d, (hR.set_ws_same w .retired).mono_bc (bcast_closed_mono _),
        Or.inr (by simp [step, hy, hq])⟩
    · rename_i j rest hq
      cases hst
      exact ⟨a, _, _, (hR.set_ws_same w (.hasJob j)).setJobSt j .assigned,
        Or.inr (by simp [step, hy, hq])⟩
  · cases hst


theorem getWaitCh_open (bc : Bcast) (hb : bc.cur ≠ none) (ch : Nat) (hlt : ch < bc.next)
    (ho : bc.closed ch = false) : bc.getWaitCh.2 = ch := by
  unfold Bcast.getWaitCh
  unfold Bcast.closed at ho
  cases hc : bc.cur with
  | none => exact absurd hc hb
  | some c0 =>
    simp [hc, hlt] at ho
    simp [ho]

theorem red_wiCS (s : St) (a : List TS) (b : List WSt) (d : List Job) (t : Nat) (s' : St)
    (hs : Inv s) (hc : Inv (s.with3 a b d))
    (hR : RelC s.bc s.th s.ws s.jobs a b d) (hst : step s (.wiCS t) = some s') :
    StepTo s a b d (.wiCS t) s' := by
  have hb : s.bc.cur ≠ none := hs.bccur
  -- the caller's state on the full side, and what the step does to it
  have key : ∃ n0 x, s.th[t]? = some x ∧ s' = { s with th := s.th.set t (wiVal s n0) } ∧
      (x = .wiInv n0 ∨ ∃ ch, x = .wiParked n0 ch ∧ s.bc.closed ch = true) := by
    simp only [step] at hst
    split at hst
    · rename_i n0 hx
      cases hst
      exact ⟨n0, _, hx, wiSample_eq s t n0 hb, Or.inl rfl⟩
    · rename_i n0 ch hx
      split at hst
      · rename_i hcl
        cases hst
        exact ⟨n0, _, hx, wiSample_eq s t n0 hb, Or.inr ⟨ch, rfl, hcl⟩⟩
      · cases hst
    · cases hst
  obtain ⟨n0, x, hx, rfl, hxs⟩ := key
  obtain ⟨y, hy, hxy⟩ := hR.th_get hx
  -- the restricted side takes the same event whenever it is enabled there
  have take : (y = .wiInv n0 ∨ ∃ ch', y = .wiParked n0 ch' ∧ s.bc.closed ch' = true) →
      StepTo s a b d (.wiCS t) { s with th := s.th.set t (wiVal s n0) } := by
    intro hy'
    refine ⟨a.set t (wiVal s n0), b, d, hR.set_th_same t _, Or.inr ?_⟩
    have e : wiSample (s.with3 a b d) t n0 = { s.with3 a b d with th := a.set t (wiVal s n0) } :=
      wiSample_eq (s.with3 a b d) t n0 hb
    rcases hy' with rfl | ⟨ch', rfl, hcl⟩
    · simp only [step, hy]; rw [e]
    · simp only [step, hy]
      rw [if_pos hcl, e]
  rcases hxy with rfl | ⟨n1, ch', rfl, hx1⟩
  · exact take hxs
  · have hn : n1 = n0 := by
      rcases hxs with rfl | ⟨ch, rfl, _⟩ <;> rcases hx1 with h | ⟨ch2, h, _⟩ <;> cases h <;> rfl
    subst hn
    by_cases hcl : s.bc.closed ch' = true
    · exact take (Or.inr ⟨ch', rfl, hcl⟩)
    · -- the restricted side is already parked on the current channel: the full side catches up
      have hcl' : s.bc.closed ch' = false := by simpa using hcl
      have hti := hc.th t _ hy
      simp only [TSInv] at hti
      obtain ⟨_, hlt, hbusy⟩ := hti
      have hv : wiVal s n1 = .wiParked n1 ch' := by
        unfold wiVal
        rw [if_neg (show ¬(s.running = 0 ∧ s.qsize = 0) from hbusy hcl'), getWaitCh_open s.bc hb ch' hlt hcl']
      rw [hv]
      exact ⟨a, b, d, hR.set_th_left t _ _ hy (Or.inl rfl), Or.inl ⟨rfl, rfl⟩⟩

theorem red_wiCtx (s : St) (a : List TS) (b : List WSt) (d : List Job) (t : Nat) (s' : St)
    (hR : RelC s.bc s.th s.ws s.jobs a b d) (hst : step s (.wiCtx t) = some s') :
    StepTo s a b d (.wiCtx t) s' := by
  simp only [step] at hst
  split at hst
  · rename_i n0 ch hx
    split at hst
    · rename_i hg
      cases hst
      obtain ⟨y, hy, hxy⟩ := hR.th_get hx
      obtain ⟨ch', rfl⟩ := hxy.parked
      exact ⟨_, b, d, hR.set_th_same t _, Or.inr (by simp only [step, hy]; rw [if_pos hg])⟩
    · cases hst
  · cases hst

theorem red_wiErr (s : St) (a : List TS) (b : List WSt) (d : List Job) (t : Nat) (s' : St)
    (hR : RelC s.bc s.th s.ws s.jobs a b d) (hst : step s (.wiErr t) = some s') :
    StepTo s a b d (.wiErr t) s' := by
  simp only [step] at hst
  split at hst
  · rename_i n0 ch hx
    obtain ⟨y, hy, hxy⟩ := hR.th_get hx
    obtain ⟨ch', rfl⟩ := hxy.parked
    split at hst
    · rename_i hm
      cases hst
      exact ⟨_, b, d, hR.set_th_same t _, Or.inr (by simp [step, hy, hm])⟩
    · rename_i hm
      cases hst
      exact ⟨_, b, d, hR.set_th_same t _, Or.inr (by simp [step, hy, hm])⟩
    · rename_i hm
      cases hst
      exact ⟨_, b, d, hR.set_th_same t _, Or.inr (by simp [step, hy, hm])⟩
    · cases hst
  · cases hst

theorem red_wsCS (s : St) (a : List TS) (b : List WSt) (d : List Job) (t : Nat) (s' : St)
    (hs : Inv s) (hR : RelC s.bc s.th s.ws s.jobs a b d) (hst : step s (.wsCS t) = some s') :
    StepTo s a b d (.wsCS t) s' := by
  have hb : s.bc.cur ≠ none := hs.bccur
  have e : wsSample (s.with3 a b d) t =
      { s.with3 a b d with th := a.set t (.wsCb s.qsize s.running s.bc.getWaitCh.2) } :=
    wsSample_eq (s.with3 a b d) t hb
  simp only [step] at hst
  split at hst
  · rename_i hx
    cases hst
    obtain ⟨y, hy, hxy⟩ := hR.th_get hx
    cases hxy.eq_of_not_wi rfl
    rw [wsSample_eq s t hb]
    refine ⟨_, b, d, hR.set_th_same t _, Or.inr ?_⟩
    simp only [step, hy]; rw [e]
  · rename_i q r ch hx
    split at hst
    · rename_i hcl
      cases hst
      obtain ⟨y, hy, hxy⟩ := hR.th_get hx
      cases hxy.eq_of_not_wi rfl
      rw [wsSample_eq s t hb]
      refine ⟨_, b, d, hR.set_th_same t _, Or.inr ?_⟩
      simp only [step, hy]
      rw [if_pos hcl, e]
    · cases hst
  · cases hst

theorem activeJobs_view (s c : St) (h : c.jobs.map Job.view = s.jobs.map Job.view) :
    activeJobs c = activeJobs s := by
  unfold activeJobs
  have hl : c.jobs.length = s.jobs.length := by simpa using congrArg List.length h
  rw [hl]
  apply List.filter_congr
  intro j _
  have := view_getElem? h j
  cases h1 : c.jobs[j]? <;> cases h2 : s.jobs[j]? <;> simp [h1, h2, Job.view] at this ⊢
  exact this.2

theorem red_quiesce (s : St) (a : List TS) (b : List WSt) (d : List Job) (B A : List Nat) (s' : St)
    (hR : RelC s.bc s.th s.ws s.jobs a b d) (hst : step s (.quiesce B A) = some s') :
    StepTo s a b d (.quiesce B A) s' := by
  simp only [step] at hst
  split at hst
  · rename_i hg
    cases hst
    obtain ⟨hq, hB, hA⟩ := hg
    have ha : a = s.th := by
      apply List.ext_getElem?
      intro t
      by_cases ht : t < s.th.length
      · have hx : s.th[t]? = some s.th[t] := by simp
        obtain ⟨y, hy, hxy⟩ := hR.th_get hx
        rw [hy, hx]
        have hqt := quiescent_th s hq t _ hx
        congr 1
        generalize s.th[t] = x at hxy hqt
        cases x <;> simp [TS.quiet] at hqt
        case wiParked n0 ch => exact hxy.eq_of_open hqt.1.1
        all_goals exact hxy.eq_of_not_wi rfl
      · have hl := hR.thlen
        rw [List.getElem?_eq_none (by omega), List.getElem?_eq_none (by omega)]
    have hb : b = s.ws := by
      apply List.ext_getElem?
      intro w
      by_cases hw : w < s.ws.length
      · have hx : s.ws[w]? = some s.ws[w] := by simp
        obtain ⟨y, hy, hxy⟩ := hR.ws_get hx
        rw [hy, hx]
        congr 1
        rcases quiescent_ws s hq w _ hx with ⟨j, e⟩ | e <;> rw [e] at hxy ⊢ <;>
          exact hxy.eq_of_not_hasJob rfl
      · have hl := hR.wslen
        rw [List.getElem?_eq_none (by omega), List.getElem?_eq_none (by omega)]
    subst ha hb
    refine ⟨s.th, s.ws, d, hR, Or.inr ?_⟩
    have h1 : quiescent (s.with3 s.th s.ws d) = quiescent s := rfl
    have h2 : pendingIds (s.with3 s.th s.ws d) = pendingIds s := rfl
    have h3 : activeJobs (s.with3 s.th s.ws d) = activeJobs s := activeJobs_view s _ hR.jobs
    simp only [step, h1, h2, h3]
    rw [if_pos ⟨hq, hB, hA⟩]
  · cases hst


/-- **one step of the full model is matched by the restricted model** (from a state without eager
event): it takes the same event, or — for an eager event it has already taken — stays -/
theorem red_step (s : St) (a : List TS) (b : List WSt) (d : List Job) (e : Ev) (s' : St)
    (hs : Inv s) (hc : Inv (s.with3 a b d)) (hn : eagerEvent (s.with3 a b d) = none)
    (hR : RelC s.bc s.th s.ws s.jobs a b d) (hst : step s e = some s') : StepTo s a b d e s' := by
  have ha : ∀ (_ : match e with
      | .retNew _ | .invEnq _ _ | .retEnq _ _ _ | .invWI _ | .retWI _ _ | .invWS _ _ | .cbWS _ _ _ _
      | .wsCtx _ | .retWS _ _ | .envCancel _ | .envErr _ _ | .jobOut _ _ => True
      | _ => False), StepTo s a b d e s' := by
    intro he
    obtain ⟨a', b', d', h1, h2⟩ := red_step_a s a b d e s' hR hst he
    exact ⟨a', b', d', h1, Or.inr h2⟩
  cases e
  case invNew t L js => exact red_invNew s a b d t L js s' hs hR hst
  case enqCS t => exact red_enqCS s a b d t s' hR hst
  case jobIn w j => exact red_jobIn s a b d w j s' hR hst
  case skipNil w => exact red_skipNil s a b d w s' hs hn hR hst
  case popCS w => exact red_popCS s a b d w s' hR hst
  case wiCS t => exact red_wiCS s a b d t s' hs hc hR hst
  case wiCtx t => exact red_wiCtx s a b d t s' hR hst
  case wiErr t => exact red_wiErr s a b d t s' hR hst
  case wsCS t => exact red_wsCS s a b d t s' hs hR hst
  case quiesce B A => exact red_quiesce s a b d B A s' hR hst
  all_goals exact ha trivial

/-! ### running the eager events of the restricted side -/

def wiE (c : St) : TS → Bool
  | .wiInv _ => !(c.running == 0 && c.qsize == 0)
  | .wiParked _ ch => !(c.running == 0 && c.qsize == 0) && c.bc.closed ch
  | _ => false

def nilE (jobs : List Job) : WSt → Bool
  | .hasJob j => nilAt jobs j
  | _ => false

theorem wiEager_eq (c : St) (t : Nat) :
    wiEager c t = match c.th[t]? with
      | some x => wiE c x
      | none => false := by
  unfold wiEager
  cases c.th[t]? with
  | none => rfl
  | some x => cases x <;> rfl

theorem nilEager_eq (c : St) (w : Nat) :
    nilEager c w = match c.ws[w]? with
      | some x => nilE c.jobs x
      | none => false := by
  unfold nilEager
  cases c.ws[w]? with
  | none => rfl
  | some x => cases x <;> rfl

/-- number of eager events -/
def mu (c : St) : Nat := c.th.countP (wiE c) + c.ws.countP (nilE c.jobs)

theorem TR.reseat {x0 x : TS} {n0 : Nat} (h : TR bc x0 x)
    (hx : x = .wiInv n0 ∨ ∃ ch, x = .wiParked n0 ch ∧ bc.closed ch = true) (ch' : Nat) :
    TR bc x0 (.wiParked n0 ch') := by
  rcases h with rfl | ⟨n1, ch1, rfl, h1⟩
  · exact Or.inr ⟨n0, ch', rfl, hx⟩
  · have : n1 = n0 := by
      rcases hx with h | ⟨ch, h, _⟩ <;> cases h; rfl
    subst this
    exact Or.inr ⟨n1, ch', rfl, h1⟩

/-- the eager event of a state is enabled and internal, removes one eager event, and keeps the
restricted side related to every full-side state it was related to -/
theorem eager_step (c : St) (hc : Inv c) (e : Ev) (he : eagerEvent c = some e) :
    ∃ a' b' d', step c e = some (c.with3 a' b' d') ∧ e.obs = none ∧ mu (c.with3 a' b' d') < mu c ∧
      (∀ th ws jobs, RelC c.bc th ws jobs c.th c.ws c.jobs → RelC c.bc th ws jobs a' b' d') := by
  have hb : c.bc.cur ≠ none := hc.bccur
  unfold eagerEvent at he
  split at he
  · rename_i t hf
    cases he
    have ht := List.find?_some hf
    rw [wiEager_eq] at ht
    split at ht
    · rename_i x hx
      -- the caller is about to sample a busy queue
      have key : ∃ n0, (x = .wiInv n0 ∨ ∃ ch, x = .wiParked n0 ch ∧ c.bc.closed ch = true) ∧
          ¬ (c.running = 0 ∧ c.qsize = 0) := by
        cases x <;> simp [wiE] at ht
        case wiInv n0 => exact ⟨n0, Or.inl rfl, by omega⟩
        case wiParked n0 ch => exact ⟨n0, Or.inr ⟨ch, rfl, ht.2⟩, by omega⟩
      obtain ⟨n0, hx0, hbusy⟩ := key
      obtain ⟨_, _, hopen⟩ := closed_same_of_cur c hc.toJInv
      have hv : wiVal c n0 = .wiParked n0 c.bc.getWaitCh.2 := by unfold wiVal; rw [if_neg hbusy]
      have hstep : step c (.wiCS t) = some (c.with3 (c.th.set t (.wiParked n0 c.bc.getWaitCh.2)) c.ws c.jobs) := by
        rcases hx0 with rfl | ⟨ch, rfl, hcl⟩
        · simp only [step, hx]; rw [wiSample_eq c t n0 hb, hv]
        · simp only [step, hx]; rw [if_pos hcl, wiSample_eq c t n0 hb, hv]
      refine ⟨_, _, _, hstep, rfl, ?_, ?_⟩
      · have h1 := countP_set (wiE c) c.th t x (.wiParked n0 c.bc.getWaitCh.2) hx
        have h2 : wiE c (.wiParked n0 c.bc.getWaitCh.2) = false := by simp [wiE, hopen]
        rw [ht, h2] at h1
        show (c.th.set t (.wiParked n0 c.bc.getWaitCh.2)).countP (wiE c) + c.ws.countP (nilE c.jobs) <
          c.th.countP (wiE c) + c.ws.countP (nilE c.jobs)
        simp at h1
        omega
      · intro th ws jobs hR
        have hlen := hR.thlen
        obtain ⟨x0, hx0'⟩ := getElem?_of_len hlen.symm hx
        have := hR.set_th t x0 (.wiParked n0 c.bc.getWaitCh.2) ((hR.th t x0 x hx0' hx).reseat hx0 _)
        rwa [set_of_getElem? hx0'] at this
    · cases ht
  · rename_i hf
    split at he
    · rename_i w hf2
      cases he
      have hw := List.find?_some hf2
      rw [nilEager_eq] at hw
      split at hw
      · rename_i x hx
        have key : ∃ j, x = .hasJob j ∧ nilAt c.jobs j = true := by
          cases x <;> simp [nilE] at hw
          exact ⟨_, rfl, hw⟩
        obtain ⟨j, rfl, hnil⟩ := key
        obtain ⟨jb, hj, hst0⟩ := hc.hasJ w j hx
        have hjn : jb.isNil = true := by unfold nilAt at hnil; rw [hj] at hnil; exact hnil
        have hstep : step c (.skipNil w) =
            some (c.with3 c.th (c.ws.set w .afterJob) (setJobSt c.jobs j .finished)) := by
          simp only [step, hx, hj]; rw [if_pos hjn]
        have hview : (setJobSt c.jobs j .finished).map Job.view = c.jobs.map Job.view := by
          rw [setJobSt_modJ, view_modJ_same]
          intro jb1 h1
          rw [hj] at h1; cases h1
          show (jb.isNil, JS.finished == JS.active) = (jb.isNil, jb.st == JS.active)
          rw [hst0]; rfl
        refine ⟨_, _, _, hstep, rfl, ?_, ?_⟩
        · have hfun : nilE (setJobSt c.jobs j .finished) = nilE c.jobs := by
            funext y
            cases y <;> simp only [nilE]
            exact nilAt_view hview _
          have h1 := countP_set (nilE c.jobs) c.ws w (.hasJob j) .afterJob hx
          show c.th.countP (wiE c) + (c.ws.set w .afterJob).countP (nilE (setJobSt c.jobs j .finished)) <
            c.th.countP (wiE c) + c.ws.countP (nilE c.jobs)
          rw [hfun]
          simp [nilE, hnil] at h1
          omega
        · intro th ws jobs hR
          have hlen := hR.wslen
          obtain ⟨x0, hx0'⟩ := getElem?_of_len hlen.symm hx
          have hx0 : x0 = .hasJob j := by
            rcases hR.ws w x0 _ hx0' hx with h | ⟨_, _, h, _⟩
            · exact h
            · cases h
          subst hx0
          have hnj : nilAt jobs j = true := by rw [← nilAt_view hR.jobs]; exact hnil
          have := hR.set_ws w (.hasJob j) .afterJob (Or.inr ⟨j, rfl, rfl, hnj⟩)
          rw [set_of_getElem? hx0'] at this
          exact this.set_jobs jobs _ (by rw [hview]; exact hR.jobs) (fun _ h => h)
      · cases hw
    · cases he

theorem restrict_step (c : St) (e : Ev) (c' : St) (hst : step c e = some c')
    (hcd : e.obs = none → e ∈ cands c) : model.restrict.step c e = some c' := by
  show (if (e.obs).isNone = true ∧ e ∉ cands c then none else step c e) = some c'
  rw [if_neg]
  · exact hst
  · rintro ⟨h1, h2⟩
    exact h2 (hcd (Option.isNone_iff_eq_none.mp h1))

/-- the restricted model runs its eager events until none is left -/
theorem normalize : ∀ (n : Nat) (c : St), Inv c → mu c ≤ n →
    ∃ es a' b' d', model.restrict.run c es = some (c.with3 a' b' d') ∧ es.filterMap Ev.obs = [] ∧
      eagerEvent (c.with3 a' b' d') = none ∧ Inv (c.with3 a' b' d') ∧
      (∀ th ws jobs, RelC c.bc th ws jobs c.th c.ws c.jobs → RelC c.bc th ws jobs a' b' d') := by
  intro n
  induction n with
  | zero =>
    intro c hc hm
    cases he : eagerEvent c with
    | none => exact ⟨[], c.th, c.ws, c.jobs, rfl, rfl, he, hc, fun _ _ _ h => h⟩
    | some e =>
      obtain ⟨_, _, _, _, _, hlt, _⟩ := eager_step c hc e he
      omega
  | succ n ih =>
    intro c hc hm
    cases he : eagerEvent c with
    | none => exact ⟨[], c.th, c.ws, c.jobs, rfl, rfl, he, hc, fun _ _ _ h => h⟩
    | some e =>
      obtain ⟨a1, b1, d1, hstep, hobs, hlt, hrel⟩ := eager_step c hc e he
      have hc1 := step_inv c e _ hc hstep
      obtain ⟨es, a2, b2, d2, hrun, hes, hnone, hinv, hrel2⟩ := ih (c.with3 a1 b1 d1) hc1 (by omega)
      refine ⟨e :: es, a2, b2, d2, ?_, ?_, hnone, hinv, fun th ws jobs h => hrel2 th ws jobs (hrel th ws jobs h)⟩
      · have : model.restrict.step c e = some (c.with3 a1 b1 d1) :=
          restrict_step c e _ hstep (fun _ => by simp [cands, he])
        simp only [OLTS.run, this, Option.bind_some]
        exact hrun
      · simp only [List.filterMap_cons, hobs]
        exact hes

/-- **forward simulation**: a run of the full model from a state related to a restricted-side state
without eager event is matched by a run of the restricted model with the same observables -/
theorem red_run (es : List Ev) : ∀ (s : St) (a : List TS) (b : List WSt) (d : List Job) (s' : St),
    Inv s → Inv (s.with3 a b d) → eagerEvent (s.with3 a b d) = none →
    RelC s.bc s.th s.ws s.jobs a b d → model.run s es = some s' →
    ∃ es' c', model.restrict.run (s.with3 a b d) es' = some c' ∧
      es'.filterMap Ev.obs = es.filterMap Ev.obs := by
  induction es with
  | nil => intro s a b d s' _ _ _ _ _; exact ⟨[], _, rfl, rfl⟩
  | cons e es ih =>
    intro s a b d s' hs hc hn hR hrun
    simp only [OLTS.run] at hrun
    cases hst : model.step s e with
    | none => simp [hst] at hrun
    | some s1 =>
      simp only [hst, Option.bind_some] at hrun
      have hst' : step s e = some s1 := hst
      have hs1 := step_inv s e s1 hs hst'
      obtain ⟨a1, b1, d1, hR1, hcase⟩ := red_step s a b d e s1 hs hc hn hR hst'
      -- the restricted side after its (possibly empty) answer
      have hmove : ∃ pre, model.restrict.run (s.with3 a b d) pre = some (s1.with3 a1 b1 d1) ∧
          pre.filterMap Ev.obs = [e].filterMap Ev.obs ∧ Inv (s1.with3 a1 b1 d1) := by
        rcases hcase with ⟨hobs, heq⟩ | hstep
        · exact ⟨[], by rw [heq]; rfl, by simp [hobs], by rw [heq]; exact hc⟩
        · refine ⟨[e], ?_, rfl, step_inv _ e _ hc hstep⟩
          have : model.restrict.step (s.with3 a b d) e = some (s1.with3 a1 b1 d1) := by
            refine restrict_step _ e _ hstep (fun hobs => ?_)
            have : cands (s.with3 a b d) = allCands (s.with3 a b d) := by simp [cands, hn]
            rw [this]
            exact allCands_complete _ _ e hstep hobs
          simp [OLTS.run, this]
      obtain ⟨pre, hpre, hpobs, hc1⟩ := hmove
      obtain ⟨es2, a2, b2, d2, hrun2, hes2, hn2, hc2, hrel2⟩ := normalize _ (s1.with3 a1 b1 d1) hc1 (Nat.le_refl _)
      have hR2 : RelC s1.bc s1.th s1.ws s1.jobs a2 b2 d2 := hrel2 _ _ _ hR1
      obtain ⟨es3, c3, hrun3, hes3⟩ := ih s1 a2 b2 d2 s' hs1 hc2 hn2 hR2 hrun
      refine ⟨pre ++ (es2 ++ es3), c3, ?_, ?_⟩
      · rw [OLTS.run_append, hpre, Option.bind_some, OLTS.run_append, hrun2, Option.bind_some]
        exact hrun3
      · simp only [List.filterMap_append, hpobs, hes2, hes3, List.nil_append]
        cases hob : e.obs <;> simp [hob]

/-- **the reduced search loses nothing**: every observable trace of the (unreduced) model is the
trace of a run that uses only the candidate events -/
theorem reduced_covers_model (es : List Ev) (s : St) (h : model.run model.init es = some s) :
    ∃ es' s', model.restrict.run model.init es' = some s' ∧
      es'.filterMap model.obs = es.filterMap model.obs :=
  red_run es {} [] [] [] s init_inv init_inv rfl (RelC.refl _ _ _ _) h

end UtilModel.Conc

namespace UtilModel

/-- the *unreduced* candidate list (`allCands`) is complete … -/
theorem complete_conc_allCands : ({ Conc.model with cands := Conc.allCands } : OLTS _ _ _).Complete :=
  ⟨fun s e s' hs ho => Conc.allCands_complete s s' e hs ho, Conc.evs_complete⟩

/-- … but the reduced list the driver uses is not (by design): while a `WaitIdle` caller is about
to sample a busy queue only its sample section is tried, so the (enabled) critical section of a
pending `Enqueue` is not a candidate -/
theorem not_complete_conc : ¬ Conc.model.Complete := by
  intro h
  have := h.cands { created := true, running := 1, ws := [.inJob 0],
                    jobs := [{ isNil := false, st := .active }], th := [.wiInv 0, .enqInv []] }
    (.enqCS 1) _ rfl rfl
  revert this
  decide

/-- the model restricted to the reduced candidates is complete -/
theorem complete_conc_reduced : Conc.model.restrict.Complete :=
  Conc.model.restrict_complete Conc.evs_complete

/-- **A REJECT of the ConcurrentQueue correspondence is about the (unreduced) model**: when the
driver's run fails at an observable without having hit the exploration bounds, no run of the model —
with arbitrary interleavings of its internal events, not only those the reduced search tries —
projects to the recorded history. -/
theorem reject_sound_conc (cap fuel : Nat) (h : List Conc.Obs) (i : Nat)
    (hfail : (Conc.model.accRunH cap fuel [Conc.model.init] h 0 false 1).failedAt = some i)
    (htr : (Conc.model.accRunH cap fuel [Conc.model.init] h 0 false 1).truncated = false) :
    ¬ ∃ es s, Conc.model.run Conc.model.init es = some s ∧ es.filterMap Conc.model.obs = h := by
  rintro ⟨es, s, hr, hp⟩
  obtain ⟨es', s', hr', hp'⟩ := Conc.reduced_covers_model es s hr
  rw [← Conc.model.accRunH_restrict] at hfail htr
  exact rejectH_sound Conc.model.restrict complete_conc_reduced cap fuel h i hfail htr
    ⟨es', s', hr', by rw [← hp]; exact hp'⟩

end UtilModel
