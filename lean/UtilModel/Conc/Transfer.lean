import UtilModel.Core.LTSHash
import UtilModel.Conc.Props
/-!
# Conc — end-to-end transfer

If the driver's trace-inclusion decision accepts a history recorded from the Go implementation, the
property monitor accepts that history: composition of the checker's soundness theorem
(`accepts_sound` / `acceptsH_sound`) with this package's observable-form property theorem.
-/
namespace UtilModel

theorem C18_accepted (cap fuel : Nat) (h : List Conc.Obs)
    (ha : Conc.model.acceptsH cap fuel h = true) : Conc.monC18.accepts h = true :=
  acceptedH_satisfies Conc.model (fun h => Conc.monC18.accepts h = true)
    Conc.C18_obs cap fuel h ha

end UtilModel
