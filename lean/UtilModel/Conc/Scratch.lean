import UtilModel.Conc.Sim
namespace UtilModel.Conc
open UtilModel

theorem limit_some {s : St} {ms : C18St} (hR : RelC18 s ms) {t : Nat} {ts : TS} (ha : s.th[t]? = some ts) :
    ms.limit = some s.limit := by
  rw [hR.limit, created_of_th s hR.inv.toTInv t ts ha]; rfl

theorem crel_finish {s : St} {t : Nat} {ts : TS} {c : CInfo} (h : CRel s t ts c) (th' : List TS) :
    CRel { s with th := th' } t .finished { c with returned := true } := by
  refine ⟨rfl, h.canc, by simp [TS.wiN0], by simp [TS.isWS], ?_, ?_⟩
  · intro q r ch e; cases e
  · intro n0 e; simp [TS.wiN0] at e

/-- a call returns: `th[t] := finished`, the monitor marks it returned -/
theorem sim_ret (s : St) (ms : C18St) (t : Nat) (ts : TS) (hR : RelC18 s ms) (ha : s.th[t]? = some ts)
    (hi' : Inv { s with th := s.th.set t .finished }) :
    ∃ c : CInfo, ms.calls[t]? = some c ∧
      RelC18 { s with th := s.th.set t .finished } (ms.setCall t fun c => { c with returned := true }) := by
  obtain ⟨c, hc⟩ := calls_get hR ha
  refine ⟨c, hc, ?_⟩
  rw [setCall_eq hc]
  exact rel_set s _ ms t .finished _ hR hi' (kept_th s _ s.cx s.mail s.bc) rfl rfl rfl rfl
    (crel_finish (hR.calls t ts c ha hc) _)

theorem sim_retNew (s : St) (t : Nat) (s' : St) (ms : C18St) (hR : RelC18 s ms)
    (hs : step s (.retNew t) = some s') :
    ∃ ms', (monC18g false).step ms (.retNew t) = some ms' ∧ RelC18 s' ms' := by
  have hi' := step_inv s _ s' hR.inv hs
  simp only [step] at hs; split at hs <;> simp at hs; subst hs
  rename_i ha
  obtain ⟨c, hc, hrel⟩ := sim_ret s ms t _ hR ha hi'
  exact ⟨_, rfl, hrel⟩

theorem sim_retEnq (s : St) (t : Nat) (q r : Int) (s' : St) (ms : C18St) (hR : RelC18 s ms)
    (hs : step s (.retEnq t q r) = some s') :
    ∃ ms', (monC18g false).step ms (.retEnq t q r) = some ms' ∧ RelC18 s' ms' := by
  have hi' := step_inv s _ s' hR.inv hs
  simp only [step] at hs; split at hs <;> simp at hs
  rename_i q' r' ha
  obtain ⟨⟨rfl, rfl⟩, rfl⟩ := hs
  obtain ⟨c, hc, hrel⟩ := sim_ret s ms t _ hR ha hi'
  have hp : PairOK s.limit q r := hR.inv.th t _ ha
  refine ⟨_, ?_, hrel⟩
  simp [monC18g, limit_some hR ha, pairOK_of _ _ _ hp]

theorem sim_retWS (s : St) (t : Nat) (r : Res) (s' : St) (ms : C18St) (hR : RelC18 s ms)
    (hs : step s (.retWS t r) = some s') :
    ∃ ms', (monC18g false).step ms (.retWS t r) = some ms' ∧ RelC18 s' ms' := by
  have hi' := step_inv s _ s' hR.inv hs
  simp only [step] at hs; split at hs <;> simp at hs
  rename_i r' ha
  obtain ⟨rfl, rfl⟩ := hs
  obtain ⟨c, hc, hrel⟩ := sim_ret s ms t _ hR ha hi'
  exact ⟨_, rfl, hrel⟩

theorem isFinished_view {s : St} {ms : C18St} (hR : RelC18 s ms) (j : Nat) (jb : Job)
    (hj : s.jobs[j]? = some jb) (hf : jb.st = .finished) (hn : jb.isNil = false) : ms.isFinished j = true := by
  simp [C18St.isFinished, hR.jobs, hj, jinfo, jview, hf, hn]

theorem sim_retWI (s : St) (t : Nat) (r : Res) (s' : St) (ms : C18St) (hR : RelC18 s ms)
    (hs : step s (.retWI t r) = some s') :
    ∃ ms', (monC18g false).step ms (.retWI t r) = some ms' ∧ RelC18 s' ms' := by
  have hi' := step_inv s _ s' hR.inv hs
  simp only [step] at hs; split at hs <;> simp at hs
  rename_i r' n0 ha
  obtain ⟨rfl, rfl⟩ := hs
  obtain ⟨c, hc, hrel⟩ := sim_ret s ms t _ hR ha hi'
  have hcr := hR.calls t _ c ha hc
  have hsnap : r = .nil → c.snap.all ms.isFinished = true := by
    intro hr; subst hr
    rw [List.all_eq_true]
    intro j hj
    obtain ⟨jb, q, a, b, c', d⟩ := hcr.snapWI n0 rfl j hj
    have hfin := (hR.inv.th t _ ha).2 rfl j jb q a b c'
    exact isFinished_view hR j jb a hfin d
  refine ⟨_, ?_, hrel⟩
  simp only [monC18g, hc]
  rw [if_pos hsnap]

end UtilModel.Conc
