import UtilModel.Conc.Sim
namespace UtilModel.Conc
open UtilModel

theorem jinfo_waiting (x : Job) (st' : JS) (sq : Option Nat) (h : x.st.waiting = true) (h' : st'.waiting = true) :
    jinfo { x with st := st', seq := sq } = jinfo x := by
  simp only [jinfo, JInfo.mk.injEq, true_and]
  rw [jview_waiting x h, jview_waiting _ (by simpa using h')]

theorem kept_place (s : St) (j : Nat) (jb : Job) (hj : s.jobs[j]? = some jb) (hf : jb.st = .fresh)
    (hsq : jb.seq = none) : Kept s (place s j) := by
  unfold place
  split
  · exact kept_set s _ j jb _ hj (setJob_eq hj _ _) (jinfo_waiting jb _ _ (by rw [hf]; rfl) rfl)
      (by intro q hq; rw [hsq] at hq; cases hq) _ rfl
  · exact kept_set s _ j jb _ hj (setJob_eq hj _ _) (jinfo_waiting jb _ _ (by rw [hf]; rfl) rfl)
      (by intro q hq; rw [hsq] at hq; cases hq) _ rfl

theorem fold_place_kept (js : List Nat) (s : St) (hJ : JInv s)
    (hfr : ∀ j : Nat, j ∈ js → ∃ jb : Job, s.jobs[j]? = some jb ∧ jb.st = .fresh) (hnd : js.Nodup) :
    Kept s (js.foldl place s) := by
  induction js generalizing s with
  | nil => exact kept_refl s
  | cons j rest ih =>
    obtain ⟨jb, hj, hf⟩ := hfr j (by simp)
    obtain ⟨hJ1, F1⟩ := place_step s j jb hJ hj hf
    rw [List.nodup_cons] at hnd
    have hfr1 : ∀ u : Nat, u ∈ rest → ∃ x : Job, (place s j).jobs[u]? = some x ∧ x.st = .fresh := by
      intro u hu
      obtain ⟨x, hx, hxf⟩ := hfr u (by simp [hu])
      have : u ∉ [j] := by intro e; simp at e; subst e; exact hnd.1 hu
      exact ⟨x, by rw [F1.other u this]; exact hx, hxf⟩
    simp only [List.foldl_cons]
    exact kept_trans (kept_place s j jb hj hf ((hJ.seqs j jb hj).1.mp hf)) (ih (place s j) hJ1 hfr1 hnd.2)

theorem kept_pushInit (s : St) (j : Nat) (jb : Job) (hj : s.jobs[j]? = some jb) (hf : jb.st = .fresh)
    (hsq : jb.seq = none) : Kept s (pushInit s j) :=
  kept_set s _ j jb _ hj (setJob_eq hj _ _) (jinfo_waiting jb _ _ (by rw [hf]; rfl) rfl)
    (by intro q hq; rw [hsq] at hq; cases hq) _ rfl

theorem fold_push_kept (js : List Nat) (s : St) (hJ : JInv0 s)
    (hfr : ∀ j : Nat, j ∈ js → ∃ jb : Job, s.jobs[j]? = some jb ∧ jb.st = .fresh) (hnd : js.Nodup) :
    Kept s (js.foldl pushInit s) := by
  induction js generalizing s with
  | nil => exact kept_refl s
  | cons j rest ih =>
    obtain ⟨jb, hj, hf⟩ := hfr j (by simp)
    have hJ1 : JInv0 (pushInit s j) := jinv0_enq s j jb hJ hj hf
    have hother : ∀ u : Nat, u ≠ j → (pushInit s j).jobs[u]? = s.jobs[u]? := by
      intro u hu
      simp only [pushInit, setJob_eq hj]
      exact getElem?_set_ne' _ _ _ _ (fun e => hu e.symm)
    rw [List.nodup_cons] at hnd
    have hfr1 : ∀ u : Nat, u ∈ rest → ∃ x : Job, (pushInit s j).jobs[u]? = some x ∧ x.st = .fresh := by
      intro u hu
      obtain ⟨x, hx, hxf⟩ := hfr u (by simp [hu])
      have : u ≠ j := by intro e; subst e; exact hnd.1 hu
      exact ⟨x, by rw [hother u this]; exact hx, hxf⟩
    simp only [List.foldl_cons]
    exact kept_trans (kept_pushInit s j jb hj hf ((hJ.seqs j jb hj).1.mp hf)) (ih (pushInit s j) hJ1 hfr1 hnd.2)

/-- a queued job is handed to a worker -/
theorem kept_assign (s : St) (j : Nat) (jb : Job) (hj : s.jobs[j]? = some jb) (hst : jb.st = .queued)
    (s1 : St) (h1 : s1.jobs = setJobSt s.jobs j .assigned) : Kept s s1 := by
  refine kept_set s _ j jb { jb with st := .assigned } hj (setJobSt_eq hj _) ?_ (fun _ h => h) s1 h1
  have := jinfo_waiting jb .assigned jb.seq (by rw [hst]; rfl) rfl
  simpa using this

theorem update_kept (n : Nat) (s : St) (h : JInv0 s) : Kept s (update s n) := by
  induction n generalizing s with
  | zero => exact kept_refl s
  | succ n ih =>
    unfold update
    split
    · rename_i hr
      split
      · exact kept_refl s
      · rename_i j rest hq
        obtain ⟨jb, hj, hst, _⟩ := queue_head s h j rest hq
        exact kept_trans (kept_assign s j jb hj hst _ rfl) (ih _ (jinv0_popNew s j rest h hq hr))
    · exact kept_refl s

end UtilModel.Conc
