import UtilModel.Conc.Sim
/-!
# conc — simulation for the enqueue-order clause of `monC18` (limit 1)
-/
namespace UtilModel.Conc
open UtilModel

def seqOf (s : St) (j : Nat) : Option Nat := (s.jobs[j]?).bind (·.seq)
def ownerOf (s : St) (j : Nat) : Option Nat := (s.jobs[j]?).map (·.owner)

theorem seqOf_some {s : St} {j q : Nat} (h : seqOf s j = some q) :
    ∃ jb : Job, s.jobs[j]? = some jb ∧ jb.seq = some q := by
  unfold seqOf at h
  cases hj : s.jobs[j]? with
  | none => simp [hj] at h
  | some jb => exact ⟨jb, rfl, by simpa [hj] using h⟩

theorem seqOf_of {s : St} {j : Nat} {jb : Job} (h : s.jobs[j]? = some jb) : seqOf s j = jb.seq := by
  simp [seqOf, h]

theorem ownerOf_of {s : St} {j : Nat} {jb : Job} (h : s.jobs[j]? = some jb) : ownerOf s j = some jb.owner := by
  simp [ownerOf, h]

/-- relation between the ghost sequence numbers and the monitor's per-call job lists / snapshots -/
structure RelF (s : St) (ms : C18St) : Prop where
  own : ∀ (j t : Nat), ownerOf s j = some t →
          ∃ c : CInfo, ms.calls[t]? = some c ∧ j ∈ c.jobs ∧ (c.kind = .enq ∨ (c.kind = .new ∧ c.snap = []))
  mine : ∀ (t : Nat) (c : CInfo) (j t' : Nat), ms.calls[t]? = some c → j ∈ c.jobs → ownerOf s j = some t' → t' = t
  sib : ∀ (t : Nat) (c : CInfo) (k1 k2 j1 j2 q2 : Nat), ms.calls[t]? = some c → k1 < k2 →
          c.jobs[k1]? = some j1 → c.jobs[k2]? = some j2 → seqOf s j2 = some q2 →
          ∃ q1 : Nat, seqOf s j1 = some q1 ∧ q1 < q2
  snap : ∀ (t : Nat) (c : CInfo), ms.calls[t]? = some c → c.kind = .enq → ∀ j' : Nat, j' ∈ c.snap →
          ∃ q' : Nat, seqOf s j' = some q' ∧ ∀ (j q : Nat), j ∈ c.jobs → seqOf s j = some q → q' < q
  pend : ∀ (t : Nat) (js : List Nat), s.th[t]? = some (.enqInv js) →
          ∃ c : CInfo, ms.calls[t]? = some c ∧ c.jobs = js
  bound : ∀ (t : Nat) (c : CInfo) (j : Nat), ms.calls[t]? = some c → j ∈ c.jobs → j < s.jobs.length

/-- the parts of a call record that `RelF` reads -/
def CSame (c c1 : CInfo) : Prop := c1.jobs = c.jobs ∧ c1.snap = c.snap ∧ c1.kind = c.kind

/-- frame lemma: sequence numbers, owners, pending Enqueue calls and the read parts of the call records
are unchanged; the call table may have grown by records without jobs that are not `enq` -/
theorem relF_frame (s s1 : St) (ms ms1 : C18St) (h : RelF s ms)
    (hlen : s.jobs.length ≤ s1.jobs.length)
    (hseq : ∀ j : Nat, seqOf s1 j = seqOf s j) (hown : ∀ j : Nat, ownerOf s1 j = ownerOf s j)
    (hpend : ∀ (t : Nat) (js : List Nat), s1.th[t]? = some (.enqInv js) → s.th[t]? = some (.enqInv js))
    (hold : ∀ (t : Nat) (c : CInfo), ms.calls[t]? = some c → ∃ c1 : CInfo, ms1.calls[t]? = some c1 ∧ CSame c c1)
    (hnew : ∀ (t : Nat) (c1 : CInfo), ms1.calls[t]? = some c1 →
        (∃ c : CInfo, ms.calls[t]? = some c ∧ CSame c c1) ∨ (c1.jobs = [] ∧ c1.kind ≠ .enq)) :
    RelF s1 ms1 := by
  refine ⟨?_, ?_, ?_, ?_, ?_, ?_⟩
  · intro j t ho
    rw [hown] at ho
    obtain ⟨c, a, b, d⟩ := h.own j t ho
    obtain ⟨c1, a1, e1, e2, e3⟩ := hold t c a
    exact ⟨c1, a1, by rw [e1]; exact b, by rw [e3, e2]; exact d⟩
  · intro t c1 j t' hc hj ho
    rw [hown] at ho
    rcases hnew t c1 hc with ⟨c, a, e1, _, _⟩ | ⟨e, _⟩
    · exact h.mine t c j t' a (by rw [← e1]; exact hj) ho
    · rw [e] at hj; simp at hj
  · intro t c1 k1 k2 j1 j2 q2 hc hk h1 h2 hq
    rw [hseq] at hq
    rcases hnew t c1 hc with ⟨c, a, e1, _, _⟩ | ⟨e, _⟩
    · rw [e1] at h1 h2
      obtain ⟨q1, b, d⟩ := h.sib t c k1 k2 j1 j2 q2 a hk h1 h2 hq
      exact ⟨q1, by rw [hseq]; exact b, d⟩
    · rw [e] at h1; simp at h1
  · intro t c1 hc hk j' hj'
    rcases hnew t c1 hc with ⟨c, a, e1, e2, e3⟩ | ⟨_, e⟩
    · rw [e3] at hk; rw [e2] at hj'
      obtain ⟨q', b, d⟩ := h.snap t c a hk j' hj'
      refine ⟨q', by rw [hseq]; exact b, ?_⟩
      intro j q hj hq
      rw [e1] at hj; rw [hseq] at hq
      exact d j q hj hq
    · exact absurd hk e
  · intro t js ht
    obtain ⟨c, a, b⟩ := h.pend t js (hpend t js ht)
    obtain ⟨c1, a1, e1, _, _⟩ := hold t c a
    exact ⟨c1, a1, by rw [e1]; exact b⟩
  · intro t c1 j hc hj
    rcases hnew t c1 hc with ⟨c, a, e1, _, _⟩ | ⟨e, _⟩
    · have := h.bound t c j a (by rw [← e1]; exact hj); omega
    · rw [e] at hj; simp at hj


def seqL (jobs : List Job) (j : Nat) : Option Nat := (jobs[j]?).bind (·.seq)
def ownerL (jobs : List Job) (j : Nat) : Option Nat := (jobs[j]?).map (·.owner)

theorem seqOf_eq (s : St) (j : Nat) : seqOf s j = seqL s.jobs j := rfl
theorem ownerOf_eq (s : St) (j : Nat) : ownerOf s j = ownerL s.jobs j := rfl

theorem so_set (jobs : List Job) (j : Nat) (jb jb' : Job) (hj : jobs[j]? = some jb)
    (hs : jb'.seq = jb.seq) (ho : jb'.owner = jb.owner) (u : Nat) :
    seqL (jobs.set j jb') u = seqL jobs u ∧ ownerL (jobs.set j jb') u = ownerL jobs u := by
  unfold seqL ownerL
  by_cases hu : j = u
  · subst hu
    rw [getElem?_set_self' _ _ _ _ hj, hj]; simp [hs, ho]
  · rw [getElem?_set_ne' _ _ _ _ hu]; exact ⟨rfl, rfl⟩

theorem so_setJobSt (jobs : List Job) (j : Nat) (st : JS) (u : Nat) :
    seqL (setJobSt jobs j st) u = seqL jobs u ∧ ownerL (setJobSt jobs j st) u = ownerL jobs u := by
  cases hj : jobs[j]? with
  | none => simp [setJobSt, hj]
  | some jb => rw [setJobSt_eq hj]; exact so_set jobs j jb { jb with st := st } hj rfl rfl u

theorem so_startJob (jobs : List Job) (j : Nat) (u : Nat) :
    seqL (startJob jobs j) u = seqL jobs u ∧ ownerL (startJob jobs j) u = ownerL jobs u := by
  cases hj : jobs[j]? with
  | none => simp [startJob, hj]
  | some jb => rw [startJob_eq hj]; exact so_set jobs j jb { jb with st := .active, starts := jb.starts + 1 } hj rfl rfl u

theorem enq_set (th : List TS) (t0 : Nat) (b : TS) (hb : ∀ js, b ≠ .enqInv js) (t : Nat) (js : List Nat)
    (h : (th.set t0 b)[t]? = some (.enqInv js)) : th[t]? = some (.enqInv js) := by
  rcases getElem?_set_cases _ _ _ _ _ h with ⟨_, e⟩ | ⟨_, h'⟩
  · exact absurd e.symm (hb js)
  · exact h'

theorem enq_append (th : List TS) (b : TS) (hb : ∀ js, b ≠ .enqInv js) (t : Nat) (js : List Nat)
    (h : (th ++ [b])[t]? = some (.enqInv js)) : th[t]? = some (.enqInv js) := by
  rcases getElem?_snoc_cases _ _ _ _ h with ⟨_, h'⟩ | ⟨_, e⟩
  · exact h'
  · exact absurd e.symm (hb js)

/-- every event except `invNew`, `invEnq`, `enqCS` leaves sequence numbers, owners and the pending
Enqueue calls alone -/
theorem step_frameF (s : St) (e : Ev) (s' : St) (hs : step s e = some s')
    (hne : (∀ t L js, e ≠ .invNew t L js) ∧ (∀ t js, e ≠ .invEnq t js) ∧ (∀ t, e ≠ .enqCS t)) :
    (∀ j : Nat, seqOf s' j = seqOf s j) ∧ (∀ j : Nat, ownerOf s' j = ownerOf s j) ∧
    (∀ (t : Nat) (js : List Nat), s'.th[t]? = some (.enqInv js) → s.th[t]? = some (.enqInv js)) := by
  obtain ⟨n1, n2, n3⟩ := hne
  have same : ∀ (th : List TS), (∀ (t : Nat) (js : List Nat), th[t]? = some (.enqInv js) → s.th[t]? = some (.enqInv js)) →
      ∀ (cx : List Nat) (mail : List (Nat × Msg)) (bc : Bcast),
      (∀ j : Nat, seqOf { s with th := th, cx := cx, mail := mail, bc := bc } j = seqOf s j) ∧
      (∀ j : Nat, ownerOf { s with th := th, cx := cx, mail := mail, bc := bc } j = ownerOf s j) ∧
      (∀ (t : Nat) (js : List Nat), ({ s with th := th, cx := cx, mail := mail, bc := bc } : St).th[t]? = some (.enqInv js) →
        s.th[t]? = some (.enqInv js)) := fun th hth _ _ _ => ⟨fun _ => rfl, fun _ => rfl, hth⟩
  cases e with
  | invNew t L js => exact absurd rfl (n1 t L js)
  | invEnq t js => exact absurd rfl (n2 t js)
  | enqCS t => exact absurd rfl (n3 t)
  | retNew t =>
    simp only [step] at hs; split at hs <;> simp at hs; subst hs
    exact same _ (enq_set s.th t _ (by intro js e; cases e)) s.cx s.mail s.bc
  | retEnq t q r =>
    simp only [step] at hs; split at hs <;> simp at hs
    obtain ⟨_, rfl⟩ := hs
    exact same _ (enq_set s.th t _ (by intro js e; cases e)) s.cx s.mail s.bc
  | jobIn w j =>
    simp only [step] at hs; split at hs <;> try simp at hs
    obtain ⟨_, rfl⟩ := hs
    exact ⟨fun u => (so_startJob s.jobs j u).1, fun u => (so_startJob s.jobs j u).2, fun _ _ h => h⟩
  | skipNil w =>
    simp only [step] at hs; split at hs <;> try simp at hs
    split at hs <;> try simp at hs
    rename_i j _ _ _
    obtain ⟨_, rfl⟩ := hs
    exact ⟨fun u => (so_setJobSt s.jobs _ _ u).1, fun u => (so_setJobSt s.jobs _ _ u).2, fun _ _ h => h⟩
  | jobOut w j =>
    simp only [step] at hs; split at hs <;> try simp at hs
    obtain ⟨_, rfl⟩ := hs
    exact ⟨fun u => (so_setJobSt s.jobs _ _ u).1, fun u => (so_setJobSt s.jobs _ _ u).2, fun _ _ h => h⟩
  | popCS w =>
    simp only [step] at hs; split at hs <;> try simp at hs
    split at hs <;> simp at hs <;> subst hs
    · exact ⟨fun _ => rfl, fun _ => rfl, fun _ _ h => h⟩
    · exact ⟨fun u => (so_setJobSt s.jobs _ _ u).1, fun u => (so_setJobSt s.jobs _ _ u).2, fun _ _ h => h⟩
  | invWI t =>
    simp only [step] at hs; split at hs <;> simp at hs; subst hs
    exact same _ (enq_append s.th _ (by intro js e; cases e)) s.cx s.mail s.bc
  | wiCS t =>
    simp only [step] at hs; split at hs <;> try simp at hs
    · subst hs
      unfold wiSample; split
      · exact same _ (enq_set s.th t _ (by intro js e; cases e)) s.cx s.mail s.bc
      · exact same _ (enq_set s.th t _ (by intro js e; cases e)) s.cx s.mail _
    · obtain ⟨_, rfl⟩ := hs
      unfold wiSample; split
      · exact same _ (enq_set s.th t _ (by intro js e; cases e)) s.cx s.mail s.bc
      · exact same _ (enq_set s.th t _ (by intro js e; cases e)) s.cx s.mail _
  | wiCtx t =>
    simp only [step] at hs; split at hs <;> simp at hs
    obtain ⟨_, rfl⟩ := hs
    exact same _ (enq_set s.th t _ (by intro js e; cases e)) s.cx s.mail s.bc
  | wiErr t =>
    simp only [step] at hs; split at hs <;> try simp at hs
    split at hs <;> simp at hs <;> subst hs
    · exact same _ (enq_set s.th t _ (by intro js e; cases e)) s.cx _ s.bc
    · exact same _ (enq_set s.th t _ (by intro js e; cases e)) s.cx _ s.bc
    · exact same _ (enq_set s.th t _ (by intro js e; cases e)) s.cx s.mail s.bc
  | retWI t r =>
    simp only [step] at hs; split at hs <;> simp at hs
    obtain ⟨_, rfl⟩ := hs
    exact same _ (enq_set s.th t _ (by intro js e; cases e)) s.cx s.mail s.bc
  | invWS t nilcb =>
    simp only [step] at hs; split at hs <;> simp at hs; subst hs
    exact same _ (enq_append s.th _ (by intro js e; split at e <;> cases e)) s.cx s.mail s.bc
  | wsCS t =>
    simp only [step] at hs; split at hs <;> try simp at hs
    · subst hs
      exact same _ (enq_set s.th t _ (by intro js e; cases e)) s.cx s.mail _
    · obtain ⟨_, rfl⟩ := hs
      exact same _ (enq_set s.th t _ (by intro js e; cases e)) s.cx s.mail _
  | cbWS t q r a =>
    simp only [step] at hs; split at hs <;> simp at hs
    obtain ⟨_, rfl⟩ := hs
    exact same _ (enq_set s.th t _ (by intro js e; cases a <;> cases e)) s.cx s.mail s.bc
  | wsCtx t =>
    simp only [step] at hs; split at hs <;> simp at hs
    obtain ⟨_, rfl⟩ := hs
    exact same _ (enq_set s.th t _ (by intro js e; cases e)) s.cx s.mail s.bc
  | retWS t r =>
    simp only [step] at hs; split at hs <;> simp at hs
    obtain ⟨_, rfl⟩ := hs
    exact same _ (enq_set s.th t _ (by intro js e; cases e)) s.cx s.mail s.bc
  | envCancel t =>
    simp only [step] at hs; split at hs <;> simp at hs; subst hs
    exact same _ (fun _ _ h => h) _ s.mail s.bc
  | envErr t m =>
    simp only [step] at hs; split at hs <;> simp at hs; subst hs
    exact same _ (fun _ _ h => h) s.cx _ s.bc
  | quiesce B A =>
    simp only [step] at hs; split at hs <;> simp at hs; subst hs
    exact ⟨fun _ => rfl, fun _ => rfl, fun _ _ h => h⟩


def CallsFrame (ms ms' : C18St) : Prop :=
  (∀ (t : Nat) (c : CInfo), ms.calls[t]? = some c → ∃ c1 : CInfo, ms'.calls[t]? = some c1 ∧ CSame c c1) ∧
  (∀ (t : Nat) (c1 : CInfo), ms'.calls[t]? = some c1 →
    (∃ c : CInfo, ms.calls[t]? = some c ∧ CSame c c1) ∨ (c1.jobs = [] ∧ c1.kind ≠ .enq))

theorem callsFrame_same (ms ms' : C18St) (h : ms'.calls = ms.calls) : CallsFrame ms ms' := by
  refine ⟨fun t c hc => ⟨c, by rw [h]; exact hc, rfl, rfl, rfl⟩, fun t c1 hc => Or.inl ⟨c1, by rw [← h]; exact hc, rfl, rfl, rfl⟩⟩

theorem callsFrame_setCall (ms : C18St) (t0 : Nat) (f : CInfo → CInfo)
    (hf : ∀ c : CInfo, CSame c (f c)) : CallsFrame ms (ms.setCall t0 f) := by
  unfold C18St.setCall
  cases hc0 : ms.calls[t0]? with
  | none => exact callsFrame_same ms ms rfl
  | some c0 =>
    refine ⟨?_, ?_⟩
    · intro t c hc
      by_cases ht : t0 = t
      · subst ht
        rw [hc0] at hc; cases hc
        exact ⟨f c0, getElem?_set_self' _ _ _ _ hc0, hf c0⟩
      · exact ⟨c, by simp only; rw [getElem?_set_ne' _ _ _ _ ht]; exact hc, rfl, rfl, rfl⟩
    · intro t c1 hc
      simp only at hc
      rcases getElem?_set_cases _ _ _ _ _ hc with ⟨e, rfl⟩ | ⟨_, h'⟩
      · exact Or.inl ⟨c0, by rw [e]; exact hc0, hf c0⟩
      · exact Or.inl ⟨c1, h', rfl, rfl, rfl⟩

theorem callsFrame_append (ms : C18St) (jobs' : List JInfo) (c' : CInfo) (hj : c'.jobs = []) (hk : c'.kind ≠ .enq) :
    CallsFrame ms { ms with jobs := jobs', calls := ms.calls ++ [c'] } := by
  refine ⟨?_, ?_⟩
  · intro t c hc
    exact ⟨c, getElem?_snoc_left _ _ _ _ hc, rfl, rfl, rfl⟩
  · intro t c1 hc
    rcases getElem?_snoc_cases _ _ _ _ hc with ⟨_, h'⟩ | ⟨_, rfl⟩
    · exact Or.inl ⟨c1, h', rfl, rfl, rfl⟩
    · exact Or.inr ⟨hj, hk⟩

/-- every observable except `invNew` and `invEnq` leaves the job lists, snapshots and kinds of the
existing call records alone and adds at most a record without jobs -/
theorem mon_frameF (fifo : Bool) (ms : C18St) (o : Obs) (ms' : C18St)
    (hstep : (monC18g fifo).step ms o = some ms')
    (hne : (∀ t L js, o ≠ .invNew t L js) ∧ (∀ t js, o ≠ .invEnq t js)) : CallsFrame ms ms' := by
  obtain ⟨n1, n2⟩ := hne
  cases o with
  | invNew t L js => exact absurd rfl (n1 t L js)
  | invEnq t js => exact absurd rfl (n2 t js)
  | retNew t =>
    simp only [monC18g, Option.some.injEq] at hstep; subst hstep
    exact callsFrame_setCall ms t _ (fun c => ⟨rfl, rfl, rfl⟩)
  | retEnq t q r =>
    simp only [monC18g] at hstep
    split at hstep <;> simp at hstep
    obtain ⟨_, rfl⟩ := hstep
    exact callsFrame_setCall ms t _ (fun c => ⟨rfl, rfl, rfl⟩)
  | jobIn j =>
    simp only [monC18g] at hstep
    split at hstep <;> simp at hstep
    obtain ⟨_, _, rfl⟩ := hstep
    exact callsFrame_same _ _ rfl
  | jobOut j =>
    simp only [monC18g] at hstep
    split at hstep <;> simp at hstep
    obtain ⟨_, rfl⟩ := hstep
    exact callsFrame_same _ _ rfl
  | invWI t =>
    simp only [monC18g] at hstep
    split at hstep <;> simp at hstep
    subst hstep
    exact callsFrame_append ms ms.jobs _ rfl (by simp)
  | retWI t r =>
    simp only [monC18g] at hstep
    split at hstep <;> simp at hstep
    obtain ⟨_, rfl⟩ := hstep
    exact callsFrame_setCall ms t _ (fun c => ⟨rfl, rfl, rfl⟩)
  | invWS t nilcb =>
    simp only [monC18g] at hstep
    split at hstep <;> simp at hstep
    subst hstep
    exact callsFrame_append ms ms.jobs _ rfl (by simp)
  | cbWS t q r a =>
    simp only [monC18g] at hstep
    split at hstep <;> simp at hstep
    obtain ⟨_, rfl⟩ := hstep
    exact callsFrame_setCall ms t _ (fun c => ⟨rfl, rfl, rfl⟩)
  | retWS t r =>
    simp only [monC18g, Option.some.injEq] at hstep; subst hstep
    exact callsFrame_setCall ms t _ (fun c => ⟨rfl, rfl, rfl⟩)
  | envCancel t =>
    simp only [monC18g, Option.some.injEq] at hstep; subst hstep
    exact callsFrame_setCall ms t _ (fun c => ⟨rfl, rfl, rfl⟩)
  | envErr t m =>
    simp only [monC18g, Option.some.injEq] at hstep; subst hstep
    exact callsFrame_same _ _ rfl
  | quiesce B A =>
    simp only [monC18g] at hstep
    split at hstep
    · split at hstep <;> simp at hstep
      subst hstep; exact callsFrame_same _ _ rfl
    · split at hstep <;> simp at hstep
      subst hstep; exact callsFrame_same _ _ rfl


/-- RelF across an ordinary event (everything but `invNew`, `invEnq`, `enqCS`) -/
theorem relF_step (_fifo : Bool) (s : St) (e : Ev) (s' : St) (ms ms' : C18St) (hF : RelF s ms)
    (hs : step s e = some s') (hlen : s.jobs.length ≤ s'.jobs.length)
    (hne : (∀ t L js, e ≠ .invNew t L js) ∧ (∀ t js, e ≠ .invEnq t js) ∧ (∀ t, e ≠ .enqCS t))
    (hms : CallsFrame ms ms') : RelF s' ms' := by
  obtain ⟨a, b, c⟩ := step_frameF s e s' hs hne
  exact relF_frame s s' ms ms' hF hlen a b c hms.1 hms.2

theorem takeWhile_pos (l : List Nat) (j j1 : Nat) (hj : j ∈ l) (h1 : j1 ∈ l.takeWhile (· != j)) :
    ∃ k1 k2 : Nat, k1 < k2 ∧ l[k1]? = some j1 ∧ l[k2]? = some j := by
  induction l with
  | nil => simp at hj
  | cons x xs ih =>
    by_cases hx : x = j
    · subst hx; simp [List.takeWhile] at h1
    · have hxb : (x != j) = true := by simpa using hx
      rw [List.takeWhile_cons, hxb] at h1
      simp only [if_true, List.mem_cons] at h1
      have hjx : j ∈ xs := by
        rcases List.mem_cons.mp hj with e | e
        · exact absurd e.symm hx
        · exact e
      rcases h1 with e | e
      · subst e
        obtain ⟨k, hk⟩ := List.getElem?_of_mem hjx
        exact ⟨0, k+1, by omega, by simp, by simpa using hk⟩
      · obtain ⟨k1, k2, a, b, c⟩ := ih hjx e
        exact ⟨k1+1, k2+1, by omega, by simpa using b, by simpa using c⟩

theorem started_view {s : St} {ms : C18St} (hR : RelC18 s ms) (j : Nat) (jb : Job)
    (hj : s.jobs[j]? = some jb) (hst : jb.started) : ms.started j = true := by
  simp only [C18St.started, hR.jobs, List.getElem?_map, hj, Option.map_some, jinfo, jview]
  rcases hst with e | e <;> rw [e]
  · simp
  · cases jb.isNil <;> simp

/-- the enqueue-order clause at `cbin j` under limit 1 -/
theorem fifo_ok (s : St) (ms : C18St) (hR : RelC18 s ms) (hF : RelF s ms) (hl : s.limit = 1)
    (j : Nat) (jb : Job) (hj : s.jobs[j]? = some jb) (hst : jb.st = .assigned) :
    fifoOK ms jb.owner j = true := by
  have hi := hR.inv
  obtain ⟨c, hc, hjc, hkind⟩ := hF.own j jb.owner (ownerOf_of hj)
  -- `j` has a sequence number below `nasg`
  obtain ⟨a, b⟩ := hi.seqs j jb hj
  have hq : ∃ q, jb.seq = some q := by
    cases hsq : jb.seq with
    | none => have := a.mpr hsq; rw [hst] at this; cases this
    | some q => exact ⟨q, rfl⟩
  obtain ⟨q, hq⟩ := hq
  have hqlt : q < s.nasg := by
    have := (b q hq).2
    rcases Nat.lt_or_ge q s.nasg with h | h
    · exact h
    · have := this.mpr h; rw [hst] at this; cases this
  have before : ∀ (j1 q1 : Nat), seqOf s j1 = some q1 → q1 < q → ms.started j1 = true := by
    intro j1 q1 h1 hlt
    obtain ⟨jb1, hj1, hq1⟩ := seqOf_some h1
    exact started_view hR j1 jb1 hj1 (hi.l1 hl j1 jb1 q1 hj1 hq1 (by omega))
  simp only [fifoOK, hc, Bool.and_eq_true, List.all_eq_true]
  constructor
  · intro j' hj'
    rcases hkind with hk | ⟨_, hk⟩
    · obtain ⟨q', h1, h2⟩ := hF.snap jb.owner c hc hk j' hj'
      exact before j' q' h1 (h2 j q hjc (by rw [seqOf_of hj]; exact hq))
    · rw [hk] at hj'; simp at hj'
  · intro j1 hj1
    obtain ⟨k1, k2, hk, h1, h2⟩ := takeWhile_pos c.jobs j j1 hjc hj1
    obtain ⟨q1, a1, b1⟩ := hF.sib jb.owner c k1 k2 j1 j q hc hk h1 h2 (by rw [seqOf_of hj]; exact hq)
    exact before j1 q1 a1 b1


theorem relF_init : RelF model.init (monC18g true).init := by
  refine ⟨?_, ?_, ?_, ?_, ?_, ?_⟩ <;> intros <;> simp_all [model, monC18g, ownerOf, seqOf]

theorem relF_invEnq (s s1 : St) (js : List (Nat × Bool)) (ms ms1 : C18St) (hR : RelC18 s ms) (hF : RelF s ms)
    (hids : js.map (·.1) = List.range' s.jobs.length js.length)
    (hjobs : s1.jobs = s.jobs ++ newJobs s.th.length js)
    (hth : s1.th = s.th ++ [.enqInv (js.map (·.1))])
    (hcalls : ms1.calls = ms.calls ++ [{ kind := .enq, jobs := js.map (·.1), snap := ms.settled (· == .unstarted) }]) :
    RelF s1 ms1 := by
  have hcl := hR.clen
  have hnewseq : ∀ (j q : Nat), seqOf s1 j = some q → j < s.jobs.length ∧ seqOf s j = some q := by
    intro j q h
    obtain ⟨jb, hj, hq⟩ := seqOf_some h
    rw [hjobs] at hj
    rcases newJobs_new _ _ _ _ _ hj with h1 | ⟨_, _, _, _, h5⟩
    · exact ⟨lt_of_getElem? h1, by rw [seqOf_of h1]; exact hq⟩
    · rw [h5] at hq; cases hq
  have hold : ∀ (j : Nat), j < s.jobs.length → seqOf s1 j = seqOf s j ∧ ownerOf s1 j = ownerOf s j := by
    intro j hlt
    simp [seqOf, ownerOf, hjobs, List.getElem?_append_left hlt]
  refine ⟨?_, ?_, ?_, ?_, ?_, ?_⟩
  · intro j t1 ho
    by_cases hlt : j < s.jobs.length
    · rw [(hold j hlt).2] at ho
      obtain ⟨c, a, b, d⟩ := hF.own j t1 ho
      exact ⟨c, by rw [hcalls]; exact getElem?_snoc_left _ _ _ _ a, b, d⟩
    · simp only [ownerOf, hjobs] at ho
      cases hj : (s.jobs ++ newJobs s.th.length js)[j]? with
      | none => simp [hj] at ho
      | some jb =>
        simp [hj] at ho
        rcases newJobs_new _ _ _ _ _ hj with h1 | ⟨_, h2, _, h4, _⟩
        · exact absurd (lt_of_getElem? h1) hlt
        · rw [h4] at ho; subst ho
          refine ⟨{ kind := .enq, jobs := js.map (·.1), snap := ms.settled (· == .unstarted) }, ?_,
            by rw [hids]; exact h2, Or.inl rfl⟩
          rw [hcalls, ← hcl, List.getElem?_append_right (Nat.le_refl _)]; simp
  · intro t1 c j t' hc hj ho
    rw [hcalls] at hc
    rcases getElem?_snoc_cases _ _ _ _ hc with ⟨_, hc'⟩ | ⟨e, rfl⟩
    · have hb := hF.bound t1 c j hc' hj
      rw [(hold j hb).2] at ho
      exact hF.mine t1 c j t' hc' hj ho
    · simp only at hj
      rw [hids] at hj
      obtain ⟨jb, a, _, b, _⟩ := newJobs_get s.jobs s.th.length js j hj
      simp only [ownerOf, hjobs, a, Option.map_some, Option.some.injEq] at ho
      rw [← ho, b, e, hcl]
  · intro t1 c k1 k2 j1 j2 q2 hc hk h1 h2 hq
    rw [hcalls] at hc
    obtain ⟨hlt2, hq2⟩ := hnewseq j2 q2 hq
    rcases getElem?_snoc_cases _ _ _ _ hc with ⟨_, hc'⟩ | ⟨_, rfl⟩
    · obtain ⟨q1, a, b⟩ := hF.sib t1 c k1 k2 j1 j2 q2 hc' hk h1 h2 hq2
      obtain ⟨jb1, hj1, _⟩ := seqOf_some a
      exact ⟨q1, by rw [(hold j1 (lt_of_getElem? hj1)).1]; exact a, b⟩
    · exfalso
      simp only at h2
      have := List.mem_of_getElem? h2
      rw [hids, List.mem_range'_1] at this
      omega
  · intro t1 c hc hk j' hj'
    rw [hcalls] at hc
    rcases getElem?_snoc_cases _ _ _ _ hc with ⟨_, hc'⟩ | ⟨_, rfl⟩
    · obtain ⟨q', a, b⟩ := hF.snap t1 c hc' hk j' hj'
      obtain ⟨jb', hjb', _⟩ := seqOf_some a
      refine ⟨q', by rw [(hold j' (lt_of_getElem? hjb')).1]; exact a, ?_⟩
      intro j q hj hq
      obtain ⟨_, hq0⟩ := hnewseq j q hq
      exact b j q hj hq0
    · simp only at hj'
      obtain ⟨jb', q', a, b, _, _⟩ := settled_seq hR _ j' hj'
      refine ⟨q', by rw [(hold j' (lt_of_getElem? a)).1, seqOf_of a]; exact b, ?_⟩
      intro j q hj hq
      exfalso
      simp only at hj
      obtain ⟨hlt, _⟩ := hnewseq j q hq
      rw [hids, List.mem_range'_1] at hj
      omega
  · intro t1 js1 ht
    rw [hth] at ht
    rcases getElem?_snoc_cases _ _ _ _ ht with ⟨_, ht'⟩ | ⟨e, h2⟩
    · obtain ⟨c, a, b⟩ := hF.pend t1 js1 ht'
      exact ⟨c, by rw [hcalls]; exact getElem?_snoc_left _ _ _ _ a, b⟩
    · cases h2
      refine ⟨{ kind := .enq, jobs := js.map (·.1), snap := ms.settled (· == .unstarted) }, ?_, rfl⟩
      rw [hcalls, e, ← hcl, List.getElem?_append_right (Nat.le_refl _)]; simp
  · intro t1 c j hc hj
    rw [hcalls] at hc
    rw [hjobs, List.length_append]
    rcases getElem?_snoc_cases _ _ _ _ hc with ⟨_, hc'⟩ | ⟨_, rfl⟩
    · have := hF.bound t1 c j hc' hj; omega
    · simp only at hj
      rw [hids, List.mem_range'_1] at hj
      simp [newJobs]; omega


theorem kept_owner {s s1 : St} (k : Kept s s1) (j : Nat) : ownerOf s1 j = ownerOf s j := by
  unfold ownerOf
  cases hx : s.jobs[j]? with
  | none =>
    have : s1.jobs[j]? = none := by
      rw [List.getElem?_eq_none_iff] at hx ⊢; rw [k.len]; exact hx
    simp [this]
  | some x =>
    obtain ⟨x', h1, e1, _⟩ := k.job j x hx
    have := congrArg JInfo.call e1
    simp only [jinfo] at this
    simp [h1, this]

theorem relF_enqCS (s : St) (t : Nat) (js : List Nat) (ms : C18St) (hR : RelC18 s ms) (hF : RelF s ms)
    (ha : s.th[t]? = some (.enqInv js)) (s1 : St) (hjobs : s1.jobs = (js.foldl place s).jobs)
    (hth : s1.th = (js.foldl place s).th.set t (.enqDone (js.foldl place s).qsize (js.foldl place s).running)) :
    RelF s1 ms := by
  have hi := hR.inv
  have hT := hi.th t _ ha
  simp only [TSInv] at hT
  have hfr : ∀ j : Nat, j ∈ js → ∃ jb : Job, s.jobs[j]? = some jb ∧ jb.st = .fresh := fun j hj => by
    obtain ⟨jb, a, b, _⟩ := hT j hj; exact ⟨jb, a, b⟩
  have hnd := hi.nodup t js ha
  obtain ⟨_, F⟩ := fold_place js s hi.toJInv hfr hnd
  rw [F.th] at hth
  have k := fold_place_kept js s hi.toJInv hfr hnd
  obtain ⟨_, pos⟩ := fold_place_pos js s hi.toJInv hfr hnd
  obtain ⟨c0, hc0, hc0j⟩ := hF.pend t js ha
  have hown : ∀ j : Nat, ownerOf s1 j = ownerOf s j := by
    intro j; simp only [ownerOf, hjobs]; exact kept_owner k j
  have hother : ∀ j : Nat, j ∉ js → seqOf s1 j = seqOf s j := by
    intro j hj; simp only [seqOf, hjobs]; rw [F.other j hj]
  have hmine : ∀ (k' j : Nat), js[k']? = some j → seqOf s1 j = some (s.nseq + k') := by
    intro k' j hk
    obtain ⟨x, hx, hxs⟩ := pos k' j hk
    simp only [seqOf, hjobs, hx]; exact hxs
  have hjsown : ∀ j : Nat, j ∈ js → ownerOf s j = some t := by
    intro j hj
    obtain ⟨jb, a, _, b⟩ := hT j hj
    rw [ownerOf_of a, b]
  have hjsnoseq : ∀ j : Nat, j ∈ js → seqOf s j = none := by
    intro j hj
    obtain ⟨jb, a, b, _⟩ := hT j hj
    rw [seqOf_of a]; exact (hi.seqs j jb a).1.mp b
  -- a job of another call's list is not one of `js`
  have hnotin : ∀ (t1 : Nat) (c : CInfo) (j : Nat), ms.calls[t1]? = some c → t1 ≠ t → j ∈ c.jobs → j ∉ js := by
    intro t1 c j hc hne hj hm
    exact hne (hF.mine t1 c j t hc hj (hjsown j hm)).symm
  refine ⟨?_, ?_, ?_, ?_, ?_, ?_⟩
  · intro j t1 ho; rw [hown] at ho; exact hF.own j t1 ho
  · intro t1 c j t' hc hj ho; rw [hown] at ho; exact hF.mine t1 c j t' hc hj ho
  · intro t1 c k1 k2 j1 j2 q2 hc hk h1 h2 hq
    by_cases ht : t1 = t
    · subst ht
      rw [hc0] at hc; cases hc
      rw [hc0j] at h1 h2
      rw [hmine k2 j2 h2] at hq; cases hq
      exact ⟨s.nseq + k1, hmine k1 j1 h1, by omega⟩
    · have n2 := hnotin t1 c j2 hc ht (List.mem_of_getElem? h2)
      have n1 := hnotin t1 c j1 hc ht (List.mem_of_getElem? h1)
      rw [hother j2 n2] at hq
      obtain ⟨q1, a, b⟩ := hF.sib t1 c k1 k2 j1 j2 q2 hc hk h1 h2 hq
      exact ⟨q1, by rw [hother j1 n1]; exact a, b⟩
  · intro t1 c hc hk j' hj'
    obtain ⟨q', a, b⟩ := hF.snap t1 c hc hk j' hj'
    have hnj' : j' ∉ js := by intro hm; rw [hjsnoseq j' hm] at a; cases a
    refine ⟨q', by rw [hother j' hnj']; exact a, ?_⟩
    intro j q hj hq
    by_cases hm : j ∈ js
    · obtain ⟨k', hk'⟩ := List.getElem?_of_mem hm
      rw [hmine k' j hk'] at hq; cases hq
      obtain ⟨jb', hjb', hq'⟩ := seqOf_some a
      have := ((hi.seqs j' jb' hjb').2 q' hq').1
      omega
    · rw [hother j hm] at hq; exact b j q hj hq
  · intro t1 js1 ht
    rw [hth] at ht
    rcases getElem?_set_cases _ _ _ _ _ ht with ⟨_, e⟩ | ⟨_, ht'⟩
    · cases e
    · exact hF.pend t1 js1 ht'
  · intro t1 c j hc hj
    rw [hjobs, k.len]; exact hF.bound t1 c j hc hj


theorem invNew_shapeF (s : St) (t : Nat) (L : Int) (js : List (Nat × Bool)) (s' : St) (hi : Inv s)
    (hs : step s (.invNew t L js) = some s') :
    s'.jobs.length = js.length ∧
    (∀ (j t1 : Nat), ownerOf s' j = some t1 → t1 = 0) ∧
    (∀ (k u : Nat), (js.map (·.1))[k]? = some u → seqOf s' u = some k) ∧
    js.map (·.1) = List.range' 0 js.length := by
  simp only [step] at hs
  split at hs
  case isFalse => simp at hs
  rename_i hc
  obtain ⟨hcr, rfl, hids⟩ := hc
  have hs0 := hi.cre hcr
  subst hs0
  have hids' : js.map (·.1) = List.range' 0 js.length := by simpa [idsOK] using hids
  simp only [Option.some.injEq] at hs
  have h1 : JInv0 { created := true, limit := L, jobs := newJobs 0 js, th := [.newDone] } := jinv0_start L 0 js
  have hfr : ∀ j : Nat, j ∈ js.map (·.1) → ∃ jb : Job,
      ({ created := true, limit := L, jobs := newJobs 0 js, th := [.newDone] } : St).jobs[j]? = some jb ∧ jb.st = .fresh := by
    intro j hj
    rw [hids'] at hj
    obtain ⟨jb, a, b, _⟩ := newJobs_get [] 0 js j (by simpa using hj)
    exact ⟨jb, by simpa using a, b⟩
  have hnd : (js.map (·.1)).Nodup := by rw [hids']; exact List.nodup_range'
  obtain ⟨h2, _⟩ := fold_push (js.map (·.1)) _ h1 hfr hnd
  have k2 := fold_push_kept (js.map (·.1)) _ h1 hfr hnd
  have p2 := fold_push_pos (js.map (·.1)) _ h1 hfr hnd
  have k3 := update_kept ((js.map (·.1)).foldl pushInit
      { created := true, limit := L, jobs := newJobs 0 js, th := [.newDone] }).queue.length _ h2
  have k := kept_trans k2 k3
  simp only [List.nil_append, List.length_nil] at hs
  generalize hg2 : (js.map (·.1)).foldl pushInit
      { created := true, limit := L, jobs := newJobs 0 js, th := [.newDone] } = s2 at *
  generalize hg3 : update s2 s2.queue.length = s3 at *
  have hjobs : s'.jobs = s3.jobs := by rw [← hs]; split <;> rfl
  refine ⟨?_, ?_, ?_, hids'⟩
  · rw [hjobs, k.len]; simp [newJobs]
  · intro j t1 ho
    simp only [ownerOf, hjobs] at ho
    have := kept_owner k j
    simp only [ownerOf] at this
    rw [this] at ho
    cases hx : (newJobs 0 js)[j]? with
    | none => simp [hx] at ho
    | some x =>
      obtain ⟨_, _, _, d, _⟩ := newJobs_mem 0 js j x hx
      simp [hx, d] at ho; exact ho.symm
  · intro k' u hk
    obtain ⟨x, hx, hxs⟩ := p2 k' u hk
    obtain ⟨x', hx', _, hq⟩ := k3.job u x hx
    simp only [seqOf, hjobs, hx']
    simpa using hq _ hxs

theorem relF_invNew (s : St) (t : Nat) (L : Int) (js : List (Nat × Bool)) (s' : St) (ms ms1 : C18St)
    (hR : RelC18 s ms) (hs : step s (.invNew t L js) = some s')
    (hcalls : ms1.calls = [{ kind := .new, jobs := js.map (·.1) }]) :
    RelF s' ms1 := by
  obtain ⟨hlen, hown, hpos, hids⟩ := invNew_shapeF s t L js s' hR.inv hs
  obtain ⟨_, _, _, s3, hs3, _, _, hth, _, _⟩ := invNew_shape s t L js s' hR.inv hs
  have hth' : s'.th = [.newDone] := by rcases hs3 with e | e <;> subst e <;> exact hth
  have hget : ∀ (k u : Nat), (js.map (·.1))[k]? = some u → u = k := by
    intro k u hk
    rw [hids] at hk
    have hl := lt_of_getElem? hk
    simp at hl
    rw [List.getElem?_eq_getElem (by simpa using hl)] at hk
    simp at hk; omega
  refine ⟨?_, ?_, ?_, ?_, ?_, ?_⟩
  · intro j t1 ho
    have := hown j t1 ho; subst this
    refine ⟨{ kind := .new, jobs := js.map (·.1) }, by rw [hcalls]; rfl, ?_, Or.inr ⟨rfl, rfl⟩⟩
    rw [hids, List.mem_range'_1]
    simp only [ownerOf] at ho
    cases hj : s'.jobs[j]? with
    | none => simp [hj] at ho
    | some x => have := lt_of_getElem? hj; omega
  · intro t1 c j t' hc hj ho
    rw [hcalls] at hc
    cases t1 with
    | zero => exact hown j t' ho
    | succ n => simp at hc
  · intro t1 c k1 k2 j1 j2 q2 hc hk h1 h2 hq
    rw [hcalls] at hc
    cases t1 with
    | zero =>
      simp at hc; subst hc
      simp only at h1 h2
      rw [hpos k2 j2 h2] at hq; cases hq
      exact ⟨k1, hpos k1 j1 h1, hk⟩
    | succ n => simp at hc
  · intro t1 c hc hk
    rw [hcalls] at hc
    cases t1 with
    | zero => simp at hc; subst hc; cases hk
    | succ n => simp at hc
  · intro t1 js1 ht
    rw [hth'] at ht
    cases t1 <;> simp at ht
  · intro t1 c j hc hj
    rw [hcalls] at hc
    cases t1 with
    | zero =>
      simp at hc; subst hc
      simp only at hj
      rw [hids, List.mem_range'_1] at hj
      omega
    | succ n => simp at hc


theorem mon_true_eq_false (ms : C18St) (o : Obs) (h : ∀ j, o ≠ .jobIn j) :
    (monC18g true).step ms o = (monC18g false).step ms o := by
  cases o <;> first | rfl | exact absurd rfl (h _)

theorem mon_jobIn_true (ms ms' : C18St) (j : Nat)
    (h : (monC18g false).step ms (.jobIn j) = some ms')
    (hf : ∀ (L : Int) (ji : JInfo), ms.limit = some L → ms.jobs[j]? = some ji → L = 1 → fifoOK ms ji.call j = true) :
    (monC18g true).step ms (.jobIn j) = some ms' := by
  simp only [monC18g] at h ⊢
  cases hl : ms.limit with
  | none => simp [hl] at h
  | some L =>
    cases hj : ms.jobs[j]? with
    | none => simp [hl, hj] at h
    | some ji =>
      simp only [hl, hj] at h ⊢
      split at h
      · rename_i h1
        rw [if_pos h1]
        split at h
        · rename_i h2
          rw [if_pos ⟨h2.1, fun _ hL => hf L ji hl hj hL⟩]
          exact h
        · simp at h
      · simp at h

theorem len_of_owner (s s1 : St) (h : ∀ j : Nat, ownerOf s1 j = ownerOf s j) : s1.jobs.length = s.jobs.length := by
  have key : ∀ (a b : St), (∀ j : Nat, ownerOf a j = ownerOf b j) → a.jobs.length ≤ b.jobs.length := by
    intro a b hab
    rcases Nat.lt_or_ge b.jobs.length a.jobs.length with hlt | hge
    · exfalso
      have h1 := hab b.jobs.length
      simp only [ownerOf] at h1
      rw [List.getElem?_eq_getElem hlt, List.getElem?_eq_none (Nat.le_refl _)] at h1
      simp at h1
    · exact hge
  exact Nat.le_antisymm (key s1 s h) (key s s1 (fun j => (h j).symm))

structure RelFull (s : St) (ms : C18St) : Prop where
  core : RelC18 s ms
  fifo : RelF s ms

theorem relFull_init : RelFull model.init (monC18g true).init := ⟨relC18_init, relF_init⟩

theorem callsFrame_refl (ms : C18St) : CallsFrame ms ms := callsFrame_same ms ms rfl

theorem sim_step_full (s : St) (e : Ev) (s' : St) (ms : C18St) (hR : RelFull s ms)
    (hs : model.step s e = some s') :
    match model.obs e with
    | none => RelFull s' ms
    | some o => ∃ ms', (monC18g true).step ms o = some ms' ∧ RelFull s' ms' := by
  have hs : step s e = some s' := hs
  have hcore := sim_step s e s' ms hR.core hs
  -- ordinary events
  have ord_int : (∀ t L js, e ≠ .invNew t L js) → (∀ t js, e ≠ .invEnq t js) → (∀ t, e ≠ .enqCS t) →
      RelF s' ms := by
    intro n1 n2 n3
    obtain ⟨_, b, _⟩ := step_frameF s e s' hs ⟨n1, n2, n3⟩
    exact relF_step true s e s' ms ms hR.fifo hs (Nat.le_of_eq (len_of_owner s s' b).symm) ⟨n1, n2, n3⟩
      (callsFrame_refl ms)
  have ord_obs : ∀ (o : Obs) (ms' : C18St), (∀ t L js, e ≠ .invNew t L js) → (∀ t js, e ≠ .invEnq t js) →
      (∀ t, e ≠ .enqCS t) → (∀ t L js, o ≠ .invNew t L js) → (∀ t js, o ≠ .invEnq t js) →
      (monC18g false).step ms o = some ms' → RelF s' ms' := by
    intro o ms' n1 n2 n3 m1 m2 hst
    obtain ⟨_, b, _⟩ := step_frameF s e s' hs ⟨n1, n2, n3⟩
    exact relF_step true s e s' ms ms' hR.fifo hs (Nat.le_of_eq (len_of_owner s s' b).symm) ⟨n1, n2, n3⟩
      (mon_frameF false ms o ms' hst ⟨m1, m2⟩)
  cases e with
  | invNew t L js =>
    obtain ⟨ms', hst, hrel⟩ := hcore
    refine ⟨ms', by rw [mon_true_eq_false _ _ (by intro j h; cases h)]; exact hst, hrel, ?_⟩
    have hcalls : ms'.calls = [{ kind := .new, jobs := js.map (·.1) }] := by
      obtain ⟨rfl, _, _, _⟩ := invNew_shape s t L js s' hR.core.inv hs
      have hc0 : ms.calls = [] := List.eq_nil_of_length_eq_zero (by rw [hR.core.clen]; rfl)
      simp only [monC18g] at hst
      split at hst <;> simp at hst
      rw [← hst]; simp [hc0]
    exact relF_invNew s t L js s' ms ms' hR.core hs hcalls
  | invEnq t js =>
    obtain ⟨ms', hst, hrel⟩ := hcore
    refine ⟨ms', by rw [mon_true_eq_false _ _ (by intro j h; cases h)]; exact hst, hrel, ?_⟩
    simp only [step] at hs; split at hs <;> simp at hs; subst hs
    rename_i hc
    obtain ⟨_, rfl, hids⟩ := hc
    have hids' : js.map (·.1) = List.range' s.jobs.length js.length := by simpa [idsOK] using hids
    have hcalls : ms'.calls = ms.calls ++ [{ kind := .enq, jobs := js.map (·.1), snap := ms.settled (· == .unstarted) }] := by
      simp only [monC18g] at hst
      split at hst <;> simp at hst
      rw [← hst]
    exact relF_invEnq s _ js ms ms' hR.core hR.fifo hids' rfl rfl hcalls
  | enqCS t =>
    refine ⟨hcore, ?_⟩
    simp only [step] at hs; split at hs <;> simp at hs; subst hs
    rename_i js ha
    exact relF_enqCS s t js ms hR.core hR.fifo ha _ rfl rfl
  | jobIn w j =>
    obtain ⟨ms', hst, hrel⟩ := hcore
    refine ⟨ms', ?_, hrel, ord_obs _ ms' (by simp) (by simp) (by simp) (by simp) (by simp) hst⟩
    apply mon_jobIn_true ms ms' j hst
    intro L ji hl hj hL
    -- the model side of this `cbin`
    simp only [step] at hs; split at hs <;> try simp at hs
    rename_i j' jb hw hjb
    obtain ⟨⟨rfl, _⟩, _⟩ := hs
    obtain ⟨jb0, hj0, hstj⟩ := hR.core.inv.hasJ w j hw
    rw [hjb] at hj0; cases hj0
    have hcr := created_of_ws s hR.core.inv.toTInv w _ hw
    have hlim : ms.limit = some s.limit := by rw [hR.core.limit, hcr]; rfl
    rw [hlim] at hl; cases hl
    have hji : ji = jinfo jb := by
      have := hR.core.jobs
      rw [this] at hj; simp [hjb] at hj; exact hj.symm
    subst hji
    exact fifo_ok s ms hR.core hR.fifo hL j jb hjb hstj
  | retNew t =>
    obtain ⟨ms', hst, hrel⟩ := hcore
    exact ⟨ms', by rw [mon_true_eq_false _ _ (by intro j h; cases h)]; exact hst, hrel,
      ord_obs _ ms' (by simp) (by simp) (by simp) (by simp) (by simp) hst⟩
  | retEnq t q r =>
    obtain ⟨ms', hst, hrel⟩ := hcore
    exact ⟨ms', by rw [mon_true_eq_false _ _ (by intro j h; cases h)]; exact hst, hrel,
      ord_obs _ ms' (by simp) (by simp) (by simp) (by simp) (by simp) hst⟩
  | jobOut w j =>
    obtain ⟨ms', hst, hrel⟩ := hcore
    exact ⟨ms', by rw [mon_true_eq_false _ _ (by intro j h; cases h)]; exact hst, hrel,
      ord_obs _ ms' (by simp) (by simp) (by simp) (by simp) (by simp) hst⟩
  | invWI t =>
    obtain ⟨ms', hst, hrel⟩ := hcore
    exact ⟨ms', by rw [mon_true_eq_false _ _ (by intro j h; cases h)]; exact hst, hrel,
      ord_obs _ ms' (by simp) (by simp) (by simp) (by simp) (by simp) hst⟩
  | retWI t r =>
    obtain ⟨ms', hst, hrel⟩ := hcore
    exact ⟨ms', by rw [mon_true_eq_false _ _ (by intro j h; cases h)]; exact hst, hrel,
      ord_obs _ ms' (by simp) (by simp) (by simp) (by simp) (by simp) hst⟩
  | invWS t n =>
    obtain ⟨ms', hst, hrel⟩ := hcore
    exact ⟨ms', by rw [mon_true_eq_false _ _ (by intro j h; cases h)]; exact hst, hrel,
      ord_obs _ ms' (by simp) (by simp) (by simp) (by simp) (by simp) hst⟩
  | cbWS t q r a =>
    obtain ⟨ms', hst, hrel⟩ := hcore
    exact ⟨ms', by rw [mon_true_eq_false _ _ (by intro j h; cases h)]; exact hst, hrel,
      ord_obs _ ms' (by simp) (by simp) (by simp) (by simp) (by simp) hst⟩
  | retWS t r =>
    obtain ⟨ms', hst, hrel⟩ := hcore
    exact ⟨ms', by rw [mon_true_eq_false _ _ (by intro j h; cases h)]; exact hst, hrel,
      ord_obs _ ms' (by simp) (by simp) (by simp) (by simp) (by simp) hst⟩
  | envCancel t =>
    obtain ⟨ms', hst, hrel⟩ := hcore
    exact ⟨ms', by rw [mon_true_eq_false _ _ (by intro j h; cases h)]; exact hst, hrel,
      ord_obs _ ms' (by simp) (by simp) (by simp) (by simp) (by simp) hst⟩
  | envErr t m =>
    obtain ⟨ms', hst, hrel⟩ := hcore
    exact ⟨ms', by rw [mon_true_eq_false _ _ (by intro j h; cases h)]; exact hst, hrel,
      ord_obs _ ms' (by simp) (by simp) (by simp) (by simp) (by simp) hst⟩
  | quiesce B A =>
    obtain ⟨ms', hst, hrel⟩ := hcore
    exact ⟨ms', by rw [mon_true_eq_false _ _ (by intro j h; cases h)]; exact hst, hrel,
      ord_obs _ ms' (by simp) (by simp) (by simp) (by simp) (by simp) hst⟩
  | skipNil w => exact ⟨hcore, ord_int (by simp) (by simp) (by simp)⟩
  | popCS w => exact ⟨hcore, ord_int (by simp) (by simp) (by simp)⟩
  | wiCS t => exact ⟨hcore, ord_int (by simp) (by simp) (by simp)⟩
  | wiCtx t => exact ⟨hcore, ord_int (by simp) (by simp) (by simp)⟩
  | wiErr t => exact ⟨hcore, ord_int (by simp) (by simp) (by simp)⟩
  | wsCS t => exact ⟨hcore, ord_int (by simp) (by simp) (by simp)⟩
  | wsCtx t => exact ⟨hcore, ord_int (by simp) (by simp) (by simp)⟩

end UtilModel.Conc
