import UtilModel.Conc.Scratch2
namespace UtilModel.Conc
open UtilModel

theorem newJobs_view (t : Nat) (js : List (Nat × Bool)) : (newJobs t js).map jinfo = mkJobs t js := by
  simp only [newJobs, mkJobs, List.map_map]
  apply List.map_congr_left
  intro p _
  simp [jinfo, jview]

theorem sim_invEnq (s : St) (t : Nat) (js : List (Nat × Bool)) (s' : St) (ms : C18St) (hR : RelC18 s ms)
    (hs : step s (.invEnq t js) = some s') :
    ∃ ms', (monC18g false).step ms (.invEnq t js) = some ms' ∧ RelC18 s' ms' := by
  have hi' := step_inv s _ s' hR.inv hs
  simp only [step] at hs; split at hs <;> simp at hs; subst hs
  rename_i hc
  obtain ⟨hcr, rfl, hids⟩ := hc
  have hjl : ms.jobs.length = s.jobs.length := by rw [hR.jobs]; simp
  have hlim : ms.limit = some s.limit := by rw [hR.limit, hcr]; rfl
  refine ⟨{ ms with jobs := ms.jobs ++ mkJobs s.th.length js,
                    calls := ms.calls ++ [{ kind := .enq, jobs := js.map (·.1),
                                            snap := ms.settled (· == .unstarted) }] }, ?_, ?_⟩
  · simp [monC18g, hlim, hR.clen, hjl, hids]
  · have kj : ∀ (u : Nat) (x : Job), s.jobs[u]? = some x →
        ∃ x' : Job, (s.jobs ++ newJobs s.th.length js)[u]? = some x' ∧ jinfo x' = jinfo x ∧
          (∀ q : Nat, x.seq = some q → x'.seq = some q) := by
      intro u x hx
      exact ⟨x, by rw [List.getElem?_append_left (lt_of_getElem? hx)]; exact hx, rfl, fun _ h => h⟩
    refine ⟨hi', hR.limit, ?_, by simp [hR.clen], ?_, ?_⟩
    · simp only [List.map_append, newJobs_view, hR.jobs]
    · intro t' ts c h1 hc'
      simp only at h1 hc'
      rcases getElem?_snoc_cases _ _ _ _ h1 with ⟨hlt, h1'⟩ | ⟨e, rfl⟩
      · rw [List.getElem?_append_left (by rw [hR.clen]; exact hlt)] at hc'
        exact crel_move' kj rfl (tsame_refl _) (hR.calls t' ts c h1' hc')
      · subst e
        rw [← hR.clen, List.getElem?_append_right (Nat.le_refl _)] at hc'
        simp at hc'; subst hc'
        refine ⟨rfl, ?_, by simp [TS.wiN0], by simp [TS.isWS], ?_, ?_⟩
        · exact (cx_fresh hR).symm
        · intro q r ch e; cases e
        · intro n0 e; simp [TS.wiN0] at e
    · intro t' ht'
      have := hR.cxlt t' ht'
      simp; omega

theorem fold_push_cx (js : List Nat) (s : St) : (js.foldl pushInit s).cx = s.cx := by
  induction js generalizing s with
  | nil => rfl
  | cons j rest ih => simp only [List.foldl_cons]; rw [ih]; rfl

theorem update_cx (n : Nat) (s : St) : (update s n).cx = s.cx := by
  induction n generalizing s with
  | zero => rfl
  | succ n ih =>
    unfold update
    split
    · split
      · rfl
      · rw [ih]
    · rfl

end UtilModel.Conc
