import UtilModel.Conc.Proofs3
import UtilModel.Conc.Monitors
/-!
# conc — simulation between the model and the monitor (without the enqueue-order clause)
-/
namespace UtilModel.Conc
open UtilModel

def JS.waiting : JS → Bool
  | .fresh | .queued | .assigned => true
  | _ => false

/-- what the history shows of a job (a nil job is never seen to start) -/
def jview (jb : Job) : JM :=
  match jb.st with
  | .active => .active
  | .finished => if jb.isNil then .unstarted else .finished
  | _ => .unstarted

def jinfo (jb : Job) : JInfo := { call := jb.owner, isNil := jb.isNil, st := jview jb }

theorem jview_waiting (jb : Job) (h : jb.st.waiting = true) : jview jb = .unstarted := by
  unfold jview; cases hs : jb.st <;> simp [hs, JS.waiting] at h ⊢

def TS.isFinished : TS → Bool
  | .finished => true
  | _ => false

def TS.wiN0 : TS → Option Nat
  | .wiInv n | .wiParked n _ | .wiDone _ n => some n
  | _ => none

def TS.isWS : TS → Bool
  | .wsInv | .wsCb _ _ _ | .wsParked _ _ _ | .wsDone _ => true
  | _ => false

/-- relation between a call of the model and the monitor's record of it -/
structure CRel (s : St) (t : Nat) (ts : TS) (c : CInfo) : Prop where
  ret : c.returned = ts.isFinished
  canc : c.cancelled = s.cx.contains t
  kwi : ts.wiN0.isSome = true → c.kind = .wi
  kws : ts.isWS = true → c.kind = .ws
  last : ∀ (q r : Int) (ch : Nat), ts = .wsParked q r ch → c.last = some (q, r)
  snapWI : ∀ n0 : Nat, ts.wiN0 = some n0 → ∀ j : Nat, j ∈ c.snap →
            ∃ (jb : Job) (q : Nat), s.jobs[j]? = some jb ∧ jb.seq = some q ∧ q < n0 ∧ jb.isNil = false

structure RelC18 (s : St) (ms : C18St) : Prop where
  inv : Inv s
  limit : ms.limit = if s.created then some s.limit else none
  jobs : ms.jobs = s.jobs.map jinfo
  clen : ms.calls.length = s.th.length
  calls : ∀ (t : Nat) (ts : TS) (c : CInfo), s.th[t]? = some ts → ms.calls[t]? = some c → CRel s t ts c
  cxlt : ∀ t : Nat, s.cx.contains t = true → t < s.th.length

theorem relC18_init : RelC18 model.init (monC18g false).init :=
  ⟨init_inv, rfl, rfl, rfl, by intro t ts c h; simp [model] at h, by intro t h; simp [model] at h⟩

/-- the jobs of `s1` are those of `s` up to changes the history cannot see (a waiting job stays
waiting; sequence numbers already given are kept) -/
structure Kept (s s1 : St) : Prop where
  len : s1.jobs.length = s.jobs.length
  job : ∀ (u : Nat) (x : Job), s.jobs[u]? = some x →
          ∃ x' : Job, s1.jobs[u]? = some x' ∧ jinfo x' = jinfo x ∧ (∀ q : Nat, x.seq = some q → x'.seq = some q)

theorem kept_refl (s : St) : Kept s s := ⟨rfl, fun _ x h => ⟨x, h, rfl, fun _ hq => hq⟩⟩

theorem kept_trans {s s1 s2 : St} (a : Kept s s1) (b : Kept s1 s2) : Kept s s2 := by
  refine ⟨by rw [b.len, a.len], ?_⟩
  intro u x hx
  obtain ⟨x1, h1, e1, q1⟩ := a.job u x hx
  obtain ⟨x2, h2, e2, q2⟩ := b.job u x1 h1
  exact ⟨x2, h2, by rw [e2, e1], fun q hq => q2 q (q1 q hq)⟩

theorem kept_map {s s1 : St} (k : Kept s s1) : s1.jobs.map jinfo = s.jobs.map jinfo := by
  apply List.ext_getElem?
  intro u
  simp only [List.getElem?_map]
  cases hx : s.jobs[u]? with
  | none =>
    have : s1.jobs[u]? = none := by
      rw [List.getElem?_eq_none_iff] at hx ⊢; rw [k.len]; exact hx
    simp [this]
  | some x =>
    obtain ⟨x', h1, e1, _⟩ := k.job u x hx
    simp [h1, e1]

/-- one job is replaced by a job that looks the same to the history -/
theorem kept_set (s : St) (jobs' : List Job) (j : Nat) (x x' : Job) (hj : s.jobs[j]? = some x)
    (hjobs : jobs' = s.jobs.set j x') (hv : jinfo x' = jinfo x)
    (hq : ∀ q : Nat, x.seq = some q → x'.seq = some q) (s1 : St) (h1 : s1.jobs = jobs') : Kept s s1 := by
  refine ⟨by rw [h1, hjobs]; simp, ?_⟩
  intro u y hy
  rw [h1, hjobs]
  by_cases hu : j = u
  · subst hu
    rw [hj] at hy; cases hy
    exact ⟨x', getElem?_set_self' _ _ _ _ hj, hv, hq⟩
  · exact ⟨y, by rw [getElem?_set_ne' _ _ _ _ hu]; exact hy, rfl, fun _ h => h⟩


theorem jinfo_waiting (x : Job) (st' : JS) (sq : Option Nat) (h : x.st.waiting = true) (h' : st'.waiting = true) :
    jinfo { x with st := st', seq := sq } = jinfo x := by
  simp only [jinfo, JInfo.mk.injEq, true_and]
  rw [jview_waiting x h, jview_waiting _ (by simpa using h')]

theorem kept_place (s : St) (j : Nat) (jb : Job) (hj : s.jobs[j]? = some jb) (hf : jb.st = .fresh)
    (hsq : jb.seq = none) : Kept s (place s j) := by
  unfold place
  split
  · exact kept_set s _ j jb _ hj (setJob_eq hj _ _) (jinfo_waiting jb _ _ (by rw [hf]; rfl) rfl)
      (by intro q hq; rw [hsq] at hq; cases hq) _ rfl
  · exact kept_set s _ j jb _ hj (setJob_eq hj _ _) (jinfo_waiting jb _ _ (by rw [hf]; rfl) rfl)
      (by intro q hq; rw [hsq] at hq; cases hq) _ rfl

theorem fold_place_kept (js : List Nat) (s : St) (hJ : JInv s)
    (hfr : ∀ j : Nat, j ∈ js → ∃ jb : Job, s.jobs[j]? = some jb ∧ jb.st = .fresh) (hnd : js.Nodup) :
    Kept s (js.foldl place s) := by
  induction js generalizing s with
  | nil => exact kept_refl s
  | cons j rest ih =>
    obtain ⟨jb, hj, hf⟩ := hfr j (by simp)
    obtain ⟨hJ1, F1⟩ := place_step s j jb hJ hj hf
    rw [List.nodup_cons] at hnd
    have hfr1 : ∀ u : Nat, u ∈ rest → ∃ x : Job, (place s j).jobs[u]? = some x ∧ x.st = .fresh := by
      intro u hu
      obtain ⟨x, hx, hxf⟩ := hfr u (by simp [hu])
      have : u ∉ [j] := by intro e; simp at e; subst e; exact hnd.1 hu
      exact ⟨x, by rw [F1.other u this]; exact hx, hxf⟩
    simp only [List.foldl_cons]
    exact kept_trans (kept_place s j jb hj hf ((hJ.seqs j jb hj).1.mp hf)) (ih (place s j) hJ1 hfr1 hnd.2)

theorem kept_pushInit (s : St) (j : Nat) (jb : Job) (hj : s.jobs[j]? = some jb) (hf : jb.st = .fresh)
    (hsq : jb.seq = none) : Kept s (pushInit s j) :=
  kept_set s _ j jb _ hj (setJob_eq hj _ _) (jinfo_waiting jb _ _ (by rw [hf]; rfl) rfl)
    (by intro q hq; rw [hsq] at hq; cases hq) _ rfl

theorem fold_push_kept (js : List Nat) (s : St) (hJ : JInv0 s)
    (hfr : ∀ j : Nat, j ∈ js → ∃ jb : Job, s.jobs[j]? = some jb ∧ jb.st = .fresh) (hnd : js.Nodup) :
    Kept s (js.foldl pushInit s) := by
  induction js generalizing s with
  | nil => exact kept_refl s
  | cons j rest ih =>
    obtain ⟨jb, hj, hf⟩ := hfr j (by simp)
    have hJ1 : JInv0 (pushInit s j) := jinv0_enq s j jb hJ hj hf
    have hother : ∀ u : Nat, u ≠ j → (pushInit s j).jobs[u]? = s.jobs[u]? := by
      intro u hu
      simp only [pushInit, setJob_eq hj]
      exact getElem?_set_ne' _ _ _ _ (fun e => hu e.symm)
    rw [List.nodup_cons] at hnd
    have hfr1 : ∀ u : Nat, u ∈ rest → ∃ x : Job, (pushInit s j).jobs[u]? = some x ∧ x.st = .fresh := by
      intro u hu
      obtain ⟨x, hx, hxf⟩ := hfr u (by simp [hu])
      have : u ≠ j := by intro e; subst e; exact hnd.1 hu
      exact ⟨x, by rw [hother u this]; exact hx, hxf⟩
    simp only [List.foldl_cons]
    exact kept_trans (kept_pushInit s j jb hj hf ((hJ.seqs j jb hj).1.mp hf)) (ih (pushInit s j) hJ1 hfr1 hnd.2)

/-- a queued job is handed to a worker -/
theorem kept_assign (s : St) (j : Nat) (jb : Job) (hj : s.jobs[j]? = some jb) (hst : jb.st = .queued)
    (s1 : St) (h1 : s1.jobs = setJobSt s.jobs j .assigned) : Kept s s1 := by
  refine kept_set s _ j jb { jb with st := .assigned } hj (setJobSt_eq hj _) ?_ (fun _ h => h) s1 h1
  have := jinfo_waiting jb .assigned jb.seq (by rw [hst]; rfl) rfl
  simpa using this

theorem update_kept (n : Nat) (s : St) (h : JInv0 s) : Kept s (update s n) := by
  induction n generalizing s with
  | zero => exact kept_refl s
  | succ n ih =>
    unfold update
    split
    · rename_i hr
      split
      · exact kept_refl s
      · rename_i j rest hq
        obtain ⟨jb, hj, hst, _⟩ := queue_head s h j rest hq
        exact kept_trans (kept_assign s j jb hj hst _ rfl) (ih _ (jinv0_popNew s j rest h hq hr))
    · exact kept_refl s


/-- the monitor's record does not distinguish these call states -/
def TSame (ts ts1 : TS) : Prop :=
  ts1.isFinished = ts.isFinished ∧ ts1.wiN0 = ts.wiN0 ∧ ts1.isWS = ts.isWS ∧
  ∀ (q r : Int) (ch : Nat), ts1 = .wsParked q r ch → ts = .wsParked q r ch

theorem tsame_refl (ts : TS) : TSame ts ts := ⟨rfl, rfl, rfl, fun _ _ _ h => h⟩

theorem crel_move' {s s1 : St} {t : Nat} {ts ts1 : TS} {c : CInfo}
    (kj : ∀ (u : Nat) (x : Job), s.jobs[u]? = some x →
          ∃ x' : Job, s1.jobs[u]? = some x' ∧ x'.isNil = x.isNil ∧ (∀ q : Nat, x.seq = some q → x'.seq = some q))
    (hcx : s1.cx.contains t = s.cx.contains t)
    (hts : TSame ts ts1) (h : CRel s t ts c) : CRel s1 t ts1 c := by
  obtain ⟨e1, e2, e3, e4⟩ := hts
  refine ⟨by rw [h.ret, e1], by rw [h.canc, hcx], by rw [e2]; exact h.kwi, by rw [e3]; exact h.kws, ?_, ?_⟩
  · intro q r ch hp; exact h.last q r ch (e4 q r ch hp)
  · intro n0 hn j hj
    rw [e2] at hn
    obtain ⟨jb, q, a, b, c', d⟩ := h.snapWI n0 hn j hj
    obtain ⟨x', h1, hv, hq⟩ := kj j jb a
    exact ⟨x', q, h1, hq q b, c', by rw [hv]; exact d⟩

theorem crel_move {s s1 : St} {t : Nat} {ts ts1 : TS} {c : CInfo} (k : Kept s s1) (hcx : s1.cx = s.cx)
    (hts : TSame ts ts1) (h : CRel s t ts c) : CRel s1 t ts1 c :=
  crel_move' (fun u x hx => by
    obtain ⟨x', a, b, c⟩ := k.job u x hx
    have := congrArg JInfo.isNil b
    exact ⟨x', a, this, c⟩) (by rw [hcx]) hts h

/-- an internal step: the monitor state is unchanged -/
theorem rel_internal (s s1 : St) (ms : C18St) (hR : RelC18 s ms) (hi1 : Inv s1) (k : Kept s s1)
    (hcx : s1.cx = s.cx) (hcr : s1.created = s.created) (hlim : s1.limit = s.limit)
    (hlen : s1.th.length = s.th.length)
    (hth : ∀ (t : Nat) (ts1 : TS), s1.th[t]? = some ts1 → ∃ ts : TS, s.th[t]? = some ts ∧ TSame ts ts1) :
    RelC18 s1 ms := by
  refine ⟨hi1, by rw [hR.limit, hcr, hlim], by rw [hR.jobs, kept_map k], by rw [hR.clen, hlen], ?_,
    by rw [hcx, hlen]; exact hR.cxlt⟩
  intro t ts1 c h1 hc
  obtain ⟨ts, h0, hsame⟩ := hth t ts1 h1
  exact crel_move k hcx hsame (hR.calls t ts c h0 hc)

/-- thread table after `set`: every entry is the old one or the replaced one -/
theorem th_set_same (th : List TS) (t0 : Nat) (a b : TS) (ha : th[t0]? = some a) (hab : TSame a b) :
    ∀ (t : Nat) (ts1 : TS), (th.set t0 b)[t]? = some ts1 → ∃ ts : TS, th[t]? = some ts ∧ TSame ts ts1 := by
  intro t ts1 h
  rcases getElem?_set_cases _ _ _ _ _ h with ⟨e, rfl⟩ | ⟨_, h'⟩
  · exact ⟨a, by rw [e]; exact ha, hab⟩
  · exact ⟨ts1, h', tsame_refl _⟩


theorem kept_th (s : St) (th : List TS) (cx : List Nat) (mail : List (Nat × Msg)) (bc : Bcast) :
    Kept s { s with th := th, cx := cx, mail := mail, bc := bc } :=
  ⟨rfl, fun _ x h => ⟨x, h, rfl, fun _ hq => hq⟩⟩

theorem sim_wiSample (s : St) (t n0 : Nat) (a : TS) (ms : C18St) (hR : RelC18 s ms) (ha : s.th[t]? = some a)
    (hn : a.wiN0 = some n0) (hf : a.isFinished = false) (hws : a.isWS = false)
    (hi' : Inv (wiSample s t n0)) : RelC18 (wiSample s t n0) ms := by
  have hnp : ∀ (q r : Int) (ch : Nat), a ≠ .wsParked q r ch := by
    intro q r ch e; rw [e] at hws; simp [TS.isWS] at hws
  by_cases hid : s.running = 0 ∧ s.qsize = 0
  · rw [wiSample, if_pos hid] at hi' ⊢
    exact rel_internal s _ ms hR hi' (kept_th s _ s.cx s.mail s.bc) rfl rfl rfl (by simp)
      (th_set_same s.th t _ _ ha ⟨by rw [hf]; rfl, by rw [hn]; rfl, by rw [hws]; rfl, by intro q r ch h; cases h⟩)
  · rw [wiSample, if_neg hid] at hi' ⊢
    exact rel_internal s _ ms hR hi' (kept_th s _ s.cx s.mail _) rfl rfl rfl (by simp)
      (th_set_same s.th t _ _ ha ⟨by rw [hf]; rfl, by rw [hn]; rfl, by rw [hws]; rfl, by intro q r ch h; cases h⟩)

theorem sim_internal (s : St) (e : Ev) (s' : St) (ms : C18St) (hR : RelC18 s ms)
    (hs : step s e = some s') (hobs : e.obs = none) : RelC18 s' ms := by
  have hi' := step_inv s e s' hR.inv hs
  have hi := hR.inv
  cases e with
  | enqCS t =>
    simp only [step] at hs; split at hs <;> simp at hs; subst hs
    rename_i js ha
    have hT := hi.th t _ ha
    simp only [TSInv] at hT
    have hfr : ∀ j : Nat, j ∈ js → ∃ jb : Job, s.jobs[j]? = some jb ∧ jb.st = .fresh := fun j hj => by
      obtain ⟨jb, a, b, _⟩ := hT j hj; exact ⟨jb, a, b⟩
    have hnd := hi.nodup t js ha
    obtain ⟨_, F⟩ := fold_place js s hi.toJInv hfr hnd
    have k := fold_place_kept js s hi.toJInv hfr hnd
    refine rel_internal s _ ms hR hi' ⟨k.len, k.job⟩ F.cx F.created F.limit (by simp [F.th]) ?_
    simp only [F.th]
    exact th_set_same s.th t _ _ ha ⟨rfl, rfl, rfl, by intro q r ch h; cases h⟩
  | skipNil w =>
    simp only [step] at hs; split at hs <;> try simp at hs
    rename_i j hw
    split at hs <;> try simp at hs
    rename_i jb hj
    obtain ⟨hnil, rfl⟩ := hs
    obtain ⟨x, hx, hst⟩ := hi.hasJ w j hw
    rw [hj] at hx; cases hx
    have k : Kept s { s with ws := s.ws.set w .afterJob, jobs := setJobSt s.jobs j .finished } := by
      refine kept_set s _ j jb { jb with st := .finished } hj (setJobSt_eq hj _) ?_ (fun _ h => h) _ rfl
      simp [jinfo, jview, hst, hnil]
    exact rel_internal s _ ms hR hi' k rfl rfl rfl rfl (fun t ts1 h => ⟨ts1, h, tsame_refl _⟩)
  | popCS w =>
    simp only [step] at hs; split at hs <;> try simp at hs
    rename_i hw
    split at hs <;> simp at hs <;> subst hs
    · exact rel_internal s _ ms hR hi' ⟨rfl, fun _ x h => ⟨x, h, rfl, fun _ hq => hq⟩⟩ rfl rfl rfl rfl
        (fun t ts1 h => ⟨ts1, h, tsame_refl _⟩)
    · rename_i j rest hq
      obtain ⟨jb, hj, hst, _⟩ := queue_head s hi.toJInv0 j rest hq
      exact rel_internal s _ ms hR hi' (kept_assign s j jb hj hst _ rfl) rfl rfl rfl rfl
        (fun t ts1 h => ⟨ts1, h, tsame_refl _⟩)
  | wiCS t =>
    simp only [step] at hs; split at hs <;> try simp at hs
    · subst hs; rename_i n0 ha
      exact sim_wiSample s t n0 _ ms hR ha rfl rfl rfl hi'
    · obtain ⟨_, rfl⟩ := hs; rename_i n0 ch ha _
      exact sim_wiSample s t n0 _ ms hR ha rfl rfl rfl hi'
  | wiCtx t =>
    simp only [step] at hs; split at hs <;> simp at hs
    obtain ⟨_, rfl⟩ := hs; rename_i n0 ch ha _
    exact rel_internal s _ ms hR hi' (kept_th s _ s.cx s.mail s.bc) rfl rfl rfl (by simp)
      (th_set_same s.th t _ _ ha ⟨rfl, rfl, rfl, by intro q r ch h; cases h⟩)
  | wiErr t =>
    simp only [step] at hs; split at hs <;> try simp at hs
    rename_i n0 ch ha
    split at hs <;> simp at hs <;> subst hs
    · exact rel_internal s _ ms hR hi' (kept_th s _ s.cx _ s.bc) rfl rfl rfl (by simp)
        (th_set_same s.th t _ _ ha ⟨rfl, rfl, rfl, by intro q r ch h; cases h⟩)
    · exact rel_internal s _ ms hR hi' (kept_th s _ s.cx _ s.bc) rfl rfl rfl (by simp)
        (th_set_same s.th t _ _ ha ⟨rfl, rfl, rfl, by intro q r ch h; cases h⟩)
    · exact rel_internal s _ ms hR hi' (kept_th s _ s.cx s.mail s.bc) rfl rfl rfl (by simp)
        (th_set_same s.th t _ _ ha ⟨rfl, rfl, rfl, by intro q r ch h; cases h⟩)
  | wsCS t =>
    simp only [step] at hs; split at hs <;> try simp at hs
    · subst hs; rename_i ha
      exact rel_internal s _ ms hR hi' (kept_th s _ s.cx s.mail _) rfl rfl rfl (by simp [wsSample])
        (th_set_same s.th t _ _ ha ⟨rfl, rfl, rfl, by intro q r ch h; cases h⟩)
    · obtain ⟨_, rfl⟩ := hs; rename_i q r ch ha _
      exact rel_internal s _ ms hR hi' (kept_th s _ s.cx s.mail _) rfl rfl rfl (by simp [wsSample])
        (th_set_same s.th t _ _ ha ⟨rfl, rfl, rfl, by intro q r ch h; cases h⟩)
  | wsCtx t =>
    simp only [step] at hs; split at hs <;> simp at hs
    obtain ⟨_, rfl⟩ := hs; rename_i q r ch ha _
    exact rel_internal s _ ms hR hi' (kept_th s _ s.cx s.mail s.bc) rfl rfl rfl (by simp)
      (th_set_same s.th t _ _ ha ⟨rfl, rfl, rfl, by intro q r ch h; cases h⟩)
  | invNew _ _ _ => simp [Ev.obs] at hobs
  | retNew _ => simp [Ev.obs] at hobs
  | invEnq _ _ => simp [Ev.obs] at hobs
  | retEnq _ _ _ => simp [Ev.obs] at hobs
  | jobIn _ _ => simp [Ev.obs] at hobs
  | jobOut _ _ => simp [Ev.obs] at hobs
  | invWI _ => simp [Ev.obs] at hobs
  | retWI _ _ => simp [Ev.obs] at hobs
  | invWS _ _ => simp [Ev.obs] at hobs
  | cbWS _ _ _ _ => simp [Ev.obs] at hobs
  | retWS _ _ => simp [Ev.obs] at hobs
  | envCancel _ => simp [Ev.obs] at hobs
  | envErr _ _ => simp [Ev.obs] at hobs
  | quiesce _ _ => simp [Ev.obs] at hobs


theorem calls_get {s : St} {ms : C18St} (hR : RelC18 s ms) {t : Nat} {ts : TS} (ha : s.th[t]? = some ts) :
    ∃ c : CInfo, ms.calls[t]? = some c := by
  have hlt := lt_of_getElem? ha
  rw [← hR.clen] at hlt
  exact ⟨ms.calls[t], List.getElem?_eq_getElem hlt⟩

theorem setCall_eq {ms : C18St} {t : Nat} {c : CInfo} (hc : ms.calls[t]? = some c) (f : CInfo → CInfo) :
    ms.setCall t f = { ms with calls := ms.calls.set t (f c) } := by simp [C18St.setCall, hc]

/-- call `t0` moves to `ts'`, its record becomes `c'`; jobs are kept, contexts unchanged -/
theorem rel_set (s s1 : St) (ms : C18St) (t0 : Nat) (ts' : TS) (c' : CInfo) (hR : RelC18 s ms) (hi1 : Inv s1)
    (k : Kept s s1) (hcx : s1.cx = s.cx) (hcr : s1.created = s.created) (hlim : s1.limit = s.limit)
    (hth : s1.th = s.th.set t0 ts') (hnew : CRel s1 t0 ts' c') :
    RelC18 s1 { ms with calls := ms.calls.set t0 c' } := by
  refine ⟨hi1, by rw [hR.limit, hcr, hlim], by rw [hR.jobs, kept_map k], by simp [hR.clen, hth], ?_,
    by rw [hcx, hth]; simpa using hR.cxlt⟩
  intro t ts c h1 hc
  rw [hth] at h1
  simp only at hc
  rcases getElem?_set_cases _ _ _ _ _ h1 with ⟨e, rfl⟩ | ⟨hne, h1'⟩
  · subst e
    rcases getElem?_set_cases _ _ _ _ _ hc with ⟨_, rfl⟩ | ⟨hne, _⟩
    · exact hnew
    · exact absurd rfl hne
  · rw [getElem?_set_ne' _ _ _ _ (fun e => hne e.symm)] at hc
    exact crel_move k hcx (tsame_refl _) (hR.calls t ts c h1' hc)

/-- a new call is invoked (jobs kept, possibly extended by the caller of this lemma beforehand) -/
theorem rel_append (s s1 : St) (ms : C18St) (ts' : TS) (c' : CInfo) (hR : RelC18 s ms) (hi1 : Inv s1)
    (k : Kept s s1) (hjobs : s1.jobs = s.jobs) (hcx : s1.cx = s.cx) (hcr : s1.created = s.created)
    (hlim : s1.limit = s.limit) (hth : s1.th = s.th ++ [ts']) (hnew : CRel s1 s.th.length ts' c') :
    RelC18 s1 { ms with calls := ms.calls ++ [c'] } := by
  refine ⟨hi1, by rw [hR.limit, hcr, hlim], by rw [hR.jobs, hjobs], by simp [hR.clen, hth], ?_,
    by rw [hcx, hth]; intro t ht; have := hR.cxlt t ht; simp; omega⟩
  intro t ts c h1 hc
  rw [hth] at h1
  simp only at hc
  rcases getElem?_snoc_cases _ _ _ _ h1 with ⟨hlt, h1'⟩ | ⟨e, rfl⟩
  · rw [List.getElem?_append_left (by rw [hR.clen]; exact hlt)] at hc
    exact crel_move k hcx (tsame_refl _) (hR.calls t ts c h1' hc)
  · subst e
    rw [← hR.clen, List.getElem?_append_right (Nat.le_refl _)] at hc
    simp at hc; subst hc
    exact hnew

theorem pairOK_of (L q r : Int) (h : PairOK L q r) : pairOK L q r = true := by
  unfold pairOK
  exact decide_eq_true h


theorem limit_some {s : St} {ms : C18St} (hR : RelC18 s ms) {t : Nat} {ts : TS} (ha : s.th[t]? = some ts) :
    ms.limit = some s.limit := by
  rw [hR.limit, created_of_th s hR.inv.toTInv t ts ha]; rfl

theorem crel_finish {s : St} {t : Nat} {ts : TS} {c : CInfo} (h : CRel s t ts c) (th' : List TS) :
    CRel { s with th := th' } t .finished { c with returned := true } := by
  refine ⟨rfl, h.canc, by simp [TS.wiN0], by simp [TS.isWS], ?_, ?_⟩
  · intro q r ch e; cases e
  · intro n0 e; simp [TS.wiN0] at e

/-- a call returns: `th[t] := finished`, the monitor marks it returned -/
theorem sim_ret (s : St) (ms : C18St) (t : Nat) (ts : TS) (hR : RelC18 s ms) (ha : s.th[t]? = some ts)
    (hi' : Inv { s with th := s.th.set t .finished }) :
    ∃ c : CInfo, ms.calls[t]? = some c ∧
      RelC18 { s with th := s.th.set t .finished } (ms.setCall t fun c => { c with returned := true }) := by
  obtain ⟨c, hc⟩ := calls_get hR ha
  refine ⟨c, hc, ?_⟩
  rw [setCall_eq hc]
  exact rel_set s _ ms t .finished _ hR hi' (kept_th s _ s.cx s.mail s.bc) rfl rfl rfl rfl
    (crel_finish (hR.calls t ts c ha hc) _)

theorem sim_retNew (s : St) (t : Nat) (s' : St) (ms : C18St) (hR : RelC18 s ms)
    (hs : step s (.retNew t) = some s') :
    ∃ ms', (monC18g false).step ms (.retNew t) = some ms' ∧ RelC18 s' ms' := by
  have hi' := step_inv s _ s' hR.inv hs
  simp only [step] at hs; split at hs <;> simp at hs; subst hs
  rename_i ha
  obtain ⟨c, hc, hrel⟩ := sim_ret s ms t _ hR ha hi'
  exact ⟨_, rfl, hrel⟩

theorem sim_retEnq (s : St) (t : Nat) (q r : Int) (s' : St) (ms : C18St) (hR : RelC18 s ms)
    (hs : step s (.retEnq t q r) = some s') :
    ∃ ms', (monC18g false).step ms (.retEnq t q r) = some ms' ∧ RelC18 s' ms' := by
  have hi' := step_inv s _ s' hR.inv hs
  simp only [step] at hs; split at hs <;> simp at hs
  rename_i q' r' ha
  obtain ⟨⟨rfl, rfl⟩, rfl⟩ := hs
  obtain ⟨c, hc, hrel⟩ := sim_ret s ms t _ hR ha hi'
  have hp : PairOK s.limit q r := hR.inv.th t _ ha
  refine ⟨_, ?_, hrel⟩
  simp [monC18g, limit_some hR ha, pairOK_of _ _ _ hp]

theorem sim_retWS (s : St) (t : Nat) (r : Res) (s' : St) (ms : C18St) (hR : RelC18 s ms)
    (hs : step s (.retWS t r) = some s') :
    ∃ ms', (monC18g false).step ms (.retWS t r) = some ms' ∧ RelC18 s' ms' := by
  have hi' := step_inv s _ s' hR.inv hs
  simp only [step] at hs; split at hs <;> simp at hs
  rename_i r' ha
  obtain ⟨rfl, rfl⟩ := hs
  obtain ⟨c, hc, hrel⟩ := sim_ret s ms t _ hR ha hi'
  exact ⟨_, rfl, hrel⟩

theorem isFinished_view {s : St} {ms : C18St} (hR : RelC18 s ms) (j : Nat) (jb : Job)
    (hj : s.jobs[j]? = some jb) (hf : jb.st = .finished) (hn : jb.isNil = false) : ms.isFinished j = true := by
  simp [C18St.isFinished, hR.jobs, hj, jinfo, jview, hf, hn]

theorem sim_retWI (s : St) (t : Nat) (r : Res) (s' : St) (ms : C18St) (hR : RelC18 s ms)
    (hs : step s (.retWI t r) = some s') :
    ∃ ms', (monC18g false).step ms (.retWI t r) = some ms' ∧ RelC18 s' ms' := by
  have hi' := step_inv s _ s' hR.inv hs
  simp only [step] at hs; split at hs <;> simp at hs
  rename_i r' n0 ha
  obtain ⟨rfl, rfl⟩ := hs
  obtain ⟨c, hc, hrel⟩ := sim_ret s ms t _ hR ha hi'
  have hcr := hR.calls t _ c ha hc
  have hsnap : r = .nil → c.snap.all ms.isFinished = true := by
    intro hr; subst hr
    rw [List.all_eq_true]
    intro j hj
    obtain ⟨jb, q, a, b, c', d⟩ := hcr.snapWI n0 rfl j hj
    have hfin := (hR.inv.th t _ ha).2 rfl j jb q a b c'
    exact isFinished_view hR j jb a hfin d
  refine ⟨_, ?_, hrel⟩
  simp only [monC18g, hc]
  rw [if_pos hsnap]


theorem cx_fresh {s : St} {ms : C18St} (hR : RelC18 s ms) : s.cx.contains s.th.length = false := by
  cases h : s.cx.contains s.th.length
  · rfl
  · have := hR.cxlt _ h; omega

/-- a job the monitor regards as settled (non-nil, its call returned) has had its enqueue step -/
theorem settled_seq {s : St} {ms : C18St} (hR : RelC18 s ms) (p : JM → Bool) (j : Nat)
    (hj : j ∈ ms.settled p) :
    ∃ (jb : Job) (q : Nat), s.jobs[j]? = some jb ∧ jb.seq = some q ∧ q < s.nseq ∧ jb.isNil = false := by
  simp only [C18St.settled, List.mem_filter, List.mem_range] at hj
  obtain ⟨_, hcond⟩ := hj
  rw [hR.jobs] at hcond
  simp only [List.getElem?_map] at hcond
  cases hjb : s.jobs[j]? with
  | none => simp [hjb] at hcond
  | some jb =>
    simp only [hjb, Option.map_some, jinfo, Bool.and_eq_true, Bool.not_eq_true'] at hcond
    obtain ⟨⟨hnil, _⟩, hret⟩ := hcond
    -- the owner call has returned: its state is `finished`
    simp only [C18St.callReturned] at hret
    cases hc : ms.calls[jb.owner]? with
    | none => simp [hc] at hret
    | some c =>
      simp only [hc] at hret
      have hlt : jb.owner < s.th.length := by rw [← hR.clen]; exact lt_of_getElem? hc
      have hts : s.th[jb.owner]? = some s.th[jb.owner] := List.getElem?_eq_getElem hlt
      have hcr := hR.calls jb.owner _ c hts hc
      have hfin : s.th[jb.owner].isFinished = true := by rw [← hcr.ret]; exact hret
      have hnf : jb.st ≠ .fresh := by
        intro hf
        obtain ⟨js, h1, _⟩ := hR.inv.fresh j jb hjb hf
        have heq : s.th[jb.owner] = .enqInv js := by
          have h2 := h1; rw [hts] at h2; exact Option.some.inj h2
        rw [heq] at hfin; simp [TS.isFinished] at hfin
      obtain ⟨a, b⟩ := hR.inv.seqs j jb hjb
      cases hsq : jb.seq with
      | none => exact absurd (a.mpr hsq) hnf
      | some q => exact ⟨jb, q, rfl, hsq, (b q hsq).1, hnil⟩

theorem sim_invWI (s : St) (t : Nat) (s' : St) (ms : C18St) (hR : RelC18 s ms)
    (hs : step s (.invWI t) = some s') :
    ∃ ms', (monC18g false).step ms (.invWI t) = some ms' ∧ RelC18 s' ms' := by
  have hi' := step_inv s _ s' hR.inv hs
  simp only [step] at hs; split at hs <;> simp at hs; subst hs
  rename_i hc
  obtain ⟨hcr, rfl⟩ := hc
  refine ⟨{ ms with calls := ms.calls ++ [{ kind := .wi, snap := ms.settled (· != .finished) }] },
    by simp [monC18g, hR.clen], ?_⟩
  refine rel_append s _ ms _ _ hR hi' (kept_th s _ s.cx s.mail s.bc) rfl rfl rfl rfl rfl ?_
  refine ⟨rfl, (cx_fresh hR).symm, fun _ => rfl, by simp [TS.isWS], ?_, ?_⟩
  · intro q r ch e; cases e
  · intro n0 hn j hj
    simp [TS.wiN0] at hn; subst hn
    have hj' : j ∈ ms.settled (· != .finished) := hj
    exact settled_seq hR _ j hj'

theorem sim_invWS (s : St) (t : Nat) (nilcb : Bool) (s' : St) (ms : C18St) (hR : RelC18 s ms)
    (hs : step s (.invWS t nilcb) = some s') :
    ∃ ms', (monC18g false).step ms (.invWS t nilcb) = some ms' ∧ RelC18 s' ms' := by
  have hi' := step_inv s _ s' hR.inv hs
  simp only [step] at hs; split at hs <;> simp at hs; subst hs
  rename_i hc
  obtain ⟨hcr, rfl⟩ := hc
  refine ⟨{ ms with calls := ms.calls ++ [{ kind := .ws }] }, by simp [monC18g, hR.clen], ?_⟩
  refine rel_append s _ ms _ _ hR hi' (kept_th s _ s.cx s.mail s.bc) rfl rfl rfl rfl rfl ?_
  refine ⟨by cases nilcb <;> rfl, (cx_fresh hR).symm, by cases nilcb <;> simp [TS.wiN0], fun _ => rfl, ?_, ?_⟩
  · intro q r ch e; cases nilcb <;> cases e
  · intro n0 hn; cases nilcb <;> simp [TS.wiN0] at hn

theorem sim_cbWS (s : St) (t : Nat) (q r : Int) (a : Act) (s' : St) (ms : C18St) (hR : RelC18 s ms)
    (hs : step s (.cbWS t q r a) = some s') :
    ∃ ms', (monC18g false).step ms (.cbWS t q r a) = some ms' ∧ RelC18 s' ms' := by
  have hi' := step_inv s _ s' hR.inv hs
  simp only [step] at hs; split at hs <;> simp at hs
  rename_i q' r' ch ha
  obtain ⟨⟨hq, hr⟩, rfl⟩ := hs
  subst hq hr
  obtain ⟨c, hc⟩ := calls_get hR ha
  have hp : PairOK s.limit q r := (hR.inv.th t _ ha).1
  have hcr := hR.calls t _ c ha hc
  refine ⟨ms.setCall t fun c => { c with last := some (q, r) }, ?_, ?_⟩
  · simp [monC18g, limit_some hR ha, pairOK_of _ _ _ hp]
  · rw [setCall_eq hc]
    refine rel_set s _ ms t _ _ hR hi' (kept_th s _ s.cx s.mail s.bc) rfl rfl rfl rfl ?_
    have hk := hcr.kws rfl
    have hret : c.returned = false := by rw [hcr.ret]; rfl
    cases a <;> dsimp only <;> refine ⟨hret, hcr.canc, by simp [TS.wiN0], fun _ => hk, ?_, ?_⟩
    · intro q1 r1 ch1 e; cases e; rfl
    · intro n0 e; simp [TS.wiN0] at e
    · intro q1 r1 ch1 e; cases e
    · intro n0 e; simp [TS.wiN0] at e
    · intro q1 r1 ch1 e; cases e
    · intro n0 e; simp [TS.wiN0] at e

theorem sim_envErr (s : St) (t : Nat) (m : Msg) (s' : St) (ms : C18St) (hR : RelC18 s ms)
    (hs : step s (.envErr t m) = some s') :
    ∃ ms', (monC18g false).step ms (.envErr t m) = some ms' ∧ RelC18 s' ms' := by
  have hi' := step_inv s _ s' hR.inv hs
  simp only [step] at hs; split at hs <;> simp at hs; subst hs
  exact ⟨ms, rfl, rel_internal s _ ms hR hi' (kept_th s s.th s.cx _ s.bc) rfl rfl rfl rfl
    (fun t ts1 h => ⟨ts1, h, tsame_refl _⟩)⟩

theorem sim_envCancel (s : St) (t : Nat) (s' : St) (ms : C18St) (hR : RelC18 s ms)
    (hs : step s (.envCancel t) = some s') :
    ∃ ms', (monC18g false).step ms (.envCancel t) = some ms' ∧ RelC18 s' ms' := by
  have hi' := step_inv s _ s' hR.inv hs
  simp only [step] at hs; split at hs <;> simp at hs; subst hs
  rename_i hlt
  have hts : s.th[t]? = some s.th[t] := List.getElem?_eq_getElem hlt
  obtain ⟨c, hc⟩ := calls_get hR hts
  refine ⟨ms.setCall t fun c => { c with cancelled := true }, rfl, ?_⟩
  rw [setCall_eq hc]
  refine ⟨hi', hR.limit, hR.jobs, by simp [hR.clen], ?_, ?_⟩
  · intro t' ts c' h1 hc'
    simp only at h1 hc'
    rcases getElem?_set_cases _ _ _ _ _ hc' with ⟨e, rfl⟩ | ⟨hne, hc''⟩
    · subst e
      have h0 := hR.calls t' ts c h1 hc
      exact ⟨h0.ret, by simp, h0.kwi, h0.kws, h0.last, h0.snapWI⟩
    · have h0 := hR.calls t' ts c' h1 hc''
      refine ⟨h0.ret, ?_, h0.kwi, h0.kws, h0.last, h0.snapWI⟩
      rw [h0.canc]; simp [List.contains_cons, hne]
  · intro t' ht'
    simp [List.contains_cons] at ht'
    rcases ht' with e | e
    · subst e; exact hlt
    · exact hR.cxlt t' (by simpa using e)


theorem newJobs_view (t : Nat) (js : List (Nat × Bool)) : (newJobs t js).map jinfo = mkJobs t js := by
  simp only [newJobs, mkJobs, List.map_map]
  apply List.map_congr_left
  intro p _
  simp [jinfo, jview]

theorem sim_invEnq (s : St) (t : Nat) (js : List (Nat × Bool)) (s' : St) (ms : C18St) (hR : RelC18 s ms)
    (hs : step s (.invEnq t js) = some s') :
    ∃ ms', (monC18g false).step ms (.invEnq t js) = some ms' ∧ RelC18 s' ms' := by
  have hi' := step_inv s _ s' hR.inv hs
  simp only [step] at hs; split at hs <;> simp at hs; subst hs
  rename_i hc
  obtain ⟨hcr, rfl, hids⟩ := hc
  have hjl : ms.jobs.length = s.jobs.length := by rw [hR.jobs]; simp
  have hlim : ms.limit = some s.limit := by rw [hR.limit, hcr]; rfl
  refine ⟨{ ms with jobs := ms.jobs ++ mkJobs s.th.length js,
                    calls := ms.calls ++ [{ kind := .enq, jobs := js.map (·.1),
                                            snap := ms.settled (· == .unstarted) }] }, ?_, ?_⟩
  · simp [monC18g, hlim, hR.clen, hjl, hids]
  · have kj : ∀ (u : Nat) (x : Job), s.jobs[u]? = some x →
        ∃ x' : Job, (s.jobs ++ newJobs s.th.length js)[u]? = some x' ∧ x'.isNil = x.isNil ∧
          (∀ q : Nat, x.seq = some q → x'.seq = some q) := by
      intro u x hx
      exact ⟨x, by rw [List.getElem?_append_left (lt_of_getElem? hx)]; exact hx, rfl, fun _ h => h⟩
    refine ⟨hi', hR.limit, ?_, by simp [hR.clen], ?_, ?_⟩
    · simp only [List.map_append, newJobs_view, hR.jobs]
    · intro t' ts c h1 hc'
      simp only at h1 hc'
      rcases getElem?_snoc_cases _ _ _ _ h1 with ⟨hlt, h1'⟩ | ⟨e, rfl⟩
      · rw [List.getElem?_append_left (by rw [hR.clen]; exact hlt)] at hc'
        exact crel_move' kj rfl (tsame_refl _) (hR.calls t' ts c h1' hc')
      · subst e
        rw [← hR.clen, List.getElem?_append_right (Nat.le_refl _)] at hc'
        simp at hc'; subst hc'
        refine ⟨rfl, ?_, by simp [TS.wiN0], by simp [TS.isWS], ?_, ?_⟩
        · exact (cx_fresh hR).symm
        · intro q r ch e; cases e
        · intro n0 e; simp [TS.wiN0] at e
    · intro t' ht'
      have := hR.cxlt t' ht'
      simp; omega

theorem fold_push_cx (js : List Nat) (s : St) : (js.foldl pushInit s).cx = s.cx := by
  induction js generalizing s with
  | nil => rfl
  | cons j rest ih => simp only [List.foldl_cons]; rw [ih]; rfl

theorem update_cx (n : Nat) (s : St) : (update s n).cx = s.cx := by
  induction n generalizing s with
  | zero => rfl
  | succ n ih =>
    unfold update
    split
    · split
      · rfl
      · rw [ih]
    · rfl


theorem invNew_shape (s : St) (t : Nat) (L : Int) (js : List (Nat × Bool)) (s' : St) (hi : Inv s)
    (hs : step s (.invNew t L js) = some s') :
    s = {} ∧ t = 0 ∧ idsOK js 0 = true ∧ ∃ s3 : St, (s' = s3 ∨ s' = { s3 with bc := bcast s3.bc }) ∧
      s3.created = true ∧ s3.limit = L ∧ s3.th = [.newDone] ∧ s3.cx = [] ∧
      s3.jobs.map jinfo = mkJobs 0 js := by
  simp only [step] at hs
  split at hs
  case isFalse => simp at hs
  rename_i hc
  obtain ⟨hcr, rfl, hids⟩ := hc
  have hs0 := hi.cre hcr
  subst hs0
  refine ⟨rfl, rfl, hids, ?_⟩
  have hids' : js.map (·.1) = List.range' 0 js.length := by simpa [idsOK] using hids
  simp only [Option.some.injEq] at hs
  have h1 : JInv0 { created := true, limit := L, jobs := newJobs 0 js, th := [.newDone] } := jinv0_start L 0 js
  have hfr : ∀ j : Nat, j ∈ js.map (·.1) → ∃ jb : Job,
      ({ created := true, limit := L, jobs := newJobs 0 js, th := [.newDone] } : St).jobs[j]? = some jb ∧ jb.st = .fresh := by
    intro j hj
    rw [hids'] at hj
    obtain ⟨jb, a, b, _⟩ := newJobs_get [] 0 js j (by simpa using hj)
    exact ⟨jb, by simpa using a, b⟩
  have hnd : (js.map (·.1)).Nodup := by rw [hids']; exact List.nodup_range'
  obtain ⟨h2, F2⟩ := fold_push (js.map (·.1)) _ h1 hfr hnd
  have k2 := fold_push_kept (js.map (·.1)) _ h1 hfr hnd
  obtain ⟨_, F3⟩ := update_inv _ _ h2 (Nat.le_refl _)
  have k3 := update_kept ((js.map (·.1)).foldl pushInit
      { created := true, limit := L, jobs := newJobs 0 js, th := [.newDone] }).queue.length _ h2
  have hcx2 := fold_push_cx (js.map (·.1)) { created := true, limit := L, jobs := newJobs 0 js, th := [.newDone] }
  have hcx3 := update_cx ((js.map (·.1)).foldl pushInit
      { created := true, limit := L, jobs := newJobs 0 js, th := [.newDone] }).queue.length
      ((js.map (·.1)).foldl pushInit { created := true, limit := L, jobs := newJobs 0 js, th := [.newDone] })
  have hmap := kept_map (kept_trans k2 k3)
  have hth3 := F3.th; rw [F2.th] at hth3
  have hcr3 := F3.created; rw [F2.created] at hcr3
  have hl3 := F3.limit; rw [F2.limit] at hl3
  rw [hcx2] at hcx3
  simp only [List.nil_append, List.length_nil] at hs
  generalize hg2 : (js.map (·.1)).foldl pushInit
      { created := true, limit := L, jobs := newJobs 0 js, th := [.newDone] } = s2 at *
  generalize hg3 : update s2 s2.queue.length = s3 at *
  refine ⟨s3, ?_, hcr3, hl3, hth3, hcx3, ?_⟩
  · rw [← hs]; split
    · right; rfl
    · left; rfl
  · rw [hmap]; exact newJobs_view 0 js

theorem sim_invNew (s : St) (t : Nat) (L : Int) (js : List (Nat × Bool)) (s' : St) (ms : C18St) (hR : RelC18 s ms)
    (hs : step s (.invNew t L js) = some s') :
    ∃ ms', (monC18g false).step ms (.invNew t L js) = some ms' ∧ RelC18 s' ms' := by
  have hi' := step_inv s _ s' hR.inv hs
  obtain ⟨rfl, rfl, hids, s3, hs3, hcr, hl, hth, hcx, hmap⟩ := invNew_shape s t L js s' hR.inv hs
  have hlim : ms.limit = none := by rw [hR.limit]; rfl
  have hjobs : ms.jobs = [] := by rw [hR.jobs]; rfl
  have hcalls : ms.calls = [] := List.eq_nil_of_length_eq_zero (by rw [hR.clen]; rfl)
  refine ⟨{ limit := some L, jobs := ms.jobs ++ mkJobs 0 js,
            calls := ms.calls ++ [{ kind := .new, jobs := js.map (·.1) }] }, ?_, ?_⟩
  · simp [monC18g, hlim, hcalls, hjobs, hids]
  · have key : s'.created = true ∧ s'.limit = L ∧ s'.th = [.newDone] ∧ s'.cx = [] ∧
        s'.jobs.map jinfo = mkJobs 0 js := by
      rcases hs3 with e | e <;> subst e <;> exact ⟨hcr, hl, hth, hcx, hmap⟩
    obtain ⟨a, b, c, d, e⟩ := key
    refine ⟨hi', by simp [a, b], by simp [hjobs, e], by simp [hcalls, c], ?_, by simp [d]⟩
    intro t' ts c' h1 hc'
    rw [c] at h1
    simp only [hcalls, List.nil_append] at hc'
    cases t' with
    | zero =>
      simp at h1 hc'; subst h1 hc'
      refine ⟨rfl, by simp [d], by simp [TS.wiN0], by simp [TS.isWS], ?_, ?_⟩
      · intro q r ch e; cases e
      · intro n0 e; simp [TS.wiN0] at e
    | succ n => simp at h1


theorem activeIds_eq {s : St} {ms : C18St} (hj : ms.jobs = s.jobs.map jinfo) : ms.activeIds = activeJobs s := by
  unfold C18St.activeIds activeJobs
  rw [hj]
  simp only [List.length_map]
  apply List.filter_congr
  intro j _
  simp only [List.getElem?_map]
  cases hjb : s.jobs[j]? with
  | none => rfl
  | some jb =>
    simp only [Option.map_some, jinfo, jview]
    cases hs : jb.st <;> try rfl
    cases jb.isNil <;> rfl

theorem active_le_limit_inv (s : St) (hi : Inv s) (hl : 0 < s.limit) :
    ((activeJobs s).length : Int) ≤ s.limit := by
  rw [activeJobs_length]
  have h1 := hi.cntR
  have h2 := hi.run
  have h3 := hi.lim hl
  have h4 : s.ws.countP WSt.isInJob ≤ s.ws.countP WSt.live :=
    List.countP_mono_left (by intro x _ hx; cases x <;> simp [WSt.isInJob, WSt.live] at hx ⊢)
  omega

/-- the job table changes at `j` only, nil flag and sequence numbers kept; calls untouched -/
theorem rel_jobs (s s1 : St) (ms : C18St) (j : Nat) (jb jb' : Job) (ji' : JInfo) (hR : RelC18 s ms) (hi1 : Inv s1)
    (hj : s.jobs[j]? = some jb) (hjobs : s1.jobs = s.jobs.set j jb') (hnil : jb'.isNil = jb.isNil)
    (hseq : jb'.seq = jb.seq) (hview : jinfo jb' = ji')
    (hth : s1.th = s.th) (hcx : s1.cx = s.cx) (hcr : s1.created = s.created) (hlim : s1.limit = s.limit) :
    RelC18 s1 { ms with jobs := ms.jobs.set j ji' } := by
  refine ⟨hi1, by rw [hR.limit, hcr, hlim], ?_, by rw [hR.clen, hth], ?_, by rw [hcx, hth]; exact hR.cxlt⟩
  · simp only [hjobs, hR.jobs, List.map_set, hview]
  · intro t ts c h1 hc
    rw [hth] at h1
    refine crel_move' ?_ (by rw [hcx]) (tsame_refl _) (hR.calls t ts c h1 hc)
    intro u x hx
    rw [hjobs]
    by_cases hu : j = u
    · subst hu
      rw [hj] at hx; cases hx
      exact ⟨jb', getElem?_set_self' _ _ _ _ hj, hnil, fun q h => by rw [hseq]; exact h⟩
    · exact ⟨x, by rw [getElem?_set_ne' _ _ _ _ hu]; exact hx, rfl, fun _ h => h⟩

theorem sim_jobIn (s : St) (w j : Nat) (s' : St) (ms : C18St) (hR : RelC18 s ms)
    (hs : step s (.jobIn w j) = some s') :
    ∃ ms', (monC18g false).step ms (.jobIn j) = some ms' ∧ RelC18 s' ms' := by
  have hi' := step_inv s _ s' hR.inv hs
  simp only [step] at hs; split at hs <;> try simp at hs
  rename_i j' jb hw hj
  obtain ⟨⟨rfl, hnil⟩, rfl⟩ := hs
  obtain ⟨jb0, hj0, hst⟩ := hR.inv.hasJ w j hw
  rw [hj] at hj0; cases hj0
  have hcr := created_of_ws s hR.inv.toTInv w _ hw
  have hlim : ms.limit = some s.limit := by rw [hR.limit, hcr]; rfl
  have hmj : ms.jobs[j]? = some (jinfo jb) := by rw [hR.jobs]; simp [hj]
  have hrel := rel_jobs s { s with ws := s.ws.set w (.inJob j), jobs := startJob s.jobs j } ms j jb
    { jb with st := .active, starts := jb.starts + 1 } { jinfo jb with st := .active } hR hi' hj
    (startJob_eq hj) rfl rfl (by simp [jinfo, jview]) rfl rfl rfl rfl
  refine ⟨_, ?_, hrel⟩
  have hact : (0 : Int) < s.limit →
      (({ ms with jobs := ms.jobs.set j { jinfo jb with st := .active } } : C18St).activeIds.length : Int) ≤ s.limit := by
    intro hl
    rw [activeIds_eq hrel.jobs]
    exact active_le_limit_inv _ hi' hl
  simp only [monC18g, hlim, hmj]
  have h1 : (jinfo jb).isNil = false ∧ (jinfo jb).st = .unstarted := by
    simp [jinfo, jview, hnil, hst]
  rw [if_pos h1, if_pos ⟨hact, by intro h; cases h⟩]

theorem sim_jobOut (s : St) (w j : Nat) (s' : St) (ms : C18St) (hR : RelC18 s ms)
    (hs : step s (.jobOut w j) = some s') :
    ∃ ms', (monC18g false).step ms (.jobOut j) = some ms' ∧ RelC18 s' ms' := by
  have hi' := step_inv s _ s' hR.inv hs
  simp only [step] at hs; split at hs <;> try simp at hs
  rename_i j' hw
  obtain ⟨rfl, rfl⟩ := hs
  obtain ⟨jb, hj, hst, hnil⟩ := hR.inv.inJ w j hw
  have hmj : ms.jobs[j]? = some (jinfo jb) := by rw [hR.jobs]; simp [hj]
  have hrel := rel_jobs s { s with ws := s.ws.set w .afterJob, jobs := setJobSt s.jobs j .finished } ms j jb
    { jb with st := .finished } { jinfo jb with st := .finished } hR hi' hj
    (setJobSt_eq hj _) rfl rfl (by simp [jinfo, jview, hnil]) rfl rfl rfl rfl
  refine ⟨_, ?_, hrel⟩
  simp only [monC18g, hmj]
  have h1 : (jinfo jb).st = .active := by simp [jinfo, jview, hst]
  rw [if_pos h1]


/-- at a quiescence point a job that the history has not seen start sits in the queue -/
theorem quiescent_unstarted (s : St) (hi : Inv s) (hq : quiescent s = true) (j : Nat) (jb : Job)
    (hj : s.jobs[j]? = some jb) (hw : jb.st.waiting = true) : s.queue ≠ [] := by
  have hnf : jb.st ≠ .fresh := by
    intro hf
    obtain ⟨js, h1, _⟩ := hi.fresh j jb hj hf
    have := quiescent_th s hq _ _ h1
    simp [TS.quiet] at this
  have hna : jb.st ≠ .assigned := by
    have h0 : s.ws.countP WSt.isHasJob = 0 := by
      rw [List.countP_eq_zero]
      intro x hx hh
      obtain ⟨w, hw'⟩ := List.getElem?_of_mem hx
      rcases quiescent_ws s hq w x hw' with ⟨_, rfl⟩ | rfl <;> simp [WSt.isHasJob] at hh
    exact no_assigned s hi.toJInv0 h0 j jb hj
  have hqd : jb.st = .queued := by
    cases hs : jb.st <;> simp_all [JS.waiting]
  obtain ⟨a, b⟩ := hi.seqs j jb hj
  cases hsq : jb.seq with
  | none => exact absurd (a.mpr hsq) hnf
  | some q =>
    have := b q hsq
    have h1 := this.2.mp hqd
    have h2 := hi.nseq
    intro e; rw [e] at h2; simp at h2; omega

theorem sim_quiesce (s : St) (B A : List Nat) (s' : St) (ms : C18St) (hR : RelC18 s ms)
    (hs : step s (.quiesce B A) = some s') :
    ∃ ms', (monC18g false).step ms (.quiesce B A) = some ms' ∧ RelC18 s' ms' := by
  simp only [step] at hs
  split at hs
  case isFalse => simp at hs
  rename_i hcond
  simp only [Option.some.injEq] at hs; subst hs
  obtain ⟨hq, rfl, rfl⟩ := hcond
  refine ⟨ms, ?_, hR⟩
  have hi := hR.inv
  cases hc : s.created with
  | false =>
    have hs0 := hi.cre hc
    have hlim : ms.limit = none := by rw [hR.limit, hc]; rfl
    subst hs0
    simp only [monC18g, hlim]
    rw [if_pos ⟨by rfl, by rfl⟩]
  | true =>
    have hlim : ms.limit = some s.limit := by rw [hR.limit, hc]; rfl
    have hA : activeJobs s = ms.activeIds := (activeIds_eq hR.jobs).symm
    have h2 : (0 : Int) < s.limit → ((activeJobs s).length : Int) ≤ s.limit := active_le_limit_inv s hi
    have h3 : (List.range ms.jobs.length).all ms.started = false →
        0 < s.limit ∧ ((activeJobs s).length : Int) = s.limit := by
      intro hall
      have : ∃ j, j ∈ List.range ms.jobs.length ∧ ms.started j = false := by
        by_cases h : ∃ j, j ∈ List.range ms.jobs.length ∧ ms.started j = false
        · exact h
        · exfalso
          have : (List.range ms.jobs.length).all ms.started = true := by
            rw [List.all_eq_true]
            intro j hj
            cases hsj : ms.started j
            · exact absurd ⟨j, hj, hsj⟩ h
            · rfl
          rw [this] at hall; cases hall
      obtain ⟨j, hjr, hsj⟩ := this
      simp only [C18St.started, hR.jobs, List.getElem?_map] at hsj
      cases hjb : s.jobs[j]? with
      | none => simp [hjb] at hsj
      | some jb =>
        simp only [hjb, Option.map_some, jinfo, Bool.or_eq_false_iff] at hsj
        obtain ⟨hnil, hv⟩ := hsj
        have hw : jb.st.waiting = true := by
          simp only [jview] at hv
          cases hst : jb.st <;> simp [hst, hnil, JS.waiting] at hv ⊢
        have hne := quiescent_unstarted s hi hq j jb hjb hw
        obtain ⟨a, b⟩ := quiescent_queue_full_aux s hi hq hne
        exact ⟨a, by rw [activeJobs_length]; exact b⟩
    have h4 : (pendingIds s).all (pendingOK ms (activeJobs s)) = true := by
      rw [List.all_eq_true]
      intro t ht
      simp only [pendingIds, List.mem_filter, List.mem_range] at ht
      obtain ⟨hlt, hp⟩ := ht
      have hts : s.th[t]? = some s.th[t] := List.getElem?_eq_getElem hlt
      rw [hts] at hp
      obtain ⟨c, hcc⟩ := calls_get hR hts
      have hcr := hR.calls t _ c hts hcc
      have hqt := quiescent_th s hq t _ hts
      obtain ⟨w1, w2⟩ := quiescent_waiters_aux s hi hq t
      simp only [pendingOK, hcc]
      cases hst : s.th[t] with
      | wiParked n0 ch =>
        rw [hst] at hcr hqt hts
        simp only [TS.quiet, Bool.and_eq_true, Bool.not_eq_true'] at hqt
        have hk := hcr.kwi rfl
        have hr : c.returned = false := by rw [hcr.ret]; rfl
        have hcn : c.cancelled = false := by rw [hcr.canc]; exact hqt.1.2
        have hne := w1 n0 ch hts
        have : (activeJobs s).isEmpty = false := by
          cases hh : activeJobs s with
          | nil => exact absurd hh hne
          | cons a l => rfl
        simp [hk, hr, hcn, this]
      | wsParked q r ch =>
        rw [hst] at hcr hqt hts
        simp only [TS.quiet, Bool.and_eq_true, Bool.not_eq_true'] at hqt
        have hk := hcr.kws rfl
        have hl := hcr.last q r ch rfl
        have hr : c.returned = false := by rw [hcr.ret]; rfl
        have hcn : c.cancelled = false := by rw [hcr.canc]; exact hqt.2
        have := (w2 q r ch hts).1
        simp [hk, hr, hcn, hl, this]
      | _ => rw [hst] at hp; simp [TS.parked] at hp
    simp only [monC18g, hlim]
    rw [if_pos ⟨hA, h2, h3, h4⟩]


/-- the simulation step: internal events keep the relation, observable events are accepted by the
monitor (without the enqueue-order clause) and re-establish it -/
theorem sim_step (s : St) (e : Ev) (s' : St) (ms : C18St) (hR : RelC18 s ms)
    (hs : model.step s e = some s') :
    match model.obs e with
    | none => RelC18 s' ms
    | some o => ∃ ms', (monC18g false).step ms o = some ms' ∧ RelC18 s' ms' := by
  have hs : step s e = some s' := hs
  cases e with
  | invNew t L js => exact sim_invNew s t L js s' ms hR hs
  | retNew t => exact sim_retNew s t s' ms hR hs
  | invEnq t js => exact sim_invEnq s t js s' ms hR hs
  | enqCS t => exact sim_internal s _ s' ms hR hs rfl
  | retEnq t q r => exact sim_retEnq s t q r s' ms hR hs
  | jobIn w j => exact sim_jobIn s w j s' ms hR hs
  | skipNil w => exact sim_internal s _ s' ms hR hs rfl
  | jobOut w j => exact sim_jobOut s w j s' ms hR hs
  | popCS w => exact sim_internal s _ s' ms hR hs rfl
  | invWI t => exact sim_invWI s t s' ms hR hs
  | wiCS t => exact sim_internal s _ s' ms hR hs rfl
  | wiCtx t => exact sim_internal s _ s' ms hR hs rfl
  | wiErr t => exact sim_internal s _ s' ms hR hs rfl
  | retWI t r => exact sim_retWI s t r s' ms hR hs
  | invWS t n => exact sim_invWS s t n s' ms hR hs
  | wsCS t => exact sim_internal s _ s' ms hR hs rfl
  | cbWS t q r a => exact sim_cbWS s t q r a s' ms hR hs
  | wsCtx t => exact sim_internal s _ s' ms hR hs rfl
  | retWS t r => exact sim_retWS s t r s' ms hR hs
  | envCancel t => exact sim_envCancel s t s' ms hR hs
  | envErr t m => exact sim_envErr s t m s' ms hR hs
  | quiesce B A => exact sim_quiesce s B A s' ms hR hs


theorem place_nseq (s : St) (j : Nat) : (place s j).nseq = s.nseq + 1 := by
  unfold place; split <;> rfl

theorem place_seq_self (s : St) (j : Nat) (jb : Job) (hj : s.jobs[j]? = some jb) :
    ∃ x : Job, (place s j).jobs[j]? = some x ∧ x.seq = some s.nseq ∧ x.owner = jb.owner := by
  unfold place
  split
  · exact ⟨{ jb with st := .assigned, seq := some s.nseq },
      by simp only [setJob_eq hj]; exact getElem?_set_self' _ _ _ _ hj, rfl, rfl⟩
  · exact ⟨{ jb with st := .queued, seq := some s.nseq },
      by simp only [setJob_eq hj]; exact getElem?_set_self' _ _ _ _ hj, rfl, rfl⟩

/-- the Enqueue loop numbers its jobs consecutively, in argument order -/
theorem fold_place_pos (js : List Nat) (s : St) (hJ : JInv s)
    (hfr : ∀ j : Nat, j ∈ js → ∃ jb : Job, s.jobs[j]? = some jb ∧ jb.st = .fresh) (hnd : js.Nodup) :
    (js.foldl place s).nseq = s.nseq + js.length ∧
    ∀ (k u : Nat), js[k]? = some u → ∃ x : Job, (js.foldl place s).jobs[u]? = some x ∧ x.seq = some (s.nseq + k) := by
  induction js generalizing s with
  | nil => exact ⟨rfl, by intro k u h; simp at h⟩
  | cons j rest ih =>
    obtain ⟨jb, hj, hf⟩ := hfr j (by simp)
    obtain ⟨hJ1, F1⟩ := place_step s j jb hJ hj hf
    rw [List.nodup_cons] at hnd
    have hfr1 : ∀ u : Nat, u ∈ rest → ∃ x : Job, (place s j).jobs[u]? = some x ∧ x.st = .fresh := by
      intro u hu
      obtain ⟨x, hx, hxf⟩ := hfr u (by simp [hu])
      have : u ∉ [j] := by intro e; simp at e; subst e; exact hnd.1 hu
      exact ⟨x, by rw [F1.other u this]; exact hx, hxf⟩
    obtain ⟨n2, p2⟩ := ih (place s j) hJ1 hfr1 hnd.2
    obtain ⟨_, F2⟩ := fold_place rest (place s j) hJ1 hfr1 hnd.2
    simp only [List.foldl_cons]
    refine ⟨by rw [n2, place_nseq]; simp; omega, ?_⟩
    intro k u hk
    cases k with
    | zero =>
      simp at hk; subst hk
      obtain ⟨x, hx, hxs, _⟩ := place_seq_self s j jb hj
      exact ⟨x, by rw [F2.other j hnd.1]; exact hx, by simpa using hxs⟩
    | succ k =>
      simp at hk
      obtain ⟨x, hx, hxs⟩ := p2 k u hk
      exact ⟨x, hx, by rw [hxs, place_nseq]; congr 1; omega⟩

theorem pushInit_nseq (s : St) (j : Nat) : (pushInit s j).nseq = s.nseq + 1 := rfl

theorem fold_push_pos (js : List Nat) (s : St) (hJ : JInv0 s)
    (hfr : ∀ j : Nat, j ∈ js → ∃ jb : Job, s.jobs[j]? = some jb ∧ jb.st = .fresh) (hnd : js.Nodup) :
    ∀ (k u : Nat), js[k]? = some u → ∃ x : Job, (js.foldl pushInit s).jobs[u]? = some x ∧ x.seq = some (s.nseq + k) := by
  induction js generalizing s with
  | nil => intro k u h; simp at h
  | cons j rest ih =>
    obtain ⟨jb, hj, hf⟩ := hfr j (by simp)
    have hJ1 : JInv0 (pushInit s j) := jinv0_enq s j jb hJ hj hf
    have hother : ∀ u : Nat, u ≠ j → (pushInit s j).jobs[u]? = s.jobs[u]? := by
      intro u hu
      simp only [pushInit, setJob_eq hj]
      exact getElem?_set_ne' _ _ _ _ (fun e => hu e.symm)
    rw [List.nodup_cons] at hnd
    have hfr1 : ∀ u : Nat, u ∈ rest → ∃ x : Job, (pushInit s j).jobs[u]? = some x ∧ x.st = .fresh := by
      intro u hu
      obtain ⟨x, hx, hxf⟩ := hfr u (by simp [hu])
      have : u ≠ j := by intro e; subst e; exact hnd.1 hu
      exact ⟨x, by rw [hother u this]; exact hx, hxf⟩
    have p2 := ih (pushInit s j) hJ1 hfr1 hnd.2
    obtain ⟨_, F2⟩ := fold_push rest (pushInit s j) hJ1 hfr1 hnd.2
    simp only [List.foldl_cons]
    intro k u hk
    cases k with
    | zero =>
      simp at hk; subst hk
      refine ⟨{ jb with st := .queued, seq := some s.nseq },
        by rw [F2.other j hnd.1]; simp only [pushInit, setJob_eq hj]; exact getElem?_set_self' _ _ _ _ hj, ?_⟩
      simp
    | succ k =>
      simp at hk
      obtain ⟨x, hx, hxs⟩ := p2 k u hk
      exact ⟨x, hx, by rw [hxs, pushInit_nseq]; congr 1; omega⟩

end UtilModel.Conc
