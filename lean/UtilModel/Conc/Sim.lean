import UtilModel.Conc.Proofs3
import UtilModel.Conc.Monitors
/-!
# conc — simulation between the model and the monitor (without the enqueue-order clause)
-/
namespace UtilModel.Conc
open UtilModel

def JS.waiting : JS → Bool
  | .fresh | .queued | .assigned => true
  | _ => false

/-- what the history shows of a job (a nil job is never seen to start) -/
def jview (jb : Job) : JM :=
  match jb.st with
  | .active => .active
  | .finished => if jb.isNil then .unstarted else .finished
  | _ => .unstarted

def jinfo (jb : Job) : JInfo := { call := jb.owner, isNil := jb.isNil, st := jview jb }

theorem jview_waiting (jb : Job) (h : jb.st.waiting = true) : jview jb = .unstarted := by
  unfold jview; cases hs : jb.st <;> simp [hs, JS.waiting] at h ⊢

def TS.isFinished : TS → Bool
  | .finished => true
  | _ => false

def TS.wiN0 : TS → Option Nat
  | .wiInv n | .wiParked n _ | .wiDone _ n => some n
  | _ => none

def TS.isWS : TS → Bool
  | .wsInv | .wsCb _ _ _ | .wsParked _ _ _ | .wsDone _ => true
  | _ => false

/-- relation between a call of the model and the monitor's record of it -/
structure CRel (s : St) (t : Nat) (ts : TS) (c : CInfo) : Prop where
  ret : c.returned = ts.isFinished
  canc : c.cancelled = s.cx.contains t
  kwi : ts.wiN0.isSome = true → c.kind = .wi
  kws : ts.isWS = true → c.kind = .ws
  last : ∀ (q r : Int) (ch : Nat), ts = .wsParked q r ch → c.last = some (q, r)
  snapWI : ∀ n0 : Nat, ts.wiN0 = some n0 → ∀ j : Nat, j ∈ c.snap →
            ∃ (jb : Job) (q : Nat), s.jobs[j]? = some jb ∧ jb.seq = some q ∧ q < n0 ∧ jb.isNil = false

structure RelC18 (s : St) (ms : C18St) : Prop where
  inv : Inv s
  limit : ms.limit = if s.created then some s.limit else none
  jobs : ms.jobs = s.jobs.map jinfo
  clen : ms.calls.length = s.th.length
  calls : ∀ (t : Nat) (ts : TS) (c : CInfo), s.th[t]? = some ts → ms.calls[t]? = some c → CRel s t ts c
  cxlt : ∀ t : Nat, s.cx.contains t = true → t < s.th.length

theorem relC18_init : RelC18 model.init (monC18g false).init :=
  ⟨init_inv, rfl, rfl, rfl, by intro t ts c h; simp [model] at h, by intro t h; simp [model] at h⟩

/-- the jobs of `s1` are those of `s` up to changes the history cannot see (a waiting job stays
waiting; sequence numbers already given are kept) -/
structure Kept (s s1 : St) : Prop where
  len : s1.jobs.length = s.jobs.length
  job : ∀ (u : Nat) (x : Job), s.jobs[u]? = some x →
          ∃ x' : Job, s1.jobs[u]? = some x' ∧ jinfo x' = jinfo x ∧ (∀ q : Nat, x.seq = some q → x'.seq = some q)

theorem kept_refl (s : St) : Kept s s := ⟨rfl, fun _ x h => ⟨x, h, rfl, fun _ hq => hq⟩⟩

theorem kept_trans {s s1 s2 : St} (a : Kept s s1) (b : Kept s1 s2) : Kept s s2 := by
  refine ⟨by rw [b.len, a.len], ?_⟩
  intro u x hx
  obtain ⟨x1, h1, e1, q1⟩ := a.job u x hx
  obtain ⟨x2, h2, e2, q2⟩ := b.job u x1 h1
  exact ⟨x2, h2, by rw [e2, e1], fun q hq => q2 q (q1 q hq)⟩

theorem kept_map {s s1 : St} (k : Kept s s1) : s1.jobs.map jinfo = s.jobs.map jinfo := by
  apply List.ext_getElem?
  intro u
  simp only [List.getElem?_map]
  cases hx : s.jobs[u]? with
  | none =>
    have : s1.jobs[u]? = none := by
      rw [List.getElem?_eq_none_iff] at hx ⊢; rw [k.len]; exact hx
    simp [this]
  | some x =>
    obtain ⟨x', h1, e1, _⟩ := k.job u x hx
    simp [h1, e1]

/-- one job is replaced by a job that looks the same to the history -/
theorem kept_set (s : St) (jobs' : List Job) (j : Nat) (x x' : Job) (hj : s.jobs[j]? = some x)
    (hjobs : jobs' = s.jobs.set j x') (hv : jinfo x' = jinfo x)
    (hq : ∀ q : Nat, x.seq = some q → x'.seq = some q) (s1 : St) (h1 : s1.jobs = jobs') : Kept s s1 := by
  refine ⟨by rw [h1, hjobs]; simp, ?_⟩
  intro u y hy
  rw [h1, hjobs]
  by_cases hu : j = u
  · subst hu
    rw [hj] at hy; cases hy
    exact ⟨x', getElem?_set_self' _ _ _ _ hj, hv, hq⟩
  · exact ⟨y, by rw [getElem?_set_ne' _ _ _ _ hu]; exact hy, rfl, fun _ h => h⟩


theorem jinfo_waiting (x : Job) (st' : JS) (sq : Option Nat) (h : x.st.waiting = true) (h' : st'.waiting = true) :
    jinfo { x with st := st', seq := sq } = jinfo x := by
  simp only [jinfo, JInfo.mk.injEq, true_and]
  rw [jview_waiting x h, jview_waiting _ (by simpa using h')]

theorem kept_place (s : St) (j : Nat) (jb : Job) (hj : s.jobs[j]? = some jb) (hf : jb.st = .fresh)
    (hsq : jb.seq = none) : Kept s (place s j) := by
  unfold place
  split
  · exact kept_set s _ j jb _ hj (setJob_eq hj _ _) (jinfo_waiting jb _ _ (by rw [hf]; rfl) rfl)
      (by intro q hq; rw [hsq] at hq; cases hq) _ rfl
  · exact kept_set s _ j jb _ hj (setJob_eq hj _ _) (jinfo_waiting jb _ _ (by rw [hf]; rfl) rfl)
      (by intro q hq; rw [hsq] at hq; cases hq) _ rfl

theorem fold_place_kept (js : List Nat) (s : St) (hJ : JInv s)
    (hfr : ∀ j : Nat, j ∈ js → ∃ jb : Job, s.jobs[j]? = some jb ∧ jb.st = .fresh) (hnd : js.Nodup) :
    Kept s (js.foldl place s) := by
  induction js generalizing s with
  | nil => exact kept_refl s
  | cons j rest ih =>
    obtain ⟨jb, hj, hf⟩ := hfr j (by simp)
    obtain ⟨hJ1, F1⟩ := place_step s j jb hJ hj hf
    rw [List.nodup_cons] at hnd
    have hfr1 : ∀ u : Nat, u ∈ rest → ∃ x : Job, (place s j).jobs[u]? = some x ∧ x.st = .fresh := by
      intro u hu
      obtain ⟨x, hx, hxf⟩ := hfr u (by simp [hu])
      have : u ∉ [j] := by intro e; simp at e; subst e; exact hnd.1 hu
      exact ⟨x, by rw [F1.other u this]; exact hx, hxf⟩
    simp only [List.foldl_cons]
    exact kept_trans (kept_place s j jb hj hf ((hJ.seqs j jb hj).1.mp hf)) (ih (place s j) hJ1 hfr1 hnd.2)

theorem kept_pushInit (s : St) (j : Nat) (jb : Job) (hj : s.jobs[j]? = some jb) (hf : jb.st = .fresh)
    (hsq : jb.seq = none) : Kept s (pushInit s j) :=
  kept_set s _ j jb _ hj (setJob_eq hj _ _) (jinfo_waiting jb _ _ (by rw [hf]; rfl) rfl)
    (by intro q hq; rw [hsq] at hq; cases hq) _ rfl

theorem fold_push_kept (js : List Nat) (s : St) (hJ : JInv0 s)
    (hfr : ∀ j : Nat, j ∈ js → ∃ jb : Job, s.jobs[j]? = some jb ∧ jb.st = .fresh) (hnd : js.Nodup) :
    Kept s (js.foldl pushInit s) := by
  induction js generalizing s with
  | nil => exact kept_refl s
  | cons j rest ih =>
    obtain ⟨jb, hj, hf⟩ := hfr j (by simp)
    have hJ1 : JInv0 (pushInit s j) := jinv0_enq s j jb hJ hj hf
    have hother : ∀ u : Nat, u ≠ j → (pushInit s j).jobs[u]? = s.jobs[u]? := by
      intro u hu
      simp only [pushInit, setJob_eq hj]
      exact getElem?_set_ne' _ _ _ _ (fun e => hu e.symm)
    rw [List.nodup_cons] at hnd
    have hfr1 : ∀ u : Nat, u ∈ rest → ∃ x : Job, (pushInit s j).jobs[u]? = some x ∧ x.st = .fresh := by
      intro u hu
      obtain ⟨x, hx, hxf⟩ := hfr u (by simp [hu])
      have : u ≠ j := by intro e; subst e; exact hnd.1 hu
      exact ⟨x, by rw [hother u this]; exact hx, hxf⟩
    simp only [List.foldl_cons]
    exact kept_trans (kept_pushInit s j jb hj hf ((hJ.seqs j jb hj).1.mp hf)) (ih (pushInit s j) hJ1 hfr1 hnd.2)

/-- a queued job is handed to a worker -/
theorem kept_assign (s : St) (j : Nat) (jb : Job) (hj : s.jobs[j]? = some jb) (hst : jb.st = .queued)
    (s1 : St) (h1 : s1.jobs = setJobSt s.jobs j .assigned) : Kept s s1 := by
  refine kept_set s _ j jb { jb with st := .assigned } hj (setJobSt_eq hj _) ?_ (fun _ h => h) s1 h1
  have := jinfo_waiting jb .assigned jb.seq (by rw [hst]; rfl) rfl
  simpa using this

theorem update_kept (n : Nat) (s : St) (h : JInv0 s) : Kept s (update s n) := by
  induction n generalizing s with
  | zero => exact kept_refl s
  | succ n ih =>
    unfold update
    split
    · rename_i hr
      split
      · exact kept_refl s
      · rename_i j rest hq
        obtain ⟨jb, hj, hst, _⟩ := queue_head s h j rest hq
        exact kept_trans (kept_assign s j jb hj hst _ rfl) (ih _ (jinv0_popNew s j rest h hq hr))
    · exact kept_refl s


/-- the monitor's record does not distinguish these call states -/
def TSame (ts ts1 : TS) : Prop :=
  ts1.isFinished = ts.isFinished ∧ ts1.wiN0 = ts.wiN0 ∧ ts1.isWS = ts.isWS ∧
  ∀ (q r : Int) (ch : Nat), ts1 = .wsParked q r ch → ts = .wsParked q r ch

theorem tsame_refl (ts : TS) : TSame ts ts := ⟨rfl, rfl, rfl, fun _ _ _ h => h⟩

theorem crel_move' {s s1 : St} {t : Nat} {ts ts1 : TS} {c : CInfo}
    (kj : ∀ (u : Nat) (x : Job), s.jobs[u]? = some x →
          ∃ x' : Job, s1.jobs[u]? = some x' ∧ jinfo x' = jinfo x ∧ (∀ q : Nat, x.seq = some q → x'.seq = some q))
    (hcx : s1.cx.contains t = s.cx.contains t)
    (hts : TSame ts ts1) (h : CRel s t ts c) : CRel s1 t ts1 c := by
  obtain ⟨e1, e2, e3, e4⟩ := hts
  refine ⟨by rw [h.ret, e1], by rw [h.canc, hcx], by rw [e2]; exact h.kwi, by rw [e3]; exact h.kws, ?_, ?_⟩
  · intro q r ch hp; exact h.last q r ch (e4 q r ch hp)
  · intro n0 hn j hj
    rw [e2] at hn
    obtain ⟨jb, q, a, b, c', d⟩ := h.snapWI n0 hn j hj
    obtain ⟨x', h1, hv, hq⟩ := kj j jb a
    refine ⟨x', q, h1, hq q b, c', ?_⟩
    have := congrArg JInfo.isNil hv
    simp only [jinfo] at this
    rw [this]; exact d

theorem crel_move {s s1 : St} {t : Nat} {ts ts1 : TS} {c : CInfo} (k : Kept s s1) (hcx : s1.cx = s.cx)
    (hts : TSame ts ts1) (h : CRel s t ts c) : CRel s1 t ts1 c :=
  crel_move' k.job (by rw [hcx]) hts h

/-- an internal step: the monitor state is unchanged -/
theorem rel_internal (s s1 : St) (ms : C18St) (hR : RelC18 s ms) (hi1 : Inv s1) (k : Kept s s1)
    (hcx : s1.cx = s.cx) (hcr : s1.created = s.created) (hlim : s1.limit = s.limit)
    (hlen : s1.th.length = s.th.length)
    (hth : ∀ (t : Nat) (ts1 : TS), s1.th[t]? = some ts1 → ∃ ts : TS, s.th[t]? = some ts ∧ TSame ts ts1) :
    RelC18 s1 ms := by
  refine ⟨hi1, by rw [hR.limit, hcr, hlim], by rw [hR.jobs, kept_map k], by rw [hR.clen, hlen], ?_,
    by rw [hcx, hlen]; exact hR.cxlt⟩
  intro t ts1 c h1 hc
  obtain ⟨ts, h0, hsame⟩ := hth t ts1 h1
  exact crel_move k hcx hsame (hR.calls t ts c h0 hc)

/-- thread table after `set`: every entry is the old one or the replaced one -/
theorem th_set_same (th : List TS) (t0 : Nat) (a b : TS) (ha : th[t0]? = some a) (hab : TSame a b) :
    ∀ (t : Nat) (ts1 : TS), (th.set t0 b)[t]? = some ts1 → ∃ ts : TS, th[t]? = some ts ∧ TSame ts ts1 := by
  intro t ts1 h
  rcases getElem?_set_cases _ _ _ _ _ h with ⟨e, rfl⟩ | ⟨_, h'⟩
  · exact ⟨a, by rw [e]; exact ha, hab⟩
  · exact ⟨ts1, h', tsame_refl _⟩


theorem kept_th (s : St) (th : List TS) (cx : List Nat) (mail : List (Nat × Msg)) (bc : Bcast) :
    Kept s { s with th := th, cx := cx, mail := mail, bc := bc } :=
  ⟨rfl, fun _ x h => ⟨x, h, rfl, fun _ hq => hq⟩⟩

theorem sim_wiSample (s : St) (t n0 : Nat) (a : TS) (ms : C18St) (hR : RelC18 s ms) (ha : s.th[t]? = some a)
    (hn : a.wiN0 = some n0) (hf : a.isFinished = false) (hws : a.isWS = false)
    (hi' : Inv (wiSample s t n0)) : RelC18 (wiSample s t n0) ms := by
  have hnp : ∀ (q r : Int) (ch : Nat), a ≠ .wsParked q r ch := by
    intro q r ch e; rw [e] at hws; simp [TS.isWS] at hws
  by_cases hid : s.running = 0 ∧ s.qsize = 0
  · rw [wiSample, if_pos hid] at hi' ⊢
    exact rel_internal s _ ms hR hi' (kept_th s _ s.cx s.mail s.bc) rfl rfl rfl (by simp)
      (th_set_same s.th t _ _ ha ⟨by rw [hf]; rfl, by rw [hn]; rfl, by rw [hws]; rfl, by intro q r ch h; cases h⟩)
  · rw [wiSample, if_neg hid] at hi' ⊢
    exact rel_internal s _ ms hR hi' (kept_th s _ s.cx s.mail _) rfl rfl rfl (by simp)
      (th_set_same s.th t _ _ ha ⟨by rw [hf]; rfl, by rw [hn]; rfl, by rw [hws]; rfl, by intro q r ch h; cases h⟩)

theorem sim_internal (s : St) (e : Ev) (s' : St) (ms : C18St) (hR : RelC18 s ms)
    (hs : step s e = some s') (hobs : e.obs = none) : RelC18 s' ms := by
  have hi' := step_inv s e s' hR.inv hs
  have hi := hR.inv
  cases e with
  | enqCS t =>
    simp only [step] at hs; split at hs <;> simp at hs; subst hs
    rename_i js ha
    have hT := hi.th t _ ha
    simp only [TSInv] at hT
    have hfr : ∀ j : Nat, j ∈ js → ∃ jb : Job, s.jobs[j]? = some jb ∧ jb.st = .fresh := fun j hj => by
      obtain ⟨jb, a, b, _⟩ := hT j hj; exact ⟨jb, a, b⟩
    have hnd := hi.nodup t js ha
    obtain ⟨_, F⟩ := fold_place js s hi.toJInv hfr hnd
    have k := fold_place_kept js s hi.toJInv hfr hnd
    refine rel_internal s _ ms hR hi' ⟨k.len, k.job⟩ F.cx F.created F.limit (by simp [F.th]) ?_
    simp only [F.th]
    exact th_set_same s.th t _ _ ha ⟨rfl, rfl, rfl, by intro q r ch h; cases h⟩
  | skipNil w =>
    simp only [step] at hs; split at hs <;> try simp at hs
    rename_i j hw
    split at hs <;> try simp at hs
    rename_i jb hj
    obtain ⟨hnil, rfl⟩ := hs
    obtain ⟨x, hx, hst⟩ := hi.hasJ w j hw
    rw [hj] at hx; cases hx
    have k : Kept s { s with ws := s.ws.set w .afterJob, jobs := setJobSt s.jobs j .finished } := by
      refine kept_set s _ j jb { jb with st := .finished } hj (setJobSt_eq hj _) ?_ (fun _ h => h) _ rfl
      simp [jinfo, jview, hst, hnil]
    exact rel_internal s _ ms hR hi' k rfl rfl rfl rfl (fun t ts1 h => ⟨ts1, h, tsame_refl _⟩)
  | popCS w =>
    simp only [step] at hs; split at hs <;> try simp at hs
    rename_i hw
    split at hs <;> simp at hs <;> subst hs
    · exact rel_internal s _ ms hR hi' ⟨rfl, fun _ x h => ⟨x, h, rfl, fun _ hq => hq⟩⟩ rfl rfl rfl rfl
        (fun t ts1 h => ⟨ts1, h, tsame_refl _⟩)
    · rename_i j rest hq
      obtain ⟨jb, hj, hst, _⟩ := queue_head s hi.toJInv0 j rest hq
      exact rel_internal s _ ms hR hi' (kept_assign s j jb hj hst _ rfl) rfl rfl rfl rfl
        (fun t ts1 h => ⟨ts1, h, tsame_refl _⟩)
  | wiCS t =>
    simp only [step] at hs; split at hs <;> try simp at hs
    · subst hs; rename_i n0 ha
      exact sim_wiSample s t n0 _ ms hR ha rfl rfl rfl hi'
    · obtain ⟨_, rfl⟩ := hs; rename_i n0 ch ha _
      exact sim_wiSample s t n0 _ ms hR ha rfl rfl rfl hi'
  | wiCtx t =>
    simp only [step] at hs; split at hs <;> simp at hs
    obtain ⟨_, rfl⟩ := hs; rename_i n0 ch ha _
    exact rel_internal s _ ms hR hi' (kept_th s _ s.cx s.mail s.bc) rfl rfl rfl (by simp)
      (th_set_same s.th t _ _ ha ⟨rfl, rfl, rfl, by intro q r ch h; cases h⟩)
  | wiErr t =>
    simp only [step] at hs; split at hs <;> try simp at hs
    rename_i n0 ch ha
    split at hs <;> simp at hs <;> subst hs
    · exact rel_internal s _ ms hR hi' (kept_th s _ s.cx _ s.bc) rfl rfl rfl (by simp)
        (th_set_same s.th t _ _ ha ⟨rfl, rfl, rfl, by intro q r ch h; cases h⟩)
    · exact rel_internal s _ ms hR hi' (kept_th s _ s.cx _ s.bc) rfl rfl rfl (by simp)
        (th_set_same s.th t _ _ ha ⟨rfl, rfl, rfl, by intro q r ch h; cases h⟩)
    · exact rel_internal s _ ms hR hi' (kept_th s _ s.cx s.mail s.bc) rfl rfl rfl (by simp)
        (th_set_same s.th t _ _ ha ⟨rfl, rfl, rfl, by intro q r ch h; cases h⟩)
  | wsCS t =>
    simp only [step] at hs; split at hs <;> try simp at hs
    · subst hs; rename_i ha
      exact rel_internal s _ ms hR hi' (kept_th s _ s.cx s.mail _) rfl rfl rfl (by simp [wsSample])
        (th_set_same s.th t _ _ ha ⟨rfl, rfl, rfl, by intro q r ch h; cases h⟩)
    · obtain ⟨_, rfl⟩ := hs; rename_i q r ch ha _
      exact rel_internal s _ ms hR hi' (kept_th s _ s.cx s.mail _) rfl rfl rfl (by simp [wsSample])
        (th_set_same s.th t _ _ ha ⟨rfl, rfl, rfl, by intro q r ch h; cases h⟩)
  | wsCtx t =>
    simp only [step] at hs; split at hs <;> simp at hs
    obtain ⟨_, rfl⟩ := hs; rename_i q r ch ha _
    exact rel_internal s _ ms hR hi' (kept_th s _ s.cx s.mail s.bc) rfl rfl rfl (by simp)
      (th_set_same s.th t _ _ ha ⟨rfl, rfl, rfl, by intro q r ch h; cases h⟩)
  | invNew _ _ _ => simp [Ev.obs] at hobs
  | retNew _ => simp [Ev.obs] at hobs
  | invEnq _ _ => simp [Ev.obs] at hobs
  | retEnq _ _ _ => simp [Ev.obs] at hobs
  | jobIn _ _ => simp [Ev.obs] at hobs
  | jobOut _ _ => simp [Ev.obs] at hobs
  | invWI _ => simp [Ev.obs] at hobs
  | retWI _ _ => simp [Ev.obs] at hobs
  | invWS _ _ => simp [Ev.obs] at hobs
  | cbWS _ _ _ _ => simp [Ev.obs] at hobs
  | retWS _ _ => simp [Ev.obs] at hobs
  | envCancel _ => simp [Ev.obs] at hobs
  | envErr _ _ => simp [Ev.obs] at hobs
  | quiesce _ _ => simp [Ev.obs] at hobs


theorem calls_get {s : St} {ms : C18St} (hR : RelC18 s ms) {t : Nat} {ts : TS} (ha : s.th[t]? = some ts) :
    ∃ c : CInfo, ms.calls[t]? = some c := by
  have hlt := lt_of_getElem? ha
  rw [← hR.clen] at hlt
  exact ⟨ms.calls[t], List.getElem?_eq_getElem hlt⟩

theorem setCall_eq {ms : C18St} {t : Nat} {c : CInfo} (hc : ms.calls[t]? = some c) (f : CInfo → CInfo) :
    ms.setCall t f = { ms with calls := ms.calls.set t (f c) } := by simp [C18St.setCall, hc]

/-- call `t0` moves to `ts'`, its record becomes `c'`; jobs are kept, contexts unchanged -/
theorem rel_set (s s1 : St) (ms : C18St) (t0 : Nat) (ts' : TS) (c' : CInfo) (hR : RelC18 s ms) (hi1 : Inv s1)
    (k : Kept s s1) (hcx : s1.cx = s.cx) (hcr : s1.created = s.created) (hlim : s1.limit = s.limit)
    (hth : s1.th = s.th.set t0 ts') (hnew : CRel s1 t0 ts' c') :
    RelC18 s1 { ms with calls := ms.calls.set t0 c' } := by
  refine ⟨hi1, by rw [hR.limit, hcr, hlim], by rw [hR.jobs, kept_map k], by simp [hR.clen, hth], ?_,
    by rw [hcx, hth]; simpa using hR.cxlt⟩
  intro t ts c h1 hc
  rw [hth] at h1
  simp only at hc
  rcases getElem?_set_cases _ _ _ _ _ h1 with ⟨e, rfl⟩ | ⟨hne, h1'⟩
  · subst e
    rcases getElem?_set_cases _ _ _ _ _ hc with ⟨_, rfl⟩ | ⟨hne, _⟩
    · exact hnew
    · exact absurd rfl hne
  · rw [getElem?_set_ne' _ _ _ _ (fun e => hne e.symm)] at hc
    exact crel_move k hcx (tsame_refl _) (hR.calls t ts c h1' hc)

/-- a new call is invoked (jobs kept, possibly extended by the caller of this lemma beforehand) -/
theorem rel_append (s s1 : St) (ms : C18St) (ts' : TS) (c' : CInfo) (hR : RelC18 s ms) (hi1 : Inv s1)
    (k : Kept s s1) (hjobs : s1.jobs = s.jobs) (hcx : s1.cx = s.cx) (hcr : s1.created = s.created)
    (hlim : s1.limit = s.limit) (hth : s1.th = s.th ++ [ts']) (hnew : CRel s1 s.th.length ts' c') :
    RelC18 s1 { ms with calls := ms.calls ++ [c'] } := by
  refine ⟨hi1, by rw [hR.limit, hcr, hlim], by rw [hR.jobs, hjobs], by simp [hR.clen, hth], ?_,
    by rw [hcx, hth]; intro t ht; have := hR.cxlt t ht; simp; omega⟩
  intro t ts c h1 hc
  rw [hth] at h1
  simp only at hc
  rcases getElem?_snoc_cases _ _ _ _ h1 with ⟨hlt, h1'⟩ | ⟨e, rfl⟩
  · rw [List.getElem?_append_left (by rw [hR.clen]; exact hlt)] at hc
    exact crel_move k hcx (tsame_refl _) (hR.calls t ts c h1' hc)
  · subst e
    rw [← hR.clen, List.getElem?_append_right (Nat.le_refl _)] at hc
    simp at hc; subst hc
    exact hnew

theorem pairOK_of (L q r : Int) (h : PairOK L q r) : pairOK L q r = true := by
  unfold pairOK
  exact decide_eq_true h

end UtilModel.Conc
