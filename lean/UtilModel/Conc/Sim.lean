import UtilModel.Conc.Proofs3
import UtilModel.Conc.Monitors
/-!
# conc — simulation between the model and the monitor (without the enqueue-order clause)
-/
namespace UtilModel.Conc
open UtilModel

def JS.waiting : JS → Bool
  | .fresh | .queued | .assigned => true
  | _ => false

/-- what the history shows of a job (a nil job is never seen to start) -/
def jview (jb : Job) : JM :=
  match jb.st with
  | .active => .active
  | .finished => if jb.isNil then .unstarted else .finished
  | _ => .unstarted

def jinfo (jb : Job) : JInfo := { call := jb.owner, isNil := jb.isNil, st := jview jb }

theorem jview_waiting (jb : Job) (h : jb.st.waiting = true) : jview jb = .unstarted := by
  unfold jview; cases hs : jb.st <;> simp [hs, JS.waiting] at h ⊢

def TS.isFinished : TS → Bool
  | .finished => true
  | _ => false

def TS.wiN0 : TS → Option Nat
  | .wiInv n | .wiParked n _ | .wiDone _ n => some n
  | _ => none

def TS.isWS : TS → Bool
  | .wsInv | .wsCb _ _ _ | .wsParked _ _ _ | .wsDone _ => true
  | _ => false

/-- relation between a call of the model and the monitor's record of it -/
structure CRel (s : St) (t : Nat) (ts : TS) (c : CInfo) : Prop where
  ret : c.returned = ts.isFinished
  canc : c.cancelled = s.cx.contains t
  kwi : ts.wiN0.isSome = true → c.kind = .wi
  kws : ts.isWS = true → c.kind = .ws
  last : ∀ (q r : Int) (ch : Nat), ts = .wsParked q r ch → c.last = some (q, r)
  snapWI : ∀ n0 : Nat, ts.wiN0 = some n0 → ∀ j : Nat, j ∈ c.snap →
            ∃ (jb : Job) (q : Nat), s.jobs[j]? = some jb ∧ jb.seq = some q ∧ q < n0 ∧ jb.isNil = false

structure RelC18 (s : St) (ms : C18St) : Prop where
  inv : Inv s
  limit : ms.limit = if s.created then some s.limit else none
  jobs : ms.jobs = s.jobs.map jinfo
  clen : ms.calls.length = s.th.length
  calls : ∀ (t : Nat) (ts : TS) (c : CInfo), s.th[t]? = some ts → ms.calls[t]? = some c → CRel s t ts c

theorem relC18_init : RelC18 model.init (monC18g false).init :=
  ⟨init_inv, rfl, rfl, rfl, by intro t ts c h; simp [model] at h⟩

/-- the jobs of `s1` are those of `s` up to changes the history cannot see (a waiting job stays
waiting; sequence numbers already given are kept) -/
structure Kept (s s1 : St) : Prop where
  len : s1.jobs.length = s.jobs.length
  job : ∀ (u : Nat) (x : Job), s.jobs[u]? = some x →
          ∃ x' : Job, s1.jobs[u]? = some x' ∧ jinfo x' = jinfo x ∧ (∀ q : Nat, x.seq = some q → x'.seq = some q)

theorem kept_refl (s : St) : Kept s s := ⟨rfl, fun _ x h => ⟨x, h, rfl, fun _ hq => hq⟩⟩

theorem kept_trans {s s1 s2 : St} (a : Kept s s1) (b : Kept s1 s2) : Kept s s2 := by
  refine ⟨by rw [b.len, a.len], ?_⟩
  intro u x hx
  obtain ⟨x1, h1, e1, q1⟩ := a.job u x hx
  obtain ⟨x2, h2, e2, q2⟩ := b.job u x1 h1
  exact ⟨x2, h2, by rw [e2, e1], fun q hq => q2 q (q1 q hq)⟩

theorem kept_map {s s1 : St} (k : Kept s s1) : s1.jobs.map jinfo = s.jobs.map jinfo := by
  apply List.ext_getElem?
  intro u
  simp only [List.getElem?_map]
  cases hx : s.jobs[u]? with
  | none =>
    have : s1.jobs[u]? = none := by
      rw [List.getElem?_eq_none_iff] at hx ⊢; rw [k.len]; exact hx
    simp [this]
  | some x =>
    obtain ⟨x', h1, e1, _⟩ := k.job u x hx
    simp [h1, e1]

/-- one job is replaced by a job that looks the same to the history -/
theorem kept_set (s : St) (jobs' : List Job) (j : Nat) (x x' : Job) (hj : s.jobs[j]? = some x)
    (hjobs : jobs' = s.jobs.set j x') (hv : jinfo x' = jinfo x)
    (hq : ∀ q : Nat, x.seq = some q → x'.seq = some q) (s1 : St) (h1 : s1.jobs = jobs') : Kept s s1 := by
  refine ⟨by rw [h1, hjobs]; simp, ?_⟩
  intro u y hy
  rw [h1, hjobs]
  by_cases hu : j = u
  · subst hu
    rw [hj] at hy; cases hy
    exact ⟨x', getElem?_set_self' _ _ _ _ hj, hv, hq⟩
  · exact ⟨y, by rw [getElem?_set_ne' _ _ _ _ hu]; exact hy, rfl, fun _ h => h⟩

end UtilModel.Conc
