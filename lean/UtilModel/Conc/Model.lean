import UtilModel.Core.LTS
import UtilModel.Core.Bcast
import UtilModel.Core.Count
/-!
# conc.ConcurrentQueue — model (conc/queue.go)

One model instance = one queue. Every event is one atomic action of the code:

* `invNew t L js` / `retNew t`   `NewConcurrentQueue(L, js...)`; the constructor runs before the queue
                                 is shared, so its whole body (queue.go:29-40 with `updateLocked`,
                                 queue.go:137-153) is the one event `invNew`
* `invEnq t js`, `enqCS t`, `retEnq t q r`   `Enqueue`: its critical section (queue.go:46-61) is one event
* `jobIn w j` (`cbin j`), `jobOut w j` (`cbout j`)   worker goroutine `w` enters / leaves job `j`
* `skipNil w`                    the worker skips a nil job (queue.go:159)
* `popCS w`                      the worker's critical section (queue.go:164-172): next job or retire + broadcast
* `invWI t`, `wiCS t`, `wiCtx t`, `wiErr t`, `retWI t r`   `WaitIdle`: sample section (queue.go:72-77; the
                                 first one, or the re-check after the select took `<-wait`, enabled iff the
                                 wait channel is closed), the other two branches of its select (queue.go:81-94)
* `invWS t nilcb`, `wsCS t`, `cbWS t q r a`, `wsCtx t`, `retWS t r`   `WatchState`: sample section
                                 (queue.go:118-121; first, or re-sample once the wait channel is closed), the
                                 callback (harness-scripted answer `a`), the ctx branch of the select

As in the csync models the decision "select took the wait channel" is folded into the re-check
section it leads to (the decision itself touches no shared state).
* `envCancel t`, `envErr t m`    the harness cancels the context of call `t` / sends on or closes its errCh
* `quiesce B A`                  nothing moves; `B` pending calls, `A` jobs in progress

The wait channel of the `Broadcast` is allocated eagerly (`bcast` = `broadcast` followed by
`getWaitCh`, and the initial state already has channel 0) instead of lazily at the first `getWaitCh`
after a broadcast: channel identities are not observable, only whether a channel obtained earlier
has been closed since, and the eager form keeps the model state canonical (no dependence on *when*
somebody first asked for the channel), which keeps the state sets of the inclusion check small.

The job queue (`linkedlist.LinkedList`, property C12) is abstracted as a `List` of job ids: `Push` =
append, `Pop` = head. `running`, `jobQueueSize` and the limit are `Int` as in the code. Ghost fields:
`seq`, `nseq`, `nasg` number the jobs in the order of their enqueue steps and count assignments to
workers; `owner`, `starts` record the announcing call and the number of entries of a job; `n0` in a
`WaitIdle` call's state is `nseq` at its invocation. No enabledness condition reads a ghost field.
-/
namespace UtilModel.Conc
open UtilModel

inductive JS where
  | fresh      -- announced by an invocation; its Enqueue section has not run yet
  | queued     -- in the job queue
  | assigned   -- handed to a worker goroutine; not started yet
  | active     -- executing
  | finished   -- returned (a nil job: skipped)
deriving DecidableEq, Repr, Inhabited, Hashable

structure Job where
  isNil : Bool
  st : JS
  /-- ghost: number of jobs whose enqueue step ran before this one's -/
  seq : Option Nat := none
  /-- ghost: the call that announced the job -/
  owner : Nat := 0
  /-- ghost: how often the job has been entered -/
  starts : Nat := 0
deriving DecidableEq, Repr, Inhabited, Hashable

/-- worker goroutine (`executeJob`) -/
inductive WSt where
  | hasJob (j : Nat)   -- top of the loop with job `j`
  | inJob (j : Nat)    -- inside job `j`
  | afterJob           -- job returned; critical section pending
  | retired
deriving DecidableEq, Repr, Inhabited, Hashable

inductive Res where
  | nil | canceled | err
deriving DecidableEq, Repr, Inhabited, Hashable

/-- answer of a WatchState callback -/
inductive Act where
  | cont | stop | err
deriving DecidableEq, Repr, Inhabited, Hashable

/-- what the harness does to an errCh -/
inductive Msg where
  | nilErr | err | close
deriving DecidableEq, Repr, Inhabited, Hashable

/-- API call (thread) state -/
inductive TS where
  | newDone
  | enqInv (js : List Nat)
  | enqDone (q r : Int)
  | wiInv (n0 : Nat)               -- n0 (ghost): number of jobs enqueued when WaitIdle was invoked
  | wiParked (n0 : Nat) (ch : Nat)
  | wiDone (r : Res) (n0 : Nat)
  | wsInv
  | wsCb (q r : Int) (ch : Nat)
  | wsParked (q r : Int) (ch : Nat)
  | wsDone (r : Res)
  | finished
deriving DecidableEq, Repr, Inhabited, Hashable

structure St where
  created : Bool := false
  limit : Int := 0
  running : Int := 0
  qsize : Int := 0
  queue : List Nat := []
  bc : Bcast := { cur := some 0, next := 1 }
  jobs : List Job := []
  ws : List WSt := []
  th : List TS := []
  cx : List Nat := []
  mail : List (Nat × Msg) := []
  nseq : Nat := 0
  nasg : Nat := 0
deriving DecidableEq, Repr, Hashable

inductive Obs where
  | invNew (t : Nat) (L : Int) (js : List (Nat × Bool))   -- `inv t new L j n j …`  (`nJ` = nil job with id J)
  | retNew (t : Nat)                                      -- `ret t new`
  | invEnq (t : Nat) (js : List (Nat × Bool))             -- `inv t enqueue j nJ …`
  | retEnq (t : Nat) (q r : Int)                          -- `ret t enqueue q r`
  | jobIn (j : Nat)                                       -- `cbin j`
  | jobOut (j : Nat)                                      -- `cbout j`
  | invWI (t : Nat)                                       -- `inv t waitidle`
  | retWI (t : Nat) (r : Res)                             -- `ret t waitidle nil|canceled|err`
  | invWS (t : Nat) (nilcb : Bool)                        -- `inv t watch cb|nilcb`
  | cbWS (t : Nat) (q r : Int) (a : Act)                  -- `cb t q r cont|stop|err`
  | retWS (t : Nat) (r : Res)                             -- `ret t watch nil|canceled|err`
  | envCancel (t : Nat)                                   -- `env cancel t`
  | envErr (t : Nat) (m : Msg)                            -- `env errch t nil|err|close`
  | quiesce (B A : List Nat)                              -- `quiesce t1 t2 … | j1 j2 …`
deriving DecidableEq, Repr

inductive Ev where
  | invNew (t : Nat) (L : Int) (js : List (Nat × Bool))
  | retNew (t : Nat)
  | invEnq (t : Nat) (js : List (Nat × Bool))
  | enqCS (t : Nat)
  | retEnq (t : Nat) (q r : Int)
  | jobIn (w j : Nat)
  | skipNil (w : Nat)
  | jobOut (w j : Nat)
  | popCS (w : Nat)
  | invWI (t : Nat)
  | wiCS (t : Nat)
  | wiCtx (t : Nat)
  | wiErr (t : Nat)
  | retWI (t : Nat) (r : Res)
  | invWS (t : Nat) (nilcb : Bool)
  | wsCS (t : Nat)
  | cbWS (t : Nat) (q r : Int) (a : Act)
  | wsCtx (t : Nat)
  | retWS (t : Nat) (r : Res)
  | envCancel (t : Nat)
  | envErr (t : Nat) (m : Msg)
  | quiesce (B A : List Nat)
deriving DecidableEq, Repr

def Ev.obs : Ev → Option Obs
  | .invNew t L js => some (.invNew t L js)
  | .retNew t => some (.retNew t)
  | .invEnq t js => some (.invEnq t js)
  | .retEnq t q r => some (.retEnq t q r)
  | .jobIn _ j => some (.jobIn j)
  | .jobOut _ j => some (.jobOut j)
  | .invWI t => some (.invWI t)
  | .retWI t r => some (.retWI t r)
  | .invWS t n => some (.invWS t n)
  | .cbWS t q r a => some (.cbWS t q r a)
  | .retWS t r => some (.retWS t r)
  | .envCancel t => some (.envCancel t)
  | .envErr t m => some (.envErr t m)
  | .quiesce B A => some (.quiesce B A)
  | _ => none

/-- candidates for an observable: the harness does not know which worker goroutine runs a job -/
def evsOf (s : St) : Obs → List Ev
  | .invNew t L js => [.invNew t L js]
  | .retNew t => [.retNew t]
  | .invEnq t js => [.invEnq t js]
  | .retEnq t q r => [.retEnq t q r]
  | .jobIn j => (List.range s.ws.length).map (fun w => .jobIn w j)
  | .jobOut j => (List.range s.ws.length).map (fun w => .jobOut w j)
  | .invWI t => [.invWI t]
  | .retWI t r => [.retWI t r]
  | .invWS t n => [.invWS t n]
  | .cbWS t q r a => [.cbWS t q r a]
  | .retWS t r => [.retWS t r]
  | .envCancel t => [.envCancel t]
  | .envErr t m => [.envErr t m]
  | .quiesce B A => [.quiesce B A]

/-- may another worker be started? (queue.go:49, 139) -/
def hasRoom (s : St) : Bool := decide (s.limit ≤ 0 ∨ s.running < s.limit)

/-- `broadcast()`; the next wait channel is allocated at once (see the header) -/
def bcast (b : Bcast) : Bcast := b.broadcast.getWaitCh.1

def setJob (jobs : List Job) (j : Nat) (st : JS) (seq : Option Nat) : List Job :=
  match jobs[j]? with
  | some jb => jobs.set j { jb with st := st, seq := seq }
  | none => jobs

def setJobSt (jobs : List Job) (j : Nat) (st : JS) : List Job :=
  match jobs[j]? with
  | some jb => jobs.set j { jb with st := st }
  | none => jobs

/-- the job is entered -/
def startJob (jobs : List Job) (j : Nat) : List Job :=
  match jobs[j]? with
  | some jb => jobs.set j { jb with st := .active, starts := jb.starts + 1 }
  | none => jobs

/-- body of the `Enqueue` loop for one job (queue.go:49-55) -/
def place (s : St) (j : Nat) : St :=
  if hasRoom s then
    { s with running := s.running + 1, ws := s.ws ++ [.hasJob j],
             jobs := setJob s.jobs j .assigned (some s.nseq), nseq := s.nseq + 1, nasg := s.nasg + 1 }
  else
    { s with qsize := s.qsize + 1, queue := s.queue ++ [j],
             jobs := setJob s.jobs j .queued (some s.nseq), nseq := s.nseq + 1 }

/-- `jobQueue.Push` of an initial element (constructor) -/
def pushInit (s : St) (j : Nat) : St :=
  { s with qsize := s.qsize + 1, queue := s.queue ++ [j],
           jobs := setJob s.jobs j .queued (some s.nseq), nseq := s.nseq + 1 }

/-- the loop of `updateLocked` (queue.go:139-148); `fuel` ≥ queue length -/
def update (s : St) : Nat → St
  | 0 => s
  | n+1 =>
    if hasRoom s then
      match s.queue with
      | [] => s
      | j :: rest =>
        update { s with queue := rest, qsize := s.qsize - 1, running := s.running + 1,
                        ws := s.ws ++ [.hasJob j], jobs := setJobSt s.jobs j .assigned,
                        nasg := s.nasg + 1 } n
    else s

def newJobs (t : Nat) (js : List (Nat × Bool)) : List Job :=
  js.map fun p => { isNil := p.2, st := .fresh, owner := t }

def firstMail (mail : List (Nat × Msg)) (t : Nat) : Option Msg :=
  (mail.find? (·.1 == t)).map (·.2)

def dropMail (mail : List (Nat × Msg)) (t : Nat) : List (Nat × Msg) :=
  match mail with
  | [] => []
  | m :: ms => if m.1 == t then ms else m :: dropMail ms t

def TS.quiet (s : St) (t : Nat) : TS → Bool
  | .wiParked _ ch => !s.bc.closed ch && !s.cx.contains t && (firstMail s.mail t).isNone
  | .wsParked _ _ ch => !s.bc.closed ch && !s.cx.contains t
  | .finished => true
  | _ => false

def TS.parked : TS → Bool
  | .wiParked _ _ | .wsParked _ _ _ => true
  | _ => false

def WSt.quiet : WSt → Bool
  | .inJob _ | .retired => true
  | _ => false

def quiescent (s : St) : Bool :=
  ((List.range s.th.length).all fun t => match s.th[t]? with
    | some ts => TS.quiet s t ts
    | none => true) &&
  s.ws.all WSt.quiet

def pendingIds (s : St) : List Nat :=
  (List.range s.th.length).filter fun t => match s.th[t]? with
    | some ts => ts.parked
    | none => false

def activeJobs (s : St) : List Nat :=
  (List.range s.jobs.length).filter fun j => match s.jobs[j]? with
    | some jb => jb.st == .active
    | none => false

def idsOK (js : List (Nat × Bool)) (first : Nat) : Bool :=
  js.map (·.1) == List.range' first js.length

/-- the sample section of `WaitIdle` (queue.go:72-77) -/
def wiSample (s : St) (t n0 : Nat) : St :=
  if s.running = 0 ∧ s.qsize = 0 then { s with th := s.th.set t (.wiDone .nil n0) }
  else { s with bc := s.bc.getWaitCh.1, th := s.th.set t (.wiParked n0 s.bc.getWaitCh.2) }

/-- the sample section of `WatchState` (queue.go:118-121) -/
def wsSample (s : St) (t : Nat) : St :=
  { s with bc := s.bc.getWaitCh.1, th := s.th.set t (.wsCb s.qsize s.running s.bc.getWaitCh.2) }

def step (s : St) : Ev → Option St
  | .invNew t L js =>
    if s.created = false ∧ t = s.th.length ∧ idsOK js s.jobs.length then
      let s1 : St := { s with created := true, limit := L, jobs := s.jobs ++ newJobs t js, th := s.th ++ [.newDone] }
      let s2 := (js.map (·.1)).foldl pushInit s1
      let s3 := update s2 s2.queue.length
      some (if s3.nasg ≠ s2.nasg then { s3 with bc := bcast s3.bc } else s3)
    else none
  | .retNew t =>
    match s.th[t]? with
    | some .newDone => some { s with th := s.th.set t .finished }
    | _ => none
  | .invEnq t js =>
    if s.created = true ∧ t = s.th.length ∧ idsOK js s.jobs.length then
      some { s with jobs := s.jobs ++ newJobs t js, th := s.th ++ [.enqInv (js.map (·.1))] }
    else none
  | .enqCS t =>
    match s.th[t]? with
    | some (.enqInv js) =>
      let s1 := js.foldl place s
      some { s1 with bc := if js.isEmpty then s1.bc else bcast s1.bc,
                     th := s1.th.set t (.enqDone s1.qsize s1.running) }
    | _ => none
  | .retEnq t q r =>
    match s.th[t]? with
    | some (.enqDone q' r') => if q = q' ∧ r = r' then some { s with th := s.th.set t .finished } else none
    | _ => none
  | .jobIn w j =>
    match s.ws[w]?, s.jobs[j]? with
    | some (.hasJob j'), some jb =>
      if j = j' ∧ jb.isNil = false then
        some { s with ws := s.ws.set w (.inJob j), jobs := startJob s.jobs j }
      else none
    | _, _ => none
  | .skipNil w =>
    match s.ws[w]? with
    | some (.hasJob j) =>
      match s.jobs[j]? with
      | some jb => if jb.isNil then some { s with ws := s.ws.set w .afterJob, jobs := setJobSt s.jobs j .finished } else none
      | none => none
    | _ => none
  | .jobOut w j =>
    match s.ws[w]? with
    | some (.inJob j') =>
      if j = j' then some { s with ws := s.ws.set w .afterJob, jobs := setJobSt s.jobs j .finished } else none
    | _ => none
  | .popCS w =>
    match s.ws[w]? with
    | some .afterJob =>
      match s.queue with
      | [] => some { s with running := s.running - 1, bc := bcast s.bc, ws := s.ws.set w .retired }
      | j :: rest =>
        some { s with queue := rest, qsize := s.qsize - 1, ws := s.ws.set w (.hasJob j),
                      jobs := setJobSt s.jobs j .assigned, nasg := s.nasg + 1 }
    | _ => none
  | .invWI t =>
    if s.created = true ∧ t = s.th.length then some { s with th := s.th ++ [.wiInv s.nseq] } else none
  | .wiCS t =>
    match s.th[t]? with
    | some (.wiInv n0) => some (wiSample s t n0)
    | some (.wiParked n0 ch) => if s.bc.closed ch then some (wiSample s t n0) else none
    | _ => none
  | .wiCtx t =>
    match s.th[t]? with
    | some (.wiParked n0 _) => if s.cx.contains t then some { s with th := s.th.set t (.wiDone .canceled n0) } else none
    | _ => none
  | .wiErr t =>
    match s.th[t]? with
    | some (.wiParked n0 _) =>
      match firstMail s.mail t with
      | some .err => some { s with mail := dropMail s.mail t, th := s.th.set t (.wiDone .err n0) }
      | some .nilErr => some { s with mail := dropMail s.mail t, th := s.th.set t (.wiInv n0) }
      | some .close => some { s with th := s.th.set t (.wiDone .canceled n0) }
      | none => none
    | _ => none
  | .retWI t r =>
    match s.th[t]? with
    | some (.wiDone r' _) => if r = r' then some { s with th := s.th.set t .finished } else none
    | _ => none
  | .invWS t nilcb =>
    if s.created = true ∧ t = s.th.length then
      some { s with th := s.th ++ [if nilcb then .wsDone .nil else .wsInv] }
    else none
  | .wsCS t =>
    match s.th[t]? with
    | some .wsInv => some (wsSample s t)
    | some (.wsParked _ _ ch) => if s.bc.closed ch then some (wsSample s t) else none
    | _ => none
  | .cbWS t q r a =>
    match s.th[t]? with
    | some (.wsCb q' r' ch) =>
      if q = q' ∧ r = r' then
        some { s with th := s.th.set t (match a with
          | .cont => .wsParked q r ch
          | .stop => .wsDone .nil
          | .err => .wsDone .err) }
      else none
    | _ => none
  | .wsCtx t =>
    match s.th[t]? with
    | some (.wsParked _ _ _) => if s.cx.contains t then some { s with th := s.th.set t (.wsDone .canceled) } else none
    | _ => none
  | .retWS t r =>
    match s.th[t]? with
    | some (.wsDone r') => if r = r' then some { s with th := s.th.set t .finished } else none
    | _ => none
  | .envCancel t => if t < s.th.length then some { s with cx := t :: s.cx } else none
  | .envErr t m => if t < s.th.length then some { s with mail := s.mail ++ [(t, m)] } else none
  | .quiesce B A =>
    if quiescent s ∧ B = pendingIds s ∧ A = activeJobs s then some s else none

def allCands (s : St) : List Ev :=
  ((List.range s.th.length).flatMap fun t => [.enqCS t, .wiCS t, .wiCtx t, .wiErr t, .wsCS t, .wsCtx t]) ++
  ((List.range s.ws.length).flatMap fun w => [.skipNil w, .popCS w])

/-- An internal event that may be taken first without losing any observable behaviour: a `WaitIdle`
sample that finds the queue busy (it only re-parks the caller on the current channel; whether the
queue is idle changes only in sections that broadcast), or a worker skipping a nil job. Exploring
only this event in such a state is a partial-order reduction of the *search* (`cands`); the
transition system itself (`step`) and every theorem about it are unaffected, and `accepts_sound`
holds for any `cands`. -/
def wiEager (s : St) (t : Nat) : Bool :=
  let busy := !(s.running == 0 && s.qsize == 0)
  match s.th[t]? with
  | some (.wiInv _) => busy
  | some (.wiParked _ ch) => busy && s.bc.closed ch
  | _ => false

def nilEager (s : St) (w : Nat) : Bool :=
  match s.ws[w]? with
  | some (.hasJob j) =>
    match s.jobs[j]? with
    | some jb => jb.isNil
    | none => false
  | _ => false

def eagerEvent (s : St) : Option Ev :=
  match (List.range s.th.length).find? (wiEager s) with
  | some t => some (.wiCS t)
  | none =>
    match (List.range s.ws.length).find? (nilEager s) with
    | some w => some (.skipNil w)
    | none => none

def cands (s : St) : List Ev :=
  match eagerEvent s with
  | some e => [e]
  | none => allCands s

def model : OLTS St Ev Obs where
  init := {}
  step := step
  obs := Ev.obs
  cands := cands
  evsOf := evsOf

/-! ## parsing of harness lines -/

def parseNats : List String → Option (List Nat)
  | [] => some []
  | x :: xs => do let n ← x.toNat?; let r ← parseNats xs; pure (n :: r)

/-- `J` = job J, `nJ` = nil job with id J -/
def parseJobs : List String → Option (List (Nat × Bool))
  | [] => some []
  | x :: xs => do
    let r ← parseJobs xs
    if x.startsWith "n" then pure (((← (x.drop 1).toNat?), true) :: r)
    else pure (((← x.toNat?), false) :: r)

def parseRes : String → Option Res
  | "nil" => some .nil
  | "canceled" => some .canceled
  | "err" => some .err
  | _ => none

def splitBar : List String → List String × List String
  | [] => ([], [])
  | "|" :: xs => ([], xs)
  | x :: xs => let r := splitBar xs; (x :: r.1, r.2)

def Obs.parse : List String → Option Obs
  | "inv" :: t :: "new" :: L :: js => do pure (.invNew (← t.toNat?) (← L.toInt?) (← parseJobs js))
  | ["ret", t, "new"] => do pure (.retNew (← t.toNat?))
  | "inv" :: t :: "enqueue" :: js => do pure (.invEnq (← t.toNat?) (← parseJobs js))
  | ["ret", t, "enqueue", q, r] => do pure (.retEnq (← t.toNat?) (← q.toInt?) (← r.toInt?))
  | ["cbin", j] => do pure (.jobIn (← j.toNat?))
  | ["cbout", j] => do pure (.jobOut (← j.toNat?))
  | ["inv", t, "waitidle"] => do pure (.invWI (← t.toNat?))
  | ["ret", t, "waitidle", r] => do pure (.retWI (← t.toNat?) (← parseRes r))
  | ["inv", t, "watch", "cb"] => do pure (.invWS (← t.toNat?) false)
  | ["inv", t, "watch", "nilcb"] => do pure (.invWS (← t.toNat?) true)
  | ["cb", t, q, r, "cont"] => do pure (.cbWS (← t.toNat?) (← q.toInt?) (← r.toInt?) .cont)
  | ["cb", t, q, r, "stop"] => do pure (.cbWS (← t.toNat?) (← q.toInt?) (← r.toInt?) .stop)
  | ["cb", t, q, r, "err"] => do pure (.cbWS (← t.toNat?) (← q.toInt?) (← r.toInt?) .err)
  | ["ret", t, "watch", r] => do pure (.retWS (← t.toNat?) (← parseRes r))
  | ["env", "cancel", t] => do pure (.envCancel (← t.toNat?))
  | ["env", "errch", t, "nil"] => do pure (.envErr (← t.toNat?) .nilErr)
  | ["env", "errch", t, "err"] => do pure (.envErr (← t.toNat?) .err)
  | ["env", "errch", t, "close"] => do pure (.envErr (← t.toNat?) .close)
  | "quiesce" :: rest => do
      let p := splitBar rest
      pure (.quiesce (← parseNats p.1) (← parseNats p.2))
  | _ => none

end UtilModel.Conc
