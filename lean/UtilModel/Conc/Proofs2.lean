import UtilModel.Conc.Proofs
/-!
# conc — the inductive invariant, part 2: calls (Enqueue results, WaitIdle, WatchState)
-/
namespace UtilModel.Conc
open UtilModel

/-- what a reported `(queued, running)` pair satisfies -/
def PairOK (L q r : Int) : Prop := 0 ≤ q ∧ 0 ≤ r ∧ (0 < L → r ≤ L) ∧ (0 < q → 0 < L ∧ r = L)

def idle (s : St) : Prop := s.running = 0 ∧ s.qsize = 0

/-- per-call invariant -/
def TSInv (s : St) (t : Nat) : TS → Prop
  | .enqInv js => ∀ j : Nat, j ∈ js → ∃ jb : Job, s.jobs[j]? = some jb ∧ jb.st = .fresh ∧ jb.owner = t
  | .enqDone q r => PairOK s.limit q r
  | .wiInv n0 => n0 ≤ s.nseq
  | .wiParked n0 ch => n0 ≤ s.nseq ∧ ch < s.bc.next ∧ (s.bc.closed ch = false → ¬ idle s)
  | .wiDone r n0 => n0 ≤ s.nseq ∧ (r = .nil → ∀ (j : Nat) (jb : Job) (q : Nat), s.jobs[j]? = some jb →
        jb.seq = some q → q < n0 → jb.st = .finished)
  | .wsCb q r ch => PairOK s.limit q r ∧ ch < s.bc.next ∧
        (s.bc.closed ch = false → s.running = r ∧ s.qsize ≤ q)
  | .wsParked q r ch => PairOK s.limit q r ∧ ch < s.bc.next ∧
        (s.bc.closed ch = false → s.running = r ∧ s.qsize ≤ q)
  | _ => True

structure TInv (s : St) : Prop where
  th : ∀ (t : Nat) (ts : TS), s.th[t]? = some ts → TSInv s t ts
  /-- a job whose enqueue step has not run belongs to a pending Enqueue call -/
  fresh : ∀ (j : Nat) (jb : Job), s.jobs[j]? = some jb → jb.st = .fresh →
            ∃ js : List Nat, s.th[jb.owner]? = some (.enqInv js) ∧ j ∈ js
  nodup : ∀ (t : Nat) (js : List Nat), s.th[t]? = some (.enqInv js) → js.Nodup
  cre : s.created = false → s = {}

structure Inv (s : St) : Prop extends JInv s, TInv s

theorem tinv_init : TInv ({} : St) := by
  refine ⟨?_, ?_, ?_, fun _ => rfl⟩ <;> simp

theorem init_inv : Inv ({} : St) := ⟨jinv_init, tinv_init⟩

/-- the per-call invariant survives any step of somebody else that respects the monotonicity
conditions: the limit is fixed, `nseq` grows, this call's announced jobs are untouched, finished jobs
stay finished and keep their sequence number, new sequence numbers are fresh, and a wait channel that
is still open has seen no change of `running` and at most decrements of the queue size -/
theorem tsinv_mono (s s' : St) (t : Nat) (ts : TS)
    (hL : s'.limit = s.limit) (hn : s.nseq ≤ s'.nseq)
    (hfresh : ∀ (j : Nat) (jb : Job), s.jobs[j]? = some jb → jb.st = .fresh → jb.owner = t →
        s'.jobs[j]? = some jb)
    (hfin : ∀ (j : Nat) (jb' : Job) (q : Nat), s'.jobs[j]? = some jb' → jb'.seq = some q → q < s.nseq →
        ∃ jb : Job, s.jobs[j]? = some jb ∧ jb.seq = some q ∧ (jb.st = .finished → jb'.st = .finished))
    (hnext : s.bc.next ≤ s'.bc.next)
    (hpark : ∀ ch : Nat, ch < s.bc.next → s'.bc.closed ch = false →
        s.bc.closed ch = false ∧ s'.running = s.running ∧ s'.qsize ≤ s.qsize ∧ (idle s' → idle s))
    (h : TSInv s t ts) : TSInv s' t ts := by
  cases ts with
  | enqInv js =>
    intro j hj
    obtain ⟨jb, h1, h2, h3⟩ := h j hj
    exact ⟨jb, hfresh j jb h1 h2 h3, h2, h3⟩
  | enqDone q r => simp only [TSInv] at h ⊢; rw [hL]; exact h
  | wiInv n0 => simp only [TSInv] at h ⊢; omega
  | wiParked n0 ch =>
    simp only [TSInv] at h ⊢
    obtain ⟨h1, h2, h3⟩ := h
    refine ⟨by omega, by omega, fun hc hid => ?_⟩
    obtain ⟨a, _, _, d⟩ := hpark ch h2 hc
    exact h3 a (d hid)
  | wiDone r n0 =>
    simp only [TSInv] at h ⊢
    obtain ⟨h1, h2⟩ := h
    refine ⟨by omega, fun hr j jb' q hj hq hlt => ?_⟩
    obtain ⟨jb, a, b, c⟩ := hfin j jb' q hj hq (by omega)
    exact c (h2 hr j jb q a b hlt)
  | wsCb q r ch =>
    simp only [TSInv] at h ⊢
    obtain ⟨h1, h2, h3⟩ := h
    refine ⟨by rw [hL]; exact h1, by omega, fun hc => ?_⟩
    obtain ⟨a, b, c, _⟩ := hpark ch h2 hc
    have := h3 a
    exact ⟨by omega, by omega⟩
  | wsParked q r ch =>
    simp only [TSInv] at h ⊢
    obtain ⟨h1, h2, h3⟩ := h
    refine ⟨by rw [hL]; exact h1, by omega, fun hc => ?_⟩
    obtain ⟨a, b, c, _⟩ := hpark ch h2 hc
    have := h3 a
    exact ⟨by omega, by omega⟩
  | newDone => trivial
  | wsInv => trivial
  | wsDone r => trivial
  | finished => trivial


/-- the per-call invariant reads only these components -/
theorem tsinv_same (s s' : St) (t : Nat) (ts : TS) (hj : s'.jobs = s.jobs) (hL : s'.limit = s.limit)
    (hn : s'.nseq = s.nseq) (hb : s'.bc = s.bc) (hr : s'.running = s.running) (hq : s'.qsize = s.qsize)
    (h : TSInv s t ts) : TSInv s' t ts := by
  cases ts <;> simp only [TSInv, idle, hj, hL, hn, hb, hr, hq] at h ⊢ <;> exact h

theorem created_of_th (s : St) (hT : TInv s) (t : Nat) (ts : TS) (h : s.th[t]? = some ts) :
    s.created = true := by
  cases hc : s.created
  · have := hT.cre hc; rw [this] at h; simp at h
  · rfl

/-- call `t0` moves from state `a` to state `b` (neither a pending Enqueue); contexts and mail may change -/
theorem tinv_th_set (s : St) (t0 : Nat) (a b : TS) (cx : List Nat) (mail : List (Nat × Msg)) (hT : TInv s)
    (ha : s.th[t0]? = some a) (hna : ∀ js, a ≠ .enqInv js) (hnb : ∀ js, b ≠ .enqInv js)
    (hb : TSInv s t0 b) : TInv { s with th := s.th.set t0 b, cx := cx, mail := mail } := by
  have hcr := created_of_th s hT t0 a ha
  refine ⟨?_, ?_, ?_, ?_⟩
  · intro t ts hts
    rcases getElem?_set_cases _ _ _ _ _ hts with ⟨e, rfl⟩ | ⟨_, h'⟩
    · rw [e]; exact tsinv_same s _ t0 _ rfl rfl rfl rfl rfl rfl hb
    · exact tsinv_same s _ t ts rfl rfl rfl rfl rfl rfl (hT.th t ts h')
  · intro j jb hj hf
    obtain ⟨js, h1, h2⟩ := hT.fresh j jb hj hf
    have hne : t0 ≠ jb.owner := by intro e; rw [← e, ha] at h1; cases h1; exact hna js rfl
    exact ⟨js, by simp only; rw [getElem?_set_ne' _ _ _ _ hne]; exact h1, h2⟩
  · intro t js hts
    rcases getElem?_set_cases _ _ _ _ _ hts with ⟨_, e⟩ | ⟨_, h'⟩
    · exact absurd e.symm (hnb js)
    · exact hT.nodup t js h'
  · intro hc; simp only at hc; rw [hcr] at hc; cases hc

/-- a new call (not an Enqueue) is invoked -/
theorem tinv_th_append (s : St) (b : TS) (hT : TInv s) (hc : s.created = true) (hnb : ∀ js, b ≠ .enqInv js)
    (hb : TSInv s s.th.length b) : TInv { s with th := s.th ++ [b] } := by
  refine ⟨?_, ?_, ?_, ?_⟩
  · intro t ts hts
    rcases getElem?_snoc_cases _ _ _ _ hts with ⟨_, h'⟩ | ⟨e, rfl⟩
    · exact tsinv_same s _ t ts rfl rfl rfl rfl rfl rfl (hT.th t ts h')
    · rw [e]; exact tsinv_same s _ _ _ rfl rfl rfl rfl rfl rfl hb
  · intro j jb hj hf
    obtain ⟨js, h1, h2⟩ := hT.fresh j jb hj hf
    exact ⟨js, getElem?_snoc_left _ _ _ _ h1, h2⟩
  · intro t js hts
    rcases getElem?_snoc_cases _ _ _ _ hts with ⟨_, h'⟩ | ⟨_, e⟩
    · exact hT.nodup t js h'
    · exact absurd e.symm (hnb js)
  · intro h; simp only at h; rw [hc] at h; cases h

theorem inv_th_set (s : St) (t0 : Nat) (a b : TS) (cx : List Nat) (mail : List (Nat × Msg)) (hi : Inv s)
    (ha : s.th[t0]? = some a) (hna : ∀ js, a ≠ .enqInv js) (hnb : ∀ js, b ≠ .enqInv js)
    (hb : TSInv s t0 b) : Inv { s with th := s.th.set t0 b, cx := cx, mail := mail } :=
  ⟨jinv_th s _ cx mail hi.toJInv, tinv_th_set s t0 a b cx mail hi.toTInv ha hna hnb hb⟩


/-- a step of a worker (or anything else that leaves the calls alone) -/
theorem tinv_jstep (s s' : St) (hT : TInv s) (hth : s'.th = s.th) (hcr : s'.created = s.created)
    (hc : s.created = true)
    (hL : s'.limit = s.limit) (hn : s.nseq ≤ s'.nseq)
    (hfresh : ∀ (j : Nat) (jb : Job), s.jobs[j]? = some jb → jb.st = .fresh → s'.jobs[j]? = some jb)
    (hfresh' : ∀ (j : Nat) (jb : Job), s'.jobs[j]? = some jb → jb.st = .fresh → s.jobs[j]? = some jb)
    (hfin : ∀ (j : Nat) (jb' : Job) (q : Nat), s'.jobs[j]? = some jb' → jb'.seq = some q → q < s.nseq →
        ∃ jb : Job, s.jobs[j]? = some jb ∧ jb.seq = some q ∧ (jb.st = .finished → jb'.st = .finished))
    (hnext : s.bc.next ≤ s'.bc.next)
    (hpark : ∀ ch : Nat, ch < s.bc.next → s'.bc.closed ch = false →
        s.bc.closed ch = false ∧ s'.running = s.running ∧ s'.qsize ≤ s.qsize ∧ (idle s' → idle s)) :
    TInv s' := by
  refine ⟨?_, ?_, ?_, ?_⟩
  · intro t ts hts
    rw [hth] at hts
    exact tsinv_mono s s' t ts hL hn (fun j jb a b _ => hfresh j jb a b) hfin hnext hpark (hT.th t ts hts)
  · intro j jb hj hf
    obtain ⟨js, h1, h2⟩ := hT.fresh j jb (hfresh' j jb hj hf) hf
    exact ⟨js, by rw [hth]; exact h1, h2⟩
  · intro t js hts; rw [hth] at hts; exact hT.nodup t js hts
  · intro h; rw [hcr, hc] at h; cases h

/-- when the queue is idle every job whose enqueue step has run is finished -/
theorem idle_all_finished (s : St) (h : JInv s) (hid : idle s) (j : Nat) (jb : Job) (q : Nat)
    (hj : s.jobs[j]? = some jb) (hq : jb.seq = some q) : jb.st = .finished := by
  obtain ⟨hr, hqs⟩ := hid
  have hrun := h.run
  have h0 : s.ws.countP WSt.live = 0 := by omega
  have hA : s.ws.countP WSt.isHasJob = 0 := by
    rw [List.countP_eq_zero] at h0 ⊢
    intro x hx hh; have := h0 x hx; cases x <;> simp [WSt.live, WSt.isHasJob] at this hh
  have hR : s.ws.countP WSt.isInJob = 0 := by
    rw [List.countP_eq_zero] at h0 ⊢
    intro x hx hh; have := h0 x hx; cases x <;> simp [WSt.live, WSt.isInJob] at this hh
  have hna := no_assigned s h.toJInv0 hA
  have hnr : jb.st ≠ .active := by
    intro e
    have := h.cntR
    rw [hR, List.countP_eq_zero] at this
    have := this jb (List.mem_of_getElem? hj)
    simp [Job.isActive, e] at this
  have hql : s.queue.length = 0 := by have := h.qlen; omega
  obtain ⟨a, b⟩ := h.seqs j jb hj
  have hb := b q hq
  have h1 : jb.st ≠ .fresh := by intro e; have := a.mp e; rw [hq] at this; cases this
  have h2 : jb.st ≠ .queued := by
    intro e; have := hb.2.mp e; have := h.nseq; omega
  have h3 := hna j jb hj
  cases hs : jb.st <;> simp_all

/-- the counters sampled in a critical section satisfy the reported-pair condition -/
theorem pair_ok_now (s : St) (h : JInv s) : PairOK s.limit s.qsize s.running := by
  refine ⟨by have := h.qlen; omega, by have := h.run; omega, h.lim, ?_⟩
  intro hq
  apply h.full
  intro e
  have := h.qlen; rw [e] at this; simp at this; omega


theorem closed_same_of_cur (s : St) (h : JInv s) : s.bc.getWaitCh.1 = s.bc ∧
    s.bc.getWaitCh.2 < s.bc.next ∧ s.bc.closed s.bc.getWaitCh.2 = false := by
  obtain ⟨g1, g2, g3, g4, g5, g6, g7⟩ := Bcast.getWaitCh_spec s.bc h.bcwf
  have e := getWaitCh_cur s.bc h.bccur
  rw [e] at g2 g5
  exact ⟨e, g2, g5⟩

theorem step_wiSample (s : St) (t n0 : Nat) (a : TS) (hi : Inv s) (ha : s.th[t]? = some a)
    (hna : ∀ js, a ≠ .enqInv js) (hn0 : n0 ≤ s.nseq) : Inv (wiSample s t n0) := by
  unfold wiSample
  split
  · rename_i hid
    refine inv_th_set s t a _ s.cx s.mail hi ha hna (by intro js e; cases e) ?_
    simp only [TSInv]
    exact ⟨hn0, fun _ j jb q hj hq _ => idle_all_finished s hi.toJInv hid j jb q hj hq⟩
  · rename_i hid
    obtain ⟨e, g2, g5⟩ := closed_same_of_cur s hi.toJInv
    rw [e]
    refine inv_th_set s t a _ s.cx s.mail hi ha hna (by intro js e; cases e) ?_
    simp only [TSInv]
    exact ⟨hn0, g2, fun _ => hid⟩

theorem step_wsSample (s : St) (t : Nat) (a : TS) (hi : Inv s) (ha : s.th[t]? = some a)
    (hna : ∀ js, a ≠ .enqInv js) : Inv (wsSample s t) := by
  unfold wsSample
  obtain ⟨e, g2, g5⟩ := closed_same_of_cur s hi.toJInv
  rw [e]
  refine inv_th_set s t a _ s.cx s.mail hi ha hna (by intro js e; cases e) ?_
  simp only [TSInv]
  refine ⟨pair_ok_now s hi.toJInv, g2, ?_⟩
  intro _; simp

theorem step_inv_simple (s : St) (e : Ev) (s' : St) (hi : Inv s) (hs : step s e = some s')
    (hne : (∀ t L js, e ≠ .invNew t L js) ∧ (∀ t js, e ≠ .invEnq t js) ∧ (∀ t, e ≠ .enqCS t) ∧
           (∀ w j, e ≠ .jobIn w j) ∧ (∀ w, e ≠ .skipNil w) ∧ (∀ w j, e ≠ .jobOut w j) ∧ (∀ w, e ≠ .popCS w)) :
    Inv s' := by
  obtain ⟨n1, n2, n3, n4, n5, n6, n7⟩ := hne
  cases e with
  | invNew t L js => exact absurd rfl (n1 t L js)
  | invEnq t js => exact absurd rfl (n2 t js)
  | enqCS t => exact absurd rfl (n3 t)
  | jobIn w j => exact absurd rfl (n4 w j)
  | skipNil w => exact absurd rfl (n5 w)
  | jobOut w j => exact absurd rfl (n6 w j)
  | popCS w => exact absurd rfl (n7 w)
  | retNew t =>
    simp only [step] at hs; split at hs <;> simp at hs; subst hs
    rename_i ha
    exact inv_th_set s t _ _ s.cx s.mail hi ha (by intro js e; cases e) (by intro js e; cases e) trivial
  | retEnq t q r =>
    simp only [step] at hs; split at hs <;> simp at hs
    obtain ⟨_, rfl⟩ := hs
    rename_i ha _
    exact inv_th_set s t _ _ s.cx s.mail hi ha (by intro js e; cases e) (by intro js e; cases e) trivial
  | invWI t =>
    simp only [step] at hs; split at hs <;> simp at hs; subst hs
    rename_i hc
    exact ⟨jinv_th s _ s.cx s.mail hi.toJInv,
      tinv_th_append s _ hi.toTInv hc.1 (by intro js e; cases e) (by simp [TSInv])⟩
  | wiCS t =>
    simp only [step] at hs; split at hs <;> try simp at hs
    · subst hs; rename_i n0 ha
      exact step_wiSample s t n0 _ hi ha (by intro js e; cases e) (hi.th t _ ha)
    · obtain ⟨_, rfl⟩ := hs; rename_i n0 ch ha _
      exact step_wiSample s t n0 _ hi ha (by intro js e; cases e) (hi.th t _ ha).1
  | wiCtx t =>
    simp only [step] at hs; split at hs <;> simp at hs
    obtain ⟨_, rfl⟩ := hs; rename_i n0 ch ha _
    refine inv_th_set s t _ _ s.cx s.mail hi ha (by intro js e; cases e) (by intro js e; cases e) ?_
    simp only [TSInv]; exact ⟨(hi.th t _ ha).1, by intro e; cases e⟩
  | wiErr t =>
    simp only [step] at hs; split at hs <;> try simp at hs
    rename_i n0 ch ha
    have h0 := (hi.th t _ ha).1
    split at hs <;> simp at hs <;> subst hs
    · refine inv_th_set s t _ _ s.cx _ hi ha (by intro js e; cases e) (by intro js e; cases e) ?_
      simp only [TSInv]; exact ⟨h0, by intro e; cases e⟩
    · exact inv_th_set s t _ _ s.cx _ hi ha (by intro js e; cases e) (by intro js e; cases e) h0
    · refine inv_th_set s t _ _ s.cx s.mail hi ha (by intro js e; cases e) (by intro js e; cases e) ?_
      simp only [TSInv]; exact ⟨h0, by intro e; cases e⟩
  | retWI t r =>
    simp only [step] at hs; split at hs <;> simp at hs
    obtain ⟨_, rfl⟩ := hs; rename_i ha _
    exact inv_th_set s t _ _ s.cx s.mail hi ha (by intro js e; cases e) (by intro js e; cases e) trivial
  | invWS t nilcb =>
    simp only [step] at hs; split at hs <;> simp at hs; subst hs
    rename_i hc
    refine ⟨jinv_th s _ s.cx s.mail hi.toJInv,
      tinv_th_append s _ hi.toTInv hc.1 (by intro js e; split at e <;> cases e) ?_⟩
    split <;> trivial
  | wsCS t =>
    simp only [step] at hs; split at hs <;> try simp at hs
    · subst hs; rename_i ha
      exact step_wsSample s t _ hi ha (by intro js e; cases e)
    · obtain ⟨_, rfl⟩ := hs; rename_i q r ch ha _
      exact step_wsSample s t _ hi ha (by intro js e; cases e)
  | cbWS t q r a =>
    simp only [step] at hs; split at hs <;> simp at hs
    rename_i q' r' ch ha
    obtain ⟨⟨hq, hr⟩, rfl⟩ := hs
    subst hq hr
    have h0 := hi.th t _ ha
    refine inv_th_set s t _ _ s.cx s.mail hi ha (by intro js e; cases e) (by intro js e; cases a <;> cases e) ?_
    cases a <;> first | exact h0 | trivial
  | wsCtx t =>
    simp only [step] at hs; split at hs <;> simp at hs
    obtain ⟨_, rfl⟩ := hs; rename_i q r ch ha _
    exact inv_th_set s t _ _ s.cx s.mail hi ha (by intro js e; cases e) (by intro js e; cases e) trivial
  | retWS t r =>
    simp only [step] at hs; split at hs <;> simp at hs
    obtain ⟨_, rfl⟩ := hs; rename_i ha _
    exact inv_th_set s t _ _ s.cx s.mail hi ha (by intro js e; cases e) (by intro js e; cases e) trivial
  | envCancel t =>
    simp only [step] at hs; split at hs <;> simp at hs; subst hs
    rename_i hlt
    refine ⟨jinv_th s _ _ s.mail hi.toJInv, ⟨?_, hi.fresh, hi.nodup, ?_⟩⟩
    · intro t' ts h'; exact tsinv_same s _ t' ts rfl rfl rfl rfl rfl rfl (hi.th t' ts h')
    · intro hc; have := hi.cre hc; rw [this] at hlt; simp at hlt
  | envErr t m =>
    simp only [step] at hs; split at hs <;> simp at hs; subst hs
    rename_i hlt
    refine ⟨jinv_th s _ s.cx _ hi.toJInv, ⟨?_, hi.fresh, hi.nodup, ?_⟩⟩
    · intro t' ts h'; exact tsinv_same s _ t' ts rfl rfl rfl rfl rfl rfl (hi.th t' ts h')
    · intro hc; have := hi.cre hc; rw [this] at hlt; simp at hlt
  | quiesce B A =>
    simp only [step] at hs; split at hs <;> simp at hs; subst hs; exact hi


/-- frame facts for replacing one non-fresh job by a non-fresh job with the same sequence number -/
theorem jobs_set_frame (jobs : List Job) (j : Nat) (jb jb' : Job) (hj : jobs[j]? = some jb)
    (hnf : jb.st ≠ .fresh) (hnf' : jb'.st ≠ .fresh) (hseq : jb'.seq = jb.seq)
    (hfin : jb.st = .finished → jb'.st = .finished) :
    (∀ (u : Nat) (x : Job), jobs[u]? = some x → x.st = .fresh → (jobs.set j jb')[u]? = some x) ∧
    (∀ (u : Nat) (x : Job), (jobs.set j jb')[u]? = some x → x.st = .fresh → jobs[u]? = some x) ∧
    (∀ (u : Nat) (x' : Job) (q : Nat), (jobs.set j jb')[u]? = some x' → x'.seq = some q →
        ∃ x : Job, jobs[u]? = some x ∧ x.seq = some q ∧ (x.st = .finished → x'.st = .finished)) := by
  refine ⟨?_, ?_, ?_⟩
  · intro u x hx hf
    have : j ≠ u := by intro e; subst e; rw [hj] at hx; cases hx; exact hnf hf
    rw [getElem?_set_ne' _ _ _ _ this]; exact hx
  · intro u x hx hf
    rcases getElem?_set_cases _ _ _ _ _ hx with ⟨_, rfl⟩ | ⟨_, hx'⟩
    · exact absurd hf hnf'
    · exact hx'
  · intro u x' q hx hq
    rcases getElem?_set_cases _ _ _ _ _ hx with ⟨e, rfl⟩ | ⟨_, hx'⟩
    · exact ⟨jb, by rw [e]; exact hj, by rw [← hseq]; exact hq, hfin⟩
    · exact ⟨x', hx', hq, id⟩

theorem step_inv_jobIn (s : St) (w j : Nat) (s' : St) (hi : Inv s) (hs : step s (.jobIn w j) = some s') : Inv s' := by
  simp only [step] at hs; split at hs <;> try simp at hs
  rename_i j' jb hw hj
  obtain ⟨⟨rfl, hnil⟩, rfl⟩ := hs
  obtain ⟨jb0, hj0, hst⟩ := hi.hasJ w j hw
  rw [hj] at hj0; cases hj0
  have hJ0 := jinv0_jobIn s w j jb hi.toJInv0 hw hj hnil
  obtain ⟨f1, f2, f3⟩ := jobs_set_frame s.jobs j jb { jb with st := .active, starts := jb.starts + 1 } hj
    (by rw [hst]; simp) (by simp) rfl (by rw [hst]; simp)
  have hc := created_of_th s hi.toTInv
  refine ⟨⟨hJ0, hi.full⟩, ?_⟩
  have hcr : s.created = true := by
    cases hcc : s.created
    · have := hi.cre hcc; rw [this] at hw; simp at hw
    · rfl
  refine tinv_jstep s _ hi.toTInv rfl rfl hcr rfl (Nat.le_refl _) ?_ ?_ ?_ (Nat.le_refl _) ?_
  · simp only [startJob_eq hj]; exact f1
  · simp only [startJob_eq hj]; exact f2
  · simp only [startJob_eq hj]; intro u x' q a b _; exact f3 u x' q a b
  · intro ch _ hcl; exact ⟨hcl, rfl, Int.le_refl _, id⟩

theorem created_of_ws (s : St) (hT : TInv s) (w : Nat) (x : WSt) (h : s.ws[w]? = some x) :
    s.created = true := by
  cases hc : s.created
  · have := hT.cre hc; rw [this] at h; simp at h
  · rfl

theorem step_inv_release (s : St) (w j : Nat) (a : WSt) (jb : Job) (hi : Inv s) (hw : s.ws[w]? = some a)
    (ha : (a = .hasJob j ∧ jb.isNil = true) ∨ a = .inJob j) (hj : s.jobs[j]? = some jb) :
    Inv { s with ws := s.ws.set w .afterJob, jobs := setJobSt s.jobs j .finished } := by
  have hJ0 := jinv0_release s w j a jb hi.toJInv0 hw ha hj
  have hnf : jb.st ≠ .fresh := by
    rcases ha with ⟨e, _⟩ | e <;> subst e
    · obtain ⟨x, hx, hxs⟩ := hi.hasJ w j hw; rw [hj] at hx; cases hx; rw [hxs]; simp
    · obtain ⟨x, hx, hxs, _⟩ := hi.inJ w j hw; rw [hj] at hx; cases hx; rw [hxs]; simp
  obtain ⟨f1, f2, f3⟩ := jobs_set_frame s.jobs j jb { jb with st := .finished } hj hnf (by simp) rfl (fun _ => rfl)
  refine ⟨⟨hJ0, hi.full⟩, ?_⟩
  refine tinv_jstep s _ hi.toTInv rfl rfl (created_of_ws s hi.toTInv w a hw) rfl (Nat.le_refl _) ?_ ?_ ?_ (Nat.le_refl _) ?_
  · simp only [setJobSt_eq hj]; exact f1
  · simp only [setJobSt_eq hj]; exact f2
  · simp only [setJobSt_eq hj]; intro u x' q a b _; exact f3 u x' q a b
  · intro ch _ hcl; exact ⟨hcl, rfl, Int.le_refl _, id⟩

theorem step_inv_skipNil (s : St) (w : Nat) (s' : St) (hi : Inv s) (hs : step s (.skipNil w) = some s') : Inv s' := by
  simp only [step] at hs; split at hs <;> try simp at hs
  rename_i j hw
  split at hs <;> try simp at hs
  rename_i jb hj
  obtain ⟨hnil, rfl⟩ := hs
  exact step_inv_release s w j _ jb hi hw (Or.inl ⟨rfl, hnil⟩) hj

theorem step_inv_jobOut (s : St) (w j : Nat) (s' : St) (hi : Inv s) (hs : step s (.jobOut w j) = some s') : Inv s' := by
  simp only [step] at hs; split at hs <;> try simp at hs
  rename_i j' hw
  obtain ⟨rfl, rfl⟩ := hs
  obtain ⟨jb, hj, _⟩ := hi.inJ w j hw
  exact step_inv_release s w j _ jb hi hw (Or.inr rfl) hj

theorem step_inv_popCS (s : St) (w : Nat) (s' : St) (hi : Inv s) (hs : step s (.popCS w) = some s') : Inv s' := by
  simp only [step] at hs; split at hs <;> try simp at hs
  rename_i hw
  have hcr := created_of_ws s hi.toTInv w _ hw
  split at hs <;> simp at hs <;> subst hs
  · -- retire
    rename_i hq
    have hJ0 := jinv0_retire s w hi.toJInv0 hw
    obtain ⟨_, _, b3, b4⟩ := bcast_wf s.bc
    refine ⟨⟨hJ0, by intro h; exact absurd hq h⟩, ?_⟩
    refine tinv_jstep s _ hi.toTInv rfl rfl hcr rfl (Nat.le_refl _) (fun _ _ a _ => a) (fun _ _ a _ => a)
      (fun u x' q a b _ => ⟨x', a, b, id⟩) b3 ?_
    intro ch hlt hcl
    simp only at hcl
    rw [b4 ch hlt] at hcl; cases hcl
  · -- next job
    rename_i j rest hq
    have hJ0 := jinv0_popTo s w j rest hi.toJInv0 hq hw
    obtain ⟨jb, hj, hst, hsq⟩ := queue_head s hi.toJInv0 j rest hq
    obtain ⟨f1, f2, f3⟩ := jobs_set_frame s.jobs j jb { jb with st := .assigned } hj (by rw [hst]; simp) (by simp) rfl
      (by rw [hst]; simp)
    refine ⟨⟨hJ0, ?_⟩, ?_⟩
    · intro _; exact hi.full (by rw [hq]; simp)
    · refine tinv_jstep s _ hi.toTInv rfl rfl hcr rfl (Nat.le_refl _) ?_ ?_ ?_ (Nat.le_refl _) ?_
      · simp only [setJobSt_eq hj]; exact f1
      · simp only [setJobSt_eq hj]; exact f2
      · simp only [setJobSt_eq hj]; intro u x' q a b _; exact f3 u x' q a b
      · intro ch _ hcl
        refine ⟨hcl, rfl, by simp only; omega, ?_⟩
        intro hid
        exfalso
        have hrun := hi.run
        have := countP_pos_of_getElem? WSt.live s.ws w _ hw rfl
        simp only [idle] at hid
        omega


theorem newJobs_get (jobs : List Job) (t : Nat) (js : List (Nat × Bool)) (j : Nat)
    (hj : j ∈ List.range' jobs.length js.length) :
    ∃ jb : Job, (jobs ++ newJobs t js)[j]? = some jb ∧ jb.st = .fresh ∧ jb.owner = t ∧ jb.seq = none := by
  rw [List.mem_range'_1] at hj
  have hlen : (newJobs t js).length = js.length := by simp [newJobs]
  have hlt : j - jobs.length < (newJobs t js).length := by omega
  refine ⟨(newJobs t js)[j - jobs.length], ?_, ?_⟩
  · rw [List.getElem?_append_right (by omega)]
    exact List.getElem?_eq_getElem hlt
  · have := List.getElem_mem hlt
    simp only [newJobs, List.mem_map] at this
    obtain ⟨p, _, hp⟩ := this
    simp only [newJobs] at hp ⊢
    rw [← hp]; exact ⟨rfl, rfl, rfl⟩

theorem newJobs_new (jobs : List Job) (t : Nat) (js : List (Nat × Bool)) (u : Nat) (x : Job)
    (hx : (jobs ++ newJobs t js)[u]? = some x) :
    jobs[u]? = some x ∨ (jobs.length ≤ u ∧ u ∈ List.range' jobs.length js.length ∧ x.st = .fresh ∧
      x.owner = t ∧ x.seq = none) := by
  by_cases hlt : u < jobs.length
  · left; rw [List.getElem?_append_left hlt] at hx; exact hx
  · right
    rw [List.getElem?_append_right (by omega)] at hx
    have hl := lt_of_getElem? hx
    have hlen : (newJobs t js).length = js.length := by simp [newJobs]
    have := List.mem_of_getElem? hx
    simp only [newJobs, List.mem_map] at this
    obtain ⟨p, _, rfl⟩ := this
    exact ⟨by omega, by rw [List.mem_range'_1]; omega, rfl, rfl, rfl⟩

theorem step_inv_invEnq (s : St) (t : Nat) (js : List (Nat × Bool)) (s' : St) (hi : Inv s)
    (hs : step s (.invEnq t js) = some s') : Inv s' := by
  simp only [step] at hs; split at hs <;> simp at hs; subst hs
  rename_i hc
  obtain ⟨hcr, rfl, hids⟩ := hc
  have hids' : js.map (·.1) = List.range' s.jobs.length js.length := by
    simpa [idsOK] using hids
  have hJ0 := jinv0_announce s s.th.length js hi.toJInv0
  have hold : ∀ (u : Nat) (x : Job), s.jobs[u]? = some x → (s.jobs ++ newJobs s.th.length js)[u]? = some x := by
    intro u x hx; rw [List.getElem?_append_left (lt_of_getElem? hx)]; exact hx
  refine ⟨⟨⟨hJ0.bcwf, hJ0.bccur, hJ0.qlen, hJ0.run, hJ0.lim, hJ0.nseq, hJ0.qjobs, hJ0.seqs, hJ0.seqinj, hJ0.cntA,
    hJ0.cntR, hJ0.hasJ, hJ0.inJ, hJ0.uniq, hJ0.starts, hJ0.l1⟩, hi.full⟩, ⟨?_, ?_, ?_, ?_⟩⟩
  · intro t' ts hts
    rcases getElem?_snoc_cases _ _ _ _ hts with ⟨_, h'⟩ | ⟨e, rfl⟩
    · refine tsinv_mono s _ t' ts rfl (Nat.le_refl _) (fun j jb a _ _ => hold j jb a) ?_ (Nat.le_refl _) ?_ (hi.th t' ts h')
      · intro j jb' q hj hq _
        rcases newJobs_new _ _ _ _ _ hj with h1 | ⟨_, _, _, _, h5⟩
        · exact ⟨jb', h1, hq, id⟩
        · rw [h5] at hq; cases hq
      · intro ch _ hcl; exact ⟨hcl, rfl, Int.le_refl _, id⟩
    · simp only [TSInv]
      intro j hj
      rw [hids'] at hj
      obtain ⟨jb, h1, h2, h3, _⟩ := newJobs_get s.jobs s.th.length js j hj
      exact ⟨jb, h1, h2, by rw [h3, e]⟩
  · intro j jb hj hf
    rcases newJobs_new _ _ _ _ _ hj with h1 | ⟨_, h2, _, h4, _⟩
    · obtain ⟨js0, a, b⟩ := hi.fresh j jb h1 hf
      exact ⟨js0, getElem?_snoc_left _ _ _ _ a, b⟩
    · refine ⟨js.map (·.1), ?_, by rw [hids']; exact h2⟩
      rw [h4]; simp
  · intro t' js0 hts
    rcases getElem?_snoc_cases _ _ _ _ hts with ⟨_, h'⟩ | ⟨_, e⟩
    · exact hi.nodup t' js0 h'
    · cases e; rw [hids']; exact List.nodup_range'
  · intro h; simp only at h; rw [hcr] at h; cases h


/-- what the Enqueue loop leaves alone / how it moves things, for the jobs `js` it handles -/
structure PlaceFrame (s s1 : St) (js : List Nat) : Prop where
  th : s1.th = s.th
  cx : s1.cx = s.cx
  mail : s1.mail = s.mail
  bc : s1.bc = s.bc
  limit : s1.limit = s.limit
  created : s1.created = s.created
  nseq : s.nseq ≤ s1.nseq
  other : ∀ u : Nat, u ∉ js → s1.jobs[u]? = s.jobs[u]?
  mine : ∀ u : Nat, u ∈ js → ∀ x : Job, s1.jobs[u]? = some x →
          x.st ≠ .fresh ∧ ∃ q : Nat, x.seq = some q ∧ s.nseq ≤ q

theorem placeFrame_refl (s : St) : PlaceFrame s s [] :=
  ⟨rfl, rfl, rfl, rfl, rfl, rfl, Nat.le_refl _, fun _ _ => rfl, fun u hu => by simp at hu⟩

theorem place_step (s : St) (j : Nat) (jb : Job) (hJ : JInv s) (hj : s.jobs[j]? = some jb) (hf : jb.st = .fresh) :
    JInv (place s j) ∧ PlaceFrame s (place s j) [j] := by
  have hsetget : ∀ (st : JS) (u : Nat), u ∉ [j] →
      (setJob s.jobs j st (some s.nseq))[u]? = s.jobs[u]? := by
    intro st u hu
    rw [setJob_eq hj]
    have : j ≠ u := by intro e; subst e; simp at hu
    exact getElem?_set_ne' _ _ _ _ this
  have hmine : ∀ (st : JS), st ≠ .fresh → ∀ u : Nat, u ∈ [j] → ∀ x : Job,
      (setJob s.jobs j st (some s.nseq))[u]? = some x → x.st ≠ .fresh ∧ ∃ q : Nat, x.seq = some q ∧ s.nseq ≤ q := by
    intro st hst u hu x hx
    simp at hu; subst hu
    rw [setJob_eq hj, getElem?_set_self' _ _ _ _ hj] at hx
    cases hx
    exact ⟨hst, s.nseq, rfl, Nat.le_refl _⟩
  unfold place
  split
  · rename_i hr
    have hq : s.queue = [] := by
      cases hqq : s.queue with
      | nil => rfl
      | cons a l =>
        exfalso
        have := hJ.full (by rw [hqq]; simp)
        simp [hasRoom] at hr
        omega
    refine ⟨⟨jinv0_assignNew s j jb hJ.toJInv0 hj hf hq hr, by intro h; exact absurd hq h⟩, ?_⟩
    exact ⟨rfl, rfl, rfl, rfl, rfl, rfl, Nat.le_succ _, hsetget _, hmine _ (by simp)⟩
  · rename_i hr
    refine ⟨⟨jinv0_enq s j jb hJ.toJInv0 hj hf, ?_⟩, ?_⟩
    · intro _
      simp [hasRoom] at hr
      have := hJ.lim hr.1
      exact ⟨hr.1, by dsimp only; omega⟩
    · exact ⟨rfl, rfl, rfl, rfl, rfl, rfl, Nat.le_succ _, hsetget _, hmine _ (by simp)⟩

theorem fold_place (js : List Nat) (s : St) (hJ : JInv s)
    (hfr : ∀ j : Nat, j ∈ js → ∃ jb : Job, s.jobs[j]? = some jb ∧ jb.st = .fresh) (hnd : js.Nodup) :
    JInv (js.foldl place s) ∧ PlaceFrame s (js.foldl place s) js := by
  induction js generalizing s with
  | nil => exact ⟨hJ, placeFrame_refl s⟩
  | cons j rest ih =>
    obtain ⟨jb, hj, hf⟩ := hfr j (by simp)
    obtain ⟨hJ1, F1⟩ := place_step s j jb hJ hj hf
    rw [List.nodup_cons] at hnd
    have hfr1 : ∀ u : Nat, u ∈ rest → ∃ x : Job, (place s j).jobs[u]? = some x ∧ x.st = .fresh := by
      intro u hu
      obtain ⟨x, hx, hxf⟩ := hfr u (by simp [hu])
      have : u ∉ [j] := by intro e; simp at e; subst e; exact hnd.1 hu
      exact ⟨x, by rw [F1.other u this]; exact hx, hxf⟩
    obtain ⟨hJ2, F2⟩ := ih (place s j) hJ1 hfr1 hnd.2
    simp only [List.foldl_cons]
    refine ⟨hJ2, ⟨?_, ?_, ?_, ?_, ?_, ?_, ?_, ?_, ?_⟩⟩
    · rw [F2.th, F1.th]
    · rw [F2.cx, F1.cx]
    · rw [F2.mail, F1.mail]
    · rw [F2.bc, F1.bc]
    · rw [F2.limit, F1.limit]
    · rw [F2.created, F1.created]
    · exact Nat.le_trans F1.nseq F2.nseq
    · intro u hu
      simp at hu
      rw [F2.other u hu.2, F1.other u (by simp [hu.1])]
    · intro u hu x hx
      by_cases hur : u ∈ rest
      · obtain ⟨a, q, b, c⟩ := F2.mine u hur x hx
        exact ⟨a, q, b, Nat.le_trans F1.nseq c⟩
      · have huj : u = j := by simp at hu; rcases hu with e | e; exact e; exact absurd e hur
        rw [F2.other u hur] at hx
        exact F1.mine u (by simp [huj]) x hx


theorem jinv_bc_th (s : St) (bc' : Bcast) (th' : List TS) (h : JInv s) (hwf : bc'.WF) (hcur : bc'.cur ≠ none) :
    JInv { s with bc := bc', th := th' } :=
  ⟨⟨hwf, hcur, h.qlen, h.run, h.lim, h.nseq, h.qjobs, h.seqs, h.seqinj, h.cntA, h.cntR,
   h.hasJ, h.inJ, h.uniq, h.starts, h.l1⟩, h.full⟩

theorem step_inv_enqCS (s : St) (t : Nat) (s' : St) (hi : Inv s) (hs : step s (.enqCS t) = some s') : Inv s' := by
  simp only [step] at hs; split at hs <;> simp at hs; subst hs
  rename_i js ha
  have hT := hi.th t _ ha
  simp only [TSInv] at hT
  have hnd := hi.nodup t js ha
  have hcr := created_of_th s hi.toTInv t _ ha
  obtain ⟨hJ1, F⟩ := fold_place js s hi.toJInv (fun j hj => by
    obtain ⟨jb, a, b, _⟩ := hT j hj; exact ⟨jb, a, b⟩) hnd
  -- the broadcast state after the section
  have hbc : (if js = [] then (js.foldl place s).bc else bcast (js.foldl place s).bc).WF ∧
      (if js = [] then (js.foldl place s).bc else bcast (js.foldl place s).bc).cur ≠ none := by
    split
    · exact ⟨hJ1.bcwf, hJ1.bccur⟩
    · obtain ⟨a, b, _, _⟩ := bcast_wf (js.foldl place s).bc; exact ⟨a, b⟩
  refine ⟨jinv_bc_th _ _ _ hJ1 hbc.1 hbc.2, ⟨?_, ?_, ?_, ?_⟩⟩
  · intro t' ts hts
    simp only [F.th] at hts
    rcases getElem?_set_cases _ _ _ _ _ hts with ⟨e, rfl⟩ | ⟨hne, h'⟩
    · simp only [TSInv]
      exact pair_ok_now _ hJ1
    · have hold := hi.th t' ts h'
      refine tsinv_mono s _ t' ts F.limit F.nseq ?_ ?_ ?_ ?_ hold
      · intro j jb hj hf ho
        have hnj : j ∉ js := by
          intro hm
          obtain ⟨x, a, _, c⟩ := hT j hm
          rw [hj] at a; cases a; rw [ho] at c; exact hne c
        show (js.foldl place s).jobs[j]? = some jb
        rw [F.other j hnj]; exact hj
      · intro j jb' q hj hq hlt
        have hj' : (js.foldl place s).jobs[j]? = some jb' := hj
        have hnj : j ∉ js := by
          intro hm
          obtain ⟨_, q', b, c⟩ := F.mine j hm jb' hj'
          rw [hq] at b; cases b; omega
        rw [F.other j hnj] at hj'
        exact ⟨jb', hj', hq, id⟩
      · show s.bc.next ≤ (if js = [] then (js.foldl place s).bc else bcast (js.foldl place s).bc).next
        split
        · rw [F.bc]; exact Nat.le_refl _
        · obtain ⟨_, _, c, _⟩ := bcast_wf (js.foldl place s).bc; rw [F.bc] at c ⊢; exact c
      · intro ch hlt hcl
        cases js with
        | nil => exact ⟨hcl, rfl, Int.le_refl _, id⟩
        | cons j0 rest =>
          exfalso
          rw [if_neg (by simp)] at hcl
          obtain ⟨_, _, _, d⟩ := bcast_wf ((j0 :: rest).foldl place s).bc
          rw [d ch (by rw [F.bc]; exact hlt)] at hcl
          cases hcl
  · intro j jb hj hf
    have hj' : (js.foldl place s).jobs[j]? = some jb := hj
    have hnj : j ∉ js := by
      intro hm; exact (F.mine j hm jb hj').1 hf
    rw [F.other j hnj] at hj'
    obtain ⟨js0, a, b⟩ := hi.fresh j jb hj' hf
    have hne : t ≠ jb.owner := by
      intro e; rw [← e, ha] at a; cases a; exact hnj b
    refine ⟨js0, ?_, b⟩
    show ((js.foldl place s).th.set t _)[jb.owner]? = _
    rw [F.th, getElem?_set_ne' _ _ _ _ hne]; exact a
  · intro t' js0 hts
    simp only [F.th] at hts
    rcases getElem?_set_cases _ _ _ _ _ hts with ⟨_, e⟩ | ⟨_, h'⟩
    · cases e
    · exact hi.nodup t' js0 h'
  · intro h; simp only at h; rw [F.created, hcr] at h; cases h


structure UFrame (s s1 : St) : Prop where
  th : s1.th = s.th
  bc : s1.bc = s.bc
  limit : s1.limit = s.limit
  created : s1.created = s.created
  nofresh : (∀ (u : Nat) (x : Job), s.jobs[u]? = some x → x.st ≠ .fresh) →
            (∀ (u : Nat) (x : Job), s1.jobs[u]? = some x → x.st ≠ .fresh)

theorem update_inv (n : Nat) (s : St) (h : JInv0 s) (hn : s.queue.length ≤ n) :
    JInv (update s n) ∧ UFrame s (update s n) := by
  induction n generalizing s with
  | zero =>
    have hq : s.queue = [] := List.eq_nil_of_length_eq_zero (by omega)
    exact ⟨⟨h, by intro e; exact absurd hq e⟩, ⟨rfl, rfl, rfl, rfl, id⟩⟩
  | succ n ih =>
    unfold update
    split
    · rename_i hr
      split
      · rename_i hq
        exact ⟨⟨h, by intro e; exact absurd hq e⟩, ⟨rfl, rfl, rfl, rfl, id⟩⟩
      · rename_i j rest hq
        have h1 := jinv0_popNew s j rest h hq hr
        obtain ⟨hJ, F⟩ := ih _ h1 (by rw [hq] at hn; simp at hn ⊢; omega)
        refine ⟨hJ, ⟨F.th, F.bc, F.limit, F.created, ?_⟩⟩
        intro hnf
        apply F.nofresh
        intro u x hx
        obtain ⟨jb, hj, _, _⟩ := queue_head s h j rest hq
        simp only [setJobSt_eq hj] at hx
        rcases getElem?_set_cases _ _ _ _ _ hx with ⟨_, rfl⟩ | ⟨_, hx'⟩
        · simp
        · exact hnf u x hx'
    · rename_i hr
      refine ⟨⟨h, ?_⟩, ⟨rfl, rfl, rfl, rfl, id⟩⟩
      intro _
      simp [hasRoom] at hr
      have := h.lim hr.1
      exact ⟨hr.1, by omega⟩

structure PushFrame (s s1 : St) (js : List Nat) : Prop where
  th : s1.th = s.th
  bc : s1.bc = s.bc
  limit : s1.limit = s.limit
  created : s1.created = s.created
  other : ∀ u : Nat, u ∉ js → s1.jobs[u]? = s.jobs[u]?
  mine : ∀ u : Nat, u ∈ js → ∀ x : Job, s1.jobs[u]? = some x → x.st ≠ .fresh

theorem fold_push (js : List Nat) (s : St) (hJ : JInv0 s)
    (hfr : ∀ j : Nat, j ∈ js → ∃ jb : Job, s.jobs[j]? = some jb ∧ jb.st = .fresh) (hnd : js.Nodup) :
    JInv0 (js.foldl pushInit s) ∧ PushFrame s (js.foldl pushInit s) js := by
  induction js generalizing s with
  | nil => exact ⟨hJ, ⟨rfl, rfl, rfl, rfl, fun _ _ => rfl, fun u hu => by simp at hu⟩⟩
  | cons j rest ih =>
    obtain ⟨jb, hj, hf⟩ := hfr j (by simp)
    have hJ1 : JInv0 (pushInit s j) := jinv0_enq s j jb hJ hj hf
    have hother : ∀ u : Nat, u ≠ j → (pushInit s j).jobs[u]? = s.jobs[u]? := by
      intro u hu
      simp only [pushInit, setJob_eq hj]
      exact getElem?_set_ne' _ _ _ _ (fun e => hu e.symm)
    rw [List.nodup_cons] at hnd
    have hfr1 : ∀ u : Nat, u ∈ rest → ∃ x : Job, (pushInit s j).jobs[u]? = some x ∧ x.st = .fresh := by
      intro u hu
      obtain ⟨x, hx, hxf⟩ := hfr u (by simp [hu])
      have : u ≠ j := by intro e; subst e; exact hnd.1 hu
      exact ⟨x, by rw [hother u this]; exact hx, hxf⟩
    obtain ⟨hJ2, F2⟩ := ih (pushInit s j) hJ1 hfr1 hnd.2
    simp only [List.foldl_cons]
    refine ⟨hJ2, ⟨by rw [F2.th]; rfl, by rw [F2.bc]; rfl, by rw [F2.limit]; rfl, by rw [F2.created]; rfl, ?_, ?_⟩⟩
    · intro u hu
      simp at hu
      rw [F2.other u hu.2, hother u hu.1]
    · intro u hu x hx
      by_cases hur : u ∈ rest
      · exact F2.mine u hur x hx
      · have huj : u = j := by simp at hu; rcases hu with e | e; exact e; exact absurd e hur
        rw [F2.other u hur, huj] at hx
        simp only [pushInit, setJob_eq hj, getElem?_set_self' _ _ _ _ hj] at hx
        cases hx; simp


theorem newJobs_mem (t : Nat) (js : List (Nat × Bool)) (u : Nat) (x : Job) (h : (newJobs t js)[u]? = some x) :
    x.st = .fresh ∧ x.seq = none ∧ x.starts = 0 ∧ x.owner = t ∧ u < js.length := by
  have hl := lt_of_getElem? h
  have := List.mem_of_getElem? h
  simp only [newJobs, List.mem_map] at this
  obtain ⟨p, _, rfl⟩ := this
  exact ⟨rfl, rfl, rfl, rfl, by simpa [newJobs] using hl⟩

theorem jinv0_start (L : Int) (t : Nat) (js : List (Nat × Bool)) :
    JInv0 { created := true, limit := L, jobs := newJobs t js, th := [.newDone] } := by
  refine ⟨by simp [Bcast.WF], by simp, by simp, by simp, by intro h; simpa using Int.le_of_lt h, by simp, by simp, ?_, ?_, ?_, ?_,
    by simp, by simp, by simp, ?_, ?_⟩
  · intro u x hx
    obtain ⟨a, b, _⟩ := newJobs_mem t js u x hx
    exact ⟨by simp [a, b], by intro q hq; rw [b] at hq; cases hq⟩
  · intro u u' x x' q hx _ hq
    obtain ⟨_, b, _⟩ := newJobs_mem t js u x hx
    rw [b] at hq; cases hq
  · simp only [List.countP_nil]
    rw [List.countP_eq_zero]
    intro x hx
    obtain ⟨u, hu⟩ := List.getElem?_of_mem hx
    obtain ⟨a, _⟩ := newJobs_mem t js u x hu
    simp [Job.isAssigned, a]
  · simp only [List.countP_nil]
    rw [List.countP_eq_zero]
    intro x hx
    obtain ⟨u, hu⟩ := List.getElem?_of_mem hx
    obtain ⟨a, _⟩ := newJobs_mem t js u x hu
    simp [Job.isActive, a]
  · intro u x hx
    obtain ⟨a, _, c, _⟩ := newJobs_mem t js u x hx
    simp [a, c]
  · intro _ u x q hx hq
    obtain ⟨_, b, _⟩ := newJobs_mem t js u x hx
    rw [b] at hq; cases hq

theorem step_inv_invNew (s : St) (t : Nat) (L : Int) (js : List (Nat × Bool)) (s' : St) (hi : Inv s)
    (hs : step s (.invNew t L js) = some s') : Inv s' := by
  simp only [step] at hs
  split at hs
  case isFalse => simp at hs
  rename_i hc
  obtain ⟨hcr, rfl, hids⟩ := hc
  have hs0 := hi.cre hcr
  subst hs0
  have hids' : js.map (·.1) = List.range' 0 js.length := by simpa [idsOK] using hids
  simp only [Option.some.injEq] at hs
  -- the state after the announcements
  have h1 : JInv0 { created := true, limit := L, jobs := newJobs 0 js, th := [.newDone] } := jinv0_start L 0 js
  have hfr : ∀ j : Nat, j ∈ js.map (·.1) → ∃ jb : Job,
      ({ created := true, limit := L, jobs := newJobs 0 js, th := [.newDone] } : St).jobs[j]? = some jb ∧ jb.st = .fresh := by
    intro j hj
    rw [hids'] at hj
    obtain ⟨jb, a, b, _⟩ := newJobs_get [] 0 js j (by simpa using hj)
    exact ⟨jb, by simpa using a, b⟩
  obtain ⟨h2, F2⟩ := fold_push (js.map (·.1)) _ h1 hfr (by rw [hids']; exact List.nodup_range')
  obtain ⟨h3, F3⟩ := update_inv _ _ h2 (Nat.le_refl _)
  have hnf2 : ∀ (u : Nat) (x : Job), ((js.map (·.1)).foldl pushInit
      { created := true, limit := L, jobs := newJobs 0 js, th := [.newDone] }).jobs[u]? = some x → x.st ≠ .fresh := by
    intro u x hx
    by_cases hu : u ∈ js.map (·.1)
    · exact F2.mine u hu x hx
    · exfalso
      rw [F2.other u hu] at hx
      obtain ⟨_, _, _, _, hl⟩ := newJobs_mem 0 js u x hx
      apply hu; rw [hids']; simp; exact hl
  have hnf3 := F3.nofresh hnf2
  have hth3 := F3.th; rw [F2.th] at hth3
  have hcr3 := F3.created; rw [F2.created] at hcr3
  simp only [List.nil_append, List.length_nil] at hs
  have key : ∀ s3 : St, JInv s3 → s3.th = [.newDone] → s3.created = true →
      (∀ (u : Nat) (x : Job), s3.jobs[u]? = some x → x.st ≠ .fresh) → Inv s3 := by
    intro s3 hJ hth hcr hnf
    refine ⟨hJ, ⟨?_, ?_, ?_, ?_⟩⟩
    · intro t ts hts; rw [hth] at hts
      cases t <;> simp at hts
      subst hts; trivial
    · intro j jb hj hf; exact absurd hf (hnf j jb hj)
    · intro t js0 hts; rw [hth] at hts; cases t <;> simp at hts
    · intro h; rw [hcr] at h; cases h
  generalize hg2 : (js.map (·.1)).foldl pushInit
      { created := true, limit := L, jobs := newJobs 0 js, th := [.newDone] } = s2 at *
  generalize hg3 : update s2 s2.queue.length = s3 at *
  rw [← hs]
  split
  · obtain ⟨a, b, _, _⟩ := bcast_wf s3.bc
    have := jinv_bc_th s3 (bcast s3.bc) s3.th h3 a b
    exact key _ this hth3 hcr3 hnf3
  · exact key _ h3 hth3 hcr3 hnf3


/-- every event preserves the invariant -/
theorem step_inv (s : St) (e : Ev) (s' : St) (hi : Inv s) (hs : step s e = some s') : Inv s' := by
  cases e with
  | invNew t L js => exact step_inv_invNew s t L js s' hi hs
  | invEnq t js => exact step_inv_invEnq s t js s' hi hs
  | enqCS t => exact step_inv_enqCS s t s' hi hs
  | jobIn w j => exact step_inv_jobIn s w j s' hi hs
  | skipNil w => exact step_inv_skipNil s w s' hi hs
  | jobOut w j => exact step_inv_jobOut s w j s' hi hs
  | popCS w => exact step_inv_popCS s w s' hi hs
  | retNew t => exact step_inv_simple s _ s' hi hs (by simp)
  | retEnq t q r => exact step_inv_simple s _ s' hi hs (by simp)
  | invWI t => exact step_inv_simple s _ s' hi hs (by simp)
  | wiCS t => exact step_inv_simple s _ s' hi hs (by simp)
  | wiCtx t => exact step_inv_simple s _ s' hi hs (by simp)
  | wiErr t => exact step_inv_simple s _ s' hi hs (by simp)
  | retWI t r => exact step_inv_simple s _ s' hi hs (by simp)
  | invWS t n => exact step_inv_simple s _ s' hi hs (by simp)
  | wsCS t => exact step_inv_simple s _ s' hi hs (by simp)
  | cbWS t q r a => exact step_inv_simple s _ s' hi hs (by simp)
  | wsCtx t => exact step_inv_simple s _ s' hi hs (by simp)
  | retWS t r => exact step_inv_simple s _ s' hi hs (by simp)
  | envCancel t => exact step_inv_simple s _ s' hi hs (by simp)
  | envErr t m => exact step_inv_simple s _ s' hi hs (by simp)
  | quiesce B A => exact step_inv_simple s _ s' hi hs (by simp)

/-- the invariant holds after every event list -/
theorem reachable_inv (es : List Ev) (s : St) (h : model.run model.init es = some s) : Inv s :=
  model.run_invariant Inv (fun s e s' hi hs => step_inv s e s' hi hs) _ _ es init_inv h

end UtilModel.Conc
