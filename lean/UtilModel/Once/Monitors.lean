import UtilModel.Once.Model
import UtilModel.Core.Monitor
import UtilModel.Core.Driver
/-!
# promise.Once: property C16 (first sentence) as an executable monitor over observable histories

Mentions only `Resolve` invocations / responses, context cancellations, entry / return of the
wrapped function and quiescence points:

* the wrapped function is never entered while a previous entry has not returned (`cbin` rule);
* after it returned without error it is never entered again (`cbin` rule), and a `Resolve` invoked
  after that return returns that value unless its own context is cancelled (`ret` rule);
* a returned value / error is the outcome of a real call; an error is never handed to a `Resolve`
  invoked after some caller had already received it — the later caller gets a later call's outcome
  (`minFn`: "after it returned an error a later Resolve calls it again");
* `context.Canceled` is returned only to a caller whose own context is cancelled; at a quiescence
  point no cancelled caller is pending, and live callers are pending only while a call of the
  function is in progress (a cancelled initiator does not strand the others).
-/
namespace UtilModel.Once
open UtilModel

structure OCall where
  cx : Bool := false
  ret : Bool := false
  okAtInv : Option Nat := none   -- the successful function call already known when this Resolve was invoked
  minFn : Nat := 0               -- function calls whose error some caller had already received at that time
deriving DecidableEq, Repr, Inhabited

structure OFn where
  init : Nat
  out : Option Out := none
deriving DecidableEq, Repr, Inhabited

structure C16St where
  calls : List OCall := []
  fns : List OFn := []
  okAt : Option Nat := none
  seenErr : Nat := 0
deriving Repr

def C16St.fnRunning (ms : C16St) : Bool := ms.fns.any (·.out.isNone)

def monC16 : ObsMonitor Obs C16St where
  init := {}
  step := fun ms o =>
    match o with
    | .inv t =>
      if t = ms.calls.length then
        some { ms with calls := ms.calls ++ [{ okAtInv := ms.okAt, minFn := ms.seenErr }] }
      else none
    | .envCancel t =>
      match ms.calls[t]? with
      | some c => some { ms with calls := ms.calls.set t { c with cx := true } }
      | none => none
    | .cbin f t =>
      match ms.calls[t]? with
      | some _ =>
        -- (the initiator may already have returned: the goroutine enters the function asynchronously)
        if f = ms.fns.length ∧ !ms.fnRunning ∧ ms.okAt = none then
          some { ms with fns := ms.fns ++ [{ init := t }] }
        else none
      | none => none
    | .cbout f out =>
      match ms.fns[f]? with
      | some fn =>
        if fn.out.isNone ∧ out.okFor f then
          some { ms with fns := ms.fns.set f { fn with out := some out }
                         okAt := match out with | .ok _ => some f | .err _ => ms.okAt }
        else none
      | none => none
    | .ret t v e =>
      match ms.calls[t]? with
      | some c =>
        if c.ret then none else
        let ms' := { ms with calls := ms.calls.set t { c with ret := true } }
        match e with
        | .nil =>
          if v ≥ 1 ∧ (ms.fns[v - 1]?).map (·.out) = some (some (.ok v)) ∧
             (c.okAtInv = none ∨ c.okAtInv = some (v - 1)) then some ms' else none
        | .custom n =>
          if v = 0 ∧ n ≥ 1 ∧ (ms.fns[n - 1]?).map (·.out) = some (some (.err (.custom n))) ∧
             c.minFn < n ∧ c.okAtInv = none then some { ms' with seenErr := max ms.seenErr n } else none
        | .canceled => if v = 0 ∧ c.cx then some ms' else none
      | none => none
    | .panic _ => none
    | .quiesce B =>
      if B.all (fun t => match ms.calls[t]? with
          | some c => !c.ret && !c.cx && ms.okAt.isNone && ms.fnRunning
          | none => false) then some ms else none

def onceMons : List (MonEntry Obs) := [MonEntry.ofMonitor "C16" monC16]

end UtilModel.Once
