import UtilModel.Once.Model
/-!
# promise.Once — inductive invariant of the model (for every event list)
-/
namespace UtilModel.Once
open UtilModel

/-- the instance still owns the slot: it has not failed past its clearing section -/
def Fn.holds (fn : Fn) : Bool :=
  match fn.st, fn.res with
  | .spawned, _ | .running, _ | .returned _, _ => true
  | .finished, some (_, .nil) => true
  | _, _ => false

/-- the wrapped function is being executed by this instance -/
def Fn.isRunning (fn : Fn) : Bool := fn.st == .running

/-- the wrapped function has returned without error in this instance -/
def Fn.succeeded (fn : Fn) : Bool :=
  match fn.st, fn.res with
  | .returned (.ok _), _ => true
  | .finished, some (_, .nil) => true
  | _, _ => false

def errFor (f : Nat) (e : Err) : Prop := e = .custom (f + 1) ∨ e = .canceled

/-- well-formedness of one instance `f` -/
def FnWF (f : Nat) (fn : Fn) : Prop :=
  (fn.res.isSome ↔ fn.st = .finished) ∧
  (∀ v e, fn.res = some (v, e) → (e = .nil ∧ v = f + 1) ∨ (v = 0 ∧ errFor f e)) ∧
  (∀ o, fn.st = .returned o → o.okFor f = true) ∧
  (∀ e, fn.st = .cleared e → errFor f e) ∧
  (∀ e, fn.st = .decided e → errFor f e)

structure Inv (s : St) : Prop where
  slotLast : ∀ (f : Nat), s.slot = some f → f + 1 = s.fns.length
  holds : ∀ (f : Nat) (fn : Fn), s.fns[f]? = some fn → (fn.holds = true ↔ s.slot = some f)
  wf : ∀ (f : Nat) (fn : Fn), s.fns[f]? = some fn → FnWF f fn
  awaitLt : ∀ (t : Nat) (c : Caller) (f : Nat), s.cs[t]? = some c → c.pc = .awaiting f → f < s.fns.length
  retdOk : ∀ (t : Nat) (c : Caller) (v : Nat) (e : Err), s.cs[t]? = some c →
    (c.pc = .retd v e ∨ c.pc = .done v e) →
    (v = 0 ∧ e = Err.canceled ∧ c.cx = true) ∨
    (e ≠ Err.canceled ∧ ∃ (f : Nat) (fn : Fn), s.fns[f]? = some fn ∧ fn.res = some (v, e))

theorem init_inv : Inv ({} : St) := by
  refine ⟨?_, ?_, ?_, ?_, ?_⟩ <;> intros <;> simp_all

/-! ### frame lemmas -/

/-- a caller-only step (fns and slot unchanged, caller `t` replaced) preserves the invariant if the
new caller state is justified -/
theorem inv_caller (s : St) (t : Nat) (c c' : Caller) (hi : Inv s) (hc : s.cs[t]? = some c)
    (h1 : ∀ f, c'.pc = .awaiting f → f < s.fns.length)
    (h2 : ∀ v e, (c'.pc = .retd v e ∨ c'.pc = .done v e) →
      (v = 0 ∧ e = Err.canceled ∧ c'.cx = true) ∨
      (e ≠ Err.canceled ∧ ∃ (f : Nat) (fn : Fn), s.fns[f]? = some fn ∧ fn.res = some (v, e))) :
    Inv { s with cs := s.cs.set t c' } := by
  refine ⟨hi.slotLast, hi.holds, hi.wf, ?_, ?_⟩
  · intro u d f hu hd
    rcases getElem?_set_cases s.cs t u c' d hu with ⟨_, rfl⟩ | ⟨_, hx⟩
    · exact h1 f hd
    · exact hi.awaitLt u d f hx hd
  · intro u d v e hu hd
    rcases getElem?_set_cases s.cs t u c' d hu with ⟨_, rfl⟩ | ⟨_, hx⟩
    · exact h2 v e hd
    · exact hi.retdOk u d v e hx hd

/-- a step of instance `f` that keeps `holds`, the slot and the published result of every instance -/
theorem inv_fn (s : St) (f : Nat) (fn fn' : Fn) (slot' : Option Nat) (hi : Inv s)
    (hf : s.fns[f]? = some fn)
    (hslot : slot' = s.slot ∨ (s.slot = some f ∧ slot' = none) )
    (hholds : fn'.holds = true ↔ slot' = some f)
    (hwf : FnWF f fn')
    (hres : ∀ r, fn.res = some r → fn'.res = some r) :
    Inv { s with slot := slot', fns := s.fns.set f fn' } := by
  have hlt := lt_of_getElem? hf
  refine ⟨?_, ?_, ?_, ?_, ?_⟩
  · intro g hg
    simp only [List.length_set]
    rcases hslot with h | ⟨_, h⟩
    · exact hi.slotLast g (by rw [← h]; exact hg)
    · simp only at hg; rw [h] at hg; cases hg
  · intro g gn hg
    simp only at hg ⊢
    rcases getElem?_set_cases s.fns f g fn' gn hg with ⟨rfl, rfl⟩ | ⟨hne, hx⟩
    · exact hholds
    · have := hi.holds g gn hx
      rcases hslot with h | ⟨h0, h⟩
      · rw [h]; exact this
      · rw [h]; rw [this, h0]; constructor
        · intro e; cases e; exact absurd rfl hne
        · intro e; cases e
  · intro g gn hg
    simp only at hg
    rcases getElem?_set_cases s.fns f g fn' gn hg with ⟨rfl, rfl⟩ | ⟨_, hx⟩
    · exact hwf
    · exact hi.wf g gn hx
  · intro t c g ht hc
    simp only [List.length_set]
    exact hi.awaitLt t c g ht hc
  · intro t c v e ht hc
    rcases hi.retdOk t c v e ht hc with h | ⟨hne, g, gn, hg, hr⟩
    · exact Or.inl h
    · refine Or.inr ⟨hne, ?_⟩
      by_cases hgf : g = f
      · subst hgf
        rw [hf] at hg; cases hg
        exact ⟨g, fn', by simp [hlt], hres _ hr⟩
      · exact ⟨g, gn, by simp only; rw [getElem?_set_ne' _ _ _ _ (fun e => hgf e.symm)]; exact hg, hr⟩

end UtilModel.Once

namespace UtilModel.Once
open UtilModel

theorem resOf_some (s : St) (f : Nat) (r : Nat × Err) (h : resOf s f = some r) :
    ∃ fn, s.fns[f]? = some fn ∧ fn.res = some r := by
  unfold resOf at h
  cases hf : s.fns[f]? with
  | none => simp [hf] at h
  | some fn => simp [hf] at h; exact ⟨fn, rfl, h⟩

theorem inv_append_caller (s : St) (hi : Inv s) : Inv { s with cs := s.cs ++ [{}] } := by
  refine ⟨hi.slotLast, hi.holds, hi.wf, ?_, ?_⟩
  · intro u d f hu hd
    rcases getElem?_snoc_cases _ _ _ _ hu with ⟨_, hx⟩ | ⟨_, rfl⟩
    · exact hi.awaitLt u d f hx hd
    · cases hd
  · intro u d v e hu hd
    rcases getElem?_snoc_cases _ _ _ _ hu with ⟨_, hx⟩ | ⟨_, rfl⟩
    · exact hi.retdOk u d v e hx hd
    · rcases hd with hd | hd <;> cases hd

theorem holds_of_active (fn : Fn) (h : fn.st = .spawned ∨ fn.st = .running ∨ ∃ o, fn.st = .returned o) :
    fn.holds = true := by
  unfold Fn.holds
  rcases h with h | h | ⟨o, h⟩ <;> simp [h]

theorem step_inv (s : St) (e : Ev) (s' : St) (hi : Inv s) (hs : step s e = some s') : Inv s' := by
  cases e with
  | inv t =>
    simp only [step] at hs; split at hs <;> simp at hs; subst hs
    exact inv_append_caller s hi
  | chkCtx t =>
    simp only [step] at hs
    split at hs <;> try simp at hs
    rename_i c hc
    split at hs <;> try simp at hs
    rename_i hpc
    split at hs <;> simp at hs <;> subst hs
    · rename_i hcx
      exact inv_caller s t c _ hi hc (by intro f h; cases h)
        (by intro v e h; rcases h with h | h <;> cases h; exact Or.inl ⟨rfl, rfl, hcx⟩)
    · exact inv_caller s t c _ hi hc (by intro f h; cases h) (by intro v e h; rcases h with h | h <;> cases h)
  | lockCS t =>
    simp only [step] at hs
    split at hs <;> try simp at hs
    rename_i c hc
    split at hs <;> try simp at hs
    rename_i hpc
    split at hs <;> simp at hs <;> subst hs
    · rename_i f hslot
      exact inv_caller s t c _ hi hc (by intro g h; cases h; have := hi.slotLast f hslot; omega)
        (by intro v e h; rcases h with h | h <;> cases h)
    · rename_i hslot
      -- a new instance is started: it owns the slot
      have hlt := lt_of_getElem? hc
      refine ⟨?_, ?_, ?_, ?_, ?_⟩
      · intro f hf; simp [setPc] at hf ⊢; omega
      · intro f fn hf
        simp only [setPc] at hf ⊢
        rcases getElem?_snoc_cases _ _ _ _ hf with ⟨hlt', hx⟩ | ⟨rfl, rfl⟩
        · have := hi.holds f fn hx
          rw [this, hslot]; constructor
          · intro h; cases h
          · intro h; cases h; omega
        · simp [Fn.holds]
      · intro f fn hf
        simp only [setPc] at hf
        rcases getElem?_snoc_cases _ _ _ _ hf with ⟨_, hx⟩ | ⟨rfl, rfl⟩
        · exact hi.wf f fn hx
        · refine ⟨by simp, by simp, by simp, by simp, by simp⟩
      · intro u d f hu hd
        simp only [setPc] at hu ⊢
        simp only [List.length_append, List.length_singleton]
        rcases getElem?_set_cases s.cs t u _ d hu with ⟨_, rfl⟩ | ⟨_, hx⟩
        · cases hd; omega
        · have := hi.awaitLt u d f hx hd; omega
      · intro u d v e hu hd
        simp only [setPc] at hu ⊢
        rcases getElem?_set_cases s.cs t u _ d hu with ⟨_, rfl⟩ | ⟨_, hx⟩
        · rcases hd with hd | hd <;> cases hd
        · rcases hi.retdOk u d v e hx hd with h | ⟨hne, g, gn, hg, hr⟩
          · exact Or.inl h
          · exact Or.inr ⟨hne, g, gn, getElem?_snoc_left _ _ _ _ hg, hr⟩
  | sel t br =>
    simp only [step] at hs
    split at hs <;> try simp at hs
    rename_i c hc
    split at hs <;> try simp at hs
    rename_i f hpc
    cases br with
    | ctx =>
      simp only at hs
      split at hs <;> simp at hs; subst hs
      exact inv_caller s t c _ hi hc (by intro g h; cases h) (by intro v e h; rcases h with h | h <;> cases h)
    | res =>
      simp only at hs
      split at hs <;> simp at hs <;> subst hs
      · exact inv_caller s t c _ hi hc (by intro g h; cases h) (by intro v e h; rcases h with h | h <;> cases h)
      · rename_i v e hne hres
        obtain ⟨fn, hf, hr⟩ := resOf_some s f _ hres
        refine inv_caller s t c _ hi hc (by intro g h; cases h) ?_
        intro v' e' h
        rcases h with h | h <;> cases h
        refine Or.inr ⟨?_, f, fn, hf, hr⟩
        intro he; subst he; exact hne rfl
  | ret t v e =>
    simp only [step] at hs
    split at hs <;> try simp at hs
    rename_i c hc
    split at hs <;> try simp at hs
    rename_i v' e' hpc
    obtain ⟨⟨rfl, rfl⟩, rfl⟩ := hs
    refine inv_caller s t c _ hi hc (by intro g h; cases h) ?_
    intro v'' e'' h
    rcases h with h | h <;> cases h
    exact hi.retdOk t c v e hc (Or.inl hpc)
  | envCancel t =>
    simp only [step] at hs
    split at hs <;> simp at hs
    rename_i c hc
    subst hs
    refine inv_caller s t c _ hi hc (fun f h => hi.awaitLt t c f hc h) ?_
    intro v e h
    rcases hi.retdOk t c v e hc h with ⟨h1, h2, _⟩ | h'
    · exact Or.inl ⟨h1, h2, rfl⟩
    · exact Or.inr h'
  | cbin f t =>
    simp only [step] at hs
    split at hs <;> try simp at hs
    rename_i fn hf
    split at hs <;> try simp at hs
    rename_i hst
    obtain ⟨_, rfl⟩ := hs
    obtain ⟨w1, w2, w3, w4, w5⟩ := hi.wf f fn hf
    have hh := hi.holds f fn hf
    refine inv_fn s f fn _ s.slot hi hf (Or.inl rfl) ?_ ?_ (fun r h => h)
    · rw [← hh, holds_of_active fn (Or.inl hst)]; simp [Fn.holds]
    · refine ⟨?_, w2, by simp, by simp, by simp⟩
      simp only; rw [w1, hst]; simp
  | cbout f o =>
    simp only [step] at hs
    split at hs <;> try simp at hs
    rename_i fn hf
    split at hs <;> try simp at hs
    rename_i hst
    obtain ⟨hok, rfl⟩ := hs
    obtain ⟨w1, w2, w3, w4, w5⟩ := hi.wf f fn hf
    have hh := hi.holds f fn hf
    refine inv_fn s f fn _ s.slot hi hf (Or.inl rfl) ?_ ?_ (fun r h => h)
    · rw [← hh, holds_of_active fn (Or.inr (Or.inl hst))]; simp [Fn.holds]
    · refine ⟨?_, w2, by intro o' h; cases h; exact hok, by simp, by simp⟩
      simp only; rw [w1, hst]; simp
  | fnClear f =>
    simp only [step] at hs
    split at hs <;> try simp at hs
    rename_i fn hf
    split at hs <;> try simp at hs
    rename_i e hst
    subst hs
    obtain ⟨w1, w2, w3, w4, w5⟩ := hi.wf f fn hf
    have hh := hi.holds f fn hf
    have hslot : s.slot = some f := hh.mp (holds_of_active fn (Or.inr (Or.inr ⟨_, hst⟩)))
    have hres : fn.res = none := by
      cases hr : fn.res with
      | none => rfl
      | some r => have := w1.mp (by simp [hr]); rw [hst] at this; cases this
    show Inv { slot := if s.slot = some f then none else s.slot,
               fns := s.fns.set f { fn with st := .cleared e }, cs := s.cs }
    rw [if_pos hslot]
    refine inv_fn s f fn { fn with st := .cleared e } none hi hf (Or.inr ⟨hslot, rfl⟩) ?_ ?_ (fun r h => h)
    · simp [Fn.holds]
    · refine ⟨by simp [hres], w2, by simp, ?_, by simp⟩
      intro e' h; simp at h; subst h
      have := w3 _ hst
      simp [Out.okFor] at this
      exact this
  | fnCheck f =>
    simp only [step] at hs
    split at hs <;> try simp at hs
    rename_i fn hf
    split at hs <;> try simp at hs
    rename_i e hst
    subst hs
    obtain ⟨w1, w2, w3, w4, w5⟩ := hi.wf f fn hf
    have hh := hi.holds f fn hf
    have hres : fn.res = none := by
      cases hr : fn.res with
      | none => rfl
      | some r => have := w1.mp (by simp [hr]); rw [hst] at this; cases this
    refine inv_fn s f fn _ s.slot hi hf (Or.inl rfl) ?_ ?_ (fun r h => h)
    · rw [← hh]; simp [Fn.holds, hst]
    · refine ⟨by simp [hres], w2, by simp, by simp, ?_⟩
      intro e' h; cases h
      split
      · exact Or.inr rfl
      · exact w4 e hst
  | fnPublish f =>
    simp only [step] at hs
    split at hs <;> try simp at hs
    rename_i fn hf
    obtain ⟨w1, w2, w3, w4, w5⟩ := hi.wf f fn hf
    have hh := hi.holds f fn hf
    have hres : ∀ (x : FS), fn.st = x → x ≠ .finished → fn.res = none := by
      intro x hx hne
      cases hr : fn.res with
      | none => rfl
      | some r => have := w1.mp (by simp [hr]); rw [hx] at this; exact absurd this hne
    split at hs <;> simp at hs <;> subst hs
    · rename_i v hst
      have hr := hres _ hst (by simp)
      have hok := w3 _ hst
      simp [Out.okFor] at hok
      refine inv_fn s f fn _ s.slot hi hf (Or.inl rfl) ?_ ?_ (by intro r h; rw [hr] at h; cases h)
      · rw [← hh, holds_of_active fn (Or.inr (Or.inr ⟨_, hst⟩))]; simp [Fn.holds]
      · refine ⟨by simp, ?_, by simp, by simp, by simp⟩
        intro v' e' h; simp at h; obtain ⟨rfl, rfl⟩ := h; exact Or.inl ⟨rfl, hok⟩
    · rename_i e hst
      have hr := hres _ hst (by simp)
      have he := w5 e hst
      refine inv_fn s f fn _ s.slot hi hf (Or.inl rfl) ?_ ?_ (by intro r h; rw [hr] at h; cases h)
      · rw [← hh]
        have : e ≠ .nil := by rcases he with h | h <;> rw [h] <;> simp
        cases e <;> simp_all [Fn.holds]
      · refine ⟨by simp, ?_, by simp, by simp, by simp⟩
        intro v' e' h; simp at h; obtain ⟨rfl, rfl⟩ := h; exact Or.inr ⟨rfl, he⟩
  | quiesce B =>
    simp only [step] at hs; split at hs <;> simp at hs; subst hs; exact hi

theorem reachable_inv (es : List Ev) (s : St) (h : model.run model.init es = some s) : Inv s :=
  model.run_invariant Inv (fun s e s' hi hs => step_inv s e s' hi hs) _ _ es init_inv h

end UtilModel.Once
