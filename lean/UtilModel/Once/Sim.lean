import UtilModel.Once.Props
import UtilModel.Once.Monitors
/-!
# promise.Once — every observable trace of the model is accepted by `monC16` (simulation)
-/
namespace UtilModel.Once
open UtilModel

/-- what the monitor knows about the outcome of an entered instance -/
def outRel (fn : Fn) (o : Option Out) : Prop :=
  match fn.st with
  | .spawned => True
  | .running => o = none
  | .returned x => o = some x
  | .cleared e => o = some (.err e)
  | .decided e => ∃ e0, o = some (.err e0) ∧ (e = .canceled ∨ e = e0)
  | .finished => match fn.res with
    | some (v, .nil) => o = some (.ok v)
    | some (_, e) => ∃ e0, o = some (.err e0) ∧ (e = .canceled ∨ e = e0)
    | none => False

structure CallRel (s : St) (ms : C16St) (c : Caller) (mc : OCall) : Prop where
  cx : mc.cx = c.cx
  ret : mc.ret = true ↔ ∃ v e, c.pc = .done v e
  minLe : mc.minFn ≤ ms.seenErr
  minAw : ∀ g, c.pc = .awaiting g → mc.minFn ≤ g
  minRet : ∀ v n, c.pc = .retd v (.custom n) → mc.minFn < n
  okS : ∀ f, mc.okAtInv = some f → ∃ fn, s.fns[f]? = some fn ∧ fn.succeeded = true
  okAw : ∀ f g, mc.okAtInv = some f → c.pc = .awaiting g → g = f
  okRet : ∀ f v e, mc.okAtInv = some f → c.pc = .retd v e → (v = f + 1 ∧ e = .nil) ∨ e = .canceled

structure Rel (s : St) (ms : C16St) : Prop where
  inv : Inv s
  lenC : ms.calls.length = s.cs.length
  callR : ∀ (t : Nat) (c : Caller) (mc : OCall), s.cs[t]? = some c → ms.calls[t]? = some mc → CallRel s ms c mc
  lenF : ms.fns.length ≤ s.fns.length
  entered : ∀ (f : Nat) (fn : Fn), s.fns[f]? = some fn → (f < ms.fns.length ↔ fn.st ≠ .spawned)
  fnR : ∀ (f : Nat) (fn : Fn) (mf : OFn), s.fns[f]? = some fn → ms.fns[f]? = some mf →
    mf.init = fn.init ∧ outRel fn mf.out
  okAt : ∀ (f : Nat), ms.okAt = some f → ∃ fn, s.fns[f]? = some fn ∧ fn.succeeded = true
  seen : ∀ (f : Nat) (fn : Fn), s.fns[f]? = some fn → f < ms.seenErr → fn.holds = false
  seenLe : ms.seenErr ≤ s.fns.length
  initLt : ∀ (f : Nat) (fn : Fn), s.fns[f]? = some fn → fn.init < s.cs.length

theorem rel_init : Rel model.init monC16.init := by
  refine ⟨init_inv, rfl, ?_, by simp [monC16, model], ?_, ?_, ?_, ?_, by simp [monC16], ?_⟩ <;>
    intros <;> simp_all [monC16, model]

/-! ### general facts -/

/-- only the instance that owns the slot can be un-failed: a non-last instance does not hold -/
theorem not_last_not_holds (s : St) (hi : Inv s) (f g : Nat) (fn : Fn) (hf : s.fns[f]? = some fn)
    (hg : g < s.fns.length) (hlt : f < g) : fn.holds = false := by
  cases hh : fn.holds with
  | false => rfl
  | true =>
    have := hi.slotLast f ((hi.holds f fn hf).mp hh)
    omega

theorem holds_false_of_res_err (s : St) (hi : Inv s) (f : Nat) (fn : Fn) (hf : s.fns[f]? = some fn)
    (v : Nat) (e : Err) (hr : fn.res = some (v, e)) (he : e ≠ .nil) : fn.holds = false := by
  have hfin := (hi.wf f fn hf).1.mp (by simp [hr])
  unfold Fn.holds
  rw [hfin, hr]
  cases e <;> simp_all

/-- an instance that does not hold never holds again -/
theorem holds_false_step (s s' : St) (e : Ev) (hi : Inv s) (hst : step s e = some s')
    (f : Nat) (fn : Fn) (hf : s.fns[f]? = some fn) (hh : fn.holds = false) :
    ∃ fn', s'.fns[f]? = some fn' ∧ fn'.holds = false := by
  have hlt := lt_of_getElem? hf
  have other : ∀ (g : Nat) (gn gn' : Fn), s.fns[g]? = some gn → (g = f → gn'.holds = false) →
      ∃ fn', (s.fns.set g gn')[f]? = some fn' ∧ fn'.holds = false := by
    intro g gn gn' hg h
    by_cases hgf : g = f
    · subst hgf; exact ⟨gn', by simp [hlt], h rfl⟩
    · exact ⟨fn, by rw [getElem?_set_ne' _ _ _ _ hgf]; exact hf, hh⟩
  cases e with
  | inv t => simp only [step] at hst; split at hst <;> simp at hst; subst hst; exact ⟨fn, hf, hh⟩
  | chkCtx t =>
    simp only [step] at hst
    split at hst <;> try simp at hst
    split at hst <;> try simp at hst
    split at hst <;> simp at hst <;> subst hst <;> exact ⟨fn, hf, hh⟩
  | lockCS t =>
    simp only [step] at hst
    split at hst <;> try simp at hst
    split at hst <;> try simp at hst
    split at hst <;> simp at hst <;> subst hst
    · exact ⟨fn, hf, hh⟩
    · exact ⟨fn, getElem?_snoc_left _ _ _ _ hf, hh⟩
  | sel t br =>
    simp only [step] at hst
    split at hst <;> try simp at hst
    split at hst <;> try simp at hst
    cases br <;> simp only at hst <;> split at hst <;> simp at hst <;> subst hst <;> exact ⟨fn, hf, hh⟩
  | ret t v e =>
    simp only [step] at hst
    split at hst <;> try simp at hst
    split at hst <;> try simp at hst
    obtain ⟨_, rfl⟩ := hst; exact ⟨fn, hf, hh⟩
  | envCancel t =>
    simp only [step] at hst
    split at hst <;> simp at hst
    subst hst; exact ⟨fn, hf, hh⟩
  | cbin g t =>
    simp only [step] at hst
    split at hst <;> try simp at hst
    rename_i gn hg
    split at hst <;> try simp at hst
    rename_i hgs
    obtain ⟨_, rfl⟩ := hst
    refine other g gn _ hg ?_
    intro e; subst e; rw [hf] at hg; cases hg
    simp [Fn.holds, hgs] at hh
  | cbout g o =>
    simp only [step] at hst
    split at hst <;> try simp at hst
    rename_i gn hg
    split at hst <;> try simp at hst
    rename_i hgs
    obtain ⟨_, rfl⟩ := hst
    refine other g gn _ hg ?_
    intro e; subst e; rw [hf] at hg; cases hg
    simp [Fn.holds, hgs] at hh
  | fnClear g =>
    simp only [step] at hst
    split at hst <;> try simp at hst
    rename_i gn hg
    split at hst <;> try simp at hst
    rename_i e hgs
    subst hst
    exact other g gn _ hg (by intro _; simp [Fn.holds])
  | fnCheck g =>
    simp only [step] at hst
    split at hst <;> try simp at hst
    rename_i gn hg
    split at hst <;> try simp at hst
    rename_i e hgs
    subst hst
    exact other g gn _ hg (by intro _; simp [Fn.holds])
  | fnPublish g =>
    simp only [step] at hst
    split at hst <;> try simp at hst
    rename_i gn hg
    split at hst <;> simp at hst <;> subst hst
    · rename_i v hgs
      refine other g gn _ hg ?_
      intro e; subst e; rw [hf] at hg; cases hg
      simp [Fn.holds, hgs] at hh
    · rename_i e hgs
      refine other g gn _ hg ?_
      intro e'; subst e'; rw [hf] at hg; cases hg
      have he := (hi.wf g fn hf).2.2.2.2 e hgs
      have : e ≠ .nil := by rcases he with h | h <;> rw [h] <;> simp
      cases e <;> simp_all [Fn.holds]
  | quiesce B => simp only [step] at hst; split at hst <;> simp at hst; subst hst; exact ⟨fn, hf, hh⟩

theorem fns_len_mono (s s' : St) (e : Ev) (hst : step s e = some s') : s.fns.length ≤ s'.fns.length := by
  cases e with
  | inv t => simp only [step] at hst; split at hst <;> simp at hst; subst hst; simp
  | chkCtx t =>
    simp only [step] at hst
    split at hst <;> try simp at hst
    split at hst <;> try simp at hst
    split at hst <;> simp at hst <;> subst hst <;> simp [setPc]
  | lockCS t =>
    simp only [step] at hst
    split at hst <;> try simp at hst
    split at hst <;> try simp at hst
    split at hst <;> simp at hst <;> subst hst <;> simp [setPc]
  | sel t br =>
    simp only [step] at hst
    split at hst <;> try simp at hst
    split at hst <;> try simp at hst
    cases br <;> simp only at hst <;> split at hst <;> simp at hst <;> subst hst <;> simp [setPc]
  | ret t v e =>
    simp only [step] at hst
    split at hst <;> try simp at hst
    split at hst <;> try simp at hst
    obtain ⟨_, rfl⟩ := hst; simp [setPc]
  | envCancel t =>
    simp only [step] at hst
    split at hst <;> simp at hst
    subst hst; simp
  | cbin g t =>
    simp only [step] at hst
    split at hst <;> try simp at hst
    split at hst <;> try simp at hst
    obtain ⟨_, rfl⟩ := hst; simp [setFs]
  | cbout g o =>
    simp only [step] at hst
    split at hst <;> try simp at hst
    split at hst <;> try simp at hst
    obtain ⟨_, rfl⟩ := hst; simp [setFs]
  | fnClear g =>
    simp only [step] at hst
    split at hst <;> try simp at hst
    split at hst <;> try simp at hst
    subst hst; simp [setFs]
  | fnCheck g =>
    simp only [step] at hst
    split at hst <;> try simp at hst
    split at hst <;> try simp at hst
    subst hst; simp [setFs]
  | fnPublish g =>
    simp only [step] at hst
    split at hst <;> try simp at hst
    split at hst <;> simp at hst <;> subst hst <;> simp
  | quiesce B => simp only [step] at hst; split at hst <;> simp at hst; subst hst; simp

end UtilModel.Once

namespace UtilModel.Once
open UtilModel

/-- the caller-side relation survives any model step and any growth of `seenErr`, as long as the
caller and its monitor record stay the same -/
theorem CallRel.step {s s' : St} {ms ms' : C16St} {c : Caller} {mc : OCall} {e : Ev}
    (h : CallRel s ms c mc) (hi : Inv s) (hst : step s e = some s') (hse : ms.seenErr ≤ ms'.seenErr) :
    CallRel s' ms' c mc :=
  { h with
    minLe := Nat.le_trans h.minLe hse
    okS := fun f hf => by
      obtain ⟨fn, h1, h2⟩ := h.okS f hf
      exact succeeded_step s s' e hi hst f fn h1 h2 }

/-- transfer of the instance-side facts along a step that leaves every existing instance's state
and result untouched (caller steps, environment actions) -/
theorem Rel.of_fns_same {s s' : St} {ms ms' : C16St} (hR : Rel s ms) (hi' : Inv s')
    (hfns : s'.fns = s.fns) (hmf : ms'.fns = ms.fns) (hok : ms'.okAt = ms.okAt)
    (hlen : ms'.calls.length = s'.cs.length)
    (hse : ms.seenErr ≤ ms'.seenErr)
    (hseen : ∀ (f : Nat) (fn : Fn), s.fns[f]? = some fn → f < ms'.seenErr → fn.holds = false)
    (hsl : ms'.seenErr ≤ s.fns.length) (hcl : s.cs.length ≤ s'.cs.length)
    (hcall : ∀ (t : Nat) (c : Caller) (mc : OCall), s'.cs[t]? = some c → ms'.calls[t]? = some mc →
      CallRel s' ms' c mc) : Rel s' ms' := by
  refine ⟨hi', hlen, hcall, ?_, ?_, ?_, ?_, ?_, ?_, ?_⟩
  rotate_right
  · intro f fn hf; rw [hfns] at hf; exact Nat.lt_of_lt_of_le (hR.initLt f fn hf) hcl
  · rw [hmf, hfns]; exact hR.lenF
  · intro f fn hf; rw [hmf]; rw [hfns] at hf; exact hR.entered f fn hf
  · intro f fn mf hf hm; rw [hfns] at hf; rw [hmf] at hm; exact hR.fnR f fn mf hf hm
  · intro f hf; rw [hok] at hf; rw [hfns]; exact hR.okAt f hf
  · intro f fn hf; rw [hfns] at hf; exact hseen f fn hf
  · rw [hfns]; exact hsl

/-- an internal step of caller `t` (instances untouched, monitor unchanged) -/
theorem Rel.caller_step {s s' : St} {ms : C16St} {e : Ev} (hR : Rel s ms) (hst : step s e = some s')
    (t : Nat) (c c' : Caller) (hc : s.cs[t]? = some c)
    (hs' : s' = { s with cs := s.cs.set t c' })
    (hnew : ∀ mc, ms.calls[t]? = some mc → CallRel s ms c mc → CallRel s ms c' mc) : Rel s' ms := by
  have hi' := step_inv s e s' hR.inv hst
  subst hs'
  refine hR.of_fns_same hi' rfl rfl rfl (by simp [hR.lenC]) (Nat.le_refl _) hR.seen hR.seenLe (by simp) ?_
  intro u d mc hu hm
  simp only at hu
  rcases getElem?_set_cases s.cs t u c' d hu with ⟨rfl, rfl⟩ | ⟨_, hx⟩
  · have := hnew mc hm (hR.callR u c mc hc hm)
    exact { this with okS := this.okS }
  · have := hR.callR u d mc hx hm
    exact { this with okS := this.okS }

end UtilModel.Once

namespace UtilModel.Once
open UtilModel

theorem CallRel.set_pc {s : St} {ms : C16St} {c : Caller} {mc : OCall} (h : CallRel s ms c mc) (p : CS)
    (hold : ∀ v e, c.pc ≠ .done v e) (hnew : ∀ v e, p ≠ .done v e)
    (h1 : ∀ g, p = .awaiting g → mc.minFn ≤ g)
    (h2 : ∀ v n, p = .retd v (.custom n) → mc.minFn < n)
    (h3 : ∀ f g, mc.okAtInv = some f → p = .awaiting g → g = f)
    (h4 : ∀ f v e, mc.okAtInv = some f → p = .retd v e → (v = f + 1 ∧ e = .nil) ∨ e = .canceled) :
    CallRel s ms { c with pc := p } mc where
  cx := h.cx
  ret := by
    constructor
    · intro hr; obtain ⟨v, e, hd⟩ := h.ret.mp hr; exact absurd hd (hold v e)
    · intro ⟨v, e, hd⟩; exact absurd hd (hnew v e)
  minLe := h.minLe
  minAw := h1
  minRet := h2
  okS := h.okS
  okAw := h3
  okRet := h4

/-- a step of instance `f` that is invisible to the monitor -/
theorem Rel.fn_step {s s' : St} {ms : C16St} {e : Ev} (hR : Rel s ms) (hst : step s e = some s')
    (f : Nat) (fn fn' : Fn) (sl : Option Nat) (hf : s.fns[f]? = some fn)
    (hs' : s' = { s with slot := sl, fns := s.fns.set f fn' })
    (hsp : fn.st ≠ .spawned) (hsp' : fn'.st ≠ .spawned) (hinit : fn'.init = fn.init)
    (hout : ∀ o, outRel fn o → outRel fn' o) : Rel s' ms := by
  have hi' := step_inv s e s' hR.inv hst
  have hlt := lt_of_getElem? hf
  refine ⟨hi', ?_, ?_, ?_, ?_, ?_, ?_, ?_, ?_, ?_⟩
  rotate_right
  · intro g gn hg
    subst hs'
    simp only at hg ⊢
    rcases getElem?_set_cases s.fns f g fn' gn hg with ⟨rfl, rfl⟩ | ⟨_, hx⟩
    · rw [hinit]; exact hR.initLt g fn hf
    · exact hR.initLt g gn hx
  · subst hs'; exact hR.lenC
  · intro t c mc hc hm
    have hc' : s.cs[t]? = some c := by subst hs'; exact hc
    exact (hR.callR t c mc hc' hm).step hR.inv hst (Nat.le_refl _)
  · subst hs'; simp only [List.length_set]; exact hR.lenF
  · intro g gn hg
    subst hs'
    simp only at hg
    rcases getElem?_set_cases s.fns f g fn' gn hg with ⟨rfl, rfl⟩ | ⟨_, hx⟩
    · have := (hR.entered g fn hf).mpr hsp
      exact ⟨fun _ => hsp', fun _ => this⟩
    · exact hR.entered g gn hx
  · intro g gn mf hg hm
    subst hs'
    simp only at hg
    rcases getElem?_set_cases s.fns f g fn' gn hg with ⟨rfl, rfl⟩ | ⟨_, hx⟩
    · obtain ⟨h1, h2⟩ := hR.fnR g fn mf hf hm
      exact ⟨by rw [hinit]; exact h1, hout _ h2⟩
    · exact hR.fnR g gn mf hx hm
  · intro g hg
    obtain ⟨gn, h1, h2⟩ := hR.okAt g hg
    exact succeeded_step s s' e hR.inv hst g gn h1 h2
  · intro g gn hg hlt'
    have hgl : g < s.fns.length := by
      have := lt_of_getElem? hg; subst hs'; simpa using this
    obtain ⟨go, hgo⟩ : ∃ go, s.fns[g]? = some go := ⟨s.fns[g], by simp [hgl]⟩
    obtain ⟨gn', h1, h2⟩ := holds_false_step s s' e hR.inv hst g go hgo (hR.seen g go hgo hlt')
    rw [hg] at h1; cases h1; exact h2
  · subst hs'; simp only [List.length_set]; exact hR.seenLe

theorem sim_internal (s : St) (e : Ev) (s' : St) (ms : C16St) (hR : Rel s ms)
    (hst : step s e = some s') (hobs : e.obs = none) : Rel s' ms := by
  have hi := hR.inv
  cases e with
  | inv t => simp [Ev.obs] at hobs
  | ret t v e => simp [Ev.obs] at hobs
  | envCancel t => simp [Ev.obs] at hobs
  | cbin f t => simp [Ev.obs] at hobs
  | cbout f o => simp [Ev.obs] at hobs
  | quiesce B => simp [Ev.obs] at hobs
  | chkCtx t =>
    have hst0 := hst
    simp only [step] at hst
    split at hst <;> try simp at hst
    rename_i c hc
    split at hst <;> try simp at hst
    rename_i hpc
    split at hst <;> simp at hst <;> subst hst
    · refine hR.caller_step hst0 t c { c with pc := .retd 0 .canceled } hc rfl ?_
      intro mc _ h
      exact h.set_pc _ (by rw [hpc]; simp) (by simp) (by simp) (by simp) (by simp)
        (by intro f v e _ h; cases h; exact Or.inr rfl)
    · refine hR.caller_step hst0 t c { c with pc := .atLock } hc rfl ?_
      intro mc _ h
      exact h.set_pc _ (by rw [hpc]; simp) (by simp) (by simp) (by simp) (by simp) (by simp)
  | lockCS t =>
    have hst0 := hst
    simp only [step] at hst
    split at hst <;> try simp at hst
    rename_i c hc
    split at hst <;> try simp at hst
    rename_i hpc
    split at hst <;> simp at hst <;> subst hst
    · rename_i f hslot
      have hfl := hi.slotLast f hslot
      obtain ⟨fn, hf⟩ : ∃ fn, s.fns[f]? = some fn := ⟨s.fns[f]'(by omega), by simp⟩
      have hh := (hi.holds f fn hf).mpr hslot
      refine hR.caller_step hst0 t c { c with pc := .awaiting f } hc rfl ?_
      intro mc _ h
      refine h.set_pc _ (by rw [hpc]; simp) (by simp) ?_ (by simp) ?_ (by simp)
      · intro g hg; cases hg
        have : ¬ f < ms.seenErr := by
          intro hlt; have := hR.seen f fn hf hlt; simp [hh] at this
        have := h.minLe; omega
      · intro f0 g hok hg; cases hg
        obtain ⟨fn0, h1, h2⟩ := h.okS f0 hok
        have := (hi.holds f0 fn0 h1).mp (succeeded_holds fn0 h2)
        rw [hslot] at this; cases this; rfl
    · rename_i hslot
      -- a new instance is started; the monitor does not see it before it enters the function
      have hi' := step_inv s _ _ hi hst0
      have hlt := lt_of_getElem? hc
      refine ⟨hi', by simp [setPc, hR.lenC], ?_, ?_, ?_, ?_, ?_, ?_, ?_, ?_⟩
      rotate_right
      · intro f fn hf
        simp only [setPc, List.length_set] at hf ⊢
        rcases getElem?_snoc_cases _ _ _ _ hf with ⟨_, hx⟩ | ⟨rfl, rfl⟩
        · exact hR.initLt f fn hx
        · exact hlt
      · intro u d mc hu hm
        simp only [setPc] at hu
        rcases getElem?_set_cases s.cs t u _ d hu with ⟨rfl, rfl⟩ | ⟨_, hx⟩
        · have h := (hR.callR u c mc hc hm).step hi hst0 (Nat.le_refl _)
          refine h.set_pc _ (by rw [hpc]; simp) (by simp) ?_ (by simp) ?_ (by simp)
          · intro g hg; cases hg; have := h.minLe; have := hR.seenLe; omega
          · intro f0 g hok hg
            obtain ⟨fn0, h1, h2⟩ := (hR.callR u c mc hc hm).okS f0 hok
            have := (hi.holds f0 fn0 h1).mp (succeeded_holds fn0 h2)
            rw [hslot] at this; cases this
        · exact (hR.callR u d mc hx hm).step hi hst0 (Nat.le_refl _)
      · simp [setPc]; have := hR.lenF; omega
      · intro f fn hf
        simp only [setPc] at hf
        rcases getElem?_snoc_cases _ _ _ _ hf with ⟨_, hx⟩ | ⟨rfl, rfl⟩
        · exact hR.entered f fn hx
        · have := hR.lenF; simp; omega
      · intro f fn mf hf hm
        simp only [setPc] at hf
        rcases getElem?_snoc_cases _ _ _ _ hf with ⟨_, hx⟩ | ⟨rfl, rfl⟩
        · exact hR.fnR f fn mf hx hm
        · have := hR.lenF
          have := lt_of_getElem? hm
          omega
      · intro f hf
        obtain ⟨fn, h1, h2⟩ := hR.okAt f hf
        exact ⟨fn, getElem?_snoc_left _ _ _ _ h1, h2⟩
      · intro f fn hf hlt'
        simp only [setPc] at hf
        rcases getElem?_snoc_cases _ _ _ _ hf with ⟨_, hx⟩ | ⟨rfl, rfl⟩
        · exact hR.seen f fn hx hlt'
        · have := hR.seenLe; omega
      · simp [setPc]; have := hR.seenLe; omega
  | sel t br =>
    have hst0 := hst
    simp only [step] at hst
    split at hst <;> try simp at hst
    rename_i c hc
    split at hst <;> try simp at hst
    rename_i f hpc
    cases br with
    | ctx =>
      simp only at hst
      split at hst <;> simp at hst; subst hst
      refine hR.caller_step hst0 t c { c with pc := .top } hc rfl ?_
      intro mc _ h
      exact h.set_pc _ (by rw [hpc]; simp) (by simp) (by simp) (by simp) (by simp) (by simp)
    | res =>
      simp only at hst
      split at hst <;> simp at hst <;> subst hst
      · refine hR.caller_step hst0 t c { c with pc := .top } hc rfl ?_
        intro mc _ h
        exact h.set_pc _ (by rw [hpc]; simp) (by simp) (by simp) (by simp) (by simp) (by simp)
      · rename_i v e hne hres
        obtain ⟨fn, hf, hr⟩ := resOf_some s f _ hres
        obtain ⟨w1, w2, -⟩ := hi.wf f fn hf
        refine hR.caller_step hst0 t c { c with pc := .retd v e } hc rfl ?_
        intro mc _ h
        refine h.set_pc _ (by rw [hpc]; simp) (by simp) (by simp) ?_ ?_ ?_
        · intro v' n hp; cases hp
          have hm := h.minAw f hpc
          rcases w2 v _ hr with ⟨h1, _⟩ | ⟨_, h1 | h1⟩
          · cases h1
          · cases h1; omega
          · cases h1
        · intro f0 g _ hp; cases hp
        · intro f0 v' e' hok hp; cases hp
          have hff := h.okAw f0 f hok hpc
          subst hff
          obtain ⟨fn0, h1, h2⟩ := h.okS f hok
          rw [hf] at h1; cases h1
          unfold Fn.succeeded at h2
          have hfin := w1.mp (by simp [hr])
          rw [hfin, hr] at h2
          rcases w2 v e hr with ⟨h3, h4⟩ | ⟨_, h3⟩
          · exact Or.inl ⟨h4, h3⟩
          · rcases h3 with h3 | h3 <;> subst h3 <;> simp at h2
  | fnClear f =>
    have hst0 := hst
    simp only [step] at hst
    split at hst <;> try simp at hst
    rename_i fn hf
    split at hst <;> try simp at hst
    rename_i e hfs
    subst hst
    refine hR.fn_step hst0 f fn { fn with st := .cleared e } _ hf rfl (by rw [hfs]; simp) (by simp) rfl ?_
    intro o ho
    simp only [outRel, hfs] at ho ⊢
    exact ho
  | fnCheck f =>
    have hst0 := hst
    simp only [step] at hst
    split at hst <;> try simp at hst
    rename_i fn hf
    split at hst <;> try simp at hst
    rename_i e hfs
    subst hst
    refine hR.fn_step hst0 f fn { fn with st := .decided _ } s.slot hf rfl (by rw [hfs]; simp) (by simp) rfl ?_
    intro o ho
    simp only [outRel, hfs] at ho ⊢
    refine ⟨e, ho, ?_⟩
    split
    · exact Or.inl rfl
    · exact Or.inr rfl
  | fnPublish f =>
    have hst0 := hst
    simp only [step] at hst
    split at hst <;> try simp at hst
    rename_i fn hf
    split at hst <;> simp at hst <;> subst hst
    · rename_i v hfs
      refine hR.fn_step hst0 f fn { fn with st := .finished, res := some (v, .nil) } s.slot hf rfl
        (by rw [hfs]; simp) (by simp) rfl ?_
      intro o ho
      simp only [outRel, hfs] at ho ⊢
      exact ho
    · rename_i e hfs
      have he := (hi.wf f fn hf).2.2.2.2 e hfs
      refine hR.fn_step hst0 f fn { fn with st := .finished, res := some (0, e) } s.slot hf rfl
        (by rw [hfs]; simp) (by simp) rfl ?_
      intro o ho
      simp only [outRel, hfs] at ho ⊢
      rcases he with h | h <;> subst h <;> exact ho

end UtilModel.Once

namespace UtilModel.Once
open UtilModel

/-- quiescence, from the invariant -/
theorem quiescent_pending_inv (s : St) (hi : Inv s)
    (hq : quiescent s = true) (t : Nat) (c : Caller) (hc : s.cs[t]? = some c)
    (hp : ∀ v e, c.pc ≠ .done v e) :
    c.cx = false ∧ ∃ f fn, c.pc = .awaiting f ∧ s.fns[f]? = some fn ∧ fn.st = .running := by
  simp only [quiescent, Bool.and_eq_true, List.all_eq_true] at hq
  have hcq := hq.1 c (List.mem_of_getElem? hc)
  unfold Caller.quiet at hcq
  split at hcq <;> try simp at hcq
  · rename_i f hpc
    have hlt := hi.awaitLt t c f hc hpc
    obtain ⟨fn, hf⟩ : ∃ fn, s.fns[f]? = some fn := ⟨s.fns[f], by simp⟩
    refine ⟨hcq.1, f, fn, hpc, hf, ?_⟩
    have hfq := hq.2 fn (List.mem_of_getElem? hf)
    unfold Fn.quiet at hfq
    split at hfq <;> try simp at hfq
    · assumption
    · rename_i hfin
      have := (hi.wf f fn hf).1.mpr hfin
      simp [resOf, hf] at hcq
      simp [hcq.2] at this
  · rename_i v e hpc; exact absurd hpc (hp v e)

theorem mem_pendingIds (s : St) (t : Nat) (h : t ∈ pendingIds s) :
    ∃ c, s.cs[t]? = some c ∧ ∀ v e, c.pc ≠ .done v e := by
  simp only [pendingIds, List.mem_filter, List.mem_range] at h
  obtain ⟨hlt, hp⟩ := h
  refine ⟨s.cs[t], by simp, ?_⟩
  intro v e hd
  simp [hlt, hd] at hp

theorem sim_obs (s : St) (e : Ev) (s' : St) (ms : C16St) (hR : Rel s ms)
    (hst : step s e = some s') (o : Obs) (hobs : e.obs = some o) :
    ∃ ms', monC16.step ms o = some ms' ∧ Rel s' ms' := by
  have hi := hR.inv
  have hi' := step_inv s e s' hi hst
  cases e with
  | chkCtx t => simp [Ev.obs] at hobs
  | lockCS t => simp [Ev.obs] at hobs
  | sel t br => simp [Ev.obs] at hobs
  | fnClear f => simp [Ev.obs] at hobs
  | fnCheck f => simp [Ev.obs] at hobs
  | fnPublish f => simp [Ev.obs] at hobs
  | inv t =>
    simp [Ev.obs] at hobs; subst hobs
    have hst0 := hst
    simp only [step] at hst; split at hst <;> simp at hst; subst hst
    rename_i ht
    refine ⟨_, by (simp [monC16, hR.lenC, ht]; first | done | rfl), ?_⟩
    refine hR.of_fns_same hi' rfl rfl rfl (by simp [hR.lenC]) (Nat.le_refl _) hR.seen hR.seenLe (by simp) ?_
    intro u d mc hu hm
    simp only at hu hm
    rcases getElem?_snoc_cases _ _ _ _ hu with ⟨hul, hx⟩ | ⟨hul, rfl⟩
    · rcases getElem?_snoc_cases _ _ _ _ hm with ⟨_, hy⟩ | ⟨hml, _⟩
      · exact (hR.callR u d mc hx hy).step hi hst0 (Nat.le_refl _)
      · have := hR.lenC; omega
    · rcases getElem?_snoc_cases _ _ _ _ hm with ⟨hml, _⟩ | ⟨_, rfl⟩
      · have := hR.lenC; omega
      · refine ⟨rfl, by simp, Nat.le_refl _, by simp, by simp, ?_, by simp, by simp⟩
        intro f hf
        obtain ⟨fn, h1, h2⟩ := hR.okAt f hf
        exact ⟨fn, h1, h2⟩
  | envCancel t =>
    simp [Ev.obs] at hobs; subst hobs
    have hst0 := hst
    simp only [step] at hst
    split at hst <;> simp at hst
    rename_i c hc
    subst hst
    have htl : t < ms.calls.length := by rw [hR.lenC]; exact lt_of_getElem? hc
    obtain ⟨mc, hmc⟩ : ∃ mc, ms.calls[t]? = some mc := ⟨ms.calls[t], by simp⟩
    refine ⟨_, by (simp [monC16, hmc]; first | done | rfl), ?_⟩
    refine hR.of_fns_same hi' rfl rfl rfl (by simp [hR.lenC]) (Nat.le_refl _) hR.seen hR.seenLe (by simp) ?_
    intro u d md hu hm
    simp only at hu hm
    rcases getElem?_set_cases s.cs t u _ d hu with ⟨rfl, rfl⟩ | ⟨hne, hx⟩
    · rw [getElem?_set_self' _ _ _ _ hmc] at hm; cases hm
      have h := (hR.callR u c mc hc hmc).step (ms' := ms) hi hst0 (Nat.le_refl _)
      exact ⟨rfl, h.ret, h.minLe, h.minAw, h.minRet, h.okS, h.okAw, h.okRet⟩
    · rw [getElem?_set_ne' _ _ _ _ (fun e => hne e.symm)] at hm
      exact (hR.callR u d md hx hm).step hi hst0 (Nat.le_refl _)
  | ret t v e =>
    simp [Ev.obs] at hobs; subst hobs
    have hst0 := hst
    simp only [step] at hst
    split at hst <;> try simp at hst
    rename_i c hc
    split at hst <;> try simp at hst
    rename_i v' e' hpc
    obtain ⟨⟨rfl, rfl⟩, rfl⟩ := hst
    have htl : t < ms.calls.length := by rw [hR.lenC]; exact lt_of_getElem? hc
    obtain ⟨mc, hmc⟩ : ∃ mc, ms.calls[t]? = some mc := ⟨ms.calls[t], by simp⟩
    have h := hR.callR t c mc hc hmc
    have hnr : mc.ret = false := by
      cases hr : mc.ret with
      | false => rfl
      | true => obtain ⟨a, b, hd⟩ := h.ret.mp hr; rw [hpc] at hd; cases hd
    -- the relation after the return, for any new value of `seenErr` justified by `hseen`
    have build : ∀ (se : Nat), ms.seenErr ≤ se →
        (∀ (f : Nat) (fn : Fn), s.fns[f]? = some fn → f < se → fn.holds = false) → se ≤ s.fns.length →
        Rel (setPc s t c (.done v e))
          { ms with calls := ms.calls.set t { mc with ret := true }, seenErr := se } := by
      intro se hse hseen hsl
      refine hR.of_fns_same hi' rfl rfl rfl (by simp [setPc, hR.lenC]) hse hseen hsl (by simp [setPc]) ?_
      intro u d md hu hm
      simp only [setPc] at hu hm
      rcases getElem?_set_cases s.cs t u _ d hu with ⟨rfl, rfl⟩ | ⟨hne, hx⟩
      · rw [getElem?_set_self' _ _ _ _ hmc] at hm; cases hm
        have h' := h.step (ms' := { ms with calls := ms.calls.set u { mc with ret := true }, seenErr := se }) hi hst0 hse
        exact ⟨h'.cx, by simp, h'.minLe, by simp, by simp, h'.okS, by simp, by simp⟩
      · rw [getElem?_set_ne' _ _ _ _ (fun e => hne e.symm)] at hm
        exact (hR.callR u d md hx hm).step hi hst0 hse
    rcases hi.retdOk t c v e hc (Or.inl hpc) with ⟨hv, he, hcx⟩ | ⟨hne, f, fn, hf, hr⟩
    · subst hv he
      have hmcx : mc.cx = true := by rw [h.cx]; exact hcx
      have hstep : monC16.step ms (.ret t 0 .canceled) =
          some { ms with calls := ms.calls.set t { mc with ret := true }, seenErr := ms.seenErr } := by
        simp [monC16, hmc, hnr, hmcx]
      exact ⟨_, hstep, build ms.seenErr (Nat.le_refl _) hR.seen hR.seenLe⟩
    · obtain ⟨w1, w2, -⟩ := hi.wf f fn hf
      have hfin := w1.mp (by simp [hr])
      have hent : f < ms.fns.length := (hR.entered f fn hf).mpr (by rw [hfin]; simp)
      obtain ⟨mf, hmf⟩ : ∃ mf, ms.fns[f]? = some mf := ⟨ms.fns[f], by simp⟩
      have hor := (hR.fnR f fn mf hf hmf).2
      simp only [outRel, hfin, hr] at hor
      rcases w2 v e hr with ⟨he, hv⟩ | ⟨hv, he | he⟩
      · subst he hv
        simp only at hor
        have hok : mc.okAtInv = none ∨ mc.okAtInv = some f := by
          cases hoi : mc.okAtInv with
          | none => exact Or.inl rfl
          | some f0 =>
            rcases h.okRet f0 _ _ hoi hpc with ⟨h1, _⟩ | h1
            · right; congr; omega
            · cases h1
        have hstep : monC16.step ms (.ret t (f + 1) .nil) =
            some { ms with calls := ms.calls.set t { mc with ret := true }, seenErr := ms.seenErr } := by
          rcases hok with hok | hok <;> simp [monC16, hmc, hnr, hmf, hor, hok]
        exact ⟨_, hstep, build ms.seenErr (Nat.le_refl _) hR.seen hR.seenLe⟩
      · subst hv he
        simp only at hor
        obtain ⟨e0, ho, he0⟩ := hor
        have he0' : e0 = .custom (f + 1) := by rcases he0 with h | h <;> simp_all
        subst he0'
        have hmin := h.minRet 0 (f + 1) hpc
        have hoi : mc.okAtInv = none := by
          cases hoi : mc.okAtInv with
          | none => rfl
          | some f0 =>
            rcases h.okRet f0 _ _ hoi hpc with ⟨_, h1⟩ | h1 <;> cases h1
        have hstep : monC16.step ms (.ret t 0 (.custom (f + 1))) =
            some { ms with calls := ms.calls.set t { mc with ret := true }, seenErr := max ms.seenErr (f + 1) } := by
          simp [monC16, hmc, hnr, hmf, ho, hmin, hoi]
        have hlt := lt_of_getElem? hf
        refine ⟨_, hstep, ?_⟩
        refine build (max ms.seenErr (f + 1)) (Nat.le_max_left _ _) ?_ (by have := hR.seenLe; omega)
        intro g gn hg hlt'
        by_cases hgs : g < ms.seenErr
        · exact hR.seen g gn hg hgs
        · by_cases hgf : g = f
          · subst hgf; rw [hf] at hg; cases hg
            exact holds_false_of_res_err s hi g fn hf 0 _ hr (by simp)
          · exact not_last_not_holds s hi g f gn hg hlt (by omega)
      · exact absurd he hne
  | cbin f t =>
    simp [Ev.obs] at hobs; subst hobs
    have hst0 := hst
    simp only [step] at hst
    split at hst <;> try simp at hst
    rename_i fn hf
    split at hst <;> try simp at hst
    rename_i hfs
    obtain ⟨hinit, rfl⟩ := hst
    have hflt := lt_of_getElem? hf
    have hh : s.slot = some f := (hi.holds f fn hf).mp (holds_of_active fn (Or.inl hfs))
    have hlast := hi.slotLast f hh
    have htl : t < ms.calls.length := by rw [hR.lenC, ← hinit]; exact hR.initLt f fn hf
    obtain ⟨mc, hmc⟩ : ∃ mc, ms.calls[t]? = some mc := ⟨ms.calls[t], by simp⟩
    -- f is the first instance the monitor has not seen
    have hge : ¬ f < ms.fns.length := by
      intro h; exact (hR.entered f fn hf).mp h hfs
    have hle : f ≤ ms.fns.length := by
      rcases Nat.lt_or_ge ms.fns.length f with hlt | hge'
      · exfalso
        obtain ⟨gn, hg⟩ : ∃ gn, s.fns[ms.fns.length]? = some gn := ⟨s.fns[ms.fns.length]'(by omega), by simp⟩
        have hsp : gn.st = .spawned := by
          cases hgs : gn.st with
          | spawned => rfl
          | _ => exact absurd ((hR.entered _ gn hg).mpr (by rw [hgs]; simp)) (Nat.lt_irrefl _)
        have := hi.slotLast _ ((hi.holds _ gn hg).mp (holds_of_active gn (Or.inl hsp)))
        omega
      · exact hge'
    have hfeq : f = ms.fns.length := by omega
    have hnr : ms.fnRunning = false := by
      simp only [C16St.fnRunning, List.any_eq_false]
      intro mf hmem
      obtain ⟨g, hgl, hg⟩ := List.getElem_of_mem hmem
      have hg' : ms.fns[g]? = some mf := by simp [hgl, hg]
      have hgs : g < s.fns.length := by have := hR.lenF; omega
      obtain ⟨gn, hgn⟩ : ∃ gn, s.fns[g]? = some gn := ⟨s.fns[g], by simp⟩
      have hor := (hR.fnR g gn mf hgn hg').2
      intro hnone
      have hnone' : mf.out = none := by simpa using hnone
      have hrun : gn.st = .running := by
        have hnsp := (hR.entered g gn hgn).mp hgl
        unfold outRel at hor
        rw [hnone'] at hor
        cases hgs' : gn.st with
        | spawned => exact absurd hgs' hnsp
        | running => rfl
        | returned x => simp [hgs'] at hor
        | cleared x => simp [hgs'] at hor
        | decided x => simp [hgs'] at hor
        | finished =>
          simp only [hgs'] at hor
          split at hor <;> simp at hor
      have := (hi.holds g gn hgn).mp (holds_of_active gn (Or.inr (Or.inl hrun)))
      rw [hh] at this; cases this; omega
    have hok : ms.okAt = none := by
      cases hoa : ms.okAt with
      | none => rfl
      | some g =>
        obtain ⟨gn, hg, hgs⟩ := hR.okAt g hoa
        have := (hi.holds g gn hg).mp (succeeded_holds gn hgs)
        rw [hh] at this; cases this
        rw [hf] at hg; cases hg
        simp [Fn.succeeded, hfs] at hgs
    refine ⟨_, by (simp [monC16, hmc, hfeq, hnr, hok]; first | done | rfl), ?_⟩
    refine ⟨hi', hR.lenC, ?_, by simp [setFs]; have := hR.lenF; omega, ?_, ?_, ?_, ?_, by simp [setFs]; exact hR.seenLe, ?_⟩
    · intro u d md hu hm
      exact (hR.callR u d md hu hm).step hi hst0 (Nat.le_refl _)
    · intro g gn hg
      simp only [setFs] at hg
      simp only [List.length_append, List.length_singleton]
      rcases getElem?_set_cases s.fns f g _ gn hg with ⟨rfl, rfl⟩ | ⟨hne, hx⟩
      · simp; omega
      · have := hR.entered g gn hx
        constructor
        · intro hlt
          have hgl : g < ms.fns.length := by omega
          exact this.mp hgl
        · intro h; have := this.mpr h; omega
    · intro g gn mf hg hm
      simp only [setFs] at hg
      rcases getElem?_set_cases s.fns f g _ gn hg with ⟨rfl, rfl⟩ | ⟨hne, hx⟩
      · rw [hfeq] at hm; simp at hm; subst hm
        exact ⟨hinit.symm, by simp [outRel]⟩
      · rcases getElem?_snoc_cases _ _ _ _ hm with ⟨_, hy⟩ | ⟨hgl, _⟩
        · exact hR.fnR g gn mf hx hy
        · exact absurd (hgl.trans hfeq.symm) hne
    · intro g hg
      first | (simp only at hg; rw [hok] at hg; cases hg) | cases hg | simp [hok] at hg
    · intro g gn hg hlt'
      simp only [setFs] at hg
      rcases getElem?_set_cases s.fns f g _ gn hg with ⟨rfl, rfl⟩ | ⟨hne, hx⟩
      · have := hR.seen g fn hf hlt'
        simp [holds_of_active fn (Or.inl hfs)] at this
      · exact hR.seen g gn hx hlt'
    · intro g gn hg
      simp only [setFs] at hg ⊢
      rcases getElem?_set_cases s.fns f g _ gn hg with ⟨rfl, rfl⟩ | ⟨hne, hx⟩
      · exact hR.initLt g fn hf
      · exact hR.initLt g gn hx
  | cbout f o =>
    simp [Ev.obs] at hobs; subst hobs
    have hst0 := hst
    simp only [step] at hst
    split at hst <;> try simp at hst
    rename_i fn hf
    split at hst <;> try simp at hst
    rename_i hfs
    obtain ⟨hokf, rfl⟩ := hst
    have hent : f < ms.fns.length := (hR.entered f fn hf).mpr (by rw [hfs]; simp)
    obtain ⟨mf, hmf⟩ : ∃ mf, ms.fns[f]? = some mf := ⟨ms.fns[f], by simp⟩
    obtain ⟨hin, hor⟩ := hR.fnR f fn mf hf hmf
    simp only [outRel, hfs] at hor
    refine ⟨_, by (simp [monC16, hmf, hor, hokf]; first | done | rfl), ?_⟩
    refine ⟨hi', hR.lenC, ?_, by simp [setFs]; exact hR.lenF, ?_, ?_, ?_, ?_, by simp [setFs]; exact hR.seenLe, ?_⟩
    · intro u d md hu hm
      exact (hR.callR u d md hu hm).step hi hst0 (Nat.le_refl _)
    · intro g gn hg
      simp only [setFs] at hg
      simp only [List.length_set]
      rcases getElem?_set_cases s.fns f g _ gn hg with ⟨rfl, rfl⟩ | ⟨hne, hx⟩
      · simp; exact hent
      · exact hR.entered g gn hx
    · intro g gn mg hg hm
      simp only [setFs] at hg
      rcases getElem?_set_cases s.fns f g _ gn hg with ⟨rfl, rfl⟩ | ⟨hne, hx⟩
      · rw [getElem?_set_self' _ _ _ _ hmf] at hm; cases hm
        exact ⟨hin, by simp [outRel]⟩
      · rw [getElem?_set_ne' _ _ _ _ (fun e => hne e.symm)] at hm
        exact hR.fnR g gn mg hx hm
    · intro g hg
      simp only at hg
      cases o with
      | ok v =>
        simp at hg; subst hg
        exact ⟨{ fn with st := .returned (.ok v) }, by simp [setFs, lt_of_getElem? hf], by simp [Fn.succeeded]⟩
      | err e' =>
        simp at hg
        obtain ⟨gn, h1, h2⟩ := hR.okAt g hg
        exact succeeded_step s _ _ hi hst0 g gn h1 h2
    · intro g gn hg hlt'
      have hgl : g < s.fns.length := by
        have := lt_of_getElem? hg; simpa [setFs] using this
      obtain ⟨go, hgo⟩ : ∃ go, s.fns[g]? = some go := ⟨s.fns[g], by simp⟩
      obtain ⟨gn', h1, h2⟩ := holds_false_step s _ _ hi hst0 g go hgo (hR.seen g go hgo hlt')
      rw [hg] at h1; cases h1; exact h2
    · intro g gn hg
      simp only [setFs] at hg ⊢
      rcases getElem?_set_cases s.fns f g _ gn hg with ⟨rfl, rfl⟩ | ⟨hne, hx⟩
      · exact hR.initLt g fn hf
      · exact hR.initLt g gn hx
  | quiesce B =>
    simp [Ev.obs] at hobs; subst hobs
    simp only [step] at hst; split at hst <;> simp at hst
    rename_i hq
    obtain ⟨hq, rfl⟩ := hq
    subst hst
    refine ⟨ms, ?_, hR⟩
    have hfact : ∀ t ∈ pendingIds s, ∃ mc, ms.calls[t]? = some mc ∧ mc.ret = false ∧ mc.cx = false ∧
        ms.okAt = none ∧ ms.fnRunning = true := by
      intro t ht
      obtain ⟨c, hc, hp⟩ := mem_pendingIds s t ht
      have htl : t < ms.calls.length := by rw [hR.lenC]; exact lt_of_getElem? hc
      obtain ⟨mc, hmc⟩ : ∃ mc, ms.calls[t]? = some mc := ⟨ms.calls[t], by simp⟩
      have h := hR.callR t c mc hc hmc
      obtain ⟨hcx, f, fn, hpc, hf, hrun⟩ := quiescent_pending_inv s hi hq t c hc hp
      have hslot := (hi.holds f fn hf).mp (holds_of_active fn (Or.inr (Or.inl hrun)))
      have h1 : mc.ret = false := by
        cases hr : mc.ret with
        | false => rfl
        | true => obtain ⟨a, b, hd⟩ := h.ret.mp hr; exact absurd hd (hp a b)
      have h2 : mc.cx = false := by rw [h.cx]; exact hcx
      have h3 : ms.okAt = none := by
        cases hoa : ms.okAt with
        | none => rfl
        | some g =>
          obtain ⟨gn, hg, hgs⟩ := hR.okAt g hoa
          have := (hi.holds g gn hg).mp (succeeded_holds gn hgs)
          rw [hslot] at this; cases this
          rw [hf] at hg; cases hg
          simp [Fn.succeeded, hrun] at hgs
      have h4 : ms.fnRunning = true := by
        have hent : f < ms.fns.length := (hR.entered f fn hf).mpr (by rw [hrun]; simp)
        obtain ⟨mf, hmf⟩ : ∃ mf, ms.fns[f]? = some mf := ⟨ms.fns[f], by simp⟩
        have hor := (hR.fnR f fn mf hf hmf).2
        simp only [outRel, hrun] at hor
        simp only [C16St.fnRunning, List.any_eq_true]
        exact ⟨mf, List.mem_of_getElem? hmf, by simp [hor]⟩
      exact ⟨mc, hmc, h1, h2, h3, h4⟩
    simp only [monC16]
    split
    · rfl
    · rename_i hn
      exfalso; apply hn
      rw [List.all_eq_true]
      intro t ht
      obtain ⟨mc, h0, h1, h2, h3, h4⟩ := hfact t ht
      simp [h0, h1, h2, h3, h4]

/-- **C16 (Once), observable form.** Every observable trace of the model — any number of callers,
every interleaving, every mix of outcomes and cancellations — is accepted by the monitor `monC16`:
the function is never entered twice at once, never again after a success, values and errors
returned are outcomes of real calls, an error already handed out is not handed to a later caller,
`Canceled` goes only to cancelled callers, and at quiescence live callers wait only for a call that
is in progress. -/
theorem C16_obs_once (es : List Ev) (s : St) (h : model.run model.init es = some s) :
    monC16.accepts (es.filterMap model.obs) = true :=
  monitor_accepts_of_simulation model monC16 Rel rel_init
    (fun s e s' ms hR hs => by
      cases hobs : model.obs e with
      | none => exact sim_internal s e s' ms hR hs hobs
      | some o => exact sim_obs s e s' ms hR hs o hobs) es s h

end UtilModel.Once
