import UtilModel.Once.Props
import UtilModel.Once.Monitors
/-!
# promise.Once — every observable trace of the model is accepted by `monC16` (simulation)
-/
namespace UtilModel.Once
open UtilModel

/-- what the monitor knows about the outcome of an entered instance -/
def outRel (fn : Fn) (o : Option Out) : Prop :=
  match fn.st with
  | .spawned => True
  | .running => o = none
  | .returned x => o = some x
  | .cleared e => o = some (.err e)
  | .decided e => ∃ e0, o = some (.err e0) ∧ (e = .canceled ∨ e = e0)
  | .finished => match fn.res with
    | some (v, .nil) => o = some (.ok v)
    | some (_, e) => ∃ e0, o = some (.err e0) ∧ (e = .canceled ∨ e = e0)
    | none => False

structure CallRel (s : St) (ms : C16St) (c : Caller) (mc : OCall) : Prop where
  cx : mc.cx = c.cx
  ret : mc.ret = true ↔ ∃ v e, c.pc = .done v e
  minLe : mc.minFn ≤ ms.seenErr
  minAw : ∀ g, c.pc = .awaiting g → mc.minFn ≤ g
  minRet : ∀ v n, c.pc = .retd v (.custom n) → mc.minFn < n
  okS : ∀ f, mc.okAtInv = some f → ∃ fn, s.fns[f]? = some fn ∧ fn.succeeded = true
  okAw : ∀ f g, mc.okAtInv = some f → c.pc = .awaiting g → g = f
  okRet : ∀ f v e, mc.okAtInv = some f → c.pc = .retd v e → (v = f + 1 ∧ e = .nil) ∨ e = .canceled

structure Rel (s : St) (ms : C16St) : Prop where
  inv : Inv s
  lenC : ms.calls.length = s.cs.length
  callR : ∀ (t : Nat) (c : Caller) (mc : OCall), s.cs[t]? = some c → ms.calls[t]? = some mc → CallRel s ms c mc
  lenF : ms.fns.length ≤ s.fns.length
  entered : ∀ (f : Nat) (fn : Fn), s.fns[f]? = some fn → (f < ms.fns.length ↔ fn.st ≠ .spawned)
  fnR : ∀ (f : Nat) (fn : Fn) (mf : OFn), s.fns[f]? = some fn → ms.fns[f]? = some mf →
    mf.init = fn.init ∧ outRel fn mf.out
  okAt : ∀ (f : Nat), ms.okAt = some f → ∃ fn, s.fns[f]? = some fn ∧ fn.succeeded = true
  seen : ∀ (f : Nat) (fn : Fn), s.fns[f]? = some fn → f < ms.seenErr → fn.holds = false
  seenLe : ms.seenErr ≤ s.fns.length

theorem rel_init : Rel model.init monC16.init := by
  refine ⟨init_inv, rfl, ?_, by simp [monC16, model], ?_, ?_, ?_, ?_, by simp [monC16]⟩ <;>
    intros <;> simp_all [monC16, model]

/-! ### general facts -/

/-- only the instance that owns the slot can be un-failed: a non-last instance does not hold -/
theorem not_last_not_holds (s : St) (hi : Inv s) (f g : Nat) (fn : Fn) (hf : s.fns[f]? = some fn)
    (hg : g < s.fns.length) (hlt : f < g) : fn.holds = false := by
  cases hh : fn.holds with
  | false => rfl
  | true =>
    have := hi.slotLast f ((hi.holds f fn hf).mp hh)
    omega

theorem holds_false_of_res_err (s : St) (hi : Inv s) (f : Nat) (fn : Fn) (hf : s.fns[f]? = some fn)
    (v : Nat) (e : Err) (hr : fn.res = some (v, e)) (he : e ≠ .nil) : fn.holds = false := by
  have hfin := (hi.wf f fn hf).1.mp (by simp [hr])
  unfold Fn.holds
  rw [hfin, hr]
  cases e <;> simp_all

/-- an instance that does not hold never holds again -/
theorem holds_false_step (s s' : St) (e : Ev) (hi : Inv s) (hst : step s e = some s')
    (f : Nat) (fn : Fn) (hf : s.fns[f]? = some fn) (hh : fn.holds = false) :
    ∃ fn', s'.fns[f]? = some fn' ∧ fn'.holds = false := by
  have hlt := lt_of_getElem? hf
  have other : ∀ (g : Nat) (gn gn' : Fn), s.fns[g]? = some gn → (g = f → gn'.holds = false) →
      ∃ fn', (s.fns.set g gn')[f]? = some fn' ∧ fn'.holds = false := by
    intro g gn gn' hg h
    by_cases hgf : g = f
    · subst hgf; exact ⟨gn', by simp [hlt], h rfl⟩
    · exact ⟨fn, by rw [getElem?_set_ne' _ _ _ _ hgf]; exact hf, hh⟩
  cases e with
  | inv t => simp only [step] at hst; split at hst <;> simp at hst; subst hst; exact ⟨fn, hf, hh⟩
  | chkCtx t =>
    simp only [step] at hst
    split at hst <;> try simp at hst
    split at hst <;> try simp at hst
    split at hst <;> simp at hst <;> subst hst <;> exact ⟨fn, hf, hh⟩
  | lockCS t =>
    simp only [step] at hst
    split at hst <;> try simp at hst
    split at hst <;> try simp at hst
    split at hst <;> simp at hst <;> subst hst
    · exact ⟨fn, hf, hh⟩
    · exact ⟨fn, getElem?_snoc_left _ _ _ _ hf, hh⟩
  | sel t br =>
    simp only [step] at hst
    split at hst <;> try simp at hst
    split at hst <;> try simp at hst
    cases br <;> simp only at hst <;> split at hst <;> simp at hst <;> subst hst <;> exact ⟨fn, hf, hh⟩
  | ret t v e =>
    simp only [step] at hst
    split at hst <;> try simp at hst
    split at hst <;> try simp at hst
    obtain ⟨_, rfl⟩ := hst; exact ⟨fn, hf, hh⟩
  | envCancel t =>
    simp only [step] at hst
    split at hst <;> simp at hst
    subst hst; exact ⟨fn, hf, hh⟩
  | cbin g t =>
    simp only [step] at hst
    split at hst <;> try simp at hst
    rename_i gn hg
    split at hst <;> try simp at hst
    rename_i hgs
    obtain ⟨_, rfl⟩ := hst
    refine other g gn _ hg ?_
    intro e; subst e; rw [hf] at hg; cases hg
    simp [Fn.holds, hgs] at hh
  | cbout g o =>
    simp only [step] at hst
    split at hst <;> try simp at hst
    rename_i gn hg
    split at hst <;> try simp at hst
    rename_i hgs
    obtain ⟨_, rfl⟩ := hst
    refine other g gn _ hg ?_
    intro e; subst e; rw [hf] at hg; cases hg
    simp [Fn.holds, hgs] at hh
  | fnClear g =>
    simp only [step] at hst
    split at hst <;> try simp at hst
    rename_i gn hg
    split at hst <;> try simp at hst
    rename_i e hgs
    subst hst
    exact other g gn _ hg (by intro _; simp [Fn.holds])
  | fnCheck g =>
    simp only [step] at hst
    split at hst <;> try simp at hst
    rename_i gn hg
    split at hst <;> try simp at hst
    rename_i e hgs
    subst hst
    exact other g gn _ hg (by intro _; simp [Fn.holds])
  | fnPublish g =>
    simp only [step] at hst
    split at hst <;> try simp at hst
    rename_i gn hg
    split at hst <;> simp at hst <;> subst hst
    · rename_i v hgs
      refine other g gn _ hg ?_
      intro e; subst e; rw [hf] at hg; cases hg
      simp [Fn.holds, hgs] at hh
    · rename_i e hgs
      refine other g gn _ hg ?_
      intro e'; subst e'; rw [hf] at hg; cases hg
      have he := (hi.wf g fn hf).2.2.2.2 e hgs
      have : e ≠ .nil := by rcases he with h | h <;> rw [h] <;> simp
      cases e <;> simp_all [Fn.holds]
  | quiesce B => simp only [step] at hst; split at hst <;> simp at hst; subst hst; exact ⟨fn, hf, hh⟩

theorem fns_len_mono (s s' : St) (e : Ev) (hst : step s e = some s') : s.fns.length ≤ s'.fns.length := by
  cases e with
  | inv t => simp only [step] at hst; split at hst <;> simp at hst; subst hst; simp
  | chkCtx t =>
    simp only [step] at hst
    split at hst <;> try simp at hst
    split at hst <;> try simp at hst
    split at hst <;> simp at hst <;> subst hst <;> simp [setPc]
  | lockCS t =>
    simp only [step] at hst
    split at hst <;> try simp at hst
    split at hst <;> try simp at hst
    split at hst <;> simp at hst <;> subst hst <;> simp [setPc]
  | sel t br =>
    simp only [step] at hst
    split at hst <;> try simp at hst
    split at hst <;> try simp at hst
    cases br <;> simp only at hst <;> split at hst <;> simp at hst <;> subst hst <;> simp [setPc]
  | ret t v e =>
    simp only [step] at hst
    split at hst <;> try simp at hst
    split at hst <;> try simp at hst
    obtain ⟨_, rfl⟩ := hst; simp [setPc]
  | envCancel t =>
    simp only [step] at hst
    split at hst <;> simp at hst
    subst hst; simp
  | cbin g t =>
    simp only [step] at hst
    split at hst <;> try simp at hst
    split at hst <;> try simp at hst
    obtain ⟨_, rfl⟩ := hst; simp [setFs]
  | cbout g o =>
    simp only [step] at hst
    split at hst <;> try simp at hst
    split at hst <;> try simp at hst
    obtain ⟨_, rfl⟩ := hst; simp [setFs]
  | fnClear g =>
    simp only [step] at hst
    split at hst <;> try simp at hst
    split at hst <;> try simp at hst
    subst hst; simp [setFs]
  | fnCheck g =>
    simp only [step] at hst
    split at hst <;> try simp at hst
    split at hst <;> try simp at hst
    subst hst; simp [setFs]
  | fnPublish g =>
    simp only [step] at hst
    split at hst <;> try simp at hst
    split at hst <;> simp at hst <;> subst hst <;> simp
  | quiesce B => simp only [step] at hst; split at hst <;> simp at hst; subst hst; simp

end UtilModel.Once

namespace UtilModel.Once
open UtilModel

/-- the caller-side relation survives any model step and any growth of `seenErr`, as long as the
caller and its monitor record stay the same -/
theorem CallRel.step {s s' : St} {ms ms' : C16St} {c : Caller} {mc : OCall} {e : Ev}
    (h : CallRel s ms c mc) (hi : Inv s) (hst : step s e = some s') (hse : ms.seenErr ≤ ms'.seenErr) :
    CallRel s' ms' c mc :=
  { h with
    minLe := Nat.le_trans h.minLe hse
    okS := fun f hf => by
      obtain ⟨fn, h1, h2⟩ := h.okS f hf
      exact succeeded_step s s' e hi hst f fn h1 h2 }

/-- transfer of the instance-side facts along a step that leaves every existing instance's state
and result untouched (caller steps, environment actions) -/
theorem Rel.of_fns_same {s s' : St} {ms ms' : C16St} (hR : Rel s ms) (hi' : Inv s')
    (hfns : s'.fns = s.fns) (hmf : ms'.fns = ms.fns) (hok : ms'.okAt = ms.okAt)
    (hlen : ms'.calls.length = s'.cs.length)
    (hse : ms.seenErr ≤ ms'.seenErr)
    (hseen : ∀ (f : Nat) (fn : Fn), s.fns[f]? = some fn → f < ms'.seenErr → fn.holds = false)
    (hsl : ms'.seenErr ≤ s.fns.length)
    (hcall : ∀ (t : Nat) (c : Caller) (mc : OCall), s'.cs[t]? = some c → ms'.calls[t]? = some mc →
      CallRel s' ms' c mc) : Rel s' ms' := by
  refine ⟨hi', hlen, hcall, ?_, ?_, ?_, ?_, ?_, ?_⟩
  · rw [hmf, hfns]; exact hR.lenF
  · intro f fn hf; rw [hmf]; rw [hfns] at hf; exact hR.entered f fn hf
  · intro f fn mf hf hm; rw [hfns] at hf; rw [hmf] at hm; exact hR.fnR f fn mf hf hm
  · intro f hf; rw [hok] at hf; rw [hfns]; exact hR.okAt f hf
  · intro f fn hf; rw [hfns] at hf; exact hseen f fn hf
  · rw [hfns]; exact hsl

/-- an internal step of caller `t` (instances untouched, monitor unchanged) -/
theorem Rel.caller_step {s s' : St} {ms : C16St} {e : Ev} (hR : Rel s ms) (hst : step s e = some s')
    (t : Nat) (c c' : Caller) (hc : s.cs[t]? = some c)
    (hs' : s' = { s with cs := s.cs.set t c' })
    (hnew : ∀ mc, ms.calls[t]? = some mc → CallRel s ms c mc → CallRel s ms c' mc) : Rel s' ms := by
  have hi' := step_inv s e s' hR.inv hst
  subst hs'
  refine hR.of_fns_same hi' rfl rfl rfl (by simp [hR.lenC]) (Nat.le_refl _) hR.seen hR.seenLe ?_
  intro u d mc hu hm
  simp only at hu
  rcases getElem?_set_cases s.cs t u c' d hu with ⟨rfl, rfl⟩ | ⟨_, hx⟩
  · have := hnew mc hm (hR.callR u c mc hc hm)
    exact { this with okS := this.okS }
  · have := hR.callR u d mc hx hm
    exact { this with okS := this.okS }

end UtilModel.Once
