import UtilModel.Core.LTSHash
import UtilModel.Core.LTSComplete
import UtilModel.Once.Sim
/-!
# Once — end-to-end transfer

If the driver's trace-inclusion decision accepts a history recorded from the Go implementation, the
property monitor accepts that history: composition of the checker's soundness theorem
(`accepts_sound` / `acceptsH_sound`) with this package's observable-form property theorem.
-/
namespace UtilModel

theorem C16_accepted_once (cap fuel : Nat) (h : List Once.Obs)
    (ha : Once.model.acceptsH cap fuel h = true) : Once.monC16.accepts h = true :=
  acceptedH_satisfies Once.model (fun h => Once.monC16.accepts h = true)
    Once.C16_obs_once cap fuel h ha

end UtilModel

/-! ## completeness of the candidate lists — a REJECT is about the model -/
namespace UtilModel

/-- every enabled internal event of the Once model is in its candidate list -/
theorem Once.cands_complete (s s' : Once.St) (e : Once.Ev) (hs : Once.step s e = some s')
    (ho : e.obs = none) : e ∈ Once.model.cands s := by
  show e ∈ Once.internalCands s
  unfold Once.internalCands
  cases e <;> simp [Once.Ev.obs] at ho <;> simp only [Once.step] at hs
  all_goals
    split at hs <;> try simp at hs
    rename_i h
    have hlt := lt_of_getElem? h
    simp only [List.mem_append, List.mem_flatMap, List.mem_range]
    first
      | exact Or.inl ⟨_, hlt, by cases ‹Once.Branch› <;> simp⟩
      | exact Or.inl ⟨_, hlt, by simp⟩
      | exact Or.inr ⟨_, hlt, by simp⟩

theorem Once.Ev.obs_evs (e : Once.Ev) (o : Once.Obs) (h : e.obs = some o) : e ∈ o.evs := by
  cases e <;> simp [Once.Ev.obs] at h <;> subst h <;> simp [Once.Obs.evs]

theorem complete_once : Once.model.Complete :=
  ⟨fun s e s' hs ho => Once.cands_complete s s' e hs ho,
   fun _ e _ o _ ho => Once.Ev.obs_evs e o ho⟩

/-- **A REJECT of the Once correspondence is about the model.** -/
theorem reject_sound_once (cap fuel : Nat) (h : List Once.Obs) (i : Nat)
    (hfail : (Once.model.accRunH cap fuel [Once.model.init] h 0 false 1).failedAt = some i)
    (htr : (Once.model.accRunH cap fuel [Once.model.init] h 0 false 1).truncated = false) :
    ¬ ∃ es s, Once.model.run Once.model.init es = some s ∧ es.filterMap Once.model.obs = h :=
  rejectH_sound Once.model complete_once cap fuel h i hfail htr

end UtilModel
