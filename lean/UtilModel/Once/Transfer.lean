import UtilModel.Core.LTSHash
import UtilModel.Once.Sim
/-!
# Once — end-to-end transfer

If the driver's trace-inclusion decision accepts a history recorded from the Go implementation, the
property monitor accepts that history: composition of the checker's soundness theorem
(`accepts_sound` / `acceptsH_sound`) with this package's observable-form property theorem.
-/
namespace UtilModel

theorem C16_accepted_once (cap fuel : Nat) (h : List Once.Obs)
    (ha : Once.model.acceptsH cap fuel h = true) : Once.monC16.accepts h = true :=
  acceptedH_satisfies Once.model (fun h => Once.monC16.accepts h = true)
    Once.C16_obs_once cap fuel h ha

end UtilModel
