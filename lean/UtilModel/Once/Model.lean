import UtilModel.Core.LTS
import UtilModel.Core.Count
/-!
# promise.Once — model (promise/once.go)

One *caller* = one `Resolve` call (numbered in invocation order); one *function instance* = one
goroutine started by a caller that found the slot empty (numbered in start order; the promise it
resolves has the same number, so `slot : Option Nat` is "the promise of instance f").

Atomic actions of `Resolve` (once.go:31-75), one event each:
* `chkCtx t`   — `ctx.Err() != nil` at the top of the loop;
* `lockCS t`   — the mutex section: read `o.prom`; if nil create the promise, store it and start
                 the goroutine with the caller's context (`go` inside the section);
* `sel t br`   — the `select` of `prom.Await(ctx)` followed by `if err == context.Canceled { continue }`;
and of the goroutine:
* `cbin f t` / `cbout f out` — entry / return of the wrapped function (observable; the harness
                 decides when it returns and with what);
* `fnClear f`  — on error: the mutex section `if o.prom == prom { o.prom = nil }`;
* `fnCheck f`  — `ctx.Err() != nil` of the initiator's context;
* `fnPublish f`— `prom.SetResult(…)` (the promise has this single setter, so swap + publication
                 are one event).

Values: a successful instance `f` returns the value `f+1`; a failing one the error `custom (f+1)`
or the sentinel `context.Canceled` itself (harness-scripted).
-/
namespace UtilModel.Once
open UtilModel

inductive Err where
  | nil | canceled | custom (n : Nat)
deriving DecidableEq, Repr, Inhabited, Hashable

/-- outcome of the wrapped function -/
inductive Out where
  | ok (v : Nat)
  | err (e : Err)
deriving DecidableEq, Repr, Inhabited, Hashable

/-- harness discipline: instance `f` returns the value `f+1`, the error `custom (f+1)`, or the
sentinel `context.Canceled` -/
def Out.okFor (f : Nat) : Out → Bool
  | .ok v => v == f + 1
  | .err e => e == .custom (f + 1) || e == .canceled

inductive Branch where
  | ctx | res
deriving DecidableEq, Repr, Inhabited, Hashable

/-- program counter of a caller -/
inductive CS where
  | top                       -- top of the loop: `ctx.Err()` test pending
  | atLock                    -- passed the test; mutex section pending
  | awaiting (f : Nat)        -- in `prom.Await(ctx)` on the promise of instance `f`
  | retd (v : Nat) (e : Err)  -- about to return
  | done (v : Nat) (e : Err)
deriving DecidableEq, Repr, Inhabited, Hashable

structure Caller where
  pc : CS := .top
  cx : Bool := false
deriving DecidableEq, Repr, Inhabited, Hashable

/-- program counter of a function goroutine -/
inductive FS where
  | spawned                   -- goroutine started; function not yet entered
  | running                   -- inside the wrapped function
  | returned (o : Out)        -- function returned; next: publish (ok) or clear section (error)
  | cleared (e : Err)         -- error path: slot cleared; `ctx.Err()` test pending
  | decided (e : Err)         -- error path: error to publish chosen
  | finished
deriving DecidableEq, Repr, Inhabited, Hashable

structure Fn where
  init : Nat                            -- the caller whose context the function got
  st : FS := .spawned
  res : Option (Nat × Err) := none      -- the promise: published result
deriving DecidableEq, Repr, Inhabited, Hashable

structure St where
  slot : Option Nat := none
  fns : List Fn := []
  cs : List Caller := []
deriving DecidableEq, Repr, Hashable

inductive Obs where
  | inv (t : Nat)                       -- `inv t resolve`
  | ret (t v : Nat) (e : Err)           -- `ret t resolve v e`
  | panic (t : Nat)                     -- `ret t resolve panic`  (never produced by the model)
  | envCancel (t : Nat)                 -- `env cancel t`
  | cbin (f t : Nat)                    -- `cbin f t`   (function call number f entered, with caller t's context)
  | cbout (f : Nat) (o : Out)           -- `cbout f ok v` / `cbout f err e`
  | quiesce (pending : List Nat)        -- `quiesce t1 t2 …`  (pending callers)
deriving DecidableEq, Repr, Hashable

inductive Ev where
  | inv (t : Nat)
  | chkCtx (t : Nat)
  | lockCS (t : Nat)
  | sel (t : Nat) (br : Branch)
  | ret (t v : Nat) (e : Err)
  | envCancel (t : Nat)
  | cbin (f t : Nat)
  | cbout (f : Nat) (o : Out)
  | fnClear (f : Nat)
  | fnCheck (f : Nat)
  | fnPublish (f : Nat)
  | quiesce (pending : List Nat)
deriving DecidableEq, Repr, Hashable

def Ev.obs : Ev → Option Obs
  | .inv t => some (.inv t)
  | .ret t v e => some (.ret t v e)
  | .envCancel t => some (.envCancel t)
  | .cbin f t => some (.cbin f t)
  | .cbout f o => some (.cbout f o)
  | .quiesce B => some (.quiesce B)
  | _ => none

def Obs.evs : Obs → List Ev
  | .inv t => [.inv t]
  | .ret t v e => [.ret t v e]
  | .panic _ => []
  | .envCancel t => [.envCancel t]
  | .cbin f t => [.cbin f t]
  | .cbout f o => [.cbout f o]
  | .quiesce B => [.quiesce B]

def internalCands (s : St) : List Ev :=
  ((List.range s.cs.length).flatMap fun t => [.chkCtx t, .lockCS t, .sel t .ctx, .sel t .res]) ++
  ((List.range s.fns.length).flatMap fun f => [.fnClear f, .fnCheck f, .fnPublish f])

def setPc (s : St) (t : Nat) (c : Caller) (pc : CS) : St :=
  { s with cs := s.cs.set t { c with pc := pc } }

def setFs (s : St) (f : Nat) (fn : Fn) (st : FS) : St :=
  { s with fns := s.fns.set f { fn with st := st } }

def resOf (s : St) (f : Nat) : Option (Nat × Err) :=
  match s.fns[f]? with
  | some fn => fn.res
  | none => none

def cxOf (s : St) (t : Nat) : Bool :=
  match s.cs[t]? with
  | some c => c.cx
  | none => false

def Caller.quiet (s : St) (c : Caller) : Bool :=
  match c.pc with
  | .awaiting f => !c.cx && (resOf s f).isNone
  | .done .. => true
  | _ => false

def Fn.quiet (fn : Fn) : Bool :=
  match fn.st with
  | .running | .finished => true
  | _ => false

def quiescent (s : St) : Bool := s.cs.all (Caller.quiet s) && s.fns.all Fn.quiet

def pendingIds (s : St) : List Nat :=
  (List.range s.cs.length).filter fun t => match s.cs[t]? with
    | some c => match c.pc with
      | .done .. => false
      | _ => true
    | none => false

def step (s : St) : Ev → Option St
  | .inv t => if t = s.cs.length then some { s with cs := s.cs ++ [{}] } else none
  | .chkCtx t =>
    match s.cs[t]? with
    | some c => match c.pc with
      | .top => if c.cx then some (setPc s t c (.retd 0 .canceled)) else some (setPc s t c .atLock)
      | _ => none
    | none => none
  | .lockCS t =>
    match s.cs[t]? with
    | some c => match c.pc with
      | .atLock =>
        match s.slot with
        | some f => some (setPc s t c (.awaiting f))
        | none =>
          some { setPc s t c (.awaiting s.fns.length) with
                   slot := some s.fns.length, fns := s.fns ++ [{ init := t }] }
      | _ => none
    | none => none
  | .sel t br =>
    match s.cs[t]? with
    | some c => match c.pc with
      | .awaiting f =>
        match br with
        | .ctx => if c.cx then some (setPc s t c .top) else none
        | .res => match resOf s f with
          | some (_, .canceled) => some (setPc s t c .top)
          | some (v, e) => some (setPc s t c (.retd v e))
          | none => none
      | _ => none
    | none => none
  | .ret t v e =>
    match s.cs[t]? with
    | some c => match c.pc with
      | .retd v' e' => if v = v' ∧ e = e' then some (setPc s t c (.done v e)) else none
      | _ => none
    | none => none
  | .envCancel t =>
    match s.cs[t]? with
    | some c => some { s with cs := s.cs.set t { c with cx := true } }
    | none => none
  | .cbin f t =>
    match s.fns[f]? with
    | some fn => match fn.st with
      | .spawned => if fn.init = t then some (setFs s f fn .running) else none
      | _ => none
    | none => none
  | .cbout f o =>
    match s.fns[f]? with
    | some fn => match fn.st with
      | .running =>
        -- harness discipline: a success returns f+1, a failure custom (f+1) or context.Canceled
        if o.okFor f then some (setFs s f fn (.returned o)) else none
      | _ => none
    | none => none
  | .fnClear f =>
    match s.fns[f]? with
    | some fn => match fn.st with
      | .returned (.err e) =>
        some { setFs s f fn (.cleared e) with slot := if s.slot = some f then none else s.slot }
      | _ => none
    | none => none
  | .fnCheck f =>
    match s.fns[f]? with
    | some fn => match fn.st with
      | .cleared e => some (setFs s f fn (.decided (if cxOf s fn.init then .canceled else e)))
      | _ => none
    | none => none
  | .fnPublish f =>
    match s.fns[f]? with
    | some fn => match fn.st with
      | .returned (.ok v) => some { s with fns := s.fns.set f { fn with st := .finished, res := some (v, .nil) } }
      | .decided e => some { s with fns := s.fns.set f { fn with st := .finished, res := some (0, e) } }
      | _ => none
    | none => none
  | .quiesce B => if quiescent s ∧ B = pendingIds s then some s else none

def model : OLTS St Ev Obs where
  init := {}
  step := step
  obs := Ev.obs
  cands := internalCands
  evsOf := fun _ o => o.evs

/-! ## parsing -/

def Err.parse : List String → Option Err
  | ["nil"] => some .nil
  | ["canceled"] => some .canceled
  | ["custom", n] => do pure (.custom (← n.toNat?))
  | _ => none

def parseNats : List String → Option (List Nat)
  | [] => some []
  | x :: xs => do let n ← x.toNat?; let r ← parseNats xs; pure (n :: r)

def Obs.parse : List String → Option Obs
  | ["inv", t, "resolve"] => do pure (.inv (← t.toNat?))
  | ["ret", t, "resolve", "panic"] => do pure (.panic (← t.toNat?))
  | "ret" :: t :: "resolve" :: v :: e => do pure (.ret (← t.toNat?) (← v.toNat?) (← Err.parse e))
  | ["env", "cancel", t] => do pure (.envCancel (← t.toNat?))
  | ["cbin", f, t] => do pure (.cbin (← f.toNat?) (← t.toNat?))
  | ["cbout", f, "ok", v] => do pure (.cbout (← f.toNat?) (.ok (← v.toNat?)))
  | "cbout" :: f :: "err" :: e => do pure (.cbout (← f.toNat?) (.err (← Err.parse e)))
  | "quiesce" :: ts => do pure (.quiesce (← parseNats ts))
  | _ => none

end UtilModel.Once
