import UtilModel.Once.Proofs
/-!
# promise.Once — property theorems (C16, first sentence), state level

Every theorem holds in every state reached by **any** event list: any number of callers, any
interleaving of their context tests, mutex sections and select decisions with the function
goroutines' steps, any mix of outcomes and cancellations. (The observable form is `C16_obs_once`
in `Sim.lean`.)
-/
namespace UtilModel.Once
open UtilModel

/-- **once_not_concurrent.** The wrapped function is never running in two instances at once:
two instances that are inside the function (or, more generally, that have not yet failed past their
clearing section) are the same instance. -/
theorem once_not_concurrent (es : List Ev) (s : St) (h : model.run model.init es = some s)
    (f g : Nat) (fn gn : Fn) (hf : s.fns[f]? = some fn) (hg : s.fns[g]? = some gn)
    (rf : fn.isRunning = true) (rg : gn.isRunning = true) : f = g := by
  have hi := reachable_inv es s h
  have h1 := (hi.holds f fn hf).mp (holds_of_active fn (Or.inr (Or.inl (by simpa [Fn.isRunning] using rf))))
  have h2 := (hi.holds g gn hg).mp (holds_of_active gn (Or.inr (Or.inl (by simpa [Fn.isRunning] using rg))))
  rw [h1] at h2; cases h2; rfl

theorem succeeded_holds (fn : Fn) (h : fn.succeeded = true) : fn.holds = true := by
  unfold Fn.succeeded at h; unfold Fn.holds
  split at h <;> simp_all

/-- **once_success_final (1).** Once an instance has returned without error it owns the slot and
is the last instance … -/
theorem success_is_last (es : List Ev) (s : St) (h : model.run model.init es = some s)
    (f : Nat) (fn : Fn) (hf : s.fns[f]? = some fn) (hs : fn.succeeded = true) :
    s.slot = some f ∧ f + 1 = s.fns.length := by
  have hi := reachable_inv es s h
  have h1 := (hi.holds f fn hf).mp (succeeded_holds fn hs)
  exact ⟨h1, hi.slotLast f h1⟩

/-- success is stable under every step -/
theorem succeeded_step (s s' : St) (e : Ev) (hi : Inv s) (hst : step s e = some s')
    (f : Nat) (fn : Fn) (hf : s.fns[f]? = some fn) (hs : fn.succeeded = true) :
    ∃ fn', s'.fns[f]? = some fn' ∧ fn'.succeeded = true := by
  have hlt := lt_of_getElem? hf
  have hslot := (hi.holds f fn hf).mp (succeeded_holds fn hs)
  have other : ∀ (g : Nat) (gn gn' : Fn), s.fns[g]? = some gn → (g = f → gn'.succeeded = true) →
      ∃ fn', (s.fns.set g gn')[f]? = some fn' ∧ fn'.succeeded = true := by
    intro g gn gn' hg hh
    by_cases hgf : g = f
    · subst hgf; exact ⟨gn', by simp [hlt], hh rfl⟩
    · exact ⟨fn, by rw [getElem?_set_ne' _ _ _ _ hgf]; exact hf, hs⟩
  cases e with
  | inv t => simp only [step] at hst; split at hst <;> simp at hst; subst hst; exact ⟨fn, hf, hs⟩
  | chkCtx t =>
    simp only [step] at hst
    split at hst <;> try simp at hst
    split at hst <;> try simp at hst
    split at hst <;> simp at hst <;> subst hst <;> exact ⟨fn, hf, hs⟩
  | lockCS t =>
    simp only [step] at hst
    split at hst <;> try simp at hst
    split at hst <;> try simp at hst
    split at hst <;> simp at hst <;> subst hst
    · exact ⟨fn, hf, hs⟩
    · exact ⟨fn, getElem?_snoc_left _ _ _ _ hf, hs⟩
  | sel t br =>
    simp only [step] at hst
    split at hst <;> try simp at hst
    split at hst <;> try simp at hst
    cases br <;> simp only at hst <;> split at hst <;> simp at hst <;> subst hst <;> exact ⟨fn, hf, hs⟩
  | ret t v e =>
    simp only [step] at hst
    split at hst <;> try simp at hst
    split at hst <;> try simp at hst
    obtain ⟨_, rfl⟩ := hst; exact ⟨fn, hf, hs⟩
  | envCancel t =>
    simp only [step] at hst
    split at hst <;> simp at hst
    subst hst; exact ⟨fn, hf, hs⟩
  | cbin g t =>
    simp only [step] at hst
    split at hst <;> try simp at hst
    rename_i gn hg
    split at hst <;> try simp at hst
    rename_i hgs
    obtain ⟨_, rfl⟩ := hst
    refine other g gn _ hg ?_
    intro e; subst e; rw [hf] at hg; cases hg
    simp [Fn.succeeded, hgs] at hs
  | cbout g o =>
    simp only [step] at hst
    split at hst <;> try simp at hst
    rename_i gn hg
    split at hst <;> try simp at hst
    rename_i hgs
    obtain ⟨_, rfl⟩ := hst
    refine other g gn _ hg ?_
    intro e; subst e; rw [hf] at hg; cases hg
    simp [Fn.succeeded, hgs] at hs
  | fnClear g =>
    simp only [step] at hst
    split at hst <;> try simp at hst
    rename_i gn hg
    split at hst <;> try simp at hst
    rename_i e hgs
    subst hst
    refine other g gn _ hg ?_
    intro e; subst e; rw [hf] at hg; cases hg
    simp [Fn.succeeded, hgs] at hs
  | fnCheck g =>
    simp only [step] at hst
    split at hst <;> try simp at hst
    rename_i gn hg
    split at hst <;> try simp at hst
    rename_i e hgs
    subst hst
    refine other g gn _ hg ?_
    intro e; subst e; rw [hf] at hg; cases hg
    simp [Fn.succeeded, hgs] at hs
  | fnPublish g =>
    simp only [step] at hst
    split at hst <;> try simp at hst
    rename_i gn hg
    split at hst <;> simp at hst <;> subst hst
    · refine other g gn _ hg ?_
      intro e; simp [Fn.succeeded]
    · rename_i e hgs
      refine other g gn _ hg ?_
      intro e; subst e; rw [hf] at hg; cases hg
      simp [Fn.succeeded, hgs] at hs
  | quiesce B => simp only [step] at hst; split at hst <;> simp at hst; subst hst; exact ⟨fn, hf, hs⟩

/-- **once_success_final (2): never called again.** After an instance has returned without error, no
event list whatsoever starts another instance (so the wrapped function is never entered again). -/
theorem success_no_new_call (es : List Ev) (s : St) (h : model.run model.init es = some s)
    (f : Nat) (fn : Fn) (hf : s.fns[f]? = some fn) (hs : fn.succeeded = true)
    (fs : List Ev) (s' : St) (h' : model.run s fs = some s') :
    s'.fns.length = s.fns.length ∧ ∃ fn', s'.fns[f]? = some fn' ∧ fn'.succeeded = true := by
  induction fs generalizing s es fn with
  | nil => simp [OLTS.run] at h'; subst h'; exact ⟨rfl, fn, hf, hs⟩
  | cons e fs ih =>
    simp only [OLTS.run] at h'
    cases hst : model.step s e with
    | none => simp [hst] at h'
    | some s1 =>
      simp [hst] at h'
      have hi := reachable_inv es s h
      obtain ⟨fn1, hf1, hs1⟩ := succeeded_step s s1 e hi hst f fn hf hs
      have hr1 : model.run model.init (es ++ [e]) = some s1 := by
        simp [OLTS.run_append, h, OLTS.run, hst]
      obtain ⟨hl, r⟩ := ih (es ++ [e]) s1 hr1 fn1 hf1 hs1 h'
      refine ⟨?_, r⟩
      rw [hl]
      have l0 := (success_is_last es s h f fn hf hs).2
      have l1 := (success_is_last _ s1 hr1 f fn1 hf1 hs1).2
      omega

/-- **once_success_final (3): later callers join the successful call.** A caller that takes the
mutex section after the success waits on the successful instance's promise … -/
theorem success_join (es : List Ev) (s : St) (h : model.run model.init es = some s)
    (f : Nat) (fn : Fn) (hf : s.fns[f]? = some fn) (hs : fn.succeeded = true)
    (t : Nat) (s' : St) (hst : step s (.lockCS t) = some s') :
    ∃ c, s'.cs[t]? = some c ∧ c.pc = .awaiting f := by
  have hslot := (success_is_last es s h f fn hf hs).1
  cases hc : s.cs[t]? with
  | none => simp [step, hc] at hst
  | some c =>
    cases hpc : c.pc <;> simp [step, hc, hpc, hslot] at hst
    subst hst
    exact ⟨{ c with pc := .awaiting f }, by simp [setPc, lt_of_getElem? hc], rfl⟩

/-- **… and return its value.** A live caller waiting on a promise published with a value has exactly
one enabled step: the select takes the result and the caller will return that value with a nil error. -/
theorem success_value (s : St) (t f v : Nat) (c : Caller) (hc : s.cs[t]? = some c)
    (hpc : c.pc = .awaiting f) (hlive : c.cx = false) (hres : resOf s f = some (v, .nil)) :
    step s (.sel t .ctx) = none ∧
    ∃ s', step s (.sel t .res) = some s' ∧ ∃ c', s'.cs[t]? = some c' ∧ c'.pc = .retd v .nil := by
  constructor
  · simp [step, hc, hpc, hlive]
  · refine ⟨setPc s t c (.retd v .nil), by simp [step, hc, hpc, hres], { c with pc := .retd v .nil }, ?_, rfl⟩
    simp [setPc, lt_of_getElem? hc]

/-- **once_error_retried (1).** When the error of an instance is published (so that some caller can
see it), the slot no longer refers to that instance: it was cleared *before* the promise was completed. -/
theorem error_cleared_before_published (es : List Ev) (s : St) (h : model.run model.init es = some s)
    (f : Nat) (fn : Fn) (hf : s.fns[f]? = some fn) (v : Nat) (e : Err) (hr : fn.res = some (v, e))
    (he : e ≠ .nil) : s.slot ≠ some f := by
  have hi := reachable_inv es s h
  intro hslot
  have hh := (hi.holds f fn hf).mpr hslot
  have hfin := (hi.wf f fn hf).1.mp (by simp [hr])
  unfold Fn.holds at hh
  rw [hfin, hr] at hh
  cases e <;> simp_all

/-- **once_error_retried (2).** Hence a caller that takes the mutex section after the error became
visible never joins the failed call: it either starts a new call of the function (empty slot) or
joins a *newer* one. -/
theorem error_retried (es : List Ev) (s : St) (h : model.run model.init es = some s)
    (f : Nat) (fn : Fn) (hf : s.fns[f]? = some fn) (v : Nat) (e : Err) (hr : fn.res = some (v, e))
    (he : e ≠ .nil) (t : Nat) (s' : St) (hst : step s (.lockCS t) = some s') :
    ∃ c g, s'.cs[t]? = some c ∧ c.pc = .awaiting g ∧ g ≠ f ∧
      (s.slot = none → g = s.fns.length ∧ s'.fns = s.fns ++ [{ init := t }]) := by
  have hne := error_cleared_before_published es s h f fn hf v e hr he
  have hlt := lt_of_getElem? hf
  simp only [step] at hst
  split at hst <;> try simp at hst
  rename_i c hc
  split at hst <;> try simp at hst
  split at hst <;> simp at hst <;> subst hst
  · rename_i g hslot
    refine ⟨{ c with pc := .awaiting g }, g, by simp [setPc, lt_of_getElem? hc], rfl, ?_, by intro h0; rw [h0] at hslot; cases hslot⟩
    intro e; subst e; exact hne hslot
  · refine ⟨{ c with pc := .awaiting s.fns.length }, s.fns.length, by simp [setPc, lt_of_getElem? hc], rfl, by omega, fun _ => ⟨rfl, rfl⟩⟩

/-- **once_cancel_isolated (1): a cancelled caller gets `context.Canceled`.** At the top of the loop
its context test sends it to the return of `(zero, Canceled)`; while it waits, the `ctx.Done()` branch
of its select is enabled and leads back to the top of the loop. -/
theorem cancelled_returns (s : St) (t : Nat) (c : Caller) (hc : s.cs[t]? = some c) (hcx : c.cx = true) :
    (c.pc = .top → ∃ s', step s (.chkCtx t) = some s' ∧
        ∃ c', s'.cs[t]? = some c' ∧ c'.pc = .retd 0 .canceled) ∧
    (∀ f, c.pc = .awaiting f → ∃ s', step s (.sel t .ctx) = some s' ∧
        ∃ c', s'.cs[t]? = some c' ∧ c'.pc = .top ∧ c'.cx = true) := by
  have hlt := lt_of_getElem? hc
  constructor
  · intro hpc
    exact ⟨setPc s t c (.retd 0 .canceled), by simp [step, hc, hpc, hcx], { c with pc := .retd 0 .canceled }, by simp [setPc, hlt], rfl⟩
  · intro f hpc
    exact ⟨setPc s t c .top, by simp [step, hc, hpc, hcx], { c with pc := .top }, by simp [setPc, hlt], rfl, hcx⟩

/-- `context.Canceled` is returned only to a caller whose own context is cancelled. -/
theorem canceled_only_if_cancelled (es : List Ev) (s : St) (h : model.run model.init es = some s)
    (t : Nat) (c : Caller) (hc : s.cs[t]? = some c) (v : Nat)
    (hpc : c.pc = .retd v .canceled ∨ c.pc = .done v .canceled) : c.cx = true := by
  rcases (reachable_inv es s h).retdOk t c v .canceled hc hpc with ⟨_, _, h⟩ | ⟨h, _⟩
  · exact h
  · exact absurd rfl h

/-- **once_cancel_isolated (2): the others are not stranded.** A caller waiting on an unpublished
promise waits on an instance that is still in progress (it has not finished), and that instance's
progress never depends on any caller: after the function returned, each of its remaining steps
(clearing section, context test, publication) is enabled whatever the callers do. -/
theorem waiting_instance_in_progress (es : List Ev) (s : St) (h : model.run model.init es = some s)
    (t : Nat) (c : Caller) (hc : s.cs[t]? = some c) (f : Nat) (hpc : c.pc = .awaiting f)
    (hres : resOf s f = none) :
    ∃ fn, s.fns[f]? = some fn ∧ fn.st ≠ .finished ∧
      (∀ o, fn.st = .returned o → (step s (.fnClear f)).isSome ∨ (step s (.fnPublish f)).isSome) ∧
      (∀ e, fn.st = .cleared e → (step s (.fnCheck f)).isSome) ∧
      (∀ e, fn.st = .decided e → (step s (.fnPublish f)).isSome) := by
  have hi := reachable_inv es s h
  have hlt := hi.awaitLt t c f hc hpc
  obtain ⟨fn, hf⟩ : ∃ fn, s.fns[f]? = some fn := ⟨s.fns[f], by simp [hlt]⟩
  refine ⟨fn, hf, ?_, ?_, ?_, ?_⟩
  · intro hfin
    have := (hi.wf f fn hf).1.mpr hfin
    simp [resOf, hf] at hres
    simp [hres] at this
  · intro o ho
    cases o with
    | ok v => right; simp [step, hf, ho]
    | err e => left; simp [step, hf, ho]
  · intro e he; simp [step, hf, he]
  · intro e he; simp [step, hf, he]

/-- a result whose error is `context.Canceled` (the initiator was cancelled, or the function
returned that sentinel) is never handed to a live caller: its select sends it back to the top of the
loop, where it retries. -/
theorem canceled_result_retried (s : St) (t f v : Nat) (c : Caller) (hc : s.cs[t]? = some c)
    (hpc : c.pc = .awaiting f) (hres : resOf s f = some (v, .canceled)) :
    ∃ s', step s (.sel t .res) = some s' ∧ ∃ c', s'.cs[t]? = some c' ∧ c'.pc = .top := by
  exact ⟨setPc s t c .top, by simp [step, hc, hpc, hres], { c with pc := .top }, by simp [setPc, lt_of_getElem? hc], rfl⟩

/-- **quiescence.** When no internal step and no response is enabled, every pending caller is live,
waits on an unpublished promise, and the instance it waits on is inside the wrapped function. -/
theorem quiescent_pending (es : List Ev) (s : St) (h : model.run model.init es = some s)
    (hq : quiescent s = true) (t : Nat) (c : Caller) (hc : s.cs[t]? = some c)
    (hp : ∀ v e, c.pc ≠ .done v e) :
    c.cx = false ∧ ∃ f fn, c.pc = .awaiting f ∧ s.fns[f]? = some fn ∧ fn.st = .running := by
  have hi := reachable_inv es s h
  simp only [quiescent, Bool.and_eq_true, List.all_eq_true] at hq
  have hcq := hq.1 c (List.mem_of_getElem? hc)
  unfold Caller.quiet at hcq
  split at hcq <;> try simp at hcq
  · rename_i f hpc
    have hlt := hi.awaitLt t c f hc hpc
    obtain ⟨fn, hf⟩ : ∃ fn, s.fns[f]? = some fn := ⟨s.fns[f], by simp [hlt]⟩
    refine ⟨hcq.1, f, fn, hpc, hf, ?_⟩
    have hfq := hq.2 fn (List.mem_of_getElem? hf)
    unfold Fn.quiet at hfq
    split at hfq <;> try simp at hfq
    · assumption
    · rename_i hfin
      have := (hi.wf f fn hf).1.mpr hfin
      simp [resOf, hf] at hcq
      simp [hcq.2] at this
  · rename_i v e hpc; exact absurd hpc (hp v e)

/-! ### the hypotheses are satisfiable, the model does something non-trivial -/

/-- a run in which the function fails (initiator cancelled) and is called again for the waiter -/
example : (model.run model.init
    [.inv 0, .chkCtx 0, .lockCS 0, .cbin 0 0, .inv 1, .chkCtx 1, .lockCS 1, .envCancel 0,
     .sel 0 .ctx, .chkCtx 0, .ret 0 0 .canceled, .cbout 0 (.err (.custom 1)), .fnClear 0, .fnCheck 0,
     .fnPublish 0, .sel 1 .res, .chkCtx 1, .lockCS 1, .cbin 1 1, .cbout 1 (.ok 2), .fnPublish 1,
     .sel 1 .res, .ret 1 2 .nil, .quiesce []]).map (·.fns.length) = some 2 := by decide

end UtilModel.Once
