import UtilModel.Core.Driver
import UtilModel.Core.DriverH
import UtilModel.Once.Model
import UtilModel.Once.Monitors
import UtilModel.Memo.Model
import UtilModel.Memo.Monitors
/-! Development driver: `lake env lean --run UtilModel/Once/TestDriver.lean once|memo < hist` -/
open UtilModel

def main (args : List String) : IO UInt32 :=
  driverMain [
    mkEntryH "once" Once.model Once.Obs.parse Once.onceMons,
    mkEntryH "memo" Memo.model Memo.Obs.parse Memo.memoMons
  ] args
