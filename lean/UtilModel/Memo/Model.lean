import UtilModel.Core.LTS
import UtilModel.Core.Count
/-!
# memo.MemoizeFunc — model (memo/memo.go)

One thread = one call of the memoized closure. Atomic actions: `started.Swap(true)` (`swap`), entry /
return of the wrapped function (`cbin` / `cbout`, observable, only on the thread that won the swap;
the `yield-memo` hook point lies between the swap and the entry), the publication (`close`:
`result, doneErr = …` become visible with the deferred `close(done)`), and the losers' receive from
the closed channel followed by the read of the two variables (`read`).
Error values: `0` = nil, anything else = an error (the harness uses `1`).
-/
namespace UtilModel.Memo
open UtilModel

inductive PC where
  | start                      -- invoked; swap pending
  | won                        -- swap returned false: this call runs the function
  | inFn                       -- inside the wrapped function
  | outd (v e : Nat)           -- function returned (v, e); close pending
  | waiting                    -- swap returned true: blocked on `<-done`
  | retd (v e : Nat)           -- about to return
  | done (v e : Nat)
deriving DecidableEq, Repr, Inhabited, Hashable

structure St where
  started : Bool := false
  cell : Option (Nat × Nat) := none     -- result variables, visible once `done` is closed
  th : List PC := []
deriving DecidableEq, Repr, Hashable

inductive Obs where
  | inv (t : Nat)                 -- `inv t memo`
  | ret (t v e : Nat)             -- `ret t memo v e`
  | panic (t : Nat)               -- `ret t memo panic`  (never produced by the model)
  | cbin                          -- `cbin`        (the wrapped function was entered; it cannot know by which call)
  | cbout (v e : Nat)             -- `cbout v e`   (… is about to return (v, e))
  | quiesce (pending : List Nat)
deriving DecidableEq, Repr, Hashable

inductive Ev where
  | inv (t : Nat)
  | swap (t : Nat)
  | cbin (t : Nat)
  | cbout (t v e : Nat)
  | close (t : Nat)
  | read (t : Nat)
  | ret (t v e : Nat)
  | quiesce (pending : List Nat)
deriving DecidableEq, Repr, Hashable

def Ev.obs : Ev → Option Obs
  | .inv t => some (.inv t)
  | .ret t v e => some (.ret t v e)
  | .cbin _ => some .cbin
  | .cbout _ v e => some (.cbout v e)
  | .quiesce B => some (.quiesce B)
  | _ => none

/-- events that could have produced an observable: the function entry / return may belong to any call -/
def Obs.evs (n : Nat) : Obs → List Ev
  | .inv t => [.inv t]
  | .ret t v e => [.ret t v e]
  | .panic _ => []
  | .cbin => (List.range n).map .cbin
  | .cbout v e => (List.range n).map (.cbout · v e)
  | .quiesce B => [.quiesce B]

def PC.quiet (s : St) : PC → Bool
  | .inFn | .done .. => true
  | .waiting => s.cell.isNone
  | _ => false

def PC.pending : PC → Bool
  | .done .. => false
  | _ => true

def quiescent (s : St) : Bool := s.th.all (PC.quiet s)

def pendingIds (s : St) : List Nat :=
  (List.range s.th.length).filter fun t => match s.th[t]? with
    | some pc => pc.pending
    | none => false

def step (s : St) : Ev → Option St
  | .inv t => if t = s.th.length then some { s with th := s.th ++ [.start] } else none
  | .swap t =>
    match s.th[t]? with
    | some .start =>
      if s.started then some { s with th := s.th.set t .waiting }
      else some { s with started := true, th := s.th.set t .won }
    | _ => none
  | .cbin t =>
    match s.th[t]? with
    | some .won => some { s with th := s.th.set t .inFn }
    | _ => none
  | .cbout t v e =>
    match s.th[t]? with
    | some .inFn => some { s with th := s.th.set t (.outd v e) }
    | _ => none
  | .close t =>
    match s.th[t]? with
    | some (.outd v e) => some { s with cell := some (v, e), th := s.th.set t (.retd v e) }
    | _ => none
  | .read t =>
    match s.th[t]?, s.cell with
    | some .waiting, some (v, e) => some { s with th := s.th.set t (.retd v e) }
    | _, _ => none
  | .ret t v e =>
    match s.th[t]? with
    | some (.retd v' e') => if v = v' ∧ e = e' then some { s with th := s.th.set t (.done v e) } else none
    | _ => none
  | .quiesce B => if quiescent s ∧ B = pendingIds s then some s else none

def model : OLTS St Ev Obs where
  init := {}
  step := step
  obs := Ev.obs
  cands := fun s => (List.range s.th.length).flatMap fun t => [.swap t, .close t, .read t]
  evsOf := fun s o => o.evs s.th.length

def parseNats : List String → Option (List Nat)
  | [] => some []
  | x :: xs => do let n ← x.toNat?; let r ← parseNats xs; pure (n :: r)

def Obs.parse : List String → Option Obs
  | ["inv", t, "memo"] => do pure (.inv (← t.toNat?))
  | ["ret", t, "memo", "panic"] => do pure (.panic (← t.toNat?))
  | ["ret", t, "memo", v, e] => do pure (.ret (← t.toNat?) (← v.toNat?) (← e.toNat?))
  | ["cbin"] => some .cbin
  | ["cbout", v, e] => do pure (.cbout (← v.toNat?) (← e.toNat?))
  | "quiesce" :: ts => do pure (.quiesce (← parseNats ts))
  | _ => none

end UtilModel.Memo
