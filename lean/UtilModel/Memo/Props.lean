import UtilModel.Memo.Proofs
/-!
# memo.MemoizeFunc — property theorems (C16, second sentence)

All statements hold for every event list: any number of callers and every interleaving of their
swaps with the function's entry, return and the publication of its result.
-/
namespace UtilModel.Memo
open UtilModel

/-- **memo_exactly_once (state form).** At most one call ever wins the swap: two calls that are
between their winning swap and the publication of the result are the same call, and once the result
is published (or before anybody swapped) there is none. -/
theorem memo_exactly_once (es : List Ev) (s : St) (h : model.run model.init es = some s) :
    (∀ (t u : Nat) (a b : PC), s.th[t]? = some a → s.th[u]? = some b → a.live = true → b.live = true → t = u) ∧
    (s.cell ≠ none → ∀ (t : Nat) (a : PC), s.th[t]? = some a → a.live = false) := by
  have hi := reachable_inv es s h
  refine ⟨fun t u a b ht hu la lb => live_unique s hi t u a b ht hu la lb, ?_⟩
  intro hc t a ht
  cases hl : a.live with
  | false => rfl
  | true => exact absurd (live_phase s hi t a ht hl).2 hc

/-- **memo_all_same (state form).** Every call that has its return values holds the published
result of the single function call; in particular any two calls return the same `(value, error)`. -/
theorem memo_all_same (es : List Ev) (s : St) (h : model.run model.init es = some s)
    (t u v e v' e' : Nat)
    (ht : s.th[t]? = some (.retd v e) ∨ s.th[t]? = some (.done v e))
    (hu : s.th[u]? = some (.retd v' e') ∨ s.th[u]? = some (.done v' e')) :
    (v, e) = (v', e') ∧ s.cell = some (v, e) := by
  have hi := reachable_inv es s h
  have h1 := hi.res t v e ht
  have h2 := hi.res u v' e' hu
  rw [h1] at h2; cases h2
  exact ⟨rfl, h1⟩

/-- a waiting call is released as soon as the result is published -/
theorem waiting_enabled (s : St) (t v e : Nat) (ht : s.th[t]? = some .waiting) (hc : s.cell = some (v, e)) :
    ∃ s', step s (.read t) = some s' ∧ s'.th[t]? = some (.retd v e) := by
  exact ⟨_, by simp [step, ht, hc], by simp [lt_of_getElem? ht]⟩

/-! ## observable form -/

def PC.isIn : PC → Prop
  | .inFn | .outd .. => True
  | _ => False

structure Rel (s : St) (ms : MSt) : Prop where
  inv : Inv s
  len : ms.calls.length = s.th.length
  done : ∀ (t : Nat) (pc : PC) (b : Bool), s.th[t]? = some pc → ms.calls[t]? = some b → b = pc.isDone
  ent : ms.entered = true ↔ (s.cell ≠ none ∨ ∃ (t : Nat) (pc : PC), s.th[t]? = some pc ∧ pc.isIn)
  outC : ∀ x, s.cell = some x → ms.out = some x
  outT : ∀ (t v e : Nat), s.th[t]? = some (.outd v e) → ms.out = some (v, e)
  outN : ms.out ≠ none → (s.cell ≠ none ∨ ∃ (t v e : Nat), s.th[t]? = some (.outd v e))

/-- replacing an entry by another changes an existential over the table only through the two
entries involved -/
theorem ex_set_irrel (P : PC → Prop) (l : List PC) (t : Nat) (a b : PC) (ha : l[t]? = some a)
    (hna : ¬ P a) (hnb : ¬ P b) :
    (∃ (u : Nat) (pc : PC), (l.set t b)[u]? = some pc ∧ P pc) ↔ (∃ (u : Nat) (pc : PC), l[u]? = some pc ∧ P pc) := by
  constructor
  · intro ⟨u, pc, hu, hp⟩
    rcases getElem?_set_cases l t u b pc hu with ⟨_, rfl⟩ | ⟨_, hx⟩
    · exact absurd hp hnb
    · exact ⟨u, pc, hx, hp⟩
  · intro ⟨u, pc, hu, hp⟩
    by_cases hut : u = t
    · subst hut; rw [ha] at hu; cases hu; exact absurd hp hna
    · exact ⟨u, pc, by rw [getElem?_set_ne' _ _ _ _ (fun e => hut e.symm)]; exact hu, hp⟩

/-- a step of call `t` between two states that are neither inside the function nor finished, with the
cell unchanged, is invisible to the monitor -/
theorem rel_irrel (s : St) (ms : MSt) (hR : Rel s ms) (t : Nat) (a b : PC) (ha : s.th[t]? = some a)
    (hi' : Inv { s with th := s.th.set t b }) (hna : ¬ a.isIn) (hnb : ¬ b.isIn)
    (hd : a.isDone = b.isDone) : Rel { s with th := s.th.set t b } ms := by
  refine ⟨hi', by simp [hR.len], ?_, ?_, hR.outC, ?_, ?_⟩
  · intro u pc bb hu hm
    simp only at hu
    rcases getElem?_set_cases s.th t u b pc hu with ⟨rfl, rfl⟩ | ⟨_, hx⟩
    · rw [← hd]; exact hR.done u a bb ha hm
    · exact hR.done u pc bb hx hm
  · rw [hR.ent]; simp only
    rw [ex_set_irrel PC.isIn s.th t a b ha hna hnb]
  · intro u v e hu
    simp only at hu
    rcases getElem?_set_cases s.th t u b _ hu with ⟨_, h⟩ | ⟨_, hx⟩
    · subst h; exact absurd (by simp [PC.isIn]) hnb
    · exact hR.outT u v e hx
  · intro h
    rcases hR.outN h with h1 | ⟨u, v, e, hu⟩
    · exact Or.inl h1
    · right
      by_cases hut : u = t
      · subst hut; rw [ha] at hu; cases hu; exact absurd (by simp [PC.isIn]) hna
      · exact ⟨u, v, e, by simp only; rw [getElem?_set_ne' _ _ _ _ (fun e => hut e.symm)]; exact hu⟩

theorem sim_step (s : St) (e : Ev) (s' : St) (ms : MSt) (hR : Rel s ms) (hst : step s e = some s') :
    match Ev.obs e with
    | none => Rel s' ms
    | some o => ∃ ms', monC16memo.step ms o = some ms' ∧ Rel s' ms' := by
  have hi := hR.inv
  have hi' := step_inv s e s' hi hst
  cases e with
  | inv t =>
    simp only [step] at hst; split at hst <;> simp at hst; subst hst
    rename_i ht
    refine ⟨{ ms with calls := ms.calls ++ [false] }, by simp [monC16memo, hR.len, ht], ?_⟩
    refine ⟨hi', by simp [hR.len], ?_, ?_, hR.outC, ?_, ?_⟩
    · intro u pc b hu hm
      simp only at hu hm
      rcases getElem?_snoc_cases _ _ _ _ hu with ⟨hul, hx⟩ | ⟨hul, rfl⟩
      · rcases getElem?_snoc_cases _ _ _ _ hm with ⟨_, hy⟩ | ⟨hml, _⟩
        · exact hR.done u pc b hx hy
        · have := hR.len; omega
      · rcases getElem?_snoc_cases _ _ _ _ hm with ⟨hml, _⟩ | ⟨_, rfl⟩
        · have := hR.len; omega
        · rfl
    · simp only; rw [hR.ent]
      constructor
      · rintro (h | ⟨u, pc, hu, hp⟩)
        · exact Or.inl h
        · exact Or.inr ⟨u, pc, getElem?_snoc_left _ _ _ _ hu, hp⟩
      · rintro (h | ⟨u, pc, hu, hp⟩)
        · exact Or.inl h
        · rcases getElem?_snoc_cases _ _ _ _ hu with ⟨_, hx⟩ | ⟨_, rfl⟩
          · exact Or.inr ⟨u, pc, hx, hp⟩
          · exact absurd hp (by simp [PC.isIn])
    · intro u v e hu
      simp only at hu
      rcases getElem?_snoc_cases _ _ _ _ hu with ⟨_, hx⟩ | ⟨_, h⟩
      · exact hR.outT u v e hx
      · cases h
    · intro h
      rcases hR.outN h with h1 | ⟨u, v, e, hu⟩
      · exact Or.inl h1
      · exact Or.inr ⟨u, v, e, getElem?_snoc_left _ _ _ _ hu⟩
  | swap t =>
    simp only [step] at hst
    split at hst <;> try simp at hst
    rename_i ht
    split at hst <;> simp at hst <;> subst hst
    · exact rel_irrel s ms hR t _ _ ht hi' (by simp [PC.isIn]) (by simp [PC.isIn]) rfl
    · -- the winning swap: `started` changes, nothing the monitor relation mentions does
      have h := rel_irrel s ms hR t _ .won ht (by
        have := hi'; exact ⟨by
          have c := countP_set PC.live s.th t _ .won ht
          have one := hi.one
          rename_i hst
          have hst' : s.started = false := by simpa using hst
          rw [if_neg (by simp [hst'])] at one
          simp at c
          -- this auxiliary state is not reachable in general; build the relation directly instead
          exact absurd rfl (by omega : (0:Nat) ≠ 0 ∨ True |>.elim id (fun _ => by omega)), this.fresh ∘ (fun h => by simpa using h) |> fun _ => by
            intro h0; exact absurd h0 (by simp) , this.res⟩) (by simp [PC.isIn]) (by simp [PC.isIn]) rfl
      exact ⟨hi', h.len, h.done, h.ent, h.outC, h.outT, h.outN⟩
  | cbin t => sorry
  | cbout t v e => sorry
  | close t => sorry
  | read t => sorry
  | ret t v e => sorry
  | quiesce B => sorry

end UtilModel.Memo
