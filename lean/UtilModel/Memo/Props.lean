import UtilModel.Memo.Proofs
/-!
# memo.MemoizeFunc — property theorems (C16, second sentence)

All statements hold for every event list: any number of callers and every interleaving of their
swaps with the function's entry, return and the publication of its result.
-/
namespace UtilModel.Memo
open UtilModel

/-- **memo_exactly_once (state form).** At most one call ever wins the swap: two calls that are
between their winning swap and the publication of the result are the same call, and once the result
is published (or before anybody swapped) there is none. -/
theorem memo_exactly_once (es : List Ev) (s : St) (h : model.run model.init es = some s) :
    (∀ (t u : Nat) (a b : PC), s.th[t]? = some a → s.th[u]? = some b → a.live = true → b.live = true → t = u) ∧
    (s.cell ≠ none → ∀ (t : Nat) (a : PC), s.th[t]? = some a → a.live = false) := by
  have hi := reachable_inv es s h
  refine ⟨fun t u a b ht hu la lb => live_unique s hi t u a b ht hu la lb, ?_⟩
  intro hc t a ht
  cases hl : a.live with
  | false => rfl
  | true => exact absurd (live_phase s hi t a ht hl).2 hc

/-- **memo_all_same (state form).** Every call that has its return values holds the published
result of the single function call; in particular any two calls return the same `(value, error)`. -/
theorem memo_all_same (es : List Ev) (s : St) (h : model.run model.init es = some s)
    (t u v e v' e' : Nat)
    (ht : s.th[t]? = some (.retd v e) ∨ s.th[t]? = some (.done v e))
    (hu : s.th[u]? = some (.retd v' e') ∨ s.th[u]? = some (.done v' e')) :
    (v, e) = (v', e') ∧ s.cell = some (v, e) := by
  have hi := reachable_inv es s h
  have h1 := hi.res t v e ht
  have h2 := hi.res u v' e' hu
  rw [h1] at h2; cases h2
  exact ⟨rfl, h1⟩

/-- a waiting call is released as soon as the result is published -/
theorem waiting_enabled (s : St) (t v e : Nat) (ht : s.th[t]? = some .waiting) (hc : s.cell = some (v, e)) :
    ∃ s', step s (.read t) = some s' ∧ s'.th[t]? = some (.retd v e) := by
  exact ⟨{ s with th := s.th.set t (.retd v e) }, by simp [step, ht, hc], by simp [lt_of_getElem? ht]⟩

/-! ## observable form -/

def PC.isIn : PC → Prop
  | .inFn | .outd .. => True
  | _ => False

structure Rel (s : St) (ms : MSt) : Prop where
  inv : Inv s
  len : ms.calls.length = s.th.length
  done : ∀ (t : Nat) (pc : PC) (b : Bool), s.th[t]? = some pc → ms.calls[t]? = some b → b = pc.isDone
  ent : ms.entered = true ↔ (s.cell ≠ none ∨ ∃ (t : Nat) (pc : PC), s.th[t]? = some pc ∧ pc.isIn)
  outC : ∀ x, s.cell = some x → ms.out = some x
  outT : ∀ (t v e : Nat), s.th[t]? = some (.outd v e) → ms.out = some (v, e)
  outN : ms.out ≠ none → (s.cell ≠ none ∨ ∃ (t v e : Nat), s.th[t]? = some (.outd v e))

/-- replacing an entry by another changes an existential over the table only through the two
entries involved -/
theorem ex_set_irrel (P : PC → Prop) (l : List PC) (t : Nat) (a b : PC) (ha : l[t]? = some a)
    (hna : ¬ P a) (hnb : ¬ P b) :
    (∃ (u : Nat) (pc : PC), (l.set t b)[u]? = some pc ∧ P pc) ↔ (∃ (u : Nat) (pc : PC), l[u]? = some pc ∧ P pc) := by
  constructor
  · intro ⟨u, pc, hu, hp⟩
    rcases getElem?_set_cases l t u b pc hu with ⟨_, rfl⟩ | ⟨_, hx⟩
    · exact absurd hp hnb
    · exact ⟨u, pc, hx, hp⟩
  · intro ⟨u, pc, hu, hp⟩
    by_cases hut : u = t
    · subst hut; rw [ha] at hu; cases hu; exact absurd hp hna
    · exact ⟨u, pc, by rw [getElem?_set_ne' _ _ _ _ (fun e => hut e.symm)]; exact hu, hp⟩

/-- a step of call `t` between two program counters that are not inside the function, with the
cell unchanged, is invisible to the monitor -/
theorem rel_irrel (s s' : St) (ms : MSt) (hR : Rel s ms) (t : Nat) (a b : PC) (ha : s.th[t]? = some a)
    (hth : s'.th = s.th.set t b) (hcell : s'.cell = s.cell)
    (hi' : Inv s') (hna : ¬ a.isIn) (hnb : ¬ b.isIn)
    (hd : a.isDone = b.isDone) : Rel s' ms := by
  refine ⟨hi', by simp [hth, hR.len], ?_, ?_, by rw [hcell]; exact hR.outC, ?_, ?_⟩
  · intro u pc bb hu hm
    rw [hth] at hu
    rcases getElem?_set_cases s.th t u b pc hu with ⟨rfl, rfl⟩ | ⟨_, hx⟩
    · rw [← hd]; exact hR.done u a bb ha hm
    · exact hR.done u pc bb hx hm
  · rw [hR.ent, hcell, hth]
    rw [ex_set_irrel PC.isIn s.th t a b ha hna hnb]
  · intro u v e hu
    rw [hth] at hu
    rcases getElem?_set_cases s.th t u b _ hu with ⟨_, h⟩ | ⟨_, hx⟩
    · subst h; exact absurd (by simp [PC.isIn]) hnb
    · exact hR.outT u v e hx
  · intro h
    rw [hcell, hth]
    rcases hR.outN h with h1 | ⟨u, v, e, hu⟩
    · exact Or.inl h1
    · right
      by_cases hut : u = t
      · subst hut; rw [ha] at hu; cases hu; exact absurd (by simp [PC.isIn]) hna
      · exact ⟨u, v, e, by rw [getElem?_set_ne' _ _ _ _ (fun e => hut e.symm)]; exact hu⟩

/-- while a call is live nothing is published and it is the only call inside the function -/
theorem live_facts (s : St) (hi : Inv s) (t : Nat) (a : PC) (ht : s.th[t]? = some a) (la : a.live = true) :
    s.cell = none ∧ ∀ (u : Nat) (pc : PC), s.th[u]? = some pc → pc.isIn → u = t := by
  refine ⟨(live_phase s hi t a ht la).2, ?_⟩
  intro u pc hu hp
  have : pc.live = true := by cases pc <;> simp_all [PC.isIn]
  exact live_unique s hi u t pc a hu ht this la

theorem sim_step (s : St) (e : Ev) (s' : St) (ms : MSt) (hR : Rel s ms) (hst : step s e = some s') :
    match Ev.obs e with
    | none => Rel s' ms
    | some o => ∃ ms', monC16memo.step ms o = some ms' ∧ Rel s' ms' := by
  have hi := hR.inv
  have hi' := step_inv s e s' hi hst
  cases e with
  | inv t =>
    simp only [step] at hst; split at hst <;> simp at hst; subst hst
    rename_i ht
    refine ⟨{ ms with calls := ms.calls ++ [false] }, by simp [monC16memo, hR.len, ht], ?_⟩
    refine ⟨hi', by simp [hR.len], ?_, ?_, hR.outC, ?_, ?_⟩
    · intro u pc b hu hm
      simp only at hu hm
      rcases getElem?_snoc_cases _ _ _ _ hu with ⟨hul, hx⟩ | ⟨hul, rfl⟩
      · rcases getElem?_snoc_cases _ _ _ _ hm with ⟨_, hy⟩ | ⟨hml, _⟩
        · exact hR.done u pc b hx hy
        · have := hR.len; omega
      · rcases getElem?_snoc_cases _ _ _ _ hm with ⟨hml, _⟩ | ⟨_, rfl⟩
        · have := hR.len; omega
        · rfl
    · simp only; rw [hR.ent]
      constructor
      · rintro (h | ⟨u, pc, hu, hp⟩)
        · exact Or.inl h
        · exact Or.inr ⟨u, pc, getElem?_snoc_left _ _ _ _ hu, hp⟩
      · rintro (h | ⟨u, pc, hu, hp⟩)
        · exact Or.inl h
        · rcases getElem?_snoc_cases _ _ _ _ hu with ⟨_, hx⟩ | ⟨_, rfl⟩
          · exact Or.inr ⟨u, pc, hx, hp⟩
          · exact absurd hp (by simp [PC.isIn])
    · intro u v e hu
      simp only at hu
      rcases getElem?_snoc_cases _ _ _ _ hu with ⟨_, hx⟩ | ⟨_, h⟩
      · exact hR.outT u v e hx
      · cases h
    · intro h
      rcases hR.outN h with h1 | ⟨u, v, e, hu⟩
      · exact Or.inl h1
      · exact Or.inr ⟨u, v, e, getElem?_snoc_left _ _ _ _ hu⟩
  | swap t =>
    simp only [step] at hst
    split at hst <;> try simp at hst
    rename_i ht
    split at hst <;> simp at hst <;> subst hst
    · exact rel_irrel s _ ms hR t _ _ ht rfl rfl hi' (by simp [PC.isIn]) (by simp [PC.isIn]) rfl
    · exact rel_irrel s _ ms hR t _ _ ht rfl rfl hi' (by simp [PC.isIn]) (by simp [PC.isIn]) rfl
  | read t =>
    simp only [step] at hst
    split at hst <;> simp at hst
    rename_i v e ht hcell
    subst hst
    exact rel_irrel s _ ms hR t _ _ ht rfl rfl hi' (by simp [PC.isIn]) (by simp [PC.isIn]) rfl
  | cbin t =>
    simp only [step] at hst
    split at hst <;> simp at hst
    rename_i ht
    subst hst
    obtain ⟨hc, huniq⟩ := live_facts s hi t _ ht rfl
    have hne : ms.entered = false := by
      cases he : ms.entered with
      | false => rfl
      | true =>
        rcases hR.ent.mp he with h | ⟨u, pc, hu, hp⟩
        · exact absurd hc h
        · have := huniq u pc hu hp; subst this; rw [ht] at hu; cases hu; simp [PC.isIn] at hp
    have hlt := lt_of_getElem? ht
    have hany : ms.calls.any (!·) = true := by
      obtain ⟨b, hb⟩ : ∃ b, ms.calls[t]? = some b := ⟨ms.calls[t]'(by rw [hR.len]; exact hlt), by simp⟩
      have := hR.done t _ b ht hb
      rw [List.any_eq_true]
      exact ⟨b, List.mem_of_getElem? hb, by rw [this]; rfl⟩
    have hmem : false ∈ ms.calls := by
      obtain ⟨b, hb⟩ : ∃ b, ms.calls[t]? = some b := ⟨ms.calls[t]'(by rw [hR.len]; exact hlt), by simp⟩
      have := hR.done t _ b ht hb
      subst this
      exact List.mem_of_getElem? hb
    refine ⟨{ ms with entered := true }, by simp [monC16memo, hne, hmem], ?_⟩
    refine ⟨hi', by simp [hR.len], ?_, ?_, hR.outC, ?_, ?_⟩
    · intro u pc b hu hm
      simp only at hu
      rcases getElem?_set_cases s.th t u _ pc hu with ⟨rfl, rfl⟩ | ⟨_, hx⟩
      · have := hR.done u _ b ht hm; simpa [PC.isDone] using this
      · exact hR.done u pc b hx hm
    · simp only
      constructor
      · intro _; exact Or.inr ⟨t, .inFn, by simp [hlt], by simp [PC.isIn]⟩
      · intro _; first | rfl | trivial
    · intro u v e hu
      simp only at hu
      rcases getElem?_set_cases s.th t u _ _ hu with ⟨_, h⟩ | ⟨_, hx⟩
      · cases h
      · exact hR.outT u v e hx
    · intro h
      rcases hR.outN h with h1 | ⟨u, v, e, hu⟩
      · exact Or.inl h1
      · have := huniq u _ hu (by simp [PC.isIn]); subst this; rw [ht] at hu; cases hu
  | cbout t v e =>
    simp only [step] at hst
    split at hst <;> simp at hst
    rename_i ht
    subst hst
    obtain ⟨hc, huniq⟩ := live_facts s hi t _ ht rfl
    have hlt := lt_of_getElem? ht
    have hent : ms.entered = true := hR.ent.mpr (Or.inr ⟨t, .inFn, ht, by simp [PC.isIn]⟩)
    have hout : ms.out = none := by
      cases ho : ms.out with
      | none => rfl
      | some x =>
        rcases hR.outN (by simp [ho]) with h | ⟨u, v', e', hu⟩
        · exact absurd hc h
        · have := huniq u _ hu (by simp [PC.isIn]); subst this; rw [ht] at hu; cases hu
    refine ⟨{ ms with out := some (v, e) }, by simp [monC16memo, hent, hout], ?_⟩
    refine ⟨hi', by simp [hR.len], ?_, ?_, ?_, ?_, ?_⟩
    · intro u pc b hu hm
      simp only at hu
      rcases getElem?_set_cases s.th t u _ pc hu with ⟨rfl, rfl⟩ | ⟨_, hx⟩
      · have := hR.done u _ b ht hm; simpa [PC.isDone] using this
      · exact hR.done u pc b hx hm
    · simp only
      constructor
      · intro _; exact Or.inr ⟨t, .outd v e, by simp [hlt], by simp [PC.isIn]⟩
      · intro _; exact hent
    · intro x hx; simp only at hx; rw [hc] at hx; cases hx
    · intro u v' e' hu
      simp only at hu
      rcases getElem?_set_cases s.th t u _ _ hu with ⟨_, h⟩ | ⟨hne, hx⟩
      · cases h; rfl
      · have := huniq u _ hx (by simp [PC.isIn]); exact absurd this hne
    · intro _; exact Or.inr ⟨t, v, e, by simp [hlt]⟩
  | close t =>
    simp only [step] at hst
    split at hst <;> simp at hst
    rename_i v e ht
    subst hst
    obtain ⟨hc, huniq⟩ := live_facts s hi t _ ht rfl
    have hlt := lt_of_getElem? ht
    have hent : ms.entered = true := hR.ent.mpr (Or.inr ⟨t, _, ht, by simp [PC.isIn]⟩)
    have hout := hR.outT t v e ht
    refine ⟨hi', by simp [hR.len], ?_, ?_, ?_, ?_, ?_⟩
    · intro u pc b hu hm
      simp only at hu
      rcases getElem?_set_cases s.th t u _ pc hu with ⟨rfl, rfl⟩ | ⟨_, hx⟩
      · have := hR.done u _ b ht hm; simpa [PC.isDone] using this
      · exact hR.done u pc b hx hm
    · simp only
      constructor
      · intro _; exact Or.inl (by simp)
      · intro _; exact hent
    · intro x hx; simp only at hx; cases hx; exact hout
    · intro u v' e' hu
      simp only at hu
      rcases getElem?_set_cases s.th t u _ _ hu with ⟨_, h⟩ | ⟨hne, hx⟩
      · cases h
      · have := huniq u _ hx (by simp [PC.isIn]); exact absurd this hne
    · intro _; exact Or.inl (by simp)
  | ret t v e =>
    simp only [step] at hst
    split at hst <;> try simp at hst
    rename_i v' e' ht
    obtain ⟨⟨rfl, rfl⟩, rfl⟩ := hst
    have hlt := lt_of_getElem? ht
    have hcell := hi.res t v e (Or.inl ht)
    have hout := hR.outC _ hcell
    obtain ⟨b, hb⟩ : ∃ b, ms.calls[t]? = some b := ⟨ms.calls[t]'(by rw [hR.len]; exact hlt), by simp⟩
    have hbf : b = false := hR.done t _ b ht hb
    subst hbf
    refine ⟨{ ms with calls := ms.calls.set t true }, by simp [monC16memo, hb, hout], ?_⟩
    refine ⟨hi', by simp [hR.len], ?_, ?_, hR.outC, ?_, ?_⟩
    · intro u pc b hu hm
      simp only at hu hm
      rcases getElem?_set_cases s.th t u _ pc hu with ⟨rfl, rfl⟩ | ⟨hne, hx⟩
      · rw [getElem?_set_self' _ _ _ _ hb] at hm; cases hm; rfl
      · rw [getElem?_set_ne' _ _ _ _ (fun e => hne e.symm)] at hm
        exact hR.done u pc b hx hm
    · simp only; rw [hR.ent]
      rw [ex_set_irrel PC.isIn s.th t _ (.done v e) ht (by simp [PC.isIn]) (by simp [PC.isIn])]
    · intro u v' e' hu
      simp only at hu
      rcases getElem?_set_cases s.th t u _ _ hu with ⟨_, h⟩ | ⟨_, hx⟩
      · cases h
      · exact hR.outT u v' e' hx
    · intro h
      rcases hR.outN h with h1 | ⟨u, v', e', hu⟩
      · exact Or.inl h1
      · right
        by_cases hut : u = t
        · subst hut; rw [ht] at hu; cases hu
        · exact ⟨u, v', e', by simp only; rw [getElem?_set_ne' _ _ _ _ (fun e => hut e.symm)]; exact hu⟩
  | quiesce B =>
    simp only [step] at hst; split at hst <;> simp at hst
    rename_i hq
    obtain ⟨hq, rfl⟩ := hq
    subst hst
    refine ⟨ms, ?_, hR⟩
    have key : (pendingIds s).isEmpty = true ∨ (ms.entered = true ∧ ms.out = none) := by
      cases hp : pendingIds s with
      | nil => exact Or.inl rfl
      | cons t rest =>
        right
        have hmem : t ∈ pendingIds s := by rw [hp]; simp
        simp only [pendingIds, List.mem_filter, List.mem_range] at hmem
        obtain ⟨hlt, hpend⟩ := hmem
        have ht : s.th[t]? = some s.th[t] := by simp
        simp only [ht] at hpend
        simp only [quiescent, List.all_eq_true] at hq
        have hqt := hq _ (List.mem_of_getElem? ht)
        -- some call is inside the function
        have hin : ∃ (u : Nat), s.th[u]? = some .inFn := by
          cases hpc : s.th[t] with
          | inFn => exact ⟨t, by rw [ht, hpc]⟩
          | waiting =>
            rw [hpc] at hqt
            simp [PC.quiet] at hqt
            have hstarted : s.started = true := by
              cases hs : s.started with
              | true => rfl
              | false => have := (hi.fresh hs).2 t _ ht; rw [hpc] at this; cases this
            have one := hi.one
            rw [if_pos ⟨hstarted, hqt⟩] at one
            have hpos : 0 < s.th.countP PC.live := by omega
            rw [List.countP_pos_iff] at hpos
            obtain ⟨pc, hmem, hl⟩ := hpos
            obtain ⟨u, hul, hu⟩ := List.getElem_of_mem hmem
            have hqu := hq _ hmem
            cases pc <;> simp [PC.quiet] at hqu hl
            exact ⟨u, by simp [hul, hu]⟩
          | start => rw [hpc] at hqt; simp [PC.quiet] at hqt
          | won => rw [hpc] at hqt; simp [PC.quiet] at hqt
          | outd v e => rw [hpc] at hqt; simp [PC.quiet] at hqt
          | retd v e => rw [hpc] at hqt; simp [PC.quiet] at hqt
          | done v e => rw [hpc] at hpend; simp [PC.pending] at hpend
        obtain ⟨u, hu⟩ := hin
        obtain ⟨hc, huniq⟩ := live_facts s hi u _ hu rfl
        refine ⟨hR.ent.mpr (Or.inr ⟨u, _, hu, by simp [PC.isIn]⟩), ?_⟩
        cases ho : ms.out with
        | none => rfl
        | some x =>
          rcases hR.outN (by simp [ho]) with h | ⟨w, v', e', hw⟩
          · exact absurd hc h
          · have := huniq w _ hw (by simp [PC.isIn]); subst this; rw [hu] at hw; cases hw
    simp only [monC16memo]
    split
    · rfl
    · rename_i hn
      exfalso; apply hn
      rcases key with h | h
      · exact Or.inl h
      · exact Or.inr h

/-- **C16 (memo), observable form.** Every observable trace of the model is accepted by
`monC16memo`: the function is entered at most once, only during a pending call; every call returns
the result of that one entry; callers block only while the function runs. -/
theorem C16_obs_memo (es : List Ev) (s : St) (h : model.run model.init es = some s) :
    monC16memo.accepts (es.filterMap model.obs) = true :=
  monitor_accepts_of_simulation model monC16memo Rel
    ⟨init_inv, rfl, by intro t pc b h; simp [model] at h, by simp [monC16memo, model],
      by intro x h; simp [model] at h, by intro t v e h; simp [model] at h, by simp [monC16memo]⟩
    (fun s e s' ms hR hs => by
      have := sim_step s e s' ms hR hs
      cases e <;> exact this) es s h

/-- the model can do something non-trivial: three callers, the loser of the swap waits, everybody
returns the one result -/
example : (model.run model.init
    [.inv 0, .inv 1, .swap 1, .swap 0, .inv 2, .cbin 1, .swap 2, .quiesce [0, 1, 2], .cbout 1 7 0,
     .close 1, .read 0, .ret 0 7 0, .ret 1 7 0, .read 2, .ret 2 7 0, .quiesce []]).map (·.cell) = some (some (7, 0)) := by
  decide

end UtilModel.Memo
