import UtilModel.Memo.Monitors
/-!
# memo.MemoizeFunc — invariant and simulation (for every event list)
-/
namespace UtilModel.Memo
open UtilModel

/-- the call that won the swap and has not yet published the result -/
def PC.live : PC → Bool
  | .won | .inFn | .outd .. => true
  | _ => false

def PC.isDone : PC → Bool
  | .done .. => true
  | _ => false

@[simp] theorem live_start : PC.start.live = false := rfl
@[simp] theorem live_won : PC.won.live = true := rfl
@[simp] theorem live_inFn : PC.inFn.live = true := rfl
@[simp] theorem live_outd (v e : Nat) : (PC.outd v e).live = true := rfl
@[simp] theorem live_waiting : PC.waiting.live = false := rfl
@[simp] theorem live_retd (v e : Nat) : (PC.retd v e).live = false := rfl
@[simp] theorem live_done (v e : Nat) : (PC.done v e).live = false := rfl

structure Inv (s : St) : Prop where
  one : s.th.countP PC.live = if s.started ∧ s.cell = none then 1 else 0
  fresh : s.started = false → s.cell = none ∧ ∀ (t : Nat) (pc : PC), s.th[t]? = some pc → pc = .start
  res : ∀ (t : Nat) (v e : Nat), (s.th[t]? = some (.retd v e) ∨ s.th[t]? = some (.done v e)) → s.cell = some (v, e)

theorem init_inv : Inv ({} : St) := by
  refine ⟨by simp, ?_, ?_⟩ <;> intros <;> simp_all

/-- the unique live call -/
theorem live_unique (s : St) (hi : Inv s) (t u : Nat) (a b : PC) (ht : s.th[t]? = some a)
    (hu : s.th[u]? = some b) (la : a.live = true) (lb : b.live = true) : t = u := by
  rcases Nat.lt_trichotomy t u with h | h | h
  · have := countP_ge_two PC.live s.th t u a b (by omega) ht hu la lb
    have := hi.one; split at this <;> omega
  · exact h
  · have := countP_ge_two PC.live s.th t u a b (by omega) ht hu la lb
    have := hi.one; split at this <;> omega

theorem live_phase (s : St) (hi : Inv s) (t : Nat) (a : PC) (ht : s.th[t]? = some a)
    (la : a.live = true) : s.started = true ∧ s.cell = none := by
  have h1 := countP_pos_of_getElem? PC.live s.th t a ht la
  have := hi.one
  split at this
  · rename_i h; exact h
  · omega

theorem step_inv (s : St) (e : Ev) (s' : St) (hi : Inv s) (hs : step s e = some s') : Inv s' := by
  cases e with
  | inv t =>
    simp only [step] at hs; split at hs <;> simp at hs; subst hs
    refine ⟨by simp [countP_append_one, hi.one], ?_, ?_⟩
    · intro h0
      obtain ⟨h1, h2⟩ := hi.fresh h0
      refine ⟨h1, ?_⟩
      intro u pc hu
      rcases getElem?_snoc_cases _ _ _ _ hu with ⟨_, hx⟩ | ⟨_, rfl⟩
      · exact h2 u pc hx
      · rfl
    · intro u v e hu
      apply hi.res u v e
      rcases hu with hu | hu
      · rcases getElem?_snoc_cases _ _ _ _ hu with ⟨_, hx⟩ | ⟨_, h⟩
        · exact Or.inl hx
        · cases h
      · rcases getElem?_snoc_cases _ _ _ _ hu with ⟨_, hx⟩ | ⟨_, h⟩
        · exact Or.inr hx
        · cases h
  | swap t =>
    simp only [step] at hs
    split at hs <;> try simp at hs
    rename_i ht
    split at hs <;> simp at hs <;> subst hs
    · rename_i hst
      have c := countP_set PC.live s.th t _ .waiting ht
      refine ⟨by simp at c; simp only; rw [← hi.one]; omega, by intro h0; simp [hst] at h0, ?_⟩
      intro u v e hu
      apply hi.res u v e
      rcases hu with hu | hu
      · rcases getElem?_set_cases _ _ _ _ _ hu with ⟨_, h⟩ | ⟨_, hx⟩
        · cases h
        · exact Or.inl hx
      · rcases getElem?_set_cases _ _ _ _ _ hu with ⟨_, h⟩ | ⟨_, hx⟩
        · cases h
        · exact Or.inr hx
    · rename_i hst
      have hst' : s.started = false := by simpa using hst
      obtain ⟨hc, hall⟩ := hi.fresh hst'
      have c := countP_set PC.live s.th t _ .won ht
      have one := hi.one
      rw [if_neg (by simp [hst'])] at one
      refine ⟨?_, by simp, ?_⟩
      · show List.countP PC.live (s.th.set t .won) = if true = true ∧ s.cell = none then 1 else 0
        rw [if_pos ⟨rfl, hc⟩]; simp at c; omega
      intro u v e hu
      exfalso
      rcases hu with hu | hu
      · rcases getElem?_set_cases _ _ _ _ _ hu with ⟨_, h⟩ | ⟨_, hx⟩
        · cases h
        · have := hall u _ hx; cases this
      · rcases getElem?_set_cases _ _ _ _ _ hu with ⟨_, h⟩ | ⟨_, hx⟩
        · cases h
        · have := hall u _ hx; cases this
  | cbin t =>
    simp only [step] at hs
    split at hs <;> simp at hs
    rename_i ht
    subst hs
    have c := countP_set PC.live s.th t _ .inFn ht
    obtain ⟨h1, h2⟩ := live_phase s hi t _ ht rfl
    refine ⟨by simp at c; simp only; rw [← hi.one]; omega, by intro h0; simp [h1] at h0, ?_⟩
    intro u v e hu
    apply hi.res u v e
    rcases hu with hu | hu
    · rcases getElem?_set_cases _ _ _ _ _ hu with ⟨_, h⟩ | ⟨_, hx⟩
      · cases h
      · exact Or.inl hx
    · rcases getElem?_set_cases _ _ _ _ _ hu with ⟨_, h⟩ | ⟨_, hx⟩
      · cases h
      · exact Or.inr hx
  | cbout t v e =>
    simp only [step] at hs
    split at hs <;> simp at hs
    rename_i ht
    subst hs
    have c := countP_set PC.live s.th t _ (.outd v e) ht
    obtain ⟨h1, h2⟩ := live_phase s hi t _ ht rfl
    refine ⟨by simp at c; simp only; rw [← hi.one]; omega, by intro h0; simp [h1] at h0, ?_⟩
    intro u v' e' hu
    apply hi.res u v' e'
    rcases hu with hu | hu
    · rcases getElem?_set_cases _ _ _ _ _ hu with ⟨_, h⟩ | ⟨_, hx⟩
      · cases h
      · exact Or.inl hx
    · rcases getElem?_set_cases _ _ _ _ _ hu with ⟨_, h⟩ | ⟨_, hx⟩
      · cases h
      · exact Or.inr hx
  | close t =>
    simp only [step] at hs
    split at hs <;> simp at hs
    rename_i v e ht
    subst hs
    have c := countP_set PC.live s.th t _ (.retd v e) ht
    obtain ⟨h1, h2⟩ := live_phase s hi t _ ht rfl
    have one := hi.one
    rw [if_pos ⟨h1, h2⟩] at one
    refine ⟨?_, by intro h0; simp [h1] at h0, ?_⟩
    · show List.countP PC.live (s.th.set t (.retd v e)) =
        if s.started = true ∧ (some (v, e) : Option (Nat × Nat)) = none then 1 else 0
      rw [if_neg (by simp)]; simp at c; omega
    intro u v' e' hu
    rcases hu with hu | hu
    · rcases getElem?_set_cases _ _ _ _ _ hu with ⟨_, h⟩ | ⟨_, hx⟩
      · cases h; rfl
      · have := hi.res u v' e' (Or.inl hx); rw [h2] at this; cases this
    · rcases getElem?_set_cases _ _ _ _ _ hu with ⟨_, h⟩ | ⟨_, hx⟩
      · cases h
      · have := hi.res u v' e' (Or.inr hx); rw [h2] at this; cases this
  | read t =>
    simp only [step] at hs
    split at hs <;> simp at hs
    rename_i v e ht hcell
    subst hs
    have c := countP_set PC.live s.th t _ (.retd v e) ht
    refine ⟨by simp at c; simp only; rw [← hi.one]; omega, ?_, ?_⟩
    · intro h0; have := (hi.fresh h0).1; rw [hcell] at this; cases this
    · intro u v' e' hu
      rcases hu with hu | hu
      · rcases getElem?_set_cases _ _ _ _ _ hu with ⟨_, h⟩ | ⟨_, hx⟩
        · cases h; exact hcell
        · exact hi.res u v' e' (Or.inl hx)
      · rcases getElem?_set_cases _ _ _ _ _ hu with ⟨_, h⟩ | ⟨_, hx⟩
        · cases h
        · exact hi.res u v' e' (Or.inr hx)
  | ret t v e =>
    simp only [step] at hs
    split at hs <;> try simp at hs
    rename_i v' e' ht
    obtain ⟨⟨rfl, rfl⟩, rfl⟩ := hs
    have c := countP_set PC.live s.th t _ (.done v e) ht
    refine ⟨by simp at c; simp only; rw [← hi.one]; omega, ?_, ?_⟩
    · intro h0; have := (hi.fresh h0).2 t _ ht; cases this
    · intro u v' e' hu
      rcases hu with hu | hu
      · rcases getElem?_set_cases _ _ _ _ _ hu with ⟨_, h⟩ | ⟨_, hx⟩
        · cases h
        · exact hi.res u v' e' (Or.inl hx)
      · rcases getElem?_set_cases _ _ _ _ _ hu with ⟨rfl, h⟩ | ⟨_, hx⟩
        · cases h; exact hi.res u v e (Or.inl ht)
        · exact hi.res u v' e' (Or.inr hx)
  | quiesce B => simp only [step] at hs; split at hs <;> simp at hs; subst hs; exact hi

theorem reachable_inv (es : List Ev) (s : St) (h : model.run model.init es = some s) : Inv s :=
  model.run_invariant Inv (fun s e s' hi hs => step_inv s e s' hi hs) _ _ es init_inv h

end UtilModel.Memo
