import UtilModel.Memo.Model
import UtilModel.Core.Monitor
import UtilModel.Core.Driver
/-!
# memo.MemoizeFunc: property C16 (second sentence) as an executable monitor

"memo.MemoizeFunc calls its function exactly once in total and every caller receives that call's
result": the function is entered at most once, and only while some call is pending; every call
(the one that ran the function included) returns what that one entry returned; and callers block
only while the function is running.
-/
namespace UtilModel.Memo
open UtilModel

structure MSt where
  calls : List Bool := []               -- per call: has it returned?
  entered : Bool := false               -- the function has been entered
  out : Option (Nat × Nat) := none      -- what the function returned
deriving Repr

def monC16memo : ObsMonitor Obs MSt where
  init := {}
  step := fun ms o =>
    match o with
    | .inv t => if t = ms.calls.length then some { ms with calls := ms.calls ++ [false] } else none
    | .cbin =>
      -- entered at most once, while some call is pending
      if ms.entered = false ∧ ms.calls.any (!·) = true then some { ms with entered := true } else none
    | .cbout v e =>
      if ms.entered = true ∧ ms.out = none then some { ms with out := some (v, e) } else none
    | .ret t v e =>
      -- every caller (the one that ran the function included) returns the result of that one call
      if ms.calls[t]? = some false ∧ ms.out = some (v, e) then some { ms with calls := ms.calls.set t true } else none
    | .panic _ => none
    | .quiesce B =>
      -- callers block only while the function is running
      if B.isEmpty ∨ (ms.entered = true ∧ ms.out = none) then some ms else none

def memoMons : List (MonEntry Obs) := [MonEntry.ofMonitor "C16" monC16memo]

end UtilModel.Memo
