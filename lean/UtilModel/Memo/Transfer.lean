import UtilModel.Core.LTSHash
import UtilModel.Memo.Props
/-!
# Memo — end-to-end transfer

If the driver's trace-inclusion decision accepts a history recorded from the Go implementation, the
property monitor accepts that history: composition of the checker's soundness theorem
(`accepts_sound` / `acceptsH_sound`) with this package's observable-form property theorem.
-/
namespace UtilModel

theorem C16_accepted_memo (cap fuel : Nat) (h : List Memo.Obs)
    (ha : Memo.model.acceptsH cap fuel h = true) : Memo.monC16memo.accepts h = true :=
  acceptedH_satisfies Memo.model (fun h => Memo.monC16memo.accepts h = true)
    Memo.C16_obs_memo cap fuel h ha

end UtilModel
