import UtilModel.Core.LTSHash
import UtilModel.Core.LTSComplete
import UtilModel.Memo.Props
/-!
# Memo — end-to-end transfer

If the driver's trace-inclusion decision accepts a history recorded from the Go implementation, the
property monitor accepts that history: composition of the checker's soundness theorem
(`accepts_sound` / `acceptsH_sound`) with this package's observable-form property theorem.
-/
namespace UtilModel

theorem C16_accepted_memo (cap fuel : Nat) (h : List Memo.Obs)
    (ha : Memo.model.acceptsH cap fuel h = true) : Memo.monC16memo.accepts h = true :=
  acceptedH_satisfies Memo.model (fun h => Memo.monC16memo.accepts h = true)
    Memo.C16_obs_memo cap fuel h ha

end UtilModel

/-! ## completeness of the candidate lists — a REJECT is about the model -/
namespace UtilModel

/-- every enabled internal event of the Memo model is in its candidate list -/
theorem Memo.cands_complete (s s' : Memo.St) (e : Memo.Ev) (hs : Memo.step s e = some s')
    (ho : e.obs = none) : e ∈ Memo.model.cands s := by
  show e ∈ (List.range s.th.length).flatMap fun t => [Memo.Ev.swap t, .close t, .read t]
  cases e <;> simp [Memo.Ev.obs] at ho <;> simp only [Memo.step] at hs
  all_goals
    split at hs <;> try simp at hs
    rename_i h
    first
      | (have hlt := lt_of_getElem? h
         simp only [List.mem_flatMap, List.mem_range]
         exact ⟨_, hlt, by simp⟩)
      | (rename_i h2
         have hlt := lt_of_getElem? h2
         simp only [List.mem_flatMap, List.mem_range]
         exact ⟨_, hlt, by simp⟩)

/-- every enabled observable event is among the events tried for its observable (the function
entry / return may belong to any call in flight) -/
theorem Memo.evs_complete (s s' : Memo.St) (e : Memo.Ev) (o : Memo.Obs)
    (hs : Memo.step s e = some s') (ho : e.obs = some o) : e ∈ o.evs s.th.length := by
  cases e <;> simp [Memo.Ev.obs] at ho <;> subst ho <;> simp [Memo.Obs.evs]
  all_goals
    simp only [Memo.step] at hs
    split at hs <;> try simp at hs
    rename_i h
    exact lt_of_getElem? h

theorem complete_memo : Memo.model.Complete :=
  ⟨fun s e s' hs ho => Memo.cands_complete s s' e hs ho,
   fun s e s' o hs ho => Memo.evs_complete s s' e o hs ho⟩

/-- **A REJECT of the MemoizeFunc correspondence is about the model.** -/
theorem reject_sound_memo (cap fuel : Nat) (h : List Memo.Obs) (i : Nat)
    (hfail : (Memo.model.accRunH cap fuel [Memo.model.init] h 0 false 1).failedAt = some i)
    (htr : (Memo.model.accRunH cap fuel [Memo.model.init] h 0 false 1).truncated = false) :
    ¬ ∃ es s, Memo.model.run Memo.model.init es = some s ∧ es.filterMap Memo.model.obs = h :=
  rejectH_sound Memo.model complete_memo cap fuel h i hfail htr

end UtilModel
