import UtilModel.LinkedList.Model
import UtilModel.Treiber.LinFlow
import UtilModel.Treiber.LinEmpty
import UtilModel.Core.Monitor
/-!
# LinkedList — the history-level monitor of C12

`monC12` (element flow, see `Treiber/LinFlow.lean`) on histories of LinkedList calls:

* call ids are allocated in invocation order, responses belong to invoked calls;
* whenever `Pop` returns `(v, true)`, fewer `Pop`s have returned `v` so far than
  `Push(v)`/`PushFront(v)`/`NewLinkedList(… v …)` have been *invoked* so far (no element returned
  twice or out of thin air);
* a value returned by `Peek`/`PeekTail` was offered by an invocation before.

* **an "empty" answer only if the list can be empty** (`monEmpty`, `Treiber/LinEmpty.lean`): when
  `Pop`/`Peek`/`PeekTail` return `(_, false)` or `IsEmpty` returns true although values whose
  `Push`/`PushFront`/constructor call had *returned* before the call was invoked (and did not overlap
  a `Reset`) are still unaccounted for — not returned by any `Pop` so far and more of them than there
  are other `Pop`s in flight; every `Reset` invocation clears the bookkeeping — the history is
  rejected.

Sound (accepts every observable trace of the model, `Props.C12_obs_linkedlist`) but not the whole
property: **queue order, real-time order, the remaining emptiness cases and lost elements are decided by trace
inclusion in the model** — `model.accepts` (the driver) + `Props.lincheck_sound`
(= `accepts_sound` + `linkedlist_refines_deque`).
-/
namespace UtilModel.LinkedList
open UtilModel UtilModel.Lin

def dequeFlow : Flow LOp LRes where
  offered := fun op => match op with
    | .init vs => vs
    | .push v | .pushFront v => [v]
    | _ => []
  taken := fun op r => match op, r with
    | .pop, .val v true => some v
    | _, _ => none
  seen := fun op r => match op, r with
    | .peek, .val v true | .peekTail, .val v true => some v
    | _, _ => none
  wipes := fun op => match op with
    | .reset => true
    | _ => false
  emptyRes := fun op r => match op, r with
    | .pop, .val _ false | .peek, .val _ false | .peekTail, .val _ false | .isEmpty, .empty true => true
    | _, _ => false
  mayTake := fun op => match op with
    | .pop => true
    | _ => false

/-- environment observables (`env rlock`/`env runlock`) are ignored by the monitor -/
def monC12 : ObsMonitor Obs (FlowSt LOp × EmpSt LOp) := (monContainer dequeFlow).comapOpt Obs.toH

end UtilModel.LinkedList
