import UtilModel.LinkedList.Model
import UtilModel.Treiber.LinFlow
import UtilModel.Core.Monitor
/-!
# LinkedList — the history-level monitor of C12

`monC12` (element flow, see `Treiber/LinFlow.lean`) on histories of LinkedList calls:

* call ids are allocated in invocation order, responses belong to invoked calls;
* whenever `Pop` returns `(v, true)`, fewer `Pop`s have returned `v` so far than
  `Push(v)`/`PushFront(v)`/`NewLinkedList(… v …)` have been *invoked* so far (no element returned
  twice or out of thin air);
* a value returned by `Peek`/`PeekTail` was offered by an invocation before.

Sound (accepts every observable trace of the model, `Props.C12_obs_linkedlist`) but not the whole
property: **queue order, real-time order, emptiness results and lost elements are decided by trace
inclusion in the model** — `model.accepts` (the driver) + `Props.lincheck_sound`
(= `accepts_sound` + `linkedlist_refines_deque`).
-/
namespace UtilModel.LinkedList
open UtilModel UtilModel.Lin

def dequeFlow : Flow LOp LRes where
  offered := fun op => match op with
    | .init vs => vs
    | .push v | .pushFront v => [v]
    | _ => []
  taken := fun op r => match op, r with
    | .pop, .val v true => some v
    | _, _ => none
  seen := fun op r => match op, r with
    | .peek, .val v true | .peekTail, .val v true => some v
    | _, _ => none

/-- environment observables (`env rlock`/`env runlock`) are ignored by the monitor -/
def monC12 : ObsMonitor Obs (FlowSt LOp) := (monFlow dequeFlow).comapOpt Obs.toH

end UtilModel.LinkedList
