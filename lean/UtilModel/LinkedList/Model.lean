import UtilModel.Core.LTS
import UtilModel.Treiber.Lin
/-!
# linkedlist.LinkedList — model (linkedlist/linkedlist.go), component `linkedlist`

State: a heap of list elements `⟨val, next⟩` (an element's id is its index; `&linkedListElem{…}`
appends), and the two pointers `head`, `tail` of the struct. The pointer manipulation of every
method is modelled statement by statement (`body`).

Every exported method takes the **write lock** `l.mtx.Lock()` for its whole body (Push :38-40,
PushFront :46-54, Peek :59-65, IsEmpty :71-73, PeekTail :79-85, Pop :91-103, Reset :109-111 — also
the read-only ones; no method uses `RLock`), so one method body is ONE atomic event `exec t`, placed
between the call's `inv` and `ret`. `NewLinkedList(elems…)` (:28-34) builds the list before anyone
else can hold a reference; it is modelled as the first call (`t = 0`) with the same `pushElem` loop.

Environment: the harness can itself hold `l.mtx` for reading (`env rlock` … `env runlock`, it reaches
the unexported field by reflection). While it does, no method body that needs the write lock can
run: `exec t` is disabled for the mutating methods. For the read-only methods (`Peek`, `PeekTail`,
`IsEmpty`) the model is deliberately permissive (enabled also while the environment holds a read
lock): the code takes the write lock for them too, but a read lock would be just as correct, and the
property does not depend on it. This makes a mutating method that was downgraded to `RLock`
deterministically visible (it returns while the environment still holds its read lock), independent
of scheduling luck. `env rlock` is logged *after* the harness acquired the lock and `env runlock`
*before* it releases it, so the interval in the log lies inside the real one.

One *thread* = one API call, numbered in invocation order by the harness. A dereference of an id
that is not a heap element is an explicit outcome (`LRes.panic`); `Props.no_panic` shows it is
unreachable.
-/
namespace UtilModel.LinkedList
open UtilModel UtilModel.Lin

structure Node where
  val : Nat
  next : Option Nat
deriving DecidableEq, Repr, Hashable

inductive LOp where
  | init (vs : List Nat)   -- NewLinkedList(vs…)
  | push (v : Nat)
  | pushFront (v : Nat)
  | pop
  | peek
  | peekTail
  | isEmpty
  | reset
deriving DecidableEq, Repr, Hashable

/-- methods that only read (they could run under a read lock) -/
def LOp.readOnly : LOp → Bool
  | .peek | .peekTail | .isEmpty => true
  | _ => false

/-- `NewLinkedList` is only possible as the very first call -/
def LOp.isInit : LOp → Bool
  | .init _ => true
  | _ => false

inductive LRes where
  | ack                        -- methods without result
  | val (v : Nat) (ok : Bool)  -- Pop / Peek / PeekTail: `(val, exists)`; `(0, false)` when empty
  | empty (b : Bool)           -- IsEmpty
  | panic
deriving DecidableEq, Repr, Hashable

inductive TS where
  | inv (op : LOp)               -- invoked; the locked body has not run yet
  | done (op : LOp) (r : LRes)   -- body executed, lock released; not yet returned
  | retd (op : LOp) (r : LRes)   -- returned
deriving DecidableEq, Repr, Hashable

/-- the struct fields + the element heap -/
structure Mem where
  nodes : List Node := []
  head : Option Nat := none
  tail : Option Nat := none
deriving DecidableEq, Repr, Hashable

structure St where
  mem : Mem := {}
  th : List TS := []
  /-- number of read locks on `l.mtx` held by the environment (the harness) -/
  envR : Nat := 0
deriving DecidableEq, Repr, Hashable

/-- observables: history events `inv t <op>` / `ret t <result>`, and the environment's read lock -/
inductive Obs where
  | call (h : HEv LOp LRes)
  | envRLock        -- `env rlock`   (logged after the harness acquired `l.mtx.RLock()`)
  | envRUnlock      -- `env runlock` (logged before the harness calls `l.mtx.RUnlock()`)
deriving DecidableEq, Repr, Hashable

/-- the history event of an observable (environment events are not part of the history) -/
def Obs.toH : Obs → Option (HEv LOp LRes)
  | .call h => some h
  | _ => none

inductive Ev where
  | inv (t : Nat) (op : LOp)
  | exec (t : Nat)               -- the method body, under `l.mtx`
  | ret (t : Nat) (r : LRes)
  | envRLock
  | envRUnlock
deriving DecidableEq, Repr, Hashable

def Ev.obs : Ev → Option Obs
  | .inv t op => some (.call (.inv t op))
  | .ret t r => some (.call (.ret t r))
  | .exec _ => none
  | .envRLock => some .envRLock
  | .envRUnlock => some .envRUnlock

def obsEv : Obs → Ev
  | .call (.inv t op) => .inv t op
  | .call (.ret t r) => .ret t r
  | .envRLock => .envRLock
  | .envRUnlock => .envRUnlock

theorem obsEv_obs (o : Obs) : (obsEv o).obs = some o := by
  cases o with
  | call h => cases h <;> rfl
  | envRLock => rfl
  | envRUnlock => rfl

def parseNats : List String → Option (List Nat)
  | [] => some []
  | x :: xs => do let n ← x.toNat?; let r ← parseNats xs; pure (n :: r)

def parseBool (s : String) : Option Bool :=
  if s == "true" then some true else if s == "false" then some false else none

def parseObs : List String → Option Obs
  | ["env", "rlock"] => some .envRLock
  | ["env", "runlock"] => some .envRUnlock
  | "inv" :: t :: "new" :: vs => do pure (.call (.inv (← t.toNat?) (.init (← parseNats vs))))
  | ["inv", t, "push", v] => do pure (.call (.inv (← t.toNat?) (.push (← v.toNat?))))
  | ["inv", t, "pushfront", v] => do pure (.call (.inv (← t.toNat?) (.pushFront (← v.toNat?))))
  | ["inv", t, "pop"] => do pure (.call (.inv (← t.toNat?) .pop))
  | ["inv", t, "peek"] => do pure (.call (.inv (← t.toNat?) .peek))
  | ["inv", t, "peektail"] => do pure (.call (.inv (← t.toNat?) .peekTail))
  | ["inv", t, "isempty"] => do pure (.call (.inv (← t.toNat?) .isEmpty))
  | ["inv", t, "reset"] => do pure (.call (.inv (← t.toNat?) .reset))
  | ["ret", t, "ack"] => do pure (.call (.ret (← t.toNat?) .ack))
  | ["ret", t, "val", v, ok] => do pure (.call (.ret (← t.toNat?) (.val (← v.toNat?) (← parseBool ok))))
  | ["ret", t, "empty", b] => do pure (.call (.ret (← t.toNat?) (.empty (← parseBool b))))
  | ["ret", t, "panic"] => do pure (.call (.ret (← t.toNat?) .panic))
  | _ => none

/-! ## The method bodies (`none` = dereference of a non-element = panic) -/

/-- `pushElem` (:115-123) -/
def pushElem (m : Mem) (v : Nat) : Option Mem :=
  let n := m.nodes.length                       -- elem := &linkedListElem[T]{val: val}
  let nodes := m.nodes ++ [⟨v, none⟩]
  match m.tail with
  | none => some { nodes := nodes, head := some n, tail := some n }     -- l.head = elem; l.tail = elem
  | some tl =>
    match nodes[tl]? with
    | some nd => some { nodes := nodes.set tl { nd with next := some n }, head := m.head, tail := some n }
                                                                        -- l.tail.next = elem; l.tail = elem
    | none => none

/-- the loop of `NewLinkedList` (:30-32) -/
def pushAll : Mem → List Nat → Option Mem
  | m, [] => some m
  | m, v :: vs => (pushElem m v).bind (pushAll · vs)

def body (m : Mem) : LOp → Option (Mem × LRes)
  | .init vs => (pushAll m vs).map (·, .ack)
  | .push v => (pushElem m v).map (·, .ack)
  | .pushFront v =>                                                       -- :47-53
    let n := m.nodes.length
    match m.head with
    | some h => some ({ nodes := m.nodes ++ [⟨v, some h⟩], head := some n, tail := m.tail }, .ack)
    | none => some ({ nodes := m.nodes ++ [⟨v, none⟩], head := some n, tail := some n }, .ack)
  | .peek =>                                                              -- :60-66
    match m.head with
    | none => some (m, .val 0 false)
    | some h =>
      match m.nodes[h]? with
      | some nd => some (m, .val nd.val true)
      | none => none
  | .isEmpty => some (m, .empty m.head.isNone)                            -- :72
  | .peekTail =>                                                          -- :80-86
    match m.tail with
    | none => some (m, .val 0 false)
    | some tl =>
      match m.nodes[tl]? with
      | some nd => some (m, .val nd.val true)
      | none => none
  | .pop =>                                                               -- :92-104
    match m.head with
    | none => some (m, .val 0 false)
    | some h =>
      match m.nodes[h]? with
      | some nd =>
        match nd.next with
        | some nx => some ({ m with head := some nx }, .val nd.val true)
        | none => some ({ m with head := none, tail := none }, .val nd.val true)
      | none => none
  | .reset => some ({ m with head := none, tail := none }, .ack)          -- :110

def step (s : St) : Ev → Option St
  | .inv t op =>
    if t = s.th.length ∧ (op.isInit = true → t = 0) then some { s with th := s.th ++ [.inv op] } else none
  | .exec t =>
    match s.th[t]? with
    | some (.inv op) =>
      if s.envR = 0 ∨ op.readOnly = true then      -- the write lock needs: no reader
        match body s.mem op with
        | some (m, r) => some { s with mem := m, th := s.th.set t (.done op r) }
        | none => some { s with th := s.th.set t (.done op .panic) }
      else none
    | _ => none
  | .ret t r =>
    match s.th[t]? with
    | some (.done op r') => if r = r' then some { s with th := s.th.set t (.retd op r) } else none
    | _ => none
  | .envRLock => some { s with envR := s.envR + 1 }
  | .envRUnlock => if 0 < s.envR then some { s with envR := s.envR - 1 } else none

def TS.cand (t : Nat) : TS → List Ev
  | .inv _ => [.exec t]
  | _ => []

def cands (s : St) : List Ev :=
  (List.range s.th.length).flatMap fun t =>
    match s.th[t]? with
    | some ts => ts.cand t
    | none => []

def model : OLTS St Ev Obs where
  init := {}
  step := step
  obs := Ev.obs
  cands := cands
  evsOf := fun _ o => [obsEv o]

/-! ## The sequential specification: a double-ended queue as a `List` -/

def dequeSpec : SeqSpec (List Nat) LOp LRes where
  init := []
  apply := fun l op =>
    match op with
    | .init vs => (l ++ vs, .ack)
    | .push v => (l ++ [v], .ack)
    | .pushFront v => (v :: l, .ack)
    | .pop =>
      match l with
      | [] => ([], .val 0 false)
      | v :: r => (r, .val v true)
    | .peek =>
      match l with
      | [] => (l, .val 0 false)
      | v :: _ => (l, .val v true)
    | .peekTail =>
      match l.getLast? with
      | none => (l, .val 0 false)
      | some v => (l, .val v true)
    | .isEmpty => (l, .empty l.isEmpty)
    | .reset => ([], .ack)

/-- **linearization point**: the locked method body -/
def linOf (s : St) : Ev → Option (Nat × LOp × LRes)
  | .exec t =>
    match s.th[t]? with
    | some (.inv op) =>
      match body s.mem op with
      | some (_, r) => some (t, op, r)
      | none => some (t, op, .panic)
    | _ => none
  | _ => none

/-- `Chain nodes p c`: following `next` from `p` visits exactly the elements `c` (pairs id, value)
and ends in `nil` -/
def Chain (nodes : List Node) : Option Nat → List (Nat × Nat) → Prop
  | p, [] => p = none
  | p, (i, v) :: rest => p = some i ∧ ∃ nx, nodes[i]? = some ⟨v, nx⟩ ∧ Chain nodes nx rest

/-- the representation invariant: the elements reachable from `head` are `c`, without repetition
(no cycle, no sharing), and `tail` points to the last of them (`nil` iff the list is empty) -/
structure Rep (m : Mem) (c : List (Nat × Nat)) : Prop where
  chain : Chain m.nodes m.head c
  nodup : (c.map (·.1)).Nodup
  tail : m.tail = (c.map (·.1)).getLast?

/-- executable abstraction: follow `next` at most `fuel` times -/
def walk (nodes : List Node) : Nat → Option Nat → List Nat
  | 0, _ => []
  | _, none => []
  | f+1, some n =>
    match nodes[n]? with
    | some nd => nd.val :: walk nodes f nd.next
    | none => []

def abs (s : St) : List Nat := walk s.mem.nodes s.mem.nodes.length s.mem.head

end UtilModel.LinkedList
