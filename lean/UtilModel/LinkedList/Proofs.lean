import UtilModel.LinkedList.Model
import UtilModel.Core.Count
/-!
# LinkedList — the pointer structure denotes a `List`; every method body is the list operation
-/
namespace UtilModel.LinkedList
open UtilModel UtilModel.Lin

/-! ## `Chain` -/

theorem chain_mem (nodes : List Node) (p : Option Nat) (c : List (Nat × Nat)) (h : Chain nodes p c)
    (i v : Nat) (hm : (i, v) ∈ c) : ∃ nx, nodes[i]? = some ⟨v, nx⟩ := by
  induction c generalizing p with
  | nil => simp at hm
  | cons x rest ih =>
    obtain ⟨j, w⟩ := x
    obtain ⟨_, nx, hn, hc⟩ := h
    simp only [List.mem_cons, Prod.mk.injEq] at hm
    rcases hm with ⟨rfl, rfl⟩ | hm
    · exact ⟨nx, hn⟩
    · exact ih nx hc hm

theorem chain_lt (nodes : List Node) (p : Option Nat) (c : List (Nat × Nat)) (h : Chain nodes p c)
    (i : Nat) (hm : i ∈ c.map (·.1)) : i < nodes.length := by
  simp only [List.mem_map] at hm
  obtain ⟨⟨j, v⟩, hm, rfl⟩ := hm
  obtain ⟨nx, hn⟩ := chain_mem nodes p c h j v hm
  exact lt_of_getElem? hn

theorem chain_append (nodes : List Node) (x : Node) (p : Option Nat) (c : List (Nat × Nat))
    (h : Chain nodes p c) : Chain (nodes ++ [x]) p c := by
  induction c generalizing p with
  | nil => exact h
  | cons y rest ih =>
    obtain ⟨j, w⟩ := y
    obtain ⟨hp, nx, hn, hc⟩ := h
    exact ⟨hp, nx, getElem?_snoc_left _ _ _ _ hn, ih nx hc⟩

theorem chain_set (nodes : List Node) (i : Nat) (x : Node) (p : Option Nat) (c : List (Nat × Nat))
    (h : Chain nodes p c) (hi : i ∉ c.map (·.1)) : Chain (nodes.set i x) p c := by
  induction c generalizing p with
  | nil => exact h
  | cons y rest ih =>
    obtain ⟨j, w⟩ := y
    obtain ⟨hp, nx, hn, hc⟩ := h
    simp only [List.map_cons, List.mem_cons, not_or] at hi
    refine ⟨hp, nx, ?_, ih nx hc hi.2⟩
    rw [getElem?_set_ne' _ _ _ _ hi.1]; exact hn

theorem chain_nil_head (nodes : List Node) (p : Option Nat) (c : List (Nat × Nat))
    (h : Chain nodes p c) : p = none ↔ c = [] := by
  cases c with
  | nil => simp [Chain] at h; simp [h]
  | cons y rest => obtain ⟨j, w⟩ := y; obtain ⟨hp, _⟩ := h; simp [hp]

/-- appending a fresh element behind the last one: `l.tail.next = elem` -/
theorem chain_snoc (nodes : List Node) (p : Option Nat) (pre : List (Nat × Nat)) (tl w v : Nat)
    (h : Chain nodes p (pre ++ [(tl, w)])) (hnd : tl ∉ pre.map (·.1)) :
    Chain ((nodes ++ [Node.mk v none]).set tl (Node.mk w (some nodes.length))) p
      (pre ++ [(tl, w), (nodes.length, v)]) := by
  induction pre generalizing p with
  | nil =>
    obtain ⟨hp, nx, hn, _⟩ := h
    have hlt := lt_of_getElem? hn
    have h2 : Chain ((nodes ++ [Node.mk v none]).set tl (Node.mk w (some nodes.length))) (some nodes.length)
        [(nodes.length, v)] := by
      refine ⟨rfl, none, ?_, rfl⟩
      rw [getElem?_set_ne' _ _ _ _ (by omega)]; simp
    refine ⟨hp, some nodes.length, ?_, h2⟩
    simp [List.getElem?_set]; omega
  | cons y rest ih =>
    obtain ⟨j, u⟩ := y
    obtain ⟨hp, nx, hn, hc⟩ := h
    simp only [List.map_cons, List.mem_cons, not_or] at hnd
    refine ⟨hp, nx, ?_, ih nx hc hnd.2⟩
    rw [getElem?_set_ne' _ _ _ _ hnd.1]
    exact getElem?_snoc_left _ _ _ _ hn

/-! ## The method bodies -/

theorem rep_init : Rep ({} : Mem) [] := ⟨rfl, by simp, rfl⟩

theorem rep_nil (m : Mem) (h : Rep m []) : m.head = none ∧ m.tail = none :=
  ⟨h.chain, by simpa using h.tail⟩

/-- `pushElem` appends the value at the end -/
theorem pushElem_refines (m : Mem) (c : List (Nat × Nat)) (v : Nat) (hr : Rep m c) :
    ∃ m', pushElem m v = some m' ∧ Rep m' (c ++ [(m.nodes.length, v)]) := by
  rcases List.eq_nil_or_concat c with rfl | ⟨pre, ⟨tl, w⟩, rfl⟩
  · obtain ⟨hh, ht⟩ := rep_nil m hr
    have hb : pushElem m v = some { nodes := m.nodes ++ [Node.mk v none], head := some m.nodes.length, tail := some m.nodes.length } := by simp [pushElem, ht]
    refine ⟨_, hb, ?_, by simp, by simp⟩
    exact ⟨rfl, none, by simp, rfl⟩
  · rw [List.concat_eq_append] at hr ⊢
    have ht : m.tail = some tl := by simpa using hr.tail
    have hnd := hr.nodup
    simp only [List.map_append, List.map_cons, List.map_nil] at hnd
    rw [List.nodup_append] at hnd
    have htl : tl ∉ pre.map (·.1) := fun hm => hnd.2.2 tl hm tl (by simp) rfl
    obtain ⟨nx, hn⟩ := chain_mem _ _ _ hr.chain tl w (by simp)
    have hlt := lt_of_getElem? hn
    have hn1 : (m.nodes ++ [Node.mk v none])[tl]? = some ⟨w, nx⟩ := getElem?_snoc_left _ _ _ _ hn
    have hb : pushElem m v = some { nodes := (m.nodes ++ [Node.mk v none]).set tl (Node.mk w (some m.nodes.length)), head := m.head, tail := some m.nodes.length } := by simp only [pushElem, ht, hn1]
    refine ⟨_, hb, ?_, ?_, ?_⟩
    · have := chain_snoc m.nodes m.head pre tl w v hr.chain htl
      simpa using this
    · simp only [List.map_append, List.map_cons, List.map_nil, List.append_assoc, List.cons_append, List.nil_append]
      rw [List.nodup_append]
      refine ⟨hnd.1, by simp; omega, ?_⟩
      intro a ha b hb
      simp at hb
      rcases hb with rfl | rfl
      · exact hnd.2.2 a ha b (by simp)
      · have := chain_lt _ _ _ hr.chain a (by simp only [List.map_append, List.mem_append]; exact Or.inl ha)
        omega
    · simp

theorem pushAll_refines (m : Mem) (c : List (Nat × Nat)) (vs : List Nat) (hr : Rep m c) :
    ∃ m' c', pushAll m vs = some m' ∧ Rep m' c' ∧ c'.map (·.2) = c.map (·.2) ++ vs := by
  induction vs generalizing m c with
  | nil => exact ⟨m, c, rfl, hr, by simp⟩
  | cons v vs ih =>
    obtain ⟨m1, h1, hr1⟩ := pushElem_refines m c v hr
    obtain ⟨m', c', h2, hr2, hv⟩ := ih m1 _ hr1
    exact ⟨m', c', by simp [pushAll, h1, h2], hr2, by simp [hv]⟩

/-- **every method body is the corresponding list operation** (and never dereferences a
non-element) -/
theorem body_refines (m : Mem) (c : List (Nat × Nat)) (op : LOp) (hr : Rep m c) :
    ∃ m' r c', body m op = some (m', r) ∧ Rep m' c' ∧
      dequeSpec.apply (c.map (·.2)) op = (c'.map (·.2), r) := by
  cases op with
  | init vs =>
    obtain ⟨m', c', h, hr', hv⟩ := pushAll_refines m c vs hr
    exact ⟨m', .ack, c', by simp [body, h], hr', by simp [dequeSpec, hv]⟩
  | push v =>
    obtain ⟨m', h, hr'⟩ := pushElem_refines m c v hr
    exact ⟨m', .ack, _, by simp [body, h], hr', by simp [dequeSpec]⟩
  | pushFront v =>
    cases c with
    | nil =>
      obtain ⟨hh, ht⟩ := rep_nil m hr
      have hb : body m (.pushFront v) = some ({ nodes := m.nodes ++ [Node.mk v none], head := some m.nodes.length, tail := some m.nodes.length }, .ack) := by simp [body, hh]
      refine ⟨_, .ack, [(m.nodes.length, v)], hb, ⟨?_, by simp, by simp⟩, by simp [dequeSpec]⟩
      exact ⟨rfl, none, by simp, rfl⟩
    | cons y rest =>
      obtain ⟨j, w⟩ := y
      have hh : m.head = some j := hr.chain.1
      have hb : body m (.pushFront v) = some ({ nodes := m.nodes ++ [Node.mk v (some j)], head := some m.nodes.length, tail := m.tail }, .ack) := by simp [body, hh]
      refine ⟨_, .ack, (m.nodes.length, v) :: (j, w) :: rest, hb, ⟨?_, ?_, ?_⟩, by simp [dequeSpec]⟩
      · refine ⟨rfl, some j, by simp, ?_⟩
        have := chain_append m.nodes (Node.mk v (some j)) m.head _ hr.chain
        rwa [hh] at this
      · simp only [List.map_cons]
        rw [List.nodup_cons]
        refine ⟨?_, hr.nodup⟩
        intro hm
        have := chain_lt _ _ _ hr.chain _ hm
        omega
      · simpa using hr.tail
  | peek =>
    cases c with
    | nil =>
      obtain ⟨hh, _⟩ := rep_nil m hr
      have hb : body m .peek = some (m, .val 0 false) := by simp [body, hh]
      exact ⟨m, _, [], hb, hr, by simp [dequeSpec]⟩
    | cons y rest =>
      obtain ⟨j, w⟩ := y
      obtain ⟨hh, nx, hn, _⟩ := hr.chain
      have hb : body m .peek = some (m, .val w true) := by simp [body, hh, hn]
      exact ⟨m, _, _, hb, hr, by simp [dequeSpec]⟩
  | isEmpty =>
    cases c with
    | nil =>
      obtain ⟨hh, _⟩ := rep_nil m hr
      have hb : body m .isEmpty = some (m, .empty true) := by simp [body, hh]
      exact ⟨m, _, [], hb, hr, by simp [dequeSpec]⟩
    | cons y rest =>
      obtain ⟨j, w⟩ := y
      have hh : m.head = some j := hr.chain.1
      have hb : body m .isEmpty = some (m, .empty false) := by simp [body, hh]
      exact ⟨m, _, _, hb, hr, by simp [dequeSpec]⟩
  | peekTail =>
    rcases List.eq_nil_or_concat c with rfl | ⟨pre, ⟨tl, w⟩, rfl⟩
    · obtain ⟨_, ht⟩ := rep_nil m hr
      have hb : body m .peekTail = some (m, .val 0 false) := by simp [body, ht]
      exact ⟨m, _, [], hb, hr, by simp [dequeSpec]⟩
    · rw [List.concat_eq_append] at hr ⊢
      have ht : m.tail = some tl := by simpa using hr.tail
      obtain ⟨nx, hn⟩ := chain_mem _ _ _ hr.chain tl w (by simp)
      have hb : body m .peekTail = some (m, .val w true) := by simp [body, ht, hn]
      exact ⟨m, _, _, hb, hr, by simp [dequeSpec]⟩
  | pop =>
    cases c with
    | nil =>
      obtain ⟨hh, _⟩ := rep_nil m hr
      have hb : body m .pop = some (m, .val 0 false) := by simp [body, hh]
      exact ⟨m, _, [], hb, hr, by simp [dequeSpec]⟩
    | cons y rest =>
      obtain ⟨j, w⟩ := y
      obtain ⟨hh, nx, hn, hc⟩ := hr.chain
      have hnd := hr.nodup
      simp only [List.map_cons, List.nodup_cons] at hnd
      cases nx with
      | none =>
        have hrest : rest = [] := (chain_nil_head _ _ _ hc).mp rfl
        subst hrest
        have hb : body m .pop = some ({ m with head := none, tail := none }, .val w true) := by
          simp [body, hh, hn]
        exact ⟨_, _, [], hb, ⟨rfl, by simp, rfl⟩, by simp [dequeSpec]⟩
      | some n =>
        have hne : rest ≠ [] := by
          intro h; have := (chain_nil_head _ _ _ hc).mpr h; cases this
        have hb : body m .pop = some ({ m with head := some n }, .val w true) := by
          simp [body, hh, hn]
        refine ⟨_, _, rest, hb, ⟨hc, hnd.2, ?_⟩, by simp [dequeSpec]⟩
        have ht := hr.tail
        cases rest with
        | nil => exact absurd rfl hne
        | cons z zs => simpa [List.getLast?_cons_cons] using ht
  | reset =>
    exact ⟨_, .ack, [], rfl, ⟨rfl, by simp, rfl⟩, by simp [dequeSpec]⟩

/-! ## Simulation with the linearization checker of the deque specification -/

def TS.cs : TS → CallSt LOp LRes
  | .inv op => .pending op
  | .done op r => .linearized op r
  | .retd op r => .returned op r

structure Rel (s : St) (ms : LinSt (List Nat) LOp LRes) : Prop where
  calls : ms.calls = s.th.map TS.cs
  rep : ∃ c, Rep s.mem c ∧ ms.st = c.map (·.2)
  nopanic : ∀ (t : Nat) (op : LOp), s.th[t]? ≠ some (TS.done op .panic) ∧ s.th[t]? ≠ some (TS.retd op .panic)

theorem rel_init : Rel ({} : St) (linMon dequeSpec).init :=
  ⟨rfl, ⟨[], rep_init, rfl⟩, by intro t op; simp⟩

theorem run_one {μ ο : Type} (mon : ObsMonitor ο μ) (ms ms' : μ) (x : ο) (h : mon.step ms x = some ms') :
    mon.run ms [x] = some ms' := by simp [ObsMonitor.run, h]

theorem calls_get (s : St) (ms : LinSt (List Nat) LOp LRes) (hR : Rel s ms) (t : Nat) (a : TS)
    (ha : s.th[t]? = some a) : ms.calls[t]? = some a.cs := by
  rw [hR.calls, List.getElem?_map, ha]; rfl

theorem nopanic_set (s : St) (t : Nat) (b : TS)
    (h : ∀ (u : Nat) (op : LOp), s.th[u]? ≠ some (TS.done op .panic) ∧ s.th[u]? ≠ some (TS.retd op .panic))
    (hb : ∀ op, b ≠ TS.done op .panic ∧ b ≠ TS.retd op .panic) :
    ∀ (u : Nat) (op : LOp), (s.th.set t b)[u]? ≠ some (TS.done op .panic) ∧
      (s.th.set t b)[u]? ≠ some (TS.retd op .panic) := by
  intro u op
  constructor
  · intro hu
    rcases getElem?_set_cases _ _ _ _ _ hu with ⟨_, hx⟩ | ⟨_, hx⟩
    · exact (hb op).1 hx.symm
    · exact (h u op).1 hx
  · intro hu
    rcases getElem?_set_cases _ _ _ _ _ hu with ⟨_, hx⟩ | ⟨_, hx⟩
    · exact (hb op).2 hx.symm
    · exact (h u op).2 hx

/-- **one model step is matched by the linearization checker** -/
theorem sim_step (s : St) (e : Ev) (s' : St) (ms : LinSt (List Nat) LOp LRes) (hR : Rel s ms)
    (hs : step s e = some s') :
    ∃ ms', (linMon dequeSpec).run ms (label model Obs.toH linOf s e) = some ms' ∧ Rel s' ms' := by
  have hlen : ms.calls.length = s.th.length := by rw [hR.calls]; simp
  cases e with
  | inv t op =>
    simp only [step] at hs; split at hs <;> simp at hs; subst hs
    rename_i ht
    refine ⟨{ ms with calls := ms.calls ++ [.pending op] }, run_one _ _ _ _ ?_, ?_⟩
    · simp [linMon, HEv.toL, hlen, ht.1]
    · refine ⟨by simp [hR.calls, TS.cs], hR.rep, ?_⟩
      intro u op'
      constructor <;> intro hu <;> rcases getElem?_snoc_cases _ _ _ _ hu with ⟨_, hx⟩ | ⟨_, hx⟩
      · exact (hR.nopanic u op').1 hx
      · cases hx
      · exact (hR.nopanic u op').2 hx
      · cases hx
  | exec t =>
    simp only [step] at hs
    split at hs
    · rename_i op ha
      obtain ⟨c, hrep, hst⟩ := hR.rep
      obtain ⟨m', r, c', hb, hrep', hspec⟩ := body_refines s.mem c op hrep
      split at hs
      case isFalse => simp at hs
      simp [hb] at hs; subst hs
      have hc := calls_get s ms hR t _ ha
      have hrne : r ≠ .panic := by
        intro h; subst h
        have := congrArg Prod.snd hspec
        cases op <;> simp [dequeSpec] at this <;> (try split at this) <;> simp at this
      refine ⟨{ st := c'.map (·.2), calls := ms.calls.set t (.linearized op r) }, ?_, ?_⟩
      · have h1 : (dequeSpec.apply ms.st op) = (c'.map (·.2), r) := by rw [hst]; exact hspec
        simp [label, model, Ev.obs, linOf, ha, hb, ObsMonitor.run, linMon, hc, TS.cs, h1]
      · refine ⟨by simp [hR.calls, List.map_set, TS.cs], ⟨c', hrep', rfl⟩, ?_⟩
        exact nopanic_set s t _ hR.nopanic (by
          intro op'
          constructor
          · intro h; cases h; exact hrne rfl
          · intro h; cases h)
    · simp at hs
  | ret t r =>
    simp only [step] at hs; split at hs <;> simp at hs
    obtain ⟨hr, rfl⟩ := hs
    rename_i op r' ha
    subst hr
    have hc := calls_get s ms hR t _ ha
    refine ⟨{ ms with calls := ms.calls.set t (.returned op r) }, run_one _ _ _ _ ?_, ?_⟩
    · simp [linMon, HEv.toL, hc, TS.cs]
    · refine ⟨by simp [hR.calls, List.map_set, TS.cs], hR.rep, ?_⟩
      exact nopanic_set s t _ hR.nopanic (by
        intro op'
        constructor
        · intro h; cases h
        · intro h; cases h; exact (hR.nopanic t op).1 ha)
  | envRLock =>
    simp only [step] at hs; simp at hs; subst hs
    exact ⟨ms, by simp [label, model, Ev.obs, Obs.toH, ObsMonitor.run], hR.calls, hR.rep, hR.nopanic⟩
  | envRUnlock =>
    simp only [step] at hs; split at hs <;> simp at hs; subst hs
    exact ⟨ms, by simp [label, model, Ev.obs, Obs.toH, ObsMonitor.run], hR.calls, hR.rep, hR.nopanic⟩

theorem step_cands (s s' : St) (e : Ev) (hs : step s e = some s') (ho : e.obs = none) : e ∈ cands s := by
  cases e <;> simp [Ev.obs] at ho
  rename_i t
  simp only [step] at hs
  split at hs
  · rename_i op ha
    simp only [cands, List.mem_flatMap, List.mem_range]
    exact ⟨t, lt_of_getElem? ha, by simp [ha, TS.cand]⟩
  · simp at hs

theorem chain_last_next (nodes : List Node) (p : Option Nat) (c : List (Nat × Nat))
    (h : Chain nodes p c) (tl : Nat) (ht : (c.map (·.1)).getLast? = some tl) :
    ∃ nd : Node, nodes[tl]? = some nd ∧ nd.next = none := by
  induction c generalizing p with
  | nil => simp at ht
  | cons y rest ih =>
    obtain ⟨j, w⟩ := y
    obtain ⟨_, nx, hn, hc⟩ := h
    cases rest with
    | nil =>
      simp at ht; subst ht
      exact ⟨_, hn, hc⟩
    | cons z zs =>
      simp only [List.map_cons, List.getLast?_cons_cons] at ht
      exact ih nx hc (by simpa using ht)

theorem walk_chain (nodes : List Node) (p : Option Nat) (c : List (Nat × Nat))
    (h : Chain nodes p c) (fuel : Nat) (hf : c.length ≤ fuel) : walk nodes fuel p = c.map (·.2) := by
  induction c generalizing p fuel with
  | nil =>
    have : p = none := h
    subst this
    cases fuel <;> simp [walk]
  | cons y rest ih =>
    obtain ⟨j, w⟩ := y
    obtain ⟨hp, nx, hn, hc⟩ := h
    subst hp
    cases fuel with
    | zero => simp at hf
    | succ f =>
      simp only [walk, hn, List.map_cons]
      rw [ih nx hc f (by simp at hf; omega)]

theorem abs_of_rep (m : Mem) (c : List (Nat × Nat)) (hr : Rep m c) :
    walk m.nodes m.nodes.length m.head = c.map (·.2) := by
  apply walk_chain _ _ _ hr.chain
  have hsub : c.map (·.1) ⊆ List.range m.nodes.length := by
    intro i hi
    exact List.mem_range.mpr (chain_lt _ _ _ hr.chain i hi)
  have := hr.nodup.length_le_of_subset hsub
  simpa using this

end UtilModel.LinkedList
