import UtilModel.Core.LTSHash
import UtilModel.LinkedList.Props
/-!
# LinkedList — end-to-end transfer

If the driver's trace-inclusion decision accepts a history recorded from the Go implementation, the
property monitor accepts that history: composition of the checker's soundness theorem
(`accepts_sound` / `acceptsH_sound`) with this package's observable-form property theorem.
-/
namespace UtilModel

theorem C12_accepted_linkedlist (cap fuel : Nat) (h : List LinkedList.Obs)
    (ha : LinkedList.model.acceptsH cap fuel h = true) : LinkedList.monC12.accepts h = true :=
  acceptedH_satisfies LinkedList.model (fun h => LinkedList.monC12.accepts h = true)
    LinkedList.C12_obs_linkedlist cap fuel h ha

end UtilModel
