import UtilModel.Core.LTSHash
import UtilModel.Core.LTSComplete
import UtilModel.LinkedList.Props
/-!
# LinkedList — end-to-end transfer

If the driver's trace-inclusion decision accepts a history recorded from the Go implementation, the
property monitor accepts that history: composition of the checker's soundness theorem
(`accepts_sound` / `acceptsH_sound`) with this package's observable-form property theorem.
-/
namespace UtilModel

theorem C12_accepted_linkedlist (cap fuel : Nat) (h : List LinkedList.Obs)
    (ha : LinkedList.model.acceptsH cap fuel h = true) : LinkedList.monC12.accepts h = true :=
  acceptedH_satisfies LinkedList.model (fun h => LinkedList.monC12.accepts h = true)
    LinkedList.C12_obs_linkedlist cap fuel h ha

end UtilModel

/-! ## completeness of the candidate lists — a REJECT is about the model -/
namespace UtilModel

theorem LinkedList.Ev.obs_obsEv (e : LinkedList.Ev) (o : LinkedList.Obs) (h : e.obs = some o) :
    LinkedList.obsEv o = e := by
  cases e <;> simp [LinkedList.Ev.obs] at h <;> subst h <;> rfl

/-- every enabled internal event (`exec t`) is in `cands`, and `evsOf` is the unique event showing
the observable -/
theorem complete_linkedlist : LinkedList.model.Complete :=
  ⟨fun s e s' hs ho => LinkedList.cands_complete s s' e hs ho,
   fun _ e _ o _ ho => by simp [LinkedList.model, LinkedList.Ev.obs_obsEv e o ho]⟩

/-- **A REJECT of the linkedlist correspondence is about the model.** -/
theorem reject_sound_linkedlist (cap fuel : Nat) (h : List LinkedList.Obs) (i : Nat)
    (hfail : (LinkedList.model.accRunH cap fuel [LinkedList.model.init] h 0 false 1).failedAt = some i)
    (htr : (LinkedList.model.accRunH cap fuel [LinkedList.model.init] h 0 false 1).truncated = false) :
    ¬ ∃ es s, LinkedList.model.run LinkedList.model.init es = some s ∧
      es.filterMap LinkedList.model.obs = h :=
  rejectH_sound LinkedList.model complete_linkedlist cap fuel h i hfail htr

end UtilModel
