import UtilModel.Core.Driver
import UtilModel.Core.DriverH
import UtilModel.LinkedList.Model
import UtilModel.LinkedList.Monitors
/-! Development driver for this component only: `lake env lean --run UtilModel/LinkedList/TestDriver.lean linkedlist < hist` -/
open UtilModel

def main (args : List String) : IO UInt32 :=
  driverMain [
    mkEntryH "linkedlist" LinkedList.model LinkedList.parseObs [MonEntry.ofMonitor "C12" LinkedList.monC12] (cap := 60000)
  ] args
