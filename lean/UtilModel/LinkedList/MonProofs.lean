import UtilModel.LinkedList.Monitors
/-! # LinkedList — the monitor accepts every linearizable history -/
namespace UtilModel.LinkedList
open UtilModel UtilModel.Lin

theorem dequeFlow_laws : FlowLaws dequeSpec dequeFlow (fun l => l) where
  take := by
    intro a op v
    cases op with
    | init vs => simp [dequeSpec, dequeFlow, List.count_append]
    | push w => simp [dequeSpec, dequeFlow, List.count_append]
    | pushFront w => simp [dequeSpec, dequeFlow, List.count_cons]
    | pop =>
      cases a with
      | nil => simp [dequeSpec, dequeFlow]
      | cons w l => simp [dequeSpec, dequeFlow, List.count_cons]
    | peek => cases a <;> simp [dequeSpec, dequeFlow]
    | peekTail =>
      simp only [dequeSpec]
      split <;> simp [dequeFlow]
    | isEmpty => simp [dequeSpec, dequeFlow]
    | reset => simp [dequeSpec, dequeFlow]
  see := by
    intro a op v h
    cases op with
    | peek =>
      cases a with
      | nil => simp [dequeSpec, dequeFlow] at h
      | cons w l => simp [dequeSpec, dequeFlow] at h; subst h; simp
    | peekTail =>
      simp only [dequeSpec] at h
      split at h
      · simp [dequeFlow] at h
      · rename_i w hw
        simp [dequeFlow] at h; subst h
        exact Or.inl (List.mem_of_getLast? hw)
    | init vs => simp [dequeSpec, dequeFlow] at h
    | push w => simp [dequeSpec, dequeFlow] at h
    | pushFront w => simp [dequeSpec, dequeFlow] at h
    | pop => cases a <;> simp [dequeSpec, dequeFlow] at h
    | isEmpty => simp [dequeSpec, dequeFlow] at h
    | reset => simp [dequeSpec, dequeFlow] at h
  init := rfl

theorem dequeEmpty_laws : EmptyLaws dequeSpec dequeFlow (fun l => l) where
  keep := by
    intro a op v hw _ _
    cases op with
    | init vs => simp [dequeSpec, dequeFlow, List.count_append]
    | push w => simp [dequeSpec, dequeFlow, List.count_append]
    | pushFront w => simp [dequeSpec, dequeFlow, List.count_cons]
    | pop => cases a <;> simp [dequeSpec, dequeFlow, List.count_cons]
    | peek => cases a <;> simp [dequeSpec, dequeFlow]
    | peekTail => simp only [dequeSpec]; split <;> simp [dequeFlow]
    | isEmpty => simp [dequeSpec, dequeFlow]
    | reset => simp [dequeFlow] at hw
  empty := by
    intro a op h
    left
    cases op with
    | init vs => simp [dequeSpec, dequeFlow] at h
    | push w => simp [dequeSpec, dequeFlow] at h
    | pushFront w => simp [dequeSpec, dequeFlow] at h
    | pop => cases a <;> simp [dequeSpec, dequeFlow] at h ⊢
    | peek => cases a <;> simp [dequeSpec, dequeFlow] at h ⊢
    | peekTail =>
      simp only [dequeSpec] at h
      split at h
      · rename_i hl; exact List.getLast?_eq_none_iff.mp hl
      · simp [dequeFlow] at h
    | isEmpty => cases a <;> simp [dequeSpec, dequeFlow] at h ⊢
    | reset => simp [dequeSpec, dequeFlow] at h
  empty_notake := by
    intro op r h
    cases op <;> cases r <;> simp [dequeFlow] at h ⊢
    all_goals (rename_i v ok; cases ok <;> simp at h ⊢)
  take_may := by
    intro op r v h
    cases op <;> simp [dequeFlow] at h ⊢

theorem monC12_of_linearizable (h : List Obs) (hl : Linearizable dequeSpec (h.filterMap Obs.toH)) :
    monC12.accepts h = true := by
  rw [monC12, comapOpt_accepts]
  exact container_of_linearizable dequeSpec dequeFlow _ dequeFlow_laws dequeEmpty_laws _ hl

end UtilModel.LinkedList
