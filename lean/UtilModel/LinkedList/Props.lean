import UtilModel.LinkedList.Proofs
import UtilModel.LinkedList.MonProofs
import UtilModel.Treiber.LinTextbook
/-!
# LinkedList — property theorems (C12, component `linkedlist`)

All statements are for **every** event list of the model: any number of concurrent calls, any
operation mix, any values, every order in which the method bodies acquire the list mutex.
-/
namespace UtilModel.LinkedList
open UtilModel UtilModel.Lin

/-- **`linkedlist_refines_deque` (C12), method level.** If the pointer structure represents the
element list `c` (`Rep`: the elements reachable from `head`, no cycle or sharing, `tail` = the last
one), then the body of every method — `NewLinkedList(vs…)`, `Push`, `PushFront`, `Pop`, `Peek`,
`PeekTail`, `IsEmpty`, `Reset`, with the pointer manipulation as written — never dereferences a
non-element, re-establishes `Rep`, and changes the denoted `List` and returns exactly as the
sequential double-ended queue `dequeSpec` does. -/
theorem linkedlist_refines_deque (m : Mem) (c : List (Nat × Nat)) (op : LOp) (hr : Rep m c) :
    ∃ m' r c', body m op = some (m', r) ∧ Rep m' c' ∧
      dequeSpec.apply (c.map (·.2)) op = (c'.map (·.2), r) :=
  body_refines m c op hr

/-- the decorated trace of a run: observables plus a marker at every method body -/
def decorated (es : List Ev) : List (LEv LOp LRes) := decorate model Obs.toH linOf model.init es

/-- **`linkedlist_refines_deque` (C12), trace level.** For every run the decorated trace is accepted
by the linearization checker of the deque specification — every method body is a linearization
point between its own call's `inv` and `ret`, and every call returns what the sequential deque
returns at that point — and the final pointer structure represents exactly the final abstract
list. -/
theorem linkedlist_refines_deque_run (es : List Ev) (s : St) (h : model.run model.init es = some s) :
    ∃ ms c, (linMon dequeSpec).run (linMon dequeSpec).init (decorated es) = some ms ∧
      Rep s.mem c ∧ ms.st = c.map (·.2) := by
  obtain ⟨ms, hm, hR⟩ := decorate_sim model dequeSpec Obs.toH linOf Rel
    (fun s e s' ms hR hs => sim_step s e s' ms hR hs) es model.init _ s rel_init h
  obtain ⟨c, hc, hst⟩ := hR.rep
  exact ⟨ms, c, hm, hc, hst⟩

/-- **Head/tail consistency** in every reachable state: `head = nil ↔ tail = nil ↔` the list is
empty; otherwise `head` is the first and `tail` the last element reachable from `head`, and the last
element's `next` is `nil`. -/
theorem head_tail_consistent (es : List Ev) (s : St) (h : model.run model.init es = some s) :
    ∃ c, Rep s.mem c ∧
      (s.mem.head = none ↔ c = []) ∧ (s.mem.tail = none ↔ c = []) ∧
      s.mem.head = (c.map (·.1)).head? ∧ s.mem.tail = (c.map (·.1)).getLast? ∧
      (∀ tl, s.mem.tail = some tl → ∃ nd, s.mem.nodes[tl]? = some nd ∧ nd.next = none) := by
  obtain ⟨_, c, _, hc, _⟩ := linkedlist_refines_deque_run es s h
  refine ⟨c, hc, chain_nil_head _ _ _ hc.chain, ?_, ?_, hc.tail, ?_⟩
  · rw [hc.tail]; simp
  · cases c with
    | nil => exact hc.chain
    | cons y rest => obtain ⟨j, w⟩ := y; exact hc.chain.1
  · intro tl ht
    exact chain_last_next _ _ _ hc.chain tl (by rw [← hc.tail]; exact ht)

/-- **C12 (observable form).** Every observable trace of the model is a linearizable deque history. -/
theorem linkedlist_linearizable (es : List Ev) (s : St) (h : model.run model.init es = some s) :
    Linearizable dequeSpec ((es.filterMap model.obs).filterMap Obs.toH) :=
  linearizable_of_sim model dequeSpec Obs.toH linOf Rel rel_init
    (fun s e s' ms hR hs => sim_step s e s' ms hR hs) es s h

/-- **`lincheck_sound` (C12).** A history that the driver accepts (trace inclusion in this model,
for any exploration bounds) is linearizable w.r.t. the sequential deque. -/
theorem lincheck_sound (cap fuel : Nat) (h : List Obs) (ha : model.accepts cap fuel h = true) :
    Linearizable dequeSpec (h.filterMap Obs.toH) :=
  accepted_satisfies model (fun h => Linearizable dequeSpec (h.filterMap Obs.toH))
    (fun es s hr => linkedlist_linearizable es s hr) cap fuel h ha

/-- …in the classical sense (legal sequential history, every completed call with its result,
real-time order respected). -/
theorem lincheck_sound_textbook (cap fuel : Nat) (h : List Obs) (ha : model.accepts cap fuel h = true) :
    TextbookLinearizable dequeSpec (h.filterMap Obs.toH) :=
  linearizable_textbook dequeSpec _ (lincheck_sound cap fuel h ha)

/-- **No method panics** (no dereference of a non-element). -/
theorem no_panic (es : List Ev) (s : St) (h : model.run model.init es = some s) (t : Nat) (op : LOp) :
    s.th[t]? ≠ some (.done op .panic) ∧ s.th[t]? ≠ some (.retd op .panic) := by
  obtain ⟨ms, _, hR⟩ := decorate_sim model dequeSpec Obs.toH linOf Rel
    (fun s e s' ms hR hs => sim_step s e s' ms hR hs) es model.init _ s rel_init h
  exact hR.nopanic t op

/-- **C12 (monitor form).** Every observable trace of the model is accepted by `monC12`: element flow
(nothing popped twice / out of thin air, peeked values were offered) and emptiness (`Pop`/`Peek`/
`PeekTail` = `(_, false)` and `IsEmpty` = true only if the list can be empty during the call). -/
theorem C12_obs_linkedlist (es : List Ev) (s : St) (h : model.run model.init es = some s) :
    monC12.accepts (es.filterMap model.obs) = true :=
  monC12_of_linearizable _ (linkedlist_linearizable es s h)

/-- **The executable abstraction agrees**: following `next` from `head` yields the abstract list. -/
theorem abs_eq (es : List Ev) (s : St) (h : model.run model.init es = some s) :
    ∃ c, Rep s.mem c ∧ abs s = c.map (·.2) := by
  obtain ⟨_, c, _, hc, _⟩ := linkedlist_refines_deque_run es s h
  exact ⟨c, hc, abs_of_rep s.mem c hc⟩

/-- **Every mutating method needs the write lock**: while the environment holds a read lock on
`l.mtx`, only the bodies of the read-only methods can run. (This is what makes a mutating method
downgraded to `RLock` visible to the correspondence check deterministically.) -/
theorem mutator_excluded_by_reader (s s' : St) (t : Nat) (op : LOp) (hs : step s (.exec t) = some s')
    (ht : s.th[t]? = some (.inv op)) (hr : 0 < s.envR) : op.readOnly = true := by
  simp only [step, ht] at hs
  split at hs
  · rename_i h; rcases h with h | h
    · omega
    · exact h
  · simp at hs

/-- every enabled internal event is a candidate the driver tries -/
theorem cands_complete (s s' : St) (e : Ev) (hs : step s e = some s') (ho : e.obs = none) :
    e ∈ cands s :=
  step_cands s s' e hs ho

/-- elements are conserved by every method except `Reset`/`Pop` (which remove by design): the
abstract-list form of "nothing lost or duplicated" — the sequential deque never duplicates or invents
an element, and `linkedlist_refines_deque` transfers it to the pointer structure. -/
theorem deque_conservation (l : List Nat) (op : LOp) (v : Nat) :
    ((dequeSpec.apply l op).1).count v + ((dequeFlow.taken op (dequeSpec.apply l op).2).toList).count v
      = l.count v + (dequeFlow.offered op).count v ∨ op = .reset := by
  cases op with
  | init vs => left; simp [dequeSpec, dequeFlow, List.count_append]
  | push w => left; simp [dequeSpec, dequeFlow, List.count_append]
  | pushFront w => left; simp [dequeSpec, dequeFlow, List.count_cons]
  | pop => left; cases l <;> simp [dequeSpec, dequeFlow, List.count_cons]
  | peek => left; cases l <;> simp [dequeSpec, dequeFlow]
  | peekTail => left; simp only [dequeSpec]; split <;> simp [dequeFlow]
  | isEmpty => left; simp [dequeSpec, dequeFlow]
  | reset => right; rfl

/-! ## The hypotheses are satisfiable / the model does something non-trivial -/

example : ∃ s, model.run model.init
    [.inv 0 (.init [1, 2]), .exec 0, .ret 0 .ack, .inv 1 (.pushFront 3), .inv 2 (.push 4), .inv 3 .pop,
     .exec 2, .exec 3, .exec 1, .ret 3 (.val 1 true), .ret 1 .ack, .ret 2 .ack] = some s ∧ abs s = [3, 2, 4] := by
  refine ⟨_, rfl, by decide⟩

/-- Pop of the last element resets `tail`; a following Push starts a fresh list -/
example : ∃ s, model.run model.init
    [.inv 0 (.push 1), .exec 0, .inv 1 .pop, .exec 1, .inv 2 (.push 2), .exec 2, .inv 3 .peekTail, .exec 3,
     .ret 3 (.val 2 true)] = some s ∧ abs s = [2] ∧ s.mem.head = s.mem.tail := by
  refine ⟨_, rfl, by decide, by decide⟩

/-- a non-linearizable history is rejected: Peek must not see an element pushed behind another -/
example : model.accepts 1000 100
    [.call (.inv 0 (.push 1)), .call (.ret 0 .ack), .call (.inv 1 (.push 2)), .call (.ret 1 .ack),
     .call (.inv 2 .peek), .call (.ret 2 (.val 2 true))] = false := by
  decide

/-- a Push that returns while the environment holds a read lock is rejected; after the unlock it
is accepted -/
example : model.accepts 1000 100
    [.envRLock, .call (.inv 0 (.push 1)), .call (.ret 0 .ack), .envRUnlock] = false := by decide
example : model.accepts 1000 100
    [.envRLock, .call (.inv 0 (.push 1)), .envRUnlock, .call (.ret 0 .ack)] = true := by decide

end UtilModel.LinkedList
