import UtilModel.Seq.Common
/-!
# iocloser.ReadCloser / WriteCloser — model (iocloser/read-closer.go, write-closer.go)

State = "stream field non-nil", "close field non-nil" and the program counter of the call in
progress. `Close` nils both fields inside its critical section (modelled at the `call close` line:
the caller is sequential, `Close` racing `Read` belongs to C13) and then calls the saved close
function, if any.

    new r|w ST CF                 NewReadCloser / NewWriteCloser; ST = 1 iff the stream is non-nil, CF = 1 iff the close func is non-nil
    call read LEN                 Read(p) invoked, len(p) = LEN
    cb read LEN N ERR b1 … bN     the wrapped Read was reached, returns (N, ERR) having stored b1 … bN in p
    ret read N ERR b1 … bN        Read returned (N, ERR), p[:N] = b1 … bN
    call write b1 … bL            Write(p) invoked
    cb write N ERR b1 … bL        the wrapped Write was reached with p = b1 … bL and returns (N, ERR)
    ret write N ERR               Write returned (N, ERR)
    call close                    Close() invoked
    cb closefn ERR                the close function was called and returns ERR
    ret close ERR                 Close returned ERR

Ghost fields (never read by `step`'s guards): `closeCalls`, `fnCalls`, `hadFn`, `touched` (a wrapped
stream call happened after the first `Close` was invoked).
-/
namespace UtilModel.Seq.IOCloser

inductive Obs where
  | new (wr st cf : Bool)
  | callRead (len : Nat)
  | cbRead (len n err : Nat) (data : List Nat)
  | retRead (n err : Nat) (data : List Nat)
  | callWrite (data : List Nat)
  | cbWrite (n : Int) (err : Nat) (data : List Nat)
  | retWrite (n : Int) (err : Nat)
  | callClose
  | cbCloseFn (err : Nat)
  | retClose (err : Nat)
deriving DecidableEq, Repr

inductive Cur where
  | idle
  | reading (len : Nat)
  | gotRead (n err : Nat) (data : List Nat)
  | writing (data : List Nat)
  | gotWrite (n : Int) (err : Nat)
  | closing (fn : Bool)        -- critical section of Close done; `fn` = a close func was saved
  | closeRan (err : Nat)       -- the close func returned `err`
deriving DecidableEq, Repr

structure St where
  live : Bool := false
  wr : Bool := false           -- WriteCloser (true) or ReadCloser (false)
  st : Bool := false           -- `rd` / `wr` field non-nil
  cf : Bool := false           -- `close` field non-nil
  cur : Cur := .idle
  -- ghosts
  hadFn : Bool := false        -- constructed with a non-nil close func
  closeCalls : Nat := 0        -- Close invocations so far
  fnCalls : Nat := 0           -- close func calls so far
  touched : Bool := false      -- wrapped stream reached after a Close was invoked
deriving DecidableEq, Repr

def step (s : St) : Obs → Option St
  | .new wr st cf =>
    if s.cur = .idle then some { live := true, wr := wr, st := st, cf := cf, hadFn := cf } else none
  | .callRead len =>
    if s.live ∧ s.wr = false ∧ s.cur = .idle then some { s with cur := .reading len } else none
  | .cbRead len n err data =>
    match s.cur with
    | .reading l =>
      if len = l ∧ s.st = true ∧ data.length = n ∧ n ≤ len then
        some { s with cur := .gotRead n err data, touched := s.touched || decide (0 < s.closeCalls) }
      else none
    | _ => none
  | .retRead n err data =>
    match s.cur with
    | .gotRead n' e' d' => if n = n' ∧ err = e' ∧ data = d' then some { s with cur := .idle } else none
    | .reading _ =>
      -- `w.rd == nil`: `return 0, io.EOF`
      if s.st = false ∧ n = 0 ∧ err = errEOF ∧ data = [] then some { s with cur := .idle } else none
    | _ => none
  | .callWrite data =>
    if s.live ∧ s.wr = true ∧ s.cur = .idle then some { s with cur := .writing data } else none
  | .cbWrite n err data =>
    match s.cur with
    | .writing d =>
      if data = d ∧ s.st = true then
        some { s with cur := .gotWrite n err, touched := s.touched || decide (0 < s.closeCalls) }
      else none
    | _ => none
  | .retWrite n err =>
    match s.cur with
    | .gotWrite n' e' => if n = n' ∧ err = e' then some { s with cur := .idle } else none
    | .writing _ =>
      if s.st = false ∧ n = 0 ∧ err = errEOF then some { s with cur := .idle } else none
    | _ => none
  | .callClose =>
    if s.live ∧ s.cur = .idle then
      some { s with cur := .closing s.cf, st := false, cf := false, closeCalls := s.closeCalls + 1 }
    else none
  | .cbCloseFn err =>
    match s.cur with
    | .closing true => some { s with cur := .closeRan err, fnCalls := s.fnCalls + 1 }
    | _ => none
  | .retClose err =>
    match s.cur with
    | .closeRan e => if err = e then some { s with cur := .idle } else none
    | .closing false => if err = errNil then some { s with cur := .idle } else none
    | _ => none

def model : OLTS St Obs Obs := detModel {} step

def Obs.parse : List String → Option Obs
  | ["new", k, st, cf] => do
    let wr ← (match k with | "r" => some false | "w" => some true | _ => none)
    pure (.new wr (← parseBit st) (← parseBit cf))
  | ["call", "read", l] => do pure (.callRead (← l.toNat?))
  | "cb" :: "read" :: l :: n :: e :: bs => do
    pure (.cbRead (← l.toNat?) (← n.toNat?) (← e.toNat?) (← parseNats bs))
  | "ret" :: "read" :: n :: e :: bs => do pure (.retRead (← n.toNat?) (← e.toNat?) (← parseNats bs))
  | "call" :: "write" :: bs => do pure (.callWrite (← parseNats bs))
  | "cb" :: "write" :: n :: e :: bs => do pure (.cbWrite (← n.toInt?) (← e.toNat?) (← parseNats bs))
  | ["ret", "write", n, e] => do pure (.retWrite (← n.toInt?) (← e.toNat?))
  | ["call", "close"] => some .callClose
  | ["cb", "closefn", e] => do pure (.cbCloseFn (← e.toNat?))
  | ["ret", "close", e] => do pure (.retClose (← e.toNat?))
  | _ => none

end UtilModel.Seq.IOCloser
