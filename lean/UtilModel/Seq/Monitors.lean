import UtilModel.Core.Monitor
import UtilModel.Seq.IOSeek
import UtilModel.Seq.IOSizer
import UtilModel.Seq.IOCloser
import UtilModel.Seq.IOProxy
import UtilModel.Seq.Unique
/-!
# Property C20 as executable monitors over the observable lines

One monitor per helper; every one is registered under the name `C20`. They state the clauses of
the property directly on the logged calls/results, in *mathematical* terms (unbounded integers, a
running sum, counters, a replayed copy of the contents) — not by running the model. Where the
property presupposes a well-behaved environment (the wrapped `ReaderAt` stays inside the section, byte
counts lie in the range the sizer counts) the monitor stops judging once the environment has left
that contract (`void`): those hypotheses are the visible ones of the state-level theorems.
-/
namespace UtilModel.Seq

/-! ## ioseek: a bounded section reader over `[0, size]` -/

structure SeekM where
  /-- nothing (more) to judge: no object yet, `size < 0`, or the wrapped ReaderAt left its contract -/
  void : Bool := true
  size : Int := 0
  pos : Int := 0
  cur : IOSeek.Cur := .idle
deriving Repr

/-- reference: position arithmetic in ℤ, no wrap-around. A Seek succeeds iff whence is 0/1/2 and the
target lies in `[0, size]`; then it returns the target and moves there. Otherwise it must fail and
the position stays. Read must call ReadAt at the position and advance by the returned count. -/
def monC20Seek : ObsMonitor IOSeek.Obs SeekM where
  init := {}
  step := fun ms o =>
    match o with
    | .new size =>
      if 0 ≤ size ∧ size < IOSeek.two63 then some { void := false, size := size } else some {}
    | .seek off wh res err =>
      if ms.void then some ms
      else if ms.cur ≠ .idle then none
      else if wh = 0 ∨ wh = 1 ∨ wh = 2 then
        let t := (if wh = 0 then 0 else if wh = 1 then ms.pos else ms.size) + off
        if 0 ≤ t ∧ t ≤ ms.size then
          if err = 0 ∧ res = t then some { ms with pos := t } else none
        else if err ≠ 0 then some ms else none
      else if err ≠ 0 then some ms else none
    | .callRead len =>
      if ms.void then some ms
      else if ms.cur = .idle then some { ms with cur := .reading len } else none
    | .readAt len off n err =>
      if ms.void then some ms
      else if ms.cur = .reading len ∧ off = ms.pos then
        if 0 ≤ n ∧ n ≤ len ∧ ms.pos + n ≤ ms.size then some { ms with cur := .gotRead n err }
        else some { ms with void := true }
      else none
    | .retRead n err =>
      if ms.void then some ms
      else if ms.cur = .gotRead n err then some { ms with pos := ms.pos + n, cur := .idle } else none

/-! ## iosizer: running sum of the returned byte counts -/

structure SizerM where
  void : Bool := true
  hasR : Bool := false
  hasW : Bool := false
  sum : Int := 0
  cur : IOSizer.Cur := .idle
deriving Repr

def SizerM.has (s : SizerM) (wr : Bool) : Bool := if wr then s.hasW else s.hasR

/-- `TotalSize` = Σ of the counts Read/Write *returned* (mod 2^64), as long as every count lies in
`[0, MaxUint32]`; a call reaches the wrapped stream exactly once with the same buffer length and its
result is passed through; a nil stream yields `(0, EOF)` without any wrapped call. -/
def monC20Sizer : ObsMonitor IOSizer.Obs SizerM where
  init := {}
  step := fun ms o =>
    match o with
    | .new r w => some { void := false, hasR := r, hasW := w }
    | .call wr len =>
      if ms.void then some ms
      else if ms.cur = .idle then some { ms with cur := .calling wr len } else none
    | .cb wr len n err =>
      if ms.void then some ms
      else if ms.cur = .calling wr len ∧ ms.has wr then some { ms with cur := .got wr n err } else none
    | .ret wr n err =>
      if ms.void then some ms
      else if ms.cur = .got wr n err then
        if 0 ≤ n ∧ n ≤ IOSizer.maxU32 then some { ms with sum := ms.sum + n, cur := .idle }
        else some { ms with void := true }
      else
        match ms.cur with
        | .calling wr' _ =>
          if wr = wr' ∧ ms.has wr = false ∧ n = 0 ∧ err = errEOF then some { ms with cur := .idle } else none
        | _ => none
    | .total t =>
      if ms.void then some ms
      else if ms.cur = .idle ∧ t = ms.sum % IOSizer.two64 then some ms else none

/-! ## iocloser: pass-through until Close, close func once, EOF and silence afterwards -/

structure CloserM where
  live : Bool := false
  hasSt : Bool := false
  hasFn : Bool := false
  /-- a Close has been invoked -/
  closed : Bool := false
  fnCount : Nat := 0
  cur : IOCloser.Cur := .idle
deriving Repr

def monC20Closer : ObsMonitor IOCloser.Obs CloserM where
  init := {}
  step := fun ms o =>
    match o with
    | .new _ st cf => some { live := true, hasSt := st, hasFn := cf }
    | .callRead len =>
      if !ms.live then some ms
      else if ms.cur = .idle then some { ms with cur := .reading len } else none
    | .cbRead len n err data =>
      if !ms.live then some ms
      -- the wrapped stream is reached only before the first Close, with the caller's buffer
      else if ms.closed = false ∧ ms.hasSt ∧ ms.cur = .reading len then some { ms with cur := .gotRead n err data }
      else none
    | .retRead n err data =>
      if !ms.live then some ms
      else
        match ms.cur with
        | .gotRead n' e' d' => if n = n' ∧ err = e' ∧ data = d' then some { ms with cur := .idle } else none
        | .reading _ =>
          -- nothing was reached: only allowed after Close (or without a stream), and then it is EOF
          if (ms.closed ∨ ms.hasSt = false) ∧ n = 0 ∧ err = errEOF ∧ data = [] then some { ms with cur := .idle }
          else none
        | _ => none
    | .callWrite data =>
      if !ms.live then some ms
      else if ms.cur = .idle then some { ms with cur := .writing data } else none
    | .cbWrite n err data =>
      if !ms.live then some ms
      else if ms.closed = false ∧ ms.hasSt ∧ ms.cur = .writing data then some { ms with cur := .gotWrite n err }
      else none
    | .retWrite n err =>
      if !ms.live then some ms
      else
        match ms.cur with
        | .gotWrite n' e' => if n = n' ∧ err = e' then some { ms with cur := .idle } else none
        | .writing _ =>
          if (ms.closed ∨ ms.hasSt = false) ∧ n = 0 ∧ err = errEOF then some { ms with cur := .idle } else none
        | _ => none
    | .callClose =>
      if !ms.live then some ms
      else if ms.cur = .idle then
        -- the close func is owed by the first Close only
        some { ms with closed := true, cur := .closing (ms.hasFn && !ms.closed) }
      else none
    | .cbCloseFn err =>
      if !ms.live then some ms
      else if ms.cur = .closing true ∧ ms.fnCount = 0 then some { ms with fnCount := 1, cur := .closeRan err }
      else none
    | .retClose err =>
      if !ms.live then some ms
      else
        match ms.cur with
        | .closeRan e => if err = e ∧ ms.fnCount = 1 then some { ms with cur := .idle } else none
        | .closing false =>
          if err = errNil ∧ (ms.hasFn → ms.fnCount = 1) then some { ms with cur := .idle } else none
        | _ => none

/-! ## ioproxy: every chunk read is offered to the other side, once, in order; both ends closed;
callback twice -/

structure DirM where
  /-- chunk read from the source and not yet offered to the destination, with the read's error -/
  pending : Option (List Nat × Nat) := none
  /-- the copy loop of this direction has ended -/
  stopped : Bool := false
deriving Repr, DecidableEq

structure ProxyM where
  live : Bool := false
  hasCb : Bool := false
  a : DirM := {}   -- 1 → 2
  b : DirM := {}   -- 2 → 1
  c1 : Nat := 0
  c2 : Nat := 0
  cbs : Nat := 0
deriving Repr

def ProxyM.nStopped (ms : ProxyM) : Nat := (if ms.a.stopped then 1 else 0) + (if ms.b.stopped then 1 else 0)

def dirRead (d : DirM) (err : Nat) (data : List Nat) : Option DirM :=
  if d.stopped = false ∧ d.pending = none then
    if data ≠ [] then some { d with pending := some (data, err) }
    else if err ≠ 0 then some { d with stopped := true }
    else some d
  else none

def dirWrite (d : DirM) (n : Int) (err : Nat) (data : List Nat) : Option DirM :=
  match d.pending with
  | some (chunk, er) =>
    if data = chunk then
      some { pending := none, stopped := IOProxy.stopsAfterWrite chunk.length n err er }
    else none
  | none => none

def monC20Proxy : ObsMonitor IOProxy.Obs ProxyM where
  init := {}
  step := fun ms o =>
    match o with
    | .new cb => if ms.live then none else some { live := true, hasCb := cb }
    | .read st err data =>
      if st = 1 then (dirRead ms.a err data).map fun d => { ms with a := d }
      else if st = 2 then (dirRead ms.b err data).map fun d => { ms with b := d }
      else none
    | .write st n err data =>
      if st = 2 then (dirWrite ms.a n err data).map fun d => { ms with a := d }
      else if st = 1 then (dirWrite ms.b n err data).map fun d => { ms with b := d }
      else none
    | .close st =>
      -- a stream is closed only by a pump whose copy loop has ended, once per pump
      if st = 1 then (if ms.c1 + 1 ≤ ms.nStopped then some { ms with c1 := ms.c1 + 1 } else none)
      else if st = 2 then (if ms.c2 + 1 ≤ ms.nStopped then some { ms with c2 := ms.c2 + 1 } else none)
      else none
    | .cbk =>
      -- the k-th callback comes after k closes of either stream
      if ms.hasCb ∧ ms.cbs + 1 ≤ ms.c1 ∧ ms.cbs + 1 ≤ ms.c2 then some { ms with cbs := ms.cbs + 1 } else none
    | .quiesce =>
      if ms.live ∧ ms.a.stopped ∧ ms.b.stopped ∧ ms.a.pending = none ∧ ms.b.pending = none
          ∧ ms.c1 = 2 ∧ ms.c2 = 2 ∧ ms.cbs = (if ms.hasCb then 2 else 0) then some ms
      else none

/-! ## unique: notifications are legitimate, and replaying them tracks the contents -/

namespace Unique

inductive Call where
  | set (items : List (Nat × Nat))
  | append (items : List (Nat × Nat))
  | remove (ks : List Nat)
deriving Repr, DecidableEq

def Call.hasItem : Call → Nat → Nat → Bool
  | .set items, k, v | .append items, k, v => items.contains (k, v)
  | .remove _, _, _ => false

def Call.mayRemove : Call → Nat → Bool
  | .set items, k => !inKeys items k
  | .append _, _ => false
  | .remove ks, k => ks.contains k

/-- is this notification legitimate for call `c` when the listener's copy maps the key to `cur`? -/
def noteOkAt (m : Nat) (c : Call) (cur : Option Nat) : Note → Bool
  | .added k v => cur.isNone && c.hasItem k v
  | .updated k v => (match cur with | some e => !cmpFn m k v e | none => false) && c.hasItem k v
  | .removed k v => cur == some v && c.mayRemove k

/-- the last value given for key `k` in an argument list -/
def lastVal : List (Nat × Nat) → Nat → Option Nat
  | [], _ => none
  | (k', v) :: rest, k =>
    match lastVal rest k with
    | some x => some x
    | none => if k' = k then some v else none

/-- after the call the value under `k` is the last one given, or one the compare function calls equal to it -/
def keyOk (m : Nat) (items : List (Nat × Nat)) (f : Nat → Option Nat) (k : Nat) : Bool :=
  match f k, lastVal items k with
  | some e, some v => e == v || cmpFn m k v e
  | _, _ => false

def finalOk (m : Nat) (c : Call) (cur : AL) : Bool :=
  match c with
  | .set items => items.all (fun p => keyOk m items (look cur) p.1) && (keys cur).all (inKeys items)
  | .append items => items.all (fun p => keyOk m items (look cur) p.1)
  | .remove ks => ks.all (fun k => (look cur k).isNone)

structure UniqM where
  live : Bool := false
  mode : Nat := 0
  /-- the listener's copy: initial contents with every notification so far replayed on it -/
  cur : AL := []
  call : Option Call := none
deriving Repr

def startCall (ms : UniqM) (c : Call) : Option UniqM :=
  if !ms.live then some ms
  else if ms.call = none then some { ms with call := some c } else none

end Unique

open Unique in
def monC20Unique : ObsMonitor Unique.Obs UniqM where
  init := {}
  step := fun ms o =>
    match o with
    | .new _ mode items => some { live := true, mode := mode, cur := initial items }
    | .callSet items => startCall ms (.set items)
    | .callAppend items => startCall ms (.append items)
    | .callRmVals items => startCall ms (.remove (items.map (·.1)))
    | .callRmKeys ks => startCall ms (.remove ks)
    | .chg k v added removed =>
      if !ms.live then some ms
      else
        match ms.call, noteOf k v added removed with
        | some c, some n =>
          if noteOkAt ms.mode c (look ms.cur k) n then some { ms with cur := n.apply ms.cur } else none
        | _, _ => none
    | .ret =>
      if !ms.live then some ms
      else
        match ms.call with
        | some c => if finalOk ms.mode c ms.cur then some { ms with call := none } else none
        | none => none
    | .keys ks =>
      if !ms.live then some ms
      else if ms.call = none ∧ ks.isPerm (keys ms.cur) then some ms else none
    | .vals vs =>
      if !ms.live then some ms
      else if ms.call = none ∧ vs.isPerm (ms.cur.map (·.2)) then some ms else none

end UtilModel.Seq
