import UtilModel.Core.LTS
import UtilModel.Core.Monitor
/-!
# Sequential helpers (property C20): shared vocabulary

Every model of this package is a small *deterministic* state machine over the lines the harness
logs: one `call …` line before an API call, one `ret …` line after it returned (a call that cannot
reach a callback is logged as a single line with arguments and results), and one `cb …` line for
every call of the real code that reaches the wrapped stream / a user callback (logged inside the
callback, with the result the harness-controlled callback is about to return). Every event is
observable, so `Ev = Obs`, `obs = some`, `cands = []`, `evsOf _ o = [o]` and trace inclusion is
op-sequence equality: `step` accepts a line iff the model computes the same result.

Error values are small naturals: `0` = nil, `1` = `io.EOF`, everything else is a distinct error
made up by the harness (or one of the fixed error values of the helper under test).
-/
namespace UtilModel.Seq

abbrev errNil : Nat := 0
abbrev errEOF : Nat := 1

def parseNats : List String → Option (List Nat)
  | [] => some []
  | x :: xs => do let n ← x.toNat?; let r ← parseNats xs; pure (n :: r)

def parseBit : String → Option Bool
  | "0" => some false
  | "1" => some true
  | _ => none

/-- pairs `k v k v …` -/
def parsePairs : List String → Option (List (Nat × Nat))
  | [] => some []
  | [_] => none
  | k :: v :: rest => do
    let k ← k.toNat?; let v ← v.toNat?; let r ← parsePairs rest; pure ((k, v) :: r)

/-- the deterministic, fully observable transition system of a step function -/
def detModel {σ ο : Type} (init : σ) (step : σ → ο → Option σ) : OLTS σ ο ο where
  init := init
  step := step
  obs := some
  cands := fun _ => []
  evsOf := fun _ o => [o]

theorem detModel_obsTrace {σ ο : Type} (init : σ) (step : σ → ο → Option σ) (es : List ο) :
    es.filterMap (detModel init step).obs = es := by
  induction es with
  | nil => rfl
  | cons e es ih => simp [detModel] at ih ⊢

end UtilModel.Seq
