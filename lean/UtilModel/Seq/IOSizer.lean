import UtilModel.Seq.Common
/-!
# iosizer.SizeReadWriter — model (iosizer/iosizer.go)

State = which of the two wrapped streams is non-nil, the `atomic.Uint64` total (with its wrap-around
modulo 2^64 explicit) and the program counter of a call in progress.

    new R W                  NewSizeReadWriter(rdr, wtr); R/W = 1 iff the stream is non-nil
    call read LEN            Read(p) invoked              (same with `write`)
    cb read LEN N ERR        the wrapped Read was reached with len(p) = LEN and returns (N, ERR)
    ret read N ERR           Read returned (N, ERR)
    total T                  TotalSize() returned T

The code adds `n` only when `0 < n ≤ math.MaxUint32` (iosizer.go:34, :46). The model does the same; the
ghost fields `sum` (mathematical sum of every returned count) and `guardOk` (every returned count was
in `[0, MaxUint32]`) make that guard the visible hypothesis of `total = Σ n`.
-/
namespace UtilModel.Seq.IOSizer

def maxU32 : Int := 4294967295
def two64 : Int := 18446744073709551616

inductive Obs where
  | new (r w : Bool)
  | call (wr : Bool) (len : Nat)
  | cb (wr : Bool) (len : Nat) (n : Int) (err : Nat)
  | ret (wr : Bool) (n : Int) (err : Nat)
  | total (t : Int)
deriving DecidableEq, Repr

inductive Cur where
  | idle
  | calling (wr : Bool) (len : Nat)
  | got (wr : Bool) (n : Int) (err : Nat)
deriving DecidableEq, Repr

structure St where
  live : Bool := false
  hasR : Bool := false
  hasW : Bool := false
  total : Int := 0
  cur : Cur := .idle
  /-- ghost: mathematical sum of all byte counts returned by Read/Write so far -/
  sum : Int := 0
  /-- ghost: every byte count returned so far was within `[0, MaxUint32]` -/
  guardOk : Bool := true
deriving DecidableEq, Repr

def St.has (s : St) (wr : Bool) : Bool := if wr then s.hasW else s.hasR

/-- `if n > 0 && n <= math.MaxUint32 { s.total.Add(uint64(n)) }` -/
def addTotal (total n : Int) : Int :=
  if 0 < n ∧ n ≤ maxU32 then (total + n) % two64 else total

def inGuard (n : Int) : Bool := decide (0 ≤ n) && decide (n ≤ maxU32)

def step (s : St) : Obs → Option St
  | .new r w => if s.cur = .idle then some { live := true, hasR := r, hasW := w } else none
  | .call wr len => if s.live ∧ s.cur = .idle then some { s with cur := .calling wr len } else none
  | .cb wr len n err =>
    match s.cur with
    | .calling wr' len' =>
      if wr = wr' ∧ len = len' ∧ s.has wr then some { s with cur := .got wr n err } else none
    | _ => none
  | .ret wr n err =>
    match s.cur with
    | .got wr' n' e' =>
      if wr = wr' ∧ n = n' ∧ err = e' then
        some { s with cur := .idle, total := addTotal s.total n, sum := s.sum + n,
                      guardOk := s.guardOk && inGuard n }
      else none
    | .calling wr' _ =>
      -- nil stream: `return 0, io.EOF` without reaching anything
      if wr = wr' ∧ s.has wr = false ∧ n = 0 ∧ err = errEOF then some { s with cur := .idle } else none
    | .idle => none
  | .total t => if s.live ∧ s.cur = .idle ∧ t = s.total then some s else none

def model : OLTS St Obs Obs := detModel {} step

def parseRW : String → Option Bool
  | "read" => some false
  | "write" => some true
  | _ => none

def Obs.parse : List String → Option Obs
  | ["new", r, w] => do pure (.new (← parseBit r) (← parseBit w))
  | ["call", k, l] => do pure (.call (← parseRW k) (← l.toNat?))
  | ["cb", k, l, n, e] => do pure (.cb (← parseRW k) (← l.toNat?) (← n.toInt?) (← e.toNat?))
  | ["ret", k, n, e] => do pure (.ret (← parseRW k) (← n.toInt?) (← e.toNat?))
  | ["total", t] => do pure (.total (← t.toInt?))
  | _ => none

end UtilModel.Seq.IOSizer
