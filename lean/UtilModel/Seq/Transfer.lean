import UtilModel.Core.LTSHash
import UtilModel.Core.LTSComplete
import UtilModel.Seq.Props
/-!
# Seq — end-to-end transfer

If the driver's trace-inclusion decision accepts a history recorded from the Go implementation, the
property monitor accepts that history: composition of the checker's soundness theorem
(`accepts_sound` / `acceptsH_sound`) with this package's observable-form property theorem.
-/
namespace UtilModel

theorem C20_accepted_ioseek (cap fuel : Nat) (h : List Seq.IOSeek.Obs)
    (ha : Seq.IOSeek.model.accepts cap fuel h = true) : Seq.monC20Seek.accepts h = true :=
  accepted_satisfies Seq.IOSeek.model (fun h => Seq.monC20Seek.accepts h = true)
    Seq.IOSeek.C20_obs_ioseek cap fuel h ha

theorem C20_accepted_iosizer (cap fuel : Nat) (h : List Seq.IOSizer.Obs)
    (ha : Seq.IOSizer.model.accepts cap fuel h = true) : Seq.monC20Sizer.accepts h = true :=
  accepted_satisfies Seq.IOSizer.model (fun h => Seq.monC20Sizer.accepts h = true)
    Seq.IOSizer.C20_obs_iosizer cap fuel h ha

theorem C20_accepted_iocloser (cap fuel : Nat) (h : List Seq.IOCloser.Obs)
    (ha : Seq.IOCloser.model.accepts cap fuel h = true) : Seq.monC20Closer.accepts h = true :=
  accepted_satisfies Seq.IOCloser.model (fun h => Seq.monC20Closer.accepts h = true)
    Seq.IOCloser.C20_obs_iocloser cap fuel h ha

theorem C20_accepted_ioproxy (cap fuel : Nat) (h : List Seq.IOProxy.Obs)
    (ha : Seq.IOProxy.model.accepts cap fuel h = true) : Seq.monC20Proxy.accepts h = true :=
  accepted_satisfies Seq.IOProxy.model (fun h => Seq.monC20Proxy.accepts h = true)
    Seq.IOProxy.C20_obs_ioproxy cap fuel h ha

theorem C20_accepted_unique (cap fuel : Nat) (h : List Seq.Unique.Obs)
    (ha : Seq.Unique.model.accepts cap fuel h = true) : Seq.monC20Unique.accepts h = true :=
  accepted_satisfies Seq.Unique.model (fun h => Seq.monC20Unique.accepts h = true)
    Seq.Unique.C20_obs_unique cap fuel h ha

end UtilModel

/-! ## completeness of the candidate lists — a REJECT is about the model -/
namespace UtilModel

/-- a `detModel` has no internal events and `evsOf s o = [o]` is the only event showing `o` -/
theorem Seq.detModel_complete {σ ο : Type} (init : σ) (step : σ → ο → Option σ) :
    (Seq.detModel init step).Complete :=
  ⟨fun _ _ _ _ ho => by simp [Seq.detModel] at ho,
   fun _ e _ o _ ho => by
     simp only [Seq.detModel, Option.some.injEq] at ho
     subst ho; simp [Seq.detModel]⟩

theorem complete_ioseek : Seq.IOSeek.model.Complete := Seq.detModel_complete _ _
theorem complete_iosizer : Seq.IOSizer.model.Complete := Seq.detModel_complete _ _
theorem complete_iocloser : Seq.IOCloser.model.Complete := Seq.detModel_complete _ _
theorem complete_unique : Seq.Unique.model.Complete := Seq.detModel_complete _ _

/-- ioproxy: every event is observable; an observable names the stream, `evsOf` lists the pump(s)
that can have produced it (`read`/`write`: the pump whose source/destination it is; `close`, `cb`:
both pumps) -/
theorem complete_ioproxy : Seq.IOProxy.model.Complete := by
  constructor
  · intro s e s' _ ho
    cases e <;> simp [Seq.IOProxy.model, Seq.IOProxy.Ev.obs] at ho
  · intro s e s' o _ ho
    cases e with
    | new cb => simp only [Seq.IOProxy.model, Seq.IOProxy.Ev.obs, Option.some.injEq] at ho; subst ho; simp [Seq.IOProxy.model]
    | read p err d =>
      simp only [Seq.IOProxy.model, Seq.IOProxy.Ev.obs, Option.some.injEq] at ho; subst ho
      cases p <;> simp [Seq.IOProxy.model, Seq.IOProxy.src]
    | write p n err d =>
      simp only [Seq.IOProxy.model, Seq.IOProxy.Ev.obs, Option.some.injEq] at ho; subst ho
      cases p <;> simp [Seq.IOProxy.model, Seq.IOProxy.dst]
    | close p st =>
      simp only [Seq.IOProxy.model, Seq.IOProxy.Ev.obs, Option.some.injEq] at ho; subst ho
      cases p <;> simp [Seq.IOProxy.model]
    | cbk p =>
      simp only [Seq.IOProxy.model, Seq.IOProxy.Ev.obs, Option.some.injEq] at ho; subst ho
      cases p <;> simp [Seq.IOProxy.model]
    | quiesce => simp only [Seq.IOProxy.model, Seq.IOProxy.Ev.obs, Option.some.injEq] at ho; subst ho; simp [Seq.IOProxy.model]

/-- **A REJECT of the seq-ioseek correspondence is about the model** (list-indexed checker). -/
theorem reject_sound_ioseek (cap fuel : Nat) (h : List Seq.IOSeek.Obs) (i : Nat)
    (hfail : (Seq.IOSeek.model.accRun cap fuel [Seq.IOSeek.model.init] h 0 false 1).failedAt = some i)
    (htr : (Seq.IOSeek.model.accRun cap fuel [Seq.IOSeek.model.init] h 0 false 1).truncated = false) :
    ¬ ∃ es s, Seq.IOSeek.model.run Seq.IOSeek.model.init es = some s ∧
      es.filterMap Seq.IOSeek.model.obs = h :=
  reject_sound Seq.IOSeek.model complete_ioseek cap fuel h i hfail htr

/-- **A REJECT of the seq-iosizer correspondence is about the model** (list-indexed checker). -/
theorem reject_sound_iosizer (cap fuel : Nat) (h : List Seq.IOSizer.Obs) (i : Nat)
    (hfail : (Seq.IOSizer.model.accRun cap fuel [Seq.IOSizer.model.init] h 0 false 1).failedAt = some i)
    (htr : (Seq.IOSizer.model.accRun cap fuel [Seq.IOSizer.model.init] h 0 false 1).truncated = false) :
    ¬ ∃ es s, Seq.IOSizer.model.run Seq.IOSizer.model.init es = some s ∧
      es.filterMap Seq.IOSizer.model.obs = h :=
  reject_sound Seq.IOSizer.model complete_iosizer cap fuel h i hfail htr

/-- **A REJECT of the seq-iocloser correspondence is about the model** (list-indexed checker). -/
theorem reject_sound_iocloser (cap fuel : Nat) (h : List Seq.IOCloser.Obs) (i : Nat)
    (hfail : (Seq.IOCloser.model.accRun cap fuel [Seq.IOCloser.model.init] h 0 false 1).failedAt = some i)
    (htr : (Seq.IOCloser.model.accRun cap fuel [Seq.IOCloser.model.init] h 0 false 1).truncated = false) :
    ¬ ∃ es s, Seq.IOCloser.model.run Seq.IOCloser.model.init es = some s ∧
      es.filterMap Seq.IOCloser.model.obs = h :=
  reject_sound Seq.IOCloser.model complete_iocloser cap fuel h i hfail htr

/-- **A REJECT of the seq-ioproxy correspondence is about the model** (list-indexed checker). -/
theorem reject_sound_ioproxy (cap fuel : Nat) (h : List Seq.IOProxy.Obs) (i : Nat)
    (hfail : (Seq.IOProxy.model.accRun cap fuel [Seq.IOProxy.model.init] h 0 false 1).failedAt = some i)
    (htr : (Seq.IOProxy.model.accRun cap fuel [Seq.IOProxy.model.init] h 0 false 1).truncated = false) :
    ¬ ∃ es s, Seq.IOProxy.model.run Seq.IOProxy.model.init es = some s ∧
      es.filterMap Seq.IOProxy.model.obs = h :=
  reject_sound Seq.IOProxy.model complete_ioproxy cap fuel h i hfail htr

/-- **A REJECT of the seq-unique correspondence is about the model** (list-indexed checker). -/
theorem reject_sound_unique (cap fuel : Nat) (h : List Seq.Unique.Obs) (i : Nat)
    (hfail : (Seq.Unique.model.accRun cap fuel [Seq.Unique.model.init] h 0 false 1).failedAt = some i)
    (htr : (Seq.Unique.model.accRun cap fuel [Seq.Unique.model.init] h 0 false 1).truncated = false) :
    ¬ ∃ es s, Seq.Unique.model.run Seq.Unique.model.init es = some s ∧
      es.filterMap Seq.Unique.model.obs = h :=
  reject_sound Seq.Unique.model complete_unique cap fuel h i hfail htr

end UtilModel
