import UtilModel.Core.LTSHash
import UtilModel.Seq.Props
/-!
# Seq — end-to-end transfer

If the driver's trace-inclusion decision accepts a history recorded from the Go implementation, the
property monitor accepts that history: composition of the checker's soundness theorem
(`accepts_sound` / `acceptsH_sound`) with this package's observable-form property theorem.
-/
namespace UtilModel

theorem C20_accepted_ioseek (cap fuel : Nat) (h : List Seq.IOSeek.Obs)
    (ha : Seq.IOSeek.model.accepts cap fuel h = true) : Seq.monC20Seek.accepts h = true :=
  accepted_satisfies Seq.IOSeek.model (fun h => Seq.monC20Seek.accepts h = true)
    Seq.IOSeek.C20_obs_ioseek cap fuel h ha

theorem C20_accepted_iosizer (cap fuel : Nat) (h : List Seq.IOSizer.Obs)
    (ha : Seq.IOSizer.model.accepts cap fuel h = true) : Seq.monC20Sizer.accepts h = true :=
  accepted_satisfies Seq.IOSizer.model (fun h => Seq.monC20Sizer.accepts h = true)
    Seq.IOSizer.C20_obs_iosizer cap fuel h ha

theorem C20_accepted_iocloser (cap fuel : Nat) (h : List Seq.IOCloser.Obs)
    (ha : Seq.IOCloser.model.accepts cap fuel h = true) : Seq.monC20Closer.accepts h = true :=
  accepted_satisfies Seq.IOCloser.model (fun h => Seq.monC20Closer.accepts h = true)
    Seq.IOCloser.C20_obs_iocloser cap fuel h ha

theorem C20_accepted_ioproxy (cap fuel : Nat) (h : List Seq.IOProxy.Obs)
    (ha : Seq.IOProxy.model.accepts cap fuel h = true) : Seq.monC20Proxy.accepts h = true :=
  accepted_satisfies Seq.IOProxy.model (fun h => Seq.monC20Proxy.accepts h = true)
    Seq.IOProxy.C20_obs_ioproxy cap fuel h ha

theorem C20_accepted_unique (cap fuel : Nat) (h : List Seq.Unique.Obs)
    (ha : Seq.Unique.model.accepts cap fuel h = true) : Seq.monC20Unique.accepts h = true :=
  accepted_satisfies Seq.Unique.model (fun h => Seq.monC20Unique.accepts h = true)
    Seq.Unique.C20_obs_unique cap fuel h ha

end UtilModel
