import UtilModel.Core.Driver
import UtilModel.Seq.Monitors
/-! Development driver for this package only:
`lake env lean --run UtilModel/Seq/TestDriver.lean seq-ioseek < hist` -/
open UtilModel UtilModel.Seq

def main (args : List String) : IO UInt32 :=
  driverMain [
    mkEntry "seq-ioseek" IOSeek.model IOSeek.Obs.parse [MonEntry.ofMonitor "C20" monC20Seek],
    mkEntry "seq-iosizer" IOSizer.model IOSizer.Obs.parse [MonEntry.ofMonitor "C20" monC20Sizer],
    mkEntry "seq-iocloser" IOCloser.model IOCloser.Obs.parse [MonEntry.ofMonitor "C20" monC20Closer],
    mkEntry "seq-ioproxy" IOProxy.model IOProxy.Obs.parse [MonEntry.ofMonitor "C20" monC20Proxy],
    mkEntry "seq-unique" Unique.model Unique.Obs.parse [MonEntry.ofMonitor "C20" monC20Unique]
  ] args
