import UtilModel.Seq.Common
/-!
# ioproxy.ProxyStreams — model (ioproxy/ioproxy.go)

Two pumps run concurrently: pump A copies stream 1 → stream 2, pump B copies stream 2 → stream 1.
Each pump is `io.CopyBuffer(dst, src, buf)`, then `src.Close()`, `dst.Close()`, then the callback.

**Trusted external.** `io.CopyBuffer` is not verified; its documented loop is the model:

    for { nr, er := src.Read(buf)
          if nr > 0 { nw, ew := dst.Write(buf[:nr])
                      if nw < 0 || nr < nw { nw = 0; if ew == nil { ew = errInvalidWrite } }
                      if ew != nil { break }
                      if nr != nw { break /* ErrShortWrite */ } }
          if er != nil { break } }

(The harness streams implement neither `io.WriterTo` nor `io.ReaderFrom`, so this generic loop is the
path taken.) One event = one call of a stream method / the callback, logged inside that method by the
instrumented in-memory stream, which also decides what the method returns (the environment):

    new CB                      ProxyStreams(s1, s2, cb) is about to be called; CB = 1 iff cb != nil
    read S N ERR b1 … bN        sS.Read(buf) returns (N, ERR) having delivered b1 … bN
    write S N ERR b1 … bL       sS.Write(p) was called with p = b1 … bL and returns (N, ERR)
    close S                     sS.Close() was called
    cb                          the callback was called
    quiesce                     the harness waited until nothing moves any more

`close S` and `cb` do not say which pump acted: `evsOf` offers both pumps (subset construction).
-/
namespace UtilModel.Seq.IOProxy

inductive Obs where
  | new (cb : Bool)
  | read (s : Nat) (err : Nat) (data : List Nat)
  | write (s : Nat) (n : Int) (err : Nat) (data : List Nat)
  | close (s : Nat)
  | cbk
  | quiesce
deriving DecidableEq, Repr

/-- events: as `Obs`, but naming the pump (`false` = A: 1 → 2, `true` = B: 2 → 1) -/
inductive Ev where
  | new (cb : Bool)
  | read (p : Bool) (err : Nat) (data : List Nat)
  | write (p : Bool) (n : Int) (err : Nat) (data : List Nat)
  | close (p : Bool) (s : Nat)
  | cbk (p : Bool)
  | quiesce
deriving DecidableEq, Repr

def src (p : Bool) : Nat := if p then 2 else 1
def dst (p : Bool) : Nat := if p then 1 else 2

def Ev.obs : Ev → Option Obs
  | .new cb => some (.new cb)
  | .read p e d => some (.read (src p) e d)
  | .write p n e d => some (.write (dst p) n e d)
  | .close _ s => some (.close s)
  | .cbk _ => some .cbk
  | .quiesce => some .quiesce

inductive PC where
  | reading                                  -- about to call src.Read
  | writing (chunk : List Nat) (er : Nat)    -- Read returned `chunk` (non-empty) and `er`; about to call dst.Write
  | closeSrc | closeDst | callback | done
deriving DecidableEq, Repr

structure Pump where
  pc : PC := .reading
  /-- ghost: every byte read from the source so far, in order -/
  rd : List Nat := []
  /-- ghost: every byte the destination accepted so far, in order -/
  wr : List Nat := []
  /-- ghost: some Write accepted fewer bytes than offered (short / failed / invalid count) -/
  lost : Bool := false
deriving DecidableEq, Repr

structure St where
  live : Bool := false
  hasCb : Bool := false
  a : Pump := {}
  b : Pump := {}
  -- ghost counters
  closes1 : Nat := 0
  closes2 : Nat := 0
  cbs : Nat := 0
deriving DecidableEq, Repr

def St.pump (s : St) (p : Bool) : Pump := if p then s.b else s.a
def St.setPump (s : St) (p : Bool) (x : Pump) : St := if p then { s with b := x } else { s with a := x }

/-- number of bytes `copyBuffer` counts as written after `dst.Write` returned `(n, _)` -/
def accepted (len : Nat) (n : Int) : Nat := if n < 0 ∨ (len : Int) < n then 0 else n.toNat

/-- does the copy loop stop after this write? (`ew != nil`, short write, or the read had an error) -/
def stopsAfterWrite (len : Nat) (n : Int) (err er : Nat) : Bool :=
  decide (n < 0 ∨ (len : Int) < n) || decide (err ≠ 0) || decide (accepted len n ≠ len) || decide (er ≠ 0)

def step (s : St) : Ev → Option St
  | .new cb => if s.live = false then some { live := true, hasCb := cb } else none
  | .read p err data =>
    if s.live then
      match (s.pump p).pc with
      | .reading =>
        let x := s.pump p
        if data ≠ [] then some (s.setPump p { x with pc := .writing data err, rd := x.rd ++ data })
        else if err ≠ 0 then some (s.setPump p { x with pc := .closeSrc })
        else some s
      | _ => none
    else none
  | .write p n err data =>
    match (s.pump p).pc with
    | .writing chunk er =>
      if data = chunk then
        let x := s.pump p
        some (s.setPump p { x with
          pc := if stopsAfterWrite chunk.length n err er then .closeSrc else .reading
          wr := x.wr ++ chunk.take (accepted chunk.length n)
          lost := x.lost || decide (accepted chunk.length n ≠ chunk.length) })
      else none
    | _ => none
  | .close p st =>
    let x := s.pump p
    let s1 := if st = 1 then { s with closes1 := s.closes1 + 1 } else { s with closes2 := s.closes2 + 1 }
    match x.pc with
    | .closeSrc => if st = src p then some (s1.setPump p { x with pc := .closeDst }) else none
    | .closeDst =>
      if st = dst p then some (s1.setPump p { x with pc := if s.hasCb then .callback else .done }) else none
    | _ => none
  | .cbk p =>
    let x := s.pump p
    match x.pc with
    | .callback => some ({ s with cbs := s.cbs + 1 }.setPump p { x with pc := .done })
    | _ => none
  | .quiesce => if s.live ∧ s.a.pc = .done ∧ s.b.pc = .done then some s else none

def model : OLTS St Ev Obs where
  init := {}
  step := step
  obs := Ev.obs
  cands := fun _ => []
  evsOf := fun _ o =>
    match o with
    | .new cb => [.new cb]
    | .read st e d => if st = 1 then [.read false e d] else if st = 2 then [.read true e d] else []
    | .write st n e d => if st = 2 then [.write false n e d] else if st = 1 then [.write true n e d] else []
    | .close st => [.close false st, .close true st]
    | .cbk => [.cbk false, .cbk true]
    | .quiesce => [.quiesce]

def Obs.parse : List String → Option Obs
  | ["new", cb] => do pure (.new (← parseBit cb))
  | "read" :: s :: n :: e :: bs => do
    let d ← parseNats bs
    if d.length = (← n.toNat?) then pure (.read (← s.toNat?) (← e.toNat?) d) else none
  | "write" :: s :: n :: e :: bs => do pure (.write (← s.toNat?) (← n.toInt?) (← e.toNat?) (← parseNats bs))
  | ["close", s] => do pure (.close (← s.toNat?))
  | ["cb"] => some .cbk
  | ["quiesce"] => some .quiesce
  | _ => none

end UtilModel.Seq.IOProxy
