import UtilModel.Seq.Monitors
/-!
# unique.KeyedList / KeyedMap — association-list lemmas, specification of the three loops,
replay of notifications, monitor simulation
-/
namespace UtilModel.Seq.Unique
open UtilModel UtilModel.Seq

theorem eq_of_nodup_map {α β : Type} (f : α → β) (l : List α) (hd : (l.map f).Nodup) {a b : α}
    (ha : a ∈ l) (hb : b ∈ l) (e : f a = f b) : a = b := by
  induction l with
  | nil => cases ha
  | cons x l ih =>
    simp only [List.map_cons, List.nodup_cons] at hd
    rcases List.mem_cons.mp ha with rfl | ha' <;> rcases List.mem_cons.mp hb with rfl | hb'
    · rfl
    · exact absurd (List.mem_map.mpr ⟨b, hb', e.symm⟩) hd.1
    · exact absurd (List.mem_map.mpr ⟨a, ha', e⟩) hd.1
    · exact ih hd.2 ha' hb'

theorem nodup_of_nodup_map {α β : Type} (f : α → β) (l : List α) (hd : (l.map f).Nodup) : l.Nodup := by
  induction l with
  | nil => simp
  | cons x l ih =>
    simp only [List.map_cons, List.nodup_cons] at hd ⊢
    exact ⟨fun h => hd.1 (List.mem_map.mpr ⟨x, h, rfl⟩), ih hd.2⟩

/-! ## association lists -/

def NodupKeys (l : AL) : Prop := (keys l).Nodup

theorem look_erase (k k' : Nat) (l : AL) : look (erase k l) k' = if k' = k then none else look l k' := by
  induction l with
  | nil => simp [erase, look]
  | cons p l ih =>
    obtain ⟨a, b⟩ := p
    simp only [erase, List.filter_cons] at ih ⊢
    by_cases hak : a = k
    · subst hak
      simp only [bne_self_eq_false, Bool.false_eq_true, if_false, ih, look]
      by_cases h : k' = a
      · simp [h]
      · have : ¬ a = k' := fun e => h e.symm
        simp [h, this]
    · have : (a != k) = true := by simp [hak]
      simp only [this, if_true, look, ih]
      by_cases h : a = k'
      · have : ¬ k' = k := by omega
        simp [h, this]
      · simp [h]

theorem look_put (k v k' : Nat) (l : AL) : look (put k v l) k' = if k' = k then some v else look l k' := by
  simp only [put, look, look_erase]
  by_cases h : k' = k
  · simp [h]
  · have : ¬ k = k' := fun e => h e.symm
    simp [h, this]

theorem mem_keys_erase (k k' : Nat) (l : AL) : k' ∈ keys (erase k l) ↔ k' ∈ keys l ∧ k' ≠ k := by
  simp only [keys, erase, List.mem_map, List.mem_filter]
  constructor
  · rintro ⟨p, ⟨hp, hne⟩, rfl⟩; exact ⟨⟨p, hp, rfl⟩, by simpa using hne⟩
  · rintro ⟨⟨p, hp, rfl⟩, hne⟩; exact ⟨p, ⟨hp, by simpa using hne⟩, rfl⟩

theorem nodup_erase (k : Nat) (l : AL) (h : NodupKeys l) : NodupKeys (erase k l) := by
  unfold NodupKeys keys erase at *
  exact (List.filter_sublist.map _).nodup h

theorem nodup_put (k v : Nat) (l : AL) (h : NodupKeys l) : NodupKeys (put k v l) := by
  have h1 := nodup_erase k l h
  unfold NodupKeys at *
  simp only [put, keys, List.map_cons, List.nodup_cons]
  refine ⟨?_, h1⟩
  intro hm
  have := (mem_keys_erase k k l).mp hm
  exact this.2 rfl

theorem look_isSome_iff (l : AL) (k : Nat) : (look l k).isSome = true ↔ k ∈ keys l := by
  induction l with
  | nil => simp [look, keys]
  | cons p l ih =>
    obtain ⟨a, b⟩ := p
    simp only [look, keys, List.map_cons, List.mem_cons] at ih ⊢
    by_cases h : a = k
    · simp [h]
    · have : ¬ k = a := fun e => h e.symm
      simp [h, this, ih]

theorem look_none_iff (l : AL) (k : Nat) : look l k = none ↔ k ∉ keys l := by
  rw [← look_isSome_iff]; cases look l k <;> simp

theorem look_of_mem (l : AL) (hn : NodupKeys l) (k v : Nat) : (k, v) ∈ l ↔ look l k = some v := by
  induction l with
  | nil => simp [look]
  | cons p l ih =>
    obtain ⟨a, b⟩ := p
    have hn' : NodupKeys l := by unfold NodupKeys keys at *; exact (List.nodup_cons.mp hn).2
    have ha : a ∉ keys l := by unfold NodupKeys keys at *; exact (List.nodup_cons.mp hn).1
    simp only [List.mem_cons, look, Prod.mk.injEq]
    by_cases h : a = k
    · subst h
      simp only [if_true, Option.some.injEq, true_and]
      constructor
      · rintro (h | h)
        · exact h.symm
        · exact absurd (List.mem_map.mpr ⟨(a, v), h, rfl⟩) ha
      · intro h; exact Or.inl h.symm
    · have : ¬ k = a := fun e => h e.symm
      simp [h, this, ih hn']

/-! ## notifications as updates of the lookup function -/

abbrev F := Nat → Option Nat

def Note.applyF : Note → F → F
  | .added k v, f | .updated k v, f => fun k' => if k' = k then some v else f k'
  | .removed k _, f => fun k' => if k' = k then none else f k'

def replayF (ns : List Note) (f : F) : F := ns.foldl (fun f n => n.applyF f) f

theorem look_apply (n : Note) (l : AL) : look (n.apply l) = n.applyF (look l) := by
  funext k'
  cases n <;> simp [Note.apply, Note.applyF, look_put, look_erase]

theorem look_replay (ns : List Note) (l : AL) : look (replay ns l) = replayF ns (look l) := by
  induction ns generalizing l with
  | nil => rfl
  | cons n ns ih => simp only [replay, replayF, List.foldl_cons] at ih ⊢; rw [← look_apply]; exact ih _

theorem replayF_append (as bs : List Note) (f : F) : replayF (as ++ bs) f = replayF bs (replayF as f) := by
  simp [replayF, List.foldl_append]

theorem applyF_other (n : Note) (f : F) (k : Nat) (h : k ≠ n.key) : n.applyF f k = f k := by
  cases n <;> simp_all [Note.applyF, Note.key]

theorem applyF_comm (a n : Note) (f : F) (h : a.key ≠ n.key) :
    a.applyF (n.applyF f) = n.applyF (a.applyF f) := by
  funext k
  cases a <;> cases n <;> simp only [Note.applyF, Note.key] at h ⊢ <;>
    (rename_i ka _ kn _; by_cases h1 : k = ka <;> by_cases h2 : k = kn <;> simp_all)

theorem replayF_other (ns : List Note) (f : F) (k : Nat) (h : ∀ n ∈ ns, n.key ≠ k) : replayF ns f k = f k := by
  induction ns generalizing f with
  | nil => rfl
  | cons n ns ih =>
    simp only [replayF, List.foldl_cons] at ih ⊢
    rw [ih _ (fun n' hn' => h n' (List.mem_cons_of_mem _ hn'))]
    exact applyF_other n f k (fun e => h n (List.mem_cons_self ..) e.symm)

theorem nodup_apply (n : Note) (l : AL) (h : NodupKeys l) : NodupKeys (n.apply l) := by
  cases n <;> simp only [Note.apply] <;> first | exact nodup_put _ _ _ h | exact nodup_erase _ _ h

theorem nodup_replay (ns : List Note) (l : AL) (h : NodupKeys l) : NodupKeys (replay ns l) := by
  induction ns generalizing l with
  | nil => exact h
  | cons n ns ih => simp only [replay, List.foldl_cons] at ih ⊢; exact ih _ (nodup_apply n l h)

/-- within one phase (distinct keys) the order of the notifications does not matter -/
theorem replayF_erase (p : List Note) (n : Note) (f : F) (hn : n ∈ p) (hd : (p.map Note.key).Nodup) :
    replayF (p.erase n) (n.applyF f) = replayF p f := by
  induction p generalizing f with
  | nil => cases hn
  | cons a p ih =>
    by_cases ha : a = n
    · subst ha; simp [replayF]
    · have hn' : n ∈ p := by
        rcases List.mem_cons.mp hn with h | h
        · exact absurd h.symm ha
        · exact h
      have hd' := List.nodup_cons.mp hd
      have hk : a.key ≠ n.key := by
        intro e; exact hd'.1 (by rw [e]; exact List.mem_map.mpr ⟨n, hn', rfl⟩)
      have : (a :: p).erase n = a :: p.erase n := by
        simp [ha]
      rw [this]
      simp only [replayF, List.foldl_cons] at ih ⊢
      rw [applyF_comm a n f hk]
      exact ih _ hn' hd'.2

/-! ## owed notifications that are legitimate (`Valid`) and their consumption -/

def noteOkF (m : Nat) (c : Call) (f : F) (n : Note) : Bool := noteOkAt m c (f n.key) n

/-- every owed notification is legitimate at the moment it may arrive: inside a phase the keys are
distinct and every notification is legitimate w.r.t. the listener's copy at the start of the phase -/
def Valid (m : Nat) (c : Call) : F → List (List Note) → Prop
  | _, [] => True
  | f, p :: ps => (p.map Note.key).Nodup ∧ (∀ n ∈ p, noteOkF m c f n = true) ∧ Valid m c (replayF p f) ps

theorem noteOkF_other (m : Nat) (c : Call) (f : F) (a n : Note) (h : n.key ≠ a.key) :
    noteOkF m c (a.applyF f) n = noteOkF m c f n := by
  simp only [noteOkF, applyF_other a f n.key h]

theorem consume_valid (m : Nat) (c : Call) (n : Note) (ps ps' : List (List Note)) (f : F)
    (hv : Valid m c f ps) (hc : consume n ps = some ps') :
    noteOkF m c f n = true ∧ Valid m c (n.applyF f) ps' ∧
      replayF ps'.flatten (n.applyF f) = replayF ps.flatten f := by
  induction ps generalizing f with
  | nil => simp [consume] at hc
  | cons p ps ih =>
    cases p with
    | nil =>
      simp only [consume] at hc
      have := ih f (by simpa [Valid, replayF] using hv) hc
      simpa using this
    | cons a p =>
      simp only [consume] at hc
      split at hc
      · rename_i hn
        simp only [Option.some.injEq] at hc; subst hc
        obtain ⟨hd, hok, hrest⟩ := hv
        have hrep := replayF_erase (a :: p) n f hn hd
        refine ⟨hok n hn, ⟨?_, ?_, ?_⟩, ?_⟩
        · exact ((List.erase_sublist ..).map _).nodup hd
        · intro n' hn'
          have hmem : n' ∈ a :: p := List.mem_of_mem_erase hn'
          have hne : n' ≠ n := by
            have hnd : (a :: p).Nodup := nodup_of_nodup_map _ _ hd
            intro e; subst e
            exact (List.Nodup.mem_erase_iff hnd).mp hn' |>.1 rfl
          have hk : n'.key ≠ n.key := by
            intro e
            exact hne (eq_of_nodup_map _ _ hd hmem hn e)
          rw [noteOkF_other m c f n n' hk]; exact hok n' hmem
        · rw [hrep]; exact hrest
        · simp only [List.flatten_cons, replayF_append, hrep]
      · simp at hc

/-- an ordered walk over distinct keys may as well arrive in any order -/
theorem valid_par_of_ordered (m : Nat) (c : Call) (ns : List Note) (tl : List (List Note)) (f : F)
    (hd : (ns.map Note.key).Nodup) (hv : Valid m c f (ordered ns ++ tl)) : Valid m c f (ns :: tl) := by
  induction ns generalizing f with
  | nil => exact ⟨by simp, by simp, by simpa [ordered, replayF] using hv⟩
  | cons n ns ih =>
    have hd' := List.nodup_cons.mp hd
    simp only [ordered, List.map_cons, List.cons_append] at hv
    obtain ⟨_, hok, hrest⟩ := hv
    have hrest' : Valid m c (n.applyF f) (ordered ns ++ tl) := by simpa [replayF, ordered] using hrest
    obtain ⟨_, hok', hrest''⟩ := ih (n.applyF f) hd'.2 hrest'
    refine ⟨hd, ?_, ?_⟩
    · intro n' hn'
      rcases List.mem_cons.mp hn' with rfl | h
      · exact hok n' (by simp)
      · have hk : n'.key ≠ n.key := by
          intro e; exact hd'.1 (by rw [← e]; exact List.mem_map.mpr ⟨n', h, rfl⟩)
        rw [← noteOkF_other m c f n n' hk]; exact hok' n' h
    · simpa [replayF] using hrest''

theorem flatten_ordered (ns : List Note) : (ordered ns).flatten = ns := by
  induction ns with
  | nil => rfl
  | cons n ns ih => simp only [ordered, List.map_cons, List.flatten_cons] at ih ⊢; simp [ih]

/-! ## the add/update loop (SetValues, AppendValues) -/

theorem replay_append (as bs : List Note) (l : AL) : replay (as ++ bs) l = replay bs (replay as l) := by
  simp [replay, List.foldl_append]

/-- "the latest set that differed from the previous one": fold of the values given for one key -/
def settle (m k : Nat) : Option Nat → List Nat → Option Nat
  | cur, [] => cur
  | none, v :: vs => settle m k (some v) vs
  | some e, v :: vs => settle m k (if cmpFn m k v e then some e else some v) vs

/-- one step of `settle` -/
def settle1 (m k v : Nat) : Option Nat → Option Nat
  | none => some v
  | some e => if cmpFn m k v e then some e else some v

theorem settle_cons (m k v : Nat) (cur : Option Nat) (vs : List Nat) :
    settle m k cur (v :: vs) = settle m k (settle1 m k v cur) vs := by
  cases cur <;> simp [settle, settle1]

theorem upsert_look (m : Nat) (l : AL) (k v k' : Nat) :
    look (upsert m l k v).1 k' = if k' = k then settle1 m k v (look l k) else look l k' := by
  unfold upsert
  cases h : look l k with
  | none => simp [settle1, look_put]
  | some e =>
    by_cases hc : cmpFn m k v e = true
    · simp only [hc, if_true, settle1]
      by_cases hk : k' = k
      · simp [hk, h]
      · simp [hk]
    · simp [hc, settle1, look_put]

theorem upsert_replay (m : Nat) (l : AL) (k v : Nat) : replay (upsert m l k v).2 l = (upsert m l k v).1 := by
  unfold upsert
  cases look l k with
  | none => rfl
  | some e => by_cases hc : cmpFn m k v e = true <;> simp [hc, replay, Note.apply]

theorem appendLoop_replay (m : Nat) (l : AL) (items : List (Nat × Nat)) :
    replay (appendLoop m l items).2 l = (appendLoop m l items).1 := by
  induction items generalizing l with
  | nil => rfl
  | cons p rest ih =>
    obtain ⟨k, v⟩ := p
    simp only [appendLoop, replay_append, upsert_replay]
    exact ih _

theorem appendLoop_nodup (m : Nat) (l : AL) (items : List (Nat × Nat)) (h : NodupKeys l) :
    NodupKeys (appendLoop m l items).1 := by
  rw [← appendLoop_replay]; exact nodup_replay _ _ h

/-- **append_spec**: the value under every key is the fold of the values given for that key -/
theorem appendLoop_look (m : Nat) (l : AL) (items : List (Nat × Nat)) (k : Nat) :
    look (appendLoop m l items).1 k =
      settle m k (look l k) ((items.filter (fun p => p.1 == k)).map (·.2)) := by
  induction items generalizing l with
  | nil => rfl
  | cons p rest ih =>
    obtain ⟨k0, v0⟩ := p
    simp only [appendLoop, ih, upsert_look, List.filter_cons]
    by_cases hk : k0 = k
    · subst hk; simp [settle_cons]
    · have : ¬ k = k0 := fun e => hk e.symm
      simp [hk, this]

theorem inKeys_cons (p : Nat × Nat) (rest : List (Nat × Nat)) (k : Nat) :
    inKeys (p :: rest) k = (decide (p.1 = k) || inKeys rest k) := by
  simp only [inKeys, List.map_cons, List.contains_cons]
  by_cases h : p.1 = k
  · simp [h]
  · have : ¬ k = p.1 := fun e => h e.symm
    simp [h, this]

theorem appendLoop_frame (m : Nat) (l : AL) (items : List (Nat × Nat)) (k : Nat) (h : inKeys items k = false) :
    look (appendLoop m l items).1 k = look l k := by
  rw [appendLoop_look]
  have : items.filter (fun p => p.1 == k) = [] := by
    apply List.filter_eq_nil_iff.mpr
    intro p hp
    simp only [inKeys, List.contains_eq_mem, decide_eq_false_iff_not, List.mem_map] at h
    intro e; exact h ⟨p, hp, by simpa using e⟩
  simp [this, settle]

theorem lastVal_none (items : List (Nat × Nat)) (k : Nat) (h : inKeys items k = false) : lastVal items k = none := by
  induction items with
  | nil => rfl
  | cons p rest ih =>
    rw [inKeys_cons] at h
    simp only [Bool.or_eq_false_iff, decide_eq_false_iff_not] at h
    obtain ⟨a, b⟩ := p
    simp [lastVal, ih h.2, h.1]

/-- after the loop every key of the argument holds the last value given for it, or one the compare
function calls equal to it -/
theorem appendLoop_keyOk (m : Nat) (l : AL) (items : List (Nat × Nat)) (k : Nat) (h : inKeys items k = true) :
    keyOk m items (look (appendLoop m l items).1) k = true := by
  induction items generalizing l with
  | nil => simp [inKeys] at h
  | cons p rest ih =>
    obtain ⟨k0, v0⟩ := p
    by_cases hr : inKeys rest k = true
    · have := ih (upsert m l k0 v0).1 hr
      simp only [keyOk, appendLoop] at this ⊢
      cases h1 : look (appendLoop m (upsert m l k0 v0).1 rest).1 k with
      | none => simp [h1] at this
      | some e =>
        cases h2 : lastVal rest k with
        | none => simp [h1, h2] at this
        | some v => simpa [h1, h2, lastVal] using this
    · have hr' : inKeys rest k = false := by simpa using hr
      rw [inKeys_cons, hr'] at h
      have hk : k0 = k := by simpa using h
      subst hk
      simp only [keyOk, appendLoop, appendLoop_frame m _ rest k0 hr', upsert_look, if_true, lastVal,
        lastVal_none rest k0 hr']
      cases look l k0 with
      | none => simp [settle1]
      | some e =>
        by_cases hc : cmpFn m k0 v0 e = true
        · simp [settle1, hc]
        · simp [settle1, hc]

theorem appendLoop_isSome (m : Nat) (l : AL) (items : List (Nat × Nat)) (k : Nat)
    (h : (look (appendLoop m l items).1 k).isSome = true) : (look l k).isSome = true ∨ inKeys items k = true := by
  by_cases hk : inKeys items k = true
  · exact Or.inr hk
  · rw [appendLoop_frame m l items k (by simpa using hk)] at h; exact Or.inl h

theorem ordered_append (as bs : List Note) : ordered (as ++ bs) = ordered as ++ ordered bs := by
  simp [ordered]

theorem appendLoop_valid (m : Nat) (c : Call) (l : AL) (items : List (Nat × Nat)) (tl : List (List Note))
    (hc : ∀ p ∈ items, c.hasItem p.1 p.2 = true)
    (ht : Valid m c (look (appendLoop m l items).1) tl) :
    Valid m c (look l) (ordered (appendLoop m l items).2 ++ tl) := by
  induction items generalizing l with
  | nil => simpa [appendLoop, ordered] using ht
  | cons p rest ih =>
    obtain ⟨k, v⟩ := p
    have hrest := ih (upsert m l k v).1 (fun p hp => hc p (List.mem_cons_of_mem _ hp)) (by simpa [appendLoop] using ht)
    have hkv := hc (k, v) (List.mem_cons_self ..)
    simp only [appendLoop, ordered_append, List.append_assoc]
    unfold upsert at hrest ⊢
    cases h : look l k with
    | none =>
      simp only [h] at hrest ⊢
      refine ⟨by simp, ?_, ?_⟩
      · intro n hn; simp at hn; subst hn
        simp [noteOkF, noteOkAt, Note.key, h, hkv]
      · simpa [replayF, ← look_apply, Note.apply] using hrest
    | some e =>
      simp only [h] at hrest ⊢
      by_cases hcm : cmpFn m k v e = true
      · simpa [hcm, ordered] using hrest
      · simp only [hcm] at hrest ⊢
        refine ⟨by simp, ?_, ?_⟩
        · intro n hn; simp at hn; subst hn
          simp [noteOkF, noteOkAt, Note.key, h, hkv, hcm]
        · simpa [replayF, ← look_apply, Note.apply] using hrest

theorem appendLoop_note_keys (m : Nat) (l : AL) (items : List (Nat × Nat)) :
    ((appendLoop m l items).2.map Note.key).Sublist (items.map (·.1)) := by
  induction items generalizing l with
  | nil => simp [appendLoop]
  | cons p rest ih =>
    obtain ⟨k, v⟩ := p
    simp only [appendLoop, List.map_append, List.map_cons]
    have h2 := ih (upsert m l k v).1
    unfold upsert at h2 ⊢
    cases h : look l k with
    | none => simp only [h] at h2 ⊢; simpa [Note.key] using h2.cons_cons k
    | some e =>
      simp only [h] at h2 ⊢
      by_cases hcm : cmpFn m k v e = true
      · simp only [hcm, if_true] at h2 ⊢; simpa using h2.cons k
      · simp only [hcm] at h2 ⊢; simpa [Note.key] using h2.cons_cons k

/-! ## the remove loop (RemoveValues, RemoveKeys) -/

theorem removeLoop_replay (l : AL) (ks : List Nat) : replay (removeLoop l ks).2 l = (removeLoop l ks).1 := by
  induction ks generalizing l with
  | nil => rfl
  | cons k rest ih =>
    simp only [removeLoop]
    cases h : look l k with
    | none => simpa [h] using ih l
    | some v => simpa [h, replay, Note.apply] using ih (erase k l)

theorem removeLoop_nodup (l : AL) (ks : List Nat) (h : NodupKeys l) : NodupKeys (removeLoop l ks).1 := by
  rw [← removeLoop_replay]; exact nodup_replay _ _ h

/-- **remove_spec** -/
theorem removeLoop_look (l : AL) (ks : List Nat) (k : Nat) :
    look (removeLoop l ks).1 k = if k ∈ ks then none else look l k := by
  induction ks generalizing l with
  | nil => simp [removeLoop]
  | cons k0 rest ih =>
    simp only [removeLoop]
    cases h : look l k0 with
    | none =>
      simp only [ih, List.mem_cons]
      by_cases hk : k = k0
      · subst hk; simp [h]
      · simp [hk]
    | some v =>
      simp only [ih, List.mem_cons, look_erase]
      by_cases hk : k = k0
      · simp [hk]
      · simp [hk]

theorem removeLoop_valid (m : Nat) (c : Call) (l : AL) (ks : List Nat) (tl : List (List Note))
    (hc : ∀ k ∈ ks, c.mayRemove k = true) (ht : Valid m c (look (removeLoop l ks).1) tl) :
    Valid m c (look l) (ordered (removeLoop l ks).2 ++ tl) := by
  induction ks generalizing l with
  | nil => simpa [removeLoop, ordered] using ht
  | cons k rest ih =>
    have hk := hc k (List.mem_cons_self ..)
    have hc' : ∀ k ∈ rest, c.mayRemove k = true := fun k' h => hc k' (List.mem_cons_of_mem _ h)
    simp only [removeLoop] at ht ⊢
    cases h : look l k with
    | none => simp only [h] at ht ⊢; exact ih l hc' ht
    | some v =>
      simp only [h] at ht ⊢
      have := ih (erase k l) hc' ht
      refine ⟨by simp, ?_, ?_⟩
      · intro n hn; simp at hn; subst hn
        simp [noteOkF, noteOkAt, Note.key, h, hk]
      · simpa [replayF, ← look_apply, Note.apply, ordered] using this

/-! ## SetValues -/

theorem look_filter_key (g : Nat → Bool) (l : AL) (k : Nat) :
    look (l.filter (fun p => g p.1)) k = if g k then look l k else none := by
  induction l with
  | nil => simp [look]
  | cons p l ih =>
    obtain ⟨a, b⟩ := p
    simp only [List.filter_cons]
    by_cases hg : g a = true
    · simp only [hg, if_true, look, ih]
      by_cases h : a = k
      · subst h; simp [hg]
      · simp [h]
    · simp only [hg, Bool.false_eq_true, if_false, ih, look]
      by_cases h : a = k
      · subst h; simp [hg]
      · simp [h]

theorem nodup_filter (g : Nat × Nat → Bool) (l : AL) (h : NodupKeys l) : NodupKeys (l.filter g) := by
  unfold NodupKeys keys at *; exact (List.filter_sublist.map _).nodup h

/-- replaying removals of the entries `ps` -/
theorem replayF_removed (ps : AL) (f : F) (k : Nat) :
    replayF (ps.map (fun p => Note.removed p.1 p.2)) f k = if k ∈ keys ps then none else f k := by
  induction ps generalizing f with
  | nil => simp [replayF, keys]
  | cons p ps ih =>
    simp only [List.map_cons, replayF, List.foldl_cons] at ih ⊢
    rw [ih]
    have hkc : keys (p :: ps) = p.1 :: keys ps := rfl
    simp only [hkc, List.mem_cons, Note.applyF]
    by_cases h1 : k ∈ keys ps
    · simp [h1]
    · by_cases h2 : k = p.1
      · simp [h2]
      · simp [h1, h2]

theorem setOp_new_look (m : Nat) (l : AL) (items : List (Nat × Nat)) (k : Nat) :
    look (setOp m l items).1 k = if inKeys items k then look (appendLoop m l items).1 k else none := by
  simp only [setOp]; exact look_filter_key (inKeys items) _ k

/-- **set_spec** -/
theorem setOp_look (m : Nat) (l : AL) (items : List (Nat × Nat)) (k : Nat) :
    look (setOp m l items).1 k =
      if inKeys items k then settle m k (look l k) ((items.filter (fun p => p.1 == k)).map (·.2)) else none := by
  rw [setOp_new_look, appendLoop_look]

theorem setOp_nodup (m : Nat) (l : AL) (items : List (Nat × Nat)) (h : NodupKeys l) :
    NodupKeys (setOp m l items).1 := nodup_filter _ _ (appendLoop_nodup m l items h)

/-- replaying the removals of SetValues on the contents after the loop gives the new contents -/
theorem setOp_gone_replay (m : Nat) (l : AL) (items : List (Nat × Nat)) :
    replayF (setOp m l items).2.2 (look (appendLoop m l items).1) = look (setOp m l items).1 := by
  funext k
  rw [setOp_new_look]
  simp only [setOp, replayF_removed]
  have hk : k ∈ keys ((appendLoop m l items).1.filter (fun p => !inKeys items p.1)) ↔
      k ∈ keys (appendLoop m l items).1 ∧ inKeys items k = false := by
    simp only [keys, List.mem_map, List.mem_filter]
    constructor
    · rintro ⟨p, ⟨hp, hg⟩, rfl⟩; exact ⟨⟨p, hp, rfl⟩, by simpa using hg⟩
    · rintro ⟨⟨p, hp, rfl⟩, hg⟩; exact ⟨p, ⟨hp, by simpa using hg⟩, rfl⟩
  by_cases hin : inKeys items k = true
  · have : ¬ k ∈ keys ((appendLoop m l items).1.filter (fun p => !inKeys items p.1)) := by
      rw [hk]; simp [hin]
    simp [hin, this]
  · have hin' : inKeys items k = false := by simpa using hin
    by_cases hmem : k ∈ keys (appendLoop m l items).1
    · have : k ∈ keys ((appendLoop m l items).1.filter (fun p => !inKeys items p.1)) := hk.mpr ⟨hmem, hin'⟩
      simp [hin', this]
    · have : ¬ k ∈ keys ((appendLoop m l items).1.filter (fun p => !inKeys items p.1)) := by
        rw [hk]; simp [hmem]
      simp [hin', this, (look_none_iff _ _).mpr hmem]

theorem setOp_gone_valid (m : Nat) (l : AL) (items : List (Nat × Nat)) (hn : NodupKeys l) :
    Valid m (.set items) (look (appendLoop m l items).1) [(setOp m l items).2.2] := by
  have hn' := appendLoop_nodup m l items hn
  refine ⟨?_, ?_, trivial⟩
  · simp only [setOp, List.map_map]
    have : (Note.key ∘ fun p : Nat × Nat => Note.removed p.1 p.2) = (·.1) := by funext p; rfl
    rw [this]
    exact nodup_filter _ _ hn'
  · intro n hn
    simp only [setOp, List.mem_map, List.mem_filter] at hn
    obtain ⟨⟨k, v⟩, ⟨hp, hg⟩, rfl⟩ := hn
    have hl := (look_of_mem _ hn' k v).mp hp
    simp only [Bool.not_eq_eq_eq_not, Bool.not_true] at hg
    simp [noteOkF, noteOkAt, Note.key, hl, Call.mayRemove, hg]

theorem initial_nodup (items : List (Nat × Nat)) : NodupKeys (initial items) := by
  unfold initial
  suffices h : ∀ l : AL, NodupKeys l → NodupKeys (items.foldl (fun l p => put p.1 p.2 l) l) from
    h [] (by simp [NodupKeys, keys])
  induction items with
  | nil => intro l h; exact h
  | cons p rest ih => intro l h; exact ih _ (nodup_put _ _ _ h)

/-! ## the final check of a call, on lookup functions -/

def FinalP (m : Nat) (c : Call) (f : F) : Prop :=
  match c with
  | .set items => (∀ p ∈ items, keyOk m items f p.1 = true) ∧ (∀ k, (f k).isSome = true → inKeys items k = true)
  | .append items => ∀ p ∈ items, keyOk m items f p.1 = true
  | .remove ks => ∀ k ∈ ks, f k = none

theorem finalOk_iff (m : Nat) (c : Call) (cur : AL) : finalOk m c cur = true ↔ FinalP m c (look cur) := by
  cases c with
  | set items =>
    simp only [finalOk, FinalP, Bool.and_eq_true, List.all_eq_true]
    constructor
    · rintro ⟨h1, h2⟩; exact ⟨h1, fun k hk => h2 k ((look_isSome_iff _ _).mp hk)⟩
    · rintro ⟨h1, h2⟩; exact ⟨h1, fun k hk => h2 k ((look_isSome_iff _ _).mpr hk)⟩
  | append items => simp only [finalOk, FinalP, List.all_eq_true]
  | remove ks =>
    simp only [finalOk, FinalP, List.all_eq_true, Option.isNone_iff_eq_none]

theorem mem_inKeys (items : List (Nat × Nat)) (p : Nat × Nat) (h : p ∈ items) : inKeys items p.1 = true := by
  simp only [inKeys, List.contains_eq_mem, decide_eq_true_eq]
  exact List.mem_map.mpr ⟨p, h, rfl⟩

theorem final_append (m : Nat) (l : AL) (items : List (Nat × Nat)) :
    FinalP m (.append items) (look (appendLoop m l items).1) :=
  fun p hp => appendLoop_keyOk m l items p.1 (mem_inKeys items p hp)

theorem final_set (m : Nat) (l : AL) (items : List (Nat × Nat)) :
    FinalP m (.set items) (look (setOp m l items).1) := by
  refine ⟨?_, ?_⟩
  · intro p hp
    have hin := mem_inKeys items p hp
    have := appendLoop_keyOk m l items p.1 hin
    simp only [keyOk, setOp_new_look, hin, if_true] at this ⊢
    exact this
  · intro k hk
    rw [setOp_new_look] at hk
    by_cases hin : inKeys items k = true
    · exact hin
    · simp [hin] at hk

theorem final_remove (l : AL) (ks : List Nat) (m : Nat) : FinalP m (.remove ks) (look (removeLoop l ks).1) := by
  intro k hk; simp [removeLoop_look, hk]

/-! ## contents with the same lookups have the same keys and values (up to order) -/

theorem perm_of_look_eq (l1 l2 : AL) (h1 : NodupKeys l1) (h2 : NodupKeys l2) (he : look l1 = look l2) :
    l1.Perm l2 := by
  have n1 : l1.Nodup := nodup_of_nodup_map (fun p : Nat × Nat => p.1) l1 h1
  have n2 : l2.Nodup := nodup_of_nodup_map (fun p : Nat × Nat => p.1) l2 h2
  rw [List.perm_ext_iff_of_nodup n1 n2]
  intro ⟨k, v⟩
  rw [look_of_mem l1 h1, look_of_mem l2 h2, he]

/-! ## phases of the add/update loop -/

theorem loopPhases_flatten (isMap : Bool) (ns : List Note) (tl : List (List Note)) :
    (loopPhases isMap ns ++ tl).flatten = ns ++ tl.flatten := by
  cases isMap <;> simp [loopPhases, flatten_ordered]

theorem loopPhases_valid (isMap : Bool) (m : Nat) (c : Call) (l : AL) (items : List (Nat × Nat))
    (tl : List (List Note)) (harg : argOk isMap items = true)
    (hc : ∀ p ∈ items, c.hasItem p.1 p.2 = true)
    (ht : Valid m c (look (appendLoop m l items).1) tl) :
    Valid m c (look l) (loopPhases isMap (appendLoop m l items).2 ++ tl) := by
  have hv := appendLoop_valid m c l items tl hc ht
  cases isMap with
  | false => simpa [loopPhases] using hv
  | true =>
    simp only [argOk, Bool.not_true, Bool.false_or, decide_eq_true_eq] at harg
    have hd : ((appendLoop m l items).2.map Note.key).Nodup := (appendLoop_note_keys m l items).nodup harg
    simpa [loopPhases] using valid_par_of_ordered m c _ tl (look l) hd hv

theorem hasItem_set (items : List (Nat × Nat)) : ∀ p ∈ items, (Call.set items).hasItem p.1 p.2 = true := by
  intro p hp; simp [Call.hasItem, hp]

theorem hasItem_append (items : List (Nat × Nat)) : ∀ p ∈ items, (Call.append items).hasItem p.1 p.2 = true := by
  intro p hp; simp [Call.hasItem, hp]

theorem mayRemove_remove (ks : List Nat) : ∀ k ∈ ks, (Call.remove ks).mayRemove k = true := by
  intro k hk; simp [Call.mayRemove, hk]

theorem noteOf_key (k v : Nat) (a r : Bool) (n : Note) (h : noteOf k v a r = some n) : n.key = k := by
  cases a <;> cases r <;> simp [noteOf] at h <;> subst h <;> rfl

theorem flatten_of_all_empty (ps : List (List Note)) (h : ps.all (·.isEmpty) = true) : ps.flatten = [] := by
  induction ps with
  | nil => rfl
  | cons p ps ih =>
    simp only [List.all_cons, Bool.and_eq_true, List.isEmpty_iff] at h
    simp [h.1, ih h.2]

/-! ## model invariant and monitor simulation -/

structure Inv (s : St) : Prop where
  /-- **nodup_keys**: one value per key -/
  nodup : NodupKeys s.vals
  dead : s.live = false → s.busy = none

theorem init_inv : Inv ({} : St) := ⟨by simp [NodupKeys, keys], fun _ => rfl⟩

theorem step_inv (s : St) (o : Obs) (s' : St) (hi : Inv s) (hs : step s o = some s') : Inv s' := by
  cases o with
  | new isMap mode items =>
    simp only [step] at hs; split at hs <;> simp at hs; subst hs
    exact ⟨initial_nodup items, by intro h; simp at h⟩
  | callSet items =>
    simp only [step] at hs; split at hs <;> simp at hs; subst hs
    rename_i h
    exact ⟨setOp_nodup _ _ _ hi.nodup, by intro hl; simp [h.1] at hl⟩
  | callAppend items =>
    simp only [step] at hs; split at hs <;> simp at hs; subst hs
    rename_i h
    exact ⟨appendLoop_nodup _ _ _ hi.nodup, by intro hl; simp [h.1] at hl⟩
  | callRmVals items =>
    simp only [step] at hs; split at hs <;> simp at hs; subst hs
    rename_i h
    exact ⟨removeLoop_nodup _ _ hi.nodup, by intro hl; simp [h.1] at hl⟩
  | callRmKeys ks =>
    simp only [step] at hs; split at hs <;> simp at hs; subst hs
    rename_i h
    exact ⟨removeLoop_nodup _ _ hi.nodup, by intro hl; simp [h.1] at hl⟩
  | chg k v a r =>
    simp only [step] at hs
    split at hs
    · rename_i ps n hb hn
      split at hs
      · simp only [Option.some.injEq] at hs; subst hs
        refine ⟨hi.nodup, ?_⟩
        intro hl; have := hi.dead hl; rw [hb] at this; cases this
      · simp at hs
    · simp at hs
  | ret =>
    simp only [step] at hs
    split at hs
    · split at hs
      · simp only [Option.some.injEq] at hs; subst hs; exact ⟨hi.nodup, fun _ => rfl⟩
      · simp at hs
    · simp at hs
  | keys ks => simp only [step] at hs; split at hs <;> simp at hs; subst hs; exact hi
  | vals vs => simp only [step] at hs; split at hs <;> simp at hs; subst hs; exact hi

theorem reachable_inv (es : List Obs) (s : St) (h : model.run model.init es = some s) : Inv s :=
  model.run_invariant Inv step_inv _ s es init_inv h

def Rel (s : St) (ms : UniqM) : Prop :=
  ms.live = s.live ∧ Inv s ∧ (s.live = true → ms.mode = s.mode ∧ NodupKeys ms.cur ∧
    match s.busy with
    | none => ms.call = none ∧ look ms.cur = look s.vals
    | some ps => ∃ c, ms.call = some c ∧ Valid s.mode c (look ms.cur) ps ∧
        replayF ps.flatten (look ms.cur) = look s.vals ∧ FinalP s.mode c (look s.vals))

/-- starting a call: the owed notifications are legitimate, replay to the new contents, and the new
contents pass the final check -/
theorem start_rel (s : St) (ms : UniqM) (c : Call) (newVals : AL) (phases : List (List Note))
    (hR : Rel s ms) (hl : s.live = true) (hidle : s.busy = none)
    (hv : Valid s.mode c (look s.vals) phases)
    (hrep : replayF phases.flatten (look s.vals) = look newVals)
    (hf : FinalP s.mode c (look newVals)) (hn : NodupKeys newVals) :
    ∃ ms', startCall ms c = some ms' ∧ Rel { s with vals := newVals, busy := some phases } ms' := by
  obtain ⟨hlive, hi, hrest⟩ := hR
  obtain ⟨hm, hnd, hb⟩ := hrest hl
  rw [hidle] at hb
  obtain ⟨hcall, hlook⟩ := hb
  have hml : ms.live = true := by rw [hlive, hl]
  refine ⟨{ ms with call := some c }, by simp [startCall, hml, hcall], hlive,
    ⟨hn, by intro h; simp [hl] at h⟩, fun _ => ⟨hm, hnd, c, rfl, ?_, ?_, hf⟩⟩
  · simpa [hlook] using hv
  · simpa [hlook] using hrep

theorem live_of_step (s : St) (o : Obs) (s' : St) (hi : Inv s) (hs : step s o = some s')
    (hn : ∀ a b c, o ≠ .new a b c) : s.live = true := by
  cases hl : s.live with
  | true => rfl
  | false =>
    have hb := hi.dead hl
    cases o <;> simp [step, hb, hl] at hs
    exact absurd rfl (hn _ _ _)

theorem sim_step (s : St) (o : Obs) (s' : St) (ms : UniqM) (hR : Rel s ms) (hs : step s o = some s') :
    ∃ ms', monC20Unique.step ms o = some ms' ∧ Rel s' ms' := by
  have hR0 := hR
  obtain ⟨hlive, hi, hrest⟩ := hR
  have hi' : Inv s' := step_inv s o s' hi hs
  by_cases hnew : ∃ a b c, o = .new a b c
  · obtain ⟨isMap, mode, items, rfl⟩ := hnew
    simp only [step] at hs; split at hs <;> simp at hs; subst hs
    exact ⟨{ live := true, mode := mode, cur := initial items }, rfl, rfl, hi',
      fun _ => ⟨rfl, initial_nodup items, rfl, rfl⟩⟩
  · have hl : s.live = true := live_of_step s o s' hi hs (fun a b c h => hnew ⟨a, b, c, h⟩)
    obtain ⟨hm, hnd, hb⟩ := hrest hl
    have hml : ms.live = true := by rw [hlive, hl]
    cases o with
    | new a b c => exact absurd ⟨a, b, c, rfl⟩ hnew
    | callSet items =>
      simp only [step] at hs; split at hs <;> simp at hs; subst hs
      rename_i h
      have hval : Valid s.mode (.set items) (look s.vals)
          (loopPhases s.isMap (setOp s.mode s.vals items).2.1 ++ [(setOp s.mode s.vals items).2.2]) :=
        loopPhases_valid s.isMap s.mode (.set items) s.vals items _ h.2.2 (hasItem_set items)
          (setOp_gone_valid s.mode s.vals items hi.nodup)
      have hrep : replayF (loopPhases s.isMap (setOp s.mode s.vals items).2.1 ++
          [(setOp s.mode s.vals items).2.2]).flatten (look s.vals) = look (setOp s.mode s.vals items).1 := by
        rw [loopPhases_flatten]
        simp only [List.flatten_cons, List.flatten_nil, List.append_nil, replayF_append]
        have : replayF (setOp s.mode s.vals items).2.1 (look s.vals) = look (appendLoop s.mode s.vals items).1 := by
          rw [← look_replay]; simp only [setOp]; rw [appendLoop_replay]
        rw [this]; exact setOp_gone_replay s.mode s.vals items
      exact start_rel s ms (.set items) _ _ hR0 hl h.2.1 hval hrep (final_set _ _ _) (setOp_nodup _ _ _ hi.nodup)
    | callAppend items =>
      simp only [step] at hs; split at hs <;> simp at hs; subst hs
      rename_i h
      have hval : Valid s.mode (.append items) (look s.vals)
          (loopPhases s.isMap (appendLoop s.mode s.vals items).2 ++ []) :=
        loopPhases_valid s.isMap s.mode (.append items) s.vals items [] h.2.2 (hasItem_append items) trivial
      have hrep : replayF (loopPhases s.isMap (appendLoop s.mode s.vals items).2 ++ []).flatten (look s.vals)
          = look (appendLoop s.mode s.vals items).1 := by
        rw [loopPhases_flatten]; simp only [List.flatten_nil, List.append_nil]
        rw [← look_replay, appendLoop_replay]
      simp only [List.append_nil] at hval hrep
      exact start_rel s ms (.append items) _ _ hR0 hl h.2.1 hval hrep (final_append _ _ _)
        (appendLoop_nodup _ _ _ hi.nodup)
    | callRmVals items =>
      simp only [step] at hs; split at hs <;> simp at hs; subst hs
      rename_i h
      have hval := removeLoop_valid s.mode (.remove (items.map (·.1))) s.vals (items.map (·.1)) []
        (mayRemove_remove _) trivial
      have hrep : replayF (ordered (removeLoop s.vals (items.map (·.1))).2).flatten (look s.vals)
          = look (removeLoop s.vals (items.map (·.1))).1 := by
        rw [flatten_ordered, ← look_replay, removeLoop_replay]
      simp only [List.append_nil] at hval
      exact start_rel s ms (.remove (items.map (·.1))) _ _ hR0 hl h.2.1 hval hrep (final_remove _ _ _)
        (removeLoop_nodup _ _ hi.nodup)
    | callRmKeys ks =>
      simp only [step] at hs; split at hs <;> simp at hs; subst hs
      rename_i h
      have hval := removeLoop_valid s.mode (.remove ks) s.vals ks [] (mayRemove_remove _) trivial
      have hrep : replayF (ordered (removeLoop s.vals ks).2).flatten (look s.vals) = look (removeLoop s.vals ks).1 := by
        rw [flatten_ordered, ← look_replay, removeLoop_replay]
      simp only [List.append_nil] at hval
      exact start_rel s ms (.remove ks) _ _ hR0 hl h.2 hval hrep (final_remove _ _ _)
        (removeLoop_nodup _ _ hi.nodup)
    | chg k v a r =>
      simp only [step] at hs
      split at hs
      · rename_i ps n hbusy hnote
        split at hs
        · rename_i ps' hcons
          simp only [Option.some.injEq] at hs; subst hs
          rw [hbusy] at hb
          obtain ⟨c, hcall, hval, hrep, hfin⟩ := hb
          obtain ⟨hok, hval', hrep'⟩ := consume_valid s.mode c n ps ps' (look ms.cur) hval hcons
          have hk := noteOf_key k v a r n hnote
          refine ⟨{ ms with cur := n.apply ms.cur }, ?_, hlive, hi', fun _ => ⟨hm, nodup_apply n _ hnd, c, hcall, ?_, ?_, hfin⟩⟩
          · simp only [noteOkF, hk] at hok
            simp [monC20Unique, hml, hcall, hnote, hm, hok]
          · simpa [look_apply] using hval'
          · simpa [look_apply, hrep'] using hrep
        · simp at hs
      · simp at hs
    | ret =>
      simp only [step] at hs
      split at hs
      · rename_i ps hbusy
        split at hs
        · rename_i hall
          simp only [Option.some.injEq] at hs; subst hs
          rw [hbusy] at hb
          obtain ⟨c, hcall, _, hrep, hfin⟩ := hb
          rw [flatten_of_all_empty ps hall] at hrep
          have hlook : look ms.cur = look s.vals := by simpa [replayF] using hrep
          have hf : finalOk ms.mode c ms.cur = true := by rw [finalOk_iff, hlook, hm]; exact hfin
          exact ⟨{ ms with call := none }, by simp [monC20Unique, hml, hcall, hf], hlive, hi',
            fun _ => ⟨hm, hnd, rfl, hlook⟩⟩
        · simp at hs
      · simp at hs
    | keys ks =>
      simp only [step] at hs; split at hs <;> simp at hs; subst hs
      rename_i h
      rw [h.2.1] at hb
      obtain ⟨hcall, hlook⟩ := hb
      have hp := perm_of_look_eq ms.cur s.vals hnd hi.nodup hlook
      have : ks.Perm (keys ms.cur) := (List.isPerm_iff.mp h.2.2).trans (hp.map _).symm
      exact ⟨ms, by simp [monC20Unique, hml, hcall, List.isPerm_iff.mpr this], hR0⟩
    | vals vs =>
      simp only [step] at hs; split at hs <;> simp at hs; subst hs
      rename_i h
      rw [h.2.1] at hb
      obtain ⟨hcall, hlook⟩ := hb
      have hp := perm_of_look_eq ms.cur s.vals hnd hi.nodup hlook
      have : vs.Perm (ms.cur.map (·.2)) := (List.isPerm_iff.mp h.2.2).trans (hp.map _).symm
      exact ⟨ms, by simp [monC20Unique, hml, hcall, List.isPerm_iff.mpr this], hR0⟩

/-! ## end-to-end: the notifications of one call, in any accepted order, replay to the new contents -/

def Note.toObs : Note → Obs
  | .added k v => .chg k v true false
  | .updated k v => .chg k v false false
  | .removed k v => .chg k v false true

theorem noteOf_toObs (n : Note) :
    ∃ k v a r, n.toObs = .chg k v a r ∧ noteOf k v a r = some n := by
  cases n <;> exact ⟨_, _, _, _, rfl, rfl⟩

theorem sim_run (s : St) (ms : UniqM) (es : List Obs) (s' : St) (hR : Rel s ms)
    (hr : model.run s es = some s') : ∃ ms', monC20Unique.run ms es = some ms' ∧ Rel s' ms' := by
  induction es generalizing s ms with
  | nil => simp [OLTS.run] at hr; subst hr; exact ⟨ms, rfl, hR⟩
  | cons e es ih =>
    simp only [OLTS.run] at hr
    cases hst : model.step s e with
    | none => simp [hst] at hr
    | some s1 =>
      simp [hst] at hr
      obtain ⟨ms1, hm1, hR1⟩ := sim_step s e s1 ms hR hst
      obtain ⟨ms', hm', hR'⟩ := ih s1 ms1 hR1 hr
      exact ⟨ms', by simp [ObsMonitor.run, hm1, hm'], hR'⟩

/-- the monitor's copy after a block of notifications is the replay of that block -/
theorem mon_run_notes (ms ms' : UniqM) (ns : List Note) (hl : ms.live = true)
    (hr : monC20Unique.run ms (ns.map Note.toObs) = some ms') :
    ms'.cur = replay ns ms.cur ∧ ms'.live = true := by
  induction ns generalizing ms with
  | nil => simp [ObsMonitor.run] at hr; subst hr; exact ⟨rfl, hl⟩
  | cons n ns ih =>
    simp only [List.map_cons, ObsMonitor.run] at hr
    obtain ⟨k, v, a, r, ho, hn⟩ := noteOf_toObs n
    cases hst : monC20Unique.step ms n.toObs with
    | none => simp [hst] at hr
    | some ms1 =>
      simp [hst] at hr
      have : ms1.cur = n.apply ms.cur ∧ ms1.live = true := by
        rw [ho] at hst
        simp only [monC20Unique, hl, Bool.not_true, Bool.false_eq_true, if_false, hn] at hst
        split at hst
        · rename_i c n' hc hn'
          simp only [Option.some.injEq] at hn'; subst hn'
          split at hst
          · simp only [Option.some.injEq] at hst; subst hst; exact ⟨rfl, rfl⟩
          · simp at hst
        · simp at hst
      obtain ⟨h1, h2⟩ := ih ms1 this.2 hr
      exact ⟨by rw [h1, this.1]; rfl, h2⟩

/-- a line that starts a call leaves the listener's copy alone -/
theorem call_keeps_cur (s : St) (o : Obs) (s1 : St) (ms ms1 : UniqM) (hidle : s.busy = none)
    (hb : s1.busy ≠ none) (h1 : step s o = some s1) (hm : monC20Unique.step ms o = some ms1) :
    ms1.cur = ms.cur := by
  cases o with
  | new a b c => simp only [step] at h1; split at h1 <;> simp at h1; subst h1; simp at hb
  | callSet items | callAppend items | callRmVals items | callRmKeys ks =>
    simp only [monC20Unique, startCall] at hm
    split at hm
    · simp at hm; subst hm; rfl
    · split at hm <;> simp at hm; subst hm; rfl
  | chg k v a r => simp [step, hidle] at h1
  | ret => simp [step, hidle] at h1
  | keys ks => simp only [step] at h1; split at h1 <;> simp at h1; subst h1; exact absurd hidle hb
  | vals vs => simp only [step] at h1; split at h1 <;> simp at h1; subst h1; exact absurd hidle hb

theorem live_of_run_aux (s : St) (o : Obs) (s1 : St) (hl : s.live = true) (h1 : step s o = some s1) :
    s1.live = true := by
  cases o <;> simp only [step] at h1
  case chg =>
    split at h1
    · split at h1 <;> simp at h1; subst h1; exact hl
    · simp at h1
  case ret =>
    split at h1
    · split at h1 <;> simp at h1; subst h1; exact hl
    · simp at h1
  all_goals (split at h1 <;> simp at h1; subst h1; first | rfl | exact hl)

/-- **replay_notifications** (model level, any arrival order the model accepts): if a call line takes
the idle state `s` to `s1`, and the notifications `ns` followed by `ret` are accepted from `s1`,
ending in `s2`, then replaying `ns` on the old contents gives the new contents. -/
theorem replay_notifications_run (s s1 s2 : St) (o : Obs) (ns : List Note) (hi : Inv s)
    (hl : s.live = true) (hidle : s.busy = none) (hb : s1.busy ≠ none)
    (h1 : step s o = some s1) (h2 : model.run s1 (ns.map Note.toObs ++ [.ret]) = some s2) :
    look (replay ns s.vals) = look s2.vals ∧ NodupKeys (replay ns s.vals) ∧ NodupKeys s2.vals := by
  let ms0 : UniqM := { live := true, mode := s.mode, cur := s.vals, call := none }
  have hR0 : Rel s ms0 := ⟨hl.symm, hi, fun _ => ⟨rfl, hi.nodup, by rw [hidle]; exact ⟨rfl, rfl⟩⟩⟩
  obtain ⟨ms1, hm1, hR1⟩ := sim_step s o s1 ms0 hR0 h1
  have hc1 : ms1.cur = s.vals := call_keeps_cur s o s1 ms0 ms1 hidle hb h1 hm1
  obtain ⟨s1', hra, hrb⟩ := model.run_prefix s1 s2 _ _ h2
  obtain ⟨ms1', hma, hRa⟩ := sim_run s1 ms1 _ s1' hR1 hra
  have hl1 : ms1.live = true := by rw [hR1.1]; exact live_of_run_aux s o s1 hl h1
  obtain ⟨hcur, hl1'⟩ := mon_run_notes ms1 ms1' ns hl1 hma
  obtain ⟨ms2, hm2, hR2⟩ := sim_run s1' ms1' _ s2 hRa hrb
  -- the final `ret`
  simp only [ObsMonitor.run] at hm2
  cases hst : monC20Unique.step ms1' .ret with
  | none => simp [hst] at hm2
  | some m =>
    simp [hst] at hm2; subst hm2
    have hcur2 : m.cur = ms1'.cur := by
      simp only [monC20Unique, hl1', Bool.not_true, Bool.false_eq_true, if_false] at hst
      split at hst
      · split at hst <;> simp at hst; subst hst; rfl
      · simp at hst
    obtain ⟨hlv, hi2, hrest⟩ := hR2
    have hl2 : s2.live = true := by
      rw [← hlv]
      simp only [monC20Unique, hl1', Bool.not_true, Bool.false_eq_true, if_false] at hst
      split at hst
      · split at hst <;> simp at hst; subst hst; rfl
      · simp at hst
    obtain ⟨_, hnd, hbz⟩ := hrest hl2
    have hidle2 : s2.busy = none := by
      simp only [OLTS.run] at hrb
      cases hs : model.step s1' .ret with
      | none => simp [hs] at hrb
      | some x =>
        simp [hs] at hrb; subst hrb
        simp only [model, detModel, step] at hs
        split at hs
        · split at hs <;> simp at hs; subst hs; rfl
        · simp at hs
    rw [hidle2] at hbz
    rw [hcur2, hcur, hc1] at hbz hnd
    exact ⟨hbz.2, hnd, hi2.nodup⟩

end UtilModel.Seq.Unique
