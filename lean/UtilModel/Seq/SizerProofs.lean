import UtilModel.Seq.Monitors
/-!
# iosizer — `total = Σ n`, monitor simulation
-/
namespace UtilModel.Seq.IOSizer
open UtilModel UtilModel.Seq

/-- inductive invariant: while every returned count was in `[0, MaxUint32]`, the counter equals the
mathematical sum of the returned counts modulo 2^64 -/
def Inv (s : St) : Prop := s.guardOk = true → 0 ≤ s.sum ∧ s.total = s.sum % two64

theorem addTotal_sum (total sum n : Int) (_h0 : 0 ≤ sum) (ht : total = sum % two64)
    (hn0 : 0 ≤ n) (hn1 : n ≤ maxU32) : addTotal total n = (sum + n) % two64 := by
  unfold addTotal
  by_cases hp : 0 < n
  · simp only [hp, hn1, and_self, if_true]; subst ht; unfold two64; omega
  · have : n = 0 := by omega
    subst this; simp [ht]

theorem init_inv : Inv ({} : St) := by intro _; simp [two64]

theorem step_inv (s : St) (o : Obs) (s' : St) (hi : Inv s) (hs : step s o = some s') : Inv s' := by
  cases o with
  | new r w =>
    simp only [step] at hs; split at hs <;> simp at hs; subst hs; intro _; simp [two64]
  | call wr len =>
    simp only [step] at hs; split at hs <;> simp at hs; subst hs; exact hi
  | cb wr len n err =>
    simp only [step] at hs; split at hs <;> try simp at hs
    obtain ⟨_, rfl⟩ := hs; exact hi
  | ret wr n err =>
    simp only [step] at hs; split at hs <;> try simp at hs
    · obtain ⟨_, rfl⟩ := hs
      intro hg; simp [inGuard] at hg
      obtain ⟨h0, ht⟩ := hi hg.1
      exact ⟨by simp; omega, addTotal_sum _ _ _ h0 ht hg.2.1 hg.2.2⟩
    · obtain ⟨_, rfl⟩ := hs; exact hi
  | total t =>
    simp only [step] at hs; split at hs <;> simp at hs; subst hs; exact hi

theorem reachable_inv (es : List Obs) (s : St) (h : model.run model.init es = some s) : Inv s :=
  model.run_invariant Inv step_inv _ s es init_inv h

def Rel (s : St) (ms : SizerM) : Prop :=
  ms.void = true ∨
    (s.live = true ∧ s.guardOk = true ∧ ms.hasR = s.hasR ∧ ms.hasW = s.hasW ∧ ms.sum = s.sum ∧
      ms.cur = s.cur ∧ Inv s)

theorem has_eq (s : St) (ms : SizerM) (h1 : ms.hasR = s.hasR) (h2 : ms.hasW = s.hasW) (wr : Bool) :
    ms.has wr = s.has wr := by
  cases wr <;> simp [SizerM.has, St.has, h1, h2]

theorem sim_step (s : St) (o : Obs) (s' : St) (ms : SizerM) (hR : Rel s ms) (hs : step s o = some s') :
    ∃ ms', monC20Sizer.step ms o = some ms' ∧ Rel s' ms' := by
  have hi' : Inv s → Inv s' := fun hi => step_inv s o s' hi hs
  cases o with
  | new r w =>
    simp only [step] at hs; split at hs <;> simp at hs; subst hs
    exact ⟨{ void := false, hasR := r, hasW := w }, rfl, Or.inr ⟨rfl, rfl, rfl, rfl, rfl, rfl, by intro _; simp [two64]⟩⟩
  | call wr len =>
    rcases hR with hv | ⟨hl, hg, h1, h2, h3, h4, hi⟩
    · exact ⟨ms, by simp [monC20Sizer, hv], Or.inl hv⟩
    · have hinv' := hi' hi
      simp only [step] at hs; split at hs <;> simp at hs; subst hs
      rename_i hc
      by_cases hvoid : ms.void = true
      · exact ⟨ms, by simp [monC20Sizer, hvoid], Or.inl hvoid⟩
      · have hvoid' : ms.void = false := by simpa using hvoid
        have hcur : ms.cur = .idle := by rw [h4]; exact hc.2
        exact ⟨{ ms with cur := .calling wr len }, by simp [monC20Sizer, hvoid', hcur],
          Or.inr ⟨hl, hg, h1, h2, h3, rfl, hinv'⟩⟩
  | cb wr len n err =>
    rcases hR with hv | ⟨hl, hg, h1, h2, h3, h4, hi⟩
    · exact ⟨ms, by simp [monC20Sizer, hv], Or.inl hv⟩
    · have hinv' := hi' hi
      simp only [step] at hs; split at hs <;> try simp at hs
      rename_i wr' len' hc
      obtain ⟨⟨rfl, rfl, hh⟩, rfl⟩ := hs
      by_cases hvoid : ms.void = true
      · exact ⟨ms, by simp [monC20Sizer, hvoid], Or.inl hvoid⟩
      · have hvoid' : ms.void = false := by simpa using hvoid
        have hcur : ms.cur = .calling wr len := by rw [h4, hc]
        have hh' : ms.has wr = true := by rw [has_eq s ms h1 h2]; exact hh
        exact ⟨{ ms with cur := .got wr n err }, by simp [monC20Sizer, hvoid', hcur, hh'],
          Or.inr ⟨hl, hg, h1, h2, h3, rfl, hinv'⟩⟩
  | ret wr n err =>
    rcases hR with hv | ⟨hl, hg, h1, h2, h3, h4, hi⟩
    · exact ⟨ms, by simp [monC20Sizer, hv], Or.inl hv⟩
    · have hinv' := hi' hi
      by_cases hvoid : ms.void = true
      · exact ⟨ms, by simp [monC20Sizer, hvoid], Or.inl hvoid⟩
      · have hvoid' : ms.void = false := by simpa using hvoid
        simp only [step] at hs; split at hs <;> try simp at hs
        · rename_i wr' n' e' hc
          obtain ⟨⟨rfl, rfl, rfl⟩, rfl⟩ := hs
          have hcur : ms.cur = .got wr n err := by rw [h4, hc]
          by_cases hin : 0 ≤ n ∧ n ≤ maxU32
          · refine ⟨{ ms with sum := ms.sum + n, cur := .idle }, by simp [monC20Sizer, hvoid', hcur, hin],
              Or.inr ⟨hl, ?_, h1, h2, by simp [h3], rfl, hinv'⟩⟩
            simp [hg, inGuard, hin]
          · exact ⟨{ ms with void := true }, by simp [monC20Sizer, hvoid', hcur, hin], Or.inl rfl⟩
        · rename_i wr' len' hc
          obtain ⟨⟨rfl, hh, rfl, rfl⟩, rfl⟩ := hs
          have hcur : ms.cur = .calling wr len' := by rw [h4, hc]
          have hh' : ms.has wr = false := by rw [has_eq s ms h1 h2]; exact hh
          refine ⟨{ ms with cur := .idle }, ?_, Or.inr ⟨hl, hg, h1, h2, h3, rfl, hinv'⟩⟩
          simp [monC20Sizer, hvoid', hcur, hh']
  | total t =>
    rcases hR with hv | ⟨hl, hg, h1, h2, h3, h4, hi⟩
    · exact ⟨ms, by simp [monC20Sizer, hv], Or.inl hv⟩
    · simp only [step] at hs; split at hs <;> simp at hs; subst hs
      rename_i hc
      by_cases hvoid : ms.void = true
      · exact ⟨ms, by simp [monC20Sizer, hvoid], Or.inl hvoid⟩
      · have hvoid' : ms.void = false := by simpa using hvoid
        have hcur : ms.cur = .idle := by rw [h4]; exact hc.2.1
        have ht : t = ms.sum % two64 := by rw [hc.2.2, h3]; exact (hi hg).2
        exact ⟨ms, by simp [monC20Sizer, hvoid', hcur, ht], Or.inr ⟨hl, hg, h1, h2, h3, h4, hi⟩⟩

end UtilModel.Seq.IOSizer
