import UtilModel.Seq.SeekProofs
import UtilModel.Seq.SizerProofs
import UtilModel.Seq.CloserProofs
import UtilModel.Seq.ProxyProofs
import UtilModel.Seq.UniqueProofs
/-!
# Property C20 — sequential helpers match their reference models on every operation sequence

Theorem statements only (proofs are one-liners into the `*Proofs` files). Every theorem quantifies
over **all** event lists `es` (every sequence of calls, every result of the wrapped streams /
callbacks, any length). `…_obs` theorems say that every observable trace of the model is accepted by
the executable property monitor `monC20…` — the same monitor the driver runs on histories recorded
from the real code. Environment hypotheses are visible: `envOk` (ioseek: `size ≥ 0` and the wrapped
ReaderAt stayed inside `[0, size]`), `guardOk` (iosizer: every returned count in `[0, MaxUint32]`).
-/
namespace UtilModel.Seq

/-! ## ioseek.ReaderAtSeeker -/
namespace IOSeek

/-- **Position invariant.** After every sequence of Seek/Read calls whose wrapped `ReadAt` results
respected the section (`envOk`), the position lies in `[0, size]`. -/
theorem pos_in_range (es : List Obs) (s : St) (h : model.run model.init es = some s)
    (he : s.envOk = true) : 0 ≤ s.pos ∧ s.pos ≤ s.size :=
  let r := (reachable_inv es s h he).1; ⟨r.1, r.2.1⟩

/-- **Refinement to the bounded section reader, with the int64 wrap-around.** Whenever the position is
in range, `Seek` computed with wrapping `int64` additions agrees with the reference computed in ℤ
(`specSeek`): it succeeds iff whence ∈ {0,1,2} and the mathematical target lies in `[0, size]` —
then it returns the target and moves there — and otherwise returns 0 with an error and leaves the
position unchanged. In particular an overflowing sum never produces a bogus success. -/
theorem seek_refines_section (s : St) (off wh : Int) (hr : 0 ≤ s.pos ∧ s.pos ≤ s.size ∧ s.size < two63)
    (ho : isI64 off = true) :
    match specSeek s.size s.pos off wh with
    | some t => seekRes s off wh = (t, errNil, t)
    | none => (seekRes s off wh).1 = 0 ∧ (seekRes s off wh).2.1 ≠ errNil ∧ (seekRes s off wh).2.2 = s.pos :=
  seekRes_refines s off wh hr ho

/-- **A failed Seek leaves the position unchanged** — in every state, also outside the environment
contract (negative size, runaway reader). -/
theorem failed_seek_unchanged (s s' : St) (off wh res : Int) (err : Nat)
    (hs : step s (.seek off wh res err) = some s') (he : err ≠ errNil) : s' = s := by
  simp only [step] at hs; split at hs <;> try simp at hs
  obtain ⟨⟨_, h2⟩, rfl⟩ := hs
  rw [h2] at he
  rw [seekRes_fail_pos s off wh he]

/-- **A successful Seek returns the new position, which is inside `[0, size]`.** -/
theorem ok_seek_moves (s s' : St) (off wh res : Int) (err : Nat)
    (hs : step s (.seek off wh res err) = some s') (he : err = errNil) :
    s'.pos = res ∧ 0 ≤ res ∧ res ≤ s.size := by
  simp only [step] at hs; split at hs <;> try simp at hs
  obtain ⟨⟨h1, h2⟩, rfl⟩ := hs
  rw [h2] at he
  have := seekRes_ok s off wh he
  exact ⟨by rw [h1]; exact this.1.symm, by rw [h1, this.1]; exact this.2.1, by rw [h1, this.1]; exact this.2.2⟩

/-- **Read = ReadAt at the position, and advances by n.** The wrapped `ReadAt` is called with the
caller's buffer length at the current position; `Read` returns exactly its `(n, err)`; afterwards the
position is `pos + n` (no wrap-around while the environment keeps its contract). -/
theorem read_is_readAt (es : List Obs) (s : St) (h : model.run model.init es = some s) :
    (∀ len off n err s', step s (.readAt len off n err) = some s' → off = s.pos ∧ s.cur = .reading len) ∧
    (∀ n err s', step s (.retRead n err) = some s' → s.cur = .gotRead n err ∧
      (s.envOk = true → s'.pos = s.pos + n)) := by
  refine ⟨?_, ?_⟩
  · intro len off n err s' hs
    simp only [step] at hs; split at hs <;> try simp at hs
    rename_i l hc
    obtain ⟨⟨rfl, h2, _⟩, _⟩ := hs
    exact ⟨h2, hc⟩
  · intro n err s' hs
    simp only [step] at hs; split at hs <;> try simp at hs
    rename_i n' e' hc
    obtain ⟨⟨rfl, rfl⟩, rfl⟩ := hs
    refine ⟨hc, fun he => ?_⟩
    obtain ⟨⟨h0, _, h2⟩, _, h3⟩ := reachable_inv es s h he
    obtain ⟨hn, hle⟩ := h3 n err hc
    exact wrap_id _ (by unfold two63 at *; omega) (by omega)

/-- **C20, ioseek (observable form).** Every trace of the model is accepted by the section-reader
monitor `monC20Seek`. -/
theorem C20_obs_ioseek (es : List Obs) (s : St) (h : model.run model.init es = some s) :
    monC20Seek.accepts (es.filterMap model.obs) = true :=
  monitor_accepts_of_simulation model monC20Seek Rel (Or.inl rfl)
    (fun s e s' ms hR hs => sim_step s e s' ms hR hs) es s h

/-- non-vacuity: seek from the end, a short read, a failed seek beyond the end -/
example : (model.run model.init
    [.new 10, .seek (-4) 2 6 0, .callRead 8, .readAt 8 6 2 0, .retRead 2 0, .seek 3 1 0 1, .seek 0 1 8 0]).isSome = true := by
  decide

end IOSeek

/-! ## iosizer.SizeReadWriter -/
namespace IOSizer

/-- **total = Σ n.** After every sequence of Read/Write calls in which every returned byte count was
in `[0, MaxUint32]` (`guardOk` — the guard the code applies, iosizer.go:34/:46), `TotalSize` equals the
sum of the returned byte counts (modulo 2^64, the width of the counter). -/
theorem total_is_sum (es : List Obs) (s : St) (h : model.run model.init es = some s)
    (hg : s.guardOk = true) : s.total = s.sum % two64 :=
  (reachable_inv es s h hg).2

/-- what the ghost `sum` is: every returned count `n` (also the `(0, EOF)` of a nil stream) is added;
`guardOk` records that it was in range -/
theorem ret_adds (s s' : St) (wr : Bool) (n : Int) (err : Nat) (hs : step s (.ret wr n err) = some s') :
    s'.sum = s.sum + n ∧ s'.guardOk = (s.guardOk && inGuard n) := by
  simp only [step] at hs; split at hs <;> try simp at hs
  · obtain ⟨_, rfl⟩ := hs; exact ⟨rfl, rfl⟩
  · obtain ⟨⟨_, _, rfl, _⟩, rfl⟩ := hs; simp [inGuard, maxU32]

/-- **The counts outside the guard are exactly the ones not counted**: a returned `n ≤ 0` or
`n > MaxUint32` leaves the total unchanged (this is what the code does; the property's `total = Σ n`
needs the guard as a hypothesis). -/
theorem outside_guard_not_counted (total n : Int) (h : n ≤ 0 ∨ maxU32 < n) : addTotal total n = total := by
  unfold addTotal; split
  · rename_i h'; omega
  · rfl

/-- **Pass-through.** A call reaches the wrapped stream at most once, with the caller's buffer
length, and returns exactly its result; with a nil stream nothing is reached and the result is
`(0, EOF)`. -/
theorem ret_is_cb (s s' : St) (wr : Bool) (n : Int) (err : Nat) (hs : step s (.ret wr n err) = some s') :
    s.cur = .got wr n err ∨ (∃ len, s.cur = .calling wr len ∧ s.has wr = false ∧ n = 0 ∧ err = errEOF) := by
  simp only [step] at hs; split at hs <;> try simp at hs
  · rename_i wr' n' e' hc; obtain ⟨⟨rfl, rfl, rfl⟩, _⟩ := hs; exact Or.inl hc
  · rename_i wr' len hc; obtain ⟨⟨rfl, h2, h3, h4⟩, _⟩ := hs; exact Or.inr ⟨len, hc, h2, h3, h4⟩

/-- **C20, iosizer (observable form).** -/
theorem C20_obs_iosizer (es : List Obs) (s : St) (h : model.run model.init es = some s) :
    monC20Sizer.accepts (es.filterMap model.obs) = true :=
  monitor_accepts_of_simulation model monC20Sizer Rel (Or.inl rfl)
    (fun s e s' ms hR hs => sim_step s e s' ms hR hs) es s h

example : (model.run model.init
    [.new true false, .call false 8, .cb false 8 3 0, .ret false 3 0, .call true 4, .ret true 0 1,
     .call false 8, .cb false 8 (-1) 5, .ret false (-1) 5, .total 3]).isSome = true := by
  decide

end IOSizer

/-! ## iocloser.ReadCloser / WriteCloser -/
namespace IOCloser

/-- **The close function runs exactly once over any number of Close calls** (never twice; and once a
Close has returned — or any later moment — it has run exactly once, provided there is one). -/
theorem close_func_once (es : List Obs) (s : St) (h : model.run model.init es = some s) :
    s.fnCalls ≤ 1 ∧ (0 < s.closeCalls → s.hadFn = true → s.cur ≠ .closing true → s.fnCalls = 1) ∧
    (s.hadFn = false → s.fnCalls = 0) := by
  have hi := reachable_inv es s h
  by_cases h0 : s.closeCalls = 0
  · have := (hi.opened h0).2.1
    exact ⟨by omega, by intro hp; omega, fun _ => this⟩
  · obtain ⟨_, _, c, _, _⟩ := hi.closed (by omega)
    refine ⟨by rw [c]; split <;> omega, fun _ hf hc => by rw [c]; simp [hf, hc], fun hf => by rw [c]; simp [hf]⟩

/-- **After Close no call reaches the wrapped stream.** (`touched` is set by any wrapped Read/Write
that happens after a Close was invoked.) -/
theorem untouched_after_close (es : List Obs) (s : St) (h : model.run model.init es = some s) :
    s.touched = false :=
  (reachable_inv es s h).untouched

/-- **After Close, Read reports EOF / Write reports the closed error (`io.EOF`), with no data.** -/
theorem eof_after_close (es : List Obs) (s : St) (h : model.run model.init es = some s)
    (hc : 0 < s.closeCalls) :
    (∀ n err data s', step s (.retRead n err data) = some s' → n = 0 ∧ err = errEOF ∧ data = []) ∧
    (∀ n err s', step s (.retWrite n err) = some s' → n = 0 ∧ err = errEOF) := by
  have hi := reachable_inv es s h
  have hst := (hi.closed hc).1
  refine ⟨?_, ?_⟩
  · intro n err data s' hs
    simp only [step] at hs; split at hs <;> try simp at hs
    · rename_i n' e' d' hcur; have := hi.io.1 n' e' d' hcur; rw [hst] at this; cases this
    · exact hs.1.2
  · intro n err s' hs
    simp only [step] at hs; split at hs <;> try simp at hs
    · rename_i n' e' hcur; have := hi.io.2 n' e' hcur; rw [hst] at this; cases this
    · exact hs.1.2

/-- **Pass-through until Close.** While the stream field is set, a Read/Write reaches the wrapped
stream with the caller's buffer and returns exactly what it returned (count, error, bytes). -/
theorem pass_through (s s' : St) :
    (∀ n err data, step s (.retRead n err data) = some s' → s.st = true → s.cur = .gotRead n err data) ∧
    (∀ n err, step s (.retWrite n err) = some s' → s.st = true → s.cur = .gotWrite n err) := by
  refine ⟨?_, ?_⟩
  · intro n err data hs hst
    simp only [step] at hs; split at hs <;> try simp at hs
    · rename_i n' e' d' hc; obtain ⟨⟨rfl, rfl, rfl⟩, _⟩ := hs; exact hc
    · rw [hst] at hs; simp at hs
  · intro n err hs hst
    simp only [step] at hs; split at hs <;> try simp at hs
    · rename_i n' e' hc; obtain ⟨⟨rfl, rfl⟩, _⟩ := hs; exact hc
    · rw [hst] at hs; simp at hs

/-- **C20, iocloser (observable form).** -/
theorem C20_obs_iocloser (es : List Obs) (s : St) (h : model.run model.init es = some s) :
    monC20Closer.accepts (es.filterMap model.obs) = true :=
  monitor_accepts_of_simulation model monC20Closer Rel ⟨rfl, init_inv, by intro h; cases h⟩
    (fun s e s' ms hR hs => sim_step s e s' ms hR hs) es s h

example : (model.run model.init
    [.new false true true, .callRead 4, .cbRead 4 2 0 [7, 8], .retRead 2 0 [7, 8], .callClose, .cbCloseFn 6,
     .retClose 6, .callRead 4, .retRead 0 1 [], .callClose, .retClose 0]).isSome = true := by
  decide

end IOCloser

/-! ## ioproxy.ProxyStreams -/
namespace IOProxy

/-- **Bytes in order, both directions.** For each pump, at every moment of every run: what the
destination accepted is a prefix of what was read from the source (`wr <+: rd`), and as long as no
write fell short (`lost = false`) everything read has been accepted or is the one chunk in flight. -/
theorem bytes_in_order (es : List Ev) (s : St) (h : model.run model.init es = some s) :
    s.a.wr <+: s.a.rd ∧ s.b.wr <+: s.b.rd ∧
    (s.a.lost = false → s.a.rd = s.a.wr ++ s.a.pc.pend) ∧ (s.b.lost = false → s.b.rd = s.b.wr ++ s.b.pc.pend) :=
  let hi := reachable_inv es s h; ⟨hi.pa.pre, hi.pb.pre, hi.pa.all, hi.pb.all⟩

/-- **Bytes written = bytes read.** When a pump has ended without a short/failed write, the
destination accepted exactly the bytes read from the source, in order. -/
theorem delivers_all (es : List Ev) (s : St) (h : model.run model.init es = some s) :
    (s.a.pc.stopped = true → s.a.lost = false → s.a.wr = s.a.rd) ∧
    (s.b.pc.stopped = true → s.b.lost = false → s.b.wr = s.b.rd) := by
  have hi := reachable_inv es s h
  refine ⟨fun hs hl => ?_, fun hs hl => ?_⟩
  · have := hi.pa.all hl; cases hp : s.a.pc <;> simp_all
  · have := hi.pb.all hl; cases hp : s.b.pc <;> simp_all

/-- **Both ends closed, callback exactly twice.** When both pumps are done, each stream has been
closed exactly twice (once by each pump) and the callback has been called exactly twice (never, if
it is nil); and at no moment more often than that. -/
theorem closed_and_called_back (es : List Ev) (s : St) (h : model.run model.init es = some s) :
    s.closes1 ≤ 2 ∧ s.closes2 ≤ 2 ∧ s.cbs ≤ 2 ∧
    (s.a.pc = .done → s.b.pc = .done →
      s.closes1 = 2 ∧ s.closes2 = 2 ∧ s.cbs = (if s.hasCb then 2 else 0)) := by
  obtain ⟨c1, c2, cbs, _, _⟩ := (reachable_inv es s h).cnt
  refine ⟨?_, ?_, ?_, ?_⟩
  · rw [c1]; cases s.a.pc.pastSrc <;> cases s.b.pc.pastDst <;> simp
  · rw [c2]; cases s.a.pc.pastDst <;> cases s.b.pc.pastSrc <;> simp
  · rw [cbs]; cases s.hasCb <;> cases decide (s.a.pc = .done) <;> cases decide (s.b.pc = .done) <;> simp
  · intro ha hb; rw [c1, c2, cbs, ha, hb]; cases s.hasCb <;> simp

/-- **A pump whose copy loop has ended is never stuck**: its next step (close source, close
destination, callback) is enabled, so only `done` is final; and `quiesce` is accepted only when both
pumps are done. -/
theorem teardown_enabled (s : St) (p : Bool) :
    ((s.pump p).pc = .closeSrc → (step s (.close p (src p))).isSome = true) ∧
    ((s.pump p).pc = .closeDst → (step s (.close p (dst p))).isSome = true) ∧
    ((s.pump p).pc = .callback → (step s (.cbk p)).isSome = true) ∧
    (∀ s', step s .quiesce = some s' → s.a.pc = .done ∧ s.b.pc = .done) := by
  refine ⟨?_, ?_, ?_, ?_⟩
  · intro h; simp [step, h]
  · intro h; simp [step, h]
  · intro h; simp [step, h]
  · intro s' h; simp only [step] at h; split at h <;> simp at h; rename_i hq; exact ⟨hq.2.1, hq.2.2⟩

/-- **C20, ioproxy (observable form).** -/
theorem C20_obs_ioproxy (es : List Ev) (s : St) (h : model.run model.init es = some s) :
    monC20Proxy.accepts (es.filterMap model.obs) = true :=
  monitor_accepts_of_simulation model monC20Proxy Rel
    ⟨rfl, rfl, ⟨rfl, rfl⟩, ⟨rfl, rfl⟩, rfl, rfl, rfl, init_inv⟩
    (fun s e s' ms hR hs => by
      obtain ⟨o, ho, h⟩ := sim_step s e s' ms hR hs
      have ho' : model.obs e = some o := ho
      rw [ho']; exact h) es s h

example : (model.run model.init
    [.new true, .read false 0 [1, 2, 3], .write false 2 0 [1, 2, 3], .close false 1, .close false 2, .cbk false,
     .read true 9 [], .close true 2, .close true 1, .cbk true, .quiesce]).isSome = true := by
  decide

end IOProxy

/-! ## unique.KeyedList / KeyedMap -/
namespace Unique

/-- **nodup_keys**: in every reachable state the contents hold one value per key. -/
theorem nodup_keys (es : List Obs) (s : St) (h : model.run model.init es = some s) : NodupKeys s.vals :=
  (reachable_inv es s h).nodup

/-- **append_spec**: after `AppendValues(items)` the value under every key `k` is `settle` of the old
value and the values given for `k`, in order — i.e. the latest one that differed (under the compare
function) from the value it replaced; keys not mentioned keep their value. -/
theorem append_spec (m : Nat) (l : AL) (items : List (Nat × Nat)) (k : Nat) :
    look (appendLoop m l items).1 k =
      settle m k (look l k) ((items.filter (fun p => p.1 == k)).map (·.2)) :=
  appendLoop_look m l items k

/-- **set_spec**: after `SetValues(items)` exactly the keys of `items` are present, each with the value
`append_spec` describes. Holds for duplicates inside `items` too. -/
theorem set_spec (m : Nat) (l : AL) (items : List (Nat × Nat)) (k : Nat) :
    look (setOp m l items).1 k =
      if inKeys items k then settle m k (look l k) ((items.filter (fun p => p.1 == k)).map (·.2)) else none :=
  setOp_look m l items k

/-- **remove_spec** -/
theorem remove_spec (l : AL) (ks : List Nat) (k : Nat) :
    look (removeLoop l ks).1 k = if k ∈ ks then none else look l k :=
  removeLoop_look l ks k

/-- **replay_notifications** (the order the code walks a slice): the notifications of a call, replayed
on the previous contents, reproduce the new contents *exactly* (same association list), duplicates
within one call included. For `SetValues` the trailing removals come in map order, so the statement is
up to the order of the list: same lookups, both without duplicate keys. -/
theorem replay_notifications (m : Nat) (l : AL) (items : List (Nat × Nat)) (ks : List Nat) (hn : NodupKeys l) :
    replay (appendLoop m l items).2 l = (appendLoop m l items).1 ∧
    replay (removeLoop l ks).2 l = (removeLoop l ks).1 ∧
    look (replay ((setOp m l items).2.1 ++ (setOp m l items).2.2) l) = look (setOp m l items).1 ∧
    NodupKeys (replay ((setOp m l items).2.1 ++ (setOp m l items).2.2) l) ∧ NodupKeys (setOp m l items).1 := by
  refine ⟨appendLoop_replay m l items, removeLoop_replay l ks, ?_, nodup_replay _ _ hn, setOp_nodup m l items hn⟩
  rw [look_replay, replayF_append, ← look_replay]
  have : replay (setOp m l items).2.1 l = (appendLoop m l items).1 := appendLoop_replay m l items
  rw [this]; exact setOp_gone_replay m l items

/-- **replay_notifications, any arrival order.** In the model a `KeyedMap` call (and the removals at the
end of any `SetValues`) may deliver its notifications in any order. If a call line takes the idle
state `s` to `s1`, and the notifications `ns` followed by `ret` are accepted from `s1` (ending in
`s2`), then replaying `ns` on the old contents gives the new contents (same lookups, no duplicate
keys on either side). -/
theorem replay_notifications_any_order (es : List Obs) (s s1 s2 : St) (o : Obs) (ns : List Note)
    (h : model.run model.init es = some s) (hl : s.live = true) (hidle : s.busy = none)
    (hb : s1.busy ≠ none) (h1 : step s o = some s1)
    (h2 : model.run s1 (ns.map Note.toObs ++ [.ret]) = some s2) :
    look (replay ns s.vals) = look s2.vals ∧ NodupKeys (replay ns s.vals) ∧ NodupKeys s2.vals :=
  replay_notifications_run s s1 s2 o ns (reachable_inv es s h) hl hidle hb h1 h2

/-- **C20, unique (observable form).** Every trace of the model is accepted by `monC20Unique`: every
notification is legitimate for the call in progress and for the listener's replayed copy (added ⇒ key
absent; updated ⇒ key present with a value the compare function calls different; removed ⇒ key
present with that value), the replayed copy passes the call's final check, and `GetKeys`/`GetValues`
always agree with the replayed copy. -/
theorem C20_obs_unique (es : List Obs) (s : St) (h : model.run model.init es = some s) :
    monC20Unique.accepts (es.filterMap model.obs) = true :=
  monitor_accepts_of_simulation model monC20Unique Rel ⟨rfl, init_inv, by intro h; cases h⟩
    (fun s e s' ms hR hs => sim_step s e s' ms hR hs) es s h

/-- non-vacuity: duplicates inside one SetValues (added, then updated), a removal of an unseen key -/
example : (model.run model.init
    [.new false 0 [(1, 105), (2, 206)], .callSet [(1, 105), (3, 307), (3, 308), (1, 109)],
     .chg 3 307 true false, .chg 3 308 false false, .chg 1 109 false false, .chg 2 206 false true, .ret,
     .keys [1, 3], .vals [109, 308]]).isSome = true := by
  decide

end Unique

end UtilModel.Seq
