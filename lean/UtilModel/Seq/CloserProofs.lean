import UtilModel.Seq.Monitors
/-!
# iocloser — close func exactly once, silence after Close, monitor simulation
-/
namespace UtilModel.Seq.IOCloser
open UtilModel UtilModel.Seq

/-- inductive invariant over the ghost counters -/
structure Inv (s : St) : Prop where
  /-- no call is in progress on an object that does not exist -/
  dead : s.live = false → s.cur = .idle
  /-- the wrapped stream is never reached after a Close was invoked -/
  untouched : s.touched = false
  /-- before the first Close: the close func is still stored and has not run -/
  opened : s.closeCalls = 0 → s.cf = s.hadFn ∧ s.fnCalls = 0 ∧ (∀ b, s.cur ≠ .closing b) ∧ (∀ e, s.cur ≠ .closeRan e)
  /-- from the first Close on: both fields are nil; the close func has run exactly once, unless there
  was none or the first Close is just about to call it -/
  closed : 0 < s.closeCalls → s.st = false ∧ s.cf = false ∧
    s.fnCalls = (if s.hadFn = true ∧ s.cur ≠ .closing true then 1 else 0) ∧
    (s.cur = .closing true → s.hadFn = true) ∧ (∀ e, s.cur = .closeRan e → s.hadFn = true)
  /-- a result of the wrapped stream is only ever pending while the stream field is set -/
  io : (∀ n e d, s.cur = .gotRead n e d → s.st = true) ∧ (∀ n e, s.cur = .gotWrite n e → s.st = true)

theorem init_inv : Inv ({} : St) :=
  ⟨fun _ => rfl, rfl, fun _ => ⟨rfl, rfl, (by intro b h; cases h), (by intro e h; cases h)⟩, by intro h; simp at h,
   ⟨(by intro n e d h; cases h), (by intro n e h; cases h)⟩⟩

/-- changing the program counter among states that are not part of `Close` keeps the invariant -/
theorem inv_cur (s : St) (c : Cur) (t : Bool) (hi : Inv s) (ht : t = true → s.closeCalls = 0)
    (h1 : ∀ b, c ≠ .closing b) (h2 : ∀ e, c ≠ .closeRan e)
    (h3 : ∀ b, s.cur ≠ .closing b) (hl : s.live = true)
    (h4 : (∀ n e d, c = .gotRead n e d → s.st = true) ∧ (∀ n e, c = .gotWrite n e → s.st = true)) :
    Inv { s with cur := c, touched := s.touched || (t && decide (0 < s.closeCalls)) } := by
  refine ⟨by intro h; simp [hl] at h, ?_, ?_, ?_, h4⟩
  · simp only [hi.untouched, Bool.false_or]
    cases t with
    | false => rfl
    | true => simp [ht rfl]
  · intro h0; obtain ⟨a, b, _, _⟩ := hi.opened h0; exact ⟨a, b, h1, h2⟩
  · intro h0; obtain ⟨a, b, c', _, _⟩ := hi.closed h0
    refine ⟨a, b, ?_, ?_, ?_⟩
    · have : s.cur ≠ .closing true := h3 true
      simpa [this, h1 true] using c'
    · intro h; exact absurd h (h1 true)
    · intro e h; exact absurd h (h2 e)

theorem live_of_cur (s : St) (hi : Inv s) (h : s.cur ≠ .idle) : s.live = true := by
  cases hl : s.live with
  | true => rfl
  | false => exact absurd (hi.dead hl) h

theorem step_inv (s : St) (o : Obs) (s' : St) (hi : Inv s) (hs : step s o = some s') : Inv s' := by
  cases o with
  | new wr st cf =>
    simp only [step] at hs; split at hs <;> simp at hs; subst hs
    exact ⟨by intro h; simp at h, rfl, fun _ => ⟨rfl, rfl, (by intro b h; cases h), (by intro e h; cases h)⟩, by intro h; simp at h,
      ⟨(by intro n e d h; cases h), (by intro n e h; cases h)⟩⟩
  | callRead len =>
    simp only [step] at hs; split at hs <;> simp at hs; subst hs
    rename_i h
    have := inv_cur s (.reading len) false hi (by simp) (by simp) (by simp) (by simp [h.2.2]) h.1 (by simp)
    simpa using this
  | cbRead len n err data =>
    simp only [step] at hs; split at hs <;> try simp at hs
    rename_i l hc
    obtain ⟨hg, rfl⟩ := hs
    have h0 : s.closeCalls = 0 := by
      cases hcc : s.closeCalls with
      | zero => rfl
      | succ k => have := (hi.closed (by omega)).1; rw [hg.2.1] at this; cases this
    have := inv_cur s (.gotRead n err data) true hi (fun _ => h0) (by simp) (by simp) (by simp [hc]) (live_of_cur s hi (by simp [hc])) (by simp [hg.2.1])
    simpa using this
  | retRead n err data =>
    simp only [step] at hs; split at hs <;> try simp at hs
    · rename_i hc; obtain ⟨_, rfl⟩ := hs
      have := inv_cur s .idle false hi (by simp) (by simp) (by simp) (by simp [hc]) (live_of_cur s hi (by simp [hc])) (by simp)
      simpa using this
    · rename_i hc; obtain ⟨_, rfl⟩ := hs
      have := inv_cur s .idle false hi (by simp) (by simp) (by simp) (by simp [hc]) (live_of_cur s hi (by simp [hc])) (by simp)
      simpa using this
  | callWrite data =>
    simp only [step] at hs; split at hs <;> simp at hs; subst hs
    rename_i h
    have := inv_cur s (.writing data) false hi (by simp) (by simp) (by simp) (by simp [h.2.2]) h.1 (by simp)
    simpa using this
  | cbWrite n err data =>
    simp only [step] at hs; split at hs <;> try simp at hs
    rename_i d hc
    obtain ⟨hg, rfl⟩ := hs
    have h0 : s.closeCalls = 0 := by
      cases hcc : s.closeCalls with
      | zero => rfl
      | succ k => have := (hi.closed (by omega)).1; rw [hg.2] at this; cases this
    have := inv_cur s (.gotWrite n err) true hi (fun _ => h0) (by simp) (by simp) (by simp [hc]) (live_of_cur s hi (by simp [hc])) (by simp [hg.2])
    simpa using this
  | retWrite n err =>
    simp only [step] at hs; split at hs <;> try simp at hs
    · rename_i hc; obtain ⟨_, rfl⟩ := hs
      have := inv_cur s .idle false hi (by simp) (by simp) (by simp) (by simp [hc]) (live_of_cur s hi (by simp [hc])) (by simp)
      simpa using this
    · rename_i hc; obtain ⟨_, rfl⟩ := hs
      have := inv_cur s .idle false hi (by simp) (by simp) (by simp) (by simp [hc]) (live_of_cur s hi (by simp [hc])) (by simp)
      simpa using this
  | callClose =>
    simp only [step] at hs; split at hs <;> simp at hs; subst hs
    rename_i h
    refine ⟨by intro hl; simp [h.1] at hl, hi.untouched, by intro h0; simp at h0, fun _ => ?_,
      ⟨(by intro n e d h; cases h), (by intro n e h; cases h)⟩⟩
    by_cases h0 : s.closeCalls = 0
    · obtain ⟨a, b, _, _⟩ := hi.opened h0
      refine ⟨rfl, rfl, ?_, ?_, (by intro e he; cases he)⟩
      · simp only [a, b]; cases s.hadFn <;> simp
      · intro hc; simpa [a] using hc
    · obtain ⟨a, b, c, _, _⟩ := hi.closed (by omega)
      refine ⟨rfl, rfl, ?_, ?_, (by intro e he; cases he)⟩
      · simp only [b]; simpa [h.2] using c
      · intro hc; simp [b] at hc
  | cbCloseFn err =>
    simp only [step] at hs; split at hs <;> simp at hs; subst hs
    rename_i hc
    have hpos : 0 < s.closeCalls := by
      cases hcc : s.closeCalls with
      | zero => exact absurd hc ((hi.opened hcc).2.2.1 true)
      | succ k => omega
    obtain ⟨a, b, c, d, _⟩ := hi.closed hpos
    have hlv := live_of_cur s hi (by simp [hc])
    refine ⟨by intro hl; simp [hlv] at hl, hi.untouched, by intro h0; simp only at h0; omega,
      fun _ => ⟨a, b, ?_, (by intro h; cases h), fun _ _ => d hc⟩,
      ⟨(by intro n e d h; cases h), (by intro n e h; cases h)⟩⟩
    simp [hc] at c
    simp [c, d hc]
  | retClose err =>
    simp only [step] at hs; split at hs <;> try simp at hs
    · rename_i e hc; obtain ⟨_, rfl⟩ := hs
      refine ⟨fun _ => rfl, hi.untouched, ?_, ?_, ⟨(by intro n e d h; cases h), (by intro n e h; cases h)⟩⟩
      · intro h0; exact absurd hc ((hi.opened h0).2.2.2 e)
      · intro h0; obtain ⟨a, b, c, _, _⟩ := hi.closed h0
        exact ⟨a, b, by simpa [hc] using c, (by intro h; cases h), (by intro e h; cases h)⟩
    · rename_i hc; obtain ⟨_, rfl⟩ := hs
      refine ⟨fun _ => rfl, hi.untouched, ?_, ?_, ⟨(by intro n e d h; cases h), (by intro n e h; cases h)⟩⟩
      · intro h0; exact absurd hc ((hi.opened h0).2.2.1 false)
      · intro h0; obtain ⟨a, b, c, _, _⟩ := hi.closed h0
        exact ⟨a, b, by simpa [hc] using c, (by intro h; cases h), (by intro e h; cases h)⟩

theorem reachable_inv (es : List Obs) (s : St) (h : model.run model.init es = some s) : Inv s :=
  model.run_invariant Inv step_inv _ s es init_inv h

/-! ## monitor simulation -/

def Rel (s : St) (ms : CloserM) : Prop :=
  ms.live = s.live ∧ Inv s ∧ (s.live = true →
    ms.cur = s.cur ∧ ms.hasFn = s.hadFn ∧ ms.closed = decide (0 < s.closeCalls) ∧ ms.fnCount = s.fnCalls ∧
    s.st = (ms.hasSt && !ms.closed))

/-- every line but `new` needs an object -/
theorem live_of_step (s : St) (o : Obs) (s' : St) (hi : Inv s) (hs : step s o = some s')
    (hn : ∀ a b c, o ≠ .new a b c) : s.live = true := by
  cases hl : s.live with
  | true => rfl
  | false =>
    have hc := hi.dead hl
    cases o <;> simp [step, hc, hl] at hs
    exact absurd rfl (hn _ _ _)

theorem sim_step (s : St) (o : Obs) (s' : St) (ms : CloserM) (hR : Rel s ms) (hs : step s o = some s') :
    ∃ ms', monC20Closer.step ms o = some ms' ∧ Rel s' ms' := by
  obtain ⟨hlive, hi, hrest⟩ := hR
  have hi' : Inv s' := step_inv s o s' hi hs
  by_cases hnew : ∃ a b c, o = .new a b c
  · obtain ⟨wr, st, cf, rfl⟩ := hnew
    simp only [step] at hs; split at hs <;> simp at hs; subst hs
    exact ⟨{ live := true, hasSt := st, hasFn := cf }, rfl, rfl, hi', fun _ => ⟨rfl, rfl, by simp, rfl, by simp⟩⟩
  · have hl : s.live = true := live_of_step s o s' hi hs (fun a b c h => hnew ⟨a, b, c, h⟩)
    obtain ⟨hcur, hfn, hcl, hcnt, hst⟩ := hrest hl
    have hml : ms.live = true := by rw [hlive, hl]
    cases o with
    | new a b c => exact absurd ⟨a, b, c, rfl⟩ hnew
    | callRead len =>
      simp only [step] at hs; split at hs <;> simp at hs; subst hs
      rename_i h
      have hc : ms.cur = .idle := by rw [hcur]; exact h.2.2
      exact ⟨{ ms with cur := .reading len }, by simp [monC20Closer, hml, hc], hlive, hi',
        fun _ => ⟨rfl, hfn, hcl, hcnt, hst⟩⟩
    | cbRead len n err data =>
      simp only [step] at hs; split at hs <;> try simp at hs
      rename_i l hc
      obtain ⟨hg, rfl⟩ := hs
      have hc' : ms.cur = .reading len := by rw [hcur, hc, hg.1]
      have hst' : ms.hasSt = true ∧ ms.closed = false := by
        have := hst; rw [hg.2.1] at this
        cases h1 : ms.hasSt <;> cases h2 : ms.closed <;> simp [h1, h2] at this ⊢
      exact ⟨{ ms with cur := .gotRead n err data }, by simp [monC20Closer, hml, hc', hst'.1, hst'.2], hlive, hi',
        fun _ => ⟨rfl, hfn, hcl, hcnt, hst⟩⟩
    | retRead n err data =>
      simp only [step] at hs; split at hs <;> try simp at hs
      · rename_i n' e' d' hc
        obtain ⟨⟨rfl, rfl, rfl⟩, rfl⟩ := hs
        have hc' : ms.cur = .gotRead n err data := by rw [hcur, hc]
        exact ⟨{ ms with cur := .idle }, by simp [monC20Closer, hml, hc'], hlive, hi',
          fun _ => ⟨rfl, hfn, hcl, hcnt, hst⟩⟩
      · rename_i l hc
        obtain ⟨⟨hs0, rfl, rfl, rfl⟩, rfl⟩ := hs
        have hc' : ms.cur = .reading l := by rw [hcur, hc]
        have hst' : ms.closed = true ∨ ms.hasSt = false := by
          have := hst; rw [hs0] at this
          cases h1 : ms.hasSt <;> cases h2 : ms.closed <;> simp [h1, h2] at this ⊢
        exact ⟨{ ms with cur := .idle }, by simp [monC20Closer, hml, hc', hst'], hlive, hi',
          fun _ => ⟨rfl, hfn, hcl, hcnt, hst⟩⟩
    | callWrite data =>
      simp only [step] at hs; split at hs <;> simp at hs; subst hs
      rename_i h
      have hc : ms.cur = .idle := by rw [hcur]; exact h.2.2
      exact ⟨{ ms with cur := .writing data }, by simp [monC20Closer, hml, hc], hlive, hi',
        fun _ => ⟨rfl, hfn, hcl, hcnt, hst⟩⟩
    | cbWrite n err data =>
      simp only [step] at hs; split at hs <;> try simp at hs
      rename_i d hc
      obtain ⟨hg, rfl⟩ := hs
      have hc' : ms.cur = .writing data := by rw [hcur, hc, hg.1]
      have hst' : ms.hasSt = true ∧ ms.closed = false := by
        have := hst; rw [hg.2] at this
        cases h1 : ms.hasSt <;> cases h2 : ms.closed <;> simp [h1, h2] at this ⊢
      exact ⟨{ ms with cur := .gotWrite n err }, by simp [monC20Closer, hml, hc', hst'.1, hst'.2], hlive, hi',
        fun _ => ⟨rfl, hfn, hcl, hcnt, hst⟩⟩
    | retWrite n err =>
      simp only [step] at hs; split at hs <;> try simp at hs
      · rename_i n' e' hc
        obtain ⟨⟨rfl, rfl⟩, rfl⟩ := hs
        have hc' : ms.cur = .gotWrite n err := by rw [hcur, hc]
        exact ⟨{ ms with cur := .idle }, by simp [monC20Closer, hml, hc'], hlive, hi',
          fun _ => ⟨rfl, hfn, hcl, hcnt, hst⟩⟩
      · rename_i d hc
        obtain ⟨⟨hs0, rfl, rfl⟩, rfl⟩ := hs
        have hc' : ms.cur = .writing d := by rw [hcur, hc]
        have hst' : ms.closed = true ∨ ms.hasSt = false := by
          have := hst; rw [hs0] at this
          cases h1 : ms.hasSt <;> cases h2 : ms.closed <;> simp [h1, h2] at this ⊢
        exact ⟨{ ms with cur := .idle }, by simp [monC20Closer, hml, hc', hst'], hlive, hi',
          fun _ => ⟨rfl, hfn, hcl, hcnt, hst⟩⟩
    | callClose =>
      simp only [step] at hs; split at hs <;> simp at hs; subst hs
      rename_i h
      have hc : ms.cur = .idle := by rw [hcur]; exact h.2
      have hcf : s.cf = (ms.hasFn && !ms.closed) := by
        rw [hfn, hcl]
        by_cases h0 : s.closeCalls = 0
        · simp [(hi.opened h0).1, h0]
        · have : 0 < s.closeCalls := by omega
          simp [(hi.closed this).2.1, this]
      refine ⟨{ ms with closed := true, cur := .closing (ms.hasFn && !ms.closed) },
        by simp [monC20Closer, hml, hc], hlive, hi', fun _ => ⟨by simp [hcf], hfn, by simp, hcnt, by simp⟩⟩
    | cbCloseFn err =>
      simp only [step] at hs; split at hs <;> simp at hs; subst hs
      rename_i hc
      have hc' : ms.cur = .closing true := by rw [hcur, hc]
      have hpos : 0 < s.closeCalls := by
        cases hcc : s.closeCalls with
        | zero => exact absurd hc ((hi.opened hcc).2.2.1 true)
        | succ k => omega
      have h0 : s.fnCalls = 0 := by have := (hi.closed hpos).2.2.1; simpa [hc] using this
      exact ⟨{ ms with fnCount := 1, cur := .closeRan err }, by simp [monC20Closer, hml, hc', hcnt, h0], hlive, hi',
        fun _ => ⟨rfl, hfn, hcl, by simp [h0], hst⟩⟩
    | retClose err =>
      simp only [step] at hs; split at hs <;> try simp at hs
      · rename_i e hc
        obtain ⟨rfl, rfl⟩ := hs
        have hc' : ms.cur = .closeRan err := by rw [hcur, hc]
        have hpos : 0 < s.closeCalls := by
          cases hcc : s.closeCalls with
          | zero => exact absurd hc ((hi.opened hcc).2.2.2 err)
          | succ k => omega
        obtain ⟨_, _, c, _, d⟩ := hi.closed hpos
        have h1 : s.fnCalls = 1 := by simpa [hc, d err hc] using c
        exact ⟨{ ms with cur := .idle }, by simp [monC20Closer, hml, hc', hcnt, h1], hlive, hi',
          fun _ => ⟨rfl, hfn, hcl, hcnt, hst⟩⟩
      · rename_i hc
        obtain ⟨rfl, rfl⟩ := hs
        have hc' : ms.cur = .closing false := by rw [hcur, hc]
        have hpos : 0 < s.closeCalls := by
          cases hcc : s.closeCalls with
          | zero => exact absurd hc ((hi.opened hcc).2.2.1 false)
          | succ k => omega
        obtain ⟨_, _, c, _, _⟩ := hi.closed hpos
        have h1 : ms.hasFn = true → ms.fnCount = 1 := by
          intro hf; rw [hcnt, c]; rw [hfn] at hf; simp [hf, hc]
        exact ⟨{ ms with cur := .idle }, by simp [monC20Closer, hml, hc']; exact h1, hlive, hi',
          fun _ => ⟨rfl, hfn, hcl, hcnt, hst⟩⟩

end UtilModel.Seq.IOCloser
