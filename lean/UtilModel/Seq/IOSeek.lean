import UtilModel.Seq.Common
/-!
# ioseek.ReaderAtSeeker — model (ioseek/reader-at-seeker.go)

State = the two `int64` fields `size`, `offset` plus the program counter of a `Read` in progress.
Arithmetic is on `Int` with the `int64` wrap-around made explicit (`wrap`) exactly where the Go code
adds (`r.offset + offset`, `r.size + offset`, `r.offset += int64(n)`).

Lines (all observable):

    new SIZE                      NewReaderAtSeeker(rd, SIZE)
    seek OFF WHENCE RES ERR       Seek(OFF, WHENCE) returned (RES, ERR)    ERR: 0 nil, 1 io.EOF, 2 invalid whence, 3 negative position
    call read LEN                 Read(p) invoked, len(p) = LEN
    cb readat LEN OFF N ERR       the wrapped ReaderAt.ReadAt(p, OFF) was reached with len(p) = LEN and returns (N, ERR)
    ret read N ERR                Read returned (N, ERR)

The wrapped `ReaderAt` is the environment: the model accepts whatever `(N, ERR)` it returns. Whether it
respected the contract of a reader over `SIZE` bytes (`0 ≤ N ≤ LEN`, `OFF + N ≤ SIZE`) is recorded in
the ghost flag `envOk` — the visible hypothesis of the range invariant.
-/
namespace UtilModel.Seq.IOSeek

def two63 : Int := 9223372036854775808
def two64 : Int := 18446744073709551616

/-- two's-complement `int64` wrap-around of a mathematical integer -/
def wrap (x : Int) : Int := (x + two63) % two64 - two63

def isI64 (x : Int) : Bool := decide (-two63 ≤ x) && decide (x < two63)

abbrev errWhence : Nat := 2
abbrev errNegative : Nat := 3

inductive Obs where
  | new (size : Int)
  | seek (off wh res : Int) (err : Nat)
  | callRead (len : Nat)
  | readAt (len : Nat) (off n : Int) (err : Nat)
  | retRead (n : Int) (err : Nat)
deriving DecidableEq, Repr

/-- program counter of the (single, sequential) caller -/
inductive Cur where
  | idle
  | reading (len : Nat)            -- inside Read, wrapped ReadAt not reached yet
  | gotRead (n : Int) (err : Nat)  -- wrapped ReadAt returned (n, err); Read has not returned yet
deriving DecidableEq, Repr

structure St where
  live : Bool := false
  size : Int := 0
  pos : Int := 0
  cur : Cur := .idle
  /-- ghost: `size ≥ 0` and every wrapped ReadAt so far stayed within `[0, LEN]` and within `size` -/
  envOk : Bool := true
deriving DecidableEq, Repr

/-- `newOffset` of reader-at-seeker.go:27-37 (`none` = invalid whence) -/
def seekTarget (s : St) (off wh : Int) : Option Int :=
  if wh = 0 then some off
  else if wh = 1 then some (wrap (s.pos + off))
  else if wh = 2 then some (wrap (s.size + off))
  else none

/-- result, error and new position of `Seek` (reader-at-seeker.go:26-51) -/
def seekRes (s : St) (off wh : Int) : Int × Nat × Int :=
  match seekTarget s off wh with
  | none => (0, errWhence, s.pos)
  | some t =>
    if t < 0 then (0, errNegative, s.pos)
    else if t > s.size then (0, errEOF, s.pos)
    else (t, errNil, t)

def readOk (s : St) (len : Nat) (n : Int) : Bool :=
  decide (0 ≤ n) && decide (n ≤ len) && decide (s.pos + n ≤ s.size)

def step (s : St) : Obs → Option St
  | .new size =>
    if s.cur = .idle ∧ isI64 size then
      some { live := true, size := size, pos := 0, cur := .idle, envOk := decide (0 ≤ size) }
    else none
  | .seek off wh res err =>
    if s.live ∧ s.cur = .idle ∧ isI64 off ∧ isI64 wh then
      let r := seekRes s off wh
      if res = r.1 ∧ err = r.2.1 then some { s with pos := r.2.2 } else none
    else none
  | .callRead len => if s.live ∧ s.cur = .idle then some { s with cur := .reading len } else none
  | .readAt len off n err =>
    match s.cur with
    | .reading l =>
      if len = l ∧ off = s.pos ∧ isI64 n then
        some { s with cur := .gotRead n err, envOk := s.envOk && readOk s len n }
      else none
    | _ => none
  | .retRead n err =>
    match s.cur with
    | .gotRead n' e' =>
      if n = n' ∧ err = e' then some { s with pos := wrap (s.pos + n), cur := .idle } else none
    | _ => none

def model : OLTS St Obs Obs := detModel {} step

def Obs.parse : List String → Option Obs
  | ["new", s] => do pure (.new (← s.toInt?))
  | ["seek", o, w, r, e] => do pure (.seek (← o.toInt?) (← w.toInt?) (← r.toInt?) (← e.toNat?))
  | ["call", "read", l] => do pure (.callRead (← l.toNat?))
  | ["cb", "readat", l, o, n, e] => do pure (.readAt (← l.toNat?) (← o.toInt?) (← n.toInt?) (← e.toNat?))
  | ["ret", "read", n, e] => do pure (.retRead (← n.toInt?) (← e.toNat?))
  | _ => none

end UtilModel.Seq.IOSeek
