import UtilModel.Seq.Monitors
/-!
# ioproxy — bytes in order, both ends closed, callback twice; monitor simulation
-/
namespace UtilModel.Seq.IOProxy
open UtilModel UtilModel.Seq

/-- the copy loop of the pump has ended -/
def PC.stopped : PC → Bool
  | .reading | .writing _ _ => false
  | _ => true

/-- the pump has closed its source -/
def PC.pastSrc : PC → Bool
  | .closeDst | .callback | .done => true
  | _ => false

/-- the pump has closed its destination -/
def PC.pastDst : PC → Bool
  | .callback | .done => true
  | _ => false

/-- bytes read but not yet offered to the destination -/
def PC.pend : PC → List Nat
  | .writing c _ => c
  | _ => []

def b2n (b : Bool) : Nat := if b then 1 else 0

@[simp] theorem b2n_true : b2n true = 1 := rfl
@[simp] theorem b2n_false : b2n false = 0 := rfl
@[simp] theorem pastSrc_reading : PC.reading.pastSrc = false := rfl
@[simp] theorem pastSrc_writing (c e) : (PC.writing c e).pastSrc = false := rfl
@[simp] theorem pastSrc_closeSrc : PC.closeSrc.pastSrc = false := rfl
@[simp] theorem pastSrc_closeDst : PC.closeDst.pastSrc = true := rfl
@[simp] theorem pastSrc_callback : PC.callback.pastSrc = true := rfl
@[simp] theorem pastSrc_done : PC.done.pastSrc = true := rfl
@[simp] theorem pastDst_reading : PC.reading.pastDst = false := rfl
@[simp] theorem pastDst_writing (c e) : (PC.writing c e).pastDst = false := rfl
@[simp] theorem pastDst_closeSrc : PC.closeSrc.pastDst = false := rfl
@[simp] theorem pastDst_closeDst : PC.closeDst.pastDst = false := rfl
@[simp] theorem pastDst_callback : PC.callback.pastDst = true := rfl
@[simp] theorem pastDst_done : PC.done.pastDst = true := rfl
@[simp] theorem stopped_reading : PC.reading.stopped = false := rfl
@[simp] theorem stopped_writing (c e) : (PC.writing c e).stopped = false := rfl
@[simp] theorem stopped_closeSrc : PC.closeSrc.stopped = true := rfl
@[simp] theorem stopped_closeDst : PC.closeDst.stopped = true := rfl
@[simp] theorem stopped_callback : PC.callback.stopped = true := rfl
@[simp] theorem stopped_done : PC.done.stopped = true := rfl
@[simp] theorem pend_reading : PC.reading.pend = [] := rfl
@[simp] theorem pend_writing (c e) : (PC.writing c e).pend = c := rfl
@[simp] theorem pend_closeSrc : PC.closeSrc.pend = [] := rfl
@[simp] theorem pend_closeDst : PC.closeDst.pend = [] := rfl
@[simp] theorem pend_callback : PC.callback.pend = [] := rfl
@[simp] theorem pend_done : PC.done.pend = [] := rfl

/-! ### per-pump data invariant -/

structure PumpInv (x : Pump) : Prop where
  /-- what the destination accepted is a prefix of what was read: nothing reordered, nothing invented -/
  pre : x.wr <+: x.rd
  /-- as long as no write fell short, everything read has been accepted or is the chunk in flight -/
  all : x.lost = false → x.rd = x.wr ++ x.pc.pend
  /-- a short write ends the copy loop -/
  lostStop : x.lost = true → x.pc.stopped = true

theorem pumpInv_init : PumpInv {} := ⟨by simp, by simp [PC.pend], by simp⟩

/-- moving the program counter among states without a chunk in flight -/
theorem pumpInv_pc (x : Pump) (c : PC) (hi : PumpInv x) (h1 : x.pc.pend = []) (h2 : c.pend = [])
    (h3 : x.pc.stopped = true → c.stopped = true) : PumpInv { x with pc := c } :=
  ⟨hi.pre, by intro h; have := hi.all h; simpa [h1, h2] using this, fun h => h3 (hi.lostStop h)⟩

theorem pumpInv_read (x : Pump) (data : List Nat) (err : Nat) (hi : PumpInv x) (hp : x.pc = .reading) :
    PumpInv { x with pc := .writing data err, rd := x.rd ++ data } := by
  refine ⟨?_, ?_, ?_⟩
  · exact List.IsPrefix.trans hi.pre (List.prefix_append _ _)
  · intro h; have := hi.all h; simp [hp, PC.pend] at this; simp [PC.pend, this]
  · intro h; have := hi.lostStop h; simp [hp, PC.stopped] at this

theorem accepted_le (len : Nat) (n : Int) : accepted len n ≤ len := by
  unfold accepted; split <;> omega

theorem stops_of_short (len : Nat) (n : Int) (err er : Nat) (h : accepted len n ≠ len) :
    stopsAfterWrite len n err er = true := by
  simp [stopsAfterWrite, h]

theorem pumpInv_write (x : Pump) (chunk : List Nat) (er : Nat) (n : Int) (err : Nat) (hi : PumpInv x)
    (hp : x.pc = .writing chunk er) :
    PumpInv { x with
      pc := if stopsAfterWrite chunk.length n err er then .closeSrc else .reading
      wr := x.wr ++ chunk.take (accepted chunk.length n)
      lost := x.lost || decide (accepted chunk.length n ≠ chunk.length) } := by
  have hl : x.lost = false := by
    cases h : x.lost with
    | false => rfl
    | true => have := hi.lostStop h; simp [hp, PC.stopped] at this
  have hall := hi.all hl
  simp only [hp, PC.pend] at hall
  refine ⟨?_, ?_, ?_⟩
  · simp only [hall]
    exact (List.prefix_append_right_inj _).mpr (List.take_prefix _ _)
  · intro h
    simp only [hl, Bool.false_or, decide_eq_false_iff_not, Decidable.not_not] at h
    have hp' : (if stopsAfterWrite chunk.length n err er = true then PC.closeSrc else PC.reading).pend = [] := by
      split <;> rfl
    simp only [hp', List.append_nil, hall, h, List.take_length]
  · intro h
    simp only [hl, Bool.false_or, decide_eq_true_eq] at h
    simp [stops_of_short _ _ _ _ h, PC.stopped]

/-! ### counters -/

structure CInv (s : St) : Prop where
  c1 : s.closes1 = b2n s.a.pc.pastSrc + b2n s.b.pc.pastDst
  c2 : s.closes2 = b2n s.a.pc.pastDst + b2n s.b.pc.pastSrc
  cbs : s.cbs = b2n (s.hasCb && decide (s.a.pc = .done)) + b2n (s.hasCb && decide (s.b.pc = .done))
  nocb : s.hasCb = false → s.a.pc ≠ .callback ∧ s.b.pc ≠ .callback
  dead : s.live = false → s.a.pc = .reading ∧ s.b.pc = .reading

structure Inv (s : St) : Prop where
  cnt : CInv s
  pa : PumpInv s.a
  pb : PumpInv s.b

theorem init_inv : Inv ({} : St) :=
  ⟨⟨rfl, rfl, rfl, fun _ => ⟨(by intro h; cases h), (by intro h; cases h)⟩, fun _ => ⟨rfl, rfl⟩⟩,
   pumpInv_init, pumpInv_init⟩

/-- a pump moves without closing anything or finishing -/
theorem inv_move (s : St) (p : Bool) (x' : Pump) (hi : Inv s) (hx : PumpInv x') (hl : s.live = true)
    (h1 : x'.pc.pastSrc = (s.pump p).pc.pastSrc) (h2 : x'.pc.pastDst = (s.pump p).pc.pastDst)
    (h3 : decide (x'.pc = .done) = decide ((s.pump p).pc = .done)) (h4 : x'.pc ≠ .callback) :
    Inv (s.setPump p x') := by
  obtain ⟨⟨c1, c2, cbs, nocb, dead⟩, pa, pb⟩ := hi
  cases p
  · simp only [St.pump, Bool.false_eq_true, if_false] at h1 h2 h3
    simp only [St.setPump, Bool.false_eq_true, if_false]
    exact ⟨⟨by simp only [h1]; exact c1, by simp only [h2]; exact c2, by simp only [h3]; exact cbs,
      fun h => ⟨h4, (nocb h).2⟩, by intro h; simp [hl] at h⟩, hx, pb⟩
  · simp only [St.pump, if_true] at h1 h2 h3
    simp only [St.setPump, if_true]
    exact ⟨⟨by simp only [h2]; exact c1, by simp only [h1]; exact c2, by simp only [h3]; exact cbs,
      fun h => ⟨(nocb h).1, h4⟩, by intro h; simp [hl] at h⟩, pa, hx⟩

theorem pump_inv (s : St) (p : Bool) (hi : Inv s) : PumpInv (s.pump p) := by
  cases p
  · simpa [St.pump] using hi.pa
  · simpa [St.pump] using hi.pb

theorem live_of_pc (s : St) (p : Bool) (hi : Inv s) (h : (s.pump p).pc ≠ .reading) : s.live = true := by
  cases hl : s.live with
  | true => rfl
  | false => have := hi.cnt.dead hl; cases p <;> simp [St.pump, this.1, this.2] at h

theorem step_inv (s : St) (e : Ev) (s' : St) (hi : Inv s) (hs : step s e = some s') : Inv s' := by
  cases e with
  | new cb =>
    simp only [step] at hs; split at hs <;> simp at hs; subst hs
    exact ⟨⟨rfl, rfl, by cases cb <;> rfl, fun _ => ⟨(by intro h; cases h), (by intro h; cases h)⟩,
      by intro h; simp at h⟩, pumpInv_init, pumpInv_init⟩
  | read p err data =>
    simp only [step] at hs; split at hs <;> try simp at hs
    rename_i hl
    split at hs <;> try simp at hs
    rename_i hp
    by_cases hd : data = []
    · by_cases he : err = 0
      · simp [hd, he] at hs; subst hs; exact hi
      · simp [hd, he] at hs; subst hs
        exact inv_move s p _ hi (pumpInv_pc _ .closeSrc (pump_inv s p hi) (by simp [hp, PC.pend]) rfl
          (by simp [PC.stopped])) hl (by simp [hp, PC.pastSrc]) (by simp [hp, PC.pastDst]) (by simp [hp])
          (by simp)
    · simp [hd] at hs; subst hs
      exact inv_move s p _ hi (pumpInv_read _ data err (pump_inv s p hi) hp) hl (by simp [hp, PC.pastSrc])
        (by simp [hp, PC.pastDst]) (by simp [hp]) (by simp)
  | write p n err data =>
    simp only [step] at hs
    split at hs
    · rename_i chunk er hp
      split at hs
      · rename_i hd; subst hd
        simp only [Option.some.injEq] at hs; subst hs
        have hl := live_of_pc s p hi (by simp [hp])
        refine inv_move s p _ hi (pumpInv_write _ data er n err (pump_inv s p hi) hp) hl ?_ ?_ ?_ ?_
        · simp only [hp]; split <;> rfl
        · simp only [hp]; split <;> rfl
        · simp only [hp]; split <;> simp
        · simp only; split <;> simp
      · simp at hs
    · simp at hs
  | close p st =>
    have hpi := pump_inv s p hi
    obtain ⟨⟨c1, c2, cbs, nocb, dead⟩, pa, pb⟩ := hi
    simp only [step] at hs
    split at hs <;> try simp at hs
    · -- closeSrc → closeDst
      rename_i hp
      obtain ⟨rfl, rfl⟩ := hs
      have hl : s.live = true := live_of_pc s p ⟨⟨c1, c2, cbs, nocb, dead⟩, pa, pb⟩ (by simp [hp])
      have hx := pumpInv_pc _ .closeDst hpi (by simp [hp, PC.pend]) rfl (by simp [PC.stopped])
      cases p
      · simp only [St.pump, Bool.false_eq_true, if_false] at hp hx
        refine ⟨⟨?_, ?_, ?_, ?_, by intro h; simp [St.setPump, src, hl] at h⟩, ?_, ?_⟩ <;>
          simp_all [St.setPump, St.pump, src] <;> omega
      · simp only [St.pump, if_true] at hp hx
        refine ⟨⟨?_, ?_, ?_, ?_, by intro h; simp [St.setPump, src, hl] at h⟩, ?_, ?_⟩ <;>
          simp_all [St.setPump, St.pump, src] <;> omega
    · -- closeDst → callback / done
      rename_i hp
      obtain ⟨rfl, rfl⟩ := hs
      have hl : s.live = true := live_of_pc s p ⟨⟨c1, c2, cbs, nocb, dead⟩, pa, pb⟩ (by simp [hp])
      have hx := pumpInv_pc _ (if s.hasCb then .callback else .done) hpi (by simp [hp, PC.pend])
        (by split <;> rfl) (by intro _; split <;> rfl)
      cases p
      · simp only [St.pump, Bool.false_eq_true, if_false] at hp hx
        refine ⟨⟨?_, ?_, ?_, ?_, by intro h; simp [St.setPump, dst, hl] at h⟩, ?_, ?_⟩ <;>
          cases hcb : s.hasCb <;>
          simp_all [St.setPump, St.pump, dst] <;> omega
      · simp only [St.pump, if_true] at hp hx
        refine ⟨⟨?_, ?_, ?_, ?_, by intro h; simp [St.setPump, dst, hl] at h⟩, ?_, ?_⟩ <;>
          cases hcb : s.hasCb <;>
          simp_all [St.setPump, St.pump, dst] <;> omega
  | cbk p =>
    have hpi := pump_inv s p hi
    obtain ⟨⟨c1, c2, cbs, nocb, dead⟩, pa, pb⟩ := hi
    simp only [step] at hs
    split at hs <;> simp at hs
    rename_i hp
    subst hs
    have hl : s.live = true := live_of_pc s p ⟨⟨c1, c2, cbs, nocb, dead⟩, pa, pb⟩ (by simp [hp])
    have hx := pumpInv_pc _ .done hpi (by simp [hp, PC.pend]) rfl (by simp [PC.stopped])
    have hcb : s.hasCb = true := by
      cases h : s.hasCb with
      | true => rfl
      | false => have := nocb h; cases p <;> simp_all [St.pump]
    cases p
    · simp only [St.pump, Bool.false_eq_true, if_false] at hp hx
      refine ⟨⟨?_, ?_, ?_, ?_, by intro h; simp [St.setPump, hl] at h⟩, ?_, ?_⟩ <;>
        simp_all [St.setPump, St.pump] <;> omega
    · simp only [St.pump, if_true] at hp hx
      refine ⟨⟨?_, ?_, ?_, ?_, by intro h; simp [St.setPump, hl] at h⟩, ?_, ?_⟩ <;>
        simp_all [St.setPump, St.pump] <;> omega
  | quiesce =>
    simp only [step] at hs; split at hs <;> simp at hs; subst hs
    exact hi

theorem reachable_inv (es : List Ev) (s : St) (h : model.run model.init es = some s) : Inv s :=
  model.run_invariant Inv step_inv _ s es init_inv h

/-! ## monitor simulation -/

def pendOf : PC → Option (List Nat × Nat)
  | .writing c e => some (c, e)
  | _ => none

def DirRel (x : Pump) (d : DirM) : Prop := d.pending = pendOf x.pc ∧ d.stopped = x.pc.stopped

def Rel (s : St) (ms : ProxyM) : Prop :=
  ms.live = s.live ∧ ms.hasCb = s.hasCb ∧ DirRel s.a ms.a ∧ DirRel s.b ms.b ∧
    ms.c1 = s.closes1 ∧ ms.c2 = s.closes2 ∧ ms.cbs = s.cbs ∧ Inv s

theorem pastDst_le_stopped (c : PC) : b2n c.pastDst ≤ b2n c.stopped := by cases c <;> simp
theorem pastSrc_le_stopped (c : PC) : b2n c.pastSrc ≤ b2n c.stopped := by cases c <;> simp
theorem done_le_pastDst (c : PC) (b : Bool) : b2n (b && decide (c = .done)) ≤ b2n c.pastDst := by
  cases c <;> cases b <;> simp
theorem done_le_pastSrc (c : PC) (b : Bool) : b2n (b && decide (c = .done)) ≤ b2n c.pastSrc := by
  cases c <;> cases b <;> simp

theorem nStopped_eq (s : St) (ms : ProxyM) (ha : DirRel s.a ms.a) (hb : DirRel s.b ms.b) :
    ms.nStopped = b2n s.a.pc.stopped + b2n s.b.pc.stopped := by
  simp only [ProxyM.nStopped, ha.2, hb.2, b2n]

theorem dirRead_sim (x : Pump) (d : DirM) (err : Nat) (data : List Nat) (hr : DirRel x d)
    (hp : x.pc = .reading) :
    (data ≠ [] → ∃ d', dirRead d err data = some d' ∧
        DirRel { x with pc := .writing data err, rd := x.rd ++ data } d') ∧
    (data = [] → err ≠ 0 → ∃ d', dirRead d err data = some d' ∧ DirRel { x with pc := .closeSrc } d') ∧
    (data = [] → err = 0 → dirRead d err data = some d) := by
  obtain ⟨h1, h2⟩ := hr
  rw [hp] at h1 h2
  simp only [pendOf] at h1; simp only [stopped_reading] at h2
  refine ⟨?_, ?_, ?_⟩
  · intro hd
    exact ⟨{ d with pending := some (data, err) }, by simp [dirRead, h1, h2, hd], rfl, by simpa using h2⟩
  · intro hd he
    exact ⟨{ d with stopped := true }, by simp [dirRead, h1, h2, hd, he], by simpa [pendOf] using h1, rfl⟩
  · intro hd he
    simp [dirRead, h1, h2, hd, he]

theorem dirWrite_sim (x : Pump) (d : DirM) (n : Int) (err er : Nat) (data : List Nat) (hr : DirRel x d)
    (hp : x.pc = .writing data er) (wr : List Nat) (lost : Bool) :
    ∃ d', dirWrite d n err data = some d' ∧
      DirRel { x with pc := if stopsAfterWrite data.length n err er then .closeSrc else .reading,
                      wr := wr, lost := lost } d' := by
  obtain ⟨h1, h2⟩ := hr
  rw [hp] at h1
  simp only [pendOf] at h1
  refine ⟨{ pending := none, stopped := stopsAfterWrite data.length n err er }, by simp [dirWrite, h1], ?_, ?_⟩
  · simp only; split <;> rfl
  · simp only; split <;> simp [*]

theorem sim_step (s : St) (e : Ev) (s' : St) (ms : ProxyM) (hR : Rel s ms) (hs : step s e = some s') :
    ∃ o, Ev.obs e = some o ∧ ∃ ms', monC20Proxy.step ms o = some ms' ∧ Rel s' ms' := by
  obtain ⟨hlive, hcb, ha, hb, h1, h2, h3, hi⟩ := hR
  have hi' : Inv s' := step_inv s e s' hi hs
  cases e with
  | new cb =>
    simp only [step] at hs; split at hs <;> simp at hs; subst hs
    rename_i hl
    refine ⟨_, rfl, { live := true, hasCb := cb }, by simp [monC20Proxy, hlive, hl], rfl, rfl, ⟨rfl, rfl⟩,
      ⟨rfl, rfl⟩, rfl, rfl, rfl, hi'⟩
  | read p err data =>
    refine ⟨_, rfl, ?_⟩
    simp only [step] at hs; split at hs <;> try simp at hs
    rename_i hl
    split at hs <;> try simp at hs
    rename_i hp
    cases p
    · simp only [St.pump, Bool.false_eq_true, if_false] at hp
      obtain ⟨r1, r2, r3⟩ := dirRead_sim s.a ms.a err data ha hp
      by_cases hd : data = []
      · by_cases he : err = 0
        · simp [hd, he] at hs; subst hs
          exact ⟨ms, by simp [monC20Proxy, src, r3 hd he], hlive, hcb, ha, hb, h1, h2, h3, hi⟩
        · simp [hd, he] at hs; subst hs
          obtain ⟨d', e1, e2⟩ := r2 hd he
          exact ⟨{ ms with a := d' }, by simp [monC20Proxy, src, e1], hlive, hcb,
            by simpa [St.setPump, St.pump] using e2, hb, h1, h2, h3, hi'⟩
      · simp [hd] at hs; subst hs
        obtain ⟨d', e1, e2⟩ := r1 hd
        exact ⟨{ ms with a := d' }, by simp [monC20Proxy, src, e1], hlive, hcb,
          by simpa [St.setPump, St.pump] using e2, hb, h1, h2, h3, hi'⟩
    · simp only [St.pump, if_true] at hp
      obtain ⟨r1, r2, r3⟩ := dirRead_sim s.b ms.b err data hb hp
      by_cases hd : data = []
      · by_cases he : err = 0
        · simp [hd, he] at hs; subst hs
          exact ⟨ms, by simp [monC20Proxy, src, r3 hd he], hlive, hcb, ha, hb, h1, h2, h3, hi⟩
        · simp [hd, he] at hs; subst hs
          obtain ⟨d', e1, e2⟩ := r2 hd he
          exact ⟨{ ms with b := d' }, by simp [monC20Proxy, src, e1], hlive, hcb, ha,
            by simpa [St.setPump, St.pump] using e2, h1, h2, h3, hi'⟩
      · simp [hd] at hs; subst hs
        obtain ⟨d', e1, e2⟩ := r1 hd
        exact ⟨{ ms with b := d' }, by simp [monC20Proxy, src, e1], hlive, hcb, ha,
          by simpa [St.setPump, St.pump] using e2, h1, h2, h3, hi'⟩
  | write p n err data =>
    refine ⟨_, rfl, ?_⟩
    simp only [step] at hs
    split at hs
    · rename_i chunk er hp
      split at hs
      · rename_i hd; subst hd
        simp only [Option.some.injEq] at hs; subst hs
        cases p
        · simp only [St.pump, Bool.false_eq_true, if_false] at hp
          obtain ⟨d', e1, e2⟩ := dirWrite_sim s.a ms.a n err er data ha hp
            (s.a.wr ++ data.take (accepted data.length n)) (s.a.lost || decide (accepted data.length n ≠ data.length))
          exact ⟨{ ms with a := d' }, by simp [monC20Proxy, dst, e1], hlive, hcb,
            by simpa [St.setPump, St.pump] using e2, hb, h1, h2, h3, hi'⟩
        · simp only [St.pump, if_true] at hp
          obtain ⟨d', e1, e2⟩ := dirWrite_sim s.b ms.b n err er data hb hp
            (s.b.wr ++ data.take (accepted data.length n)) (s.b.lost || decide (accepted data.length n ≠ data.length))
          exact ⟨{ ms with b := d' }, by simp [monC20Proxy, dst, e1], hlive, hcb, ha,
            by simpa [St.setPump, St.pump] using e2, h1, h2, h3, hi'⟩
      · simp at hs
    · simp at hs
  | close p st =>
    refine ⟨_, rfl, ?_⟩
    have hn := nStopped_eq s ms ha hb
    obtain ⟨c1, c2, cbs, nocb, dead⟩ := hi.cnt
    have q1 := pastDst_le_stopped s.a.pc
    have q2 := pastDst_le_stopped s.b.pc
    have q3 := pastSrc_le_stopped s.a.pc
    have q4 := pastSrc_le_stopped s.b.pc
    simp only [step] at hs
    split at hs <;> try simp at hs
    · rename_i hp
      obtain ⟨rfl, rfl⟩ := hs
      cases p
      · simp only [St.pump, Bool.false_eq_true, if_false] at hp
        refine ⟨{ ms with c1 := ms.c1 + 1 }, ?_, hlive, hcb, ?_, hb, ?_, h2, h3, hi'⟩
        · have : ms.c1 + 1 ≤ ms.nStopped := by rw [hn, h1, c1]; simp [hp] at *; omega
          simp [monC20Proxy, src, this]
        · simp [St.setPump, St.pump, src, DirRel, pendOf, ha.1, ha.2, hp]
        · simp [St.setPump, src, h1]
      · simp only [St.pump, if_true] at hp
        refine ⟨{ ms with c2 := ms.c2 + 1 }, ?_, hlive, hcb, ha, ?_, h1, ?_, h3, hi'⟩
        · have : ms.c2 + 1 ≤ ms.nStopped := by rw [hn, h2, c2]; simp [hp] at *; omega
          simp [monC20Proxy, src, this]
        · simp [St.setPump, St.pump, src, DirRel, pendOf, hb.1, hb.2, hp]
        · simp [St.setPump, src, h2]
    · rename_i hp
      obtain ⟨rfl, rfl⟩ := hs
      cases p
      · simp only [St.pump, Bool.false_eq_true, if_false] at hp
        refine ⟨{ ms with c2 := ms.c2 + 1 }, ?_, hlive, hcb, ?_, hb, h1, ?_, h3, hi'⟩
        · have : ms.c2 + 1 ≤ ms.nStopped := by rw [hn, h2, c2]; simp [hp] at *; omega
          simp [monC20Proxy, dst, this]
        · simp only [St.setPump, St.pump, dst, DirRel, ha.1, ha.2, hp]
          cases s.hasCb <;> simp [pendOf]
        · simp [St.setPump, dst, h2]
      · simp only [St.pump, if_true] at hp
        refine ⟨{ ms with c1 := ms.c1 + 1 }, ?_, hlive, hcb, ha, ?_, ?_, h2, h3, hi'⟩
        · have : ms.c1 + 1 ≤ ms.nStopped := by rw [hn, h1, c1]; simp [hp] at *; omega
          simp [monC20Proxy, dst, this]
        · simp only [St.setPump, St.pump, dst, DirRel, hb.1, hb.2, hp]
          cases s.hasCb <;> simp [pendOf]
        · simp [St.setPump, dst, h1]
  | cbk p =>
    refine ⟨_, rfl, ?_⟩
    obtain ⟨c1, c2, cbs, nocb, dead⟩ := hi.cnt
    have q1 := done_le_pastDst s.a.pc s.hasCb
    have q2 := done_le_pastDst s.b.pc s.hasCb
    have q3 := done_le_pastSrc s.a.pc s.hasCb
    have q4 := done_le_pastSrc s.b.pc s.hasCb
    simp only [step] at hs
    split at hs <;> simp at hs
    rename_i hp
    subst hs
    have hcb' : s.hasCb = true := by
      cases h : s.hasCb with
      | true => rfl
      | false => have := nocb h; cases p <;> simp_all [St.pump]
    cases p
    · simp only [St.pump, Bool.false_eq_true, if_false] at hp
      refine ⟨{ ms with cbs := ms.cbs + 1 }, ?_, hlive, hcb, ?_, hb, h1, h2, by simp [St.setPump, h3], hi'⟩
      · have : ms.cbs + 1 ≤ ms.c1 ∧ ms.cbs + 1 ≤ ms.c2 := by
          rw [h1, h2, h3, c1, c2, cbs]; simp [hp] at *; omega
        simp [monC20Proxy, hcb, hcb', this]
      · simp [St.setPump, St.pump, DirRel, pendOf, ha.1, ha.2, hp]
    · simp only [St.pump, if_true] at hp
      refine ⟨{ ms with cbs := ms.cbs + 1 }, ?_, hlive, hcb, ha, ?_, h1, h2, by simp [St.setPump, h3], hi'⟩
      · have : ms.cbs + 1 ≤ ms.c1 ∧ ms.cbs + 1 ≤ ms.c2 := by
          rw [h1, h2, h3, c1, c2, cbs]; simp [hp] at *; omega
        simp [monC20Proxy, hcb, hcb', this]
      · simp [St.setPump, St.pump, DirRel, pendOf, hb.1, hb.2, hp]
  | quiesce =>
    refine ⟨_, rfl, ?_⟩
    obtain ⟨c1, c2, cbs, nocb, dead⟩ := hi.cnt
    simp only [step] at hs; split at hs <;> simp at hs; subst hs
    rename_i hq
    obtain ⟨hl, hpa, hpb⟩ := hq
    refine ⟨ms, ?_, hlive, hcb, ha, hb, h1, h2, h3, hi⟩
    have e1 : ms.c1 = 2 := by rw [h1, c1]; simp [hpa, hpb]
    have e2 : ms.c2 = 2 := by rw [h2, c2]; simp [hpa, hpb]
    have e3 : ms.cbs = if ms.hasCb = true then 2 else 0 := by
      rw [h3, cbs, hcb]; cases s.hasCb <;> simp [hpa, hpb]
    simp [monC20Proxy, hlive, hl, ha.1, ha.2, hb.1, hb.2, hpa, hpb, pendOf, e1, e2, e3]

end UtilModel.Seq.IOProxy
