import UtilModel.Seq.Monitors
/-!
# ioseek — invariants, refinement to the bounded section reader, monitor simulation
-/
namespace UtilModel.Seq.IOSeek
open UtilModel UtilModel.Seq

theorem wrap_id (x : Int) (h1 : -two63 ≤ x) (h2 : x < two63) : wrap x = x := by
  unfold wrap two63 two64 at *; omega

theorem wrap_range (x : Int) : -two63 ≤ wrap x ∧ wrap x < two63 := by
  unfold wrap two63 two64; omega

/-- an `int64` sum that left the `int64` range upwards comes back negative -/
theorem wrap_over (x : Int) (h1 : two63 ≤ x) (h2 : x < two64) : wrap x < 0 := by
  unfold wrap two63 two64 at *; omega

theorem isI64_iff (x : Int) : isI64 x = true ↔ -two63 ≤ x ∧ x < two63 := by
  simp [isI64]

/-- reference semantics of `Seek` on a bounded section reader, in ℤ (no wrap-around):
`some t` = succeeds, returns `t` and moves to `t`; `none` = fails -/
def specSeek (size pos off wh : Int) : Option Int :=
  if wh = 0 ∨ wh = 1 ∨ wh = 2 then
    let t := (if wh = 0 then 0 else if wh = 1 then pos else size) + off
    if 0 ≤ t ∧ t ≤ size then some t else none
  else none

/-- range part of the invariant -/
def InRange (s : St) : Prop := 0 ≤ s.pos ∧ s.pos ≤ s.size ∧ s.size < two63

theorem seekRes_refines (s : St) (off wh : Int) (hr : InRange s) (ho : isI64 off = true) :
    match specSeek s.size s.pos off wh with
    | some t => seekRes s off wh = (t, errNil, t)
    | none => (seekRes s off wh).1 = 0 ∧ (seekRes s off wh).2.1 ≠ errNil ∧ (seekRes s off wh).2.2 = s.pos := by
  obtain ⟨h0, h1, h2⟩ := hr
  rw [isI64_iff] at ho
  unfold specSeek seekRes seekTarget
  by_cases w0 : wh = 0
  · subst w0
    simp only [true_or, if_true, Int.zero_add]
    by_cases ht : 0 ≤ off ∧ off ≤ s.size
    · have : ¬ off < 0 := by omega
      have : ¬ off > s.size := by omega
      simp [*]
    · simp only [ht, if_false]
      by_cases hn : off < 0
      · simp [hn, errNegative]
      · have : off > s.size := by omega
        simp [hn, this, errEOF]
  · by_cases w1 : wh = 1
    · subst w1
      simp only [w0, if_false, true_or, or_true, if_true]
      by_cases hov : s.pos + off < two63
      · rw [wrap_id _ (by unfold two63 at *; omega) hov]
        by_cases ht : 0 ≤ s.pos + off ∧ s.pos + off ≤ s.size
        · have : ¬ s.pos + off < 0 := by omega
          have : ¬ s.pos + off > s.size := by omega
          simp [*]
        · simp only [ht, if_false]
          by_cases hn : s.pos + off < 0
          · simp [hn, errNegative]
          · have : s.pos + off > s.size := by omega
            simp [hn, this, errEOF]
      · have hneg := wrap_over (s.pos + off) (by omega) (by unfold two63 two64 at *; omega)
        have ht : ¬ (0 ≤ s.pos + off ∧ s.pos + off ≤ s.size) := by omega
        simp [ht, hneg, errNegative]
    · by_cases w2 : wh = 2
      · subst w2
        simp only [w0, w1, if_false, or_true, if_true]
        by_cases hov : s.size + off < two63
        · rw [wrap_id _ (by unfold two63 at *; omega) hov]
          by_cases ht : 0 ≤ s.size + off ∧ s.size + off ≤ s.size
          · have : ¬ s.size + off < 0 := by omega
            have : ¬ s.size + off > s.size := by omega
            simp [*]
          · simp only [ht, if_false]
            by_cases hn : s.size + off < 0
            · simp [hn, errNegative]
            · have : s.size + off > s.size := by omega
              simp [hn, this, errEOF]
        · have hneg := wrap_over (s.size + off) (by omega) (by unfold two63 two64 at *; omega)
          have ht : ¬ (0 ≤ s.size + off ∧ s.size + off ≤ s.size) := by omega
          simp [ht, hneg, errNegative]
      · simp [w0, w1, w2, errWhence]

/-- a failed Seek leaves the position unchanged (no hypothesis at all) -/
theorem seekRes_fail_pos (s : St) (off wh : Int) (h : (seekRes s off wh).2.1 ≠ errNil) :
    (seekRes s off wh).2.2 = s.pos := by
  unfold seekRes at *
  split
  · rfl
  · split
    · rfl
    · split
      · rfl
      · rename_i h1 h2 h3; simp [h1, h2, h3] at h

/-- a successful Seek returns the new position, which lies in `[0, size]` -/
theorem seekRes_ok (s : St) (off wh : Int) (h : (seekRes s off wh).2.1 = errNil) :
    (seekRes s off wh).1 = (seekRes s off wh).2.2 ∧ 0 ≤ (seekRes s off wh).2.2 ∧ (seekRes s off wh).2.2 ≤ s.size := by
  unfold seekRes at *
  split
  · rename_i h1; simp [h1, errWhence] at h
  · split
    · rename_i h1 h2; simp [h1, h2, errNegative] at h
    · split
      · rename_i h1 h2 h3; simp [h1, h2, h3, errEOF] at h
      · refine ⟨rfl, ?_, ?_⟩ <;> simp <;> omega

/-- inductive invariant: as long as the environment kept its contract (`envOk`), the position is
inside the section, and a pending `ReadAt` result fits into it -/
def Inv (s : St) : Prop :=
  s.envOk = true → InRange s ∧ (s.live = true → 0 ≤ s.size) ∧
    ∀ n e, s.cur = .gotRead n e → 0 ≤ n ∧ s.pos + n ≤ s.size

theorem init_inv : Inv ({} : St) := by
  intro _; refine ⟨⟨by simp, by simp, by simp [two63]⟩, by simp, ?_⟩; intro n e h; cases h

theorem step_inv (s : St) (o : Obs) (s' : St) (hi : Inv s) (hs : step s o = some s') : Inv s' := by
  cases o with
  | new size =>
    simp only [step] at hs; split at hs <;> simp at hs; subst hs
    rename_i h
    intro he; simp at he
    have := (isI64_iff size).mp h.2
    exact ⟨⟨by simp, by simpa using he, this.2⟩, fun _ => he, by intro n e h; cases h⟩
  | seek off wh res err =>
    simp only [step] at hs; split at hs <;> try simp at hs
    rename_i h
    obtain ⟨_, rfl⟩ := hs
    intro he
    obtain ⟨⟨h0, h1, h2⟩, hl, h3⟩ := hi he
    refine ⟨?_, hl, ?_⟩
    · by_cases hok : (seekRes s off wh).2.1 = errNil
      · have := seekRes_ok s off wh hok; exact ⟨this.2.1, this.2.2, h2⟩
      · have := seekRes_fail_pos s off wh hok
        simp only [InRange]; rw [this]; exact ⟨h0, h1, h2⟩
    · intro n e hc; simp only at hc; rw [h.2.1] at hc; cases hc
  | callRead len =>
    simp only [step] at hs; split at hs <;> simp at hs; subst hs
    intro he
    obtain ⟨hr, hl, _⟩ := hi he
    exact ⟨hr, hl, by intro n e h; cases h⟩
  | readAt len off n err =>
    simp only [step] at hs; split at hs <;> try simp at hs
    obtain ⟨_, rfl⟩ := hs
    intro he; simp [readOk] at he
    obtain ⟨hr, hl, _⟩ := hi he.1
    refine ⟨hr, hl, ?_⟩
    intro n' e' hc; simp at hc; obtain ⟨rfl, rfl⟩ := hc
    exact ⟨he.2.1.1, he.2.2⟩
  | retRead n err =>
    simp only [step] at hs; split at hs <;> try simp at hs
    rename_i n' e' hc
    obtain ⟨⟨rfl, rfl⟩, rfl⟩ := hs
    intro he
    obtain ⟨⟨h0, h1, h2⟩, hl, h3⟩ := hi he
    obtain ⟨hn, hle⟩ := h3 n err hc
    have hw : wrap (s.pos + n) = s.pos + n := wrap_id _ (by unfold two63 at *; omega) (by omega)
    refine ⟨?_, hl, by intro n e h; cases h⟩
    simp only [InRange, hw]
    exact ⟨by omega, hle, h2⟩

theorem reachable_inv (es : List Obs) (s : St) (h : model.run model.init es = some s) : Inv s :=
  model.run_invariant Inv step_inv _ s es init_inv h

/-! ## the monitor accepts every model trace -/

def Rel (s : St) (ms : SeekM) : Prop :=
  ms.void = true ∨
    (s.live = true ∧ s.envOk = true ∧ ms.size = s.size ∧ ms.pos = s.pos ∧ ms.cur = s.cur ∧ Inv s)

/-- the monitor's judgement of a `seek` line, in terms of the reference semantics -/
theorem mon_seek (ms : SeekM) (hv : ms.void = false) (hc : ms.cur = .idle) (off wh res : Int) (err : Nat) :
    monC20Seek.step ms (.seek off wh res err) =
      match specSeek ms.size ms.pos off wh with
      | some t => if err = 0 ∧ res = t then some { ms with pos := t } else none
      | none => if err ≠ 0 then some ms else none := by
  simp only [monC20Seek, specSeek, hv, hc]
  by_cases hw : wh = 0 ∨ wh = 1 ∨ wh = 2
  · by_cases ht : 0 ≤ (if wh = 0 then 0 else if wh = 1 then ms.pos else ms.size) + off ∧
        (if wh = 0 then 0 else if wh = 1 then ms.pos else ms.size) + off ≤ ms.size
    · simp [hw, ht]
    · simp [hw, ht]
  · simp [hw]

theorem sim_step (s : St) (o : Obs) (s' : St) (ms : SeekM) (hR : Rel s ms) (hs : step s o = some s') :
    ∃ ms', monC20Seek.step ms o = some ms' ∧ Rel s' ms' := by
  have hi' : Inv s → Inv s' := fun hi => step_inv s o s' hi hs
  cases o with
  | new size =>
    simp only [step] at hs; split at hs <;> simp at hs; subst hs
    rename_i h
    have hb := (isI64_iff size).mp h.2
    simp only [monC20Seek]
    by_cases hsz : 0 ≤ size
    · refine ⟨{ void := false, size := size }, by simp [hsz, hb.2], Or.inr ⟨rfl, by simpa using hsz, rfl, rfl, rfl, ?_⟩⟩
      intro _
      exact ⟨⟨by simp, by simpa using hsz, hb.2⟩, fun _ => hsz, by intro n e h; cases h⟩
    · exact ⟨{}, by simp [hsz], Or.inl rfl⟩
  | seek off wh res err =>
    rcases hR with hv | ⟨hl, he, h1, h2, h3, hi⟩
    · exact ⟨ms, by simp [monC20Seek, hv], Or.inl hv⟩
    · have hinv' := hi' hi
      simp only [step] at hs; split at hs <;> try simp at hs
      rename_i hg
      obtain ⟨hres, rfl⟩ := hs
      obtain ⟨hrange, _, _⟩ := hi he
      have href := seekRes_refines s off wh hrange hg.2.2.1
      by_cases hvoid : ms.void = true
      · exact ⟨ms, by simp [monC20Seek, hvoid], Or.inl hvoid⟩
      · have hvoid' : ms.void = false := by simpa using hvoid
        have hcur : ms.cur = .idle := by rw [h3]; exact hg.2.1
        rw [mon_seek ms hvoid' hcur]
        rw [← h1, ← h2] at href
        cases hspec : specSeek ms.size ms.pos off wh with
        | some t =>
          rw [hspec] at href; simp only at href
          rw [href] at hres
          refine ⟨{ ms with pos := t }, by simp [hres.1, hres.2], Or.inr ⟨hl, he, h1, ?_, h3, hinv'⟩⟩
          simp [href]
        | none =>
          rw [hspec] at href; simp only at href
          have : err ≠ 0 := by rw [hres.2]; exact href.2.1
          exact ⟨ms, by simp [this], Or.inr ⟨hl, he, h1, by simp [href.2.2], h3, hinv'⟩⟩
  | callRead len =>
    rcases hR with hv | ⟨hl, he, h1, h2, h3, hi⟩
    · exact ⟨ms, by simp [monC20Seek, hv], Or.inl hv⟩
    · have hinv' := hi' hi
      simp only [step] at hs; split at hs <;> simp at hs; subst hs
      rename_i hg
      by_cases hvoid : ms.void = true
      · exact ⟨ms, by simp [monC20Seek, hvoid], Or.inl hvoid⟩
      · have hvoid' : ms.void = false := by simpa using hvoid
        have hcur : ms.cur = .idle := by rw [h3]; exact hg.2
        exact ⟨{ ms with cur := .reading len }, by simp [monC20Seek, hvoid', hcur],
          Or.inr ⟨hl, he, h1, h2, rfl, hinv'⟩⟩
  | readAt len off n err =>
    rcases hR with hv | ⟨hl, he, h1, h2, h3, hi⟩
    · exact ⟨ms, by simp [monC20Seek, hv], Or.inl hv⟩
    · have hinv' := hi' hi
      simp only [step] at hs; split at hs <;> try simp at hs
      rename_i l hc
      obtain ⟨hg, rfl⟩ := hs
      by_cases hvoid : ms.void = true
      · exact ⟨ms, by simp [monC20Seek, hvoid], Or.inl hvoid⟩
      · have hvoid' : ms.void = false := by simpa using hvoid
        have hcur : ms.cur = .reading len := by rw [h3, hc, hg.1]
        have hoff : off = ms.pos := by rw [h2]; exact hg.2.1
        by_cases hok : 0 ≤ n ∧ n ≤ (len : Int) ∧ ms.pos + n ≤ ms.size
        · refine ⟨{ ms with cur := .gotRead n err }, by simp [monC20Seek, hvoid', hcur, hoff, hok],
            Or.inr ⟨hl, ?_, h1, h2, rfl, hinv'⟩⟩
          rw [h1, h2] at hok
          simp [he, readOk, hok]
        · exact ⟨{ ms with void := true }, by simp [monC20Seek, hvoid', hcur, hoff, hok], Or.inl rfl⟩
  | retRead n err =>
    rcases hR with hv | ⟨hl, he, h1, h2, h3, hi⟩
    · exact ⟨ms, by simp [monC20Seek, hv], Or.inl hv⟩
    · have hinv' := hi' hi
      simp only [step] at hs; split at hs <;> try simp at hs
      rename_i n' e' hc
      obtain ⟨⟨rfl, rfl⟩, rfl⟩ := hs
      by_cases hvoid : ms.void = true
      · exact ⟨ms, by simp [monC20Seek, hvoid], Or.inl hvoid⟩
      · have hvoid' : ms.void = false := by simpa using hvoid
        have hcur : ms.cur = .gotRead n err := by rw [h3, hc]
        obtain ⟨⟨h0, hle, hsz⟩, _, h4⟩ := hi he
        obtain ⟨hn, hfit⟩ := h4 n err hc
        have hw : wrap (s.pos + n) = s.pos + n := wrap_id _ (by unfold two63 at *; omega) (by omega)
        exact ⟨{ ms with pos := ms.pos + n, cur := .idle }, by simp [monC20Seek, hvoid', hcur],
          Or.inr ⟨hl, he, h1, by simp [hw, h2], rfl, hinv'⟩⟩

end UtilModel.Seq.IOSeek
