import UtilModel.Seq.Common
/-!
# unique.KeyedList / unique.KeyedMap — model (unique/keyedlist.go, unique/keyedmap.go)

Contents = association list `key ↦ value` (the Go `map[K]V`; its iteration order is not observable,
the harness sorts what `GetKeys`/`GetValues` return). Keys and values are naturals. For a
`KeyedList` the harness logs every value as the pair `getKey(v) v` (getKey is the harness' function),
so both containers take lists of pairs; they differ in
* the order of the change notifications: a `KeyedList` walks its argument slice in order, a `KeyedMap`
  ranges over a Go map (any order); the removals at the end of `SetValues` range over a Go map in both;
* a `KeyedMap` argument cannot contain a key twice.

The compare callback is one of five fixed functions (`cmpFn`), chosen at construction.

    new list|map MODE k v k v …       constructor with initial contents
    call set k v k v …                SetValues        (also `append`, `rmvals` (list only))
    call rmkeys k k …                 RemoveKeys
    chg K V ADDED REMOVED             the `changed` callback was called with these arguments
    ret                               the call returned
    keys k …  /  vals v …             GetKeys() / GetValues(), sorted by the harness

`call …` computes the new contents and the notifications the call owes, as a list of *phases*: the
notifications of one phase may arrive in any order, the phases in order (an ordered walk is a list of
one-element phases). `chg` is accepted iff it is owed in the current phase; `ret` iff nothing is owed.
-/
namespace UtilModel.Seq.Unique

abbrev AL := List (Nat × Nat)

def look : AL → Nat → Option Nat
  | [], _ => none
  | (k', v) :: l, k => if k' = k then some v else look l k

def erase (k : Nat) (l : AL) : AL := l.filter (fun p => p.1 != k)
def put (k v : Nat) (l : AL) : AL := (k, v) :: erase k l
def keys (l : AL) : List Nat := l.map (·.1)

/-- the compare callback installed by the harness (`cmp(k, new, existing)`; `true` = "equal, keep the
old value") -/
def cmpFn (mode : Nat) (_k a b : Nat) : Bool :=
  match mode with
  | 0 => a == b
  | 1 => a % 10 == b % 10
  | 2 => false
  | 3 => true
  | _ => decide (a ≤ b)

inductive Note where
  | added (k v : Nat)
  | updated (k v : Nat)
  | removed (k v : Nat)
deriving DecidableEq, Repr

def Note.key : Note → Nat
  | .added k _ | .updated k _ | .removed k _ => k

/-- what a listener does with one notification -/
def Note.apply : Note → AL → AL
  | .added k v, l | .updated k v, l => put k v l
  | .removed k _, l => erase k l

/-- replay notifications, in the order given, on some contents -/
def replay (ns : List Note) (l : AL) : AL := ns.foldl (fun l n => n.apply l) l

/-- one iteration of the add/update loop (keyedlist.go:66-80, :96-110; keyedmap.go:54-68, :83-97) -/
def upsert (m : Nat) (l : AL) (k v : Nat) : AL × List Note :=
  match look l k with
  | some e => if cmpFn m k v e then (l, []) else (put k v l, [.updated k v])
  | none => (put k v l, [.added k v])

def appendLoop (m : Nat) : AL → List (Nat × Nat) → AL × List Note
  | l, [] => (l, [])
  | l, (k, v) :: rest =>
    let r := upsert m l k v
    let r2 := appendLoop m r.1 rest
    (r2.1, r.2 ++ r2.2)

/-- RemoveValues / RemoveKeys (keyedlist.go:116-140, keyedmap.go:105-114) -/
def removeLoop : AL → List Nat → AL × List Note
  | l, [] => (l, [])
  | l, k :: rest =>
    match look l k with
    | some v => let r := removeLoop (erase k l) rest; (r.1, .removed k v :: r.2)
    | none => removeLoop l rest

def inKeys (items : List (Nat × Nat)) (k : Nat) : Bool := (items.map (·.1)).contains k

/-- SetValues: the add/update loop, then every previous key that was not seen is removed
(new contents, notifications of the loop, notifications of the removals) -/
def setOp (m : Nat) (l : AL) (items : List (Nat × Nat)) : AL × List Note × List Note :=
  let r := appendLoop m l items
  (r.1.filter (fun p => inKeys items p.1), r.2,
   (r.1.filter (fun p => !inKeys items p.1)).map (fun p => .removed p.1 p.2))

/-- an ordered walk as phases -/
def ordered (ns : List Note) : List (List Note) := ns.map ([·])

/-- consume one notification: it must be owed in the first non-empty phase -/
def consume (n : Note) : List (List Note) → Option (List (List Note))
  | [] => none
  | [] :: ps => consume n ps
  | (a :: p) :: ps => if n ∈ a :: p then some ((a :: p).erase n :: ps) else none

def initial (items : List (Nat × Nat)) : AL := items.foldl (fun l p => put p.1 p.2 l) []

inductive Obs where
  | new (isMap : Bool) (mode : Nat) (items : List (Nat × Nat))
  | callSet (items : List (Nat × Nat))
  | callAppend (items : List (Nat × Nat))
  | callRmVals (items : List (Nat × Nat))
  | callRmKeys (ks : List Nat)
  | chg (k v : Nat) (added removed : Bool)
  | ret
  | keys (ks : List Nat)
  | vals (vs : List Nat)
deriving DecidableEq, Repr

structure St where
  live : Bool := false
  isMap : Bool := false
  mode : Nat := 0
  vals : AL := []
  /-- notifications still owed by the call in progress (`none` = no call in progress) -/
  busy : Option (List (List Note)) := none
deriving DecidableEq, Repr

def noteOf (k v : Nat) (added removed : Bool) : Option Note :=
  match added, removed with
  | true, false => some (.added k v)
  | false, false => some (.updated k v)
  | false, true => some (.removed k v)
  | true, true => none

/-- a Go map argument holds every key once -/
def argOk (isMap : Bool) (items : List (Nat × Nat)) : Bool := !isMap || decide (items.map (·.1)).Nodup

def loopPhases (isMap : Bool) (ns : List Note) : List (List Note) := if isMap then [ns] else ordered ns

def step (s : St) : Obs → Option St
  | .new isMap mode items =>
    if s.busy = none ∧ argOk isMap items then
      some { live := true, isMap := isMap, mode := mode, vals := initial items }
    else none
  | .callSet items =>
    if s.live ∧ s.busy = none ∧ argOk s.isMap items then
      let r := setOp s.mode s.vals items
      some { s with vals := r.1, busy := some (loopPhases s.isMap r.2.1 ++ [r.2.2]) }
    else none
  | .callAppend items =>
    if s.live ∧ s.busy = none ∧ argOk s.isMap items then
      let r := appendLoop s.mode s.vals items
      some { s with vals := r.1, busy := some (loopPhases s.isMap r.2) }
    else none
  | .callRmVals items =>
    if s.live ∧ s.busy = none ∧ s.isMap = false then
      let r := removeLoop s.vals (items.map (·.1))
      some { s with vals := r.1, busy := some (ordered r.2) }
    else none
  | .callRmKeys ks =>
    if s.live ∧ s.busy = none then
      let r := removeLoop s.vals ks
      some { s with vals := r.1, busy := some (ordered r.2) }
    else none
  | .chg k v added removed =>
    match s.busy, noteOf k v added removed with
    | some ps, some n =>
      match consume n ps with
      | some ps' => some { s with busy := some ps' }
      | none => none
    | _, _ => none
  | .ret =>
    match s.busy with
    | some ps => if ps.all (·.isEmpty) then some { s with busy := none } else none
    | none => none
  | .keys ks => if s.live ∧ s.busy = none ∧ ks.isPerm (keys s.vals) then some s else none
  | .vals vs => if s.live ∧ s.busy = none ∧ vs.isPerm (s.vals.map (·.2)) then some s else none

def model : OLTS St Obs Obs := detModel {} step

def Obs.parse : List String → Option Obs
  | "new" :: kind :: mode :: rest => do
    let isMap ← (match kind with | "list" => some false | "map" => some true | _ => none)
    pure (.new isMap (← mode.toNat?) (← parsePairs rest))
  | "call" :: "set" :: rest => do pure (.callSet (← parsePairs rest))
  | "call" :: "append" :: rest => do pure (.callAppend (← parsePairs rest))
  | "call" :: "rmvals" :: rest => do pure (.callRmVals (← parsePairs rest))
  | "call" :: "rmkeys" :: rest => do pure (.callRmKeys (← parseNats rest))
  | ["chg", k, v, a, r] => do pure (.chg (← k.toNat?) (← v.toNat?) (← parseBit a) (← parseBit r))
  | ["ret"] => some .ret
  | "keys" :: rest => do pure (.keys (← parseNats rest))
  | "vals" :: rest => do pure (.vals (← parseNats rest))
  | _ => none

end UtilModel.Seq.Unique
