import UtilModel.Core.LTS
import UtilModel.Core.Count
/-!
# C13: lockset discipline ⇒ no two conflicting accesses in progress

`Row` is one memory access of the library as extracted from the Go source by `harness/extract`
(the *translator*; the table itself is regenerated on every run into `Race/Gen/LockTable.lean`).
`checkTable` is the decidable discipline: any two accesses that may conflict hold a common lock
class, not both in shared mode. `lockset_sound` proves, for an abstract machine with mutually
exclusive (reader/writer) locks and any number of threads, that under this discipline no reachable
state has two conflicting accesses in progress at once.
-/
namespace UtilModel.Race

inductive Exempt where
  | none     -- needs a lock
  | init     -- object under construction / local not yet published (happens-before by creation)
  | chanhb   -- written before close(c), read after a receive from c (happens-before by channel)
deriving DecidableEq, Repr

structure Row where
  id : Nat
  var : Nat                      -- location class (struct field or captured local variable)
  write : Bool
  ctx : Nat                      -- (function, goroutine root) the access belongs to
  selfconc : Bool                -- two executions of this context may overlap on this location
  locks : List (Nat × Bool)      -- lock classes held (class, shared?)
  exempt : Exempt
deriving DecidableEq, Repr

def protectedPair (a b : Row) : Bool :=
  a.locks.any fun la => b.locks.any fun lb => la.1 == lb.1 && !(la.2 && lb.2)

def mayConflict (a b : Row) : Bool :=
  a.var == b.var && (a.write || b.write) && a.exempt == .none && b.exempt == .none &&
  (a.ctx != b.ctx || a.selfconc)

def pairOK (a b : Row) : Bool := !mayConflict a b || protectedPair a b

/-- the discipline, over a flat table -/
def checkTable (t : List Row) : Bool := t.all fun a => t.all fun b => pairOK a b

/-- the same discipline over a table grouped by location (what the generated file uses: only pairs
inside a group are examined, and `groupsOK` checks that grouping is by location) -/
def checkGroup (g : List Row) : Bool := g.all fun a => g.all fun b => pairOK a b

def groupsOK : List (List Row) → Nat → Bool
  | [], _ => true
  | g :: gs, i => g.all (fun r => r.var == i) && groupsOK gs (i + 1)

def checkGrouped (gs : List (List Row)) : Bool := groupsOK gs 0 && gs.all checkGroup

theorem groupsOK_var (gs : List (List Row)) (i : Nat) (h : groupsOK gs i = true)
    (k : Nat) (g : List Row) (hg : gs[k]? = some g) (r : Row) (hr : r ∈ g) : r.var = i + k := by
  induction gs generalizing i k with
  | nil => simp at hg
  | cons x xs ih =>
    simp only [groupsOK, Bool.and_eq_true, List.all_eq_true] at h
    cases k with
    | zero =>
      simp at hg; subst hg
      have := h.1 r hr; simp at this; omega
    | succ k =>
      simp at hg
      have := ih (i + 1) h.2 k hg
      omega

/-- grouped check ⇒ flat check of the concatenation -/
theorem checkTable_of_grouped (gs : List (List Row)) (h : checkGrouped gs = true) :
    checkTable gs.flatten = true := by
  simp only [checkGrouped, Bool.and_eq_true] at h
  obtain ⟨hg, hall⟩ := h
  simp only [checkTable, List.all_eq_true]
  intro a ha b hb
  simp only [List.mem_flatten] at ha hb
  obtain ⟨ga, hga, haa⟩ := ha
  obtain ⟨gb, hgb, hbb⟩ := hb
  obtain ⟨ka, hka⟩ := List.getElem?_of_mem hga
  obtain ⟨kb, hkb⟩ := List.getElem?_of_mem hgb
  have va := groupsOK_var gs 0 hg ka ga hka a haa
  have vb := groupsOK_var gs 0 hg kb gb hkb b hbb
  by_cases hk : ka = kb
  · subst hk
    rw [hka] at hkb; cases hkb
    rw [List.all_eq_true] at hall
    have := hall ga hga
    simp only [checkGroup, List.all_eq_true] at this
    exact this a haa b hbb
  · -- different groups: different locations, cannot conflict
    have hne : a.var ≠ b.var := by omega
    simp [pairOK, mayConflict, hne]

/-! ## The abstract machine -/

structure Thread where
  held : List (Nat × Bool) := []
  acc : Option Row := none
deriving DecidableEq, Repr

abbrev St := List Thread

inductive Ev where
  | spawn
  | acquire (i c : Nat) (shared : Bool)
  | release (i c : Nat)
  | beginAcc (i : Nat) (r : Row)
  | endAcc (i : Nat)

def holdsClass (t : Thread) (c : Nat) : Bool := t.held.any fun l => l.1 == c
def holdsExcl (t : Thread) (c : Nat) : Bool := t.held.any fun l => l.1 == c && !l.2

/-- may thread `i` take lock `c` in the given mode? (reader/writer lock semantics) -/
def canAcquire (s : St) (i c : Nat) (shared : Bool) : Bool :=
  (List.range s.length).all fun j =>
    j == i || match s[j]? with
      | some t => if shared then !holdsExcl t c else !holdsClass t c
      | none => true

def subset (xs ys : List (Nat × Bool)) : Bool := xs.all fun x => ys.contains x

def step (table : List Row) (s : St) : Ev → Option St
  | .spawn => some (s ++ [{}])
  | .acquire i c sh =>
    match s[i]? with
    | some t =>
      if t.acc.isNone && !holdsClass t c && canAcquire s i c sh then
        some (s.set i { t with held := (c, sh) :: t.held })
      else none
    | none => none
  | .release i c =>
    match s[i]? with
    | some t => if t.acc.isNone then some (s.set i { t with held := t.held.filter (fun l => l.1 != c) }) else none
    | none => none
  | .beginAcc i r =>
    match s[i]? with
    | some t => if t.acc.isNone && table.contains r && subset r.locks t.held then some (s.set i { t with acc := some r }) else none
    | none => none
  | .endAcc i =>
    match s[i]? with
    | some t => some (s.set i { t with acc := none })
    | none => none

def machine (table : List Row) : OLTS St Ev Unit where
  init := []
  step := step table
  obs := fun _ => none
  cands := fun _ => []
  evsOf := fun _ _ => []

structure Inv (table : List Row) (s : St) : Prop where
  /-- an exclusive holder excludes every other holder of the class -/
  excl : ∀ (i j : Nat) (ti tj : Thread) (c : Nat), i ≠ j → s[i]? = some ti → s[j]? = some tj →
            holdsExcl ti c = true → holdsClass tj c = false
  /-- an access in progress is a table row whose locks are held -/
  acc : ∀ (i : Nat) (t : Thread) (r : Row), s[i]? = some t → t.acc = some r →
            r ∈ table ∧ subset r.locks t.held = true

theorem holdsExcl_imp_class (t : Thread) (c : Nat) (h : holdsExcl t c = true) : holdsClass t c = true := by
  simp only [holdsExcl, holdsClass, List.any_eq_true] at *
  obtain ⟨l, hl, hc⟩ := h
  exact ⟨l, hl, by simp at hc; simp [hc.1]⟩

theorem step_inv (table : List Row) (s s' : St) (e : Ev) (hi : Inv table s)
    (hs : step table s e = some s') : Inv table s' := by
  cases e with
  | spawn =>
    simp [step] at hs; subst hs
    constructor
    · intro i j ti tj c hij h1 h2 hx
      rcases getElem?_snoc_cases _ _ _ _ h1 with ⟨_, h1'⟩ | ⟨_, h1'⟩
      · rcases getElem?_snoc_cases _ _ _ _ h2 with ⟨_, h2'⟩ | ⟨_, h2'⟩
        · exact hi.excl i j ti tj c hij h1' h2' hx
        · subst h2'; simp [holdsClass]
      · subst h1'; simp [holdsExcl] at hx
    · intro i t r h1 h2
      rcases getElem?_snoc_cases _ _ _ _ h1 with ⟨_, h1'⟩ | ⟨_, h1'⟩
      · exact hi.acc i t r h1' h2
      · subst h1'; simp at h2
  | acquire k c sh =>
    simp only [step] at hs
    split at hs <;> try simp at hs
    rename_i t ht
    obtain ⟨⟨⟨hnone, hnh⟩, hcan⟩, rfl⟩ := hs
    have hlt := lt_of_getElem? ht
    have canJ : ∀ j tj, j ≠ k → s[j]? = some tj →
        (if sh then holdsExcl tj c = false else holdsClass tj c = false) := by
      intro j tj hjk hj
      simp only [canAcquire, List.all_eq_true] at hcan
      have := hcan j (by simp; exact lt_of_getElem? hj)
      simp [hjk, hj] at this
      cases sh <;> simpa using this
    constructor
    · intro i j ti tj c' hij h1 h2 hx
      rcases getElem?_set_cases _ _ _ _ _ h1 with ⟨rfl, rfl⟩ | ⟨hne1, h1'⟩
      · -- i = k: the acquiring thread holds exclusively
        have h2' : s[j]? = some tj := by
          rcases getElem?_set_cases _ _ _ _ _ h2 with ⟨e, _⟩ | ⟨_, h⟩
          · exact absurd e.symm hij
          · exact h
        simp only [holdsExcl, List.any_cons, Bool.or_eq_true] at hx
        rcases hx with hx | hx
        · simp at hx
          obtain ⟨rfl, hsh⟩ := hx
          have := canJ j tj (Ne.symm hij) h2'
          simpa [hsh] using this
        · exact hi.excl i j t tj c' hij ht h2' (by simpa [holdsExcl] using hx)
      · rcases getElem?_set_cases _ _ _ _ _ h2 with ⟨rfl, rfl⟩ | ⟨hne2, h2'⟩
        · -- j = k: someone else holds c' exclusively; the acquirer must not hold it
          have hold := hi.excl i j ti t c' hij h1' ht hx
          simp only [holdsClass, List.any_cons, Bool.or_eq_false_iff]
          refine ⟨?_, by simpa [holdsClass] using hold⟩
          -- c' ≠ c: otherwise ti holds c exclusively, contradicting canAcquire
          cases hcc : (c == c') with
          | false => simpa using hcc
          | true =>
            exfalso
            have hceq : c = c' := by simpa using hcc
            subst hceq
            have := canJ i ti hne1 h1'
            cases sh
            · simp at this; rw [holdsExcl_imp_class ti c hx] at this; cases this
            · simp at this; rw [hx] at this; cases this
        · exact hi.excl i j ti tj c' hij h1' h2' hx
    · intro i t' r h1 h2
      rcases getElem?_set_cases _ _ _ _ _ h1 with ⟨rfl, rfl⟩ | ⟨_, h1'⟩
      · simp at h2; simp [h2] at hnone
      · exact hi.acc i t' r h1' h2
  | release k c =>
    simp only [step] at hs
    split at hs <;> try simp at hs
    rename_i t ht
    obtain ⟨hnone, rfl⟩ := hs
    have sub1 : ∀ c', holdsExcl { t with held := t.held.filter (fun l => l.1 != c) } c' = true → holdsExcl t c' = true := by
      intro c' h
      simp only [holdsExcl, List.any_eq_true, List.mem_filter] at *
      obtain ⟨l, ⟨hl, _⟩, hc⟩ := h
      exact ⟨l, hl, hc⟩
    have sub2 : ∀ c', holdsClass t c' = false → holdsClass { t with held := t.held.filter (fun l => l.1 != c) } c' = false := by
      intro c' h
      simp only [holdsClass, List.any_eq_false, List.mem_filter] at *
      intro l ⟨hl, _⟩
      exact h l hl
    constructor
    · intro i j ti tj c' hij h1 h2 hx
      rcases getElem?_set_cases _ _ _ _ _ h1 with ⟨rfl, rfl⟩ | ⟨_, h1'⟩
      · have h2' : s[j]? = some tj := by
          rcases getElem?_set_cases _ _ _ _ _ h2 with ⟨e, _⟩ | ⟨_, h⟩
          · exact absurd e.symm hij
          · exact h
        exact hi.excl i j t tj c' hij ht h2' (sub1 c' hx)
      · rcases getElem?_set_cases _ _ _ _ _ h2 with ⟨rfl, rfl⟩ | ⟨_, h2'⟩
        · exact sub2 c' (hi.excl i j ti t c' hij h1' ht hx)
        · exact hi.excl i j ti tj c' hij h1' h2' hx
    · intro i t' r h1 h2
      rcases getElem?_set_cases _ _ _ _ _ h1 with ⟨rfl, rfl⟩ | ⟨_, h1'⟩
      · simp at h2; simp [h2] at hnone
      · exact hi.acc i t' r h1' h2
  | beginAcc k r =>
    simp only [step] at hs
    split at hs <;> try simp at hs
    rename_i t ht
    obtain ⟨⟨⟨hnone, hmem⟩, hsub⟩, rfl⟩ := hs
    constructor
    · intro i j ti tj c' hij h1 h2 hx
      have e1 : ∃ ti', s[i]? = some ti' ∧ ti'.held = ti.held := by
        rcases getElem?_set_cases _ _ _ _ _ h1 with ⟨rfl, rfl⟩ | ⟨_, h⟩
        · exact ⟨t, ht, rfl⟩
        · exact ⟨ti, h, rfl⟩
      have e2 : ∃ tj', s[j]? = some tj' ∧ tj'.held = tj.held := by
        rcases getElem?_set_cases _ _ _ _ _ h2 with ⟨rfl, rfl⟩ | ⟨_, h⟩
        · exact ⟨t, ht, rfl⟩
        · exact ⟨tj, h, rfl⟩
      obtain ⟨ti', hi1, hi2⟩ := e1
      obtain ⟨tj', hj1, hj2⟩ := e2
      have := hi.excl i j ti' tj' c' hij hi1 hj1 (by simpa [holdsExcl, hi2] using hx)
      simpa [holdsClass, hj2] using this
    · intro i t' r' h1 h2
      rcases getElem?_set_cases _ _ _ _ _ h1 with ⟨rfl, rfl⟩ | ⟨_, h1'⟩
      · simp at h2; subst h2
        exact ⟨by simpa using hmem, by simpa using hsub⟩
      · exact hi.acc i t' r' h1' h2
  | endAcc k =>
    simp only [step] at hs
    split at hs <;> try simp at hs
    rename_i t ht
    subst hs
    constructor
    · intro i j ti tj c' hij h1 h2 hx
      have e1 : ∃ ti', s[i]? = some ti' ∧ ti'.held = ti.held := by
        rcases getElem?_set_cases _ _ _ _ _ h1 with ⟨rfl, rfl⟩ | ⟨_, h⟩
        · exact ⟨t, ht, rfl⟩
        · exact ⟨ti, h, rfl⟩
      have e2 : ∃ tj', s[j]? = some tj' ∧ tj'.held = tj.held := by
        rcases getElem?_set_cases _ _ _ _ _ h2 with ⟨rfl, rfl⟩ | ⟨_, h⟩
        · exact ⟨t, ht, rfl⟩
        · exact ⟨tj, h, rfl⟩
      obtain ⟨ti', hi1, hi2⟩ := e1
      obtain ⟨tj', hj1, hj2⟩ := e2
      have := hi.excl i j ti' tj' c' hij hi1 hj1 (by simpa [holdsExcl, hi2] using hx)
      simpa [holdsClass, hj2] using this
    · intro i t' r' h1 h2
      rcases getElem?_set_cases _ _ _ _ _ h1 with ⟨rfl, rfl⟩ | ⟨_, h1'⟩
      · simp at h2
      · exact hi.acc i t' r' h1' h2

theorem init_inv (table : List Row) : Inv table ([] : St) :=
  ⟨by intro i j ti tj c _ h; simp at h, by intro i t r h; simp at h⟩

/-- **C13 (lockset soundness).** If the access table satisfies the discipline, then in every
reachable state of the lock machine — any number of threads, any interleaving of acquire / release /
access begin / access end — no two distinct threads are simultaneously inside two accesses that may
conflict (same location, at least one write, neither exempt, different contexts or a re-entrant
context). -/
theorem lockset_sound (table : List Row) (hok : checkTable table = true)
    (es : List Ev) (s : St) (hr : (machine table).run (machine table).init es = some s)
    (i j : Nat) (ti tj : Thread) (a b : Row) (hij : i ≠ j)
    (h1 : s[i]? = some ti) (h2 : s[j]? = some tj) (ha : ti.acc = some a) (hb : tj.acc = some b) :
    mayConflict a b = false := by
  have hinv : Inv table s :=
    (machine table).run_invariant (Inv table) (fun s e s' hi hs => step_inv table s s' e hi hs)
      _ _ es (init_inv table) hr
  obtain ⟨ma, sa⟩ := hinv.acc i ti a h1 ha
  obtain ⟨mb, sb⟩ := hinv.acc j tj b h2 hb
  simp only [checkTable, List.all_eq_true] at hok
  have hp := hok a ma b mb
  cases hc : mayConflict a b with
  | false => rfl
  | true =>
    exfalso
    simp only [pairOK, hc, Bool.not_true, Bool.false_or] at hp
    simp only [protectedPair, List.any_eq_true] at hp
    obtain ⟨la, hla, lb, hlb, hcl⟩ := hp
    simp only [Bool.and_eq_true, Bool.not_eq_true', beq_iff_eq] at hcl
    obtain ⟨hcls, hmode⟩ := hcl
    simp only [subset, List.all_eq_true] at sa sb
    have hai : la ∈ ti.held := by simpa using sa la hla
    have hbj : lb ∈ tj.held := by simpa using sb lb hlb
    -- one of the two is exclusive
    have : la.2 = false ∨ lb.2 = false := by
      cases h : la.2 <;> cases h' : lb.2 <;> simp_all
    rcases this with hx | hx
    · have hex : holdsExcl ti la.1 = true := by
        simp only [holdsExcl, List.any_eq_true]; exact ⟨la, hai, by simp [hx]⟩
      have := hinv.excl i j ti tj la.1 hij h1 h2 hex
      simp only [holdsClass, List.any_eq_false] at this
      exact this lb hbj (by simp [hcls])
    · have hex : holdsExcl tj lb.1 = true := by
        simp only [holdsExcl, List.any_eq_true]; exact ⟨lb, hbj, by simp [hx]⟩
      have := hinv.excl j i tj ti lb.1 (Ne.symm hij) h2 h1 hex
      simp only [holdsClass, List.any_eq_false] at this
      exact this la hai (by simp [hcls])

end UtilModel.Race
