import UtilModel.Routine.Proofs
/-!
# routine: lemmas behind C14 (which events can start a new instance of the current record)
-/
namespace UtilModel.Routine
open UtilModel

@[simp] theorem killTimer_len (s : St) (o : Option Nat) : (killTimer s o).insts.length = s.insts.length := by
  rw [killTimer_insts]

theorem startRec_len (s : St) (r c : Nat) (w : Option Nat) (force : Bool) :
    (startRec s r c w force).insts.length = s.insts.length ∨
    ((startRec s r c w force).insts.length = s.insts.length + 1 ∧
      ∃ x, s.recs[r]? = some x ∧ startSkips s x force = false) := by
  unfold startRec
  split
  · exact Or.inl rfl
  · rename_i x hx
    split
    · exact Or.inl rfl
    · rename_i hns
      right
      exact ⟨by simp, x, hx, by simpa using hns⟩

theorem startSkips_success (s : St) (x : Rec) (h : x.success = true) : startSkips s x false = true := by
  simp [startSkips, h]

@[simp] theorem detachPrev_len (s : St) : (detachPrev s).1.insts.length = s.insts.length := by
  cases hr : s.routine with
  | none => simp [detachPrev, hr]
  | some r => cases hx : s.recs[r]? <;> simp [detachPrev, hr, hx]

/-- a call that replaces the routine makes a *new* record current -/
theorem setRoutineLocked_routine (s : St) (f arg : Nat) :
    (setRoutineLocked s f arg).1.routine = none ∨
    (setRoutineLocked s f arg).1.routine = some s.recs.length := by
  simp only [setRoutineLocked]
  split
  · right
    split
    · simp only [bcastNow_routine]
      rcases startRec_cases { (detachPrev (normCtx s)).1 with
          recs := (detachPrev (normCtx s)).1.recs ++ [{ fn := f, arg := arg }],
          routine := some (detachPrev (normCtx s)).1.recs.length }
          (detachPrev (normCtx s)).1.recs.length (detachPrev (normCtx s)).1.ctx (detachPrev (normCtx s)).2.1 false with e | ⟨_, _, _, e, _⟩
      · rw [e]; simp
      · rw [e]; simp
    · simp
  · left
    split <;> simp

/-- SetContext on a record whose last run succeeded starts nothing -/
theorem setContextCS_success_len (s : St) (c : Nat) (restart : Bool) (r : Nat) (y : Rec)
    (hr : s.routine = some r) (hy : s.recs[r]? = some y) (hs : y.success = true) :
    (setContextCS s c restart).1.insts.length = s.insts.length := by
  simp only [setContextCS]
  split
  · rfl
  · simp only [hr, hy]
    split
    · rfl
    · split
      · rfl
      split
      · simp only [bcastNow_insts]
        generalize hS : stopRec _ r = S
        have hlen : S.insts.length = s.insts.length := by rw [← hS]; simp
        have hx' : S.recs[r]? = some y.stopped := by rw [← hS]; simp [stopRec_recs_get, hy]
        rcases startRec_len S r c y.exitedCh false with e | ⟨_, x, hx, hns⟩
        · rw [e, hlen]
        · rw [hx'] at hx; cases hx
          rw [startSkips_success _ _ (by simpa [Rec.stopped] using hs)] at hns; cases hns
      · simp

/-- SetContext without `restart` on a record that failed starts nothing -/
theorem setContextCS_error_len (s : St) (c : Nat) (r : Nat) (y : Rec)
    (hr : s.routine = some r) (hy : s.recs[r]? = some y) (he : y.err ≠ none) :
    (setContextCS s c false).1.insts.length = s.insts.length := by
  simp only [setContextCS]
  split
  · rfl
  · simp only [hr, hy]
    split
    · rfl
    · have : (y.err.isNone || false) = false := by
        cases h : y.err with
        | none => exact absurd h he
        | some _ => rfl
      split
      · rfl
      · simp [this]

theorem recordCS_len (s s' : St) (cf : Cfg) (n : Nat) (x : Inst) (dur : Bool)
    (h : recordCS s cf n x dur = some s') : s'.insts.length = s.insts.length := by
  simp only [recordCS] at h
  split at h
  · cases h
  · split at h
    · split at h
      · cases h
      · simp only [Option.some.injEq] at h; subst h
        simp only [bcastNow_insts]
        split <;> simp [setInst]
    · split at h
      · cases h
      · simp only [Option.some.injEq] at h; subst h; simp [setInst]

theorem updateStateRoutine_routine (s : St) :
    (updateStateRoutine s).1.routine = none ∨ (updateStateRoutine s).1.routine = some s.recs.length := by
  simp only [updateStateRoutine]; exact setRoutineLocked_routine s _ _

/-- **which events can create an instance of the record that stays the container's current one** -/
theorem rerun_cause (s s' : St) (e : Ev) (r : Nat) (y : Rec)
    (hs : step s e = some s') (hr : s.routine = some r) (hy : s.recs[r]? = some y)
    (hnew : s.insts.length < s'.insts.length) (hr' : s'.routine = some r) :
    (∃ t, e = .timerCS t) ∨
    (∃ a c, e = .cs a ∧ s.calls[a]? = some c ∧
      (c.op = .restart ∨
       (∃ ctx rst, c.op = .setContext ctx rst ∧ y.success = false ∧ (rst = true ∨ y.err = none)))) := by
  have hrlt : r < s.recs.length := get_lt hy
  cases e with
  | timerCS t => exact Or.inl ⟨t, rfl⟩
  | cs a =>
    right
    simp only [step, stepI] at hs
    split at hs
    · rename_i cf c hcf hc
      split at hs
      · split at hs
        · split at hs
          · simp at hs; subst hs
            simp [waitSample, setCall] at hnew
          · cases hs
        · split at hs
          · cases hs
          · split at hs
            · rename_i rr hrr
              simp at hs; subst hs
              simp only [setCall_insts, setCall_routine] at hnew hr'
              refine ⟨a, c, rfl, hc, ?_⟩
              cases hop : c.op with
              | restart => exact Or.inl rfl
              | setContext ctx rst =>
                right
                rw [hop] at hrr
                simp [apiCS] at hrr; subst hrr
                refine ⟨ctx, rst, rfl, ?_, ?_⟩
                · cases hsx : y.success with
                  | false => rfl
                  | true =>
                    have := setContextCS_success_len s ctx rst r y hr hy hsx
                    simp only at hnew; omega
                · cases rst with
                  | true => exact Or.inl rfl
                  | false =>
                    right
                    cases he : y.err with
                    | none => rfl
                    | some v =>
                      have := setContextCS_error_len s ctx r y hr hy (by simp [he])
                      simp only at hnew; omega
              | setRoutine f =>
                rw [hop] at hrr
                simp only [apiCS] at hrr
                split at hrr
                · cases hrr
                · simp at hrr; subst hrr
                  rcases setRoutineLocked_routine s f 0 with e | e
                  · simp only at hr'; rw [e] at hr'; cases hr'
                  · simp only at hr'; rw [e] at hr'; cases hr'; omega
              | setState v =>
                rw [hop] at hrr
                simp only [apiCS] at hrr
                split at hrr
                · cases hrr
                · simp at hrr; subst hrr
                  simp only [setStateCS] at hnew hr'
                  split at hnew
                  · rename_i hc2
                    simp only [hc2, if_true] at hr'
                    rcases updateStateRoutine_routine { s with sval := v } with e | e
                    · rw [e] at hr'; cases hr'
                    · rw [e] at hr'; cases hr'; simp at hrlt
                  · simp at hnew
              | setStateRoutine f =>
                rw [hop] at hrr
                simp only [apiCS] at hrr
                split at hrr
                · cases hrr
                · simp at hrr; subst hrr
                  rcases updateStateRoutine_routine { s with sfn := f } with e | e
                  · simp only at hr'; rw [e] at hr'; cases hr'
                  · simp only at hr'; rw [e] at hr'; cases hr'; simp at hrlt
              | swap k =>
                rw [hop] at hrr
                simp only [apiCS] at hrr
                split at hrr
                · cases hrr
                · split at hrr
                  · split at hrr
                    · simp only [Option.some.injEq] at hrr; subst hrr
                      simp only [setStateCS] at hnew hr'
                      split at hnew
                      · rename_i hc2
                        simp only [hc2, if_true] at hr'
                        rcases updateStateRoutine_routine _ with e | e
                        · rw [e] at hr'; cases hr'
                        · rw [e] at hr'; cases hr'; simp at hrlt
                      · simp at hnew
                    · simp only [Option.some.injEq] at hrr; subst hrr; simp at hnew
                  · simp at hrr; subst hrr; simp at hnew
              | getState =>
                rw [hop] at hrr
                simp only [apiCS] at hrr
                split at hrr
                · cases hrr
                · simp at hrr; subst hrr; simp at hnew
              | waitExited b => rw [hop] at hrr; simp [apiCS] at hrr
            · cases hs
      · cases hs
    · cases hs
  | cfg c =>
    simp only [step, stepI] at hs
    split at hs
    · simp at hs; subst hs; simp at hnew
    · cases hs
  | inv a op =>
    simp only [step, stepI] at hs
    split at hs
    · simp at hs; subst hs; simp at hnew
    · cases hs
  | ret a r =>
    simp only [step, stepI] at hs
    split at hs
    · split at hs
      · simp at hs; subst hs; simp [setCall] at hnew
      · split at hs
        · simp at hs; subst hs; simp [setCall] at hnew
        · cases hs
    · cases hs
  | wake a =>
    simp only [step, stepI] at hs
    split at hs
    · split at hs
      · split at hs
        · simp at hs; subst hs; simp [setCall] at hnew
        · cases hs
      · cases hs
    · cases hs
  | wctx a =>
    simp only [step, stepI] at hs
    split at hs
    · split at hs
      · split at hs
        · simp at hs; subst hs; simp [setCall] at hnew
        · cases hs
      · cases hs
    · cases hs
  | envCancel c =>
    simp only [step, stepI] at hs
    split at hs
    · simp at hs; subst hs; simp at hnew
    · cases hs
  | envDo c =>
    simp only [step, stepI] at hs
    split at hs
    · simp at hs; subst hs; simp at hnew
    · cases hs
  | envCancelW a =>
    simp only [step, stepI] at hs
    split at hs
    · split at hs
      · simp at hs; subst hs; simp at hnew
      all_goals cases hs
    · cases hs
  | envErr a e0 =>
    simp only [step, stepI] at hs
    split at hs
    · split at hs
      · simp at hs; subst hs; simp at hnew
      all_goals cases hs
    · cases hs
  | giveUp n =>
    simp only [step, stepI] at hs
    split at hs
    · split at hs
      · split at hs
        · simp at hs; subst hs; simp [setInst] at hnew
        · simp at hs; subst hs; simp [setInst] at hnew
      · cases hs
    · cases hs
  | drained n =>
    simp only [step, stepI] at hs
    split at hs
    · split at hs
      · simp at hs; subst hs; simp [setInst] at hnew
      · cases hs
    · cases hs
  | cbin k n f arg root =>
    simp only [step, stepI] at hs
    split at hs
    · split at hs
      · split at hs
        · simp at hs; subst hs; simp [setInst] at hnew
        · cases hs
      · cases hs
    · cases hs
  | cbout k o =>
    simp only [step, stepI] at hs
    split at hs
    · split at hs
      · split at hs
        · simp at hs; subst hs; simp [setInst] at hnew
        · cases hs
      · cases hs
    · cases hs
  | closeExit n =>
    simp only [step, stepI] at hs
    split at hs
    · split at hs
      · simp at hs; subst hs; simp [setInst] at hnew
      · cases hs
    · cases hs
  | record n dur =>
    simp only [step, stepI] at hs
    split at hs
    · rename_i cf x _ hx
      split at hs
      · have := recordCS_len s s' cf n x dur hs; omega
      · cases hs
    · cases hs
  | emit o =>
    simp only [step, stepI] at hs
    split at hs
    · split at hs
      · simp at hs; subst hs; simp at hnew
      · cases hs
    · cases hs
  | fire t =>
    simp only [step, stepI] at hs
    split at hs
    · split at hs
      · simp at hs; subst hs; simp at hnew
      · cases hs
    · cases hs
  | probeCtx k b =>
    simp only [step, stepI] at hs
    split at hs
    · split at hs
      · simp at hs; subst hs; simp at hnew
      · cases hs
    · cases hs
  | probeW a b =>
    simp only [step, stepI] at hs
    split at hs
    · split at hs
      · split at hs
        · simp at hs; subst hs; simp at hnew
        · cases hs
      · cases hs
    · cases hs
  | quiesce p r l =>
    simp only [step] at hs
    split at hs
    · simp at hs; subst hs; simp at hnew
    · cases hs

end UtilModel.Routine
