import UtilModel.Routine.Model
import UtilModel.Core.Monitor
/-!
# routine: the properties C04, C05 and C14 as executable monitors over observable histories

The automata mention only API-level events (invocations, results, entry/exit of the managed function, exit
callbacks, backoff calls, probes of contexts and returned channels, quiescence points). They are evaluated by the
driver on histories recorded from the real code; the overlap clause `monC04a` of `monC04` is proved to accept
every trace of the model (`Props.C04a_obs`).
-/
namespace UtilModel.Routine

/-- does this call replace the routine (`SetRoutine`, `SetState`, `SetStateRoutine`, `SwapValue`)? -/
def Op.isSet : Op → Bool
  | .setRoutine _ | .setState _ | .setStateRoutine _ | .swap _ => true
  | _ => false

/-- did the call hand out a non-nil wait channel? -/
def Res.hasCh : Res → Bool
  | .setR ch _ | .setS ch _ _ _ | .setSR ch _ _ | .swapR _ ch _ _ _ => ch
  | _ => false

/-! ## C04 -/

structure C04St where
  running : List Nat := []                 -- entered and not yet returned (entry numbers)
  snaps : List (Nat × List Nat) := []      -- per set-call: the instances running when it was invoked
  ops : List (Nat × Op) := []
deriving Repr

def lookupSnap (l : List (Nat × List Nat)) (a : Nat) : List Nat :=
  match l.find? (·.1 == a) with
  | some p => p.2
  | none => []

def lookupOp (l : List (Nat × Op)) (a : Nat) : Option Op := (l.find? (·.1 == a)).map (·.2)

/-- **C04**: the managed function is never executing in two instances; a channel returned by
SetRoutine/SetState is seen closed only after every instance that was executing when the call was made has
returned. -/
def monC04 : ObsMonitor Obs C04St where
  init := {}
  step := fun ms o =>
    match o with
    | .cbin k _ _ _ => if ms.running.isEmpty then some { ms with running := [k] } else none
    | .cbout k _ => some { ms with running := ms.running.filter (· != k) }
    | .inv a op => some { ms with snaps := if op.isSet then (a, ms.running) :: ms.snaps else ms.snaps
                                  ops := (a, op) :: ms.ops }
    | .probeW a true => if (lookupSnap ms.snaps a).all (fun k => !ms.running.contains k) then some ms else none
    | _ => some ms

/-- first clause of `monC04` alone (no two instances execute together); proved to accept every model trace
(`Props.C04a_obs`) -/
def monC04a : ObsMonitor Obs C04St where
  init := {}
  step := fun ms o =>
    match o with
    | .cbin k _ _ _ => if ms.running.isEmpty then some { ms with running := [k] } else none
    | .cbout k _ => some { ms with running := ms.running.filter (· != k) }
    | _ => some ms

/-! ## C05 -/

/-- non-dominated writers of one register (context / routine / state function) under real-time order -/
structure Reg where
  done : List (Nat × Nat) := []                 -- (call, value): returned, not known to be overwritten
  pend : List (Nat × Nat × List Nat) := []      -- (call, value, calls in `done` when it was invoked)
deriving Repr

def Reg.inv (r : Reg) (a v : Nat) : Reg := { r with pend := (a, v, r.done.map (·.1)) :: r.pend }

def Reg.ret (r : Reg) (a : Nat) (effective : Bool) : Reg :=
  match r.pend.find? (·.1 == a) with
  | some p =>
    let pend := r.pend.filter (·.1 != a)
    if effective then { done := (r.done.filter fun d => !p.2.2.contains d.1) ++ [(a, p.2.1)], pend := pend }
    else { r with pend := pend }
  | none => r

def Reg.vals (r : Reg) : List Nat := r.done.map (·.2) ++ r.pend.map (·.2.1)

/-- a register of the container as the monitors see it: which operations write it (with which value), and which
results tell that the write took effect. Call `a` is recorded under id `a + 1`; id `0` is the initial value. -/
structure RegSpec where
  isW : Op → Option Nat
  eff : Res → Bool

/-- the register bookkeeping alone (the `ctxR` / `fnR` / `svR` components of `monC05`) -/
def monReg (sp : RegSpec) : ObsMonitor Obs Reg where
  init := { done := [(0, 0)] }
  step := fun reg o =>
    match o with
    | .inv a op =>
      (match sp.isW op with
       | some v => some (reg.inv (a + 1) v)
       | none => some reg)
    | .ret a r => some (reg.ret (a + 1) (sp.eff r))
    | _ => some reg

def ctxSpec : RegSpec where
  isW := fun op => match op with
    | .setContext c _ => some c
    | _ => none
  eff := fun _ => true

def fnSpec : RegSpec where
  isW := fun op => match op with
    | .setRoutine f => some f
    | .setStateRoutine f => some f
    | _ => none
  eff := fun _ => true

def svSpec : RegSpec where
  isW := fun op => match op with
    | .setState v => some v
    | .swap (some v) => some v
    | _ => none
  eff := fun r => match r with
    | .setS _ ch _ _ => ch
    | .swapR _ _ ch _ _ => ch
    | _ => true

structure C05St where
  cfg : Cfg := {}
  running : List Nat := []
  info : List (Nat × Nat × Nat × Nat) := []     -- entry ↦ (f, arg, root)
  snaps : List (Nat × List Nat) := []           -- per call: running instances at its invocation
  doomed : List Nat := []                       -- instances superseded by a call that has returned
  croots : List Nat := []
  ctxR : Reg := { done := [(0, 0)] }            -- the nil context initially (id 0; call `a` has id `a + 1`)
  fnR : Reg := { done := [(0, 0)] }
  svR : Reg := { done := [(0, 0)] }             -- stored state (StateRoutineContainer)
  gotState : Option Nat := none                 -- result of a GetState that overlapped no SetState / SwapValue; none invoked since
  spend : List Nat := []                        -- SetState / SwapValue calls in flight
  sepoch : Nat := 0                             -- number of SetState / SwapValue invocations and returns so far
  gsAt : List (Nat × Nat) := []                 -- GetState call ↦ `sepoch` at its invocation
  clears : List Nat := []                       -- SetContext(nil, _) / ClearContext calls
deriving Repr

def Res.superseded : Op → Res → Bool
  | .setContext _ _, .bool b => b
  | .restart, .bool b => b
  | .setRoutine _, _ => true
  | .setStateRoutine _, _ => true
  | .setState _, .setS _ changed _ _ => changed
  | .swap _, .swapR _ _ changed _ _ => changed
  | _, _ => false

/-- ClearContext / SetContext(nil, _) -/
def Op.isClearCtx : Op → Bool
  | .setContext 0 _ => true
  | _ => false

/-- does this result tell that every instance executing at the call has been superseded? (`isClear`: the call was
ClearContext / SetContext(nil, _): whatever it reports, nothing may keep a live context afterwards) -/
def doomsRet (isClear : Bool) : Res → Bool
  | .bool b => b || isClear
  | .setR _ _ => true
  | .setSR _ _ _ => true
  | .setS _ changed _ _ => changed
  | .swapR _ _ changed _ _ => changed
  | _ => false

def lookupInfo (l : List (Nat × Nat × Nat × Nat)) (k : Nat) : Option (Nat × Nat × Nat) :=
  (l.find? (·.1 == k)).map (·.2)

/-- **C05**: (1) once a superseding call has returned, every instance that was executing when it was invoked sees
a cancelled context, and an instance seen with a live context stems from a possibly-current context, routine and
(state variant) stored state — never from a replaced record; (2) at quiescence at most one executing instance has a live context, and if there is one
its context derives from a possibly-current container context that is not cancelled, its function is a
possibly-current one, and (state variant) its argument is the stored non-empty state. -/
def monC05 : ObsMonitor Obs C05St where
  init := {}
  step := fun ms o =>
    match o with
    | .cfg c => some { ms with cfg := c }
    | .cbin k f arg root => some { ms with running := ms.running ++ [k], info := (k, f, arg, root) :: ms.info }
    | .cbout k _ => some { ms with running := ms.running.filter (· != k) }
    | .envCancel c => some { ms with croots := c :: ms.croots }
    | .inv a op =>
      let ms := { ms with snaps := (a, ms.running) :: ms.snaps }
      (match op with
       | .setContext c _ => some { ms with ctxR := ms.ctxR.inv (a + 1) c, clears := if c == 0 then a :: ms.clears else ms.clears }
       | .setRoutine f => some { ms with fnR := ms.fnR.inv (a + 1) f }
       | .setStateRoutine f => some { ms with fnR := ms.fnR.inv (a + 1) f }
       | .setState v => some { ms with gotState := none, spend := a :: ms.spend, sepoch := ms.sepoch + 1, svR := ms.svR.inv (a + 1) v }
       | .swap (some v) => some { ms with gotState := none, spend := a :: ms.spend, sepoch := ms.sepoch + 1, svR := ms.svR.inv (a + 1) v }
       | .swap none => some { ms with gotState := none, spend := a :: ms.spend, sepoch := ms.sepoch + 1 }
       | .getState => some { ms with gsAt := (a, ms.sepoch) :: ms.gsAt }
       | _ => some ms)
    | .ret a r =>
      let snap := lookupSnap ms.snaps a
      let eff := match r with
        | .setS _ ch _ _ => ch
        | .swapR _ _ ch _ _ => ch
        | _ => true
      let ms := { ms with ctxR := ms.ctxR.ret (a + 1) true, fnR := ms.fnR.ret (a + 1) true, svR := ms.svR.ret (a + 1) eff }
      let ms := match r with
        | .setS _ _ _ _ => { ms with gotState := none, spend := ms.spend.filter (· != a), sepoch := ms.sepoch + 1 }
        | .swapR _ _ _ _ _ => { ms with gotState := none, spend := ms.spend.filter (· != a), sepoch := ms.sepoch + 1 }
        | _ => ms
      let ms := match r with
        -- the value is the stored state now only if no SetState / SwapValue overlapped the GetState call
        | .state v => { ms with gotState := if ms.spend.isEmpty && (ms.gsAt.find? (·.1 == a)).map (·.2) == some ms.sepoch
                                            then some v else none }
        | _ => ms
      -- SetContext / RestartRoutine that acted, any new routine / changed state, and ClearContext whatever it reports
      some (if doomsRet (ms.clears.contains a) r then { ms with doomed := snap ++ ms.doomed } else ms)
    | .probeCtx k c =>
      if !c && ms.doomed.contains k then none
      else if !c && (match lookupInfo ms.info k with
                     | some (f, arg, root) =>
                       -- a live context: the instance is the current one, so it stems from a possibly-current
                       -- context, routine (and stored state), not from a replaced record
                       !(root != 0 && ms.ctxR.vals.contains root && f != 0 && ms.fnR.vals.contains f &&
                         (!ms.cfg.state || (arg != 0 && ms.svR.vals.contains arg)))
                     | none => false) then none
      else some ms
    | .quiesce _ _ live =>
      (match live with
       | [] => some ms
       | [k] =>
         (match lookupInfo ms.info k with
          | some (f, arg, root) =>
            let okCtx := root != 0 && ms.ctxR.vals.contains root && !ms.croots.contains root
            let okFn := f != 0 && ms.fnR.vals.contains f
            let okSt := !ms.cfg.state || (arg != 0 && (match ms.gotState with
                                                        | some v => v == arg
                                                        | none => true))
            if okCtx && okFn && okSt then some ms else none
          | none => none)
       | _ => none)
    | _ => some ms

/-! ## C14 -/

structure C14St where
  cfg : Cfg := {}
  running : List (Nat × Bool) := []        -- (entry, touched): touched = a mutating API call was in flight while it ran, or its context was seen cancelled
  pendMut : List Nat := []                 -- mutating API calls in flight
  lastCtx : Nat := 0                       -- context of the most recently invoked SetContext
  croots : List Nat := []
  needCause : Bool := false                -- the last reported current exit (success, or error without a pending retry) forbids a new run
  needS : Bool := false                    -- the last reported current exit was a success: only RestartRoutine or a new routine/state may run it again
  lastExit : Option (Option Nat) := none   -- result of the last untouched instance that returned, no mutating call invoked since
  retryDue : Bool := false                 -- a retry was armed and nothing but the timer may consume it
  expectReset : Nat := 0
  outs : List (Nat × Option Nat) := []     -- results of returned instances
  unreported : List (Option Nat) := []     -- results not yet matched by an exit-callback group
  cbNext : Nat := 0
  cbErr : Option Nat := none
  doomedAt : List (Nat × List Nat) := []   -- WaitExited call ↦ instances already superseded when it was invoked
  snaps : List (Nat × List Nat) := []
  doomed : List Nat := []
  rinr : List (Nat × Bool) := []
  wcancelled : List Nat := []
  errsent : List (Nat × Nat) := []         -- WaitExited call ↦ error sent on its error channel
  ctxPend : List Nat := []                 -- SetContext / ClearContext calls in flight
  ctxAmb : Bool := false                   -- the latest SetContext invocation overlapped another one: `lastCtx` need not be the container's context
  retd : Nat := 0                          -- upper bound of the instances that returned and whose final section may not have run yet
deriving Repr

def removeOne (l : List (Option Nat)) (e : Option Nat) : Option (List (Option Nat)) :=
  if l.contains e then some (l.erase e) else none

/-- **C14**: a routine that returned nil is not run again without RestartRoutine or a new routine/state; one that
returned an error is run again only by RestartRoutine, SetContext(restart), a new routine/state or the retry
timer; an armed retry is not lost (checked at quiescence points); a success resets the backoff; WaitExited returns
the result of an instance that had not been superseded when WaitExited was called; exit callbacks are called in
order, once per exit, all with the same error, which is the result of an instance that returned. -/
def monC14 : ObsMonitor Obs C14St where
  init := {}
  step := fun ms o =>
    match o with
    | .cfg c => some { ms with cfg := c }
    | .cbin k _ _ _ =>
      if ms.needCause || ms.needS then none
      else some { ms with running := ms.running ++ [(k, !ms.pendMut.isEmpty)], retryDue := false }
    | .probeCtx k true => some { ms with running := ms.running.map fun p => if p.1 == k then (p.1, true) else p }
    | .cbout k e =>
      let untouched := ms.running.any fun p => p.1 == k && !p.2
      let ms := { ms with running := ms.running.filter (·.1 != k), outs := (k, e) :: ms.outs,
                          unreported := e :: ms.unreported, retd := ms.retd + 1 }
      if untouched then
        some { ms with lastExit := some e,
                       expectReset := if e.isNone && ms.cfg.retry then ms.expectReset + 1 else ms.expectReset }
      else some ms
    -- the exit is known to the container once its final section reports it (backoff call, first exit callback)
    -- a report is credited to the instance of `lastExit` only if it is the only instance whose final section can
    -- be the one reporting (`retd = 1`: every other returned instance was settled by a quiescence line); a delayed
    -- final section of a superseded instance may otherwise report in between
    | .bo .dur => some { ms with lastExit := none, needCause := false, retd := if ms.retd == 1 then 0 else ms.retd,
                                 retryDue := ms.pendMut.isEmpty && ms.lastCtx != 0 && !ms.croots.contains ms.lastCtx &&
                                   !ms.ctxAmb }
    | .bo .stop => some { ms with lastExit := none, retd := if ms.retd == 1 then 0 else ms.retd,
                                  needCause := ms.needCause || (ms.retd == 1 && (match ms.lastExit with
                                                                                 | some (some _) => true
                                                                                 | _ => false)) }
    | .bo .reset => some { ms with lastExit := none, expectReset := ms.expectReset - 1,
                                   retd := if ms.retd == 1 then 0 else ms.retd,
                                   needS := ms.needS || (ms.retd == 1 && ms.lastExit == some none) }
    | .envCancel c => some { ms with retryDue := false, croots := c :: ms.croots }
    | .envCancelW a => some { ms with wcancelled := a :: ms.wcancelled }
    | .envErr a e => some { ms with errsent := (a, e) :: ms.errsent }
    | .inv a op =>
      let quiet := match op with
        | .getState => true
        | .waitExited _ => true
        | _ => false
      let ms := { ms with running := if quiet then ms.running else ms.running.map (fun p => (p.1, true)),
                          snaps := (a, ms.running.map (·.1)) :: ms.snaps,
                          pendMut := if quiet then ms.pendMut else a :: ms.pendMut,

                          lastExit := if quiet then ms.lastExit else none,
                          expectReset := if quiet then ms.expectReset else 0 }
      (match op with
       | .restart => some { ms with needCause := false, needS := false, retryDue := false }
       | .setContext c r =>
         -- (when SetContext calls overlap, their critical sections may run in either order)
         some { ms with lastCtx := c, needCause := if r then false else ms.needCause,
                        retryDue := if r || c == 0 || !ms.ctxPend.isEmpty then false else ms.retryDue,
                        ctxAmb := !ms.ctxPend.isEmpty, ctxPend := a :: ms.ctxPend }
       | .waitExited r => some { ms with doomedAt := (a, ms.doomed) :: ms.doomedAt, rinr := (a, r) :: ms.rinr }
       | .getState => some ms
       | _ => some { ms with needCause := false, needS := false, retryDue := false })
    | .ret a r =>
      let ms := { ms with pendMut := ms.pendMut.filter (· != a), ctxPend := ms.ctxPend.filter (· != a) }
      (match r with
       | .wx e =>
         let dm := lookupSnap ms.doomedAt a
         let fresh := ms.outs.any fun p => p.2 == e && !dm.contains p.1
         (match e with
          | some 0 => some ms    -- context.Canceled: the caller's own context, or an instance cancelled before it entered
          | none => if fresh || (ms.rinr.find? (·.1 == a)).map (·.2) == some true then some ms else none
          -- an error other than context.Canceled: the result of an instance, or what was sent on the error channel
          | some e' => if fresh || ms.errsent.contains (a, e') then some ms else none)
       | r =>
         let snap := lookupSnap ms.snaps a
         let sup := match r with
           | .bool b => b
           | .setS _ ch _ _ => ch
           | .swapR _ _ ch _ _ => ch
           | .state _ => false
           | _ => true
         -- superseded for sure: executing when the call was invoked and still executing now that it has returned
         let still := snap.filter fun k => ms.running.any (·.1 == k)
         some { ms with doomed := if sup then still ++ ms.doomed else ms.doomed })
    | .exitcb j e =>
      if j = 0 then
        if ms.cbNext != 0 then none
        else
          let next := if ms.cfg.ncb ≤ 1 then 0 else 1
          -- with a backoff configured the backoff call (which comes first) tells whose exit this is
          let ms := if ms.cfg.retry then ms
                    else { ms with lastExit := none, retd := if ms.retd == 1 then 0 else ms.retd,
                                   needCause := ms.needCause || (ms.retd == 1 && e.isSome && ms.lastExit == some e),
                                   needS := ms.needS || (ms.retd == 1 && e.isNone && ms.lastExit == some e) }
          (match removeOne ms.unreported e with
           | some l => some { ms with cbNext := next, cbErr := e, unreported := l }
           | none => if e == some 0 then some { ms with cbNext := next, cbErr := e } else none)
      else if j == ms.cbNext && e == ms.cbErr then
        some { ms with cbNext := if j + 1 ≥ ms.cfg.ncb then 0 else j + 1 }
      else none
    -- at a quiescence line every final section has run
    | .quiesce _ _ _ =>
      if ms.retryDue || ms.expectReset != 0 || ms.cbNext != 0 then none else some { ms with retd := 0, lastExit := none }
    | _ => some ms

/-- the counter-example that made the run-cause clause unsound before `retd`: instance 0 is superseded and returns
nil, its final section is delayed; instance 1 (untouched) returns nil; the delayed final section reports
(`bo reset`); SetContext then legitimately starts a new instance, because instance 1 is not recorded yet -/
example : monC14.accepts
    [.cfg { retry := true }, .inv 0 (.setContext 1 false), .ret 0 (.bool false), .inv 1 (.setRoutine 1),
     .ret 1 (.setR false false), .cbin 0 1 0 1, .probeCtx 0 false, .inv 2 (.setRoutine 2), .ret 2 (.setR true true),
     .cbout 0 none, .cbin 1 2 0 1, .probeCtx 1 false, .cbout 1 none, .bo .reset, .inv 3 (.setContext 2 false),
     .ret 3 (.bool true), .cbin 2 2 0 2] = true := by decide

/-- the clause still fires when the attribution is unambiguous: a single instance succeeded (or failed with `Stop`)
and a new instance enters although no mutating call was made -/
example : monC14.accepts
    [.cfg { retry := true }, .inv 0 (.setContext 1 false), .ret 0 (.bool false), .inv 1 (.setRoutine 1),
     .ret 1 (.setR false false), .cbin 0 1 0 1, .probeCtx 0 false, .cbout 0 none, .bo .reset,
     .cbin 1 1 0 1] = false := by decide
example : monC14.accepts
    [.cfg { retry := true }, .inv 0 (.setContext 1 false), .ret 0 (.bool false), .inv 1 (.setRoutine 1),
     .ret 1 (.setR false false), .cbin 0 1 0 1, .probeCtx 0 false, .cbout 0 (some 3), .bo .stop,
     .cbin 1 1 0 1] = false := by decide

/-! ## C14h — a healthy instance is left alone, and moved to a new context when asked -/

structure C14hSt where
  running : List (Nat × Bool) := []        -- (entry, touched)
  pendMut : List Nat := []                 -- mutating API calls in flight
  croots : List Nat := []
  roots : List (Nat × Nat) := []           -- entry ↦ root context of the instance
  seenLive : List Nat := []                -- instances whose context was seen live after entry
  moved : List (Nat × Nat) := []           -- SetContext(c ≠ nil, restart=false) in flight ↦ the healthy instance executing at the call
  expectRun : Bool := false                -- such a call returned true while that instance was still executing
  fns : List (Nat × Nat) := []             -- entry ↦ function tag
  fnR : Reg := { done := [(0, 0)] }        -- possibly-current routine / state function
deriving Repr

/-- does this invocation qualify for the "moved to a new context" clause? SetContext(ctx ≠ nil, restart = false)
invoked while exactly one, healthy, instance executes, no other mutating call is in flight and `ctx` has not been
cancelled by the environment -/
def movedOf (running : List (Nat × Bool)) (croots seenLive pendMut : List Nat) (a : Nat) (op : Op) : List (Nat × Nat) :=
  match op, running with
  | .setContext c false, [(k, false)] =>
    if c != 0 && !croots.contains c && seenLive.contains k && pendMut.isEmpty then [(a, k)] else []
  | _, _ => []

/-- such a call returned true while that instance still executes and nothing else is in flight -/
def expOf (moved : List (Nat × Nat)) (running : List (Nat × Bool)) (pm : List Nat) (a : Nat) (r : Res) : Bool :=
  match r, moved.find? (·.1 == a) with
  | .bool true, some p => running.any (·.1 == p.2) && pm.isEmpty
  | _, _ => false

def Op.quiet : Op → Bool
  | .getState | .waitExited _ => true
  | _ => false

/-- **C14 (run again … by nothing else), the healthy-instance clauses**: an instance that entered with a live
context is not cancelled unless a mutating API call was in flight when it entered or has been invoked since, or
its root context was cancelled by the environment (a retry timer that lost the race for the lock, a stale error
or a stale pointer must not stop it); and when SetContext(ctx ≠ nil, restart = false) returns true while such an
instance — which has not failed — is still executing, the routine runs again under the new context once that
instance has returned (checked at quiescence points with nothing executing); an instance seen with a live context
runs a possibly-current routine (a record that was replaced is not run again, e.g. by its own stale retry timer). -/
def monC14h : ObsMonitor Obs C14hSt where
  init := {}
  step := fun ms o =>
    match o with
    | .cbin k f _ root =>
      some { ms with running := ms.running ++ [(k, !ms.pendMut.isEmpty)], roots := (k, root) :: ms.roots,
                     fns := (k, f) :: ms.fns, expectRun := false }
    | .cbout k _ => some { ms with running := ms.running.filter (·.1 != k) }
    | .probeCtx k false =>
      -- a replaced record is not run again: an instance with a live context belongs to a possibly-current routine
      (match ms.fns.find? (·.1 == k) with
       | some p => if ms.fnR.vals.contains p.2 then some { ms with seenLive := k :: ms.seenLive } else none
       | none => some { ms with seenLive := k :: ms.seenLive })
    | .probeCtx k true =>
      let healthy := ms.running.any (fun p => p.1 == k && !p.2) && ms.seenLive.contains k &&
        (match ms.roots.find? (·.1 == k) with
         | some p => !ms.croots.contains p.2
         | none => false)
      if healthy then none
      else some { ms with running := ms.running.map fun p => if p.1 == k then (p.1, true) else p }
    | .envCancel c => some { ms with croots := c :: ms.croots, expectRun := false, moved := [] }
    | .inv a op =>
      if op.quiet then some ms else
      let ms := match op with
        | .setRoutine f => { ms with fnR := ms.fnR.inv (a + 1) f }
        | .setStateRoutine f => { ms with fnR := ms.fnR.inv (a + 1) f }
        | _ => ms
      -- a SetContext call qualifies only if no other mutating call and no cancellation by the environment overlaps it
      some { ms with running := ms.running.map (fun p => (p.1, true)), pendMut := a :: ms.pendMut,
                     expectRun := false,
                     moved := movedOf ms.running ms.croots ms.seenLive ms.pendMut a op }
    | .ret a r =>
      let ms := { ms with pendMut := ms.pendMut.filter (· != a), fnR := ms.fnR.ret (a + 1) true }
      some { ms with expectRun := ms.expectRun || expOf ms.moved ms.running ms.pendMut a r }
    | .quiesce _ run _ => if ms.expectRun && run.isEmpty then none else some ms
    | _ => some ms

/-! ## C14ha — the healthy-instance clause of `monC14h` alone -/

structure C14haSt where
  running : List (Nat × Bool) := []        -- (entry, touched)
  pendMut : List Nat := []                 -- mutating API calls in flight
  croots : List Nat := []
  roots : List (Nat × Nat) := []           -- entry ↦ root context of the instance
  seenLive : List Nat := []                -- instances whose context was seen live after entry
deriving Repr

/-- first clause of `monC14h` alone: an executing instance that was seen with a live context is not seen cancelled
unless a mutating API call was in flight when it entered or has been invoked since, or its root context was
cancelled by the environment. Proved to accept every model trace (`Props.C14ha_obs`): in particular no retry
timer, stale error or stale pointer stops a healthy instance. -/
def monC14ha : ObsMonitor Obs C14haSt where
  init := {}
  step := fun ms o =>
    match o with
    | .cbin k _ _ root =>
      some { ms with running := ms.running ++ [(k, !ms.pendMut.isEmpty)], roots := (k, root) :: ms.roots }
    | .cbout k _ => some { ms with running := ms.running.filter (·.1 != k) }
    | .probeCtx k false => some { ms with seenLive := k :: ms.seenLive }
    | .probeCtx k true =>
      let healthy := ms.running.any (fun p => p.1 == k && !p.2) && ms.seenLive.contains k &&
        (match ms.roots.find? (·.1 == k) with
         | some p => !ms.croots.contains p.2
         | none => false)
      if healthy then none
      else some { ms with running := ms.running.map fun p => if p.1 == k then (p.1, true) else p }
    | .envCancel c => some { ms with croots := c :: ms.croots }
    | .inv a op =>
      if op.quiet then some ms else
      some { ms with running := ms.running.map (fun p => (p.1, true)), pendMut := a :: ms.pendMut }
    | .ret a _ => some { ms with pendMut := ms.pendMut.filter (· != a) }
    | _ => some ms

/-! ## C14cb — the exit-callback clause of `monC14` alone -/

structure C14cbSt where
  cfg : Cfg := {}
  unreported : List (Option Nat) := []     -- results not yet matched by an exit-callback group
  cbNext : Nat := 0
  cbErr : Option Nat := none
deriving Repr

/-- exit-callback clause of `monC14` alone: the exit callbacks are called in groups — callback 0, 1, …, ncb-1, all
with the same error —, a group is complete at every quiescence line, and the error of a group is the result of an
instance that returned and has not been reported yet (or context.Canceled: an instance that was cancelled before
it entered). Proved to accept every model trace (`Props.C14cb_obs`). -/
def monC14cb : ObsMonitor Obs C14cbSt where
  init := {}
  step := fun ms o =>
    match o with
    | .cfg c => some { ms with cfg := c }
    | .cbout _ e => some { ms with unreported := e :: ms.unreported }
    | .exitcb j e =>
      if j = 0 then
        if ms.cbNext != 0 then none
        else
          let next := if ms.cfg.ncb ≤ 1 then 0 else 1
          (match removeOne ms.unreported e with
           | some l => some { ms with cbNext := next, cbErr := e, unreported := l }
           | none => if e == some 0 then some { ms with cbNext := next, cbErr := e } else none)
      else if j == ms.cbNext && e == ms.cbErr then
        some { ms with cbNext := if j + 1 ≥ ms.cfg.ncb then 0 else j + 1 }
      else none
    | .quiesce _ _ _ => if ms.cbNext != 0 then none else some ms
    | _ => some ms

/-! ## C14w — the WaitExited clause of `monC14` alone -/

structure C14wSt where
  running : List Nat := []
  outs : List (Nat × Option Nat) := []     -- results of returned instances
  snaps : List (Nat × List Nat) := []      -- call ↦ instances executing at its invocation
  doomed : List Nat := []                  -- instances superseded for sure
  doomedAt : List (Nat × List Nat) := []   -- WaitExited call ↦ `doomed` at its invocation
  rinr : List (Nat × Bool) := []           -- WaitExited call ↦ returnIfNotRunning
  errsent : List (Nat × Nat) := []         -- WaitExited call ↦ error sent on its error channel
deriving Repr

/-- does the result tell that every instance executing at the call was superseded? -/
def Res.sup : Res → Bool
  | .bool b => b
  | .setS _ ch _ _ => ch
  | .swapR _ _ ch _ _ => ch
  | .state _ => false
  | .wx _ => false
  | _ => true

/-- WaitExited clause of `monC14` alone: WaitExited returns context.Canceled, or nil when asked to return if nothing
runs, or an error sent on its error channel, or the result of an instance that returned and had not been
superseded for sure (executing when a superseding call was invoked and still executing when it returned) when
WaitExited was called. Proved to accept every model trace (`Props.C14w_obs`). -/
def monC14w : ObsMonitor Obs C14wSt where
  init := {}
  step := fun ms o =>
    match o with
    | .cbin k _ _ _ => some { ms with running := ms.running ++ [k] }
    | .cbout k e => some { ms with running := ms.running.filter (· != k), outs := (k, e) :: ms.outs }
    | .envErr a e => some { ms with errsent := (a, e) :: ms.errsent }
    | .inv a op =>
      let ms := { ms with snaps := (a, ms.running) :: ms.snaps }
      (match op with
       | .waitExited r => some { ms with doomedAt := (a, ms.doomed) :: ms.doomedAt, rinr := (a, r) :: ms.rinr }
       | _ => some ms)
    | .ret a r =>
      (match r with
       | .wx e =>
         let dm := lookupSnap ms.doomedAt a
         let fresh := ms.outs.any fun p => p.2 == e && !dm.contains p.1
         (match e with
          | some 0 => some ms
          | none => if fresh || (ms.rinr.find? (·.1 == a)).map (·.2) == some true then some ms else none
          | some e' => if fresh || ms.errsent.contains (a, e') then some ms else none)
       | r =>
         let still := (lookupSnap ms.snaps a).filter fun k => ms.running.contains k
         some { ms with doomed := if r.sup then still ++ ms.doomed else ms.doomed })
    | _ => some ms

/-! ## C14hb — the first two clauses of `monC14h` alone -/

structure C14hbSt where
  running : List (Nat × Bool) := []
  pendMut : List Nat := []
  croots : List Nat := []
  roots : List (Nat × Nat) := []
  seenLive : List Nat := []
  moved : List (Nat × Nat) := []
  expectRun : Bool := false
deriving Repr

/-- the healthy-instance clause and the "moved to a new context" clause of `monC14h` alone: when
SetContext(ctx ≠ nil, restart = false) — overlapped by no other mutating call and no cancellation by the
environment — returns true while the healthy instance that was executing at its invocation still executes, the
routine runs again under the new context once that instance has returned: no quiescence line with nothing executing
may follow before an instance enters, another mutating call is invoked or the environment cancels a context.
Proved to accept every model trace (`Props.C14hb_obs`). -/
def monC14hb : ObsMonitor Obs C14hbSt where
  init := {}
  step := fun ms o =>
    match o with
    | .cbin k _ _ root =>
      some { ms with running := ms.running ++ [(k, !ms.pendMut.isEmpty)], roots := (k, root) :: ms.roots,
                     expectRun := false }
    | .cbout k _ => some { ms with running := ms.running.filter (·.1 != k) }
    | .probeCtx k false => some { ms with seenLive := k :: ms.seenLive }
    | .probeCtx k true =>
      let healthy := ms.running.any (fun p => p.1 == k && !p.2) && ms.seenLive.contains k &&
        (match ms.roots.find? (·.1 == k) with
         | some p => !ms.croots.contains p.2
         | none => false)
      if healthy then none
      else some { ms with running := ms.running.map fun p => if p.1 == k then (p.1, true) else p }
    | .envCancel c => some { ms with croots := c :: ms.croots, expectRun := false, moved := [] }
    | .inv a op =>
      if op.quiet then some ms else
      some { ms with running := ms.running.map (fun p => (p.1, true)), pendMut := a :: ms.pendMut,
                     expectRun := false,
                     moved := movedOf ms.running ms.croots ms.seenLive ms.pendMut a op }
    | .ret a r =>
      some { ms with pendMut := ms.pendMut.filter (· != a),
                     expectRun := ms.expectRun || expOf ms.moved ms.running (ms.pendMut.filter (· != a)) a r }
    | .quiesce _ run _ => if ms.expectRun && run.isEmpty then none else some ms
    | _ => some ms

/-! ## C14hf — the replaced-record clause of `monC14h` alone -/

structure C14hfSt where
  fns : List (Nat × Nat) := []             -- entry ↦ function tag
  fnR : Reg := { done := [(0, 0)] }
deriving Repr

/-- third clause of `monC14h` alone: an instance seen with a live context runs a possibly-current routine function
(a record that was replaced is not run again). It is the function part of `monC05l`'s probe clause
(`ProofsAsm.monC14hf_of_C05l`). -/
def monC14hf : ObsMonitor Obs C14hfSt where
  init := {}
  step := fun ms o =>
    let ok : Bool := match o with
      | .probeCtx k false =>
        (match ms.fns.find? (·.1 == k) with
         | some p => ms.fnR.vals.contains p.2
         | none => true)
      | _ => true
    if ok then
      match (monReg fnSpec).step ms.fnR o with
      | some r => some { fns := (match o with
                                 | .cbin k f _ _ => (k, f) :: ms.fns
                                 | _ => ms.fns), fnR := r }
      | none => none
    else none

/-! ## C05c — context lineage clause of C05 alone -/

structure C05cSt where
  info : List (Nat × Nat) := []                 -- entry ↦ root context
  ctxR : Reg := { done := [(0, 0)] }
deriving Repr

/-- context-lineage clause of `monC05` alone: an instance seen with a live context derives from a context that is
possibly the container's current one (set by a SetContext call that is not known to be overwritten: the latest one
under every linearization of the concurrent calls). Proved to accept every model trace (`Props.C05c_obs`). -/
def monC05c : ObsMonitor Obs C05cSt where
  init := {}
  step := fun ms o =>
    let ok : Bool := match o with
      | .probeCtx k false =>
        (match ms.info.find? (·.1 == k) with
         | some p => p.2 != 0 && ms.ctxR.vals.contains p.2
         | none => true)
      | _ => true
    if ok then
      match (monReg ctxSpec).step ms.ctxR o with
      | some r => some { info := (match o with
                                  | .cbin k _ _ root => (k, root) :: ms.info
                                  | _ => ms.info), ctxR := r }
      | none => none
    else none

/-! ## C05l — the lineage clauses of C05 alone -/

structure C05lSt where
  cfg : Cfg := {}
  info : List (Nat × Nat × Nat × Nat) := []     -- entry ↦ (f, arg, root)
  croots : List Nat := []
  ctxR : Reg := { done := [(0, 0)] }
  fnR : Reg := { done := [(0, 0)] }
  svR : Reg := { done := [(0, 0)] }
deriving Repr

/-- lineage clauses of `monC05` alone. (1) An instance seen with a live context stems from a possibly-current
context, a possibly-current routine function and (state variant) a possibly-current non-empty stored state —
"possibly current": given to a call that is in flight, or that has returned and is not known to be overwritten by
a call invoked after its return. (2) At a quiescence line at most one executing instance has a live context, and
it stems from a possibly-current context that the environment has not cancelled, a possibly-current function and
(state variant) a non-empty state. Proved to accept every model trace (`Props.C05l_obs`). -/
def monC05l : ObsMonitor Obs C05lSt where
  init := {}
  step := fun ms o =>
    let ok : Bool := match o with
      | .probeCtx k false =>
        (match lookupInfo ms.info k with
         | some (f, arg, root) =>
           root != 0 && ms.ctxR.vals.contains root && f != 0 && ms.fnR.vals.contains f &&
             (!ms.cfg.state || (arg != 0 && ms.svR.vals.contains arg))
         | none => true)
      | .quiesce _ _ live =>
        (match live with
         | [] => true
         | [k] =>
           (match lookupInfo ms.info k with
            | some (f, arg, root) =>
              root != 0 && ms.ctxR.vals.contains root && !ms.croots.contains root && f != 0 &&
                ms.fnR.vals.contains f && (!ms.cfg.state || arg != 0)
            | none => false)
         | _ => false)
      | _ => true
    if ok then
      match (monReg ctxSpec).step ms.ctxR o, (monReg fnSpec).step ms.fnR o, (monReg svSpec).step ms.svR o with
      | some c, some f, some v =>
        some { cfg := (match o with
                       | .cfg c' => c'
                       | _ => ms.cfg),
               info := (match o with
                        | .cbin k f' arg root => (k, f', arg, root) :: ms.info
                        | _ => ms.info),
               croots := (match o with
                          | .envCancel c' => c' :: ms.croots
                          | _ => ms.croots),
               ctxR := c, fnR := f, svR := v }
      | _, _, _ => none
    else none

/-! ## C05g — the stored-state comparison at quiescence alone -/

structure C05gSt where
  cfg : Cfg := {}
  info : List (Nat × Nat × Nat × Nat) := []     -- entry ↦ (f, arg, root)
  gotState : Option Nat := none
  spend : List Nat := []
  sepoch : Nat := 0
  gsAt : List (Nat × Nat) := []
deriving Repr

def Op.isChanger : Op → Bool
  | .setState _ | .swap _ => true
  | _ => false

/-- last part of the quiescence clause of `monC05` alone (state variant): the single executing instance with a
live context at a quiescence line was given the state that GetState returned, if a GetState call overlapped no
SetState / SwapValue call and none has been invoked since. Proved to accept every model trace (`Props.C05g_obs`). -/
def monC05g : ObsMonitor Obs C05gSt where
  init := {}
  step := fun ms o =>
    match o with
    | .cfg c => some { ms with cfg := c }
    | .cbin k f arg root => some { ms with info := (k, f, arg, root) :: ms.info }
    | .inv a op =>
      if op.isChanger then some { ms with gotState := none, spend := a :: ms.spend, sepoch := ms.sepoch + 1 }
      else (match op with
            | .getState => some { ms with gsAt := (a, ms.sepoch) :: ms.gsAt }
            | _ => some ms)
    | .ret a r =>
      (match r with
       | .setS _ _ _ _ => some { ms with gotState := none, spend := ms.spend.filter (· != a), sepoch := ms.sepoch + 1 }
       | .swapR _ _ _ _ _ => some { ms with gotState := none, spend := ms.spend.filter (· != a), sepoch := ms.sepoch + 1 }
       | .state v => some { ms with gotState := if ms.spend.isEmpty && (ms.gsAt.find? (·.1 == a)).map (·.2) == some ms.sepoch
                                                then some v else none }
       | _ => some ms)
    | .quiesce _ _ [k] =>
      (match lookupInfo ms.info k with
       | some (_, arg, _) =>
         if !ms.cfg.state || (match ms.gotState with
                              | some v => v == arg
                              | none => true) then some ms else none
       | none => some ms)
    | _ => some ms

/-! ## C05a — the first sentence of C05 alone -/

structure C05aSt where
  running : List Nat := []
  snaps : List (Nat × List Nat) := []
  doomed : List Nat := []
  clears : List Nat := []
deriving Repr

/-- first clause of `monC05` alone: once a superseding call (or ClearContext) has returned, no instance that was
executing when it was invoked is seen with a live context. Proved to accept every model trace (`Props.C05a_obs`). -/
def monC05a : ObsMonitor Obs C05aSt where
  init := {}
  step := fun ms o =>
    match o with
    | .cbin k _ _ _ => some { ms with running := ms.running ++ [k] }
    | .cbout k _ => some { ms with running := ms.running.filter (· != k) }
    | .inv a op =>
      some { ms with snaps := (a, ms.running) :: ms.snaps,
                     clears := if op.isClearCtx then a :: ms.clears else ms.clears }
    | .ret a r =>
      some (if doomsRet (ms.clears.contains a) r then { ms with doomed := lookupSnap ms.snaps a ++ ms.doomed } else ms)
    | .probeCtx k false => if ms.doomed.contains k then none else some ms
    | _ => some ms

/-- uniqueness clause of `monC05` alone: at a quiescence point at most one executing instance has a live context.
Proved to accept every model trace (`Props.C05b_obs`). -/
def monC05b : ObsMonitor Obs Unit where
  init := ()
  step := fun _ o =>
    match o with
    | .quiesce _ _ live => if live.length ≤ 1 then some () else none
    | _ => some ()

/-! ## C14, run causes: the clause monitor that has an `_obs` theorem (`C14rc_obs`) -/

structure C14rcSt where
  cfg : Cfg := {}
  fresh : List Nat := []        -- entered while no mutating call was in flight, none invoked since; context not yet probed
  ok : List Nat := []           -- … and seen with a live context
  pendMut : List Nat := []      -- mutating API calls in flight
  needCause : Bool := false
  needS : Bool := false
  lastExit : Option (Option Nat) := none
  retd : Nat := 0
deriving Repr

def isErrExit : Option (Option Nat) → Bool
  | some (some _) => true
  | _ => false

def C14rcSt.settle (ms : C14rcSt) : C14rcSt :=
  { ms with lastExit := none, retd := if ms.retd == 1 then 0 else ms.retd }

/-- **C14, run causes** (clause monitor): after the container's current instance has reported a success (`bo reset`,
or the first exit callback with nil when no backoff is configured) no instance enters before RestartRoutine or a
call that sets a new routine / state is invoked; after it has reported an error without arming a retry (`bo stop`, or
the first exit callback with that error when no backoff is configured) none enters before such a call or
SetContext(restart = true) is invoked. "The current instance": an instance that entered while no mutating call was
in flight, was then seen with a live context, and returned before any mutating call was invoked (`lastExit`). A
success / callback report is credited to it only when it is the only instance that can be reporting (`retd = 1`,
an upper bound of the instances that returned something else than context.Canceled and whose final section has not
reported; it is reset at quiescence lines): the delayed final section of a superseded instance may report in
between. `bo stop` / `bo dur` are only ever reported by the container's current instance. -/
def monC14rc : ObsMonitor Obs C14rcSt where
  init := {}
  step := fun ms o =>
    match o with
    | .cfg c => some { ms with cfg := c }
    | .cbin k _ _ _ =>
      if ms.needCause || ms.needS then none
      else some { ms with fresh := if ms.pendMut.isEmpty then k :: ms.fresh else ms.fresh }
    | .probeCtx k true => some { ms with fresh := ms.fresh.filter (· != k), ok := ms.ok.filter (· != k) }
    | .probeCtx k false =>
      some (if ms.fresh.contains k then { ms with fresh := ms.fresh.filter (· != k), ok := k :: ms.ok } else ms)
    | .cbout k e =>
      -- (at most one instance executes at a time, C04: whatever else was tracked is stale)
      some { ms with fresh := [], ok := [], retd := ms.retd + 1,
                     lastExit := if ms.ok.contains k then (if ms.cfg.retry || ms.cfg.ncb != 0 then some e else none)
                                 else ms.lastExit }
    | .bo .dur => some { ms with lastExit := none, needCause := false }
    | .bo .stop => some { ms with lastExit := none, needCause := ms.needCause || isErrExit ms.lastExit }
    | .bo .reset => some { ms.settle with needS := ms.needS || (ms.retd == 1 && ms.lastExit == some none) }
    | .exitcb j e =>
      if j == 0 && !ms.cfg.retry then
        if e == some 0 then some { ms with lastExit := none }
        else some { ms.settle with
                      needCause := ms.needCause || (ms.retd == 1 && e.isSome && ms.lastExit == some e),
                      needS := ms.needS || (ms.retd == 1 && e.isNone && ms.lastExit == some e) }
      else some ms
    | .inv a op =>
      if op.quiet then some ms
      else
        let ms1 := { ms with fresh := [], ok := [], pendMut := a :: ms.pendMut, lastExit := none }
        (match op with
         | .setContext _ r => some { ms1 with needCause := if r then false else ms.needCause }
         | _ => some { ms1 with needCause := false, needS := false })
    | .ret a _ => some { ms with pendMut := ms.pendMut.filter (· != a) }
    | .quiesce _ _ _ => some { ms with retd := 0, lastExit := none }
    | _ => some ms

/-- the run that the first version of the run-cause clause of `monC14` rejected (a delayed final section of a
superseded instance reports between the return of the current instance and its own report) is accepted -/
example : monC14rc.accepts
    [.cfg { retry := true }, .inv 0 (.setContext 1 false), .ret 0 (.bool false), .inv 1 (.setRoutine 1),
     .ret 1 (.setR false false), .cbin 0 1 0 1, .probeCtx 0 false, .inv 2 (.setRoutine 2), .ret 2 (.setR true true),
     .cbout 0 none, .cbin 1 2 0 1, .probeCtx 1 false, .cbout 1 none, .bo .reset, .inv 3 (.setContext 2 false),
     .ret 3 (.bool true), .cbin 2 2 0 2] = true := by decide

/-- … and the clause fires when the attribution is unambiguous -/
example : monC14rc.accepts
    [.cfg { retry := true }, .inv 0 (.setContext 1 false), .ret 0 (.bool false), .inv 1 (.setRoutine 1),
     .ret 1 (.setR false false), .cbin 0 1 0 1, .probeCtx 0 false, .cbout 0 none, .bo .reset,
     .cbin 1 1 0 1] = false := by decide
example : monC14rc.accepts
    [.cfg { retry := true }, .inv 0 (.setContext 1 false), .ret 0 (.bool false), .inv 1 (.setRoutine 1),
     .ret 1 (.setR false false), .cbin 0 1 0 1, .probeCtx 0 false, .cbout 0 (some 3), .bo .stop,
     .cbin 1 1 0 1] = false := by decide
example : monC14rc.accepts
    [.cfg { ncb := 1 }, .inv 0 (.setContext 1 false), .ret 0 (.bool false), .inv 1 (.setRoutine 1),
     .ret 1 (.setR false false), .cbin 0 1 0 1, .probeCtx 0 false, .cbout 0 (some 3), .exitcb 0 (some 3),
     .inv 2 (.setContext 2 false), .ret 2 (.bool true), .cbin 1 1 0 2] = false := by decide

end UtilModel.Routine
