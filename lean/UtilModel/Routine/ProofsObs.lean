import UtilModel.Routine.Proofs
import UtilModel.Routine.Monitors
/-!
# routine: observable form of the first clause of C04

`link_run`: along every run the overlap monitor `monC04a` accepts the observable trace; the relation `LinkA` ties the monitor's set of executing instances to the model's.
-/
namespace UtilModel.Routine
open UtilModel

structure LinkA (s : St) (ms : C04St) : Prop where
  l1 : ∀ k : Nat, k ∈ ms.running ↔ ∃ (n : Nat) (x : Inst), s.ent[k]? = some n ∧ s.insts[n]? = some x ∧ x.st = .running
  l3 : ∀ (k n : Nat), s.ent[k]? = some n → ∃ x : Inst, s.insts[n]? = some x ∧ x.st ≠ .waiting ∧ x.st ≠ .draining
  l4 : ∀ (k k' n : Nat), s.ent[k]? = some n → s.ent[k']? = some n → k = k'

/-- existing instances keep their program counter (critical sections: only cancellation and appends) -/
theorem LinkA.ext {s s' : St} {ms : C04St} (h : LinkA s ms) (he : s'.ent = s.ent) (hx : InstsExt s s') :
    LinkA s' ms := by
  refine ⟨?_, ?_, ?_⟩
  · intro k
    rw [h.l1 k, he]
    constructor
    · rintro ⟨n, x, h1, h2, h3⟩
      obtain ⟨y, hy, hle⟩ := hx n x h2
      exact ⟨n, y, h1, hy, by rw [hle.2.2.2.1]; exact h3⟩
    · rintro ⟨n, y, h1, h2, h3⟩
      obtain ⟨x, hx0, _, _⟩ := h.l3 k n h1
      obtain ⟨y', hy', hle⟩ := hx n x hx0
      rw [h2] at hy'; cases hy'
      exact ⟨n, x, h1, hx0, by rw [← hle.2.2.2.1]; exact h3⟩
  · intro k n hk
    rw [he] at hk
    obtain ⟨x, hx0, a, b⟩ := h.l3 k n hk
    obtain ⟨y, hy, hle⟩ := hx n x hx0
    exact ⟨y, hy, by rw [hle.2.2.2.1]; exact a, by rw [hle.2.2.2.1]; exact b⟩
  · intro k k' n; rw [he]; exact h.l4 k k' n

theorem LinkA.frame {s s' : St} {ms : C04St} (h : LinkA s ms) (he : s'.ent = s.ent) (hi : s'.insts = s.insts) :
    LinkA s' ms := h.ext he (InstsExt.of_eq hi)

/-- an instance that is not executing the function moves to another non-executing position -/
theorem LinkA.move {s : St} {ms : C04St} (h : LinkA s ms) (n : Nat) (x y : Inst) (hx : s.insts[n]? = some x)
    (h1 : x.st ≠ .running) (h2 : y.st ≠ .running)
    (h3 : (y.st = .waiting ∨ y.st = .draining) → (x.st = .waiting ∨ x.st = .draining)) :
    LinkA (setInst s n y) ms := by
  have hlt := get_lt hx
  have hget : ∀ m, (setInst s n y).insts[m]? = if n = m then some y else s.insts[m]? := by
    intro m; simp [setInst, List.getElem?_set, hlt]
  refine ⟨?_, ?_, h.l4⟩
  · intro k
    rw [h.l1 k]
    constructor
    · rintro ⟨m, z, a, b, c⟩
      have hne : n ≠ m := by intro e; subst e; rw [hx] at b; cases b; exact h1 c
      exact ⟨m, z, a, by rw [hget]; simp [hne, b], c⟩
    · rintro ⟨m, z, a, b, c⟩
      rw [hget] at b
      by_cases hne : n = m
      · simp [hne] at b; subst b; exact absurd c h2
      · simp [hne] at b; exact ⟨m, z, a, b, c⟩
  · intro k m hk
    obtain ⟨z, hz, a, b⟩ := h.l3 k m hk
    by_cases hne : n = m
    · subst hne
      rw [hx] at hz; cases hz
      refine ⟨y, by rw [hget]; simp, ?_, ?_⟩
      · intro e; rcases h3 (Or.inl e) with g | g
        · exact a g
        · exact b g
      · intro e; rcases h3 (Or.inr e) with g | g
        · exact a g
        · exact b g
    · exact ⟨z, by rw [hget]; simp [hne, hz], a, b⟩

/-! ## the entry table is only touched by `cbin` -/

@[simp] theorem cancelInst_ent (s : St) (n : Nat) : (cancelInst s n).ent = s.ent := by
  unfold cancelInst; split <;> rfl
@[simp] theorem cancelOpt_ent (s : St) (o : Option Nat) : (cancelOpt s o).ent = s.ent := by
  cases o <;> simp [cancelOpt]
@[simp] theorem killTimer_ent (s : St) (o : Option Nat) : (killTimer s o).ent = s.ent := by
  unfold killTimer; split
  · split
    · split <;> rfl
    · rfl
  · rfl
@[simp] theorem stopRec_ent (s : St) (r : Nat) : (stopRec s r).ent = s.ent := by
  unfold stopRec; split <;> simp
@[simp] theorem startRec_ent (s : St) (r c : Nat) (w : Option Nat) (f : Bool) : (startRec s r c w f).ent = s.ent := by
  unfold startRec; split
  · rfl
  · split <;> simp
@[simp] theorem normCtx_ent (s : St) : (normCtx s).ent = s.ent := by unfold normCtx; split <;> rfl
@[simp] theorem bcastNow_ent (s : St) : s.bcastNow.ent = s.ent := rfl
@[simp] theorem detachPrev_ent (s : St) : (detachPrev s).1.ent = s.ent := by
  cases hr : s.routine with
  | none => simp [detachPrev, hr]
  | some r => cases hx : s.recs[r]? <;> simp [detachPrev, hr, hx]

@[simp] theorem setContextCS_ent (s : St) (c : Nat) (r : Bool) : (setContextCS s c r).1.ent = s.ent := by
  simp only [setContextCS]
  split
  · rfl
  · split
    · rfl
    · split
      · rfl
      · split
        · rfl
        · split
          · rfl
          · split <;> simp

@[simp] theorem restartCS_ent (s : St) : (restartCS s).1.ent = s.ent := by
  simp only [restartCS]
  split
  · simp
  · split
    · simp
    · split <;> simp

@[simp] theorem setRoutineLocked_ent (s : St) (f arg : Nat) : (setRoutineLocked s f arg).1.ent = s.ent := by
  simp only [setRoutineLocked]
  split
  · split <;> simp
  · split <;> simp

@[simp] theorem updateStateRoutine_ent (s : St) : (updateStateRoutine s).1.ent = s.ent := by
  simp [updateStateRoutine]

@[simp] theorem setStateCS_ent (s : St) (cmp v : Nat) : (setStateCS s cmp v).1.ent = s.ent := by
  simp only [setStateCS]; split <;> simp

theorem apiCS_ent (s : St) (cf : Cfg) (op : Op) (r : St × Res × Option Nat) (h : apiCS s cf op = some r) :
    r.1.ent = s.ent := by
  cases op with
  | setContext c restart => simp [apiCS] at h; subst h; simp
  | setRoutine f =>
    simp only [apiCS] at h
    split at h
    · cases h
    · simp at h; subst h; simp
  | restart => simp [apiCS] at h; subst h; simp
  | setState v =>
    simp only [apiCS] at h
    split at h
    · cases h
    · simp at h; subst h; simp
  | setStateRoutine f =>
    simp only [apiCS] at h
    split at h
    · cases h
    · simp at h; subst h; simp
  | swap k =>
    simp only [apiCS] at h
    split at h
    · cases h
    · split at h
      · split at h
        · simp only [Option.some.injEq] at h; subst h; simp
        · simp only [Option.some.injEq] at h; subst h; rfl
      · simp at h; subst h; rfl
  | getState =>
    simp only [apiCS] at h
    split at h
    · cases h
    · simp at h; subst h; rfl
  | waitExited _ => simp [apiCS] at h

@[simp] theorem timerBody_ent (s : St) (t r : Nat) : (timerBody s t r).ent = s.ent := by
  simp only [timerBody, bcastNow_ent]
  split
  · split <;> simp
  · rfl

theorem recordCS_ent (s s' : St) (cf : Cfg) (n : Nat) (x : Inst) (dur : Bool)
    (h : recordCS s cf n x dur = some s') : s'.ent = s.ent := by
  simp only [recordCS] at h
  split at h
  · cases h
  · split at h
    · split at h
      · cases h
      · simp only [Option.some.injEq] at h; subst h
        simp only [bcastNow_ent]
        split <;> simp [setInst]
    · split at h
      · cases h
      · simp only [Option.some.injEq] at h; subst h; simp [setInst]

theorem running_unique {s : St} (hg : Good s) (i j : Nat) (x y : Inst) (hx : s.insts[i]? = some x)
    (hy : s.insts[j]? = some y) (rx : x.st = .running) (ry : y.st = .running) : i = j :=
  Chain.one_running (proj s) hg.chain i j (pI x) (pI y) (proj_get s i x hx) (proj_get s j y hy)
    (by simp [pI, pst, rx]) (by simp [pI, pst, ry])

/-- one step of the model against the overlap monitor -/
theorem link_step (s s' : St) (e : Ev) (ms : C04St) (hl : LinkA s ms) (ha : AllRec s)
    (hs : step s e = some s') (hg' : Good s') :
    match Ev.obs e with
    | none => LinkA s' ms
    | some o => ∃ ms', monC04a.step ms o = some ms' ∧ LinkA s' ms' := by
  cases e with
  | cfg c =>
    simp only [step, stepI] at hs
    split at hs
    · simp at hs; subst hs; exact ⟨ms, rfl, hl.frame rfl rfl⟩
    · cases hs
  | inv a op =>
    simp only [step, stepI] at hs
    split at hs
    · simp at hs; subst hs; exact ⟨ms, rfl, hl.frame rfl rfl⟩
    · cases hs
  | cs a =>
    simp only [step, stepI] at hs
    split at hs
    · rename_i cf c hcf hc
      split at hs
      · split at hs
        · split at hs
          · rename_i rinr _ _
            simp at hs; subst hs
            show LinkA _ ms
            exact hl.ext (by simp [setCall, waitSample]) (by
              have := (csok_waitSample s rinr).1
              intro n y hy; exact this n y hy)
          · cases hs
        · split at hs
          · cases hs
          · split at hs
            · rename_i r hr
              simp at hs; subst hs
              show LinkA _ ms
              exact hl.ext (by simp [setCall, apiCS_ent s cf _ r hr]) (by
                have := (csok_apiCS s cf _ r hr).1
                intro n y hy; exact this n y hy)
            · cases hs
      · cases hs
    · cases hs
  | ret a r =>
    simp only [step, stepI] at hs
    split at hs
    · split at hs
      · simp at hs; subst hs; exact ⟨ms, rfl, hl.frame rfl rfl⟩
      · split at hs
        · simp at hs; subst hs; exact ⟨ms, rfl, hl.frame rfl rfl⟩
        · cases hs
    · cases hs
  | wake a =>
    simp only [step, stepI] at hs
    split at hs
    · split at hs
      · split at hs
        · simp at hs; subst hs; exact hl.frame rfl rfl
        · cases hs
      · cases hs
    · cases hs
  | wctx a =>
    simp only [step, stepI] at hs
    split at hs
    · split at hs
      · split at hs
        · simp at hs; subst hs; exact hl.frame rfl rfl
        · cases hs
      · cases hs
    · cases hs
  | envCancel c =>
    simp only [step, stepI] at hs
    split at hs
    · simp at hs; subst hs; exact ⟨ms, rfl, hl.frame rfl rfl⟩
    · cases hs
  | envDo c =>
    simp only [step, stepI] at hs
    split at hs
    · simp at hs; subst hs; exact hl.frame rfl rfl
    · cases hs
  | envCancelW a =>
    simp only [step, stepI] at hs
    split at hs
    · split at hs
      · simp at hs; subst hs; exact ⟨ms, rfl, hl.frame rfl rfl⟩
      all_goals cases hs
    · cases hs
  | envErr a e0 =>
    simp only [step, stepI] at hs
    split at hs
    · split at hs
      · simp at hs; subst hs; exact ⟨ms, rfl, hl.frame rfl rfl⟩
      all_goals cases hs
    · cases hs
  | giveUp n =>
    simp only [step, stepI] at hs
    split at hs
    · rename_i x hx
      split at hs
      · rename_i hgd
        split at hs
        · simp at hs; subst hs
          exact hl.move n x _ hx (by simp [hgd.1]) (by simp) (fun _ => Or.inl hgd.1)
        · simp at hs; subst hs
          exact hl.move n x _ hx (by simp [hgd.1]) (by simp) (fun _ => Or.inl hgd.1)
      · cases hs
    · cases hs
  | drained n =>
    simp only [step, stepI] at hs
    split at hs
    · rename_i x hx
      split at hs
      · rename_i hgd
        simp at hs; subst hs
        exact hl.move n x _ hx (by simp [hgd.1]) (by simp) (fun _ => Or.inr hgd.1)
      · cases hs
    · cases hs
  | cbin k n f arg root =>
    simp only [step, stepI] at hs
    split at hs
    · rename_i x hx
      split at hs
      · split at hs
        · rename_i hgd
          simp at hs; subst hs
          have hlt := get_lt hx
          have hw : x.st = .waiting := hgd.1
          have hk : k = s.ent.length := hgd.2.2.2.1
          -- `n` has not entered before
          have hnot : ∀ k' : Nat, s.ent[k']? ≠ some n := by
            intro k' hk'
            obtain ⟨z, hz, a, _⟩ := hl.l3 k' n hk'
            rw [hx] at hz; cases hz; exact a hw
          have hget : ∀ m, ({ (setInst s n { x with st := .running }) with ent := s.ent ++ [n] } : St).insts[m]? =
              if n = m then some { x with st := .running } else s.insts[m]? := by
            intro m; simp [setInst, List.getElem?_set, hlt]
          have hrun_empty : ms.running = [] := by
            cases hr : ms.running with
            | nil => rfl
            | cons k0 rest =>
              have : k0 ∈ ms.running := by rw [hr]; simp
              obtain ⟨m, z, a, b, c⟩ := (hl.l1 k0).1 this
              have hne : n ≠ m := by intro e; subst e; exact hnot k0 a
              have hm' : ({ (setInst s n { x with st := .running }) with ent := s.ent ++ [n] } : St).insts[m]? = some z := by
                rw [hget]; simp [hne, b]
              have hn' : ({ (setInst s n { x with st := .running }) with ent := s.ent ++ [n] } : St).insts[n]? =
                  some { x with st := .running } := by rw [hget]; simp
              exact absurd (running_unique hg' n m _ z hn' hm' rfl c) hne
          refine ⟨{ ms with running := [k] }, by simp [monC04a, Ev.obs, hrun_empty], ?_, ?_, ?_⟩
          · intro k'
            simp only [List.mem_singleton]
            constructor
            · intro e; subst e
              exact ⟨n, { x with st := .running }, by simp [hk], by rw [hget]; simp, rfl⟩
            · rintro ⟨m, z, a, b, c⟩
              simp only [List.getElem?_append] at a
              by_cases hlt' : k' < s.ent.length
              · simp only [hlt', if_true] at a
                have hne : n ≠ m := by intro e; subst e; exact hnot k' a
                rw [hget] at b; simp [hne] at b
                have : k' ∈ ms.running := (hl.l1 k').2 ⟨m, z, a, b, c⟩
                rw [hrun_empty] at this; cases this
              · simp only [hlt', if_false] at a
                rcases Nat.lt_or_ge (k' - s.ent.length) 1 with g | g
                · omega
                · have : [n][k' - s.ent.length]? = none := List.getElem?_eq_none (by simpa using g)
                  rw [this] at a; cases a
          · intro k' m a
            simp only [List.getElem?_append] at a
            by_cases hlt' : k' < s.ent.length
            · simp only [hlt', if_true] at a
              have hne : n ≠ m := by intro e; subst e; exact hnot k' a
              obtain ⟨z, hz, c, d⟩ := hl.l3 k' m a
              exact ⟨z, by rw [hget]; simp [hne, hz], c, d⟩
            · simp only [hlt', if_false] at a
              rcases Nat.lt_or_ge (k' - s.ent.length) 1 with g | g
              · have : k' - s.ent.length = 0 := by omega
                rw [this] at a; simp at a; subst a
                exact ⟨{ x with st := .running }, by rw [hget]; simp, by simp, by simp⟩
              · have : [n][k' - s.ent.length]? = none := List.getElem?_eq_none (by simpa using g)
                rw [this] at a; cases a
          · intro k1 k2 m a b
            simp only [List.getElem?_append] at a b
            by_cases h1 : k1 < s.ent.length <;> by_cases h2 : k2 < s.ent.length
            · simp only [h1, h2, if_true] at a b; exact hl.l4 k1 k2 m a b
            · simp only [h1, h2, if_true, if_false] at a b
              rcases Nat.lt_or_ge (k2 - s.ent.length) 1 with g | g
              · have : k2 - s.ent.length = 0 := by omega
                rw [this] at b; simp at b; subst b; exact absurd a (hnot k1)
              · have : [n][k2 - s.ent.length]? = none := List.getElem?_eq_none (by simpa using g)
                rw [this] at b; cases b
            · simp only [h1, h2, if_true, if_false] at a b
              rcases Nat.lt_or_ge (k1 - s.ent.length) 1 with g | g
              · have : k1 - s.ent.length = 0 := by omega
                rw [this] at a; simp at a; subst a; exact absurd b (hnot k2)
              · have : [n][k1 - s.ent.length]? = none := List.getElem?_eq_none (by simpa using g)
                rw [this] at a; cases a
            · simp only [h1, h2, if_false] at a b
              rcases Nat.lt_or_ge (k1 - s.ent.length) 1 with g1 | g1
              · rcases Nat.lt_or_ge (k2 - s.ent.length) 1 with g2 | g2
                · omega
                · have : [n][k2 - s.ent.length]? = none := List.getElem?_eq_none (by simpa using g2)
                  rw [this] at b; cases b
              · have : [n][k1 - s.ent.length]? = none := List.getElem?_eq_none (by simpa using g1)
                rw [this] at a; cases a
        · cases hs
      · cases hs
    · cases hs
  | cbout k o =>
    simp only [step, stepI] at hs
    split at hs
    · rename_i n hn
      split at hs
      · rename_i x hx
        split at hs
        · rename_i hgd
          simp at hs; subst hs
          have hlt := get_lt hx
          have hget : ∀ m, (setInst s n { x with st := .returned, out := o }).insts[m]? =
              if n = m then some { x with st := .returned, out := o } else s.insts[m]? := by
            intro m; simp [setInst, List.getElem?_set, hlt]
          refine ⟨{ ms with running := ms.running.filter (· != k) }, rfl, ?_, ?_, hl.l4⟩
          · intro k'
            simp only [List.mem_filter, bne_iff_ne, ne_eq]
            constructor
            · rintro ⟨h1, h2⟩
              obtain ⟨m, z, a, b, c⟩ := (hl.l1 k').1 h1
              have hne : n ≠ m := by
                intro e; subst e; exact h2 (hl.l4 k' k n a hn)
              exact ⟨m, z, a, by rw [hget]; simp [hne, b], c⟩
            · rintro ⟨m, z, a, b, c⟩
              have a' : s.ent[k']? = some m := a
              rw [hget] at b
              by_cases hne : n = m
              · simp [hne] at b; subst b; cases c
              · simp [hne] at b
                refine ⟨(hl.l1 k').2 ⟨m, z, a', b, c⟩, ?_⟩
                intro e; subst e; rw [hn] at a'; cases a'; exact hne rfl
          · intro k' m a
            have a' : s.ent[k']? = some m := a
            obtain ⟨z, hz, c, d⟩ := hl.l3 k' m a'
            by_cases hne : n = m
            · subst hne
              exact ⟨{ x with st := .returned, out := o }, by rw [hget]; simp, by simp, by simp⟩
            · exact ⟨z, by rw [hget]; simp [hne, hz], c, d⟩
        · cases hs
      · cases hs
    · cases hs
  | closeExit n =>
    simp only [step, stepI] at hs
    split at hs
    · rename_i x hx
      split at hs
      · rename_i hgd
        simp at hs; subst hs
        exact hl.move n x _ hx (by simp [hgd]) (by simp) (fun h => by simp at h)
      · cases hs
    · cases hs
  | record n dur =>
    simp only [step, stepI] at hs
    split at hs
    · rename_i cf x _ hx
      split at hs
      · rename_i hgd
        have h1 := (recordCS_ok s s' cf n x dur hx hgd.1 hs).1.1
        exact hl.ext (recordCS_ent s s' cf n x dur hs) h1
      · cases hs
    · cases hs
  | emit o =>
    simp only [step, stepI] at hs
    split at hs
    · split at hs
      · rename_i hoo
        simp at hs; subst hs
        -- queued lines are backoff calls and exit callbacks: the monitor ignores them
        cases o with
        | bo r => exact ⟨ms, rfl, hl.frame rfl rfl⟩
        | exitcb j e => exact ⟨ms, rfl, hl.frame rfl rfl⟩
        | _ => simp [Obs.isLine] at hoo
      · cases hs
    · cases hs
  | fire t =>
    simp only [step, stepI] at hs
    split at hs
    · split at hs
      · simp at hs; subst hs; exact hl.frame rfl rfl
      · cases hs
    · cases hs
  | timerCS t =>
    simp only [step, stepI] at hs
    split at hs
    · rename_i tm htm
      split at hs
      · simp at hs; subst hs
        have hb : CSOK s { s with timers := s.timers.set t { tm with st := .dead } } := CSOK.of_eq rfl rfl
        exact hl.ext (by simp) (hb.trans (csok_timerBody _ t tm.rid)).1
      · cases hs
    · cases hs
  | probeCtx k b =>
    simp only [step, stepI] at hs
    split at hs
    · split at hs
      · simp at hs; subst hs; exact ⟨ms, rfl, hl⟩
      · cases hs
    · cases hs
  | probeW a b =>
    simp only [step, stepI] at hs
    split at hs
    · split at hs
      · split at hs
        · simp at hs; subst hs; exact ⟨ms, rfl, hl⟩
        · cases hs
      · cases hs
    · cases hs
  | quiesce p r l =>
    simp only [step] at hs
    split at hs
    · simp at hs; subst hs; exact ⟨ms, rfl, hl⟩
    · cases hs

theorem linkA_init : LinkA {} {} := by
  refine ⟨?_, ?_, ?_⟩
  · intro k; simp
  · intro k n h; simp at h
  · intro k k' n h; simp at h

theorem link_run (s0 s : St) (ms0 : C04St) (es : List Ev) (hg : Good s0) (hl : LinkA s0 ms0)
    (hr : model.run s0 es = some s) :
    ∃ ms, monC04a.run ms0 (es.filterMap model.obs) = some ms ∧ LinkA s ms := by
  induction es generalizing s0 ms0 with
  | nil => simp [OLTS.run] at hr; subst hr; exact ⟨ms0, rfl, hl⟩
  | cons e es ih =>
    simp only [OLTS.run] at hr
    cases hst : model.step s0 e with
    | none => simp [hst] at hr
    | some s1 =>
      simp [hst] at hr
      have hk := step_ok s0 s1 e hg.recs hst
      have hg1 : Good s1 := ⟨hk.1, hk.2.inv hg.chain⟩
      have hstep := link_step s0 s1 e ms0 hl hg.recs hst hg1
      cases hob : Ev.obs e with
      | none =>
        rw [hob] at hstep
        obtain ⟨ms, h1, h2⟩ := ih s1 ms0 hg1 hstep hr
        refine ⟨ms, ?_, h2⟩
        have : model.obs e = none := hob
        simpa [List.filterMap_cons, this] using h1
      | some o =>
        rw [hob] at hstep
        obtain ⟨ms1, hm1, hl1⟩ := hstep
        obtain ⟨ms, h1, h2⟩ := ih s1 ms1 hg1 hl1 hr
        refine ⟨ms, ?_, h2⟩
        have : model.obs e = some o := hob
        simp [List.filterMap_cons, this, ObsMonitor.run, hm1, h1]

end UtilModel.Routine
