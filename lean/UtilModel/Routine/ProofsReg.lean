import UtilModel.Routine.Monitors
/-!
# routine: the "last writer" lemma for the register bookkeeping of the monitors

`Reg` (Monitors.lean) keeps, for one register of the container (context / routine function / stored state), the
writers that may be the latest one under the real-time order of the history: `done` (returned, not known to be
overwritten) and `pend` (in flight, with the ids that were in `done` at the invocation).

`RegOK reg L cur wrote fin`: the register was last written by call `L` with value `cur`, and `L` is still recorded.
The lemmas below show that this is kept by `Reg.inv`, by a write, and by `Reg.ret`, whatever the interleaving:
a returning call only removes writers that had returned before it was invoked, and those wrote before it did.
Call ids are shifted by one in the monitors, id `0` is the initial value.
-/
namespace UtilModel.Routine
open UtilModel

structure RegOK (reg : Reg) (L cur : Nat) (wrote fin : Nat → Prop) : Prop where
  /-- the last writer is recorded with its value -/
  hL : (L, cur) ∈ reg.done ∨ ∃ S, (L, cur, S) ∈ reg.pend
  /-- if it is still in flight, it has written -/
  hW : ∀ v S, (L, v, S) ∈ reg.pend → wrote L
  /-- an in-flight call that has written does not have the last writer in its snapshot -/
  hI : ∀ b v S, (b, v, S) ∈ reg.pend → wrote b → L ∉ S
  /-- snapshots contain only calls that have returned (or the initial value) -/
  hJ : ∀ b v S, (b, v, S) ∈ reg.pend → ∀ i ∈ S, i = 0 ∨ fin i
  hP : ∀ b v S, (b, v, S) ∈ reg.pend → ¬ fin b ∧ b ≠ 0
  hD : ∀ b v, (b, v) ∈ reg.done → b = 0 ∨ fin b
  hN : (reg.pend.map (·.1)).Nodup

theorem regOK_init (wrote fin : Nat → Prop) : RegOK { done := [(0, 0)] } 0 0 wrote fin := by
  refine ⟨Or.inl (by simp), ?_, ?_, ?_, ?_, ?_, by simp⟩
  · intro v S h; simp at h
  · intro b v S h; simp at h
  · intro b v S h; simp at h
  · intro b v S h; simp at h
  · intro b v h; simp at h; exact Or.inl h.1

/-- the last writer's value is one of the possibly-current values -/
theorem RegOK.cur_mem {reg : Reg} {L cur : Nat} {wrote fin : Nat → Prop} (h : RegOK reg L cur wrote fin) :
    reg.vals.contains cur = true := by
  simp only [Reg.vals, List.contains_iff_mem, List.mem_append, List.mem_map]
  rcases h.hL with h1 | ⟨S, h1⟩
  · exact Or.inl ⟨_, h1, rfl⟩
  · exact Or.inr ⟨_, h1, rfl⟩

theorem RegOK.congr {reg : Reg} {L cur : Nat} {wrote fin wrote' fin' : Nat → Prop} (h : RegOK reg L cur wrote fin)
    (hw : ∀ b v S, (b, v, S) ∈ reg.pend → (wrote' b ↔ wrote b))
    (hf : ∀ i, fin i → fin' i)
    (hf' : ∀ b v S, (b, v, S) ∈ reg.pend → fin' b → fin b) : RegOK reg L cur wrote' fin' := by
  refine ⟨h.hL, ?_, ?_, ?_, ?_, ?_, h.hN⟩
  · intro v S hm; exact (hw L v S hm).2 (h.hW v S hm)
  · intro b v S hm hwb; exact h.hI b v S hm ((hw b v S hm).1 hwb)
  · intro b v S hm i hi
    rcases h.hJ b v S hm i hi with e | e
    · exact Or.inl e
    · exact Or.inr (hf i e)
  · intro b v S hm
    exact ⟨fun hfb => (h.hP b v S hm).1 (hf' b v S hm hfb), (h.hP b v S hm).2⟩
  · intro b v hm
    rcases h.hD b v hm with e | e
    · exact Or.inl e
    · exact Or.inr (hf b e)

/-- the last writer is not a call that is neither recorded as returned nor in flight -/
theorem RegOK.L_ne {reg : Reg} {L cur : Nat} {wrote fin : Nat → Prop} (h : RegOK reg L cur wrote fin)
    (a : Nat) (ha0 : a ≠ 0) (hnf : ¬ fin a) (hfresh : ∀ v S, (a, v, S) ∉ reg.pend) : L ≠ a := by
  intro e; subst e
  rcases h.hL with h1 | ⟨S, h1⟩
  · rcases h.hD _ _ h1 with e | e
    · exact ha0 e
    · exact hnf e
  · exact hfresh _ _ h1

/-- invocation of a writer -/
theorem RegOK.inv {reg : Reg} {L cur : Nat} {wrote fin : Nat → Prop} (h : RegOK reg L cur wrote fin)
    (a v : Nat) (ha0 : a ≠ 0) (hnf : ¬ fin a) (hnw : ¬ wrote a) (hfresh : ∀ v S, (a, v, S) ∉ reg.pend) :
    RegOK (reg.inv a v) L cur wrote fin := by
  have hne := h.L_ne a ha0 hnf hfresh
  refine ⟨?_, ?_, ?_, ?_, ?_, h.hD, ?_⟩
  · rcases h.hL with h1 | ⟨S, h1⟩
    · exact Or.inl h1
    · exact Or.inr ⟨S, List.mem_cons_of_mem _ h1⟩
  · intro v' S hm
    simp only [Reg.inv, List.mem_cons] at hm
    rcases hm with e | hm
    · cases e; exact absurd rfl hne
    · exact h.hW v' S hm
  · intro b v' S hm hwb
    simp only [Reg.inv, List.mem_cons] at hm
    rcases hm with e | hm
    · cases e; exact absurd hwb hnw
    · exact h.hI b v' S hm hwb
  · intro b v' S hm i hi
    simp only [Reg.inv, List.mem_cons] at hm
    rcases hm with e | hm
    · cases e
      simp only [List.mem_map] at hi
      obtain ⟨d, hd, e0⟩ := hi
      subst e0
      exact h.hD d.1 d.2 hd
    · exact h.hJ b v' S hm i hi
  · intro b v' S hm
    simp only [Reg.inv, List.mem_cons] at hm
    rcases hm with e | hm
    · cases e; exact ⟨hnf, ha0⟩
    · exact h.hP b v' S hm
  · simp only [Reg.inv, List.map_cons, List.nodup_cons]
    refine ⟨?_, h.hN⟩
    intro hm
    simp only [List.mem_map] at hm
    obtain ⟨p, hp, e0⟩ := hm
    exact hfresh p.2.1 p.2.2 (by rw [← e0]; exact hp)

/-- an in-flight call writes the register: it becomes the last writer -/
theorem RegOK.write {reg : Reg} {L cur : Nat} {wrote fin wrote' : Nat → Prop} (h : RegOK reg L cur wrote fin)
    (b v : Nat) (S : List Nat) (hb : (b, v, S) ∈ reg.pend)
    (hw : ∀ i, wrote' i ↔ (wrote i ∨ i = b)) : RegOK reg b v wrote' fin := by
  refine ⟨Or.inr ⟨S, hb⟩, ?_, ?_, h.hJ, h.hP, h.hD, h.hN⟩
  · intro _ _ _; exact (hw b).2 (Or.inr rfl)
  · intro b' v' S' hm _ hin
    rcases h.hJ b' v' S' hm b hin with e | e
    · exact (h.hP b v S hb).2 e
    · exact (h.hP b v S hb).1 e

theorem find_of_nodup {l : List (Nat × Nat × List Nat)} (hn : (l.map (·.1)).Nodup) {a v : Nat} {S : List Nat}
    (hm : (a, v, S) ∈ l) : l.find? (·.1 == a) = some (a, v, S) := by
  induction l with
  | nil => cases hm
  | cons p l ih =>
    simp only [List.map_cons, List.nodup_cons] at hn
    simp only [List.mem_cons] at hm
    rcases hm with e | hm
    · subst e; simp [List.find?_cons]
    · have hne : ¬ (p.1 == a) = true := by
        intro e
        have e' : p.1 = a := by simpa using e
        apply hn.1
        simp only [List.mem_map]
        exact ⟨(a, v, S), hm, by simp [e']⟩
      simp only [List.find?_cons, hne]
      exact ih hn.2 hm

theorem find_none_of_fresh {l : List (Nat × Nat × List Nat)} {a : Nat} (hf : ∀ v S, (a, v, S) ∉ l) :
    l.find? (·.1 == a) = none := by
  rw [List.find?_eq_none]
  intro p hp e
  have e' : p.1 = a := by simpa using e
  exact hf p.2.1 p.2.2 (by rw [← e']; exact hp)

theorem nodup_filter_map {l : List (Nat × Nat × List Nat)} (hn : (l.map (·.1)).Nodup) (q : Nat × Nat × List Nat → Bool) :
    ((l.filter q).map (·.1)).Nodup := by
  induction l with
  | nil => simp
  | cons p l ih =>
    simp only [List.map_cons, List.nodup_cons] at hn
    simp only [List.filter_cons]
    split
    · simp only [List.map_cons, List.nodup_cons]
      refine ⟨?_, ih hn.2⟩
      intro hm
      apply hn.1
      simp only [List.mem_map, List.mem_filter] at hm ⊢
      obtain ⟨p', hp', e0⟩ := hm
      exact ⟨p', hp'.1, e0⟩
    · exact ih hn.2

/-- value of an in-flight call is unique -/
theorem RegOK.pend_val {reg : Reg} {L cur : Nat} {wrote fin : Nat → Prop} (h : RegOK reg L cur wrote fin)
    {a v v' : Nat} {S S' : List Nat} (h1 : (a, v, S) ∈ reg.pend) (h2 : (a, v', S') ∈ reg.pend) : v = v' ∧ S = S' := by
  have e1 := find_of_nodup h.hN h1
  have e2 := find_of_nodup h.hN h2
  rw [e1] at e2
  simp only [Option.some.injEq, Prod.mk.injEq, true_and] at e2
  exact e2

/-- return of a writer that has written -/
theorem RegOK.ret_eff {reg : Reg} {L cur : Nat} {wrote fin fin' : Nat → Prop} (h : RegOK reg L cur wrote fin)
    (a v : Nat) (S : List Nat) (ha : (a, v, S) ∈ reg.pend) (hwa : wrote a)
    (hf : ∀ i, fin' i ↔ (fin i ∨ i = a)) : RegOK (reg.ret a true) L cur wrote fin' := by
  have hfind := find_of_nodup h.hN ha
  have hret : reg.ret a true = { done := (reg.done.filter fun d => !S.contains d.1) ++ [(a, v)],
                                 pend := reg.pend.filter (·.1 != a) } := by
    simp [Reg.ret, hfind]
  rw [hret]
  refine ⟨?_, ?_, ?_, ?_, ?_, ?_, nodup_filter_map h.hN _⟩
  · by_cases hLa : L = a
    · subst hLa
      rcases h.hL with h1 | ⟨S', h1⟩
      · exfalso
        rcases h.hD _ _ h1 with e | e
        · exact (h.hP _ _ _ ha).2 e
        · exact (h.hP _ _ _ ha).1 e
      · have := (h.pend_val h1 ha).1
        subst this
        left; simp
    · rcases h.hL with h1 | ⟨S', h1⟩
      · left
        simp only [List.mem_append, List.mem_filter, List.mem_singleton]
        left
        refine ⟨h1, ?_⟩
        have := h.hI a v S ha hwa
        simpa using this
      · right
        exact ⟨S', by simp only [List.mem_filter]; exact ⟨h1, by simpa using hLa⟩⟩
  · intro v' S' hm
    simp only [List.mem_filter] at hm
    exact h.hW v' S' hm.1
  · intro b v' S' hm hwb
    simp only [List.mem_filter] at hm
    exact h.hI b v' S' hm.1 hwb
  · intro b v' S' hm i hi
    simp only [List.mem_filter] at hm
    rcases h.hJ b v' S' hm.1 i hi with e | e
    · exact Or.inl e
    · exact Or.inr ((hf i).2 (Or.inl e))
  · intro b v' S' hm
    simp only [List.mem_filter, bne_iff_ne, ne_eq] at hm
    refine ⟨?_, (h.hP b v' S' hm.1).2⟩
    intro hfb
    rcases (hf b).1 hfb with e | e
    · exact (h.hP b v' S' hm.1).1 e
    · exact hm.2 e
  · intro b v' hm
    simp only [List.mem_append, List.mem_filter, List.mem_singleton, Prod.mk.injEq] at hm
    rcases hm with hm | hm
    · rcases h.hD b v' hm.1 with e | e
      · exact Or.inl e
      · exact Or.inr ((hf b).2 (Or.inl e))
    · exact Or.inr ((hf b).2 (Or.inr hm.1))

/-- return of a writer whose critical section did not change the register -/
theorem RegOK.ret_ineff {reg : Reg} {L cur : Nat} {wrote fin fin' : Nat → Prop} (h : RegOK reg L cur wrote fin)
    (a v : Nat) (S : List Nat) (ha : (a, v, S) ∈ reg.pend) (hwa : ¬ wrote a)
    (hf : ∀ i, fin' i ↔ (fin i ∨ i = a)) : RegOK (reg.ret a false) L cur wrote fin' := by
  have hfind := find_of_nodup h.hN ha
  have hret : reg.ret a false = { reg with pend := reg.pend.filter (·.1 != a) } := by
    simp [Reg.ret, hfind]
  rw [hret]
  have hLa : L ≠ a := by
    intro e; subst e
    rcases h.hL with h1 | ⟨S', h1⟩
    · rcases h.hD _ _ h1 with e | e
      · exact (h.hP _ _ _ ha).2 e
      · exact (h.hP _ _ _ ha).1 e
    · exact hwa (h.hW _ _ h1)
  refine ⟨?_, ?_, ?_, ?_, ?_, ?_, nodup_filter_map h.hN _⟩
  · rcases h.hL with h1 | ⟨S', h1⟩
    · exact Or.inl h1
    · right
      exact ⟨S', by simp only [List.mem_filter]; exact ⟨h1, by simpa using hLa⟩⟩
  · intro v' S' hm
    simp only [List.mem_filter] at hm
    exact h.hW v' S' hm.1
  · intro b v' S' hm hwb
    simp only [List.mem_filter] at hm
    exact h.hI b v' S' hm.1 hwb
  · intro b v' S' hm i hi
    simp only [List.mem_filter] at hm
    rcases h.hJ b v' S' hm.1 i hi with e | e
    · exact Or.inl e
    · exact Or.inr ((hf i).2 (Or.inl e))
  · intro b v' S' hm
    simp only [List.mem_filter, bne_iff_ne, ne_eq] at hm
    refine ⟨?_, (h.hP b v' S' hm.1).2⟩
    intro hfb
    rcases (hf b).1 hfb with e | e
    · exact (h.hP b v' S' hm.1).1 e
    · exact hm.2 e
  · intro b v' hm
    rcases h.hD b v' hm with e | e
    · exact Or.inl e
    · exact Or.inr ((hf b).2 (Or.inl e))

/-- return of a call that does not write this register -/
theorem RegOK.ret_none {reg : Reg} {L cur : Nat} {wrote fin fin' : Nat → Prop} (h : RegOK reg L cur wrote fin)
    (a : Nat) (eff : Bool) (hfresh : ∀ v S, (a, v, S) ∉ reg.pend)
    (hf : ∀ i, fin' i ↔ (fin i ∨ i = a)) : RegOK (reg.ret a eff) L cur wrote fin' := by
  have hret : reg.ret a eff = reg := by simp [Reg.ret, find_none_of_fresh hfresh]
  rw [hret]
  refine h.congr (fun _ _ _ _ => Iff.rfl) (fun i hi => (hf i).2 (Or.inl hi)) ?_
  intro b v S hm hfb
  rcases (hf b).1 hfb with e | e
  · exact e
  · subst e; exact absurd hm (hfresh v S)

end UtilModel.Routine
